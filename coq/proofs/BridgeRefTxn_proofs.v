(** Bridge B7a (C15 -> C14): proofs for model/BridgeRefTxn.v.
    Structure: (1) a crash inside a RunInTx body is all-or-nothing and the complete body is
    RefSql.v's method; (2) GetTransactionLogs on the SQL model = newest tagged entry of the
    specification's log; (3) Commit / Discard over the SQL store and over the map specification
    compute the same plans and stay related by C15's simulation relation [R]; (4) Commit /
    Discard over the map specification simulate Txn.v's; (5) composition and the C14 corollaries. *)
From Coq Require Import List NArith Bool Arith Permutation Lia.
From W.lib Require Import Tree Bytes.
From W.model Require Import RefStore Like RefSql BridgeRefTxn.
From W.model Require Txn.
From W.proofs Require Import RefLike_proofs RefStore_proofs RefSql_proofs.
From W.proofs Require Txn_proofs.
Import ListNotations.
Local Open Scope N_scope.

(** * 1. Statement level *)
Lemma run_events_dead : forall ss d, run_events (map EStmt ss) (mk_sqlst d None) = mk_sqlst d None.
Proof. induction ss as [|s ss IH]; intros d; [reflexivity|]. cbn. apply IH. Qed.

Lemma run_events_stmts : forall ss d w,
  run_events (map EStmt ss) (mk_sqlst d (Some w)) = mk_sqlst d (run_stmts ss w).
Proof.
  induction ss as [|s ss IH]; intros d w; [reflexivity|].
  cbn [map run_events fold_left ev_step work disk run_stmts].
  destruct (s w) as [w'|]; [apply IH|apply run_events_dead].
Qed.

Lemma disk_no_commit : forall es q, ~ In ECommit es -> disk (run_events es q) = disk q.
Proof.
  induction es as [|e es IH]; intros q Hn; [reflexivity|].
  cbn [run_events fold_left]. fold (run_events es (ev_step q e)).
  rewrite IH by (intros Hi; apply Hn; now right).
  destruct e; cbn [ev_step].
  - reflexivity.
  - destruct (work q) as [w|]; [destruct (s w)|]; reflexivity.
  - exfalso. apply Hn. now left.
Qed.

Lemma firstn_in : forall {A} n (l : list A) x, In x (firstn n l) -> In x l.
Proof.
  intros A n. induction n as [|n IH]; intros l x Hx; [destruct Hx|].
  destruct l as [|y l]; [destruct Hx|]. destruct Hx as [->|Hx]; [now left|right; now apply IH].
Qed.

Lemma crash_early : forall d ss j, (j <= S (length ss))%nat -> crash_in_tx d ss j = d.
Proof.
  intros d ss j Hj. unfold crash_in_tx, recover.
  rewrite disk_no_commit; [reflexivity|].
  unfold tx_events.
  change (EBegin :: map EStmt ss ++ [ECommit]) with ((EBegin :: map EStmt ss) ++ [ECommit]).
  rewrite firstn_app.
  replace (j - length (EBegin :: map EStmt ss))%nat with 0%nat by (cbn [length]; rewrite map_length; lia).
  cbn [firstn]. rewrite app_nil_r. intros Hi. apply firstn_in in Hi.
  destruct Hi as [Hi|Hi]; [discriminate|]. apply in_map_iff in Hi. destruct Hi as [s [Hs _]]. discriminate.
Qed.

Lemma crash_late : forall d ss j, (S (length ss) < j)%nat ->
  crash_in_tx d ss j = fst (in_tx d (run_stmts ss d)).
Proof.
  intros d ss j Hj. unfold crash_in_tx, recover.
  rewrite firstn_all2 by (unfold tx_events; cbn [length]; rewrite app_length, map_length; cbn; lia).
  unfold tx_events, run_events. cbn [fold_left ev_step disk].
  rewrite fold_left_app. fold (run_events (map EStmt ss) (mk_sqlst d (Some d))).
  rewrite run_events_stmts. cbn [fold_left ev_step work].
  destruct (run_stmts ss d); reflexivity.
Qed.

Lemma tx_body_cstep : forall fk d p ss, tx_body p d = Some ss -> in_tx d (run_stmts ss d) = cstep fk d p.
Proof.
  intros fk d p ss Hb. destruct p; cbn [tx_body] in Hb; try discriminate; injection Hb as <-.
  - (* SetWithLog *) cbn [run_stmts cstep].
    destruct (sql_insert_log _ (sql_upsert_ref k v d)); reflexivity.
  - (* Delete *) reflexivity.
  - (* Rename *) cbn [run_stmts cstep]. destruct (sql_select_sum a d) as [sum|]; [|reflexivity].
    destruct (sql_insert_ref b (Some sum) d) as [d1|]; [|reflexivity]. cbn [bind].
    destruct (sql_move_logs b a d1) as [d2|]; reflexivity.
  - (* Copy *) cbn [run_stmts cstep]. destruct (sql_insert_ref b (sql_select_sum a d) d) as [d1|]; [|reflexivity].
    cbn [bind]. destruct (sql_copy_logs b a d1); reflexivity.
Qed.

(** a crash at ANY event of ANY method leaves either the database as it was or the database the
    complete method produces *)
Lemma cstep_crash_cases : forall fk d p j,
  cstep_crash fk d p j = d \/ cstep_crash fk d p j = fst (cstep fk d p).
Proof.
  intros fk d p j. unfold cstep_crash. destruct (tx_body p d) as [ss|] eqn:Hb.
  - destruct (Nat.le_gt_cases j (S (length ss))) as [Hj|Hj].
    + left. now apply crash_early.
    + right. rewrite (crash_late d ss j Hj). now rewrite (tx_body_cstep fk d p ss Hb).
  - destruct j; [now left|now right].
Qed.

(** the exact boundary for SetWithLog: BEGIN, upsert, insert = 3 events without effect *)
Lemma setwithlog_crash : forall fk d k v m j,
  cstep_crash fk d (PSetLog k v m) j = if (j <=? 3)%nat then d else fst (cstep fk d (PSetLog k v m)).
Proof.
  intros fk d k v m j. unfold cstep_crash. cbn [tx_body].
  destruct (Nat.leb_spec j 3) as [Hj|Hj].
  - apply crash_early. cbn [length]. lia.
  - rewrite crash_late by (cbn [length]; lia).
    now rewrite (tx_body_cstep fk d (PSetLog k v m) _ eq_refl).
Qed.

(** * 2. GetTransactionLogs *)
Lemma txlog_rows : forall (P : row -> bool) k L acc,
  fold_left (fun a r => if beqb k (r_ref r) then Some (r_new r) else a) (filter P L) acc =
  fold_left (fun _ r => Some (r_new r)) (filter P (rows_of k L)) acc.
Proof.
  intros P k L. unfold rows_of. induction L as [|r L IH]; intros acc; [reflexivity|].
  cbn [filter]. destruct (P r) eqn:EP; destruct (beqb k (r_ref r)) eqn:Ek; cbn [filter fold_left];
    rewrite ?EP, ?Ek; cbn [fold_left]; rewrite ?Ek; apply IH.
Qed.

Lemma txlog_number : forall t k l s acc,
  fold_left (fun _ r => Some (r_new r))
            (filter (fun r => has_tx t (r_meta r)) (number k s (rev l))) acc =
  match s_txlog_of t l with Some v => Some v | None => acc end.
Proof.
  intros t k l s. induction l as [|e l IH]; intros acc; [reflexivity|].
  cbn [rev]. rewrite number_app, filter_app, fold_left_app, IH.
  cbn [number filter row_of r_meta s_txlog_of].
  destruct (has_tx t (le_meta e)); reflexivity.
Qed.

Lemma R_txlog : forall a c t k, R a c -> c_txlog c t k = s_txlog a t k.
Proof.
  intros a c t k HR. unfold c_txlog, sql_select_txid, s_txlog.
  rewrite txlog_rows, (R_logs a c HR), txlog_number. now destruct (s_txlog_of t (logs a k)).
Qed.

(** * 3. The SQL store and the map specification run the same transaction code *)
Definition XR (xa : cst sstate) (xc : cst db) : Prop :=
  R (x_store xa) (x_store xc) /\
  (forall i, x_txs xa i = x_txs xc i) /\ (forall v, x_objs xa v = x_objs xc v).

Section SpecSql.
  Variable fk : filter_kind.
  Hypothesis fk_ok : filter_ok fk = true.
  Variable hash : ccommit -> value.
  Variable tn : Txn.txid -> bytes.
  Variable tb : Txn.txid -> bytes.
  Variables cm_author cm_email cm_line : ccommit -> bytes.

  Notation sapply := (c_apply hash spec_ops).
  Notation dapply := (c_apply hash (sql_ops fk)).

  Lemma apply_XR : forall xa xc w, XR xa xc ->
    snd (sapply xa w) = snd (dapply xc w) /\ XR (fst (sapply xa w)) (fst (dapply xc w)).
  Proof.
    intros xa xc w [HR [Ht Ho]]. destruct w as [c|k v m|i st|k|i]; cbn [c_apply].
    - split; [reflexivity|]. split; [exact HR|]. split; [exact Ht|].
      intros v. cbn [fst x_objs]. now rewrite Ho.
    - cbn [so_step spec_ops sql_ops].
      destruct (op_sim fk fk_ok (OSaveRef k v m) _ _ HR) as [E HR'].
      destruct (sstep_op (x_store xa) (OSaveRef k v m)) as [a' ra].
      destruct (cstep_op fk (x_store xc) (OSaveRef k v m)) as [c' rc]. cbn [fst snd] in *.
      split; [now symmetry|]. split; [exact HR'|]. now split.
    - rewrite <- (Ht i). split; [reflexivity|].
      destruct (x_txs xa i); cbn [fst]; [|now split].
      split; [exact HR|]. split; [|exact Ho]. intros i'. cbn [x_txs]. unfold Txn.upd.
      now rewrite Ht.
    - cbn [so_step spec_ops sql_ops].
      destruct (op_sim fk fk_ok (OP (PDelete k)) _ _ HR) as [E HR'].
      destruct (sstep_op (x_store xa) (OP (PDelete k))) as [a' ra].
      destruct (cstep_op fk (x_store xc) (OP (PDelete k))) as [c' rc]. cbn [fst snd] in *.
      split; [now symmetry|]. split; [exact HR'|]. now split.
    - rewrite <- (Ht i). split; [reflexivity|].
      destruct (x_txs xa i) as [[|]|]; cbn [fst]; try (now split).
      split; [exact HR|]. split; [|exact Ho]. intros i'. cbn [x_txs]. unfold Txn.upd.
      now rewrite Ht.
  Qed.

  Lemma apply_all_XR : forall ws xa xc, XR xa xc ->
    XR (c_apply_all hash spec_ops ws xa) (c_apply_all hash (sql_ops fk) ws xc).
  Proof.
    induction ws as [|w ws IH]; intros xa xc HX; [exact HX|].
    cbn [c_apply_all fold_left]. apply IH. now apply apply_XR.
  Qed.

  Lemma upto_XR : forall n ws xa xc, XR xa xc ->
    snd (c_apply_upto hash spec_ops n ws xa) = snd (c_apply_upto hash (sql_ops fk) n ws xc) /\
    XR (fst (c_apply_upto hash spec_ops n ws xa)) (fst (c_apply_upto hash (sql_ops fk) n ws xc)).
  Proof.
    induction n as [|n IH]; intros ws xa xc HX; [now split|].
    destruct ws as [|w ws]; [now split|]. cbn [c_apply_upto].
    destruct (apply_XR xa xc w HX) as [E HX'].
    destruct (sapply xa w) as [xa' ra]. destruct (dapply xc w) as [xc' rc]. cbn [fst snd] in *.
    subst rc. destruct ra; try (now split). now apply IH.
  Qed.

  Lemma get_XR : forall xa xc k, XR xa xc -> c_get spec_ops xa k = c_get (sql_ops fk) xc k.
  Proof.
    intros xa xc k [HR _]. unfold c_get. cbn [so_step spec_ops sql_ops].
    destruct (op_sim fk fk_ok (OP (PGet k)) _ _ HR) as [E _]. now rewrite E.
  Qed.

  Lemma loop_XR : forall id m xa xc lga lgc, XR xa xc -> (forall k, lga k = lgc k) ->
    c_commit_loop hash tb cm_author cm_email cm_line spec_ops id lga m xa =
    c_commit_loop hash tb cm_author cm_email cm_line (sql_ops fk) id lgc m xc.
  Proof.
    intros id m. induction m as [|[b sum] m IH]; intros xa xc lga lgc HX Hlg; [reflexivity|].
    cbn [c_commit_loop]. rewrite <- Hlg. destruct HX as [HR [Ht Ho]].
    destruct (lga (href b)) as [v|].
    - rewrite <- Ho. destruct (x_objs xa v); [|reflexivity]. apply IH; [now split|exact Hlg].
    - rewrite <- Ho. destruct (x_objs xa sum) as [com|]; [|reflexivity].
      rewrite <- (get_XR xa xc (href b)) by now split.
      rewrite (IH _ (c_apply_all hash (sql_ops fk)
                 [CPutCommit (mk_cc (cc_tbl com) (cc_meta com) (id :: cc_pfx com) (c_get spec_ops xa (href b)));
                  CSaveRef (href b)
                    (hash (mk_cc (cc_tbl com) (cc_meta com) (id :: cc_pfx com) (c_get spec_ops xa (href b))))
                    (commit_meta tb cm_author cm_email cm_line com id)] xc) lga lgc); [reflexivity| |exact Hlg].
      apply apply_all_XR. now split.
  Qed.

  Lemma commit_XR : forall cord id xa xc, XR xa xc ->
    c_tx_commit hash tn tb cm_author cm_email cm_line spec_ops cord id xa =
    c_tx_commit hash tn tb cm_author cm_email cm_line (sql_ops fk) cord id xc.
  Proof.
    intros cord id xa xc HX. unfold c_tx_commit. destruct HX as [HR [Ht Ho]]. rewrite <- Ht.
    destruct (x_txs xa id) as [[|]|]; try reflexivity.
    unfold c_list_tx. cbn [so_step so_txlog spec_ops sql_ops].
    destruct (op_sim fk fk_ok (OListRefs (tx_prefix (tn id))) _ _ HR) as [E _]. rewrite E.
    destruct (snd (sstep_op (x_store xa) (OListRefs (tx_prefix (tn id))))); try reflexivity.
    apply loop_XR; [now split|]. intros k. symmetry. now apply R_txlog.
  Qed.

  Lemma discard_XR : forall id xa xc, XR xa xc ->
    c_tx_discard tn spec_ops id xa = c_tx_discard tn (sql_ops fk) id xc.
  Proof.
    intros id xa xc [HR [Ht Ho]]. unfold c_tx_discard. rewrite <- Ht.
    destruct (x_txs xa id) as [[|]|]; try reflexivity.
    cbn [so_step spec_ops sql_ops].
    destruct (op_sim fk fk_ok (OP (PFilterKey [tx_prefix (tn id)] [])) _ _ HR) as [E _]. now rewrite E.
  Qed.

  (** ** a crash inside write n+1 = n or n+1 writes *)
  Lemma d_apply_crash_cases : forall x w j,
    d_apply_crash hash fk x w j = x \/ d_apply_crash hash fk x w j = fst (dapply x w).
  Proof.
    intros x w j. unfold d_apply_crash. destruct w as [c|k v m|i st|k|i]; cbn [write_prim].
    - destruct j; [now left|now right].
    - destruct (cstep_crash_cases fk (x_store x) (PSetLog k v m) j) as [E|E]; rewrite E.
      + left. now destruct x.
      + right. cbn [c_apply so_step sql_ops]. unfold cstep_op. cbn [prog_of p_save_ref interp].
        destruct (cstep fk (x_store x) (PGet k)) as [d0 r0] eqn:E0. cbn in E0. injection E0 as <- _.
        now destruct (cstep fk (x_store x) (PSetLog k v m)).
    - destruct j; [now left|now right].
    - destruct (cstep_crash_cases fk (x_store x) (PDelete k) j) as [E|E]; rewrite E.
      + left. now destruct x.
      + right. cbn [c_apply so_step sql_ops]. unfold cstep_op. cbn [prog_of interp].
        now destruct (cstep fk (x_store x) (PDelete k)).
    - destruct j; [now left|now right].
  Qed.

  Lemma upto_S : forall n ws x w,
    snd (c_apply_upto hash (sql_ops fk) n ws x) = true -> nth_error ws n = Some w ->
    fst (c_apply_upto hash (sql_ops fk) (S n) ws x) =
    fst (dapply (fst (c_apply_upto hash (sql_ops fk) n ws x)) w).
  Proof.
    induction n as [|n IH]; intros ws x w Hok Hn.
    - destruct ws as [|w0 ws]; [discriminate|]. injection Hn as ->. cbn [c_apply_upto fst].
      destruct (dapply x w) as [x' r]. cbn [fst]. now destruct r.
    - destruct ws as [|w0 ws]; [discriminate|]. cbn [nth_error] in Hn.
      change (c_apply_upto hash (sql_ops fk) (S (S n)) (w0 :: ws) x)
        with (let '(x', r) := dapply x w0 in
              match r with ROk => c_apply_upto hash (sql_ops fk) (S n) ws x' | _ => (x', false) end).
      change (c_apply_upto hash (sql_ops fk) (S n) (w0 :: ws) x)
        with (let '(x', r) := dapply x w0 in
              match r with ROk => c_apply_upto hash (sql_ops fk) n ws x' | _ => (x', false) end) in *.
      destruct (dapply x w0) as [x' r]. destruct r; try discriminate. now apply IH.
  Qed.

  Lemma upto_short : forall n ws x, nth_error ws n = None ->
    c_apply_upto hash (sql_ops fk) (S n) ws x = c_apply_upto hash (sql_ops fk) n ws x.
  Proof.
    induction n as [|n IH]; intros ws x Hn.
    - destruct ws; [reflexivity|discriminate].
    - destruct ws as [|w0 ws]; [reflexivity|]. cbn [nth_error] in Hn.
      change (c_apply_upto hash (sql_ops fk) (S (S n)) (w0 :: ws) x)
        with (let '(x', r) := dapply x w0 in
              match r with ROk => c_apply_upto hash (sql_ops fk) (S n) ws x' | _ => (x', false) end).
      change (c_apply_upto hash (sql_ops fk) (S n) (w0 :: ws) x)
        with (let '(x', r) := dapply x w0 in
              match r with ROk => c_apply_upto hash (sql_ops fk) n ws x' | _ => (x', false) end).
      destruct (dapply x w0) as [x' r]. destruct r; try reflexivity. now apply IH.
  Qed.

  Lemma crash_cases : forall n j ws x,
    d_run_crash hash fk n j ws x = fst (c_apply_upto hash (sql_ops fk) n ws x) \/
    d_run_crash hash fk n j ws x = fst (c_apply_upto hash (sql_ops fk) (S n) ws x).
  Proof.
    intros n j ws x. unfold d_run_crash.
    destruct (c_apply_upto hash (sql_ops fk) n ws x) as [x' ok] eqn:E.
    destruct ok; [|now left].
    destruct (nth_error ws n) as [w|] eqn:En; [|now left].
    destruct (d_apply_crash_cases x' w j) as [Ec|Ec]; rewrite Ec; [now left|right].
    rewrite (upto_S n ws x w); [now rewrite E|now rewrite E|exact En].
  Qed.
End SpecSql.

(** * 4. The run over the map specification simulates Txn.v's *)
Lemma is_prefix_app_same : forall p x y, is_prefix (p ++ x) (p ++ y) = is_prefix x y.
Proof. induction p as [|a p IH]; intros x y; cbn; [reflexivity|]. now rewrite N.eqb_refl, IH. Qed.

Lemma is_prefix_eqlen : forall a b u w,
  length a = length b -> is_prefix (a ++ u) (b ++ w) = true -> a = b.
Proof.
  induction a as [|x a IH]; intros [|y b] u w Hl Hp; cbn in *; try discriminate; [reflexivity|].
  apply andb_prop in Hp. destruct Hp as [Hxy Hp]. apply N.eqb_eq in Hxy. subst y.
  f_equal. apply (IH b u w); [now injection Hl|exact Hp].
Qed.

Lemma skipn_app_len : forall {A} (p x : list A), skipn (length p) (p ++ x) = x.
Proof. intros A p x. induction p as [|a p IH]; [reflexivity|exact IH]. Qed.

Lemma beqb_app_l : forall p x y, beqb (p ++ x) (p ++ y) = beqb x y.
Proof. intros p x y. unfold beqb. now rewrite bcmp_app_l. Qed.

Lemma Permutation_filter' : forall {A} (f : A -> bool) l l',
  Permutation l l' -> Permutation (filter f l) (filter f l').
Proof.
  intros A f l l' HP. induction HP as [|x l l' _ IH|x y l|l l' l'' _ IH1 _ IH2]; cbn.
  - constructor.
  - destruct (f x); [now constructor|exact IH].
  - destruct (f x), (f y); try apply Permutation_refl. apply perm_swap.
  - eapply Permutation_trans; eauto.
Qed.

Lemma filter_m_set_out : forall (P : name -> bool) k (v : value) m, P k = false ->
  filter (fun kv => P (fst kv)) (m_set k v m) = filter (fun kv => P (fst kv)) m.
Proof.
  intros P k v m HP. induction m as [|[k0 v0] m IH]; cbn [m_set].
  - cbn. now rewrite HP.
  - destruct (bcmp k k0) eqn:E.
    + apply bcmp_eq in E. subst k0. cbn. now rewrite HP.
    + cbn [filter fst]. now rewrite HP.
    + cbn [filter fst]. now rewrite IH.
Qed.

Lemma tx_not_head : forall x y, is_prefix (tx_prefix x) (href y) = false.
Proof. reflexivity. Qed.

Lemma head_ne_tx : forall x y z, href y <> tx_prefix x ++ z.
Proof.
  intros x y z E. pose proof (is_prefix_app (tx_prefix x) z) as Hp.
  rewrite <- E, tx_not_head in Hp. discriminate.
Qed.

Lemma del_list_other : forall p k rf lg lg', is_prefix p k = false ->
  s_list_refs p (mk_sstate (m_del k rf) lg) = s_list_refs p (mk_sstate rf lg').
Proof.
  intros p k rf lg lg' Hk. unfold s_list_refs, m_del. cbn [refs]. f_equal.
  induction rf as [|[k0 v0] rf IH]; [reflexivity|]. cbn [filter fst].
  destruct (beqb k k0) eqn:Eb; cbn [negb filter fst].
  - apply beqb_true in Eb. subst k0. now rewrite Hk.
  - now rewrite IH.
Qed.

Lemma del_list_same : forall p nb rf lg lg',
  s_list_refs p (mk_sstate (m_del (p ++ nb) rf) lg) =
  filter (fun kv => negb (beqb nb (fst kv))) (s_list_refs p (mk_sstate rf lg')).
Proof.
  intros p nb rf lg lg'. unfold s_list_refs, m_del. cbn [refs].
  induction rf as [|[k0 v0] rf IH]; [reflexivity|]. cbn [filter fst].
  destruct (is_prefix p k0) eqn:Ep.
  - pose proof (is_prefix_split p k0 Ep) as Es.
    destruct (beqb (p ++ nb) k0) eqn:Eb; cbn [negb filter fst map snd].
    + apply beqb_true in Eb. subst k0. rewrite skipn_app_len, beqb_refl. cbn [negb]. exact IH.
    + rewrite Ep. cbn [map fst snd].
      assert (beqb nb (skipn (length p) k0) = false) as ->.
      { apply beqb_false. intros E. apply beqb_false in Eb. apply Eb. now rewrite E. }
      cbn [negb]. now rewrite IH.
  - assert (beqb (p ++ nb) k0 = false) as ->.
    { apply beqb_false. intros E. subst k0. rewrite is_prefix_app in Ep. discriminate. }
    cbn [negb filter fst]. rewrite Ep. exact IH.
Qed.

Section SpecTxn.
  Variable hash : ccommit -> value.
  Variable tn : Txn.txid -> bytes.
  Variable tb : Txn.txid -> bytes.
  Variables cm_author cm_email cm_line : ccommit -> bytes.
  Variable bn : Txn.branch -> bytes.
  Hypothesis Hok : enc_ok hash tn tb bn.

  Notation HH := (BridgeRefTxn.H hash).
  Notation cenc := (enc hash).
  Notation TRel := (TR hash tn tb bn).
  Notation wrel := (write_rel hash tn tb bn).
  Notation erel := (ent_rel hash tb).
  Notation pairenc := (encp hash bn).
  Notation sapply := (c_apply hash spec_ops).
  Notation cloop := (c_commit_loop hash tb cm_author cm_email cm_line spec_ops).

  Lemma hash_inj : inj hash. Proof. apply Hok. Qed.
  Lemma bn_inj : inj bn. Proof. apply Hok. Qed.
  Lemma tn_inj : inj tn. Proof. apply Hok. Qed.
  Lemma tb_inj : inj tb. Proof. apply Hok. Qed.
  Lemma tn_len : forall i j, length (tn i) = length (tn j). Proof. apply Hok. Qed.

  Lemma enc_inj : forall c1 c2, cenc c1 = cenc c2 -> c1 = c2.
  Proof.
    induction c1 as [t m p|t m p c1 IH]; intros [t' m' p'|t' m' p' c2] E; cbn in E; try discriminate.
    - now injection E as -> -> ->.
    - injection E as -> -> -> E. apply hash_inj in E. f_equal. now apply IH.
  Qed.

  Lemma H_inj : forall c1 c2, HH c1 = HH c2 -> c1 = c2.
  Proof. intros c1 c2 E. apply enc_inj. now apply hash_inj. Qed.

  Lemma beqb_H : forall c1 c2, beqb (HH c1) (HH c2) = Txn.commit_eqb c1 c2.
  Proof.
    intros c1 c2. destruct (Txn.commit_eqb c1 c2) eqn:E.
    - apply Txn_proofs.commit_eqb_eq in E. subst. apply beqb_refl.
    - apply beqb_false. intros E'. apply H_inj in E'. subst.
      rewrite Txn_proofs.commit_eqb_refl in E. discriminate.
  Qed.

  Lemma beqb_href : forall b b', beqb (href (bn b)) (href (bn b')) = (b' =? b).
  Proof.
    intros b b'. destruct (N.eqb_spec b' b) as [->|Hne]; [apply beqb_refl|].
    apply beqb_false. intros E. apply app_inv_head in E. apply bn_inj in E. congruence.
  Qed.

  Lemma beqb_bn : forall b b', beqb (bn b) (bn b') = (b' =? b).
  Proof.
    intros b b'. destruct (N.eqb_spec b' b) as [->|Hne]; [apply beqb_refl|].
    apply beqb_false. intros E. apply bn_inj in E. congruence.
  Qed.

  Lemma tx_prefix_inj : forall i j z, is_prefix (tx_prefix (tn i)) (tx_prefix (tn j) ++ z) = true -> i = j.
  Proof.
    intros i j z Hp. unfold tx_prefix in Hp. rewrite <- !app_assoc in Hp.
    rewrite is_prefix_app_same in Hp. apply tn_inj. eapply is_prefix_eqlen; [apply tn_len|exact Hp].
  Qed.

  Lemma filter_encp : forall b (l : list (N * Txn.commit)),
    filter (fun kv => negb (beqb (bn b) (fst kv))) (map pairenc l) =
    map pairenc (filter (fun e : N * Txn.commit => negb (fst e =? b)) l).
  Proof.
    intros b l. induction l as [|e l IH]; [reflexivity|]. cbn [map filter encp fst].
    rewrite beqb_bn. change (@fst Txn.branch Txn.commit e) with (@fst N Txn.commit e).
    destruct (fst e =? b); cbn [negb map]; now rewrite IH.
  Qed.

  (** ** one write *)
  Lemma sim_put : forall t x c, TRel t x ->
    TRel (Txn.apply t (Txn.WPutCommit c)) (fst (sapply x (CPutCommit (cenc c)))).
  Proof.
    intros t x c [Hh Hl Hs Ht Ho Ha]. cbn [c_apply fst Txn.apply].
    split; cbn [x_store x_txs x_objs Txn.heads Txn.logs Txn.staged Txn.txs Txn.stored]; auto.
    - intros c0. fold (HH c). rewrite beqb_H, Ho. now destruct (Txn.commit_eqb c0 c).
    - intros v cc. destruct (beqb v (hash (cenc c))) eqn:E; [|apply Ha].
      intros [= <-]. apply beqb_true in E. now symmetry.
  Qed.

  Lemma sim_set : forall t x b c tx m, m_txid m = option_map tb tx -> TRel t x ->
    TRel (Txn.apply t (Txn.WSetWithLog b c tx)) (fst (sapply x (CSaveRef (href (bn b)) (HH c) m))) /\
    snd (sapply x (CSaveRef (href (bn b)) (HH c) m)) = ROk.
  Proof.
    intros t x b c tx m Hm [Hh Hl Hs Ht Ho Ha].
    cbn [c_apply so_step spec_ops sstep_op sstep fst snd Txn.apply]. split; [|reflexivity].
    split; cbn [x_store x_txs x_objs refs logs Txn.heads Txn.logs Txn.staged Txn.txs Txn.stored]; auto.
    - intros b'. rewrite m_get_set, beqb_href. unfold Txn.upd. destruct (b' =? b); [reflexivity|apply Hh].
    - intros b'. rewrite fupd_eq, beqb_href. unfold Txn.upd. destruct (N.eqb_spec b' b) as [->|Hne]; [|apply Hl].
      constructor; [|apply Hl]. split; [|split]; cbn; [apply Hh|reflexivity|exact Hm].
    - intros i. unfold s_list_refs. cbn [refs].
      rewrite (filter_m_set_out (is_prefix (tx_prefix (tn i)))) by apply tx_not_head. apply Hs.
  Qed.

  Lemma sim_upd : forall t x i st, TRel t x ->
    TRel (Txn.apply t (Txn.WUpdateTx i st)) (fst (sapply x (CUpdateTx i st))).
  Proof.
    intros t x i st HT. pose proof HT as [Hh Hl Hs Ht Ho Ha]. cbn [c_apply fst Txn.apply]. rewrite Ht.
    destruct (Txn.txs t i); [|exact HT].
    split; cbn [x_store x_txs x_objs Txn.heads Txn.logs Txn.staged Txn.txs Txn.stored]; auto.
    intros i'. unfold Txn.upd. now rewrite Ht.
  Qed.

  Lemma sim_deltx : forall t x i, TRel t x ->
    TRel (Txn.apply t (Txn.WDelTx i)) (fst (sapply x (CDelTx i))).
  Proof.
    intros t x i HT. pose proof HT as [Hh Hl Hs Ht Ho Ha]. cbn [c_apply fst Txn.apply]. rewrite Ht.
    destruct (Txn.txs t i) as [[|]|]; try exact HT.
    split; cbn [x_store x_txs x_objs Txn.heads Txn.logs Txn.staged Txn.txs Txn.stored]; auto.
    intros i'. unfold Txn.upd. now rewrite Ht.
  Qed.

  Lemma sim_del : forall t x i b, TRel t x ->
    TRel (Txn.apply t (Txn.WDelStaged i b)) (fst (sapply x (CDelete (tx_prefix (tn i) ++ bn b)))) /\
    snd (sapply x (CDelete (tx_prefix (tn i) ++ bn b))) = ROk.
  Proof.
    intros t x i b [Hh Hl Hs Ht Ho Ha].
    cbn [c_apply so_step spec_ops sstep_op sstep fst snd Txn.apply]. split; [|reflexivity].
    split; cbn [x_store x_txs x_objs refs logs Txn.heads Txn.logs Txn.staged Txn.txs Txn.stored]; auto.
    - intros b'. rewrite m_get_del.
      assert (beqb (tx_prefix (tn i) ++ bn b) (href (bn b')) = false) as ->; [|apply Hh].
      apply beqb_false. intros E. symmetry in E. now apply head_ne_tx in E.
    - intros i'. unfold Txn.upd. destruct (N.eqb_spec i' i) as [->|Hne].
      + rewrite (del_list_same _ _ _ _ (logs (x_store x))).
        rewrite <- filter_encp. apply Permutation_filter'.
        destruct (x_store x) as [rf lg]. apply Hs.
      + rewrite (del_list_other _ _ _ _ (logs (x_store x))).
        * destruct (x_store x) as [rf lg]. apply Hs.
        * destruct (is_prefix (tx_prefix (tn i')) (tx_prefix (tn i) ++ bn b)) eqn:Ep; [|reflexivity].
          apply tx_prefix_inj in Ep. congruence.
  Qed.

  Lemma apply_sim : forall t x w cw, wrel w cw -> TRel t x ->
    TRel (Txn.apply t w) (fst (sapply x cw)) /\ snd (sapply x cw) = ROk.
  Proof.
    intros t x w cw Hw HT. destruct Hw as [c|b c tx m Hm|i st|i b|i].
    - split; [now apply sim_put|reflexivity].
    - now apply sim_set.
    - split; [now apply sim_upd|reflexivity].
    - now apply sim_del.
    - split; [now apply sim_deltx|reflexivity].
  Qed.

  Lemma upto_sim : forall ws cws, Forall2 wrel ws cws -> forall n t x, TRel t x ->
    snd (c_apply_upto hash spec_ops n cws x) = true /\
    TRel (Txn.apply_all (firstn n ws) t) (fst (c_apply_upto hash spec_ops n cws x)).
  Proof.
    induction 1 as [|w cw ws cws Hw _ IH]; intros n t x HT.
    - destruct n; now split.
    - destruct n as [|n]; [now split|]. cbn [firstn c_apply_upto].
      destruct (apply_sim t x w cw Hw HT) as [HT' Er].
      destruct (sapply x cw) as [x' r]. cbn [fst snd] in *. subst r.
      change (Txn.apply_all (w :: firstn n ws) t) with (Txn.apply_all (firstn n ws) (Txn.apply t w)).
      now apply IH.
  Qed.

  (** ** the plans *)
  Lemma txlog_sim : forall i l tl, Forall2 erel l tl ->
    s_txlog_of (tb i) l = option_map HH (Txn.tx_log_new i tl).
  Proof.
    intros i l tl HF. induction HF as [|le e l tl [Hold [Hnew Htx]] _ IH]; [reflexivity|].
    cbn [s_txlog_of Txn.tx_log_new].
    assert (has_tx (tb i) (le_meta le) = Txn.tx_eqb (Txn.l_tx e) (Some i)) as ->.
    { unfold has_tx. rewrite Htx. destruct (Txn.l_tx e) as [i0|]; cbn; [|reflexivity].
      destruct (N.eqb_spec i0 i) as [->|Hne]; [apply beqb_refl|].
      apply beqb_false. intros E. apply tb_inj in E. contradiction. }
    destruct (Txn.tx_eqb (Txn.l_tx e) (Some i)); [cbn; now rewrite Hnew|exact IH].
  Qed.

  Lemma enc_commit_of : forall i sum old,
    mk_cc (cc_tbl (cenc sum)) (cc_meta (cenc sum)) (i :: cc_pfx (cenc sum)) (option_map HH old) =
    cenc (Txn.tx_commit_of i sum old).
  Proof. intros i sum old. destruct sum; destruct old; reflexivity. Qed.

  Lemma c_get_spec : forall (x : cst sstate) k, c_get spec_ops x k = m_get k (refs (x_store x)).
  Proof. intros x k. unfold c_get. cbn. now destruct (m_get k (refs (x_store x))). Qed.

  Lemma loop_sim : forall i lg clg l t x, TRel t x ->
    (forall b, clg (href (bn b)) = option_map HH (lg b)) ->
    Forall2 wrel (fst (Txn.commit_loop i lg l t)) (fst (cloop i clg (map pairenc l) x)) /\
    snd (Txn.commit_loop i lg l t) = snd (cloop i clg (map pairenc l) x).
  Proof.
    intros i lg clg l. induction l as [|[b sum] l IH]; intros t x HT Hlg.
    - cbn. split; [repeat constructor|reflexivity].
    - cbn [map encp fst snd Txn.commit_loop c_commit_loop]. rewrite Hlg.
      destruct (lg b) as [c|]; cbn [option_map].
      + rewrite (tr_objs _ _ _ _ _ _ HT c).
        destruct (x_objs x (HH c)); cbn [is_some]; [now apply IH|split; [constructor|reflexivity]].
      + rewrite (tr_objs _ _ _ _ _ _ HT sum).
        destruct (x_objs x (HH sum)) as [com|] eqn:Eo; cbn [is_some]; [|split; [constructor|reflexivity]].
        assert (com = cenc sum) as ->.
        { apply hash_inj. now apply (tr_addr _ _ _ _ _ _ HT) in Eo. }
        rewrite c_get_spec, (tr_heads _ _ _ _ _ _ HT b), enc_commit_of.
        set (c' := Txn.tx_commit_of i sum (Txn.heads t b)).
        set (cm := commit_meta tb cm_author cm_email cm_line (cenc sum) i).
        assert (HT' : TRel (Txn.apply_all [Txn.WPutCommit c'; Txn.WSetWithLog b c' (Some i)] t)
                           (c_apply_all hash spec_ops
                              [CPutCommit (cenc c'); CSaveRef (href (bn b)) (hash (cenc c')) cm] x)).
        { cbn [Txn.apply_all fold_left c_apply_all].
          apply (sim_set _ _ b c' (Some i) cm); [reflexivity|]. now apply sim_put. }
        destruct (IH _ _ HT' Hlg) as [F E].
        destruct (Txn.commit_loop i lg l _) as [ws r].
        destruct (cloop i clg (map pairenc l) _) as [cws cr]. cbn [fst snd app] in *.
        split; [|exact E].
        constructor; [constructor|]. constructor; [|exact F].
        apply (wr_set hash tn tb bn b c' (Some i) cm). reflexivity.
  Qed.

  Lemma commit_plan_sim : forall (cord : corder) i t x, TRel t x ->
    (forall l, Permutation (cord l) l) ->
    exists ord : Txn.order, Txn.order_ok ord (Txn.staged t i) /\
      Forall2 wrel (fst (Txn.tx_commit ord i t))
                   (fst (c_tx_commit hash tn tb cm_author cm_email cm_line spec_ops cord i x)) /\
      snd (Txn.tx_commit ord i t) =
      snd (c_tx_commit hash tn tb cm_author cm_email cm_line spec_ops cord i x).
  Proof.
    intros cord i t x HT Hc.
    assert (HP : Permutation (cord (s_list_refs (tx_prefix (tn i)) (x_store x)))
                             (map pairenc (Txn.staged t i))).
    { eapply Permutation_trans; [apply Hc|apply (tr_staged _ _ _ _ _ _ HT)]. }
    destruct (Permutation_map_inv _ _ HP) as [l3 [El3 Hl3]].
    exists (fun _ => l3). split; [unfold Txn.order_ok; now symmetry|].
    unfold Txn.tx_commit, c_tx_commit. rewrite (tr_txs _ _ _ _ _ _ HT i).
    destruct (Txn.txs t i) as [[|]|]; try (split; [constructor|reflexivity]).
    unfold c_list_tx. cbn [so_step so_txlog spec_ops sstep_op snd]. rewrite El3.
    apply loop_sim; [exact HT|].
    intros b. unfold s_txlog. apply txlog_sim. apply (tr_logs _ _ _ _ _ _ HT).
  Qed.

  Lemma del_writes_sim : forall i F l3,
    Forall (fun kv : name * value => is_prefix (tx_prefix (tn i)) (fst kv) = true) F ->
    map (fun kv => (skipn (length (tx_prefix (tn i))) (fst kv), snd kv)) F = map pairenc l3 ->
    Forall2 wrel (map (fun e => Txn.WDelStaged i (fst e)) l3) (map CDelete (map fst F)).
  Proof.
    intros i F. remember (length (tx_prefix (tn i))) as n eqn:En.
    induction F as [|[k v] F IH]; intros [|e l3] HF E; try discriminate; [constructor|].
    inversion HF as [|? ? Hk HF']; subst x l. cbn [map] in *. injection E as E1 E2 E3.
    cbn [fst snd encp] in *.
    constructor; [|now apply IH].
    rewrite (is_prefix_split _ _ Hk), <- En, E1. constructor.
  Qed.

  Lemma discard_plan_sim : forall i t x, TRel t x ->
    exists ord : Txn.order, Txn.order_ok ord (Txn.staged t i) /\
      Forall2 wrel (fst (Txn.tx_discard ord i t)) (fst (c_tx_discard tn spec_ops i x)) /\
      snd (Txn.tx_discard ord i t) = snd (c_tx_discard tn spec_ops i x).
  Proof.
    intros i t x HT.
    pose proof (tr_staged _ _ _ _ _ _ HT i) as HP. unfold s_list_refs in HP.
    destruct (Permutation_map_inv _ _ HP) as [l3 [El3 Hl3]].
    exists (fun _ => l3). split; [unfold Txn.order_ok; now symmetry|].
    unfold Txn.tx_discard, c_tx_discard. rewrite (tr_txs _ _ _ _ _ _ HT i).
    destruct (Txn.txs t i) as [[|]|]; try (split; [constructor|reflexivity]).
    cbn [so_step spec_ops sstep_op sstep snd fst]. rewrite s_filter_single.
    split; [|reflexivity]. unfold Txn.discard_writes.
    apply Forall2_app; [|repeat constructor].
    apply del_writes_sim; [|exact El3].
    apply (filter_forall (fun kv : name * value => is_prefix (tx_prefix (tn i)) (fst kv))).
  Qed.
End SpecTxn.

(** * 5. Composition: Txn.v's runs and the runs over the SQL store *)
Lemma Forall2_len : forall {A B} (P : A -> B -> Prop) l l', Forall2 P l l' -> length l = length l'.
Proof. intros A B P l l' HF. induction HF as [|x y l l' _ _ IH]; [reflexivity|]. cbn. now rewrite IH. Qed.

Section Compose.
  Variable fk : filter_kind.
  Hypothesis fk_ok : filter_ok fk = true.
  Variable hash : ccommit -> value.
  Variable tn : Txn.txid -> bytes.
  Variable tb : Txn.txid -> bytes.
  Variables cm_author cm_email cm_line : ccommit -> bytes.
  Variable bn : Txn.branch -> bytes.
  Hypothesis Hok : enc_ok hash tn tb bn.

  Notation TRel := (TR hash tn tb bn).
  Notation wrel := (write_rel hash tn tb bn).
  Notation OBSfk := (OBS hash tn tb bn fk).
  Notation dcommit := (c_tx_commit hash tn tb cm_author cm_email cm_line (sql_ops fk)).
  Notation scommit := (c_tx_commit hash tn tb cm_author cm_email cm_line spec_ops).
  Notation ddiscard := (c_tx_discard tn (sql_ops fk)).
  Notation dcrash := (d_run_crash hash fk).
  Notation drun := (c_run_upto hash (sql_ops fk)).
  Notation sqlint := (sql_interrupted hash tn tb cm_author cm_email cm_line fk).

  (** [t] is represented by the SQL-backed repository [xc]: through C15's simulation relation and [TR] *)
  Definition TRS (t : Txn.state) (xc : cst db) : Prop := exists xa, XR xa xc /\ TRel t xa.

  Lemma TRS_reach : forall (hist : list op) txs objs t,
    TRel t (mk_cst (sreach sinit hist) txs objs) -> TRS t (mk_cst (creach fk cinit hist) txs objs).
  Proof.
    intros hist txs objs t HT. exists (mk_cst (sreach sinit hist) txs objs). split; [|exact HT].
    split; [apply (reach_R fk fk_ok)|now split].
  Qed.

  Lemma TRS_OBS : forall t xc, TRS t xc -> OBSfk t xc.
  Proof.
    intros t xc [xa [[HR [Ht Ho]] HT]]. split.
    - intros b. rewrite (R_cget _ _ _ HR). apply (tr_heads _ _ _ _ _ _ HT).
    - intros b. exists (logs (x_store xa) (href (bn b))). split; [apply (R_clog _ _ _ HR)|].
      apply (tr_logs _ _ _ _ _ _ HT).
    - intros i. exists (s_list_refs (tx_prefix (tn i)) (x_store xa)). split; [|apply (tr_staged _ _ _ _ _ _ HT)].
      unfold c_list_tx. cbn [so_step sql_ops].
      destruct (op_sim fk fk_ok (OListRefs (tx_prefix (tn i))) _ _ HR) as [E _]. now rewrite E.
    - intros i b. rewrite (R_txlog _ _ _ _ HR). unfold s_txlog.
      apply (txlog_sim hash tn tb bn Hok). apply (tr_logs _ _ _ _ _ _ HT).
    - intros i. rewrite <- Ht. apply (tr_txs _ _ _ _ _ _ HT).
    - intros c. rewrite <- Ho. apply (tr_objs _ _ _ _ _ _ HT).
  Qed.

  (** related plans: every cut, and every crash inside a write *)
  Lemma plan_run_sim : forall t xa xc ws cws n, XR xa xc -> TRel t xa -> Forall2 wrel ws cws ->
    snd (c_apply_upto hash (sql_ops fk) n cws xc) = true /\
    TRS (Txn.apply_all (firstn n ws) t) (fst (c_apply_upto hash (sql_ops fk) n cws xc)).
  Proof.
    intros t xa xc ws cws n HX HT HF.
    destruct (upto_sim hash tn tb bn Hok ws cws HF n t xa HT) as [Eok HT'].
    destruct (upto_XR fk fk_ok hash n cws xa xc HX) as [E HX'].
    split; [now rewrite <- E|]. eexists. split; [exact HX'|exact HT'].
  Qed.

  Lemma plan_crash_sim : forall t xa xc ws cws n j, XR xa xc -> TRel t xa -> Forall2 wrel ws cws ->
    exists n', (n' = n \/ n' = S n) /\ TRS (Txn.apply_all (firstn n' ws) t) (dcrash n j cws xc).
  Proof.
    intros t xa xc ws cws n j HX HT HF.
    destruct (crash_cases fk hash n j cws xc) as [E|E]; rewrite E.
    - exists n. split; [now left|]. now apply (plan_run_sim t xa xc ws cws n).
    - exists (S n). split; [now right|]. now apply (plan_run_sim t xa xc ws cws (S n)).
  Qed.

  Lemma run_upto_fst : forall n p t, fst (Txn.run_upto n p t) = Txn.apply_all (firstn n (fst p)) t.
  Proof. reflexivity. Qed.

  (** ** Commit *)
  Lemma commit_sim : forall t xc (cord : corder) i, TRS t xc -> (forall l, Permutation (cord l) l) ->
    exists ord : Txn.order, Txn.order_ok ord (Txn.staged t i) /\
      (forall n, TRS (fst (Txn.run_upto n (Txn.tx_commit ord i t) t)) (fst (drun n (dcommit cord i xc) xc)) /\
                 snd (Txn.run_upto n (Txn.tx_commit ord i t) t) = snd (drun n (dcommit cord i xc) xc)) /\
      (forall n j, exists n', (n' = n \/ n' = S n) /\
         TRS (fst (Txn.run_upto n' (Txn.tx_commit ord i t) t)) (dcrash n j (fst (dcommit cord i xc)) xc)) /\
      length (fst (Txn.tx_commit ord i t)) = length (fst (dcommit cord i xc)).
  Proof.
    intros t xc cord i [xa [HX HT]] Hc.
    destruct (commit_plan_sim hash tn tb cm_author cm_email cm_line bn Hok cord i t xa HT Hc)
      as [ord [Hord [HF Er]]].
    rewrite (commit_XR fk fk_ok hash tn tb cm_author cm_email cm_line cord i xa xc HX) in HF, Er.
    exists ord. split; [exact Hord|]. pose proof (Forall2_len _ _ _ HF) as Hlen.
    split; [|split; [|exact Hlen]].
    - intros n. destruct (plan_run_sim t xa xc _ _ n HX HT HF) as [Eok HS].
      unfold c_run_upto.
      destruct (c_apply_upto hash (sql_ops fk) n (fst (dcommit cord i xc)) xc) as [x' ok]. cbn [fst snd] in *.
      subst ok. split; [exact HS|]. unfold Txn.run_upto. cbn [snd andb]. rewrite Hlen, Er.
      now destruct (n <? length (fst (dcommit cord i xc)))%nat.
    - intros n j. destruct (plan_crash_sim t xa xc _ _ n j HX HT HF) as [n' [Hn' HS]].
      exists n'. split; [exact Hn'|exact HS].
  Qed.

  (** ** Discard *)
  Lemma discard_sim : forall t xc i, TRS t xc ->
    exists ord : Txn.order, Txn.order_ok ord (Txn.staged t i) /\
      (forall n, TRS (fst (Txn.run_upto n (Txn.tx_discard ord i t) t)) (fst (drun n (ddiscard i xc) xc)) /\
                 snd (Txn.run_upto n (Txn.tx_discard ord i t) t) = snd (drun n (ddiscard i xc) xc)) /\
      (forall n j, exists n', (n' = n \/ n' = S n) /\
         TRS (fst (Txn.run_upto n' (Txn.tx_discard ord i t) t)) (dcrash n j (fst (ddiscard i xc)) xc)) /\
      length (fst (Txn.tx_discard ord i t)) = length (fst (ddiscard i xc)).
  Proof.
    intros t xc i [xa [HX HT]].
    destruct (discard_plan_sim hash tn tb bn i t xa HT) as [ord [Hord [HF Er]]].
    rewrite (discard_XR fk fk_ok tn i xa xc HX) in HF, Er.
    exists ord. split; [exact Hord|]. pose proof (Forall2_len _ _ _ HF) as Hlen.
    split; [|split; [|exact Hlen]].
    - intros n. destruct (plan_run_sim t xa xc _ _ n HX HT HF) as [Eok HS].
      unfold c_run_upto.
      destruct (c_apply_upto hash (sql_ops fk) n (fst (ddiscard i xc)) xc) as [x' ok]. cbn [fst snd] in *.
      subst ok. split; [exact HS|]. unfold Txn.run_upto. cbn [snd andb]. rewrite Hlen, Er.
      now destruct (n <? length (fst (ddiscard i xc)))%nat.
    - intros n j. destruct (plan_crash_sim t xa xc _ _ n j HX HT HF) as [n' [Hn' HS]].
      exists n'. split; [exact Hn'|exact HS].
  Qed.

  (** ** C14 on the SQL-backed repository *)
  Section C14.
    Variable i : Txn.txid.
    Variable t0 : Txn.state.
    Hypothesis Hpre : Txn.pre i t0.
    Variable x0 : cst db.
    Hypothesis H0 : TRS t0 x0.

    Lemma staged_interrupted : forall t, Txn_proofs.interrupted i t0 t -> Txn.staged t i = Txn.staged t0 i.
    Proof.
      intros t Hi. destruct (Txn_proofs.interrupted_mid i t0 Hpre t Hi) as [D [P Hmid]].
      apply (Txn_proofs.m_staged i t0 _ _ _ _ Hmid).
    Qed.

    Lemma TRS_txs : forall t x, TRS t x -> x_txs x i = Txn.txs t i.
    Proof. intros t x [xa [[_ [Ht _]] HT]]. rewrite <- Ht. apply (tr_txs _ _ _ _ _ _ HT). Qed.

    Lemma interrupted_sim : forall x, sqlint i x0 x -> exists t, Txn_proofs.interrupted i t0 t /\ TRS t x.
    Proof.
      intros x Hx. induction Hx as [|x cord n j _ [t [Hi HS]] Hc Hin].
      - exists t0. split; [constructor|exact H0].
      - destruct (commit_sim t x cord i HS Hc) as [ord [Hord [_ [Hcr _]]]].
        destruct (Hcr n j) as [n' [_ HS1]].
        rewrite (staged_interrupted t Hi) in Hord.
        destruct (Txn_proofs.crash_state i t0 Hpre t ord n' Hi Hord) as [[Hi1 _]|[Heq _]].
        + eexists. split; [exact Hi1|exact HS1].
        + exfalso. rewrite (TRS_txs _ _ HS1) in Hin.
          destruct Heq as [_ [_ [_ [Htx _]]]]. rewrite Htx in Hin. cbn [Txn.all_outcome Txn.txs] in Hin.
          rewrite Txn_proofs.upd_same in Hin. discriminate.
    Qed.

    (** C14_any_crash_history *)
    Theorem sql_any_crash_history : forall x (cord : corder),
      sqlint i x0 x -> (forall l, Permutation (cord l) l) ->
      exists t2, snd (c_run_full hash (sql_ops fk) (dcommit cord i x) x) = Txn.ROk /\
        OBSfk t2 (fst (c_run_full hash (sql_ops fk) (dcommit cord i x) x)) /\
        Txn.st_eq t2 (Txn.all_outcome i t0).
    Proof.
      intros x cord Hx Hc. destruct (interrupted_sim x Hx) as [t [Hi HS]].
      destruct (commit_sim t x cord i HS Hc) as [ord [Hord [Hrun [_ Hlen]]]].
      rewrite (staged_interrupted t Hi) in Hord.
      destruct (Txn_proofs.any_crash_history i t0 t ord Hpre Hi Hord) as [s' [Efull Heq]].
      unfold c_run_full. destruct (Hrun (length (fst (dcommit cord i x)))) as [HS2 Er].
      rewrite <- Hlen in HS2, Er.
      assert (Efull' : Txn.run_upto (length (fst (Txn.tx_commit ord i t))) (Txn.tx_commit ord i t) t = (s', Txn.ROk)).
      { rewrite <- Efull. unfold Txn.run_upto, Txn.run_full. now rewrite firstn_all, Nat.ltb_irrefl. }
      rewrite Efull' in HS2, Er. cbn [fst snd] in *. rewrite <- Hlen.
      exists s'. split; [now symmetry|]. split; [now apply TRS_OBS|exact Heq].
    Qed.

    (** C14_branch_consistent, at every event of every write of a further Commit *)
    Theorem sql_branch_consistent : forall x (cord : corder) n j,
      sqlint i x0 x -> (forall l, Permutation (cord l) l) ->
      exists t1, OBSfk t1 (dcrash n j (fst (dcommit cord i x)) x) /\
        forall b, Txn.unmoved t0 t1 b \/ Txn.landed i t0 t1 b.
    Proof.
      intros x cord n j Hx Hc. destruct (interrupted_sim x Hx) as [t [Hi HS]].
      destruct (commit_sim t x cord i HS Hc) as [ord [Hord [_ [Hcr _]]]].
      destruct (Hcr n j) as [n' [_ HS1]]. rewrite (staged_interrupted t Hi) in Hord.
      eexists. split; [apply TRS_OBS; exact HS1|].
      intros b. apply (Txn_proofs.branch_consistent i t0 t ord n' b Hpre Hi Hord).
    Qed.

    (** C14_rerun_completes / C14_all_or_completable: after a crash at any event the transaction is
        either still in progress - and then the repository is again an interrupted one, which
        [sql_any_crash_history] completes - or marked committed with the all-branches outcome *)
    Theorem sql_crash_state : forall x (cord : corder) n j,
      sqlint i x0 x -> (forall l, Permutation (cord l) l) ->
      let x1 := dcrash n j (fst (dcommit cord i x)) x in
      (x_txs x1 i = Some Txn.InProgress /\ sqlint i x0 x1) \/
      (x_txs x1 i = Some Txn.Committed /\
       exists t1, OBSfk t1 x1 /\ Txn.st_eq t1 (Txn.all_outcome i t0)).
    Proof.
      intros x cord n j Hx Hc x1. destruct (interrupted_sim x Hx) as [t [Hi HS]].
      destruct (commit_sim t x cord i HS Hc) as [ord [Hord [_ [Hcr _]]]].
      destruct (Hcr n j) as [n' [_ HS1]]. fold x1 in HS1. rewrite (staged_interrupted t Hi) in Hord.
      destruct (Txn_proofs.crash_state i t0 Hpre t ord n' Hi Hord) as [[Hi1 Htx]|[Heq _]].
      - left. assert (Hin : x_txs x1 i = Some Txn.InProgress) by (now rewrite (TRS_txs _ _ HS1)).
        split; [exact Hin|]. now apply si_S.
      - right. split.
        + rewrite (TRS_txs _ _ HS1). destruct Heq as [_ [_ [_ [Htx _]]]]. rewrite Htx.
          cbn [Txn.all_outcome Txn.txs]. apply Txn_proofs.upd_same.
        + eexists. split; [apply TRS_OBS; exact HS1|exact Heq].
    Qed.
  End C14.

  (** C14_discard_frame: Discard over the SQL store, crashed at any event, represents a Txn.v state
      with the same heads, reflogs and objects *)
  Theorem sql_discard_frame : forall t x i n j, TRS t x ->
    exists t1, OBSfk t1 (dcrash n j (fst (ddiscard i x)) x) /\
      (forall b, Txn.heads t1 b = Txn.heads t b) /\ (forall b, Txn.logs t1 b = Txn.logs t b) /\
      (forall c, Txn.stored t1 c = Txn.stored t c) /\
      (forall i', i' <> i -> Txn.staged t1 i' = Txn.staged t i' /\ Txn.txs t1 i' = Txn.txs t i') /\
      incl (Txn.staged t1 i) (Txn.staged t i).
  Proof.
    intros t x i n j HS. destruct (discard_sim t x i HS) as [ord [_ [_ [Hcr _]]]].
    destruct (Hcr n j) as [n' [_ HS1]].
    eexists. split; [apply TRS_OBS; exact HS1|]. apply Txn_proofs.discard_frame.
  Qed.

  (** C14_discard_complete: a complete Discard of an in-progress transaction over the SQL store
      succeeds and leaves no staged ref and no transaction row *)
  Theorem sql_discard_complete : forall t x i, TRS t x -> Txn.txs t i = Some Txn.InProgress ->
    snd (c_run_full hash (sql_ops fk) (ddiscard i x) x) = Txn.ROk /\
    c_list_tx tn (sql_ops fk) (fst (c_run_full hash (sql_ops fk) (ddiscard i x) x)) i = Some [] /\
    x_txs (fst (c_run_full hash (sql_ops fk) (ddiscard i x) x)) i = None.
  Proof.
    intros t x i HS Hin. destruct (discard_sim t x i HS) as [ord [Hord [Hrun [_ Hlen]]]].
    destruct (Txn_proofs.discard_complete i t ord Hin Hord) as [s1 [Efull [Est Etx]]].
    unfold c_run_full. destruct (Hrun (length (fst (ddiscard i x)))) as [HS2 Er].
    rewrite <- Hlen in HS2, Er.
    assert (Efull' : Txn.run_upto (length (fst (Txn.tx_discard ord i t))) (Txn.tx_discard ord i t) t = (s1, Txn.ROk)).
    { rewrite <- Efull. unfold Txn.run_upto, Txn.run_full. now rewrite firstn_all, Nat.ltb_irrefl. }
    rewrite Efull' in HS2, Er. cbn [fst snd] in *. rewrite <- Hlen.
    pose proof (TRS_OBS _ _ HS2) as HO.
    split; [now symmetry|]. split.
    - destruct (ob_staged _ _ _ _ _ _ _ HO i) as [m [Em Hm]]. rewrite Em, Est in *. cbn in Hm.
      apply Permutation_sym, Permutation_nil in Hm. now subst m.
    - now rewrite (ob_txs _ _ _ _ _ _ _ HO i).
  Qed.
End Compose.

(** * 6. B7c: the root set of prune (ref.ListAllRefs = Filter(nil, nil)) read through the SQL store *)
Lemma filter_true : forall {A} (l : list A), filter (fun _ => true) l = l.
Proof. intros A l. induction l as [|x l IH]; [reflexivity|]. cbn. now rewrite IH. Qed.

Theorem list_all_refs : forall fk, filter_ok fk = true -> forall hist : list op,
  let c := creach fk cinit hist in
  let a := sreach sinit hist in
  snd (cstep_op fk c (OP (PFilter [] []))) = RMap (refs a) /\
  (forall k v, In (k, v) (refs a) <-> cget c k = Some v).
Proof.
  intros fk fk_ok hist c a. pose proof (reach_R fk fk_ok hist) as HR. fold c a in HR. split.
  - unfold cstep_op. cbn [prog_of interp cstep snd]. f_equal. unfold sql_select_where.
    pose proof (select_agree a c (fun _ => true) (fun _ => true) HR (fun _ => eq_refl)) as E.
    rewrite !filter_true in E. cbn [where_clause forallb andb]. rewrite filter_true. exact E.
  - intros k v. rewrite (R_cget _ _ k HR). split.
    + apply in_m_get. apply (R_inv _ _ HR).
    + apply m_get_in.
Qed.

(** every staged commit of every transaction is among these roots (under its txs/ ref) *)
Theorem staged_among_roots : forall hash tn tb bn t (x : cst sstate) i b c,
  TR hash tn tb bn t x -> In (b, c) (Txn.staged t i) ->
  In (tx_prefix (tn i) ++ bn b, H hash c) (refs (x_store x)).
Proof.
  intros hash tn tb bn t x i b c HT Hin.
  pose proof (tr_staged _ _ _ _ _ _ HT i) as HP.
  assert (Hi : In (bn b, H hash c) (s_list_refs (tx_prefix (tn i)) (x_store x))).
  { eapply Permutation_in; [apply Permutation_sym, HP|]. apply in_map_iff. exists (b, c). now split. }
  unfold s_list_refs in Hi. remember (length (tx_prefix (tn i))) as n eqn:En.
  apply in_map_iff in Hi. destruct Hi as [[k v] [E Hk]]. cbn [fst snd] in E.
  apply filter_In in Hk. destruct Hk as [Hk Hp]. cbn [fst] in Hp. injection E as E1 E2.
  rewrite (is_prefix_split _ _ Hp), <- En, E1, E2 in Hk. exact Hk.
Qed.

(** * 7. Building a represented repository; non-vacuity *)
Lemma filter_m_set_in : forall (P : name -> bool) k (v : value) m, P k = true -> m_get k m = None ->
  Permutation (filter (fun kv => P (fst kv)) (m_set k v m)) ((k, v) :: filter (fun kv => P (fst kv)) m).
Proof.
  intros P k v m HP. induction m as [|[k0 v0] m IH]; intros Hg; cbn [m_set].
  - cbn. rewrite HP. apply Permutation_refl.
  - cbn [m_get] in Hg. destruct (bcmp k k0) eqn:E.
    + unfold beqb in Hg. rewrite E in Hg. discriminate.
    + cbn [filter fst]. rewrite HP. apply Permutation_refl.
    + unfold beqb in Hg. rewrite E in Hg. cbn [filter fst]. destruct (P k0).
      * eapply Permutation_trans; [apply perm_skip, IH, Hg|apply perm_swap].
      * now apply IH.
Qed.

Section Build.
  Variable hash : ccommit -> value.
  Variable tn : Txn.txid -> bytes.
  Variable tb : Txn.txid -> bytes.
  Variable bn : Txn.branch -> bytes.
  Hypothesis Hok : enc_ok hash tn tb bn.

  Notation HH := (BridgeRefTxn.H hash).
  Notation cenc := (enc hash).
  Notation TRel := (TR hash tn tb bn).
  Notation sapply := (c_apply hash spec_ops).

  Definition x_empty : cst sstate := mk_cst sinit (fun _ => None) (fun _ => None).

  Lemma TR_init : TRel Txn.init x_empty.
  Proof.
    split.
    - reflexivity.
    - intros b. constructor.
    - intros i. apply Permutation_refl.
    - reflexivity.
    - reflexivity.
    - intros v cc E. discriminate.
  Qed.

  Definition c_new_tx (i : Txn.txid) (x : cst sstate) : cst sstate :=
    mk_cst (x_store x) (Txn.upd (x_txs x) i (Some Txn.InProgress)) (x_objs x).

  Lemma sim_new_tx : forall t x i, TRel t x -> TRel (Txn.new_tx i t) (c_new_tx i x).
  Proof.
    intros t x i [Hh Hl Hs Ht Ho Ha]. split; cbn; auto. intros i'. unfold Txn.upd. now rewrite Ht.
  Qed.

  (* cmd commit (no txid): SaveCommit, then SaveRef heads/<b> *)
  Definition c_plain (m : meta) (b : Txn.branch) (tbl : N) (t : Txn.state) (x : cst sstate) : cst sstate :=
    let c := Txn.mk_commit tbl tbl [] (Txn.heads t b) in
    c_apply_all hash spec_ops [CPutCommit (cenc c); CSaveRef (href (bn b)) (HH c) m] x.

  Lemma sim_plain : forall m t x b tbl, m_txid m = None -> TRel t x ->
    TRel (Txn.plain_commit b tbl t) (c_plain m b tbl t x).
  Proof.
    intros m t x b tbl Hm HT. unfold Txn.plain_commit, c_plain. cbn [Txn.apply_all fold_left c_apply_all].
    apply (sim_set hash tn tb bn Hok); [exact Hm|]. now apply (sim_put hash tn tb bn Hok).
  Qed.

  (* cmd commit --txid: SaveCommit, then Set txs/<id>/<b> *)
  Definition c_stage (i : Txn.txid) (b : Txn.branch) (tbl : N) (t : Txn.state) (x : cst sstate) : cst sstate :=
    let c := Txn.mk_commit tbl tbl [] (Txn.heads t b) in
    let x' := fst (sapply x (CPutCommit (cenc c))) in
    mk_cst (fst (sstep_op (x_store x') (OP (PSet (tx_prefix (tn i) ++ bn b) (HH c))))) (x_txs x') (x_objs x').

  Lemma sim_stage : forall t x i b tbl, TRel t x -> ~ In b (map fst (Txn.staged t i)) ->
    TRel (Txn.stage i b tbl t) (c_stage i b tbl t x).
  Proof.
    intros t x i b tbl HT Hnb. unfold Txn.stage, c_stage.
    set (c := Txn.mk_commit tbl tbl [] (Txn.heads t b)).
    pose proof (sim_put hash tn tb bn Hok t x c HT) as HT'.
    set (t' := Txn.apply t (Txn.WPutCommit c)) in *. set (x' := fst (sapply x (CPutCommit (cenc c)))) in *.
    destruct HT' as [Hh Hl Hs Ht Ho Ha].
    assert (Hst : Txn.staged t' i = Txn.staged t i) by reflexivity.
    assert (Hfree : m_get (tx_prefix (tn i) ++ bn b) (refs (x_store x')) = None).
    { destruct (m_get (tx_prefix (tn i) ++ bn b) (refs (x_store x'))) as [v'|] eqn:E; [|reflexivity].
      exfalso. apply Hnb. apply m_get_in in E.
      assert (Hi : In (bn b, v') (s_list_refs (tx_prefix (tn i)) (x_store x'))).
      { unfold s_list_refs. apply in_map_iff. exists (tx_prefix (tn i) ++ bn b, v'). split.
        - cbn [fst snd]. now rewrite skipn_app_len.
        - apply filter_In. split; [exact E|]. cbn [fst]. apply is_prefix_app. }
      eapply Permutation_in in Hi; [|apply Hs]. rewrite Hst in Hi.
      apply in_map_iff in Hi. destruct Hi as [e [Ee He]]. injection Ee as Eb _.
      apply (bn_inj hash tn tb bn Hok) in Eb. subst b. now apply in_map. }
    cbn [sstep_op sstep fst]. split; cbn [x_store x_txs x_objs refs logs Txn.heads Txn.logs Txn.staged Txn.txs Txn.stored]; auto.
    - intros b'. rewrite m_get_set.
      assert (beqb (tx_prefix (tn i) ++ bn b) (href (bn b')) = false) as ->; [|apply Hh].
      apply beqb_false. intros E. symmetry in E. now apply head_ne_tx in E.
    - intros i'. unfold Txn.upd. unfold s_list_refs. cbn [refs].
      destruct (N.eqb_spec i' i) as [->|Hne].
      + rewrite map_app. cbn [map encp fst snd].
        eapply Permutation_trans; [|apply Permutation_cons_append].
        eapply Permutation_trans.
        * apply Permutation_map.
          apply (filter_m_set_in (is_prefix (tx_prefix (tn i)))); [apply is_prefix_app|exact Hfree].
        * cbn [map fst snd]. rewrite skipn_app_len. apply perm_skip. apply Hs.
      + rewrite (filter_m_set_out (is_prefix (tx_prefix (tn i')))); [apply Hs|].
        destruct (is_prefix (tx_prefix (tn i')) (tx_prefix (tn i) ++ bn b)) eqn:Ep; [|reflexivity].
        apply (tx_prefix_inj hash tn tb bn Hok) in Ep. congruence.
  Qed.
End Build.

(** the example encodings satisfy the premises *)
Lemma app_inv_len : forall {A} (a b u w : list A), length a = length b -> a ++ u = b ++ w -> a = b /\ u = w.
Proof.
  intros A a. induction a as [|x a IH]; intros [|y b] u w Hl E; cbn in *; try discriminate; [now split|].
  injection E as -> E. destruct (IH b u w) as [-> ->]; [now injection Hl|exact E|now split].
Qed.

Lemma ex_enc_ok : enc_ok ex_hash ex_tn ex_tb ex_bn.
Proof.
  unfold enc_ok, inj. repeat split.
  - intros [t m p par] [t' m' p' par'] E. unfold ex_hash in E. cbn [cc_tbl cc_meta cc_pfx cc_parent app] in E.
    injection E as -> -> El E. apply Nat2N.inj in El.
    destruct (app_inv_len p p' _ _ El E) as [-> E2].
    destruct par as [v|], par' as [v'|]; try discriminate; [|reflexivity]. now injection E2 as ->.
  - intros x y E. now injection E.
  - intros x y E. now injection E.
  - intros x y E. now injection E.
Qed.

(** ** the concrete repository: C14's witness state s_w (one existing branch, both branches staged in
    transaction 1) built over the map specification by the same steps *)
Definition ex_m0 : meta := mk_meta [] [] act_commit [] None.
Definition ex_xw : cst sstate :=
  c_stage ex_hash ex_tn ex_bn 1 1 8 (Txn.stage 1 0 7 (Txn.new_tx 1 (Txn.plain_commit 0 100 Txn.init)))
    (c_stage ex_hash ex_tn ex_bn 1 0 7 (Txn.new_tx 1 (Txn.plain_commit 0 100 Txn.init))
       (c_new_tx 1 (c_plain ex_hash ex_bn ex_m0 0 100 Txn.init x_empty))).

Lemma ex_TR : TR ex_hash ex_tn ex_tb ex_bn Txn_proofs.s_w ex_xw.
Proof.
  unfold Txn_proofs.s_w, ex_xw.
  apply (sim_stage _ _ _ _ ex_enc_ok).
  - apply (sim_stage _ _ _ _ ex_enc_ok).
    + apply sim_new_tx. apply (sim_plain _ _ _ _ ex_enc_ok); [reflexivity|apply TR_init].
    + vm_compute. intros [].
  - vm_compute. intros [E|[]]. discriminate.
Qed.

(** the same store is reached by three ref.Store calls from the empty store *)
Definition ex_c0 : Txn.commit := Txn.Root 100 100 [].
Definition ex_s0 : Txn.commit := Txn.Child 7 7 [] ex_c0.
Definition ex_s1 : Txn.commit := Txn.Root 8 8 [].
Definition ex_hist : list op :=
  [ OSaveRef (href (ex_bn 0)) (H ex_hash ex_c0) ex_m0;
    OP (PSet (tx_prefix (ex_tn 1) ++ ex_bn 0) (H ex_hash ex_s0));
    OP (PSet (tx_prefix (ex_tn 1) ++ ex_bn 1) (H ex_hash ex_s1)) ].
Definition ex_xc : cst db := mk_cst (creach FInstr cinit ex_hist) (x_txs ex_xw) (x_objs ex_xw).

Example ex_store : x_store ex_xw = sreach sinit ex_hist.
Proof. reflexivity. Qed.

Lemma ex_TRS : TRS ex_hash ex_tn ex_tb ex_bn Txn_proofs.s_w ex_xc.
Proof.
  apply (TRS_reach FInstr eq_refl ex_hash ex_tn ex_tb ex_bn ex_hist).
  change (TR ex_hash ex_tn ex_tb ex_bn Txn_proofs.s_w ex_xw). apply ex_TR.
Qed.

Definition ex_commit (cord : corder) (x : cst db) : cplan :=
  c_tx_commit ex_hash ex_tn ex_tb ex_none ex_none ex_none (sql_ops FInstr) cord 1 x.

(** Commit over the SQL store plans the same five writes as Txn.v's Commit on s_w *)
Example ex_plan_length :
  length (fst (ex_commit (fun l => l) ex_xc)) = 5%nat /\
  length (fst (Txn.tx_commit Txn.ord_id 1 Txn_proofs.s_w)) = 5%nat /\
  ex_commit (fun l => l) ex_xc =
  c_tx_commit ex_hash ex_tn ex_tb ex_none ex_none ex_none spec_ops (fun l => l) 1 ex_xw.
Proof. vm_compute. repeat split. Qed.

(** reverse order: branch 1 first.  A crash inside SetWithLog of heads/1 after BEGIN + upsert (2 events)
    rolls back: nothing moved; after all 4 events branch 1 has landed, branch 0 has not *)
Definition ex_x1 : cst db := d_run_crash ex_hash FInstr 1 2 (fst (ex_commit (@rev _) ex_xc)) ex_xc.
Definition ex_x1b : cst db := d_run_crash ex_hash FInstr 1 4 (fst (ex_commit (@rev _) ex_xc)) ex_xc.

Example ex_crash_rollback :
  cget (x_store ex_x1) (href (ex_bn 1)) = None /\ clog (x_store ex_x1) (href (ex_bn 1)) = ([], true) /\
  cget (x_store ex_x1) (href (ex_bn 0)) = Some (H ex_hash ex_c0) /\ x_txs ex_x1 1 = Some Txn.InProgress.
Proof. vm_compute. repeat split. Qed.

Example ex_crash_landed :
  cget (x_store ex_x1b) (href (ex_bn 1)) = Some (H ex_hash (Txn.tx_commit_of 1 ex_s1 None)) /\
  fst (clog (x_store ex_x1b) (href (ex_bn 1))) =
    [mk_logent None (H ex_hash (Txn.tx_commit_of 1 ex_s1 None))
               (commit_meta ex_tb ex_none ex_none ex_none (enc ex_hash ex_s1) 1)] /\
  cget (x_store ex_x1b) (href (ex_bn 0)) = Some (H ex_hash ex_c0) /\ x_txs ex_x1b 1 = Some Txn.InProgress /\
  c_txlog (x_store ex_x1b) (ex_tb 1) (href (ex_bn 1)) = Some (H ex_hash (Txn.tx_commit_of 1 ex_s1 None)).
Proof. vm_compute. repeat split. Qed.

(** the re-run (other order) skips the landed branch (GetTransactionLogs), lands the other and marks
    the transaction committed: heads = Txn.v's all-branches outcome *)
Definition ex_x2 := c_run_full ex_hash (sql_ops FInstr) (ex_commit (fun l => l) ex_x1b) ex_x1b.

Example ex_rerun :
  snd ex_x2 = Txn.ROk /\ length (fst (ex_commit (fun l => l) ex_x1b)) = 3%nat /\
  x_txs (fst ex_x2) 1 = Some Txn.Committed /\
  cget (x_store (fst ex_x2)) (href (ex_bn 0)) = option_map (H ex_hash) (Txn.heads (Txn.all_outcome 1 Txn_proofs.s_w) 0) /\
  cget (x_store (fst ex_x2)) (href (ex_bn 1)) = option_map (H ex_hash) (Txn.heads (Txn.all_outcome 1 Txn_proofs.s_w) 1) /\
  length (fst (clog (x_store (fst ex_x2)) (href (ex_bn 0)))) = 2%nat /\
  length (fst (clog (x_store (fst ex_x2)) (href (ex_bn 1)))) = 1%nat.
Proof. vm_compute. repeat split. Qed.

(** the crashed repository is an interrupted one in the sense of the theorems *)
Lemma ex_interrupted :
  sql_interrupted ex_hash ex_tn ex_tb ex_none ex_none ex_none FInstr 1 ex_xc ex_x1b.
Proof.
  unfold ex_x1b, ex_commit. apply si_S.
  - apply si_0.
  - intros l. apply Permutation_sym, Permutation_rev.
  - vm_compute. reflexivity.
Qed.

(** * 8. Statements in the shape used by props/Compose3.v: the repository is any SQL database reached
    by any sequence of ref.Store calls from the empty store (C15's notion), and it represents [t]
    when the map specification's state reached by the same calls does ([TR]) *)
Section Statements.
  Variable fk : filter_kind.
  Hypothesis fk_ok : filter_ok fk = true.
  Variable hash : ccommit -> value.
  Variable tn : Txn.txid -> bytes.
  Variable tb : Txn.txid -> bytes.
  Variables cm_author cm_email cm_line : ccommit -> bytes.
  Variable bn : Txn.branch -> bytes.
  Hypothesis Hok : enc_ok hash tn tb bn.
  Variable hist : list op.
  Variable txs : Txn.txid -> option Txn.txstatus.
  Variable objs : value -> option ccommit.

  Notation xa := (mk_cst (sreach sinit hist) txs objs).
  Notation xc := (mk_cst (creach fk cinit hist) txs objs).
  Notation OBSfk := (OBS hash tn tb bn fk).
  Notation dcommit := (c_tx_commit hash tn tb cm_author cm_email cm_line (sql_ops fk)).
  Notation scommit := (c_tx_commit hash tn tb cm_author cm_email cm_line spec_ops).
  Notation ddiscard := (c_tx_discard tn (sql_ops fk)).
  Notation dcrash := (d_run_crash hash fk).
  Notation drun := (c_run_upto hash (sql_ops fk)).
  Notation dfull := (c_run_full hash (sql_ops fk)).
  Notation sqlint := (sql_interrupted hash tn tb cm_author cm_email cm_line fk).

  Lemma XR_reach : XR xa xc.
  Proof. split; [apply (reach_R fk fk_ok)|now split]. Qed.

  Theorem st_plan_eq : forall (cord : corder) i,
    dcommit cord i xc = scommit cord i xa /\ ddiscard i xc = c_tx_discard tn spec_ops i xa.
  Proof.
    intros cord i. split; symmetry.
    - apply (commit_XR fk fk_ok). apply XR_reach.
    - apply (discard_XR fk fk_ok). apply XR_reach.
  Qed.

  Theorem st_commit_sim : forall t, TR hash tn tb bn t xa ->
    forall (cord : corder) i, (forall l, Permutation (cord l) l) ->
    exists ord : Txn.order, Txn.order_ok ord (Txn.staged t i) /\
      (forall n, OBSfk (fst (Txn.run_upto n (Txn.tx_commit ord i t) t)) (fst (drun n (dcommit cord i xc) xc)) /\
                 snd (Txn.run_upto n (Txn.tx_commit ord i t) t) = snd (drun n (dcommit cord i xc) xc)) /\
      (forall n j, exists n', (n' = n \/ n' = S n) /\
         OBSfk (fst (Txn.run_upto n' (Txn.tx_commit ord i t) t)) (dcrash n j (fst (dcommit cord i xc)) xc)).
  Proof.
    intros t HT cord i Hc.
    destruct (commit_sim fk fk_ok hash tn tb cm_author cm_email cm_line bn Hok t xc cord i
                (TRS_reach fk fk_ok hash tn tb bn hist txs objs t HT) Hc) as [ord [Hord [Hrun [Hcr _]]]].
    exists ord. split; [exact Hord|]. split.
    - intros n. destruct (Hrun n) as [HS E]. split; [now apply (TRS_OBS fk fk_ok hash tn tb bn Hok)|exact E].
    - intros n j. destruct (Hcr n j) as [n' [Hn' HS]]. exists n'. split; [exact Hn'|].
      now apply (TRS_OBS fk fk_ok hash tn tb bn Hok).
  Qed.

  Theorem st_discard_sim : forall t, TR hash tn tb bn t xa -> forall i,
    exists ord : Txn.order, Txn.order_ok ord (Txn.staged t i) /\
      (forall n, OBSfk (fst (Txn.run_upto n (Txn.tx_discard ord i t) t)) (fst (drun n (ddiscard i xc) xc)) /\
                 snd (Txn.run_upto n (Txn.tx_discard ord i t) t) = snd (drun n (ddiscard i xc) xc)) /\
      (forall n j, exists n', (n' = n \/ n' = S n) /\
         OBSfk (fst (Txn.run_upto n' (Txn.tx_discard ord i t) t)) (dcrash n j (fst (ddiscard i xc)) xc)).
  Proof.
    intros t HT i.
    destruct (discard_sim fk fk_ok hash tn tb bn Hok t xc i
                (TRS_reach fk fk_ok hash tn tb bn hist txs objs t HT)) as [ord [Hord [Hrun [Hcr _]]]].
    exists ord. split; [exact Hord|]. split.
    - intros n. destruct (Hrun n) as [HS E]. split; [now apply (TRS_OBS fk fk_ok hash tn tb bn Hok)|exact E].
    - intros n j. destruct (Hcr n j) as [n' [Hn' HS]]. exists n'. split; [exact Hn'|].
      now apply (TRS_OBS fk fk_ok hash tn tb bn Hok).
  Qed.

  Section WithPre.
    Variable i : Txn.txid.
    Variable t0 : Txn.state.
    Hypothesis Hpre : Txn.pre i t0.
    Hypothesis HT0 : TR hash tn tb bn t0 xa.

    Let H0 : TRS hash tn tb bn t0 xc := TRS_reach fk fk_ok hash tn tb bn hist txs objs t0 HT0.

    Theorem st_any_crash_history : forall x (cord : corder),
      sqlint i xc x -> (forall l, Permutation (cord l) l) ->
      exists t2, snd (dfull (dcommit cord i x) x) = Txn.ROk /\
        OBSfk t2 (fst (dfull (dcommit cord i x) x)) /\ Txn.st_eq t2 (Txn.all_outcome i t0).
    Proof. apply (sql_any_crash_history fk fk_ok hash tn tb cm_author cm_email cm_line bn Hok i t0 Hpre xc H0). Qed.

    Theorem st_branch_consistent : forall x (cord : corder) n j,
      sqlint i xc x -> (forall l, Permutation (cord l) l) ->
      exists t1, OBSfk t1 (dcrash n j (fst (dcommit cord i x)) x) /\
        forall b, Txn.unmoved t0 t1 b \/ Txn.landed i t0 t1 b.
    Proof. apply (sql_branch_consistent fk fk_ok hash tn tb cm_author cm_email cm_line bn Hok i t0 Hpre xc H0). Qed.

    Theorem st_crash_state : forall x (cord : corder) n j,
      sqlint i xc x -> (forall l, Permutation (cord l) l) ->
      let x1 := dcrash n j (fst (dcommit cord i x)) x in
      (x_txs x1 i = Some Txn.InProgress /\ sqlint i xc x1) \/
      (x_txs x1 i = Some Txn.Committed /\ exists t1, OBSfk t1 x1 /\ Txn.st_eq t1 (Txn.all_outcome i t0)).
    Proof. apply (sql_crash_state fk fk_ok hash tn tb cm_author cm_email cm_line bn Hok i t0 Hpre xc H0). Qed.

    (** C14_all_or_completable / C14_rerun_completes for one crashed Commit and its re-run *)
    Theorem st_all_or_completable : forall (cord1 cord2 : corder) n j,
      (forall l, Permutation (cord1 l) l) -> (forall l, Permutation (cord2 l) l) ->
      let x1 := dcrash n j (fst (dcommit cord1 i xc)) xc in
      (x_txs x1 i = Some Txn.InProgress /\
       exists t2, snd (dfull (dcommit cord2 i x1) x1) = Txn.ROk /\
         OBSfk t2 (fst (dfull (dcommit cord2 i x1) x1)) /\ Txn.st_eq t2 (Txn.all_outcome i t0)) \/
      (x_txs x1 i = Some Txn.Committed /\ exists t1, OBSfk t1 x1 /\ Txn.st_eq t1 (Txn.all_outcome i t0)).
    Proof.
      intros cord1 cord2 n j Hc1 Hc2 x1.
      destruct (st_crash_state xc cord1 n j (si_0 _ _ _ _ _ _ _ _ _) Hc1) as [[Hin Hi]|Hcm].
      - left. split; [exact Hin|]. now apply st_any_crash_history.
      - right. exact Hcm.
    Qed.
  End WithPre.

  Theorem st_discard_frame : forall t, TR hash tn tb bn t xa -> forall i n j,
    exists t1, OBSfk t1 (dcrash n j (fst (ddiscard i xc)) xc) /\
      (forall b, Txn.heads t1 b = Txn.heads t b) /\ (forall b, Txn.logs t1 b = Txn.logs t b) /\
      (forall c, Txn.stored t1 c = Txn.stored t c) /\
      (forall i', i' <> i -> Txn.staged t1 i' = Txn.staged t i' /\ Txn.txs t1 i' = Txn.txs t i') /\
      incl (Txn.staged t1 i) (Txn.staged t i).
  Proof.
    intros t HT i n j. apply (sql_discard_frame fk fk_ok hash tn tb bn Hok).
    now apply (TRS_reach fk fk_ok).
  Qed.

  Theorem st_discard_complete : forall t, TR hash tn tb bn t xa -> forall i,
    Txn.txs t i = Some Txn.InProgress ->
    snd (dfull (ddiscard i xc) xc) = Txn.ROk /\
    c_list_tx tn (sql_ops fk) (fst (dfull (ddiscard i xc) xc)) i = Some [] /\
    x_txs (fst (dfull (ddiscard i xc) xc)) i = None.
  Proof.
    intros t HT i Hin. apply (sql_discard_complete fk fk_ok hash tn tb bn Hok t); [|exact Hin].
    now apply (TRS_reach fk fk_ok).
  Qed.

  Theorem st_txlog : forall t k, c_txlog (creach fk cinit hist) t k = s_txlog (sreach sinit hist) t k.
  Proof. intros t k. apply R_txlog. apply (reach_R fk fk_ok). Qed.

  Theorem st_staged_roots : forall t i b c, TR hash tn tb bn t xa -> In (b, c) (Txn.staged t i) ->
    cget (creach fk cinit hist) (tx_prefix (tn i) ++ bn b) = Some (H hash c).
  Proof.
    intros t i b c HT Hin. apply (list_all_refs fk fk_ok hist).
    apply (staged_among_roots hash tn tb bn t xa i b c HT Hin).
  Qed.
End Statements.

(** the premises of the Section 8 theorems are met by the concrete repository *)
Example ex_premises :
  filter_ok FInstr = true /\ enc_ok ex_hash ex_tn ex_tb ex_bn /\ Txn.pre 1 Txn_proofs.s_w /\
  TR ex_hash ex_tn ex_tb ex_bn Txn_proofs.s_w (mk_cst (sreach sinit ex_hist) (x_txs ex_xw) (x_objs ex_xw)) /\
  sql_interrupted ex_hash ex_tn ex_tb ex_none ex_none ex_none FInstr 1 ex_xc ex_x1b /\
  length (Txn.staged Txn_proofs.s_w 1) = 2%nat.
Proof.
  split; [reflexivity|]. split; [exact ex_enc_ok|]. split; [exact Txn_proofs.s_w_pre|].
  split; [exact ex_TR|]. split; [exact ex_interrupted|reflexivity].
Qed.
