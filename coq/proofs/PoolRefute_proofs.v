(** C16 - refutations: what goes wrong without the mutex, with the pre-fix sorter/ingest
    protocol, and with an error channel smaller than the number of workers.
    All witnesses are explicit schedules evaluated by vm_compute. *)
From W.lib Require Import Tree.
From W.model Require Import Pool PoolSpec.
From W.proofs Require Import PoolBase_proofs.
From Coq Require Import Arith Lia String.
Local Open Scope nat_scope.

Definition skel_locked : list string :=
  ["rowsCount:R:locked"; "rowsCount:W:locked"; "asyncBlocks:R:locked"; "asyncBlocks:W:locked"]%string.
Definition skel_unlocked : list string :=
  ["rowsCount:R:unlocked"; "rowsCount:W:unlocked"; "asyncBlocks:R:unlocked"; "asyncBlocks:W:unlocked"]%string.
Definition skel_post : list string := ["i.wg.Add"; "i.wg.Wait"; "close"; "i.sortBlocks"]%string.
Definition skel_outer : list string := ["i.ingestTableFromBlocks"; "cancel"; "drain"; "close"]%string.
Definition skel_outer_prefix : list string := ["i.ingestTableFromBlocks"; "close"]%string.   (* before the fix *)

Definition the_cfg (acc post outer : list string) (cap send : string) (w : nat) : cfg :=
  match cfg_of_skeleton acc post outer cap send w with
  | Some c => c
  | None => mk_cfg [] [] [] 0 0 0 false
  end.

Definition blk0 : blk := mk_blk 0 5 FNone.
Definition blk1 : blk := mk_blk 1 7 FNone.
Definition round_robin (w n : nat) : list nat := List.concat (repeat (seq 0 (w + 3)) n).

Lemma step_worker_out c k s : List.length (ws s) <= k -> step_worker c k s = None.
Proof.
  intros H. unfold step_worker. replace (nth_error (ws s) k) with (@None worker); auto.
  symmetry. now apply nth_error_None.
Qed.

(* ---- 1. without the mutex an update is lost *)
Definition cfg_unlocked := the_cfg skel_unlocked skel_post skel_outer "numWorkers" "select-send" 2.
Definition sched_lost : list nat :=
  [0; 1; 1; 1; 3; 4; 3; 3; 4; 4; 3; 4; 4; 3] ++ round_robin 2 12.

Lemma unlocked_not_ok : lockset_ok skel_unlocked = false.
Proof. vm_compute. reflexivity. Qed.

(** two workers, two blocks of 5 and 7 rows: the caller returns a table with ONE block and
    rowsCount = 5 instead of two blocks and 12 *)
Lemma pool_refuted :
  let s := runs cfg_unlocked sched_lost (init cfg_unlocked [PBlk blk0; PBlk blk1]) in
  main_done s = true /\ panicked s = false /\
  result s = Some (ROk 5 [blk1]) /\
  seq_result [blk0; blk1] = ROk 12 [blk0; blk1].
Proof. vm_compute. repeat split; reflexivity. Qed.

(* ---- 2. pre-fix IngestTableFromSorter: send on the closed sorterErrChan *)
Definition cfg_prefix := the_cfg skel_locked skel_post skel_outer_prefix "numWorkers" "default-send" 1.
Definition blk_bad : blk := mk_blk 0 5 FBlk.
Definition sched_closed : list nat := [0; 1; 1; 3; 3; 3; 3; 0; 0; 0; 0; 1; 1; 1].

(** the only worker fails on block 0 and exits; the caller returns the error and closes
    sorterErrChan; the producer, still running, hits a chunk read error and sends on the
    closed channel: panic *)
Lemma sorter_close_refuted :
  outer_ok skel_outer_prefix = false /\
  let s := runs cfg_prefix sched_closed (init cfg_prefix [PBlk blk_bad; PBlk blk1; PReadErr]) in
  panicked s = true.
Proof. vm_compute. split; reflexivity. Qed.

(* ---- 3. pre-fix producer (`default: blocks <- b`): blocked for ever after the caller returned *)
Definition twelve : list pitem :=
  PBlk blk_bad :: map (fun i => PBlk (mk_blk (N.of_nat i) 255 FNone)) (seq 1 11).
Definition sched_leak : list nat :=
  repeat 1 20 ++ [0; 3; 1; 1; 1; 1; 3; 3; 3; 0; 0; 0; 0; 0].

(** the caller has returned (with the worker's error) but the producer sits in its blocking
    send for ever: no thread can take a step, and the blocks channel is never closed *)
Lemma producer_leak_refuted :
  send_ok "default-send" = false /\
  let s := runs cfg_prefix sched_leak (init cfg_prefix twelve) in
  main_done s = true /\ result s = Some RErr /\ closed s = false /\ pend s <> [] /\
  forall t, step cfg_prefix t s = None.
Proof.
  split; [reflexivity|]. cbv zeta.
  set (s := runs cfg_prefix sched_leak (init cfg_prefix twelve)).
  assert (E1 : main_done s = true) by (vm_compute; reflexivity).
  assert (E2 : result s = Some RErr) by (vm_compute; reflexivity).
  assert (E3 : closed s = false) by (vm_compute; reflexivity).
  assert (E4 : panicked s = false) by (vm_compute; reflexivity).
  assert (E5 : List.length (ws s) = 1) by (vm_compute; reflexivity).
  repeat split; auto.
  - vm_compute. discriminate.
  - intros t. do 4 (destruct t as [|t]; [vm_compute; reflexivity|]).
    unfold step. rewrite E4. apply step_worker_out. rewrite E5. lia.
Qed.

(* ---- 4. an error channel smaller than the number of workers: the caller hangs *)
Definition cfg_cap1 := the_cfg skel_locked skel_post skel_outer "1" "select-send" 2.
Definition blk_bad1 : blk := mk_blk 1 7 FBlk.
Definition sched_hang : list nat := [0; 1; 1; 1; 3; 4; 3; 4; 3; 4; 3; 4] ++ round_robin 2 3.

(** both workers fail; the first error fills the channel, the second worker blocks in its
    send, wg.Wait never returns: deadlock (no thread can take a step, caller not done) *)
Lemma errchan_refuted :
  errchan_ok "1" = false /\
  let s := runs cfg_cap1 sched_hang (init cfg_cap1 [PBlk blk_bad; PBlk blk_bad1]) in
  main_done s = false /\ panicked s = false /\ forall t, step cfg_cap1 t s = None.
Proof.
  split; [reflexivity|]. cbv zeta.
  set (s := runs cfg_cap1 sched_hang (init cfg_cap1 [PBlk blk_bad; PBlk blk_bad1])).
  assert (E1 : main_done s = false) by (vm_compute; reflexivity).
  assert (E2 : panicked s = false) by (vm_compute; reflexivity).
  assert (E3 : List.length (ws s) = 2) by (vm_compute; reflexivity).
  repeat split; auto.
  intros t. do 5 (destruct t as [|t]; [vm_compute; reflexivity|]).
  unfold step. rewrite E2. apply step_worker_out. rewrite E3. lia.
Qed.
