(** C13 - re-running an interrupted fetch (receive + save refs). *)
From Coq Require Import List NArith Bool String Lia Permutation Arith.
From W.model Require Import CrashRepo Crash.
From W.proofs Require Import CrashRepo_proofs Crash_proofs.
Import ListNotations.
Local Open Scope N_scope.
Local Notation length := List.length.

(* ------------------------------------------------------------------ monotonicity of receive *)

Lemma objs_le_apply w s s' : is_put w -> objs_le s s' -> objs_le (apply w s) (apply w s').
Proof.
  intros Hp (M1&M2&M3&M4&M5&M6). unfold objs_le.
  repeat split; intros x Hx;
    [apply In_commits_apply in Hx; apply In_commits_apply
    |apply In_tables_apply in Hx; apply In_tables_apply
    |apply In_tblidx_apply in Hx; apply In_tblidx_apply
    |apply In_prof_apply in Hx; apply In_prof_apply
    |apply In_blocks_apply in Hx; apply In_blocks_apply
    |apply In_blkidx_apply in Hx; apply In_blkidx_apply];
    destruct w; cbn in Hp; try contradiction; cbn in *; auto; destruct Hx; auto.
Qed.

Lemma objs_le_apply_all ws : forall s s', Forall is_put ws -> objs_le s s' -> objs_le (apply_all ws s) (apply_all ws s').
Proof.
  induction ws as [|w ws IH]; intros s s' H Hle; auto.
  inversion H; subst. rewrite !apply_all_cons. apply IH; auto. apply objs_le_apply; auto.
Qed.

Section Fetch.
  Variable sk : skels.
  Variable dv : deriver.
  Hypothesis Hok : skels_ok sk = true.

  Let P := skels_ok_parts sk Hok.
  Let Hrtable := proj1 (proj2 (proj2 P)).
  Let Hindex := proj1 (proj2 (proj2 (proj2 P))).
  Let Hrcommit := proj1 (proj2 (proj2 (proj2 (proj2 P)))).
  Let Hfetch := proj1 (proj2 (proj2 (proj2 (proj2 (proj2 P))))).

  Lemma index_blocks_mono s s' meta rows :
    (forall b, In b (blocks s) -> In b (blocks s')) ->
    snd (index_blocks dv s meta rows) = true -> index_blocks dv s' meta rows = index_blocks dv s meta rows.
  Proof.
    intros Hle. induction rows as [|[b i] rows IH]; cbn; auto.
    destruct (memb N.eqb b (blocks s)) eqn:E; [|cbn; discriminate].
    assert (E' : memb N.eqb b (blocks s') = true).
    { apply (memb_In N.eqb N.eqb_eq). apply Hle. apply (memb_In N.eqb N.eqb_eq). exact E. }
    rewrite E'. destruct (N.eqb (dv meta b) i); [|cbn; discriminate].
    destruct (index_blocks dv s meta rows) as [ws ok]; cbn in *. intros ->. rewrite IH; auto.
  Qed.

  Lemma index_table_mono s s' t :
    (forall b, In b (blocks s) -> In b (blocks s')) ->
    snd (index_table_writes sk dv s t) = true -> index_table_writes sk dv s' t = index_table_writes sk dv s t.
  Proof.
    intros Hle. rewrite !(index_table_writes_eq sk Hindex).
    pose proof (index_blocks_mono s s' (t_meta t) (t_rows t) Hle) as M.
    destruct (index_blocks dv s (t_meta t) (t_rows t)) as [ws ok]; cbn in *.
    destruct ok; cbn; [|discriminate]. intros _. rewrite M; auto.
  Qed.

  Lemma inclb_blocks_mono s s' t :
    (forall b, In b (blocks s) -> In b (blocks s')) ->
    inclb N.eqb (t_blocks t) (blocks s) = true -> inclb N.eqb (t_blocks t) (blocks s') = true.
  Proof.
    intros Hle H. apply (inclb_incl N.eqb N.eqb_eq). intros b Hb. apply Hle.
    revert b Hb. apply (inclb_incl N.eqb N.eqb_eq). exact H.
  Qed.

  Lemma recv_table_mono s s' t :
    (forall b, In b (blocks s) -> In b (blocks s')) ->
    snd (recv_table_writes sk dv s t) = true -> recv_table_writes sk dv s' t = recv_table_writes sk dv s t.
  Proof.
    intros Hle. pose proof (one_of_In _ _ Hrtable) as H. unfold recv_table_writes.
    pose proof (index_table_mono s s' t Hle) as MI.
    pose proof (inclb_blocks_mono s s' t Hle) as MB.
    destruct H as [H | [H | []]]; rewrite <- H; cbn.
    - destruct (index_table_writes sk dv s t) as [wi oki]; cbn in *. destruct oki; cbn; [|discriminate].
      rewrite (MI eq_refl). cbn.
      destruct (inclb N.eqb (t_blocks t) (blocks s)) eqn:E; cbn; [|discriminate].
      rewrite (MB eq_refl). reflexivity.
    - destruct (inclb N.eqb (t_blocks t) (blocks s)) eqn:E; cbn; [|discriminate].
      rewrite (MB eq_refl). cbn.
      destruct (index_table_writes sk dv s t) as [wi oki]; cbn in *. destruct oki; cbn; [|discriminate].
      rewrite (MI eq_refl). reflexivity.
  Qed.

  Lemma recv_obj_mono s s' o : objs_le s s' ->
    snd (recv_obj sk dv s o) = true -> recv_obj sk dv s' o = recv_obj sk dv s o.
  Proof.
    intros (M1&_&_&_&M5&_). destruct o as [b | t | c]; cbn [recv_obj]; auto.
    - apply recv_table_mono; auto.
    - rewrite !(recv_commit_writes_eq sk Hrcommit).
      destruct (inclb cid_eqb (c_parents c) (commits s)) eqn:E; cbn; [|discriminate]. intros _.
      assert (E' : inclb cid_eqb (c_parents c) (commits s') = true).
      { apply (inclb_incl cid_eqb cid_eqb_eq). intros p Hp. apply M1.
        revert p Hp. apply (inclb_incl cid_eqb cid_eqb_eq). exact E. }
      rewrite E'. reflexivity.
  Qed.

  Lemma receive_mono objs : forall s s', objs_le s s' ->
    snd (receive sk dv s objs) = true -> receive sk dv s' objs = receive sk dv s objs.
  Proof.
    induction objs as [|o objs IH]; intros s s' Hle Hok'; cbn [receive] in *; auto.
    pose proof (recv_obj_mono s s' o Hle) as M.
    destruct (recv_obj_safe sk Hrtable Hindex Hrcommit dv s o) as [_ Hput].
    destruct (recv_obj sk dv s o) as [ws ok]; cbn in *. destruct ok; [|cbn in Hok'; discriminate].
    rewrite (M eq_refl).
    assert (Hle' : objs_le (apply_all ws s) (apply_all ws s')) by (apply objs_le_apply_all; auto).
    specialize (IH _ _ Hle').
    destruct (receive sk dv (apply_all ws s) objs) as [ws' ok']; cbn in *.
    rewrite (IH Hok'). reflexivity.
  Qed.

  (* ---------------------------------------------------------------- save_refs as a map update *)

  Definition uname (u : N * cid * bool) : N := fst (fst u).
  Definition utarget (u : N * cid * bool) : cid := snd (fst u).

  Definition decide (old : option cid) (c : cid) (force : bool) : option cid :=
    match old with
    | None => Some c
    | Some o => if cid_eqb o c then Some o else if is_anc o c || force then Some c else Some o
    end.

  Definition find_upd (r : N) (upd : list (N * cid * bool)) : option (N * cid * bool) :=
    find (fun u => N.eqb (uname u) r) upd.

  Definition lookup_after (old : option cid) (e : option (N * cid * bool)) : option cid :=
    match e with Some u => decide old (utarget u) (snd u) | None => old end.

  Lemma decide_idem old c f : decide (decide old c f) c f = decide old c f.
  Proof.
    unfold decide. destruct old as [o|]; [|rewrite cid_eqb_refl; reflexivity].
    destruct (cid_eqb o c) eqn:E; [rewrite E; reflexivity|].
    destruct (is_anc o c || f) eqn:A; [rewrite cid_eqb_refl; reflexivity | rewrite E, A; reflexivity].
  Qed.

  Lemma head_of_set r r0 c f s :
    head_of r (apply (SetRefLog r0 c f) s) = if N.eqb r0 r then Some c else head_of r s.
  Proof.
    unfold head_of, get_ref. rewrite refs_after_set. cbn.
    destruct (N.eqb r0 r) eqn:E; cbn; [reflexivity|].
    apply N.eqb_neq in E. rewrite find_del_key; auto.
  Qed.

  Lemma stored_set r c f s x : stored x (apply (SetRefLog r c f) s) = stored x s.
  Proof. destruct s; reflexivity. Qed.

  Lemma find_upd_notin r upd : ~ In r (map uname upd) -> find_upd r upd = None.
  Proof.
    intros H. unfold find_upd. destruct (find _ upd) as [u|] eqn:E; auto.
    apply find_some in E. destruct E as [Hin Hr]. apply N.eqb_eq in Hr. exfalso. apply H.
    apply in_map_iff. exists u. auto.
  Qed.

  Lemma save_refs_lookup upd : forall s, NoDup (map uname upd) ->
    (forall u, In u upd -> stored (utarget u) s = true) ->
    forall r, head_of r (apply_all (fst (save_refs s upd)) s) = lookup_after (head_of r s) (find_upd r upd).
  Proof.
    induction upd as [|[[r0 c] force] upd IH]; intros s Hnd Hst r; [reflexivity|].
    inversion Hnd as [|? ? Hn0 Hnd']; subst. cbn in Hn0.
    assert (Hc : stored c s = true) by (apply (Hst (r0, c, force)); left; reflexivity).
    assert (Hst' : forall s', (forall x, stored x s' = stored x s) -> forall u, In u upd -> stored (utarget u) s' = true).
    { intros s' E u Hu. rewrite E. apply Hst. right; auto. }
    assert (Hwrite : head_of r (apply_all (fst (save_refs (apply (SetRefLog r0 c false) s) upd))
                                   (apply (SetRefLog r0 c false) s))
                     = if N.eqb r0 r then Some c else lookup_after (head_of r s) (find_upd r upd)).
    { rewrite (IH (apply (SetRefLog r0 c false) s) Hnd' (Hst' _ (stored_set _ _ _ _))), head_of_set.
      destruct (N.eqb r0 r) eqn:E; auto. apply N.eqb_eq in E. subst r.
      rewrite (find_upd_notin r0 upd Hn0). reflexivity. }
    assert (Hkeep : head_of r (apply_all (fst (save_refs s upd)) s)
                    = if N.eqb r0 r then head_of r0 s else lookup_after (head_of r s) (find_upd r upd)).
    { rewrite (IH s Hnd' (Hst' _ (fun _ => eq_refl))).
      destruct (N.eqb r0 r) eqn:E; auto. apply N.eqb_eq in E. subst r.
      rewrite (find_upd_notin r0 upd Hn0). reflexivity. }
    cbn [save_refs]. unfold find_upd. cbn [find uname fst].
    fold (find_upd r upd). unfold lookup_after at 1. cbn [utarget snd fst].
    destruct (head_of r0 s) as [old|] eqn:Eo.
    - destruct (cid_eqb old c) eqn:Ec.
      + rewrite Hkeep. destruct (N.eqb r0 r) eqn:E; auto. apply N.eqb_eq in E. subst r.
        rewrite Eo. unfold decide, utarget; cbn [fst snd]. rewrite Ec. reflexivity.
      + rewrite Hc. cbn [negb]. destruct (is_anc old c || force) eqn:Ea.
        * destruct (save_refs (apply (SetRefLog r0 c false) s) upd) as [ws ok] eqn:Es. cbn [fst].
          rewrite apply_all_cons. cbn [fst] in Hwrite. rewrite Hwrite.
          destruct (N.eqb r0 r) eqn:E; auto. apply N.eqb_eq in E. subst r.
          rewrite Eo. unfold decide, utarget; cbn [fst snd]. rewrite Ec, Ea. reflexivity.
        * destruct (save_refs s upd) as [ws ok] eqn:Es. cbn [fst] in *. rewrite Hkeep.
          destruct (N.eqb r0 r) eqn:E; auto. apply N.eqb_eq in E. subst r.
          rewrite Eo. unfold decide, utarget; cbn [fst snd]. rewrite Ec, Ea. reflexivity.
    - destruct (save_refs (apply (SetRefLog r0 c false) s) upd) as [ws ok] eqn:Es. cbn [fst].
      rewrite apply_all_cons. cbn [fst] in Hwrite. rewrite Hwrite.
      destruct (N.eqb r0 r) eqn:E; auto. apply N.eqb_eq in E. subst r. rewrite Eo. reflexivity.
  Qed.

  (** save_refs looks at the state only through the refs and the presence of the targets *)
  Lemma save_refs_ext upd : forall a b, refs a = refs b ->
    (forall u, In u upd -> stored (utarget u) a = true /\ stored (utarget u) b = true) ->
    save_refs a upd = save_refs b upd.
  Proof.
    induction upd as [|[[r0 c] force] upd IH]; intros a b Er Hst; [reflexivity|].
    destruct (Hst (r0, c, force) (or_introl eq_refl)) as [Ha Hb]. cbn in Ha, Hb.
    assert (Hst' : forall a' b', (forall x, stored x a' = stored x a) -> (forall x, stored x b' = stored x b) ->
               forall u, In u upd -> stored (utarget u) a' = true /\ stored (utarget u) b' = true).
    { intros a' b' Ea Eb u Hu. rewrite Ea, Eb. apply Hst. right; auto. }
    assert (Eset : refs (apply (SetRefLog r0 c false) a) = refs (apply (SetRefLog r0 c false) b)).
    { rewrite !refs_after_set, Er. reflexivity. }
    cbn [save_refs]. rewrite (head_of_refs_eq r0 a b Er), Ha, Hb.
    rewrite (IH a b Er (Hst' a b (fun _ => eq_refl) (fun _ => eq_refl))).
    rewrite (IH _ _ Eset (Hst' _ _ (stored_set _ _ _ _) (stored_set _ _ _ _))). reflexivity.
  Qed.

  (** a prefix of the ref phase's writes is the ref phase of a prefix of the update list *)
  Lemma save_refs_prefix upd : forall s k,
    (forall u, In u upd -> stored (utarget u) s = true) ->
    exists upd1 upd2, upd = upd1 ++ upd2 /\ firstn k (fst (save_refs s upd)) = fst (save_refs s upd1).
  Proof.
    induction upd as [|[[r0 c] force] upd IH]; intros s k Hst.
    - exists [], []. split; auto. cbn. apply firstn_nil.
    - assert (Hc : stored c s = true) by (apply (Hst (r0, c, force)); left; reflexivity).
      assert (Hst' : forall s', (forall x, stored x s' = stored x s) -> forall u, In u upd -> stored (utarget u) s' = true).
      { intros s' E u Hu. rewrite E. apply Hst. right; auto. }
      assert (Hw : forall k', exists upd1 upd2, upd = upd1 ++ upd2 /\
                  firstn k' (fst (save_refs (apply (SetRefLog r0 c false) s) upd))
                  = fst (save_refs (apply (SetRefLog r0 c false) s) upd1))
        by (intros k'; apply IH; apply Hst'; apply stored_set).
      assert (Hk : exists upd1 upd2, upd = upd1 ++ upd2 /\ firstn k (fst (save_refs s upd)) = fst (save_refs s upd1))
        by (apply IH; apply Hst'; reflexivity).
      cbn [save_refs]. destruct (head_of r0 s) as [old|] eqn:Eo.
      + destruct (cid_eqb old c) eqn:Ec.
        * destruct Hk as [u1 [u2 [E1 E2]]]. exists ((r0, c, force) :: u1), u2. split; [rewrite E1; reflexivity|].
          cbn [save_refs]. rewrite Eo, Ec. exact E2.
        * rewrite Hc. cbn [negb]. destruct (is_anc old c || force) eqn:Ea.
          -- destruct k as [|k'].
             ++ exists [], ((r0, c, force) :: upd). split; auto.
             ++ destruct (Hw k') as [u1 [u2 [E1 E2]]]. exists ((r0, c, force) :: u1), u2.
                split; [rewrite E1; reflexivity|]. cbn [save_refs]. rewrite Eo, Ec, Hc. cbn [negb]. rewrite Ea.
                destruct (save_refs (apply (SetRefLog r0 c false) s) upd) as [ws ok].
                destruct (save_refs (apply (SetRefLog r0 c false) s) u1) as [ws1 ok1]. cbn in *. rewrite E2. reflexivity.
          -- destruct Hk as [u1 [u2 [E1 E2]]]. exists ((r0, c, force) :: u1), u2. split; [rewrite E1; reflexivity|].
             cbn [save_refs]. rewrite Eo, Ec, Hc. cbn [negb]. rewrite Ea.
             destruct (save_refs s upd) as [ws ok]. destruct (save_refs s u1) as [ws1 ok1]. cbn in *. exact E2.
      + destruct k as [|k'].
        * exists [], ((r0, c, force) :: upd). split; auto.
        * destruct (Hw k') as [u1 [u2 [E1 E2]]]. exists ((r0, c, force) :: u1), u2.
          split; [rewrite E1; reflexivity|]. cbn [save_refs]. rewrite Eo.
          destruct (save_refs (apply (SetRefLog r0 c false) s) upd) as [ws ok].
          destruct (save_refs (apply (SetRefLog r0 c false) s) u1) as [ws1 ok1]. cbn in *. rewrite E2. reflexivity.
  Qed.

  Lemma save_refs_is_ref s upd : Forall (fun w => exists r c f, w = SetRefLog r c f) (fst (save_refs s upd)).
  Proof.
    revert s. induction upd as [|[[r0 c] force] upd IH]; intros s; cbn [save_refs]; [constructor|].
    destruct (head_of r0 s) as [old|].
    - destruct (cid_eqb old c); [apply IH|]. destruct (negb (stored c s)); [constructor|].
      destruct (is_anc old c || force).
      + specialize (IH (apply (SetRefLog r0 c false) s)).
        destruct (save_refs (apply (SetRefLog r0 c false) s) upd) as [ws ok]. cbn in *. constructor; eauto.
      + specialize (IH s). destruct (save_refs s upd) as [ws ok]. cbn in *. auto.
    - specialize (IH (apply (SetRefLog r0 c false) s)).
      destruct (save_refs (apply (SetRefLog r0 c false) s) upd) as [ws ok]. cbn in *. constructor; eauto.
  Qed.

  Lemma refwrites_objs ws s : Forall (fun w => exists r c f, w = SetRefLog r c f) ws ->
    forall x, stored x (apply_all ws s) = stored x s.
  Proof.
    revert s. induction ws as [|w ws IH]; intros s H x; auto.
    inversion H as [|? ? [r [c [f ->]]] Hws]; subst. rewrite apply_all_cons, IH; auto. apply stored_set.
  Qed.

  Lemma find_upd_app_some r u1 u2 e : find_upd r u1 = Some e -> find_upd r (u1 ++ u2) = Some e.
  Proof.
    unfold find_upd. induction u1 as [|u u1 IH]; cbn; [discriminate|].
    destruct (N.eqb (uname u) r); auto.
  Qed.

  Lemma NoDup_map_app_l {A B} (f : A -> B) (l1 l2 : list A) : NoDup (map f (l1 ++ l2)) -> NoDup (map f l1).
  Proof.
    rewrite map_app. induction (map f l1) as [|x l IH]; cbn; intros H; [constructor|].
    inversion H; subst. constructor; [rewrite in_app_iff in *; tauto | auto].
  Qed.

  Lemma ref_shape_head s r : ref_shape s r = option_map shape_of (head_of r s).
  Proof. unfold ref_shape, head_of. destruct (get_ref r s) as [[c f]|]; reflexivity. Qed.

  Lemma obs_eq_heads a b : (forall r, head_of r a = head_of r b) -> obs_eq a b.
  Proof. intros H r. rewrite !ref_shape_head, H. reflexivity. Qed.

  (* ---------------------------------------------------------------- the re-run *)

  Lemma idx_put_is_obj w : idx_put w -> is_obj w.
  Proof. destruct w; cbn; auto. Qed.

  Lemma recv_obj_is_obj s o : Forall is_obj (fst (recv_obj sk dv s o)).
  Proof.
    destruct o as [b | t | c]; cbn [recv_obj].
    - repeat constructor.
    - destruct (recv_table_spec sk Hrtable Hindex dv s t) as [[_ Hf] | [_ [pre (E&Hp&_)]]].
      + eapply Forall_impl; [|exact Hf]. apply idx_put_is_obj.
      + rewrite E. apply Forall_app; split; [|repeat constructor].
        eapply Forall_impl; [|exact Hp]. apply idx_put_is_obj.
    - rewrite (recv_commit_writes_eq sk Hrcommit).
      destruct (inclb cid_eqb (c_parents c) (commits s)); cbn; repeat constructor.
  Qed.

  Lemma receive_is_obj objs : forall s, Forall is_obj (fst (receive sk dv s objs)).
  Proof.
    induction objs as [|o objs IH]; intros s; cbn [receive]; [constructor|].
    pose proof (recv_obj_is_obj s o) as H. destruct (recv_obj sk dv s o) as [ws ok]; cbn in *.
    destruct ok; auto. specialize (IH (apply_all ws s)).
    destruct (receive sk dv (apply_all ws s) objs) as [ws' ok']; cbn in *. apply Forall_app; auto.
  Qed.

  Lemma refwrites_objs_le ws s : Forall (fun w => exists r c f, w = SetRefLog r c f) ws -> objs_le s (apply_all ws s).
  Proof.
    intros H. apply puts_mono. eapply Forall_impl; [|exact H]. intros w [r [c [f ->]]]. exact I.
  Qed.

  Lemma lookup_twice old u1 u2 r :
    lookup_after (lookup_after old (find_upd r u1)) (find_upd r (u1 ++ u2)) = lookup_after old (find_upd r (u1 ++ u2)).
  Proof.
    destruct (find_upd r u1) as [e|] eqn:E; [|reflexivity].
    rewrite (find_upd_app_some r u1 u2 e E). cbn. apply decide_idem.
  Qed.

  Lemma fetch_objects_is_obj s objs upd : Forall is_obj (fst (fetch_objects sk dv s objs upd)).
  Proof.
    unfold fetch_objects. destruct (forallb (fun u => stored (snd (fst u)) s) upd); [constructor|].
    pose proof (receive_is_obj objs s) as H. destruct (receive sk dv s objs) as [wr okr]. exact H.
  Qed.

  Lemma stored_all_mono s s' upd : objs_le s s' ->
    forallb (fun u : N * cid * bool => stored (snd (fst u)) s) upd = true ->
    forallb (fun u : N * cid * bool => stored (snd (fst u)) s') upd = true.
  Proof.
    intros Hle H. rewrite forallb_forall in *. intros u Hu. eapply objs_le_stored; eauto.
  Qed.

  (** the object phase succeeds again from any larger state *)
  Lemma fetch_objects_mono s s' objs upd : objs_le s s' ->
    snd (fetch_objects sk dv s objs upd) = true -> snd (fetch_objects sk dv s' objs upd) = true.
  Proof.
    intros Hle. unfold fetch_objects.
    destruct (forallb (fun u => stored (snd (fst u)) s') upd) eqn:E'; [reflexivity|].
    destruct (forallb (fun u => stored (snd (fst u)) s) upd) eqn:E.
    - rewrite (stored_all_mono s s' upd Hle E) in E'. discriminate.
    - pose proof (receive_mono objs s s' Hle) as M.
      destruct (receive_safe sk Hrtable Hindex Hrcommit dv objs s) as [_ Hput].
      destruct (receive sk dv s objs) as [wr okr]; cbn in *. intros H.
      apply andb_true_iff in H. destruct H as [-> H]. rewrite (M eq_refl). cbn.
      apply (stored_all_mono (apply_all wr s) (apply_all wr s') upd); auto.
      apply objs_le_apply_all; auto.
  Qed.

  (** An interrupted fetch whose object phase had succeeded (every advertised commit stored
      or received), re-run from the crash state with the same packfile objects and the same
      ref updates: the object phase succeeds again (it is skipped when nothing is wanted any
      more), the final state is invariant and every ref names the same commit as after the
      uninterrupted run.  (A real re-run negotiates again and is sent fewer objects; the ref
      phase only depends on the refs and on the advertised commits being stored.)  Leftover
      objects of a partial transfer are garbage. *)
  Theorem fetch_rerun s objs upd n :
    Inv s -> NoDup (map uname upd) ->
    snd (fetch_objects sk dv s objs upd) = true ->
    let ws1 := fst (fetch_writes sk dv s objs upd) in
    let cs := crash n ws1 s in
    let ws2 := fst (fetch_writes sk dv cs objs upd) in
    Inv (apply_all ws2 cs) /\
    snd (fetch_objects sk dv cs objs upd) = true /\
    (forall r, head_of r (apply_all ws2 cs) = head_of r (apply_all ws1 s)).
  Proof.
    intros Hi Hnd Hrecv ws1 cs ws2.
    assert (Hics : Inv cs).
    { apply (nonprune_prefix_consistent sk dv Hok sequential s (OFetch objs upd) n sequential_valid Hi I). }
    assert (Hinv2 : Inv (apply_all ws2 cs)).
    { apply (nonprune_final_inv sk dv Hok sequential cs (OFetch objs upd) sequential_valid Hics I). }
    split; [exact Hinv2|].
    clear Hinv2 Hics. subst ws2. subst cs. subst ws1.
    rewrite (fetch_writes_eq sk dv Hfetch s objs upd) in *.
    destruct (fetch_objects_spec sk Hrtable Hindex Hrcommit dv s objs upd) as (_ & Hput & Hst0).
    pose proof (fetch_objects_is_obj s objs upd) as Hobj.
    pose proof (fetch_objects_mono s) as Hmono.
    destruct (fetch_objects sk dv s objs upd) as [wo oko] eqn:EO. cbn [fst snd] in *. subst oko.
    set (s1 := apply_all wo s) in *.
    assert (Hst : forall u, In u upd -> stored (utarget u) s1 = true).
    { intros u Hu. apply (memb_In cid_eqb cid_eqb_eq). apply (Hst0 eq_refl u Hu). }
    pose proof (save_refs_is_ref s1 upd) as Hrefw.
    pose proof (save_refs_lookup upd s1 Hnd Hst) as Hlook1.
    pose proof (save_refs_prefix upd s1) as Hpref.
    destruct (save_refs s1 upd) as [wsr oks] eqn:ES. cbn [fst] in *.
    set (cs := crash n (wo ++ wsr) s).
    assert (Hcs : objs_le s cs /\
                 exists u1 u2, upd = u1 ++ u2 /\
                   forall r, head_of r cs = lookup_after (head_of r s) (find_upd r u1)).
    { unfold cs, crash. rewrite firstn_app, apply_all_app.
      destruct (le_lt_dec n (length wo)) as [Hn | Hn].
      - rewrite (proj2 (Nat.sub_0_le n (length wo)) Hn). cbn [firstn apply_all fold_left]. split.
        + apply puts_mono. apply Forall_firstn; auto.
        + exists [], upd. split; auto. intros r. cbn.
          apply head_of_refs_eq. apply apply_all_obj_refs. apply Forall_firstn; auto.
      - rewrite (firstn_all2 wo) by (apply Nat.lt_le_incl; exact Hn). fold s1.
        destruct (Hpref (n - length wo)%nat Hst) as [u1 [u2 [E1 E2]]]. rewrite E2. split.
        + apply (objs_le_trans s s1); [apply puts_mono; auto|].
          apply refwrites_objs_le. apply save_refs_is_ref.
        + exists u1, u2. split; auto. intros r.
          rewrite (save_refs_lookup u1 s1).
          * f_equal. apply head_of_refs_eq. apply apply_all_obj_refs; auto.
          * rewrite E1 in Hnd. apply (NoDup_map_app_l uname u1 u2 Hnd).
          * intros u Hu. apply Hst. rewrite E1. apply in_or_app; auto. }
    destruct Hcs as [Hle [u1 [u2 [Eupd Hhead]]]].
    rewrite (fetch_writes_eq sk dv Hfetch cs objs upd).
    pose proof (Hmono cs objs upd Hle) as Hok2. rewrite EO in Hok2. specialize (Hok2 eq_refl).
    destruct (fetch_objects_spec sk Hrtable Hindex Hrcommit dv cs objs upd) as (_ & Hput2 & Hst2).
    pose proof (fetch_objects_is_obj cs objs upd) as Hobj2.
    destruct (fetch_objects sk dv cs objs upd) as [wo2 oko2]. cbn [fst snd] in *. subst oko2.
    split; [reflexivity|].
    set (cs' := apply_all wo2 cs) in *.
    assert (Hst' : forall u, In u upd -> stored (utarget u) cs' = true).
    { intros u Hu. apply (memb_In cid_eqb cid_eqb_eq). apply (Hst2 eq_refl u Hu). }
    pose proof (save_refs_lookup upd cs' Hnd Hst') as Hlook2.
    destruct (save_refs cs' upd) as [wsr2 oks2] eqn:ES2. cbn [fst] in *.
    intros r. rewrite !apply_all_app. fold s1 cs'. rewrite Hlook2, Hlook1.
    assert (E1 : head_of r cs' = head_of r cs) by (apply head_of_refs_eq; apply apply_all_obj_refs; auto).
    assert (E2 : head_of r s1 = head_of r s) by (apply head_of_refs_eq; apply apply_all_obj_refs; auto).
    rewrite E1, E2, Hhead, Eupd. apply lookup_twice.
  Qed.

End Fetch.
