(** Lemmas about the interpreter of lib/GoLang.v: fuel monotonicity, a weakest-precondition
    style presentation [wp] of the big-step semantics (derived from the fuel interpreter, so
    nothing is assumed), and the symbolic-execution tactics used by proofs/GoCode_*_proofs.v. *)
From Coq Require Import List ZArith NArith Bool String Lia.
From W.lib Require Import Tree Bytes GoLang.
Import ListNotations.
Local Open Scope Z_scope.

(** * fuel monotonicity *)
Definition refines (r r' : stmt -> env -> outcome) : Prop :=
  forall s e, r s e <> OOutOfFuel -> r' s e = r s e.

Lemma range_loop_mono (run run' : env -> outcome) :
  (forall e, run e <> OOutOfFuel -> run' e = run e) ->
  forall items id k v i e,
    range_loop run id k v items i e <> OOutOfFuel ->
    range_loop run' id k v items i e = range_loop run id k v items i e.
Proof.
  intros H items; induction items as [|x rest IH]; intros id k v i e H0; cbn in *; [reflexivity|].
  set (e0 := set_opt v x (set_opt k (VInt i) e)) in *.
  assert (R : run e0 <> OOutOfFuel).
  { intro C. rewrite C in H0. cbn in H0. congruence. }
  rewrite (H _ R). destruct (loop_ctl id (run e0)); auto.
Qed.

Lemma range_map_loop_mono (run run' : env -> outcome) :
  (forall e, run e <> OOutOfFuel -> run' e = run e) ->
  forall keys id kx vx ik m e,
    range_map_loop run id kx vx ik m keys e <> OOutOfFuel ->
    range_map_loop run' id kx vx ik m keys e = range_map_loop run id kx vx ik m keys e.
Proof.
  intros H keys; induction keys as [|k rest IH]; intros id kx vx ik m e H0; cbn in *; [reflexivity|].
  set (e0 := set_opt vx (map_lookup m k) (set_opt kx (key_value ik k) e)) in *.
  assert (R : run e0 <> OOutOfFuel).
  { intro C. rewrite C in H0. cbn in H0. congruence. }
  rewrite (H _ R). destruct (loop_ctl id (run e0)); auto.
Qed.

Lemma assign1_not_oof l v e : assign1 l v e <> OOutOfFuel.
Proof.
  destruct l; cbn; try discriminate.
  - destruct (eval e i) as [[]| |]; try discriminate.
    destruct (get x e); try discriminate.
    + destruct v; try discriminate. destruct (in_bounds _ _); discriminate.
    + destruct (in_bounds _ _); discriminate.
  - destruct (eval e k) as [[]| |]; try discriminate.
    destruct (get x e); discriminate.
Qed.

Lemma assign_all_not_oof ls : forall vs e, assign_all ls vs e <> OOutOfFuel.
Proof.
  induction ls as [|l ls IH]; intros [|v vs] e; cbn; try discriminate.
  pose proof (assign1_not_oof l v e).
  destruct (assign1 l v e); try discriminate; auto.
Qed.

Lemma exec_step_mono r r' p s e :
  refines r r' -> exec_step r p s e <> OOutOfFuel -> exec_step r' p s e = exec_step r p s e.
Proof.
  intros R H. destruct s; cbn [exec_step] in *; try reflexivity.
  - (* SSeq *)
    assert (A : r s1 e <> OOutOfFuel) by (intro C; rewrite C in H; congruence).
    rewrite (R _ _ A). destruct (r s1 e); auto.
  - (* SCall *)
    destruct (lookup_func p f) as [fd|]; [|reflexivity].
    destruct (evals e args); try reflexivity.
    destruct (Nat.eqb _ _); [|reflexivity].
    destruct (f_outs fd); [|reflexivity].
    assert (A : r (f_body fd) (init_env fd vs) <> OOutOfFuel) by (intro C; rewrite C in H; cbn in H; congruence).
    now rewrite (R _ _ A).
  - (* SIf *)
    destruct (eval e c) as [[]| |]; try reflexivity. destruct b; auto.
  - (* SFor *)
    destruct (eval e c) as [[]| |]; try reflexivity. destruct b; [|reflexivity].
    assert (A : r s2 e <> OOutOfFuel) by (intro C; rewrite C in H; cbn in H; congruence).
    rewrite (R _ _ A). destruct (loop_ctl id (r s2 e)); auto.
    assert (B : r s1 e0 <> OOutOfFuel) by (intro C; rewrite C in H; congruence).
    rewrite (R _ _ B). destruct (r s1 e0); auto.
  - (* SRange *)
    destruct (eval e e0); try reflexivity. destruct (items_of v0); [|reflexivity].
    apply range_loop_mono; auto.
  - (* SRangeMap *)
    destruct (eval e m) as [[]| |]; try reflexivity.
    destruct (p_oracle p "map.order" _) as [[|[] [|]]|]; try reflexivity.
    destruct (strs_of l); [|reflexivity]. destruct (perm_ok _ _); [|reflexivity].
    apply range_map_loop_mono; auto.
Qed.

Lemma exec_S f : forall p s e, exec f p s e <> OOutOfFuel -> exec (S f) p s e = exec f p s e.
Proof.
  induction f as [|f IH]; intros p s e H; [cbn in H; congruence|].
  change (exec_step (exec (S f) p) p s e = exec_step (exec f p) p s e).
  apply exec_step_mono; [|exact H]. intros s' e' H'. now apply IH.
Qed.

Lemma exec_mono f f' p s e :
  (f <= f')%nat -> exec f p s e <> OOutOfFuel -> exec f' p s e = exec f p s e.
Proof.
  induction 1 as [|f' L IH]; intros H; [reflexivity|].
  rewrite exec_S; rewrite IH; auto.
Qed.

Lemma leb_true_nat a b : (a <= b)%nat -> (a <=? b)%nat = true.
Proof. apply Nat.leb_le. Qed.

(** * weakest preconditions *)
Definition wp (p : prog) (s : stmt) (e : env) (Q : outcome -> Prop) : Prop :=
  exists f, exec f p s e <> OOutOfFuel /\ Q (exec f p s e).

Lemma wp_conseq p s e (Q Q' : outcome -> Prop) :
  wp p s e Q -> (forall o, o <> OOutOfFuel -> Q o -> Q' o) -> wp p s e Q'.
Proof. intros (f & H & HQ) I. exists f; split; auto. Qed.

Lemma wp_step p s e (Q : outcome -> Prop) f :
  exec_step (exec f p) p s e <> OOutOfFuel -> Q (exec_step (exec f p) p s e) -> wp p s e Q.
Proof. intros H HQ. exists (S f). split; assumption. Qed.

Lemma wp_skip p e (Q : outcome -> Prop) : Q (ONormal e) -> wp p SSkip e Q.
Proof. intros H. apply (wp_step _ _ _ _ O); [discriminate|exact H]. Qed.

Lemma wp_break p id e (Q : outcome -> Prop) : Q (OBreak id e) -> wp p (SBreak id) e Q.
Proof. intros H. apply (wp_step _ _ _ _ O); [discriminate|exact H]. Qed.

Lemma wp_continue p id e (Q : outcome -> Prop) : Q (OContinue id e) -> wp p (SContinue id) e Q.
Proof. intros H. apply (wp_step _ _ _ _ O); [discriminate|exact H]. Qed.

Lemma wp_panic p e (Q : outcome -> Prop) : Q OPanic -> wp p SPanic e Q.
Proof. intros H. apply (wp_step _ _ _ _ O); [discriminate|exact H]. Qed.

Lemma wp_assign p ls es e (Q : outcome -> Prop) vs :
  evals e es = EVs vs -> Q (assign_all ls vs e) -> wp p (SAssign ls es) e Q.
Proof.
  intros E H. apply (wp_step _ _ _ _ O); cbn [exec_step]; rewrite E; [apply assign_all_not_oof|exact H].
Qed.

Lemma wp_assign_panic p ls es e (Q : outcome -> Prop) :
  evals e es = EsPanic -> Q OPanic -> wp p (SAssign ls es) e Q.
Proof.
  intros E H. apply (wp_step _ _ _ _ O); cbn [exec_step]; rewrite E; [discriminate|exact H].
Qed.

Lemma wp_return p es e (Q : outcome -> Prop) vs :
  evals e es = EVs vs -> Q (OReturn vs e) -> wp p (SReturn es) e Q.
Proof.
  intros E H. apply (wp_step _ _ _ _ O); cbn [exec_step]; rewrite E; [discriminate|exact H].
Qed.

Lemma wp_copy_list p dst src e (Q : outcome -> Prop) d s :
  eval e src = EV (VList s) -> get dst e = VList d ->
  Q (ONormal (upd dst (VList (copy_into d s)) e)) -> wp p (SCopy dst src) e Q.
Proof.
  intros E G H. apply (wp_step _ _ _ _ O); cbn [exec_step]; rewrite E, G; [discriminate|exact H].
Qed.

Lemma wp_copy_str p dst src e (Q : outcome -> Prop) d s :
  eval e src = EV (VStr s) -> get dst e = VStr d ->
  Q (ONormal (upd dst (VStr (copy_into d s)) e)) -> wp p (SCopy dst src) e Q.
Proof.
  intros E G H. apply (wp_step _ _ _ _ O); cbn [exec_step]; rewrite E, G; [discriminate|exact H].
Qed.

Lemma wp_oracle p ls fn args e (Q : outcome -> Prop) vs rets :
  evals e args = EVs vs -> p_oracle p fn vs = Some rets -> Q (assign_all ls rets e) ->
  wp p (SOracle ls fn args) e Q.
Proof.
  intros E Ho H. apply (wp_step _ _ _ _ O); cbn [exec_step]; rewrite E, Ho; [apply assign_all_not_oof|exact H].
Qed.

Lemma wp_copy_at_str p dst off src e (Q : outcome -> Prop) o d s :
  eval e off = EV (VInt o) -> eval e src = EV (VStr s) -> get dst e = VStr d ->
  in_bounds_incl o (length d) = true ->
  Q (ONormal (upd dst (VStr (firstn (Z.to_nat o) d ++ copy_into (skipn (Z.to_nat o) d) s)) e)) ->
  wp p (SCopyAt dst off src) e Q.
Proof.
  intros E1 E2 G B H. apply (wp_step _ _ _ _ O); cbn [exec_step]; rewrite E1, E2, G, B; [discriminate|exact H].
Qed.

Lemma wp_put_be p w dst off v e (Q : outcome -> Prop) o z d :
  eval e off = EV (VInt o) -> eval e v = EV (VInt z) -> get dst e = VStr d ->
  in_bounds_incl o (length d) = true -> (w <= length d - Z.to_nat o)%nat ->
  Q (ONormal (upd dst (VStr (firstn (Z.to_nat o) d ++ be w (Z.to_N z) ++ skipn (Z.to_nat o + w) d)) e)) ->
  wp p (SPutBe w dst off v) e Q.
Proof.
  intros E1 E2 G B L H. apply (wp_step _ _ _ _ O); cbn [exec_step]; rewrite E1, E2, G, B.
  - rewrite (leb_true_nat _ _ L). discriminate.
  - rewrite (leb_true_nat _ _ L). exact H.
Qed.

Lemma wp_seq p a b e (Q : outcome -> Prop) :
  wp p a e (fun o => match o with ONormal e1 => wp p b e1 Q | _ => Q o end) ->
  wp p (SSeq a b) e Q.
Proof.
  intros (f1 & H1 & HQ).
  destruct (exec f1 p a e) eqn:E1;
    try (apply (wp_step _ _ _ _ f1); cbn [exec_step]; rewrite E1; [discriminate|exact HQ]).
  - destruct HQ as (f2 & H2 & HQ2).
    apply (wp_step _ _ _ _ (Nat.max f1 f2)); cbn [exec_step];
      rewrite (exec_mono f1 (Nat.max f1 f2)) by (try lia; congruence); rewrite E1;
      rewrite (exec_mono f2 (Nat.max f1 f2)) by (try lia; congruence); assumption.
  - congruence.
Qed.

Lemma wp_if p c t el e (Q : outcome -> Prop) b :
  eval e c = EV (VBool b) -> wp p (if b then t else el) e Q -> wp p (SIf c t el) e Q.
Proof.
  intros E (f & H & HQ). apply (wp_step _ _ _ _ f); cbn [exec_step]; rewrite E; destruct b; assumption.
Qed.

Lemma wp_if_panic p c t el e (Q : outcome -> Prop) :
  eval e c = EPanic -> Q OPanic -> wp p (SIf c t el) e Q.
Proof.
  intros E H. apply (wp_step _ _ _ _ O); cbn [exec_step]; rewrite E; [discriminate|exact H].
Qed.

Lemma wp_for p id c post body e (Q : outcome -> Prop) b :
  eval e c = EV (VBool b) ->
  (if b then
     wp p body e (fun o =>
       match loop_ctl id o with
       | LNext e1 =>
           wp p post e1 (fun o' =>
             match o' with
             | ONormal e2 => wp p (SFor id c post body) e2 Q
             | _ => Q o'
             end)
       | LExit e1 => Q (ONormal e1)
       | LProp o => Q o
       end)
   else Q (ONormal e)) ->
  wp p (SFor id c post body) e Q.
Proof.
  intros E H. destruct b.
  2:{ apply (wp_step _ _ _ _ O); cbn [exec_step]; rewrite E; [discriminate|exact H]. }
  destruct H as (f1 & H1 & HQ).
  destruct (loop_ctl id (exec f1 p body e)) eqn:L.
  - destruct HQ as (f2 & H2 & HQ2).
    destruct (exec f2 p post e0) eqn:E2;
      try (apply (wp_step _ _ _ _ (Nat.max f1 f2)); cbn [exec_step]; rewrite E;
           rewrite (exec_mono f1 (Nat.max f1 f2)) by (try lia; congruence); rewrite L;
           rewrite (exec_mono f2 (Nat.max f1 f2)) by (try lia; congruence); rewrite E2;
           [discriminate|exact HQ2]).
    + destruct HQ2 as (f3 & H3 & HQ3).
      apply (wp_step _ _ _ _ (Nat.max f1 (Nat.max f2 f3))); cbn [exec_step]; rewrite E;
        rewrite (exec_mono f1 (Nat.max f1 (Nat.max f2 f3))) by (try lia; congruence); rewrite L;
        rewrite (exec_mono f2 (Nat.max f1 (Nat.max f2 f3))) by (try lia; congruence); rewrite E2;
        rewrite (exec_mono f3 (Nat.max f1 (Nat.max f2 f3))) by (try lia; congruence); assumption.
    + congruence.
  - apply (wp_step _ _ _ _ f1); cbn [exec_step]; rewrite E, L; [discriminate|exact HQ].
  - apply (wp_step _ _ _ _ f1); cbn [exec_step]; rewrite E, L; [|exact HQ].
    intro C; subst o. destruct (exec f1 p body e); cbn in L; try discriminate;
      try (destruct (Nat.eqb _ _); discriminate). congruence.
Qed.

Lemma wp_for_panic p id c post body e (Q : outcome -> Prop) :
  eval e c = EPanic -> Q OPanic -> wp p (SFor id c post body) e Q.
Proof.
  intros E H. apply (wp_step _ _ _ _ O); cbn [exec_step]; rewrite E; [discriminate|exact H].
Qed.

(** the range loop as a recursive predicate over the remaining items *)
Fixpoint wp_items (p : prog) (id : nat) (k v : option nat) (body : stmt)
         (items : list value) (i : Z) (e : env) (Q : outcome -> Prop) : Prop :=
  match items with
  | [] => Q (ONormal e)
  | x :: rest =>
      wp p body (set_opt v x (set_opt k (VInt i) e)) (fun o =>
        match loop_ctl id o with
        | LNext e1 => wp_items p id k v body rest (i + 1) e1 Q
        | LExit e1 => Q (ONormal e1)
        | LProp o => Q o
        end)
  end.

Lemma loop_ctl_prop_not_oof id o o' : loop_ctl id o = LProp o' -> o <> OOutOfFuel -> o' <> OOutOfFuel.
Proof.
  destruct o; cbn; intros H; try (inversion H; subst; auto; fail);
    destruct (Nat.eqb _ _); inversion H; subst; auto.
Qed.

Lemma wp_items_sound p id k v body (Q : outcome -> Prop) items :
  forall i e, wp_items p id k v body items i e Q ->
    exists f, forall f', (f <= f')%nat ->
      range_loop (exec f' p body) id k v items i e <> OOutOfFuel /\
      Q (range_loop (exec f' p body) id k v items i e).
Proof.
  induction items as [|x rest IH]; intros i e H; cbn [wp_items range_loop] in *.
  - exists O. intros f' _. split; [discriminate|exact H].
  - destruct H as (f1 & H1 & HQ).
    set (e0 := set_opt v x (set_opt k (VInt i) e)) in *.
    destruct (loop_ctl id (exec f1 p body e0)) eqn:L.
    + destruct (IH _ _ HQ) as (f2 & H2).
      exists (Nat.max f1 f2). intros f' Hf.
      rewrite (exec_mono f1 f') by (try lia; congruence). rewrite L. apply H2. lia.
    + exists f1. intros f' Hf. rewrite (exec_mono f1 f') by (try lia; congruence). rewrite L.
      split; [discriminate|exact HQ].
    + exists f1. intros f' Hf. rewrite (exec_mono f1 f') by (try lia; congruence). rewrite L.
      split; [|exact HQ]. eapply loop_ctl_prop_not_oof; eauto.
Qed.

Lemma wp_range p id k v ex body e (Q : outcome -> Prop) cv items :
  eval e ex = EV cv -> items_of cv = Some items ->
  wp_items p id k v body items 0 e Q ->
  wp p (SRange id k v ex body) e Q.
Proof.
  intros E I H. destruct (wp_items_sound _ _ _ _ _ _ _ _ _ H) as (f & Hf).
  destruct (Hf f (le_n _)) as (H1 & H2).
  apply (wp_step _ _ _ _ f); cbn [exec_step]; rewrite E, I; assumption.
Qed.

Lemma wp_range_panic p id k v ex body e (Q : outcome -> Prop) :
  eval e ex = EPanic -> Q OPanic -> wp p (SRange id k v ex body) e Q.
Proof.
  intros E H. apply (wp_step _ _ _ _ O); cbn [exec_step]; rewrite E; [discriminate|exact H].
Qed.

Lemma wp_items_conseq p id k v body (Q Q' : outcome -> Prop) items :
  (forall o, o <> OOutOfFuel -> Q o -> Q' o) ->
  forall i e, wp_items p id k v body items i e Q -> wp_items p id k v body items i e Q'.
Proof.
  intros I. induction items as [|x rest IH]; intros i e H; cbn [wp_items] in *.
  - apply I; [discriminate|exact H].
  - eapply wp_conseq; [exact H|]. cbn beta. intros o Ho.
    destruct (loop_ctl id o) eqn:L; auto.
    + intros HQ. apply I; [discriminate|exact HQ].
    + intros HQ. apply I; [|exact HQ]. eapply loop_ctl_prop_not_oof; eauto.
Qed.

(** * functions *)
Lemma wp_run_func p fd args r :
  length args = f_nparams fd ->
  wp p (f_body fd) (init_env fd args) (fun o => call_result fd o = r) ->
  exists fuel, run_func fuel p fd args = r.
Proof.
  intros L (f & _ & H). exists f. unfold run_func. rewrite L, Nat.eqb_refl. exact H.
Qed.

(** a property of the result rather than one result (e.g. with an existential inside) *)
Lemma wp_run_func_P p fd args body env0 outs (Pr : fres -> Prop) :
  f_body fd = body -> f_outs fd = outs -> init_env fd args = env0 ->
  length args = f_nparams fd ->
  wp p body env0 (fun o => Pr (ret_of outs o)) ->
  exists fuel, Pr (run_func fuel p fd args).
Proof.
  intros <- <- <- L (f & _ & H). exists f. unfold run_func. rewrite L, Nat.eqb_refl. exact H.
Qed.

(** the same with body, initial environment and in/out list computed once *)
Lemma wp_run_func' p fd args r body env0 outs :
  f_body fd = body -> f_outs fd = outs -> init_env fd args = env0 ->
  length args = f_nparams fd ->
  wp p body env0 (fun o => ret_of outs o = r) ->
  exists fuel, run_func fuel p fd args = r.
Proof. intros <- <- <- L H. apply wp_run_func; assumption. Qed.

(** calling a function for which a [run_func] theorem is available *)
Lemma wp_call p ls fn args e (Q : outcome -> Prop) fd vs rets :
  lookup_func p fn = Some fd -> evals e args = EVs vs -> f_outs fd = [] ->
  (exists fuel, run_func fuel p fd vs = FOk rets []) ->
  Q (assign_all ls rets e) ->
  wp p (SCall ls fn args) e Q.
Proof.
  intros Lk E O (f & R) H. unfold run_func in R.
  destruct (Nat.eqb (length vs) (f_nparams fd)) eqn:Ln; [|discriminate].
  apply (wp_step _ _ _ _ f); cbn [exec_step]; rewrite Lk, E, Ln, O.
  - destruct (call_result fd _); try discriminate. inversion R; subst. apply assign_all_not_oof.
  - destruct (call_result fd _); try discriminate. inversion R; subst. exact H.
Qed.

(** * integer ranges *)
Lemma wrap_id k z : in_kind k z -> wrap k z = z.
Proof.
  destruct k as [w|w]; cbn; intros H.
  - apply Z.mod_small; lia.
  - rewrite Z.mod_small; [lia|].
    destruct (Z.leb_spec 1 w).
    + replace (2 ^ w) with (2 * 2 ^ (w - 1)) by (rewrite <- Z.pow_succ_r by lia; f_equal; lia). lia.
    + assert (w - 1 < 0) by lia. rewrite (Z.pow_neg_r 2 (w - 1)) in H by lia. lia.
Qed.

Lemma wrap_s64 z : - 2 ^ 63 <= z < 2 ^ 63 -> wrap (IS 64) z = z.
Proof. intros H. apply wrap_id. exact H. Qed.
Lemma wrap_u64 z : 0 <= z < 2 ^ 64 -> wrap (IU 64) z = z.
Proof. intros H. apply wrap_id. exact H. Qed.
Lemma wrap_u32 z : 0 <= z < 2 ^ 32 -> wrap (IU 32) z = z.
Proof. intros H. apply wrap_id. exact H. Qed.
Lemma wrap_u16 z : 0 <= z < 2 ^ 16 -> wrap (IU 16) z = z.
Proof. intros H. apply wrap_id. exact H. Qed.
Lemma wrap_u8 z : 0 <= z < 2 ^ 8 -> wrap (IU 8) z = z.
Proof. intros H. apply wrap_id. exact H. Qed.

Lemma in_bounds_true z n : 0 <= z < Z.of_nat n -> in_bounds z n = true.
Proof. unfold in_bounds. intros H. apply andb_true_intro; split; [apply Z.leb_le|apply Z.ltb_lt]; lia. Qed.
Lemma in_bounds_false z n : z < 0 \/ Z.of_nat n <= z -> in_bounds z n = false.
Proof.
  unfold in_bounds. intros [H|H].
  - replace (0 <=? z) with false by (symmetry; apply Z.leb_gt; lia). reflexivity.
  - replace (z <? Z.of_nat n) with false by (symmetry; apply Z.ltb_ge; lia). apply andb_false_r.
Qed.
Lemma in_bounds_incl_true z n : 0 <= z <= Z.of_nat n -> in_bounds_incl z n = true.
Proof. unfold in_bounds_incl. intros H. apply andb_true_intro; split; apply Z.leb_le; lia. Qed.
Lemma in_bounds_incl_false z n : z < 0 \/ Z.of_nat n < z -> in_bounds_incl z n = false.
Proof.
  unfold in_bounds_incl. intros [H|H].
  - replace (0 <=? z) with false by (symmetry; apply Z.leb_gt; lia). reflexivity.
  - replace (z <=? Z.of_nat n) with false by (symmetry; apply Z.leb_gt; lia). apply andb_false_r.
Qed.

(** * lists of values *)
Lemma nth_map_VStr (l : list bytes) n : (n < length l)%nat -> nth n (map VStr l) VUnset = VStr (nth n l []).
Proof. intros H. rewrite (nth_indep _ VUnset (VStr [])) by (rewrite map_length; exact H). apply (map_nth VStr). Qed.

Lemma nth_map_v_nat (l : list nat) n : (n < length l)%nat -> nth n (map v_nat l) VUnset = v_nat (nth n l O).
Proof. intros H. rewrite (nth_indep _ VUnset (v_nat O)) by (rewrite map_length; exact H). apply (map_nth v_nat). Qed.

Lemma nth_map_v_strs (l : list (list bytes)) n :
  (n < length l)%nat -> nth n (map v_strs l) VUnset = v_strs (nth n l []).
Proof. intros H. rewrite (nth_indep _ VUnset (v_strs [])) by (rewrite map_length; exact H). apply (map_nth v_strs). Qed.

(** * symbolic execution *)
(** reduction of the interpreter's own functions only: arithmetic, comparisons, [wrap],
    [in_bounds], list functions on symbolic data stay folded *)
Ltac ev :=
  cbn [eval evals ebind slice_from_val slice_range_val be_val has_val map_get_val map_has_val compare_val nth_error binop_val binop_int binop_str binop_bool is_nilish
       items_of set_opt upd get nth assign_all assign1 loop_ctl Nat.eqb call_result ret_of
       key_value wp_items f_nparams f_nvars f_outs f_body byte_val map negb Bool.eqb orb andb].

(** [start_func go_f]: from [exists fuel, run_func fuel p go_f args = r] to a [wp] goal over the
    translated body with the initial environment computed *)
Ltac start_func f :=
  eapply wp_run_func';
  [ cbv [f f_body]; reflexivity
  | cbv [f f_outs]; reflexivity
  | cbv [init_env f f_nvars app repeat Nat.sub length]; reflexivity
  | reflexivity
  | ].

(** one structural step; stops (fails) at loops, calls and anything whose evaluation is not
    closed by [ev; reflexivity] *)
Ltac step :=
  lazymatch goal with
  | |- wp _ (SSeq _ _) _ _ => apply wp_seq
  | |- wp _ SSkip _ _ => apply wp_skip
  | |- wp _ (SBreak _) _ _ => apply wp_break
  | |- wp _ (SContinue _) _ _ => apply wp_continue
  | |- wp _ SPanic _ _ => apply wp_panic
  | |- wp _ (SAssign _ _) _ _ => eapply wp_assign; [ev; reflexivity|ev]
  | |- wp _ (SReturn _) _ _ => eapply wp_return; [ev; reflexivity|ev]
  | |- wp _ (SIf _ _ _) _ _ => eapply wp_if; [ev; reflexivity|ev]
  end.
Ltac steps := repeat step.

(** normalisation of what evaluation leaves behind: slice bounds, nat/Z round trips, [nth]
    through the value encodings.  Side conditions by [lia] after unfolding lengths. *)
Lemma length_map_VStr (l : list bytes) : length (map VStr l) = length l.
Proof. apply map_length. Qed.
Lemma length_map_v_strs (l : list (list bytes)) : length (map v_strs l) = length l.
Proof. apply map_length. Qed.
Lemma length_map_v_nat (l : list nat) : length (map v_nat l) = length l.
Proof. apply map_length. Qed.
Lemma length_map_byte_val (l : bytes) : length (map byte_val l) = length l.
Proof. apply map_length. Qed.

Ltac lens := rewrite ?length_map_VStr, ?length_map_v_strs, ?length_map_v_nat, ?length_map_byte_val,
                     ?app_length, ?skipn_length, ?repeat_length, ?be_length.
Ltac side := cbn [length]; lens; lia.

Lemma is_neg_false z : 0 <= z -> is_neg z = false.
Proof. intros H. apply Z.ltb_ge. exact H. Qed.

Lemma make_ok_true n c : 0 <= n <= c -> make_ok n c = true.
Proof. intros H. unfold make_ok. apply andb_true_intro; split; apply Z.leb_le; lia. Qed.

Lemma leb_true a b : (a <= b)%nat -> (a <=? b)%nat = true.
Proof. apply Nat.leb_le. Qed.

(** hook for kernel-specific normalisations (redefine with [::=]) *)
Ltac norm_extra := fail.

Ltac norm1 :=
  first
    [ rewrite Nat2Z.id
    | progress change (Z.to_nat 0) with 0%nat
    | progress change (Z.to_nat 1) with 1%nat
    | norm_extra
    | rewrite wrap_s64 by side
    | rewrite wrap_u32 by side
    | rewrite wrap_u16 by side
    | rewrite wrap_u8 by side
    | rewrite wrap_u64 by side
    | rewrite leb_true by (rewrite ?firstn_length, ?skipn_length; side)
    | rewrite is_neg_false by side
    | rewrite make_ok_true by side
    | rewrite length_map_VStr | rewrite length_map_v_strs | rewrite length_map_v_nat
    | rewrite in_bounds_true by side
    | rewrite in_bounds_incl_true by side
    | rewrite nth_map_VStr by side
    | rewrite nth_map_v_nat by side
    | rewrite nth_map_v_strs by side ].
Ltac evn := ev; repeat (norm1; ev); unfold v_strs, v_nat; ev; repeat (norm1; ev).

Ltac is_pconst p :=
  lazymatch p with
  | xH => idtac
  | xO ?q => is_pconst q
  | xI ?q => is_pconst q
  end.
Ltac is_Zconst z :=
  lazymatch z with
  | Z0 => idtac
  | Zpos ?p => is_pconst p
  | Zneg ?p => is_pconst p
  end.
Ltac closed_cond c :=
  lazymatch c with
  | true => idtac
  | false => idtac
  | negb ?d => closed_cond d
  | Z.eqb ?a ?b => is_Zconst a; is_Zconst b
  | Z.ltb ?a ?b => is_Zconst a; is_Zconst b
  | Z.leb ?a ?b => is_Zconst a; is_Zconst b
  end.

Ltac start_func_P f :=
  eapply wp_run_func_P;
  [ cbv [f f_body]; reflexivity
  | cbv [f f_outs]; reflexivity
  | cbv [init_env f f_nvars app repeat Nat.sub length]; reflexivity
  | reflexivity
  | ].

(** [stepn]: like [step] with normalisation before closing the evaluation *)
Ltac stepn :=
  lazymatch goal with
  | |- wp _ (if true then _ else _) _ _ => cbv iota
  | |- wp _ (if false then _ else _) _ _ => cbv iota
  | |- wp _ (SSeq _ _) _ _ => apply wp_seq
  | |- wp _ SSkip _ _ => apply wp_skip; ev
  | |- wp _ (SBreak _) _ _ => apply wp_break; ev
  | |- wp _ (SContinue _) _ _ => apply wp_continue; ev
  | |- wp _ SPanic _ _ => apply wp_panic; ev
  | |- wp _ (SAssign _ _) _ _ => eapply wp_assign; [evn; reflexivity|ev; repeat (norm1; ev)]
  | |- wp _ (SReturn _) _ _ => eapply wp_return; [evn; reflexivity|ev]
  | |- wp _ (SIf _ _ _) _ _ => eapply wp_if; [evn; reflexivity|ev]
  | |- wp _ (SRange _ _ _ _ _) _ _ => eapply wp_range; [evn; reflexivity|ev; reflexivity|]
  | |- wp _ (SPutBe _ _ _ _) _ _ =>
      eapply wp_put_be; [evn; reflexivity|evn; reflexivity|ev; reflexivity
                        |apply in_bounds_incl_true; side|side|ev]
  | |- wp _ (SCopyAt _ _ _) _ _ =>
      eapply wp_copy_at_str; [evn; reflexivity|evn; reflexivity|ev; reflexivity
                             |apply in_bounds_incl_true; side|ev]
  | |- wp _ (SOracle _ _ _) _ _ =>
      eapply wp_oracle; [evn; reflexivity|cbn [p_oracle with_oracle]|ev; repeat (norm1; ev)]
  | |- wp _ (SCopy _ _) _ _ =>
      first [ eapply wp_copy_list; [evn; reflexivity|ev; reflexivity|ev]
            | eapply wp_copy_str; [evn; reflexivity|ev; reflexivity|ev] ]
  | |- wp _ (if ?c then _ else _) _ _ =>
      (* a comparison of integer literals: compute it (fails, i.e. stops, on anything symbolic;
         never normalise an open term here, [wrap] over a variable explodes) *)
      closed_cond c;
      let v := eval vm_compute in c in
      lazymatch v with
      | true => change c with true; cbv iota
      | false => change c with false; cbv iota
      end
  end.
Ltac stepsn := repeat stepn.

(** a call of a translated function with a proved [run_func] theorem [thm] *)
Ltac step_call thm :=
  lazymatch goal with
  | |- wp _ (SCall _ _ _) _ _ =>
      eapply wp_call; [reflexivity|evn; reflexivity|reflexivity|eapply thm|ev]
  end.

Lemma copy_into_same_len {A} (d s : list A) : length d = length s -> copy_into d s = s.
Proof.
  intros H. unfold copy_into. rewrite H, firstn_all, skipn_all2 by lia. apply app_nil_r.
Qed.

(** case split on the symbolic condition left by [wp_if] *)
Tactic Notation "split_if" "as" ident(H) :=
  lazymatch goal with
  | |- wp _ (if ?c then _ else _) _ _ => destruct c eqn:H
  end.

Lemma skipn_nth_cons {A} (l : list A) n d : (n < length l)%nat -> skipn n l = nth n l d :: skipn (S n) l.
Proof.
  revert n; induction l as [|x l IH]; intros [|n] H; cbn in *; try lia; [reflexivity|].
  apply IH. lia.
Qed.

(** * loop rules with invariants *)
Lemma wp_items_inv p id k v body (Q : outcome -> Prop) (Inv : nat -> env -> Prop) items e :
  Inv O e ->
  (forall n e x, Inv n e -> nth_error items n = Some x ->
      wp p body (set_opt v x (set_opt k (VInt (Z.of_nat n)) e)) (fun o =>
        match loop_ctl id o with
        | LNext e1 => Inv (S n) e1
        | LExit e1 => Q (ONormal e1)
        | LProp o => Q o
        end)) ->
  (forall e, Inv (length items) e -> Q (ONormal e)) ->
  wp_items p id k v body items 0 e Q.
Proof.
  intros H0 Hstep Hend.
  assert (G : forall rest pre e, items = pre ++ rest -> Inv (length pre) e ->
                wp_items p id k v body rest (Z.of_nat (length pre)) e Q).
  { induction rest as [|x rest IH]; intros pre e' E HI; cbn [wp_items].
    - apply Hend. subst items. now rewrite app_nil_r.
    - eapply wp_conseq.
      + apply (Hstep (length pre) e' x HI). subst items.
        rewrite nth_error_app2 by lia. now rewrite Nat.sub_diag.
      + cbn beta. intros o _. destruct (loop_ctl id o); auto.
        intros HI'. replace (Z.of_nat (length pre) + 1) with (Z.of_nat (length (pre ++ [x]))) by (rewrite app_length; cbn; lia).
        apply IH.
        * subst items. now rewrite <- app_assoc.
        * rewrite app_length; cbn. now rewrite Nat.add_1_r. }
  apply (G items [] e); auto.
Qed.

Lemma wp_for_inv p id c post body (Q : outcome -> Prop) (Inv : env -> Prop) (m : env -> nat) e :
  Inv e ->
  (forall e, Inv e ->
     exists b, eval e c = EV (VBool b) /\
       if b then
         wp p body e (fun o =>
           match loop_ctl id o with
           | LNext e1 =>
               wp p post e1 (fun o' =>
                 match o' with
                 | ONormal e2 => Inv e2 /\ (m e2 < m e)%nat
                 | _ => Q o'
                 end)
           | LExit e1 => Q (ONormal e1)
           | LProp o => Q o
           end)
       else Q (ONormal e)) ->
  wp p (SFor id c post body) e Q.
Proof.
  intros HI Hstep.
  remember (m e) as n eqn:En. revert e HI En.
  induction n as [n IH] using lt_wf_ind. intros e HI En.
  destruct (Hstep e HI) as (b & Ec & Hb).
  eapply wp_for; [exact Ec|]. destruct b; [|exact Hb].
  eapply wp_conseq; [exact Hb|]. cbn beta. intros o _.
  destruct (loop_ctl id o); auto.
  intros Hp. eapply wp_conseq; [exact Hp|]. cbn beta. intros o' _.
  destruct o'; auto. intros (HI2 & Hm). eapply IH; [|exact HI2|reflexivity]. lia.
Qed.

(** sequencing through a known intermediate environment (avoids duplicating the proof of the
    continuation when [a] contains a case split) *)
Lemma wp_seq_cut p a b e e1 (Q : outcome -> Prop) :
  wp p a e (fun o => o = ONormal e1) -> wp p b e1 Q -> wp p (SSeq a b) e Q.
Proof.
  intros Ha Hb. apply wp_seq. eapply wp_conseq; [exact Ha|]. cbn beta. intros o _ ->. exact Hb.
Qed.

(** symbolic execution to the end: steps and case splits on every symbolic condition *)
Ltac split_if_auto :=
  lazymatch goal with
  | |- wp _ (if ?c then _ else _) _ _ => let H := fresh "Hc" in destruct c eqn:H
  end.
Ltac run := repeat first [stepn | split_if_auto].

(** key comparison along a common prefix *)
Lemma kcmp_skipn_step (b s : list bytes) k :
  (k < length b)%nat -> (k < length s)%nat ->
  kcmp (skipn k b) (skipn k s)
  = match bcmp (nth k b []) (nth k s []) with
    | Datatypes.Eq => kcmp (skipn (S k) b) (skipn (S k) s)
    | c => c
    end.
Proof.
  intros Hb Hs. rewrite (skipn_nth_cons b k []) by exact Hb. rewrite (skipn_nth_cons s k []) by exact Hs.
  reflexivity.
Qed.

(** sequencing through an intermediate assertion on the environment *)
Lemma wp_seq_inv p a b e (R : env -> Prop) (Q : outcome -> Prop) :
  wp p a e (fun o => match o with ONormal e1 => R e1 | _ => Q o end) ->
  (forall e1, R e1 -> wp p b e1 Q) ->
  wp p (SSeq a b) e Q.
Proof.
  intros Ha Hb. apply wp_seq. eapply wp_conseq; [exact Ha|]. cbn beta.
  intros o _. destruct o; auto.
Qed.

(** steps over straight-line code only: stops in front of [SSeq a _] when [a] is compound *)
Ltac is_simple s :=
  lazymatch s with
  | SAssign [LIndex _ _] _ => fail
  | SAssign _ _ => idtac
  | SSkip => idtac
  | SReturn _ => idtac
  | SBreak _ => idtac
  | SContinue _ => idtac
  | SCopy _ _ => idtac
  | SCopyAt _ _ _ => idtac
  | SPutBe _ _ _ _ => idtac
  | SPanic => idtac
  end.
Ltac stepn_simple :=
  lazymatch goal with
  | |- wp _ (SSeq ?a _) _ _ => is_simple a; stepn
  | |- wp _ ?a _ _ => is_simple a; stepn
  end.
Ltac straight := repeat stepn_simple.

Lemma nth_error_map_inv {A B} (f : A -> B) l n y d :
  nth_error (map f l) n = Some y -> (n < length l)%nat /\ y = f (nth n l d).
Proof.
  intros H. assert (L : (n < length l)%nat).
  { rewrite <- (map_length f). apply nth_error_Some. congruence. }
  split; [exact L|].
  rewrite nth_error_map in H. rewrite (nth_error_nth' l d L) in H. cbn in H. congruence.
Qed.


Lemma bcmp_flags (x y : bytes) :
  match bcmp x y with
  | Datatypes.Eq => bgt x y = false /\ blt x y = false
  | Datatypes.Lt => bgt x y = false /\ blt x y = true
  | Datatypes.Gt => bgt x y = true /\ blt x y = false
  end.
Proof. unfold bgt, blt. destruct (bcmp x y); split; reflexivity. Qed.

(** remove every [wrap] whose argument is in range (inner ones first, by backtracking) *)
Ltac unwrap :=
  repeat match goal with
         | |- context [wrap ?k ?z] => rewrite (wrap_id k z) by (cbn [in_kind]; lia)
         end.

Lemma bgt_as_blt (x y : bytes) : bgt x y = blt y x.
Proof. unfold bgt, blt. rewrite (bcmp_antisym x y). destruct (bcmp x y); reflexivity. Qed.

Lemma beqb_sym (x y : bytes) : beqb x y = beqb y x.
Proof. unfold beqb. rewrite (bcmp_antisym x y). destruct (bcmp x y); reflexivity. Qed.

(** [run_with t]: symbolic execution to the leaves, applying the normalisation [t] to the
    conditions as they appear *)
Ltac run_with t := repeat first [stepn | progress t | split_if_auto].

Lemma firstn_S_nth {A} (l : list A) n d : (n < length l)%nat -> firstn (S n) l = firstn n l ++ [nth n l d].
Proof.
  revert n; induction l as [|a l IH]; intros [|n] H; cbn in *; try lia; [reflexivity|].
  f_equal. apply IH. lia.
Qed.

(** results do not depend on the fuel *)
Lemma run_func_det p fd args f1 f2 r1 r2 :
  run_func f1 p fd args = r1 -> run_func f2 p fd args = r2 ->
  r1 <> FOutOfFuel -> r2 <> FOutOfFuel -> r1 = r2.
Proof.
  unfold run_func. destruct (Nat.eqb (length args) (f_nparams fd)); [|congruence].
  intros H1 H2 N1 N2.
  assert (E1 : exec f1 p (f_body fd) (init_env fd args) <> OOutOfFuel).
  { intro C. rewrite C in H1. cbn in H1. congruence. }
  assert (E2 : exec f2 p (f_body fd) (init_env fd args) <> OOutOfFuel).
  { intro C. rewrite C in H2. cbn in H2. congruence. }
  rewrite <- (exec_mono f1 (Nat.max f1 f2)) in H1 by (try lia; exact E1).
  rewrite <- (exec_mono f2 (Nat.max f1 f2)) in H2 by (try lia; exact E2).
  congruence.
Qed.

Lemma skipn_repeat {A} (x : A) n k : skipn n (repeat x (n + k)) = repeat x k.
Proof. induction n as [|n IH]; [reflexivity|exact IH]. Qed.

Lemma firstn_app_len {A} (P R : list A) n : length P = n -> firstn n (P ++ R) = P.
Proof. intros <-. rewrite firstn_app, Nat.sub_diag, firstn_all. cbn. apply app_nil_r. Qed.

Lemma skipn_app_len {A} (P R : list A) n : length P = n -> skipn n (P ++ R) = R.
Proof. intros <-. rewrite skipn_app, Nat.sub_diag, skipn_all. reflexivity. Qed.

Lemma copy_into_zeros (s : bytes) k : (length s <= k)%nat ->
  copy_into (repeat 0%N k) s = s ++ repeat 0%N (k - length s).
Proof.
  intros H. unfold copy_into. rewrite repeat_length, firstn_all2 by lia.
  replace k with (length s + (k - length s))%nat at 1 by lia. now rewrite skipn_repeat.
Qed.

Lemma skipn_1_skipn {A} (l : list A) : forall i, skipn 1 (skipn i l) = skipn (S i) l.
Proof.
  induction l as [|a l IH]; intros i.
  - destruct i; reflexivity.
  - destruct i as [|i]; [reflexivity|]. cbn [skipn]. apply IH.
Qed.

(** * range over a map *)
Fixpoint wp_mitems (p : prog) (id : nat) (kx vx : option nat) (ik : bool) (body : stmt)
         (m : list (bytes * value)) (keys : list bytes) (e : env) (Q : outcome -> Prop) : Prop :=
  match keys with
  | [] => Q (ONormal e)
  | k :: rest =>
      wp p body (set_opt vx (map_lookup m k) (set_opt kx (key_value ik k) e)) (fun o =>
        match loop_ctl id o with
        | LNext e1 => wp_mitems p id kx vx ik body m rest e1 Q
        | LExit e1 => Q (ONormal e1)
        | LProp o => Q o
        end)
  end.

Lemma wp_mitems_sound p id kx vx ik body m (Q : outcome -> Prop) keys :
  forall e, wp_mitems p id kx vx ik body m keys e Q ->
    exists f, forall f', (f <= f')%nat ->
      range_map_loop (exec f' p body) id kx vx ik m keys e <> OOutOfFuel /\
      Q (range_map_loop (exec f' p body) id kx vx ik m keys e).
Proof.
  induction keys as [|k rest IH]; intros e H; cbn [wp_mitems range_map_loop] in *.
  - exists O. intros f' _. split; [discriminate|exact H].
  - destruct H as (f1 & H1 & HQ).
    set (e0 := set_opt vx (map_lookup m k) (set_opt kx (key_value ik k) e)) in *.
    destruct (loop_ctl id (exec f1 p body e0)) eqn:L.
    + destruct (IH _ HQ) as (f2 & H2).
      exists (Nat.max f1 f2). intros f' Hf.
      rewrite (exec_mono f1 f') by (try lia; congruence). rewrite L. apply H2. lia.
    + exists f1. intros f' Hf. rewrite (exec_mono f1 f') by (try lia; congruence). rewrite L.
      split; [discriminate|exact HQ].
    + exists f1. intros f' Hf. rewrite (exec_mono f1 f') by (try lia; congruence). rewrite L.
      split; [|exact HQ]. eapply loop_ctl_prop_not_oof; eauto.
Qed.

Lemma wp_range_map p id kx vx ik mx body e (Q : outcome -> Prop) m vs keys :
  eval e mx = EV (VMap m) ->
  p_oracle p "map.order" [VList (map VStr (map_keys m))] = Some [VList vs] ->
  strs_of vs = Some keys -> perm_ok keys (map_keys m) = true ->
  wp_mitems p id kx vx ik body m keys e Q ->
  wp p (SRangeMap id kx vx ik mx body) e Q.
Proof.
  intros E Ho Es Hp H. destruct (wp_mitems_sound _ _ _ _ _ _ _ _ _ _ H) as (f & Hf).
  destruct (Hf f (le_n _)) as (H1 & H2).
  apply (wp_step _ _ _ _ f); cbn [exec_step]; rewrite E, Ho, Es, Hp; assumption.
Qed.

Lemma wp_mitems_inv p id kx vx ik body m (Q : outcome -> Prop) (Inv : list bytes -> env -> Prop) keys e :
  Inv [] e ->
  (forall done k e, Inv done e -> (exists rest, keys = done ++ k :: rest) ->
      wp p body (set_opt vx (map_lookup m k) (set_opt kx (key_value ik k) e)) (fun o =>
        match loop_ctl id o with
        | LNext e1 => Inv (done ++ [k]) e1
        | LExit e1 => Q (ONormal e1)
        | LProp o => Q o
        end)) ->
  (forall e, Inv keys e -> Q (ONormal e)) ->
  wp_mitems p id kx vx ik body m keys e Q.
Proof.
  intros H0 Hstep Hend.
  assert (G : forall rest done e, keys = done ++ rest -> Inv done e ->
                wp_mitems p id kx vx ik body m rest e Q).
  { induction rest as [|k rest IH]; intros done e' E HI; cbn [wp_mitems].
    - apply Hend. subst keys. now rewrite app_nil_r.
    - eapply wp_conseq.
      + apply (Hstep done k e' HI). exists rest. exact E.
      + cbn beta. intros o _. destruct (loop_ctl id o); auto.
        intros HI'. apply (IH (done ++ [k])); [|exact HI'].
        subst keys. now rewrite <- app_assoc. }
  apply (G keys [] e); auto.
Qed.
