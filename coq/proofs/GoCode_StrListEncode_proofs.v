(** (ii, encoder) objects.StrListEncoder.Encode: translated body (gen/ExtractedCode.v) =
    [encode_strlist] of model/CodecStrList.v; the two panics of the Go code are the model's
    [None].  The receiver fields are in/out: [e.buf] (its len bytes) and a companion holding
    the bytes between len and cap (arbitrary), because the code reslices e.buf up to its
    capacity; the result does not depend on either. *)
From Coq Require Import List ZArith NArith Bool String Lia Arith.
From W.lib Require Import Tree Bytes GoLang.
From W.proofs Require Import GoLang_proofs GoCode_Block_proofs GoCode_StrListSeek_proofs.
From W.proofs Require CodecStrList_proofs.
From W.gen Require Import ExtractedCode.
From W.model Require Import CodecBase CodecStrList.
Import ListNotations.
Local Open Scope Z_scope.

Definition cells_len (sl : list bytes) : nat := length (concat (map cellenc sl)).

Lemma cells_len_S (sl : list bytes) n : (n < length sl)%nat ->
  cells_len (firstn (S n) sl) = (cells_len (firstn n sl) + 2 + length (nth n sl []))%nat.
Proof.
  intros H. unfold cells_len. rewrite (firstn_S_nth sl n [] H), map_app, concat_app, app_length.
  cbn [map concat]. rewrite app_nil_r, cellenc_length. lia.
Qed.

Lemma cells_len_le (sl : list bytes) n : (cells_len (firstn n sl) <= cells_len sl)%nat.
Proof.
  unfold cells_len. rewrite <- (firstn_skipn n sl) at 2. rewrite map_app, concat_app, app_length. lia.
Qed.

Lemma skipn_skipn_add {A} (l : list A) : forall a b, skipn a (skipn b l) = skipn (a + b) l.
Proof.
  induction l as [|x l IH]; intros a b.
  - now rewrite !skipn_nil.
  - destruct b as [|b]; [now rewrite Nat.add_0_r|].
    rewrite Nat.add_succ_r. cbn [skipn]. apply IH.
Qed.

Lemma copy_into_prefix (d s : bytes) : (length s <= length d)%nat -> copy_into d s = s ++ skipn (length s) d.
Proof. intros H. unfold copy_into. now rewrite firstn_all2 by lia. Qed.

Lemma encode_strlist_some (sl : list bytes) : (N.of_nat (length sl) <= 2 ^ 32)%N -> cells_ok sl ->
  encode_strlist sl = Some (row_bytes sl).
Proof.
  intros Hn Hok. unfold encode_strlist, row_bytes. cbv zeta.
  replace (2 ^ 32 <? N.of_nat (length sl))%N with false by (symmetry; apply N.ltb_ge; exact Hn).
  now rewrite (enc_cells_concat sl Hok).
Qed.

Lemma encode_strlist_long_cell (sl : list bytes) n : (n < length sl)%nat -> 65535 < Z.of_nat (length (nth n sl [])) ->
  encode_strlist sl = None.
Proof.
  intros Hn Hl. unfold encode_strlist. cbv zeta. destruct (2 ^ 32 <? N.of_nat (length sl))%N; [reflexivity|].
  rewrite CodecStrList_proofs.enc_cells_none; [reflexivity|].
  apply Exists_exists. exists (nth n sl []). split; [now apply nth_In|].
  unfold max_str_len, len. lia.
Qed.

(** * Encode *)
Lemma cell_write (P R s : bytes) (l : N) : (2 + length s <= length R)%nat ->
  firstn (length P + 2) (firstn (length P) (P ++ R) ++ be 2 l ++ skipn (length P + 2) (P ++ R))
  ++ copy_into (skipn (length P + 2) (firstn (length P) (P ++ R) ++ be 2 l ++ skipn (length P + 2) (P ++ R))) s
  = (P ++ be 2 l ++ s) ++ skipn (2 + length s) R.
Proof.
  intros H.
  rewrite (firstn_app_len P R _ eq_refl).
  assert (E1 : skipn (length P + 2) (P ++ R) = skipn 2 R).
  { rewrite skipn_app, skipn_all2 by lia. replace (length P + 2 - length P)%nat with 2%nat by lia. reflexivity. }
  rewrite E1.
  assert (E2 : P ++ be 2 l ++ skipn 2 R = (P ++ be 2 l) ++ skipn 2 R) by (now rewrite <- app_assoc).
  rewrite E2.
  assert (L2 : length (P ++ be 2 l) = (length P + 2)%nat) by (rewrite app_length, be_length; reflexivity).
  rewrite (firstn_app_len _ _ _ L2), (skipn_app_len _ _ _ L2).
  rewrite copy_into_prefix by (rewrite skipn_length; lia).
  rewrite skipn_skipn_add. rewrite <- !app_assoc.
  replace (length s + 2)%nat with (2 + length s)%nat by lia. reflexivity.
Qed.

Lemma be4_len (n : nat) : be 4 (Z.to_N (wrap (IU 32) (Z.of_nat n))) = be 4 (N.of_nat n).
Proof.
  rewrite <- (be_mod 4 (N.of_nat n)). f_equal. unfold wrap.
  rewrite Z2N.inj_mod by lia. rewrite <- (nat_N_Z n), N2Z.id. reflexivity.
Qed.

Definition enc_result (sl : list bytes) (r : fres) : Prop :=
  match encode_strlist sl with
  | Some b => exists sp, r = FOk [VStr b] [VStr b; VStr sp]
  | None => r = FPanic
  end.

Lemma go_Encode_model (buf0 spare0 : bytes) (reuse : bool) (sl : list bytes) :
  Z.of_nat (length sl) < 2 ^ 62 -> Z.of_nat (cells_len sl) < 2 ^ 62 ->
  exists fuel, enc_result sl
    (run_func fuel go_prog go_StrListEncoder_Encode [VStr buf0; VBool reuse; VStr spare0; v_strs sl]).
Proof.
  intros Hn Hc.
  start_func_P go_StrListEncoder_Encode. unfold v_strs.
  straight.
  (* bufLen *)
  eapply (wp_seq_inv _ _ _ _
            (fun e1 => exists vs, e1 = [VStr buf0; VBool reuse; VStr spare0; VList (map VStr sl);
                                        VInt (Z.of_nat (4 + cells_len sl)); vs; VUnset; VUnset; VUnset; VUnset])).
  { stepn.
    eapply (wp_items_inv _ _ _ _ _ _
              (fun n e => exists vs, e = [VStr buf0; VBool reuse; VStr spare0; VList (map VStr sl);
                                          VInt (Z.of_nat (4 + cells_len (firstn n sl))); vs; VUnset; VUnset; VUnset; VUnset])).
    - exists VUnset. reflexivity.
    - intros n e x (vs & ->) Hx.
      apply (nth_error_map_inv VStr sl n x []) in Hx. destruct Hx as [Hlt ->].
      pose proof (cells_len_le sl (S n)) as HS. rewrite (cells_len_S sl n Hlt) in *.
      ev. stepsn. unwrap.
      replace (Z.of_nat (4 + cells_len (firstn n sl)) + (Z.of_nat (length (nth n sl [])) + 2))
        with (Z.of_nat (4 + (cells_len (firstn n sl) + 2 + length (nth n sl [])))) by lia.
      eexists. reflexivity.
    - intros e (vs & ->). rewrite length_map_VStr, firstn_all. eauto. }
  intros e1 (vs & ->).
  set (total := (4 + cells_len sl)%nat) in *.
  (* the buffer: fresh or resliced *)
  eapply (wp_seq_inv _ _ _ _
            (fun e1 => exists B0 sp, length B0 = total /\
               e1 = [VStr B0; VBool reuse; VStr sp; VList (map VStr sl); VInt (Z.of_nat total); vs;
                     VUnset; VUnset; VUnset; VUnset])).
  { stepn. split_if as Hcap.
    - stepsn. exists (repeat 0%N total), []. rewrite repeat_length. split; reflexivity.
    - apply Z.ltb_ge in Hcap.
      stepsn. rewrite Nat.sub_0_r, skipn_O.
      eexists _, _. split; [|reflexivity]. rewrite firstn_length, app_length. lia. }
  intros e1 (B0 & sp & HB0 & ->).
  (* more than 2^32 cells *)
  stepn. stepn.
  assert (Eg : (4294967296 <? Z.of_nat (length sl)) = (2 ^ 32 <? N.of_nat (length sl))%N).
  { change (2 ^ 32)%N with 4294967296%N.
    destruct (Z.ltb_spec 4294967296 (Z.of_nat (length sl))), (N.ltb_spec 4294967296 (N.of_nat (length sl))); try reflexivity; lia. }
  rewrite Eg. destruct (N.ltb_spec (2 ^ 32) (N.of_nat (length sl))) as [Big|Small].
  { stepsn. unfold enc_result, encode_strlist. cbv zeta.
    replace (2 ^ 32 <? N.of_nat (length sl))%N with true by (symmetry; apply N.ltb_lt; exact Big). reflexivity. }
  stepn. stepn.
  (* PutUint32 *)
  stepn. stepn. change (Z.to_nat 0) with O. change (0 + 4)%nat with 4%nat. cbn [firstn app].
  rewrite be4_len. set (hd := be 4 (N.of_nat (length sl))).
  assert (Hhd : length hd = 4%nat) by apply be_length.
  set (B1 := hd ++ skipn 4 B0).
  assert (HB1 : length B1 = total) by (unfold B1; rewrite app_length, skipn_length; unfold total in *; lia).
  stepsn.
  eapply (wp_items_inv _ _ _ _ _ _
            (fun n e => exists vs2 vl,
               cells_ok (firstn n sl) /\
               e = [VStr ((hd ++ concat (map cellenc (firstn n sl))) ++ skipn (4 + cells_len (firstn n sl)) B1);
                    VBool reuse; VStr sp; VList (map VStr sl); VInt (Z.of_nat total); vs;
                    VInt (Z.of_nat (4 + cells_len (firstn n sl))); vs2; vl; VUnset])).
  - exists VUnset, VUnset. split; [constructor|]. cbn [firstn map concat cells_len length]. rewrite app_nil_r.
    unfold cells_len. cbn [map concat length]. rewrite Nat.add_0_r.
    unfold B1. rewrite (skipn_app_len hd _ 4 Hhd). reflexivity.
  - intros n e x (vs2 & vl & Hok & ->) Hx.
    apply (nth_error_map_inv VStr sl n x []) in Hx. destruct Hx as [Hlt ->].
    set (s := nth n sl []) in *.
    pose proof (cells_len_le sl (S n)) as HS. rewrite (cells_len_S sl n Hlt) in HS. fold s in HS.
    set (P := hd ++ concat (map cellenc (firstn n sl))).
    assert (HP : length P = (4 + cells_len (firstn n sl))%nat) by (unfold P, cells_len; rewrite app_length; lia).
    set (R := skipn (4 + cells_len (firstn n sl)) B1).
    assert (HR : length R = (total - (4 + cells_len (firstn n sl)))%nat) by (unfold R; rewrite skipn_length; lia).
    ev. stepn. stepn.
    destruct (Z.ltb_spec 65535 (Z.of_nat (length s))) as [Long|Short].
    { stepsn. unfold enc_result. rewrite (encode_strlist_long_cell sl n Hlt Long). reflexivity. }
    stepn. stepn. straight.
    rewrite <- HP. replace (Z.to_nat (Z.of_nat (length P) + 2)) with (length P + 2)%nat by lia.
    replace (Z.to_N (Z.of_nat (length s))) with (len s) by (unfold len; lia).
    rewrite (firstn_app_len P R _ eq_refl).
    assert (E1 : skipn (length P + 2) (P ++ R) = skipn 2 R).
    { rewrite skipn_app, skipn_all2 by lia. replace (length P + 2 - length P)%nat with 2%nat by lia. reflexivity. }
    rewrite E1. rewrite (app_assoc P (be 2 (len s))).
    set (P2 := P ++ be 2 (len s)).
    assert (HP2 : length P2 = (length P + 2)%nat) by (unfold P2; rewrite app_length, be_length; reflexivity).
    replace (Z.of_nat (length P) + 2) with (Z.of_nat (length P2)) by lia.
    assert (HR2 : length (skipn 2 R) = (length R - 2)%nat) by apply skipn_length.
    eapply wp_copy_at_str; [ev; reflexivity|ev; reflexivity|ev; reflexivity| |].
    { apply in_bounds_incl_true. rewrite app_length. lia. }
    rewrite Nat2Z.id, (firstn_app_len P2 _ _ eq_refl), (skipn_app_len P2 _ _ eq_refl).
    rewrite copy_into_prefix by (unfold total in *; lia).
    rewrite skipn_skipn_add. ev.
    stepsn.
    exists (VStr s), (VInt (Z.of_nat (length s))). split.
    + rewrite (firstn_S_nth sl n [] Hlt). unfold cells_ok. apply Forall_app. split; [exact Hok|].
      constructor; [fold s; lia|constructor].
    + rewrite (cells_len_S sl n Hlt). fold s.
      rewrite (firstn_S_nth sl n [] Hlt), map_app, concat_app. cbn [map concat]. rewrite app_nil_r. fold s.
      replace (Z.of_nat (length P2) + Z.of_nat (length s))
        with (Z.of_nat (4 + (cells_len (firstn n sl) + 2 + length s))) by lia.
      unfold P2, P, R. rewrite skipn_skipn_add.
      replace (length s + 2 + (4 + cells_len (firstn n sl)))%nat
        with (4 + (cells_len (firstn n sl) + 2 + length s))%nat by lia.
      unfold cellenc. rewrite <- !app_assoc. reflexivity.
  - intros e (vs2 & vl & Hok & ->). rewrite length_map_VStr, firstn_all in *.
    fold total. rewrite skipn_all2, app_nil_r by lia.
    assert (Eenc : encode_strlist sl = Some (hd ++ concat (map cellenc sl))).
    { apply encode_strlist_some; [exact Small|exact Hok]. }
    assert (Hrow : length (hd ++ concat (map cellenc sl)) = total).
    { rewrite app_length. unfold total, cells_len. lia. }
    stepn. stepn. destruct reuse; cbn [negb].
    + stepsn. unfold enc_result. rewrite Eenc. eauto.
    + stepsn. rewrite copy_into_same_len by (rewrite repeat_length; lia).
      unfold enc_result. rewrite Eenc. eauto.
Qed.
