(** Proofs for C09 (model/Session.v). *)
From Coq Require Import List NArith Bool Lia String.
From W.lib Require Import Tree Bytes.
From W.model Require Import RefUpdate Session.
From W.proofs Require Import RefUpdate_proofs.
Import ListNotations.
Local Open Scope N_scope.

(* ------------------------------------------------------------------ basics *)

(** Closed (DESIGN section 7): every stored commit's parents are stored *)
Definition Closed (g : cgraph) (cs : list commit) : Prop :=
  forall c, In c cs -> forall p, In p (cpar g c) -> In p cs.

Lemma add1_In x l y : In y (add1 x l) <-> y = x \/ In y l.
Proof.
  unfold add1. destruct (cmem x l) eqn:E.
  - split; [auto|]. intros [->|H]; [apply cmem_In; exact E|exact H].
  - rewrite in_app_iff. simpl. split.
    + intros [H|[H|[]]]; auto.
    + intros [->|H]; auto.
Qed.

Lemma parents_to_graph g c : parents (to_graph g) c = cpar g c.
Proof.
  unfold cpar. induction g as [|[x i] g IH]; simpl; [reflexivity|].
  destruct (x =? c); [reflexivity|exact IH].
Qed.

(** in a Closed store, a stored commit has all its ancestors *)
Lemma closed_anc g cs : Closed g cs -> forall a c, anc (to_graph g) a c -> In c cs -> In a cs.
Proof.
  intros HC a c H. induction H as [a|a p b Hin Hap IH]; intros Hc; [exact Hc|].
  apply IH. rewrite parents_to_graph in Hin. eapply HC; eassumption.
Qed.

(* --------------------------------------------------------- the receiver's gate *)

(** one packfile with ARBITRARY contents: the commit gate keeps the store Closed, nothing is lost, and a
    commit leaves the expected set only by being stored *)
Lemma receive_inv g pack : forall o e o' e',
  Closed g (o_commits o) ->
  receive g o e pack = Some (o', e') ->
  Closed g (o_commits o') /\
  incl (o_commits o) (o_commits o') /\ incl (o_tables o) (o_tables o') /\
  (forall c, In c e -> In c e' \/ In c (o_commits o')) /\
  (forall c, In c e' -> In c e) /\
  (forall t, In (OTable t) pack -> In t (o_tables o')) /\
  (forall c, In (OCommit c) pack -> In c (o_commits o')).
Proof.
  induction pack as [|ob pack IH]; intros o e o' e' HC H; simpl in H.
  - inversion H; subst. repeat split; auto using incl_refl; intros ? [].
  - destruct ob as [t|c].
    + apply IH in H; [|exact HC]. simpl in H.
      destruct H as (H1 & H2 & H3 & H4 & H5 & H6 & H7).
      repeat split; auto.
      * intros x Hx. apply H3. apply add1_In. right. exact Hx.
      * intros t' [Ht|Ht]; [|apply H6; exact Ht]. inversion Ht; subst.
        apply H3. apply add1_In. left. reflexivity.
      * intros c [Hc|Hc]; [discriminate|apply H7; exact Hc].
    + destruct (forallb (fun p => cmem p (o_commits o)) (cpar g c)) eqn:Eg; [|discriminate].
      assert (HC' : Closed g (add1 c (o_commits o))).
      { intros x Hx p Hp. apply add1_In. apply add1_In in Hx. destruct Hx as [->|Hx].
        - right. rewrite forallb_forall in Eg. apply cmem_In. apply Eg. exact Hp.
        - right. eapply HC; eassumption. }
      apply IH in H; [|exact HC']. simpl in H.
      destruct H as (H1 & H2 & H3 & H4 & H5 & H6 & H7).
      repeat split; auto.
      * intros x Hx. apply H2. apply add1_In. right. exact Hx.
      * intros x Hx. destruct (x =? c) eqn:Exc.
        -- apply N.eqb_eq in Exc. subst. right. apply H2. apply add1_In. left. reflexivity.
        -- apply H4. apply filter_In. split; [exact Hx|]. rewrite Exc. reflexivity.
      * intros x Hx. apply H5 in Hx. apply filter_In in Hx. tauto.
      * intros t [Ht|Ht]; [discriminate|apply H6; exact Ht].
      * intros x [Hx|Hx]; [|apply H7; exact Hx]. inversion Hx; subst.
        apply H2. apply add1_In. left. reflexivity.
Qed.

(** the receive loop of both sessions, for ARBITRARY packfiles *)
Lemma receive_packs_inv g packs : forall o e o' e' n,
  Closed g (o_commits o) ->
  receive_packs g o e packs = Some (o', e', n) ->
  Closed g (o_commits o') /\
  incl (o_commits o) (o_commits o') /\ incl (o_tables o) (o_tables o') /\
  (forall c, In c e -> In c e' \/ In c (o_commits o')) /\
  (n <= length packs)%nat /\
  (forall t, In (OTable t) (concat (firstn n packs)) -> In t (o_tables o')).
Proof.
  induction packs as [|p packs IH]; intros o e o' e' n HC H; simpl in H.
  - inversion H; subst. repeat split; auto using incl_refl. simpl. intros ? [].
  - destruct (receive g o e p) as [[o1 e1]|] eqn:E1; [|discriminate].
    apply receive_inv in E1; [|exact HC].
    destruct E1 as (A1 & A2 & A3 & A4 & A5 & A6 & A7).
    destruct e1 as [|x e1].
    + inversion H; subst. repeat split; auto.
      * simpl. lia.
      * simpl. rewrite app_nil_r. exact A6.
    + destruct (receive_packs g o1 (x :: e1) packs) as [[[o2 e2] m]|] eqn:E2; [|discriminate].
      inversion H; subst. apply IH in E2; [|exact A1].
      destruct E2 as (B1 & B2 & B3 & B4 & B5 & B6).
      repeat split; auto.
      * eapply incl_tran; eassumption.
      * eapply incl_tran; eassumption.
      * intros c Hc. apply A4 in Hc. destruct Hc as [Hc|Hc]; [apply B4; exact Hc|right; apply B2; exact Hc].
      * simpl. lia.
      * intros t Ht. simpl in Ht. apply in_app_or in Ht. destruct Ht as [Ht|Ht].
        -- apply B3. apply A6. exact Ht.
        -- apply B6. exact Ht.
Qed.

(** "expected commits all arrive => done": the loop stops at the first packfile after which nothing is
    expected, and success means every expected commit is stored with all its ancestors *)
Theorem receive_packs_closed g packs o e o' n :
  Closed g (o_commits o) ->
  receive_packs g o e packs = Some (o', [], n) ->
  Closed g (o_commits o') /\
  forall w, In w e -> In w (o_commits o') /\ forall a, anc (to_graph g) a w -> In a (o_commits o').
Proof.
  intros HC H. apply receive_packs_inv in H; [|exact HC].
  destruct H as (H1 & H2 & H3 & H4 & H5 & H6). split; [exact H1|].
  intros w Hw. destruct (H4 w Hw) as [[]|Hin]. split; [exact Hin|].
  intros a Ha. eapply closed_anc; eassumption.
Qed.

(* ------------------------------------------------------------ fetchObjects *)

(** C09_fetch_closed, object half, for every k, packfile size, depth and table negotiation - and in fact
    for any server whatsoever (the argument only uses the receiver's gate): a successful session stores
    every advertised commit with all its ancestors and keeps the store Closed *)
Theorem fetch_objects_closed g local remote adv depth k p tn o' rounds packs :
  Closed g (o_commits (r_objs local)) ->
  fetch_objects g local remote adv depth k p tn = FDone o' rounds packs ->
  Closed g (o_commits o') /\
  incl (o_commits (r_objs local)) (o_commits o') /\ incl (o_tables (r_objs local)) (o_tables o') /\
  forall w, In w adv -> In w (o_commits o') /\ forall a, anc (to_graph g) a w -> In a (o_commits o').
Proof.
  intros HC H. unfold fetch_objects in H.
  set (wants := filter (fun c => negb (cmem c (o_commits (r_objs local)))) adv) in *.
  destruct wants as [|w0 ws] eqn:Ew; [discriminate|].
  destruct (negb (forallb _ (w0 :: ws))); [discriminate|].
  destruct (negotiate _ _ _ _ _ _ _ _ _) as [commons rnds].
  match type of H with context [receive_packs g ?o ?e ?pk] => destruct (receive_packs g o e pk) as [[[o1 e1] n]|] eqn:ER end;
    [|discriminate].
  destruct e1; [|discriminate]. inversion H; subst o1 rounds packs. clear H.
  pose proof ER as ER'. apply receive_packs_inv in ER'; [|exact HC].
  destruct ER' as (H1 & H2 & H3 & _).
  apply receive_packs_closed in ER; [|exact HC]. destruct ER as [_ HW].
  split; [exact H1|]. split; [exact H2|]. split; [exact H3|].
  intros w Hw.
  destruct (cmem w (o_commits (r_objs local))) eqn:Em.
  - apply cmem_In in Em. split; [apply H2; exact Em|].
    intros a Ha. apply H2. eapply closed_anc; eassumption.
  - apply HW. rewrite <- Ew. apply filter_In. split; [exact Hw|]. rewrite Em. reflexivity.
Qed.

(** C09_idempotent, object half: a repeated session for the same advertisement wants nothing *)
Theorem fetch_objects_idempotent g local remote adv depth k p tn o' rounds packs refs' remote' d2 k2 p2 tn2 :
  Closed g (o_commits (r_objs local)) ->
  fetch_objects g local remote adv depth k p tn = FDone o' rounds packs ->
  fetch_objects g (mk_repo o' refs') remote' adv d2 k2 p2 tn2 = FNothing.
Proof.
  intros HC H. apply fetch_objects_closed in H; [|exact HC]. destruct H as (_ & _ & _ & HW).
  unfold fetch_objects. simpl.
  replace (filter (fun c => negb (cmem c (o_commits o'))) adv) with (@nil commit); [reflexivity|].
  symmetry. induction adv as [|a adv IH]; simpl; [reflexivity|].
  assert (Ha : cmem a (o_commits o') = true).
  { apply cmem_In. apply HW. left. reflexivity. }
  rewrite Ha. simpl. apply IH. intros w Hw. apply HW. right. exact Hw.
Qed.

(** tables: every table object in a consumed packfile is stored and nothing is ever removed.  With the
    named premise about the server's stream (SrvDepth below) this is the depth clause. *)
(** the commits whose table a ref at [w] is entitled to: all ancestors when depth = 0, else those fewer than
    [depth] parent steps away *)
Definition region (g : cgraph) (depth : nat) (w : commit) : list commit :=
  match depth with O => anc_set (to_graph g) w | _ => within_depth g depth [w] end.

(** NAMED PREMISE about the server's stream (= C08_depth + C07 for the real finder/sender; it is what
    fails in the known finding depth-rule-want-order): for every want, the table of every commit of its
    region that the client did not have is already stored or travels in a consumed packfile *)
Definition SrvDepth (g : cgraph) (before : objs) (wants : list commit) (depth : nat)
           (packs : list (list obj)) (n : nat) : Prop :=
  forall w, In w wants -> forall c, In c (region g depth w) -> ~ In c (o_commits before) ->
            In (ctbl g c) (o_tables before) \/ In (OTable (ctbl g c)) (concat (firstn n packs)).

Theorem tables_within_depth_partial g o wants depth packs o' n :
  Closed g (o_commits o) ->
  receive_packs g o wants packs = Some (o', [], n) ->
  SrvDepth g o wants depth packs n ->
  forall w, In w wants -> forall c, In c (region g depth w) -> ~ In c (o_commits o) ->
            In (ctbl g c) (o_tables o').
Proof.
  intros HC H HS w Hw c Hc Hn. apply receive_packs_inv in H; [|exact HC].
  destruct H as (_ & _ & H3 & _ & _ & H6).
  destruct (HS w Hw c Hc Hn) as [Ht|Ht]; [apply H3; exact Ht|apply H6; exact Ht].
Qed.

(** the session's packfiles, made visible *)
Lemma fetch_objects_run g local remote adv depth k p tn o' rounds n :
  fetch_objects g local remote adv depth k p tn = FDone o' rounds n ->
  exists commons,
    receive_packs g (r_objs local)
      (filter (fun c => negb (cmem c (o_commits (r_objs local)))) adv)
      (chunk p (plan g (r_objs remote) (filter (fun c => negb (cmem c (o_commits (r_objs local)))) adv)
                     commons depth (if tn then o_tables (r_objs local) else [])))
    = Some (o', [], n).
Proof.
  intros H. unfold fetch_objects in H.
  set (wants := filter (fun c => negb (cmem c (o_commits (r_objs local)))) adv) in *.
  destruct wants as [|w0 ws] eqn:Ew; [discriminate|].
  destruct (negb (forallb _ (w0 :: ws))); [discriminate|].
  destruct (negotiate _ _ _ _ _ _ _ _ _) as [commons rnds].
  exists commons.
  match type of H with context [receive_packs g ?o ?e ?pk] => destruct (receive_packs g o e pk) as [[[o1 e1] m]|] eqn:ER end;
    [|discriminate].
  destruct e1; [|discriminate]. inversion H; subst. reflexivity.
Qed.

(** C09 depth clause, PARTIAL: under the named premise SrvDepth for the stream of this session, every commit
    a refspec asked for (a want) has, after a successful transfer, the table of every commit of its region
    that was not stored before.  (Auto-followed tags are not wants: known finding depth-rule-followed-tag.) *)
Theorem fetch_depth_partial g local remote adv depth k p tn o' rounds n :
  Closed g (o_commits (r_objs local)) ->
  fetch_objects g local remote adv depth k p tn = FDone o' rounds n ->
  (forall commons,
     SrvDepth g (r_objs local) (filter (fun c => negb (cmem c (o_commits (r_objs local)))) adv) depth
       (chunk p (plan g (r_objs remote) (filter (fun c => negb (cmem c (o_commits (r_objs local)))) adv)
                      commons depth (if tn then o_tables (r_objs local) else []))) n) ->
  forall w, In w adv -> ~ In w (o_commits (r_objs local)) ->
  forall c, In c (region g depth w) -> ~ In c (o_commits (r_objs local)) -> In (ctbl g c) (o_tables o').
Proof.
  intros HC H HS w Hw Hnw c Hc Hn.
  apply fetch_objects_run in H. destruct H as [commons H].
  eapply tables_within_depth_partial; try eassumption.
  - apply HS.
  - apply filter_In. split; [exact Hw|].
    destruct (cmem w (o_commits (r_objs local))) eqn:E; [apply cmem_In in E; contradiction|reflexivity].
Qed.

(** C09_idempotent, ref half: an item whose destination already holds its value writes nothing *)
Lemma fetch_item_noop ia gforce s tr nrej it :
  rget s (fi_dst it) = Some (fi_new it) -> fetch_item ia gforce (s, tr, nrej) it = (s, tr, nrej).
Proof.
  intros H. unfold fetch_item. rewrite H. simpl. rewrite N.eqb_refl. reflexivity.
Qed.

Lemma fetch_loop_noop ia gforce items : forall s tr nrej,
  (forall it, In it items -> rget s (fi_dst it) = Some (fi_new it)) ->
  fold_left (fetch_item ia gforce) items (s, tr, nrej) = (s, tr, nrej).
Proof.
  induction items as [|it items IH]; intros s tr nrej H; cbn [fold_left]; [reflexivity|].
  rewrite fetch_item_noop; [|apply H; left; reflexivity].
  apply IH. intros jt Hj. apply H. right. exact Hj.
Qed.

(** the situation of the known finding depth-rule-want-order, as a predicate on the request: some commit
    of a want's region is also reached from another want at [depth] or more steps - that want's walk, if it
    comes first, marks the commit as seen without selecting its table.  (C08: the real finder's selection is
    exact when this does not happen.) *)
Definition Shadowed (g : cgraph) (wants : list commit) (depth : nat) : Prop :=
  exists w w' c, In w wants /\ In w' wants /\ w <> w' /\ depth <> O /\
                 In c (region g depth w) /\ In c (anc_set (to_graph g) w') /\ ~ In c (region g depth w').

(* ------------------------------------------------ the client's haves bookkeeping *)

(** popHaves only offers commits whose table is stored, at most k per round *)
Lemma pop_haves_spec g tables fuel : forall k s acc haves done s',
  pop_haves g tables fuel k s acc = (haves, done, s') ->
  (forall h, In h haves -> In h acc \/ cmem (ctbl g h) tables = true) /\
  (length haves <= length acc + k)%nat /\
  (done = false -> length haves = (length acc + k)%nat).
Proof.
  induction fuel as [|f IH]; intros k s acc haves done s' H.
  - destruct k; simpl in H; inversion H; subst; repeat split; auto; try lia; discriminate.
  - destruct k as [|k']; simpl in H.
    + inversion H; subst. repeat split; auto; lia.
    + destruct (fst s) as [|x q'] eqn:Eq.
      * inversion H; subst. repeat split; auto; try lia; discriminate.
      * destruct (cmem (ctbl g x) tables) eqn:Et.
        -- apply IH in H. destruct H as (H1 & H2 & H3). rewrite app_length in *. simpl in *.
           repeat split; try lia.
           ++ intros h Hh. apply H1 in Hh. destruct Hh as [Hh|Hh]; [|right; exact Hh].
              apply in_app_or in Hh. destruct Hh as [Hh|[<-|[]]]; [left; exact Hh|right; exact Et].
           ++ intros Hd. specialize (H3 Hd). lia.
        -- apply IH in H. exact H.
Qed.

(** the commons a negotiation ends with are commits the server knows, each of them either given at the
    start or offered by the client as a have *)
Lemma find_commons_known known haves c : In c (find_commons known haves) -> In c known /\ In c haves.
Proof.
  induction haves as [|h rest IH]; simpl; [intros []|].
  destruct (cmem h known) eqn:E; [|intros []].
  intros [<-|H]; [split; [apply cmem_In; exact E|left; reflexivity]|].
  apply IH in H. destruct H. split; [assumption|right; assumption].
Qed.

Lemma negotiate_S g local known wants k f s commons rounds :
  negotiate g local known wants k (S f) s commons rounds =
  let '(haves, done, s') := pop_haves g (o_tables local) (S (length g)) k s [] in
  let acks := find_commons known haves in
  let commons' := add_all commons acks in
  if negb done && match commons' with [] => false | _ => true end && reaches_root g commons' wants
  then negotiate g local known wants k f (remove_ancestors g acks s') commons' (S rounds)
  else (commons', S rounds).
Proof. reflexivity. Qed.

Lemma negotiate_commons g local known wants k fuel : forall s commons rounds commons' rounds',
  negotiate g local known wants k fuel s commons rounds = (commons', rounds') ->
  (forall c, In c commons' -> In c commons \/ (In c known /\ cmem (ctbl g c) (o_tables local) = true)) /\
  (rounds' <= rounds + fuel)%nat.
Proof.
  induction fuel as [|f IH]; intros s commons rounds commons' rounds' H.
  - simpl in H. inversion H; subst. split; [auto|lia].
  - rewrite negotiate_S in H.
    destruct (pop_haves g (o_tables local) (S (length g)) k s []) as [[haves done] s'] eqn:EP.
    cbv zeta in H.
    apply pop_haves_spec in EP. destruct EP as (P1 & _ & _).
    assert (Step : forall c, In c (add_all commons (find_commons known haves)) ->
                             In c commons \/ (In c known /\ cmem (ctbl g c) (o_tables local) = true)).
    { intros c Hc. apply add_all_In in Hc. destruct Hc as [Hc|Hc]; [left; exact Hc|].
      apply find_commons_known in Hc. destruct Hc as [Hk Hh]. right. split; [exact Hk|].
      destruct (P1 c Hh) as [[]|Ht]. exact Ht. }
    destruct (negb done && _ && _).
    + apply IH in H. destruct H as [H1 H2]. split; [|lia].
      intros c Hc. apply H1 in Hc. destruct Hc as [Hc|Hc]; [apply Step; exact Hc|right; exact Hc].
    + inversion H; subst. split; [exact Step|lia].
Qed.

(* ------------------------------------------------------- refs after objects *)
Open Scope string_scope.

Lemma str_list_eqb_eq a b : str_list_eqb a b = true -> a = b.
Proof.
  revert b. induction a as [|x a IH]; intros [|y b] H; simpl in H; try discriminate; [reflexivity|].
  apply andb_true_iff in H. destruct H as [H1 H2]. apply String.eqb_eq in H1. subst.
  f_equal. apply IH. exact H2.
Qed.

Lemma fetch_writes_filter skel ows rws :
  fetch_writes skel ows rws = fetch_writes (filter is_fetch_half skel) ows rws.
Proof.
  unfold fetch_writes. induction skel as [|s skel IH]; simpl; [reflexivity|].
  unfold is_fetch_half at 1.
  destruct (String.eqb s "fetchObjects") eqn:E1; simpl.
  - rewrite E1. f_equal. exact IH.
  - destruct (String.eqb s "saveFetchedRefs") eqn:E2; simpl.
    + rewrite E1, E2. f_equal. exact IH.
    + exact IH.
Qed.

(** C09_refs_after_objects: with the call order the translator reads from fetch.Fetch, all object writes
    of a fetch come before its first ref write *)
Theorem refs_after_objects skel ows rws :
  fetch_skel_ok skel = true ->
  fetch_writes skel ows rws = (map WObj ows ++ map WRef rws)%list.
Proof.
  intros H. unfold fetch_skel_ok in H. apply str_list_eqb_eq in H.
  rewrite fetch_writes_filter, H. unfold fetch_writes. simpl. rewrite app_nil_r. reflexivity.
Qed.
Close Scope string_scope.

(* --------------------------------------------------- refs written by a fetch *)

(** every value the loop of saveFetchedRefs leaves in a ref was there before or is the value of an item *)
Lemma fetch_loop_values ia gforce items : forall acc n c,
  rget (fst (fst (fold_left (fetch_item ia gforce) items acc))) n = Some c ->
  rget (fst (fst acc)) n = Some c \/ In c (map fi_new items).
Proof.
  induction items as [|it items IH]; intros acc n c H; simpl in *; [left; exact H|].
  apply IH in H. destruct H as [H|H]; [|right; right; exact H].
  destruct acc as [[s tr] nrej]. unfold fetch_item in H.
  destruct (updates _); simpl in *; [|left; exact H].
  destruct (beqb (fi_dst it) n) eqn:E.
  - apply beqb_eq in E. subst n. rewrite rset_log_get_same in H. inversion H. right. left. reflexivity.
  - rewrite rset_log_get_other in H; [left; exact H|].
    intros ->. rewrite beqb_refl in E. discriminate.
Qed.

Lemma insert_item_In it l x : In x (insert_item it l) -> x = it \/ In x l.
Proof.
  induction l as [|y l IH]; simpl; intros H.
  - destruct H as [H|[]]; auto.
  - destruct (klt _ _).
    + destruct H as [H|H]; auto.
    + destruct H as [H|H]; [right; left; exact H|]. apply IH in H. destruct H; auto.
Qed.

Lemma sort_items_In l x : In x (sort_items l) -> In x l.
Proof.
  unfold sort_items.
  assert (G : forall acc, In x (fold_left (fun acc it => insert_item it acc) l acc) -> In x acc \/ In x l).
  { induction l as [|u l IH]; intros acc H; simpl in *; [left; exact H|].
    apply IH in H. destruct H as [H|H]; [|right; right; exact H].
    apply insert_item_In in H. destruct H as [H|H]; [right; left; symmetry; exact H|left; exact H]. }
  intros H. apply G in H. destruct H as [[]|H]. exact H.
Qed.

(** C09_fetch_closed: after a fetch - whatever its outcome - the local store is Closed, and every ref that
    was created or moved points at a stored commit all of whose ancestors are stored.  For all k, packfile
    sizes, depths, refspecs and force flags. *)
Theorem fetch_closed g local remote specs gforce depth k p tn :
  Closed g (o_commits (r_objs local)) ->
  let '(out, l') := fetch g local remote specs gforce depth k p tn in
  Closed g (o_commits (r_objs l')) /\
  incl (o_commits (r_objs local)) (o_commits (r_objs l')) /\
  incl (o_tables (r_objs local)) (o_tables (r_objs l')) /\
  forall n c, rget (r_refs l') n = Some c -> rget (r_refs local) n <> Some c ->
              In c (o_commits (r_objs l')) /\
              forall a, anc (to_graph g) a c -> In a (o_commits (r_objs l')).
Proof.
  intros HC. unfold fetch.
  set (adv := map fi_new (fst (resolve_fetch specs (listing (r_refs remote))))).
  destruct (fetch_objects g local remote adv depth k p tn) as [| |o' rounds packs] eqn:EF.
  - (* nothing wanted: every advertised commit is already stored *)
    assert (Hadv : forall w, In w adv -> In w (o_commits (r_objs local))).
    { intros w Hw. unfold fetch_objects in EF.
      destruct (filter (fun c => negb (cmem c (o_commits (r_objs local)))) adv) as [|w0 ws] eqn:Ew.
      - destruct (cmem w (o_commits (r_objs local))) eqn:Em; [apply cmem_In; exact Em|].
        assert (In w []) as []. rewrite <- Ew. apply filter_In. split; [exact Hw|]. rewrite Em. reflexivity.
      - destruct (negb _); [discriminate|]. destruct (negotiate _ _ _ _ _ _ _ _ _).
        destruct (receive_packs _ _ _ _) as [[[? [|? ?]] ?]|]; discriminate. }
    unfold fetch_step_h. cbn [lrefs rrefs lhave].
    destruct (resolve_fetch specs (listing (r_refs remote))) as [items tags] eqn:ER.
    match goal with |- context [flat_map ?f tags] => set (extra := flat_map f tags) end. unfold fetch_loop.
    destruct (fold_left _ (sort_items (items ++ extra)) _) as [[s' tr] nrej] eqn:EL. simpl.
    repeat split; auto using incl_refl.
    + pose proof (fetch_loop_values (is_ancestor (to_graph g)) gforce (sort_items (items ++ extra))
                                    (r_refs local, [], O) n c) as V.
      rewrite EL in V. simpl in V. destruct (V H) as [V1|V1]; [contradiction|].
      apply in_map_iff in V1. destruct V1 as [it [Hit Hin]]. apply sort_items_In in Hin.
      apply in_app_or in Hin. destruct Hin as [Hin|Hin].
      * apply Hadv. subst adv. simpl. apply in_map_iff. exists it. split; assumption.
      * unfold extra in Hin. apply in_flat_map in Hin. destruct Hin as [e [_ He]].
        destruct (cmem (snd e) (o_commits (r_objs local)) && _) eqn:Ec; [|destruct He].
        destruct He as [<-|[]]. simpl in Hit. subst c.
        apply andb_true_iff in Ec. apply cmem_In. tauto.
    + intros a Ha. eapply closed_anc; [exact HC|exact Ha|].
      pose proof (fetch_loop_values (is_ancestor (to_graph g)) gforce (sort_items (items ++ extra))
                                    (r_refs local, [], O) n c) as V.
      rewrite EL in V. simpl in V. destruct (V H) as [V1|V1]; [contradiction|].
      apply in_map_iff in V1. destruct V1 as [it [Hit Hin]]. apply sort_items_In in Hin.
      apply in_app_or in Hin. destruct Hin as [Hin|Hin].
      * apply Hadv. subst adv. simpl. apply in_map_iff. exists it. split; assumption.
      * unfold extra in Hin. apply in_flat_map in Hin. destruct Hin as [e [_ He]].
        destruct (cmem (snd e) (o_commits (r_objs local)) && _) eqn:Ec; [|destruct He].
        destruct He as [<-|[]]. simpl in Hit. subst c.
        apply andb_true_iff in Ec. apply cmem_In. tauto.
  - (* transfer failed: nothing changes *)
    simpl. repeat split; auto using incl_refl; contradiction.
  - apply fetch_objects_closed in EF; [|exact HC].
    destruct EF as (F1 & F2 & F3 & F4).
    unfold fetch_step_h. cbn [lrefs rrefs lhave].
    destruct (resolve_fetch specs (listing (r_refs remote))) as [items tags] eqn:ER.
    match goal with |- context [flat_map ?f tags] => set (extra := flat_map f tags) end. unfold fetch_loop.
    destruct (fold_left _ (sort_items (items ++ extra)) _) as [[s' tr] nrej] eqn:EL. simpl.
    assert (Hval : forall n c, rget s' n = Some c -> rget (r_refs local) n <> Some c -> In c (o_commits o')).
    { intros n c H Hne.
      pose proof (fetch_loop_values (is_ancestor (to_graph g)) gforce (sort_items (items ++ extra))
                                    (r_refs local, [], O) n c) as V.
      rewrite EL in V. simpl in V. destruct (V H) as [V1|V1]; [contradiction|].
      apply in_map_iff in V1. destruct V1 as [it [Hit Hin]]. apply sort_items_In in Hin.
      apply in_app_or in Hin. destruct Hin as [Hin|Hin].
      * apply F4. subst adv. simpl. apply in_map_iff. exists it. split; assumption.
      * unfold extra in Hin. apply in_flat_map in Hin. destruct Hin as [e [_ He]].
        destruct (cmem (snd e) (o_commits o') && _) eqn:Ec; [|destruct He].
        destruct He as [<-|[]]. simpl in Hit. subst c.
        apply andb_true_iff in Ec. apply cmem_In. tauto. }
    repeat split; auto.
    + eapply Hval; eassumption.
    + intros a Ha. eapply closed_anc; [exact F1|exact Ha|]. eapply Hval; eassumption.
Qed.

(* -------------------------------------------------------------------- push *)

(** RefsResolve (DESIGN section 7): every ref points at a stored commit *)
Definition RefsResolve (r : repo) : Prop :=
  forall c, In c (ref_values (r_refs r)) -> In c (o_commits (r_objs r)).

Lemma rget_values s n c : rget s n = Some c -> In c (ref_values s).
Proof.
  induction s as [|[m [v lg]] s IH]; simpl; [discriminate|].
  destruct (beqb m n); [intros H; inversion H; left; reflexivity|intros H; right; apply IH; exact H].
Qed.

Lemma rset_log_values s n c act x :
  In x (ref_values (rset_log s n c act)) -> x = c \/ In x (ref_values s).
Proof.
  induction s as [|[m [v lg]] s IH]; simpl.
  - intros [H|[]]; auto.
  - destruct (beqb m n); simpl.
    + intros [H|H]; auto.
    + intros [H|H]; [auto|]. apply IH in H. destruct H; auto.
Qed.

Lemma rdel_values s n x : In x (ref_values (rdel s n)) -> In x (ref_values s).
Proof.
  induction s as [|[m e] s IH]; simpl; [auto|].
  destruct (beqb m n); simpl; [auto|]. intros [H|H]; auto.
Qed.

Lemma server_apply_values ia dn dd us : forall acc x,
  In x (ref_values (fst (fst (fold_left (server_apply ia dn dd) us acc)))) ->
  In x (ref_values (fst (fst acc))) \/ exists u, In u us /\ u_new u = Some x.
Proof.
  induction us as [|u us IH]; intros acc x H; simpl in *; [left; exact H|].
  apply IH in H. destruct H as [H|[u' [H1 H2]]]; [|right; exists u'; split; [right; exact H1|exact H2]].
  destruct acc as [[s tr] nrej]. unfold server_apply in H.
  destruct (negb (oeqb (rget s (u_dst u)) (u_old u))); simpl in *; [left; exact H|].
  destruct (u_new u) as [c'|] eqn:En.
  - destruct (match rget s (u_dst u) with Some o => dn && negb (ia o c') | None => false end);
      simpl in *; [left; exact H|].
    apply rset_log_values in H. destruct H as [->|H]; [|left; exact H].
    right. exists u. split; [left; reflexivity|exact En].
  - destruct dd; simpl in *; [left; exact H|]. left. eapply rdel_values. exact H.
Qed.

(** C09 for push: from a Closed remote whose refs resolve, whatever the push reports, the remote stays Closed
    and every ref - in particular every updated one - points at a stored commit with all its ancestors.
    For every packfile size, any client history and force flags. *)
Theorem push_closed g local remote items gforce p :
  Closed g (o_commits (r_objs remote)) -> RefsResolve remote ->
  let '(out, r') := push g local remote items gforce p in
  Closed g (o_commits (r_objs r')) /\ RefsResolve r' /\
  incl (o_commits (r_objs remote)) (o_commits (r_objs r')) /\
  incl (o_tables (r_objs remote)) (o_tables (r_objs r')) /\
  forall n c, rget (r_refs r') n = Some c ->
              In c (o_commits (r_objs r')) /\ forall a, anc (to_graph g) a c -> In a (o_commits (r_objs r')).
Proof.
  intros HC HR.
  assert (Same : Closed g (o_commits (r_objs remote)) /\ RefsResolve remote /\
                 incl (o_commits (r_objs remote)) (o_commits (r_objs remote)) /\
                 incl (o_tables (r_objs remote)) (o_tables (r_objs remote)) /\
                 forall n c, rget (r_refs remote) n = Some c ->
                   In c (o_commits (r_objs remote)) /\
                   forall a, anc (to_graph g) a c -> In a (o_commits (r_objs remote))).
  { repeat split; auto using incl_refl.
    - apply HR. eapply rget_values. eassumption.
    - intros a Ha. eapply closed_anc; [exact HC|exact Ha|]. apply HR. eapply rget_values. eassumption. }
  (* applying the accepted updates on a store o' that extends the remote's *)
  assert (Apply : forall o' us,
            Closed g (o_commits o') -> incl (o_commits (r_objs remote)) (o_commits o') ->
            incl (o_tables (r_objs remote)) (o_tables o') ->
            let r' := mk_repo o' (fst (fst (fold_left (server_apply (is_ancestor (to_graph g)) false false)
                        (filter (fun u => match u_new u with Some c => cmem c (o_commits o') | None => true end) us)
                        (r_refs remote, [], O)))) in
            Closed g (o_commits (r_objs r')) /\ RefsResolve r' /\
            incl (o_commits (r_objs remote)) (o_commits (r_objs r')) /\
            incl (o_tables (r_objs remote)) (o_tables (r_objs r')) /\
            forall n c, rget (r_refs r') n = Some c ->
              In c (o_commits (r_objs r')) /\ forall a, anc (to_graph g) a c -> In a (o_commits (r_objs r'))).
  { intros o' us C1 I1 I2 r'. subst r'. simpl.
    assert (RR : forall x, In x (ref_values (fst (fst (fold_left (server_apply (is_ancestor (to_graph g)) false false)
                        (filter (fun u => match u_new u with Some c => cmem c (o_commits o') | None => true end) us)
                        (r_refs remote, [], O))))) -> In x (o_commits o')).
    { intros x Hx. apply server_apply_values in Hx. simpl in Hx.
      destruct Hx as [Hx|[u [Hu Hn]]]; [apply I1; apply HR; exact Hx|].
      apply filter_In in Hu. destruct Hu as [_ Hu]. rewrite Hn in Hu. apply cmem_In. exact Hu. }
    repeat split; auto.
    - apply RR. eapply rget_values. eassumption.
    - intros a Ha. eapply closed_anc; [exact C1|exact Ha|]. apply RR. eapply rget_values. eassumption. }
  unfold push.
  destruct (identify_updates _ _ _ _ _) as [[us nrej]|]; [|exact Same].
  destruct us as [|u0 us']; [exact Same|].
  set (us := u0 :: us') in *.
  destruct (negb (forallb _ _)); [exact Same|].
  match goal with |- context [existsb ?f ?l] => destruct (existsb f l) end; [exact Same|].
  match goal with |- context [filter ?f (flat_map ?h us)] => destruct (filter f (flat_map h us)) as [|e0 es] eqn:Ee end.
  - apply (Apply (r_objs remote) (sort_upds us)); auto using incl_refl.
  - match goal with |- context [receive_packs g ?o ?e ?pk] =>
      destruct (receive_packs g o e pk) as [[[o1 e1] n]|] eqn:ER end; [|exact Same].
    apply receive_packs_inv in ER; [|exact HC].
    destruct ER as (R1 & R2 & R3 & _).
    destruct e1 as [|x e1].
    + apply (Apply o1 (sort_upds us)); auto.
    + simpl. repeat split; auto.
      * intros c Hc. apply R2. apply HR. exact Hc.
      * apply R2. apply HR. eapply rget_values. eassumption.
      * intros a Ha. eapply closed_anc; [exact R1|exact Ha|]. apply R2. apply HR. eapply rget_values. eassumption.
Qed.

(* ---------------------------------------------------------- transport faults *)

Definition push_post (g : cgraph) (remote r' : repo) : Prop :=
  Closed g (o_commits (r_objs r')) /\ RefsResolve r' /\
  incl (o_commits (r_objs remote)) (o_commits (r_objs r')) /\
  incl (o_tables (r_objs remote)) (o_tables (r_objs r')) /\
  forall n c, rget (r_refs r') n = Some c ->
              In c (o_commits (r_objs r')) /\ forall a, anc (to_graph g) a c -> In a (o_commits (r_objs r')).

Lemma push_post_same g remote :
  Closed g (o_commits (r_objs remote)) -> RefsResolve remote -> push_post g remote remote.
Proof.
  intros HC HR. unfold push_post. repeat split; auto using incl_refl.
  - apply HR. eapply rget_values. eassumption.
  - intros a Ha. eapply closed_anc; [exact HC|exact Ha|]. apply HR. eapply rget_values. eassumption.
Qed.

Lemma push_apply_ok g remote us o' :
  RefsResolve remote ->
  Closed g (o_commits o') -> incl (o_commits (r_objs remote)) (o_commits o') ->
  incl (o_tables (r_objs remote)) (o_tables o') ->
  push_post g remote (push_apply g remote us o').
Proof.
  intros HR C1 I1 I2. unfold push_apply, push_post. simpl.
  set (ok := filter _ (sort_upds us)).
  assert (RR : forall x, In x (ref_values (fst (fst (fold_left (server_apply (is_ancestor (to_graph g)) false false)
                        ok (r_refs remote, [], O))))) -> In x (o_commits o')).
  { intros x Hx. apply server_apply_values in Hx. simpl in Hx.
    destruct Hx as [Hx|[u [Hu Hn]]]; [apply I1; apply HR; exact Hx|].
    unfold ok in Hu. apply filter_In in Hu. destruct Hu as [_ Hu]. rewrite Hn in Hu. apply cmem_In. exact Hu. }
  repeat split; auto.
  - apply RR. eapply rget_values. eassumption.
  - intros a Ha. eapply closed_anc; [exact C1|exact Ha|]. apply RR. eapply rget_values. eassumption.
Qed.

(** push under ANY transport fault: whatever response is lost, the remote stays Closed and every ref - updated
    or not - points at a stored commit with all its ancestors *)
Theorem push_f_closed g local remote items gforce p f :
  Closed g (o_commits (r_objs remote)) -> RefsResolve remote ->
  push_post g remote (snd (push_f g local remote items gforce p f)).
Proof.
  intros HC HR.
  assert (N : push_post g remote (snd (push g local remote items gforce p))).
  { pose proof (push_closed g local remote items gforce p HC HR) as H.
    destruct (push g local remote items gforce p) as [out r']. exact H. }
  unfold push_f. cbv zeta.
  destruct (f_mode f =? 0); [exact N|].
  destruct (f_phase f =? 1); [simpl; apply push_post_same; assumption|].
  destruct (push_view g local remote items gforce p) as [[[us expected] packs]|]; [|exact N].
  destruct (f_phase f =? 2).
  - destruct expected; simpl; [apply push_apply_ok; auto using incl_refl|apply push_post_same; assumption].
  - destruct expected as [|c expected]; [exact N|].
    destruct (pack_of_commit (f_j f) packs 0) as [i|]; [|exact N].
    destruct (receive_packs g (r_objs remote) (c :: expected) (firstn (S i) packs)) as [[[o' e'] n]|] eqn:ER;
      [|simpl; apply push_post_same; assumption].
    apply receive_packs_inv in ER; [|exact HC]. destruct ER as (R1 & R2 & R3 & _).
    destruct e'; simpl.
    + apply push_apply_ok; assumption.
    + unfold push_post. simpl. repeat split; auto.
      * intros x Hx. apply R2. apply HR. exact Hx.
      * apply R2. apply HR. eapply rget_values. eassumption.
      * intros a Ha. eapply closed_anc; [exact R1|exact Ha|]. apply R2. apply HR. eapply rget_values. eassumption.
Qed.

(** a push that would have to send a commit whose table is not stored locally sends nothing: it is refused and
    the remote is untouched (the guard NewShallowCommitError in NewReceivePackSession) *)
Theorem push_refuses_shallow g local remote items gforce p :
  push_shallow_refused g local remote items gforce = true ->
  push g local remote items gforce p = (1, remote).
Proof.
  unfold push_shallow_refused, push. cbv zeta.
  destruct (identify_updates _ _ _ _ _) as [[us nrej]|]; [|discriminate].
  destruct us as [|u0 us']; [discriminate|].
  destruct (negb (forallb _ _)); [discriminate|].
  intros H. rewrite H. reflexivity.
Qed.

Theorem push_k_closed known g local remote items gforce p f :
  Closed g (o_commits (r_objs remote)) -> RefsResolve remote ->
  push_post g remote (snd (push_k known g local remote items gforce p f)).
Proof.
  intros HC HR. unfold push_k.
  destruct (negb known && push_shallow_refused g local remote items gforce).
  - simpl. apply push_post_same; assumption.
  - apply push_f_closed; assumption.
Qed.

(** fetch under ANY transport fault: the local store stays Closed, nothing is lost, and every ref that was
    created or moved points at a stored commit all of whose ancestors are stored.  In particular a session
    that does not reach "done" writes no ref (mode 1), and a retried one (mode 2) is an ordinary fetch from
    the partially filled store. *)
Definition fetch_post (g : cgraph) (local l' : repo) : Prop :=
  Closed g (o_commits (r_objs l')) /\
  incl (o_commits (r_objs local)) (o_commits (r_objs l')) /\
  incl (o_tables (r_objs local)) (o_tables (r_objs l')) /\
  forall n c, rget (r_refs l') n = Some c -> rget (r_refs local) n <> Some c ->
              In c (o_commits (r_objs l')) /\
              forall a, anc (to_graph g) a c -> In a (o_commits (r_objs l')).

Lemma fetch_post_fetch g local remote specs gforce depth k p tn :
  Closed g (o_commits (r_objs local)) ->
  fetch_post g local (snd (fetch g local remote specs gforce depth k p tn)).
Proof.
  intros HC. pose proof (fetch_closed g local remote specs gforce depth k p tn HC) as H.
  destruct (fetch g local remote specs gforce depth k p tn) as [out l']. exact H.
Qed.

Lemma fetch_post_same g local : Closed g (o_commits (r_objs local)) -> fetch_post g local local.
Proof. intros HC. unfold fetch_post. repeat split; auto using incl_refl; contradiction. Qed.

Theorem fetch_f_closed g local remote specs gforce depth k p tn f :
  Closed g (o_commits (r_objs local)) ->
  fetch_post g local (snd (fetch_f g local remote specs gforce depth k p tn f)).
Proof.
  intros HC. pose proof (fetch_post_fetch g local remote specs gforce depth k p tn HC) as N.
  unfold fetch_f. cbv zeta.
  destruct (f_mode f =? 0); [exact N|].
  destruct ((f_mode f =? 3) || (f_mode f =? 4)).
  { destruct (session_view _ _ _ _ _ _ _ _) as [[[wants has_json] packs]|]; [|exact N].
    destruct (f_mode f =? 4); [simpl; apply fetch_post_same; exact HC|].
    destruct packs as [|p1 packs]; [exact N|].
    destruct (receive g (r_objs local) wants (removelast p1)) as [[o' e']|] eqn:ER;
      [|simpl; apply fetch_post_same; exact HC].
    apply receive_inv in ER; [|exact HC]. destruct ER as (R1 & R2 & R3 & _).
    unfold fetch_post. simpl. repeat split; auto; contradiction. }
  destruct (f_phase f =? 1); [simpl; apply fetch_post_same; exact HC|].
  destruct (session_view _ _ _ _ _ _ _ _) as [[[wants has_json] packs]|]; [|exact N].
  match goal with |- context [match ?h with Some _ => _ | None => _ end] =>
    destruct h as [received|] end; [|exact N].
  destruct (receive_packs g (r_objs local) wants received) as [[[o' e'] n]|] eqn:ER;
    [|simpl; apply fetch_post_same; exact HC].
  destruct e' as [|x e']; [exact N|].
  apply receive_packs_inv in ER; [|exact HC]. destruct ER as (R1 & R2 & R3 & _).
  destruct (f_mode f =? 1); simpl.
  - unfold fetch_post. simpl. repeat split; auto; contradiction.
  - pose proof (fetch_post_fetch g (mk_repo o' (r_refs local)) remote specs gforce depth k p tn R1) as P.
    unfold fetch_post in P. cbn [r_objs r_refs] in P. destruct P as (P1 & P2 & P3 & P4).
    unfold fetch_post. split; [exact P1|].
    split; [eapply incl_tran; [exact R2|exact P2]|].
    split; [eapply incl_tran; [exact R3|exact P3]|]. exact P4.
Qed.

(* ------------------------------------------------------------ non-vacuity *)

(** history 0 <- 1 <- 2, 1 <- 3 <- 4 (tables 1,2,3,4,5), local has 0,1 with refs, remote everything *)
Definition ex_g : cgraph :=
  [(0, mk_ci [] 1 0); (1, mk_ci [0] 2 1); (2, mk_ci [1] 3 2); (3, mk_ci [1] 4 3); (4, mk_ci [2; 3] 5 4)].
Definition ex_main : name := s_heads ++ [109].
Definition ex_local : repo := mk_repo (mk_objs [0; 1] [1; 2]) (rset_log [] ex_main 1 ACT_SETUP).
Definition ex_remote : repo := mk_repo (mk_objs [0; 1; 2; 3; 4] [1; 2; 3; 4; 5]) (rset_log [] ex_main 4 ACT_SETUP).
Definition ex_spec : refspec := mk_spec false true s_heads (s_remotes ++ [111; 47]).

Example ex_closed : Closed ex_g (o_commits (r_objs ex_local)).
Proof.
  intros c Hc p Hp. simpl in Hc. destruct Hc as [<-|[<-|[]]]; simpl in Hp.
  - contradiction.
  - destruct Hp as [<-|[]]. simpl. auto.
Qed.

(** the fetch succeeds with k = 1 and one object per packfile, moves the tracking ref and stores 2,3,4 *)
Example ex_fetch :
  fetch ex_g ex_local ex_remote [ex_spec] false 0 1 1 true =
  (0, mk_repo (mk_objs [0; 1; 2; 3; 4] [1; 2; 3; 4; 5])
              (rset_log (r_refs ex_local) (s_remotes ++ [111; 47; 109]) 4 ACT_FETCH)).
Proof. vm_compute. reflexivity. Qed.

(** depth 1: only the tip's table comes *)
Example ex_fetch_depth :
  o_tables (r_objs (snd (fetch ex_g ex_local ex_remote [ex_spec] false 1 2 3 false))) = [1; 2; 5].
Proof. vm_compute. reflexivity. Qed.

(** the premise SrvDepth holds for the reference stream of this example *)
Definition ex_packs : list (list obj) := chunk 1 (plan ex_g (r_objs ex_remote) [4] [1] 1 []).
Example ex_srv_depth : SrvDepth ex_g (r_objs ex_local) [4] 1 ex_packs (length ex_packs).
Proof.
  unfold SrvDepth. intros w [<-|[]] c Hc Hn. vm_compute in Hc. destruct Hc as [<-|[]].
  right. vm_compute. auto 10.
Qed.

Example ex_not_shadowed : ~ Shadowed ex_g [2; 3] 1.
Proof.
  intros (w & w' & c & Hw & Hw' & Hne & _ & Hc & Ha & Hn).
  simpl in Hw, Hw'. destruct Hw as [<-|[<-|[]]]; destruct Hw' as [<-|[<-|[]]]; try congruence;
    vm_compute in Hc; destruct Hc as [<-|[]]; vm_compute in Ha;
    repeat (destruct Ha as [Ha|Ha]; [discriminate|]); destruct Ha.
Qed.

(* ------------------------------------ the two known findings, as theorems about the faithful pieces *)

(** chain 0 <- 1 <- 2 with tables 1,2,3; wants 2 and 1; depth 1 *)
Definition wo_g : cgraph := [(0, mk_ci [] 1 0); (1, mk_ci [0] 2 1); (2, mk_ci [1] 3 2)].

(** depth-rule-want-order: walking want 2 first, enqueueWants never selects the table of want 1 (a ref tip,
    distance 0 from its own ref); walking want 1 first it selects both *)
Theorem depth_want_order_refuted :
  tables_ord wo_g [] 1 [2; 1] = [3] /\ tables_ord wo_g [] 1 [1; 2] = [2; 3] /\
  In 1 (region wo_g 1 1) /\ Shadowed wo_g [2; 1] 1.
Proof.
  split; [vm_compute; reflexivity|]. split; [vm_compute; reflexivity|].
  split; [vm_compute; auto|].
  exists 1, 2, 1. repeat split; try (vm_compute; auto; fail); try discriminate.
  vm_compute. intros [H|[]]. discriminate.
Qed.

(** depth-rule-followed-tag: remote heads/c = 1 (parent 0), tags/t = 0; `fetch refs/heads/*:refs/remotes/o/*
    --depth 1` stores the tag t -> 0 (its commit arrived as an ancestor) although the table of 0 did not come *)
Definition ft_g : cgraph := [(0, mk_ci [] 1 0); (1, mk_ci [0] 2 1)].
Definition ft_tag : name := s_tags ++ [116].
Definition ft_remote : repo :=
  mk_repo (mk_objs [0; 1] [1; 2]) (rset_log (rset_log [] (s_heads ++ [99]) 1 ACT_SETUP) ft_tag 0 ACT_SETUP).
Definition ft_local : repo := mk_repo (mk_objs [] []) [].

Theorem depth_followed_tag_refuted :
  let '(out, l') := fetch ft_g ft_local ft_remote [ex_spec] false 1 256 2000 false in
  out = 0 /\ rget (r_refs l') ft_tag = Some 0 /\ In 0 (region ft_g 1 0) /\
  ~ In (ctbl ft_g 0) (o_tables (r_objs l')).
Proof.
  vm_compute. repeat split; auto. intros [H|[]]. discriminate.
Qed.
