(** Proofs for C04, part 1: order facts, the two scan loops, findOverlappingBlocks,
    sub-slices and getBlockIndices. *)
From W.lib Require Import Tree Bytes.
From W.model Require Import Diff DiffSpec.
From Coq Require Import Arith ZArith Lia ZifyNat ZifyBool Sorting.Sorted.

(** * order facts on keys *)
Lemma kcmp_lt_gt a b : kcmp a b = Lt -> kcmp b a = Gt.
Proof. intros H. rewrite kcmp_antisym, H. reflexivity. Qed.
Lemma kcmp_gt_lt a b : kcmp a b = Gt -> kcmp b a = Lt.
Proof. intros H. rewrite kcmp_antisym, H. reflexivity. Qed.
Lemma kcmp_le_lt_trans a b c : kcmp a b <> Gt -> kcmp b c = Lt -> kcmp a c = Lt.
Proof.
  intros H1 H2. destruct (kcmp a b) eqn:E; try congruence.
  - apply kcmp_eq in E. now subst.
  - eapply kcmp_lt_trans; eauto.
Qed.
Lemma kcmp_lt_le_trans a b c : kcmp a b = Lt -> kcmp b c <> Gt -> kcmp a c = Lt.
Proof.
  intros H1 H2. destruct (kcmp b c) eqn:E; try congruence.
  - apply kcmp_eq in E. now subst.
  - eapply kcmp_lt_trans; eauto.
Qed.
Lemma kcmp_lt_irrefl a : kcmp a a <> Lt.
Proof. rewrite kcmp_refl. discriminate. Qed.
Lemma keqb_eq a b : keqb a b = true <-> a = b.
Proof.
  unfold keqb. destruct (kcmp a b) eqn:E.
  - apply kcmp_eq in E. split; auto.
  - split; [discriminate|]. intros ->. rewrite kcmp_refl in E. discriminate.
  - split; [discriminate|]. intros ->. rewrite kcmp_refl in E. discriminate.
Qed.
Lemma keqb_refl a : keqb a a = true.
Proof. now apply keqb_eq. Qed.
Lemma keqb_sym a b : keqb a b = keqb b a.
Proof.
  destruct (keqb a b) eqn:E1, (keqb b a) eqn:E2; auto.
  - apply keqb_eq in E1. subst. rewrite keqb_refl in E2. discriminate.
  - apply keqb_eq in E2. subst. rewrite keqb_refl in E1. discriminate.
Qed.

(** index-based strict sortedness of a table index *)
Definition isorted (l : list key) : Prop :=
  forall p q, p < q -> q < length l -> kcmp (nth p l []) (nth q l []) = Lt.

Lemma isorted_le l p q : isorted l -> p <= q -> q < length l -> kcmp (nth p l []) (nth q l []) <> Gt.
Proof.
  intros S Hpq Hq. destruct (Nat.eq_dec p q) as [->|N].
  - rewrite kcmp_refl. discriminate.
  - rewrite S by lia. discriminate.
Qed.

(* B[p] < B[q] forces p < q *)
Lemma isorted_lt_inv l p q :
  isorted l -> p < length l -> q < length l -> kcmp (nth p l []) (nth q l []) = Lt -> p < q.
Proof.
  intros S Hp Hq H. destruct (le_lt_dec q p) as [L|L]; [|exact L].
  exfalso. pose proof (isorted_le l q p S L Hp) as H1.
  apply kcmp_lt_gt in H. congruence.
Qed.

(** * skipn / nth *)
Lemma nth_skipn_add {A} (l : list A) j m d : nth m (skipn j l) d = nth (j + m) l d.
Proof.
  revert l; induction j as [|j IH]; intros l; cbn; [reflexivity|].
  destruct l as [|x l]; cbn; [destruct m; reflexivity|apply IH].
Qed.
Lemma length_skipn_sub {A} (l : list A) j : length (skipn j l) = length l - j.
Proof. apply skipn_length. Qed.

(** * the scan loops *)
Lemma scan_start_spec_l l s j :
  match scan_start l s j with
  | None => forall m, m < length l -> kcmp (nth m l []) s = Lt
  | Some r => exists m, m < length l /\ (forall m', m' < m -> kcmp (nth m' l []) s = Lt) /\
                ((kcmp (nth m l []) s = Eq /\ r = j + m) \/
                 (kcmp (nth m l []) s = Gt /\ r = if (j + m =? 0) then j + m else j + m - 1))
  end.
Proof.
  revert j; induction l as [|b l IH]; intros j; cbn [scan_start].
  - intros m Hm. cbn in Hm. lia.
  - destruct (kcmp b s) eqn:E.
    + exists 0. cbn. split; [lia|]. split; [intros; lia|]. left. split; [auto|lia].
    + specialize (IH (S j)). destruct (scan_start l s (S j)) as [r|].
      * destruct IH as (m & Hm & Hlt & Hr). exists (S m). cbn [length nth]. split; [lia|]. split.
        -- intros [|m'] Hm'; cbn; auto. apply Hlt. lia.
        -- replace (j + S m) with (S j + m) by lia. exact Hr.
      * intros [|m] Hm; cbn; auto. apply IH. cbn in Hm. lia.
    + exists 0. cbn. split; [lia|]. split; [intros; lia|]. right. split; auto.
      rewrite Nat.add_0_r. reflexivity.
Qed.

Lemma scan_start_spec B s j0 : j0 <= length B ->
  match scan_start (skipn j0 B) s j0 with
  | None => forall j, j0 <= j < length B -> kcmp (nth j B []) s = Lt
  | Some r => exists j, j0 <= j < length B /\
                (forall j', j0 <= j' < j -> kcmp (nth j' B []) s = Lt) /\
                ((kcmp (nth j B []) s = Eq /\ r = j) \/
                 (kcmp (nth j B []) s = Gt /\ r = if (j =? 0) then j else j - 1))
  end.
Proof.
  intros Hj0. pose proof (scan_start_spec_l (skipn j0 B) s j0) as H.
  destruct (scan_start (skipn j0 B) s j0) as [r|].
  - destruct H as (m & Hm & Hlt & Hr). rewrite length_skipn_sub in Hm.
    exists (j0 + m). split; [lia|]. split.
    + intros j' Hj'. specialize (Hlt (j' - j0) ltac:(lia)).
      rewrite nth_skipn_add in Hlt. replace (j0 + (j' - j0)) with j' in Hlt by lia. exact Hlt.
    + rewrite nth_skipn_add in Hr. exact Hr.
  - intros j Hj. specialize (H (j - j0)). rewrite length_skipn_sub, nth_skipn_add in H.
    replace (j0 + (j - j0)) with j in H by lia. apply H. lia.
Qed.

Lemma scan_end_spec_l l s j :
  match scan_end l s j with
  | None => forall m, m < length l -> kcmp (nth m l []) s = Lt
  | Some r => exists m, m < length l /\ (forall m', m' < m -> kcmp (nth m' l []) s = Lt) /\
                kcmp (nth m l []) s <> Lt /\ r = j + m
  end.
Proof.
  revert j; induction l as [|b l IH]; intros j; cbn [scan_end].
  - intros m Hm. cbn in Hm. lia.
  - destruct (kcmp b s) eqn:E.
    + exists 0. cbn. split; [lia|]. split; [intros; lia|]. rewrite E. split; [discriminate|lia].
    + specialize (IH (S j)). destruct (scan_end l s (S j)) as [r|].
      * destruct IH as (m & Hm & Hlt & Hn & Hr). exists (S m). cbn [length nth]. split; [lia|]. split.
        -- intros [|m'] Hm'; cbn; auto. apply Hlt. lia.
        -- split; [exact Hn|lia].
      * intros [|m] Hm; cbn; auto. apply IH. cbn in Hm. lia.
    + exists 0. cbn. split; [lia|]. split; [intros; lia|]. rewrite E. split; [discriminate|lia].
Qed.

Lemma scan_end_spec B s j0 : j0 <= length B ->
  match scan_end (skipn j0 B) s j0 with
  | None => forall j, j0 <= j < length B -> kcmp (nth j B []) s = Lt
  | Some r => j0 <= r < length B /\
                (forall j', j0 <= j' < r -> kcmp (nth j' B []) s = Lt) /\
                kcmp (nth r B []) s <> Lt
  end.
Proof.
  intros Hj0. pose proof (scan_end_spec_l (skipn j0 B) s j0) as H.
  destruct (scan_end (skipn j0 B) s j0) as [r|].
  - destruct H as (m & Hm & Hlt & Hn & ->). rewrite length_skipn_sub in Hm.
    split; [lia|]. split.
    + intros j' Hj'. specialize (Hlt (j' - j0) ltac:(lia)).
      rewrite nth_skipn_add in Hlt. replace (j0 + (j' - j0)) with j' in Hlt by lia. exact Hlt.
    + rewrite nth_skipn_add in Hn. exact Hn.
  - intros j Hj. specialize (H (j - j0)). rewrite length_skipn_sub, nth_skipn_add in H.
    replace (j0 + (j - j0)) with j in H by lia. apply H. lia.
Qed.

(** * findOverlappingBlocks: the prevEnd invariant (DESIGN 10a) *)
Definition pe_inv (A B : list key) (i pe : nat) : Prop :=
  pe = 0 \/ kcmp (nth (pe - 1) B []) (nth i A []) = Lt.

Record window_ok (A B : list key) (i pe s e : nat) : Prop := {
  w_s_lt : s < length B;
  w_s_le_e : s <= e;
  w_e_le : e <= length B;
  w_pe : pe - 1 <= s;
  w_nonempty : s < e \/ e = 0;
  w_start : s = 0 \/ kcmp (nth s B []) (nth i A []) <> Gt;
  w_end : e = length B \/ (S i < length A /\ kcmp (nth e B []) (nth (S i) A []) <> Lt);
  w_next : S i < length A -> pe_inv A B (S i) e }.

Lemma find_overlapping_spec g A B i pe :
  isorted A -> isorted B -> 0 < length B -> i < length A -> pe <= length B -> pe_inv A B i pe ->
  exists s e, find_overlapping_g g A B i pe = (Z.of_nat s, Z.of_nat e) /\ window_ok A B i pe s e.
Proof.
  intros SA SB Hn Hi Hpe Inv. unfold find_overlapping_g.
  replace (length B =? 0) with false by (symmetry; apply Nat.eqb_neq; lia).
  rewrite Bool.andb_false_r.
  set (pe' := if pe =? 0 then 1 else pe).
  assert (Hpe' : pe' - 1 = pe - 1 /\ 1 <= pe' <= length B).
  { unfold pe'. destruct (Nat.eqb_spec pe 0); lia. }
  destruct Hpe' as (Ej0 & Hpe'). rewrite Ej0. set (j0 := pe - 1) in *.
  assert (Hj0 : j0 <= length B) by lia.
  pose proof (scan_start_spec B (nth i A []) j0 Hj0) as HS.
  destruct (scan_start (skipn j0 B) (nth i A []) j0) as [s|].
  - destruct HS as (j & Hj & Hlt & Hr).
    (* facts about start *)
    assert (Hs : s < length B /\ j0 <= s /\ s <= j /\
                 (s = 0 \/ kcmp (nth s B []) (nth i A []) <> Gt)).
    { destruct Hr as [(E & ->)|(E & ->)].
      - repeat split; try lia. right. rewrite E. discriminate.
      - destruct (Nat.eqb_spec j 0) as [->|Nz].
        + repeat split; try lia; now left.
        + destruct (Nat.eq_dec j j0) as [->|Nj].
          * (* Gt at the first scanned index > 0 contradicts the invariant *)
            exfalso. destruct Inv as [->|Inv]; [unfold j0 in Nz; lia|].
            fold j0 in Inv. congruence.
          * repeat split; try lia. right. rewrite (Hlt (j - 1)) by lia. discriminate. }
    destruct Hs as (Hs1 & Hs2 & Hs3 & Hs4).
    destruct (Nat.ltb_spec i (length A - 1)) as [Hlast|Hlast].
    + (* not the last block: end scan *)
      pose proof (scan_end_spec B (nth (S i) A []) s ltac:(lia)) as HE.
      destruct (scan_end (skipn s B) (nth (S i) A []) s) as [e|].
      * destruct HE as (He & Hlt2 & Hge).
        assert (Hse : s < e \/ e = 0).
        { destruct (Nat.eq_dec e s) as [->|Ne]; [|left; lia].
          right. destruct Hs4 as [->|Hs4]; [reflexivity|].
          exfalso. apply Hge. eapply kcmp_le_lt_trans; [exact Hs4|]. apply SA; lia. }
        exists s, e. split; [reflexivity|]. constructor; try lia; auto.
        -- right. split; [lia|exact Hge].
        -- intros _. destruct (Nat.eq_dec e 0) as [->|Nz]; [now left|].
           right. apply Hlt2. lia.
      * exists s, (length B). split; [reflexivity|]. constructor; try lia; auto.
        intros _. right. apply HE. lia.
    + exists s, (length B). split; [reflexivity|]. constructor; try lia; auto.
  - (* start = -1: every scanned first key is below A[i] *)
    exists (length B - 1), (length B). split; [f_equal; lia|].
    constructor; try lia; auto.
    + right. rewrite HS by lia. discriminate.
    + intros Hi'. right. replace (length B - 1) with (length B - 1) by lia.
      eapply kcmp_lt_trans; [apply HS; lia|]. apply SA; lia.
Qed.

Lemma find_overlapping_empty A i pe : find_overlapping_g true A [] i pe = (0%Z, 0%Z).
Proof. reflexivity. Qed.

(** * sub-slices *)
Definition sub {A} (a b : nat) (l : list A) : list A := firstn (b - a) (skipn a l).

Lemma skipn_skipn_add {A} (l : list A) a b : skipn a (skipn b l) = skipn (b + a) l.
Proof.
  revert l; induction b as [|b IH]; intros l; cbn; [reflexivity|].
  destruct l as [|x l]; [now rewrite skipn_nil|apply IH].
Qed.

Lemma sub_length {A} (l : list A) a b : a <= b -> b <= length l -> length (sub a b l) = b - a.
Proof. intros H1 H2. unfold sub. rewrite firstn_length, skipn_length. lia. Qed.

Lemma sub_nil {A} (l : list A) a : sub a a l = [].
Proof. unfold sub. now rewrite Nat.sub_diag. Qed.

Lemma sub_cons {A} (l : list A) a b d : a < b -> b <= length l ->
  sub a b l = nth a l d :: sub (S a) b l.
Proof.
  intros H1 H2. unfold sub. revert l H2; induction a as [|a IH] in b, H1 |- *; intros l H2.
  - destruct l as [|x l]; [cbn in H2; lia|]. cbn [skipn nth].
    destruct b as [|b]; [lia|]. cbn. now rewrite Nat.sub_0_r.
  - destruct l as [|x l]; [cbn in H2; lia|]. cbn [skipn nth].
    destruct b as [|b]; [lia|]. cbn in H2.
    specialize (IH b ltac:(lia) l ltac:(lia)).
    replace (S b - S a) with (b - a) by lia. replace (S b - S (S a)) with (b - S a) by lia.
    exact IH.
Qed.

Lemma sub_app {A} (l : list A) a c b : a <= c -> c <= b ->
  sub a c l ++ sub c b l = sub a b l.
Proof.
  intros H1 H2. unfold sub.
  replace (b - a) with ((c - a) + (b - c)) by lia.
  rewrite <- (firstn_skipn (c - a) (firstn (c - a + (b - c)) (skipn a l))).
  f_equal.
  - rewrite firstn_firstn. f_equal. lia.
  - rewrite skipn_firstn_comm. replace (c - a + (b - c) - (c - a)) with (b - c) by lia.
    rewrite skipn_skipn_add. f_equal. f_equal. lia.
Qed.

Lemma skipn_sub {A} (l : list A) a c b : a <= c -> skipn (c - a) (sub a b l) = sub c b l.
Proof.
  intros H. unfold sub. rewrite skipn_firstn_comm, skipn_skipn_add.
  f_equal; [lia|f_equal; lia].
Qed.

Lemma split3 {A} (l : list A) s e : s <= e ->
  l = firstn s l ++ sub s e l ++ skipn e l.
Proof.
  intros H. rewrite <- (firstn_skipn s l) at 1. f_equal.
  unfold sub. rewrite <- (firstn_skipn (e - s) (skipn s l)) at 1. f_equal.
  rewrite skipn_skipn_add. f_equal. lia.
Qed.

(** * getBlockIndices *)
Lemma set_nth_app {A} (pre : list A) x y rest :
  set_nth (length pre) x (pre ++ y :: rest) = pre ++ x :: rest.
Proof. induction pre as [|z pre IH]; cbn; [reflexivity|]. now rewrite IH. Qed.

Lemma load_loop_ok bl2 slStart : forall cnt j (pre : slice),
  slStart <= j -> length pre = j - slStart -> j + cnt <= length bl2 ->
  load_loop bl2 (Z.of_nat slStart) (Z.of_nat j) cnt (pre ++ repeat None cnt)
  = Ok (pre ++ map Some (sub j (j + cnt) bl2)).
Proof.
  induction cnt as [|cnt IH]; intros j pre H1 H2 H3.
  - cbn [load_loop repeat]. rewrite Nat.add_0_r, sub_nil. reflexivity.
  - cbn [load_loop].
    replace ((Z.of_nat j <? 0)%Z || (Z.of_nat (length bl2) <=? Z.of_nat j)%Z) with false by lia.
    replace ((Z.of_nat j - Z.of_nat slStart <? 0)%Z
             || (Z.of_nat (length (pre ++ repeat None (S cnt))) <=? Z.of_nat j - Z.of_nat slStart)%Z)
      with false.
    2:{ rewrite app_length, repeat_length. lia. }
    replace (Z.to_nat (Z.of_nat j - Z.of_nat slStart)) with (length pre) by lia.
    rewrite Nat2Z.id. cbn [repeat]. rewrite set_nth_app.
    replace (Z.of_nat j + 1)%Z with (Z.of_nat (S j)) by lia.
    change (pre ++ Some (nth j bl2 []) :: repeat None cnt)
      with (pre ++ [Some (nth j bl2 [])] ++ repeat None cnt).
    rewrite app_assoc. rewrite IH.
    + rewrite <- app_assoc. do 2 f_equal. cbn [app].
      rewrite (sub_cons bl2 j (j + S cnt) []) by lia. cbn [map].
      do 2 f_equal. f_equal. lia.
    + lia.
    + rewrite app_length. cbn [length]. lia.
    + lia.
Qed.

Lemma get_block_indices_ok bl2 s e ps pe :
  s <= e -> e <= length bl2 -> (s < e \/ e = 0) ->
  ps <= pe -> pe <= length bl2 -> (ps < pe \/ pe = 0) -> pe - 1 <= s ->
  get_block_indices bl2 (Z.of_nat s) (Z.of_nat e) (map Some (sub ps pe bl2))
                    (Z.of_nat ps) (Z.of_nat pe)
  = Ok (map Some (sub s e bl2)).
Proof.
  intros H1 H2 H3 H4 H5 H6 H7. unfold get_block_indices.
  destruct (Nat.eq_dec s e) as [->|Nse].
  - replace ((Z.of_nat (length bl2) <=? Z.of_nat e)%Z || (Z.of_nat e =? Z.of_nat e)%Z) with true by lia.
    now rewrite sub_nil.
  - replace ((Z.of_nat (length bl2) <=? Z.of_nat s)%Z || (Z.of_nat s =? Z.of_nat e)%Z) with false by lia.
    replace (Z.of_nat e - Z.of_nat s <? 0)%Z with false by lia.
    replace (Z.to_nat (Z.of_nat e - Z.of_nat s)) with (e - s) by lia.
    destruct (Z.ltb_spec (Z.of_nat s) (Z.of_nat pe)) as [L|L].
    + (* reuse the tail of the previous window *)
      rewrite map_length, sub_length by lia.
      replace ((Z.of_nat s - Z.of_nat ps <? 0)%Z || (Z.of_nat (pe - ps) <? Z.of_nat s - Z.of_nat ps)%Z)
        with false by lia.
      replace (Z.to_nat (Z.of_nat s - Z.of_nat ps)) with (s - ps) by lia.
      rewrite skipn_map, skipn_sub by lia.
      unfold copy_into. rewrite repeat_length, map_length, sub_length by lia.
      rewrite firstn_all2 by (rewrite map_length, sub_length; lia).
      replace (skipn (pe - s) (repeat (@None block) (e - s))) with (repeat (@None block) (e - pe)).
      2:{ replace (e - s) with ((pe - s) + (e - pe)) by lia. rewrite repeat_app.
          rewrite skipn_app, repeat_length, Nat.sub_diag. cbn [skipn].
          rewrite skipn_all2 by (rewrite repeat_length; lia). reflexivity. }
      replace (Z.to_nat (Z.of_nat e - Z.of_nat pe)) with (e - pe) by lia.
      rewrite load_loop_ok.
      * rewrite <- map_app. replace (pe + (e - pe)) with e by lia. now rewrite sub_app by lia.
      * lia.
      * rewrite map_length, sub_length; lia.
      * lia.
    + change (repeat None (e - s)) with ([] ++ repeat (@None block) (e - s)).
      rewrite load_loop_ok; try (cbn; lia).
      cbn [app]. do 3 f_equal. lia.
Qed.
