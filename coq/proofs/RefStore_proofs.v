(** C15 - lemmas about the abstract ref-store specification (model/RefStore.v):
    finite maps as strictly sorted association lists, the specification's
    invariant, frame / log / carry facts, and the agreement between the
    declarative bulk operations and the refs.go programs run on the
    specification's own primitives. *)
From W.lib Require Import Tree Bytes.
From W.model Require Import RefStore.
From Coq Require Import Lia Arith.
Local Open Scope N_scope.

(** * keys *)
Lemma beqb_true : forall a b, beqb a b = true <-> a = b.
Proof.
  intros a b. unfold beqb. destruct (bcmp a b) eqn:E; split; intros H; try discriminate; try reflexivity.
  - now apply bcmp_eq.
  - apply bcmp_eq in H. congruence.
  - apply bcmp_eq in H. congruence.
Qed.
Lemma beqb_refl : forall a, beqb a a = true.
Proof. intros a. now apply beqb_true. Qed.
Lemma beqb_false : forall a b, beqb a b = false <-> a <> b.
Proof.
  intros a b. split.
  - intros H E. apply beqb_true in E. congruence.
  - intros H. destruct (beqb a b) eqn:E; [|reflexivity]. apply beqb_true in E. contradiction.
Qed.
Lemma beqb_sym : forall a b, beqb a b = beqb b a.
Proof.
  intros a b. destruct (beqb a b) eqn:E.
  - apply beqb_true in E. subst. now rewrite beqb_refl.
  - symmetry. apply beqb_false. apply beqb_false in E. congruence.
Qed.
Lemma bcmp_gt_lt : forall a b, bcmp a b = Gt -> bcmp b a = Lt.
Proof. intros a b H. rewrite bcmp_antisym, H. reflexivity. Qed.
Lemma bcmp_lt_neq : forall a b, bcmp a b = Lt -> beqb b a = false.
Proof.
  intros a b H. apply beqb_false. intros ->. rewrite bcmp_refl in H. discriminate.
Qed.

(** * strictly sorted association lists *)
Section SMapFacts.
  Context {A : Type}.
  Implicit Types m : list (name * A).

  Definition lb (k : name) m : Prop := Forall (fun kv => bcmp k (fst kv) = Lt) m.
  Fixpoint ssorted m : Prop :=
    match m with
    | [] => True
    | kv :: m' => lb (fst kv) m' /\ ssorted m'
    end.

  Lemma lb_get_none : forall k m, lb k m -> m_get k m = None.
  Proof.
    intros k m H. induction H as [|[k' v] m Hk _ IH]; [reflexivity|].
    cbn in *. unfold beqb. rewrite Hk. exact IH.
  Qed.

  Lemma lb_trans : forall k k' m, bcmp k k' = Lt -> lb k' m -> lb k m.
  Proof.
    intros k k' m Hk H. induction H as [|kv m Hkv _ IH]; constructor; [|exact IH].
    eapply bcmp_lt_trans; eauto.
  Qed.

  Lemma m_get_set_same : forall k (v : A) m, m_get k (m_set k v m) = Some v.
  Proof.
    intros k v m. induction m as [|[k' v'] m IH]; cbn.
    - now rewrite beqb_refl.
    - destruct (bcmp k k') eqn:E; cbn; rewrite ?beqb_refl; try reflexivity.
      unfold beqb at 1. rewrite E. exact IH.
  Qed.

  Lemma m_get_set_other : forall k k' (v : A) m, k <> k' -> m_get k' (m_set k v m) = m_get k' m.
  Proof.
    intros k k' v m Hne. assert (Hb : beqb k' k = false) by (apply beqb_false; congruence).
    induction m as [|[k0 v0] m IH]; cbn.
    - now rewrite Hb.
    - destruct (bcmp k k0) eqn:E; cbn; rewrite ?Hb; try reflexivity.
      + apply bcmp_eq in E. subst k0. now rewrite Hb.
      + now rewrite IH.
  Qed.

  Lemma m_get_set : forall k k' (v : A) m,
    m_get k' (m_set k v m) = if beqb k k' then Some v else m_get k' m.
  Proof.
    intros k k' v m. destruct (beqb k k') eqn:E.
    - apply beqb_true in E. subst. apply m_get_set_same.
    - apply beqb_false in E. now apply m_get_set_other.
  Qed.

  Lemma lb_set : forall k0 k (v : A) m, bcmp k0 k = Lt -> lb k0 m -> lb k0 (m_set k v m).
  Proof.
    intros k0 k v m Hk H. induction H as [|[k' v'] m Hk' Hm IH]; cbn.
    - constructor; [exact Hk|constructor].
    - destruct (bcmp k k').
      + constructor; [exact Hk|exact Hm].
      + constructor; [exact Hk|]. constructor; [exact Hk'|exact Hm].
      + constructor; [exact Hk'|exact IH].
  Qed.

  Lemma m_set_sorted : forall k (v : A) m, ssorted m -> ssorted (m_set k v m).
  Proof.
    intros k v m. induction m as [|[k' v'] m IH]; cbn; intros H.
    - split; [constructor|exact I].
    - destruct H as [Hlb Hs]. destruct (bcmp k k') eqn:E; cbn.
      + apply bcmp_eq in E. subst k'. split; assumption.
      + split; [|split; assumption]. constructor; [exact E|]. eapply lb_trans; eauto.
      + split; [|auto]. apply lb_set; [now apply bcmp_gt_lt|exact Hlb].
  Qed.

  Lemma lb_filter : forall k f m, lb k m -> lb k (filter f m).
  Proof.
    intros k f m H. induction H as [|kv m Hk _ IH]; cbn; [constructor|].
    destruct (f kv); [constructor; assumption|assumption].
  Qed.

  Lemma filter_sorted : forall f m, ssorted m -> ssorted (filter f m).
  Proof.
    intros f m. induction m as [|kv m IH]; cbn; intros H; [exact I|].
    destruct H as [Hlb Hs]. destruct (f kv); cbn; [split|]; auto using lb_filter.
  Qed.

  Lemma m_get_filter : forall (P : name -> bool) k m,
    m_get k (filter (fun kv => P (fst kv)) m) = if P k then m_get k m else None.
  Proof.
    intros P k m. induction m as [|[k' v] m IH]; cbn.
    - now destruct (P k).
    - destruct (P k') eqn:EP; cbn.
      + destruct (beqb k k') eqn:E.
        * apply beqb_true in E. subst. now rewrite EP.
        * exact IH.
      + destruct (beqb k k') eqn:E.
        * apply beqb_true in E. subst. rewrite EP in *. exact IH.
        * exact IH.
  Qed.

  Lemma m_get_del : forall k k' m, m_get k' (m_del k m) = if beqb k k' then None else m_get k' m.
  Proof.
    intros k k' m. unfold m_del.
    rewrite (m_get_filter (fun x => negb (beqb k x))). now destruct (beqb k k').
  Qed.

  Lemma m_del_sorted : forall k m, ssorted m -> ssorted (m_del k m).
  Proof. intros. now apply filter_sorted. Qed.

  (** two strictly sorted lists with the same lookups are the same list *)
  Lemma sorted_ext : forall m1 m2, ssorted m1 -> ssorted m2 ->
    (forall k, m_get k m1 = m_get k m2) -> m1 = m2.
  Proof.
    induction m1 as [|[k1 v1] m1 IH]; intros [|[k2 v2] m2] H1 H2 Hg.
    - reflexivity.
    - specialize (Hg k2). cbn in Hg. rewrite beqb_refl in Hg. discriminate.
    - specialize (Hg k1). cbn in Hg. rewrite beqb_refl in Hg. discriminate.
    - destruct H1 as [L1 S1]. destruct H2 as [L2 S2]. cbn [fst] in *.
      destruct (bcmp k1 k2) eqn:E.
      + apply bcmp_eq in E. subst k2.
        pose proof (Hg k1) as G. cbn in G. rewrite beqb_refl in G. injection G as ->.
        f_equal. apply IH; auto. intros k.
        destruct (beqb k k1) eqn:Ek.
        * apply beqb_true in Ek. subst k. now rewrite !lb_get_none.
        * specialize (Hg k). cbn in Hg. now rewrite Ek in Hg.
      + exfalso. specialize (Hg k1). cbn in Hg. rewrite beqb_refl in Hg.
        unfold beqb in Hg. rewrite E in Hg.
        rewrite (lb_get_none k1 m2) in Hg; [discriminate|]. eapply lb_trans; eauto.
      + exfalso. apply bcmp_gt_lt in E. specialize (Hg k2). cbn in Hg. rewrite beqb_refl in Hg.
        unfold beqb in Hg. rewrite E in Hg.
        rewrite (lb_get_none k2 m1) in Hg; [discriminate|]. eapply lb_trans; eauto.
  Qed.

  Lemma m_get_in : forall k (v : A) m, m_get k m = Some v -> In (k, v) m.
  Proof.
    intros k v m. induction m as [|[k' v'] m IH]; cbn; [discriminate|].
    destruct (beqb k k') eqn:E.
    - apply beqb_true in E. subst. intros [= ->]. now left.
    - intros H. right. auto.
  Qed.

  Lemma in_m_get : forall k (v : A) m, ssorted m -> In (k, v) m -> m_get k m = Some v.
  Proof.
    intros k v m. induction m as [|[k' v'] m IH]; cbn; [contradiction|].
    intros [Hlb Hs] [[= -> ->]|Hin].
    - now rewrite beqb_refl.
    - assert (beqb k k' = false) as ->; [|auto].
      unfold lb in Hlb. rewrite Forall_forall in Hlb. specialize (Hlb _ Hin). cbn in Hlb.
      now apply bcmp_lt_neq.
  Qed.

  (** appending a key above all others *)
  Lemma m_set_append : forall k (v : A) m, ssorted (m ++ [(k, v)]) -> m_set k v m = m ++ [(k, v)].
  Proof.
    intros k v m. induction m as [|[k' v'] m IH]; cbn; intros H; [reflexivity|].
    destruct H as [Hlb Hs].
    assert (Hk : bcmp k' k = Lt).
    { unfold lb in Hlb. rewrite Forall_forall in Hlb. apply (Hlb (k, v)). apply in_or_app. right. now left. }
    rewrite bcmp_antisym, Hk. cbn. f_equal. auto.
  Qed.
End SMapFacts.

(** * prefixes *)
Lemma is_prefix_app : forall p x, is_prefix p (p ++ x) = true.
Proof. induction p as [|c p IH]; intros x; cbn; [reflexivity|]. now rewrite N.eqb_refl, IH. Qed.

Lemma is_prefix_split : forall p k, is_prefix p k = true -> k = p ++ skipn (length p) k.
Proof.
  induction p as [|c p IH]; intros k H; [reflexivity|].
  destruct k as [|d k]; [discriminate|]. cbn in H. apply andb_prop in H. destruct H as [Hc Hp].
  apply N.eqb_eq in Hc. subst d. cbn. f_equal. auto.
Qed.

Lemma is_prefix_length : forall p k, is_prefix p k = true -> (length p <= length k)%nat.
Proof.
  intros p k H. pose proof (is_prefix_split p k H) as E.
  apply (f_equal (@length N)) in E. rewrite app_length in E. lia.
Qed.

Lemma bcmp_app_l : forall p x y, bcmp (p ++ x) (p ++ y) = bcmp x y.
Proof. induction p as [|c p IH]; intros x y; cbn; [reflexivity|]. now rewrite N.compare_refl. Qed.

Lemma existsb_single : forall {B} (f : B -> bool) x, existsb f [x] = f x.
Proof. intros. cbn. apply orb_false_r. Qed.

Lemma sel_single : forall p k, sel [p] [] k = is_prefix p k.
Proof. intros p k. unfold sel. cbn. now rewrite orb_false_r, andb_true_r. Qed.

(** * the specification's invariant *)
Definition Sinv (a : sstate) : Prop :=
  ssorted (refs a) /\ forall k, m_get k (refs a) = None -> logs a k = [].

(* same map, pointwise the same logs (logs are functions: no extensionality axiom is used) *)
Definition seqv (a1 a2 : sstate) : Prop :=
  refs a1 = refs a2 /\ forall k, logs a1 k = logs a2 k.

Lemma seqv_refl : forall a, seqv a a.
Proof. now split. Qed.

Lemma fupd_eq : forall {B} (f : name -> B) k b k', fupd f k b k' = if beqb k k' then b else f k'.
Proof. reflexivity. Qed.

Ltac bq :=
  repeat match goal with
  | H : beqb ?x ?y = true |- _ => apply beqb_true in H; try subst
  | H : beqb ?x ?y = false |- _ => apply beqb_false in H
  | H : (_ || _)%bool = false |- _ => apply orb_false_elim in H; destruct H
  | H : (_ && _)%bool = true |- _ => apply andb_prop in H; destruct H
  end.

Ltac case_beqb :=
  repeat match goal with
  | |- context [beqb ?x ?y] => let E := fresh "E" in destruct (beqb x y) eqn:E
  end.

Lemma Sinv_init : Sinv sinit.
Proof. split; [exact I|reflexivity]. Qed.

Lemma sstep_inv : forall a p, Sinv a -> Sinv (fst (sstep a p)).
Proof.
  intros a p [Hs Hd]. destruct p; cbn [sstep fst]; try (split; assumption).
  - (* set *) split; cbn; [now apply m_set_sorted|]. intros k0. rewrite m_get_set.
    destruct (beqb k k0); [discriminate|auto].
  - (* setlog *) split; cbn; [now apply m_set_sorted|]. intros k0. rewrite m_get_set, fupd_eq.
    destruct (beqb k k0); [discriminate|auto].
  - (* delete *) split; cbn; [now apply m_del_sorted|]. intros k0. rewrite m_get_del, fupd_eq.
    destruct (beqb k k0); auto.
  - (* rename *) destruct (m_get a0 (refs a)) eqn:Ea; [|split; assumption].
    destruct (m_get b (refs a)) eqn:Eb; [split; assumption|].
    split; cbn; [apply m_del_sorted, m_set_sorted, Hs|]. intros k0.
    rewrite m_get_del, m_get_set, !fupd_eq.
    destruct (beqb a0 k0); [reflexivity|]. destruct (beqb b k0); [discriminate|auto].
  - (* copy *) destruct (m_get a0 (refs a)) eqn:Ea; [|split; assumption].
    destruct (m_get b (refs a)) eqn:Eb; [split; assumption|].
    split; cbn; [apply m_set_sorted, Hs|]. intros k0.
    rewrite m_get_set, !fupd_eq. destruct (beqb b k0); [discriminate|auto].
Qed.

(** * frame for the primitives *)
Lemma sstep_frame : forall a p k, touches (OP p) k = false ->
  m_get k (refs (fst (sstep a p))) = m_get k (refs a) /\ logs (fst (sstep a p)) k = logs a k.
Proof.
  intros a p k Ht. destruct p; cbn [touches] in Ht; cbn [sstep].
  - cbn. rewrite m_get_set, Ht. now split.
  - cbn. rewrite m_get_set, fupd_eq, Ht. now split.
  - now destruct (m_get k0 (refs a)).
  - cbn. rewrite m_get_del, fupd_eq, Ht. now split.
  - now split.
  - now split.
  - apply orb_false_elim in Ht. destruct Ht as [Ha Hb].
    destruct (m_get a0 (refs a)); [|now split]. destruct (m_get b (refs a)); [now split|].
    cbn. rewrite m_get_del, m_get_set, !fupd_eq, Ha, Hb. now split.
  - destruct (m_get a0 (refs a)); [|now split]. destruct (m_get b (refs a)); [now split|].
    cbn. rewrite m_get_set, !fupd_eq, Ht. now split.
  - now destruct (logs a k0).
Qed.

(** a failing primitive leaves the specification state unchanged *)
Lemma sstep_rename_cases : forall a x y,
  (exists v, m_get x (refs a) = Some v /\ m_get y (refs a) = None /\
     sstep a (PRename x y) =
       (mk_sstate (m_del x (m_set y v (refs a))) (fupd (fupd (logs a) y (logs a x)) x []), ROk)) \/
  ((m_get x (refs a) = None \/ m_get y (refs a) <> None) /\ sstep a (PRename x y) = (a, RErr)).
Proof.
  intros a x y. cbn [sstep]. destruct (m_get x (refs a)) as [v|] eqn:Ex.
  - destruct (m_get y (refs a)) eqn:Ey.
    + right. split; [right; discriminate|reflexivity].
    + left. exists v. auto.
  - right. split; [now left|reflexivity].
Qed.

Lemma sstep_copy_cases : forall a x y,
  (exists v, m_get x (refs a) = Some v /\ m_get y (refs a) = None /\
     sstep a (PCopy x y) = (mk_sstate (m_set y v (refs a)) (fupd (logs a) y (logs a x)), ROk)) \/
  ((m_get x (refs a) = None \/ m_get y (refs a) <> None) /\ sstep a (PCopy x y) = (a, RErr)).
Proof.
  intros a x y. cbn [sstep]. destruct (m_get x (refs a)) as [v|] eqn:Ex.
  - destruct (m_get y (refs a)) eqn:Ey.
    + right. split; [right; discriminate|reflexivity].
    + left. exists v. auto.
  - right. split; [now left|reflexivity].
Qed.

(** * the bulk rename loop *)
Lemma s_rename_each_step : forall n np k ks a,
  s_rename_each n np (k :: ks) a =
  match sstep a (PRename k (np ++ skipn n k)) with
  | (s', ROk) => s_rename_each n np ks s'
  | (s', _) => (s', RErr)
  end.
Proof. reflexivity. Qed.

Lemma s_rename_each_inv : forall n np ks a, Sinv a -> Sinv (fst (s_rename_each n np ks a)).
Proof.
  intros n np ks. induction ks as [|k ks IH]; intros a Ha; [exact Ha|].
  rewrite s_rename_each_step.
  pose proof (sstep_inv a (PRename k (np ++ skipn n k)) Ha) as Hi.
  destruct (sstep a (PRename k (np ++ skipn n k))) as [s' r]. cbn [fst] in Hi.
  destruct r; auto.
Qed.

Lemma s_rename_each_frame : forall n op np k ks a,
  Forall (fun k0 => is_prefix op k0 = true) ks ->
  is_prefix op k = false -> is_prefix np k = false ->
  m_get k (refs (fst (s_rename_each n np ks a))) = m_get k (refs a) /\
  logs (fst (s_rename_each n np ks a)) k = logs a k.
Proof.
  intros n op np k ks. induction ks as [|k0 ks IH]; intros a Hks Ho Hn; [now split|].
  inversion Hks as [|? ? Hk0 Hks']; subst.
  rewrite s_rename_each_step.
  assert (Ht : touches (OP (PRename k0 (np ++ skipn n k0))) k = false).
  { cbn [touches]. apply orb_false_intro; apply beqb_false; intros E; subst k.
    - congruence.
    - rewrite is_prefix_app in Hn. discriminate. }
  pose proof (sstep_frame a _ k Ht) as [F1 F2].
  destruct (sstep a (PRename k0 (np ++ skipn n k0))) as [s' r]. cbn [fst] in F1, F2.
  destruct r; cbn [fst]; try (split; assumption).
  destruct (IH s' Hks' Ho Hn) as [G1 G2]. split; congruence.
Qed.

(** * declarative bulk operations = the refs.go programs on the specification's primitives *)
Definition memb (k : name) (ks : list name) : bool := existsb (beqb k) ks.

Lemma filter_filter : forall {B} (f g : B -> bool) l,
  filter f (filter g l) = filter (fun x => g x && f x) l.
Proof.
  intros B f g l. induction l as [|x l IH]; cbn; [reflexivity|].
  destruct (g x); cbn; [destruct (f x)|]; now rewrite IH.
Qed.

Lemma delete_each_spec : forall ks a,
  exists a', interp sstep a (p_delete_each ks) = (a', ROk) /\
    refs a' = filter (fun kv => negb (memb (fst kv) ks)) (refs a) /\
    forall k, logs a' k = if memb k ks then [] else logs a k.
Proof.
  induction ks as [|k0 ks IH]; intros a.
  - exists a. cbn. split; [reflexivity|]. split; [|reflexivity].
    induction (refs a) as [|x l IHl]; cbn; [reflexivity|]. now rewrite <- IHl.
  - cbn [p_delete_each interp sstep].
    destruct (IH (mk_sstate (m_del k0 (refs a)) (fupd (logs a) k0 []))) as [a' [E [Hr Hl]]].
    exists a'. split; [exact E|]. cbn [refs logs] in Hr, Hl. split.
    + rewrite Hr. unfold m_del. rewrite filter_filter. apply filter_ext. intros [k v]. cbn.
      rewrite (beqb_sym k k0). now rewrite negb_orb.
    + intros k. rewrite Hl, fupd_eq. cbn. rewrite (beqb_sym k k0).
      destruct (beqb k0 k); cbn; [now destruct (memb k ks)|reflexivity].
Qed.

Lemma memb_keys : forall (P : name -> bool) (m : list (name * value)) k,
  memb k (map fst (filter (fun kv => P (fst kv)) m)) = true <->
  (P k = true /\ m_get k m <> None).
Proof.
  intros P m k. induction m as [|[k' v] m IH]; cbn.
  - split; [discriminate|]. intros [_ H]. contradiction.
  - destruct (P k') eqn:EP; cbn.
    + destruct (beqb k k') eqn:E; cbn.
      * apply beqb_true in E. subst. split; [intros _; split; [exact EP|discriminate]|reflexivity].
      * exact IH.
    + destruct (beqb k k') eqn:E.
      * apply beqb_true in E. subst. rewrite IH. split; [intros [H _]; congruence|intros [H _]; congruence].
      * exact IH.
Qed.

Lemma delete_prefix_spec : forall p a, Sinv a ->
  exists a', interp sstep a (p_delete_prefix p) = (a', ROk) /\ seqv a' (s_delete_prefix p a).
Proof.
  intros p a [Hs Hd]. unfold p_delete_prefix. cbn [interp sstep].
  destruct (delete_each_spec (map fst (s_filter [p] [] a)) a) as [a' [E [Hr Hl]]].
  exists a'. split; [exact E|]. split; cbn [s_delete_prefix refs logs].
  - rewrite Hr. apply filter_ext_in. intros [k v] Hin. cbn [fst]. f_equal.
    unfold s_filter.
    destruct (is_prefix p k) eqn:Ep.
    + apply (memb_keys (sel [p] [])). split; [now rewrite sel_single|].
      rewrite (in_m_get k v _ Hs Hin). discriminate.
    + destruct (memb k _) eqn:Em; [|reflexivity].
      apply (memb_keys (sel [p] [])) in Em. destruct Em as [Em _]. rewrite sel_single in Em. congruence.
  - intros k. rewrite Hl. unfold s_filter.
    destruct (memb k _) eqn:Em.
    + apply (memb_keys (sel [p] [])) in Em. destruct Em as [Em _]. rewrite sel_single in Em. now rewrite Em.
    + destruct (is_prefix p k) eqn:Ep; [|reflexivity].
      destruct (m_get k (refs a)) eqn:Eg; [|now apply Hd].
      assert (memb k (map fst (filter (fun kv => sel [p] [] (fst kv)) (refs a))) = true) as X.
      { apply (memb_keys (sel [p] [])). split; [now rewrite sel_single|congruence]. }
      congruence.
Qed.

Lemma rename_each_spec : forall op np ks a,
  Forall (fun k0 => is_prefix op k0 = true) ks ->
  interp sstep a (p_rename_each (length op) op np ks) = s_rename_each (length op) np ks a.
Proof.
  intros op np ks. induction ks as [|k ks IH]; intros a Hks; [reflexivity|].
  inversion Hks as [|? ? Hk Hks']; subst.
  cbn [p_rename_each]. pose proof (is_prefix_length _ _ Hk) as Hl.
  destruct (Nat.ltb_spec (length k) (length op)) as [Hlt|_]; [lia|].
  rewrite <- (is_prefix_split op k Hk).
  rewrite s_rename_each_step. cbn [interp].
  destruct (sstep a (PRename k (np ++ skipn (length op) k))) as [s' r].
  destruct r; try reflexivity. now apply IH.
Qed.

Lemma filter_keys_prefix : forall (p : bytes) (m : list (name * value)),
  Forall (fun k0 => is_prefix p k0 = true) (map fst (filter (fun kv => is_prefix p (fst kv)) m)).
Proof.
  intros p m. induction m as [|[k v] m IH]; cbn; [constructor|].
  destruct (is_prefix p k) eqn:E; cbn; [constructor; assumption|assumption].
Qed.

Lemma s_filter_single : forall p a, s_filter [p] [] a = filter (fun kv => is_prefix p (fst kv)) (refs a).
Proof. intros p a. unfold s_filter. apply filter_ext. intros kv. apply sel_single. Qed.

(* listRefs *)
Definition strip (l : nat) (kv : name * value) : name * value := (skipn l (fst kv), snd kv).

Lemma lb_strip : forall p k (m : list (name * value)),
  is_prefix p k = true -> Forall (fun kv => is_prefix p (fst kv) = true) m ->
  lb k m -> lb (skipn (length p) k) (map (strip (length p)) m).
Proof.
  intros p k m Hk Hm H. induction H as [|kv m Hkv _ IH]; cbn; [constructor|].
  inversion Hm as [|? ? Hp Hm']; subst. constructor; [|exact (IH Hm')].
  cbn. rewrite (is_prefix_split p k Hk), (is_prefix_split p (fst kv) Hp) in Hkv.
  now rewrite bcmp_app_l in Hkv.
Qed.

Lemma strip_sorted : forall p (m : list (name * value)),
  Forall (fun kv => is_prefix p (fst kv) = true) m -> ssorted m -> ssorted (map (strip (length p)) m).
Proof.
  intros p m Hm. induction m as [|kv m IH]; cbn; intros H; [exact I|].
  inversion Hm as [|? ? Hp Hm']; subst. destruct H as [Hlb Hs]. split; [|auto].
  now apply lb_strip.
Qed.

Lemma ssorted_app_l : forall {A} (m1 m2 : list (name * A)), ssorted (m1 ++ m2) -> ssorted m1.
Proof.
  intros A m1 m2. induction m1 as [|kv m1 IH]; cbn; [auto|]. intros [Hlb Hs]. split; [|auto].
  unfold lb in *. rewrite Forall_app in Hlb. tauto.
Qed.

Lemma fold_set_sorted : forall (m acc : list (name * value)),
  ssorted (acc ++ m) ->
  fold_left (fun acc kv => m_set (fst kv) (snd kv) acc) m acc = acc ++ m.
Proof.
  induction m as [|[k v] m IH]; intros acc H; cbn [fold_left]; [now rewrite app_nil_r|].
  cbn [fst snd]. rewrite m_set_append.
  - rewrite IH; rewrite <- app_assoc; [reflexivity|exact H].
  - apply (ssorted_app_l _ m). now rewrite <- app_assoc.
Qed.

Lemma strip_all_spec : forall p (m : list (name * value)),
  Forall (fun kv => is_prefix p (fst kv) = true) m -> ssorted m ->
  strip_all (length p) m = RMap (map (strip (length p)) m).
Proof.
  intros p m Hm Hs. unfold strip_all.
  assert (existsb (fun kv => (length (fst kv) <? length p)%nat) m = false) as ->.
  { clear Hs. induction Hm as [|kv m Hp _ IH]; cbn; [reflexivity|]. apply orb_false_intro; [|exact IH].
    apply Nat.ltb_ge. now apply is_prefix_length. }
  f_equal.
  pose proof (fold_set_sorted (map (strip (length p)) m) [] (strip_sorted p m Hm Hs)) as F.
  cbn [app] in F. rewrite <- F. clear F.
  generalize (@nil (name * value)). induction m as [|kv m IH]; intros acc; cbn; [reflexivity|].
  inversion Hm; subst. inversion Hs. apply IH; auto.
Qed.

Lemma filter_forall : forall {B} (f : B -> bool) l, Forall (fun x => f x = true) (filter f l).
Proof.
  intros B f l. induction l as [|x l IH]; cbn; [constructor|]. destruct (f x) eqn:E; [constructor|]; auto.
Qed.

Lemma interp_call : forall {S} (step : S -> prim -> S * res) s p k,
  interp step s (Call p k) = interp step (fst (step s p)) (k (snd (step s p))).
Proof. intros. cbn [interp]. now destruct (step s p). Qed.

Lemma sstep_get : forall a k,
  sstep a (PGet k) = (a, match m_get k (refs a) with Some v => RVal v | None => RErr end).
Proof. reflexivity. Qed.

(** every client operation: running its refs.go program on the specification's
    primitives gives the declarative specification's result and (pointwise) state *)
Lemma op_spec_eq : forall a o, Sinv a ->
  snd (interp sstep a (prog_of o)) = snd (sstep_op a o) /\
  seqv (fst (interp sstep a (prog_of o))) (fst (sstep_op a o)).
Proof.
  intros a o Ha. destruct o; cbn [prog_of sstep_op].
  - (* primitive *) cbn [interp]. destruct (sstep a p). split; [reflexivity|apply seqv_refl].
  - destruct (delete_prefix_spec (remote_prefix r) a Ha) as [a' [E Hq]]. rewrite E. now split.
  - (* rename remote *)
    unfold p_rename_remote. cbn [interp sstep]. rewrite s_filter_single.
    rewrite rename_each_spec by apply filter_keys_prefix.
    split; [reflexivity|apply seqv_refl].
  - destruct (delete_prefix_spec (tx_prefix id) a Ha) as [a' [E Hq]]. rewrite E. now split.
  - (* list refs *)
    unfold p_list_refs. cbn [interp sstep fst snd]. rewrite s_filter_single.
    rewrite strip_all_spec.
    + split; [reflexivity|apply seqv_refl].
    + apply (filter_forall (fun kv => is_prefix p (fst kv))).
    + apply filter_sorted, Ha.
  - (* rename ref *)
    unfold p_rename_ref. rewrite interp_call, sstep_get. cbn [fst snd].
    destruct (m_get a0 (refs a)) as [v|] eqn:Ea.
    + rewrite interp_call.
      destruct (sstep_rename_cases a a0 b) as [[v' [E1 [E2 E3]]]|[_ E3]]; rewrite E3; cbn [interp fst snd].
      * split; [reflexivity|apply seqv_refl].
      * split; [reflexivity|apply seqv_refl].
    + cbn [interp fst snd].
      destruct (sstep_rename_cases a a0 b) as [[v' [E1 [E2 E3]]]|[_ E3]]; [congruence|].
      rewrite E3. split; [reflexivity|apply seqv_refl].
  - (* copy ref *)
    unfold p_copy_ref. rewrite interp_call, sstep_get. cbn [fst snd].
    destruct (m_get a0 (refs a)) as [v|] eqn:Ea.
    + rewrite interp_call.
      destruct (sstep_copy_cases a a0 b) as [[v' [E1 [E2 E3]]]|[_ E3]]; rewrite E3; cbn [interp fst snd].
      * split; [reflexivity|apply seqv_refl].
      * split; [reflexivity|apply seqv_refl].
    + cbn [interp fst snd].
      destruct (sstep_copy_cases a a0 b) as [[v' [E1 [E2 E3]]]|[_ E3]]; [congruence|].
      rewrite E3. split; [reflexivity|apply seqv_refl].
  - (* save ref *)
    unfold p_save_ref. rewrite interp_call, sstep_get. cbn [fst snd]. rewrite interp_call. cbn [interp].
    split; [reflexivity|apply seqv_refl].
  - (* list local *)
    unfold p_list_local. cbn [interp sstep fst snd]. split; [reflexivity|apply seqv_refl].
Qed.

Lemma Sinv_seqv : forall a1 a2, seqv a1 a2 -> Sinv a1 -> Sinv a2.
Proof.
  intros a1 a2 [Er El] [Hs Hd]. split; [now rewrite <- Er|].
  intros k Hk. rewrite <- El. apply Hd. now rewrite Er.
Qed.

(** * frame, for every client operation *)
Lemma sstep_op_frame : forall a o k, touches o k = false ->
  m_get k (refs (fst (sstep_op a o))) = m_get k (refs a) /\ logs (fst (sstep_op a o)) k = logs a k.
Proof.
  intros a o k Ht. destruct o; cbn [sstep_op].
  - now apply sstep_frame.
  - cbn [touches] in Ht. cbn [fst s_delete_prefix refs logs].
    rewrite (m_get_filter (fun x => negb (is_prefix (remote_prefix r) x))), Ht. now split.
  - cbn [touches] in Ht. apply orb_false_elim in Ht. destruct Ht as [H1 H2].
    apply (s_rename_each_frame _ (remote_prefix r)); auto. apply filter_keys_prefix.
  - cbn [touches] in Ht. cbn [fst s_delete_prefix refs logs].
    rewrite (m_get_filter (fun x => negb (is_prefix (tx_prefix id) x))), Ht. now split.
  - now split.
  - pose proof (sstep_frame a (PRename a0 b) k Ht) as F.
    destruct (sstep_rename_cases a a0 b) as [[v [Hx [Hy E]]]|[Hf E]]; rewrite E in *; cbn [fst] in *.
    + rewrite Hx. exact F.
    + now split.
  - pose proof (sstep_frame a (PCopy a0 b) k Ht) as F.
    destruct (sstep_copy_cases a a0 b) as [[v' [Hx [Hy E]]]|[Hf E]]; rewrite E in *; cbn [fst] in *.
    + rewrite Hx. exact F.
    + now split.
  - now apply (sstep_frame a (PSetLog k0 v m)).
  - now split.
Qed.

(** * logs only grow at the head, disappear, or move as a whole *)
Definition is_logged_set (o : op) (k : name) (v : value) (m : meta) : Prop :=
  o = OP (PSetLog k v m) \/ o = OSaveRef k v m.

Definition log_step (a : sstate) (o : op) (a' : sstate) : Prop :=
  forall k,
    (exists v m, is_logged_set o k v m /\
       logs a' k = mk_logent (m_get k (refs a)) v m :: logs a k) \/
    logs a' k = [] \/
    (exists k', logs a' k = logs a k').

Definition moves (a a' : sstate) : Prop :=
  forall k, logs a' k = [] \/ exists k', logs a' k = logs a k'.

Lemma moves_refl : forall a, moves a a.
Proof. intros a k. right. now exists k. Qed.

Lemma moves_trans : forall a b c, moves a b -> moves b c -> moves a c.
Proof.
  intros a b c H1 H2 k. destruct (H2 k) as [E|[k' E]]; [now left|].
  rewrite E. apply H1.
Qed.

Lemma sstep_moves : forall a p, (forall k v m, p <> PSetLog k v m) -> moves a (fst (sstep a p)).
Proof.
  intros a p Hp. destruct p; cbn [sstep fst]; try (intros k0; right; exists k0; reflexivity).
  - exfalso. eapply Hp. reflexivity.
  - intros k0. cbn. rewrite fupd_eq. destruct (beqb k k0); [now left|right; now exists k0].
  - destruct (sstep_rename_cases a a0 b) as [[v [Hx [Hy E]]]|[Hf E]]; cbn [sstep] in E; rewrite E; cbn [fst];
      [|apply moves_refl].
    intros k0. cbn. rewrite !fupd_eq. destruct (beqb a0 k0); [now left|].
    right. destruct (beqb b k0); [now exists a0|now exists k0].
  - destruct (sstep_copy_cases a a0 b) as [[v [Hx [Hy E]]]|[Hf E]]; cbn [sstep] in E; rewrite E; cbn [fst];
      [|apply moves_refl].
    intros k0. cbn. rewrite !fupd_eq. right. destruct (beqb b k0); [now exists a0|now exists k0].
Qed.

Lemma s_rename_each_moves : forall n np ks a, moves a (fst (s_rename_each n np ks a)).
Proof.
  intros n np ks. induction ks as [|k ks IH]; intros a; [apply moves_refl|].
  rewrite s_rename_each_step.
  assert (M : moves a (fst (sstep a (PRename k (np ++ skipn n k))))) by (apply sstep_moves; discriminate).
  destruct (sstep a (PRename k (np ++ skipn n k))) as [s' r]. cbn [fst] in M.
  destruct r; cbn [fst]; try exact M. eapply moves_trans; [exact M|apply IH].
Qed.

Lemma moves_log_step : forall a o a', moves a a' -> log_step a o a'.
Proof. intros a o a' M k. destruct (M k) as [E|E]; [right; now left|right; now right]. Qed.

Lemma setlog_log_step : forall a o k v m, is_logged_set o k v m ->
  log_step a o (fst (sstep a (PSetLog k v m))).
Proof.
  intros a o k v m Ho k0. cbn. rewrite fupd_eq. destruct (beqb k k0) eqn:E.
  - apply beqb_true in E. subst k0. left. exists v, m. now split.
  - right. right. now exists k0.
Qed.

Lemma sstep_op_log_step : forall a o, log_step a o (fst (sstep_op a o)).
Proof.
  intros a o. destruct o; cbn [sstep_op].
  - destruct p; try (apply moves_log_step, sstep_moves; discriminate).
    apply setlog_log_step. now left.
  - apply moves_log_step. intros k. cbn [fst s_delete_prefix logs].
    destruct (is_prefix (remote_prefix r) k); [now left|right; now exists k].
  - apply moves_log_step, s_rename_each_moves.
  - apply moves_log_step. intros k. cbn [fst s_delete_prefix logs].
    destruct (is_prefix (tx_prefix id) k); [now left|right; now exists k].
  - apply moves_log_step, moves_refl.
  - apply moves_log_step.
    assert (M : moves a (fst (sstep a (PRename a0 b)))) by (apply sstep_moves; discriminate).
    destruct (sstep a (PRename a0 b)) as [s' r]. cbn [fst] in M.
    destruct r; try apply moves_refl. destruct (m_get a0 (refs a)); [exact M|apply moves_refl].
  - apply moves_log_step.
    assert (M : moves a (fst (sstep a (PCopy a0 b)))) by (apply sstep_moves; discriminate).
    destruct (sstep a (PCopy a0 b)) as [s' r]. cbn [fst] in M.
    destruct r; try apply moves_refl. destruct (m_get a0 (refs a)); [exact M|apply moves_refl].
  - apply setlog_log_step. now right.
  - apply moves_log_step, moves_refl.
Qed.

(** * listing by prefix is exact *)
Lemma memb_in : forall k ks, memb k ks = true <-> In k ks.
Proof.
  intros k ks. unfold memb. rewrite existsb_exists. split.
  - intros [x [Hin E]]. apply beqb_true in E. now subst.
  - intros Hin. exists k. split; [exact Hin|apply beqb_refl].
Qed.

Lemma filter_keys_exact : forall p a k,
  In k (map fst (s_filter [p] [] a)) <-> (m_get k (refs a) <> None /\ is_prefix p k = true).
Proof.
  intros p a k. rewrite <- memb_in. unfold s_filter. rewrite (memb_keys (sel [p] [])), sel_single. tauto.
Qed.

(** * bulk rename as a map operation (destinations under a disjoint prefix) *)
Lemma is_prefix_both : forall p q k, is_prefix p k = true -> is_prefix q k = true ->
  is_prefix p q = true \/ is_prefix q p = true.
Proof.
  induction p as [|c p IH]; intros q k Hp Hq; [now left|].
  destruct q as [|d q]; [now right|].
  destruct k as [|e k]; [discriminate|].
  cbn in Hp, Hq. apply andb_prop in Hp. apply andb_prop in Hq.
  destruct Hp as [Hc Hp]. destruct Hq as [Hd Hq].
  apply N.eqb_eq in Hc. apply N.eqb_eq in Hd. subst c d.
  cbn. rewrite N.eqb_refl. cbn. eauto.
Qed.

Lemma ssorted_nodup : forall {A} (m : list (name * A)), ssorted m -> NoDup (map fst m).
Proof.
  intros A m. induction m as [|[k v] m IH]; cbn; intros H; [constructor|].
  destruct H as [Hlb Hs]. constructor; [|auto].
  intros Hin. apply in_map_iff in Hin. destruct Hin as [[k' v'] [E Hin]]. cbn in E. subst k'.
  unfold lb in Hlb. rewrite Forall_forall in Hlb. specialize (Hlb _ Hin). cbn in Hlb.
  rewrite bcmp_refl in Hlb. discriminate.
Qed.

Section BulkRename.
  Variables op np : bytes.
  Hypothesis Hd1 : is_prefix op np = false.
  Hypothesis Hd2 : is_prefix np op = false.

  Definition img (k : name) : name := np ++ skipn (length op) k.

  Lemma img_not_src : forall k k', is_prefix op k = true -> img k' <> k.
  Proof.
    intros k k' Hk E. unfold img in E.
    destruct (is_prefix_both op np k Hk) as [H|H]; [|congruence|congruence].
    rewrite <- E. apply is_prefix_app.
  Qed.

  Lemma img_inj : forall k k', is_prefix op k = true -> is_prefix op k' = true -> img k = img k' -> k = k'.
  Proof.
    intros k k' Hk Hk' E. unfold img in E. apply app_inv_head in E.
    rewrite (is_prefix_split op k Hk), (is_prefix_split op k' Hk'). now rewrite E.
  Qed.

  Lemma rename_step_gets : forall a x y v,
    sstep a (PRename x y) =
      (mk_sstate (m_del x (m_set y v (refs a))) (fupd (fupd (logs a) y (logs a x)) x []), ROk) ->
    m_get x (refs a) = Some v ->
    forall k, (m_get k (refs (fst (sstep a (PRename x y)))) =
                 if beqb x k then None else if beqb y k then m_get x (refs a) else m_get k (refs a)) /\
              (logs (fst (sstep a (PRename x y))) k =
                 if beqb x k then [] else if beqb y k then logs a x else logs a k).
  Proof.
    intros a x y v E Hx k. rewrite E. cbn [fst refs logs].
    rewrite m_get_del, m_get_set, !fupd_eq, Hx. split; reflexivity.
  Qed.

  Lemma s_rename_each_exact : forall ks a,
    Forall (fun k => is_prefix op k = true) ks -> NoDup ks ->
    (forall k, In k ks -> m_get k (refs a) <> None) ->
    snd (s_rename_each (length op) np ks a) = ROk ->
    let a' := fst (s_rename_each (length op) np ks a) in
    (forall k, In k ks ->
       m_get k (refs a') = None /\ logs a' k = [] /\
       m_get (img k) (refs a') = m_get k (refs a) /\ logs a' (img k) = logs a k) /\
    (forall k, ~ In k ks -> (forall k0, In k0 ks -> k <> img k0) ->
       m_get k (refs a') = m_get k (refs a) /\ logs a' k = logs a k).
  Proof.
    induction ks as [|k0 ks IH]; intros a Hpre Hnd Hex Hok a'.
    - split; [intros k []|]. intros k _ _. now split.
    - inversion Hpre as [|? ? Hk0 Hpre']; subst. inversion Hnd as [|? ? Hnin Hnd']; subst.
      unfold a' in *. clear a'. rewrite s_rename_each_step in *.
      fold (img k0) in *.
      destruct (sstep_rename_cases a k0 (img k0)) as [[v [Hx [Hy E]]]|[Hf E]].
      2:{ rewrite E in Hok. cbn in Hok. discriminate. }
      pose proof (rename_step_gets a k0 (img k0) v E Hx) as G.
      rewrite E in *. cbn [fst] in G.
      set (a1 := mk_sstate (m_del k0 (m_set (img k0) v (refs a)))
                           (fupd (fupd (logs a) (img k0) (logs a k0)) k0 [])) in *.
      assert (Hsame : forall k, k <> k0 -> k <> img k0 ->
                m_get k (refs a1) = m_get k (refs a) /\ logs a1 k = logs a k).
      { intros k N1 N2. destruct (G k) as [G1 G2].
        assert (beqb k0 k = false) as B1 by (apply beqb_false; congruence).
        assert (beqb (img k0) k = false) as B2 by (apply beqb_false; congruence).
        rewrite B1, B2 in G1, G2. now split. }
      assert (Hex1 : forall k, In k ks -> m_get k (refs a1) <> None).
      { intros k Hin. rewrite Forall_forall in Hpre'.
        destruct (Hsame k) as [-> _]; [congruence|apply not_eq_sym, img_not_src, Hpre', Hin|].
        apply Hex. now right. }
      destruct (IH a1 Hpre' Hnd' Hex1 Hok) as [I1 I2]. clear IH.
      rewrite Forall_forall in Hpre'.
      split.
      + intros k [<-|Hin].
        * (* the head *)
          assert (N0 : forall k1, In k1 ks -> k0 <> img k1) by (intros k1 _; apply not_eq_sym, img_not_src, Hk0).
          destruct (I2 k0 Hnin N0) as [J1 J2].
          assert (Ni : ~ In (img k0) ks).
          { intros Hin. exact (img_not_src (img k0) k0 (Hpre' _ Hin) eq_refl). }
          assert (Nj : forall k1, In k1 ks -> img k0 <> img k1).
          { intros k1 Hin Eq. apply img_inj in Eq; auto. congruence. }
          destruct (I2 (img k0) Ni Nj) as [J3 J4].
          destruct (G k0) as [G1 G2]. destruct (G (img k0)) as [G3 G4].
          rewrite beqb_refl in G1, G2.
          assert (beqb k0 (img k0) = false) as B by (apply beqb_false, not_eq_sym, img_not_src, Hk0).
          rewrite B, beqb_refl in G3, G4.
          repeat split; congruence.
        * destruct (I1 k Hin) as [J1 [J2 [J3 J4]]].
          destruct (Hsame k) as [S1 S2]; [congruence|apply not_eq_sym, img_not_src, Hpre', Hin|].
          repeat split; congruence.
      + intros k Hnin' Hnimg.
        assert (k <> k0) by (intros ->; apply Hnin'; now left).
        assert (k <> img k0) by (apply Hnimg; now left).
        destruct (I2 k) as [J1 J2].
        * intros Hin. apply Hnin'. now right.
        * intros k1 Hin. apply Hnimg. now right.
        * destruct (Hsame k) as [S1 S2]; auto. split; congruence.
  Qed.

  Lemma s_rename_each_ok : forall ks a,
    Forall (fun k => is_prefix op k = true) ks -> NoDup ks ->
    (forall k, In k ks -> m_get k (refs a) <> None) ->
    (forall k, In k ks -> m_get (img k) (refs a) = None) ->
    snd (s_rename_each (length op) np ks a) = ROk.
  Proof.
    induction ks as [|k0 ks IH]; intros a Hpre Hnd Hex Hfree; [reflexivity|].
    inversion Hpre as [|? ? Hk0 Hpre']; subst. inversion Hnd as [|? ? Hnin Hnd']; subst.
    rewrite s_rename_each_step. fold (img k0).
    destruct (sstep_rename_cases a k0 (img k0)) as [[v [Hx [Hy E]]]|[[Hf|Hf] E]].
    - pose proof (rename_step_gets a k0 (img k0) v E Hx) as G. rewrite E in *. cbn [fst] in G.
      pose proof Hpre' as HF. rewrite Forall_forall in HF.
      apply IH; [exact Hpre'|exact Hnd'| |].
      + intros k Hin. destruct (G k) as [-> _].
        assert (beqb k0 k = false) as -> by (apply beqb_false; congruence).
        assert (beqb (img k0) k = false) as -> by (apply beqb_false, img_not_src, HF, Hin).
        apply Hex. now right.
      + intros k Hin. destruct (G (img k)) as [-> _].
        assert (beqb k0 (img k) = false) as -> by (apply beqb_false, not_eq_sym, img_not_src, Hk0).
        assert (beqb (img k0) (img k) = false) as ->.
        { apply beqb_false. intros Eq. apply img_inj in Eq; auto. congruence. }
        apply Hfree. now right.
    - exfalso. apply (Hex k0); [now left|exact Hf].
    - exfalso. apply Hf, Hfree. now left.
  Qed.
End BulkRename.
