(** Proofs for C10 (model/RefUpdate.v). *)
From Coq Require Import List NArith Bool Lia.
From W.lib Require Import Tree Bytes.
From W.model Require Import RefUpdate.
Import ListNotations.
Local Open Scope N_scope.

(* ------------------------------------------------------------ hypotheses' names *)

(** C11_is_ancestor_correct, soundness half: what ref.IsAncestorOf answers "yes" to is an
    ancestor-or-self in the commit graph. *)
Definition IsAncSound (g : graph) (ia : commit -> commit -> bool) : Prop :=
  forall a b, ia a b = true -> anc g a b.

(** C11_base_common + C11_base_is_input as far as runMerge needs them: when the merge base
    is reported to be one of the inputs it is an ancestor-or-self of every input. *)
Definition SeekSound (g : graph) (sk : list commit -> seekres) : Prop :=
  forall cs c, sk cs = SInput c -> In c cs /\ forall x, In x cs -> anc g c x.

(* ------------------------------------------------------------------ ancestry *)

Lemma anc_trans g a b c : anc g a b -> anc g b c -> anc g a c.
Proof.
  intros Hab Hbc. induction Hbc as [b|b p c Hin Hbp IH].
  - exact Hab.
  - eapply anc_step; [exact Hin|]. apply IH. exact Hab.
Qed.

Lemma anc_parent g p b : In p (parents g b) -> anc g p b.
Proof. intros H. eapply anc_step; [exact H|apply anc_refl]. Qed.

Lemma cmem_In c l : cmem c l = true <-> In c l.
Proof.
  unfold cmem. rewrite existsb_exists. split.
  - intros [x [Hin He]]. apply N.eqb_eq in He. subst. exact Hin.
  - intros H. exists c. split; [exact H|apply N.eqb_refl].
Qed.

Lemma add_all_In acc xs x : In x (add_all acc xs) -> In x acc \/ In x xs.
Proof.
  revert acc. induction xs as [|y xs IH]; intros acc H; simpl in *.
  - left. exact H.
  - apply IH in H. destruct H as [H|H]; [|right; right; exact H].
    destruct (cmem y acc).
    + left. exact H.
    + apply in_app_or in H. destruct H as [H|[H|[]]]; [left; exact H|right; left; exact H].
Qed.

Lemma add_all_incl acc xs x : In x acc -> In x (add_all acc xs).
Proof.
  revert acc. induction xs as [|y xs IH]; intros acc H; simpl; [exact H|].
  apply IH. destruct (cmem y acc); [exact H|apply in_or_app; left; exact H].
Qed.

Lemma rev_pass_sound g rg : forall s x,
  In x (rev_pass g rg s) -> exists y, In y s /\ anc g x y.
Proof.
  induction rg as [|[c ps] rg IH]; intros s x H; simpl in H.
  - exists x. split; [exact H|apply anc_refl].
  - apply IH in H. destruct H as [y [Hy Hxy]].
    destruct (cmem c s) eqn:Ec; [|exists y; split; assumption].
    apply add_all_In in Hy. destruct Hy as [Hy|Hy]; [exists y; split; assumption|].
    exists c. split; [apply cmem_In; exact Ec|].
    eapply anc_trans; [exact Hxy|apply anc_parent; exact Hy].
Qed.

Lemma close_fuel_sound g rg fuel : forall s x,
  In x (close_fuel g rg fuel s) -> exists y, In y s /\ anc g x y.
Proof.
  induction fuel as [|f IH]; intros s x H; simpl in H.
  - exists x. split; [exact H|apply anc_refl].
  - destruct (Nat.eqb _ _).
    + exists x. split; [exact H|apply anc_refl].
    + apply IH in H. destruct H as [y [Hy Hxy]].
      apply rev_pass_sound in Hy. destruct Hy as [z [Hz Hyz]].
      exists z. split; [exact Hz|eapply anc_trans; eassumption].
Qed.

Lemma is_ancestor_sound g : IsAncSound g (is_ancestor g).
Proof.
  intros a b H. unfold is_ancestor, anc_set, anc_closure in H. apply cmem_In in H.
  apply close_fuel_sound in H. destruct H as [y [[Hy|[]] Hay]]. subst. exact Hay.
Qed.

Lemma seek_spec_sound g : SeekSound g (seek_spec g).
Proof.
  intros cs c H. unfold seek_spec in H.
  destruct (find (fun c0 => anc_of_all g c0 cs) cs) as [c0|] eqn:Hf.
  - inversion H; subst. apply find_some in Hf. destruct Hf as [Hin Hall].
    split; [exact Hin|]. intros x Hx. unfold anc_of_all in Hall.
    rewrite forallb_forall in Hall. apply is_ancestor_sound. apply Hall. exact Hx.
  - destruct cs as [|c1 cs']; [discriminate|].
    destruct (existsb _ _); discriminate.
Qed.

(* ------------------------------------------------- decision tables, exhaustively *)

Definition all_bool : list bool := [true; false].
Definition all_kind : list kind := [KHead; KRemote; KTag; KCustom].
Definition all_mode : list mmode := [MFF; MNoFF; MFFOnly].

Lemma in_all_bool b : In b all_bool. Proof. destruct b; simpl; auto. Qed.
Lemma in_all_kind k : In k all_kind. Proof. destruct k; simpl; auto. Qed.
Lemma in_all_mode m : In m all_mode. Proof. destruct m; simpl; auto 6. Qed.

(** what the fetch rule must satisfy on each line of its table *)
Definition fetch_line_ok (k : kind) (p s ia rf gf : bool) : bool :=
  let a := fetch_decision k p s ia rf gf in
  (* a non-forced update of an existing ref is a fast-forward of a non-tag *)
  implb (updates a && p && negb (gf || rf)) (ia && negb (kind_is_tag k) && negb s)
  (* an existing tag is overwritten only with force *)
  && implb (updates a && p && kind_is_tag k) (gf || rf)
  (* every line is an update, "up to date", or a reported rejection *)
  && (updates a || rejects a || match a with AUpToDate => true | _ => false end)
  (* legal updates are never refused *)
  && implb (negb p || (negb s && negb (kind_is_tag k) && ia) || (negb s && (gf || rf))) (updates a)
  (* fetch never deletes *)
  && negb (match a with ADelete | ANoop => true | _ => false end).

Definition fetch_table_ok : bool :=
  forallb (fun k => forallb (fun p => forallb (fun s => forallb (fun ia => forallb (fun rf =>
  forallb (fun gf => fetch_line_ok k p s ia rf gf) all_bool) all_bool) all_bool) all_bool) all_bool) all_kind.

Lemma fetch_table_ok_true : fetch_table_ok = true.
Proof. vm_compute. reflexivity. Qed.

Lemma fetch_line k p s ia rf gf : fetch_line_ok k p s ia rf gf = true.
Proof.
  pose proof fetch_table_ok_true as H. unfold fetch_table_ok in H.
  rewrite forallb_forall in H. specialize (H k (in_all_kind k)).
  rewrite forallb_forall in H. specialize (H p (in_all_bool p)).
  rewrite forallb_forall in H. specialize (H s (in_all_bool s)).
  rewrite forallb_forall in H. specialize (H ia (in_all_bool ia)).
  rewrite forallb_forall in H. specialize (H rf (in_all_bool rf)).
  rewrite forallb_forall in H. exact (H gf (in_all_bool gf)).
Qed.

Definition push_line_ok (k : kind) (p s src ia rf gf : bool) : bool :=
  let a := push_decision k p s src ia rf gf in
  implb (updates a && p && src && negb (gf || rf)) (ia && negb (kind_is_tag k) && negb s)
  && implb (updates a && p && src && kind_is_tag k) (gf || rf)
  && (updates a || rejects a || match a with AUpToDate | ANoop => true | _ => false end)
  && implb (src && (negb p || (negb s && negb (kind_is_tag k) && ia) || (negb s && (gf || rf)))) (updates a)
  && implb (match a with ADelete => true | _ => false end) (p && negb src)
  && implb (match a with ANew => true | _ => false end) (negb p && src).

Definition push_table_ok : bool :=
  forallb (fun k => forallb (fun p => forallb (fun s => forallb (fun src => forallb (fun ia =>
  forallb (fun rf => forallb (fun gf => push_line_ok k p s src ia rf gf)
  all_bool) all_bool) all_bool) all_bool) all_bool) all_bool) all_kind.

Lemma push_table_ok_true : push_table_ok = true.
Proof. vm_compute. reflexivity. Qed.

Lemma push_line k p s src ia rf gf : push_line_ok k p s src ia rf gf = true.
Proof.
  pose proof push_table_ok_true as H. unfold push_table_ok in H.
  rewrite forallb_forall in H. specialize (H k (in_all_kind k)).
  rewrite forallb_forall in H. specialize (H p (in_all_bool p)).
  rewrite forallb_forall in H. specialize (H s (in_all_bool s)).
  rewrite forallb_forall in H. specialize (H src (in_all_bool src)).
  rewrite forallb_forall in H. specialize (H ia (in_all_bool ia)).
  rewrite forallb_forall in H. specialize (H rf (in_all_bool rf)).
  rewrite forallb_forall in H. exact (H gf (in_all_bool gf)).
Qed.

(** merge: number of non-ancestral inputs 0, 1, 2 (= "two or more") *)
Definition merge_line_ok (mode : mmode) (k : nat) : bool :=
  match merge_decision mode k, k, mode with
  | MIdentical, O, _ => true
  | MFastForward, S O, MFF => true
  | MFastForward, S O, MFFOnly => true
  | MCommitAll, S O, MNoFF => true
  | MCommitNonAnc, S (S _), MFF => true
  | MCommitNonAnc, S (S _), MNoFF => true
  | MRejectNonFF, S (S _), MFFOnly => true
  | _, _, _ => false
  end.

Definition merge_table_ok : bool :=
  forallb (fun m => forallb (fun k => merge_line_ok m k) [0; 1; 2; 3]%nat) all_mode.

Lemma merge_table_ok_true : merge_table_ok = true.
Proof. vm_compute. reflexivity. Qed.

Lemma merge_decision_ge2 mode k : merge_decision mode (S (S k)) = merge_decision mode 2%nat.
Proof. reflexivity. Qed.

Lemma merge_line mode k : merge_line_ok mode k = true.
Proof.
  destruct k as [|[|k]].
  - pose proof merge_table_ok_true as H. unfold merge_table_ok in H.
    rewrite forallb_forall in H. specialize (H mode (in_all_mode mode)).
    rewrite forallb_forall in H. apply H. simpl. auto.
  - pose proof merge_table_ok_true as H. unfold merge_table_ok in H.
    rewrite forallb_forall in H. specialize (H mode (in_all_mode mode)).
    rewrite forallb_forall in H. apply H. simpl. auto.
  - destruct mode; reflexivity.
Qed.

(* ------------------------------------------------------------------ ref store *)

Lemma beqb_eq a b : beqb a b = true <-> a = b.
Proof.
  unfold beqb. destruct (bcmp a b) eqn:E.
  - apply bcmp_eq in E. split; auto.
  - split; [discriminate|]. intros ->. rewrite bcmp_refl in E. discriminate.
  - split; [discriminate|]. intros ->. rewrite bcmp_refl in E. discriminate.
Qed.

Lemma beqb_refl a : beqb a a = true.
Proof. apply beqb_eq. reflexivity. Qed.

Lemma beqb_neq a b : a <> b -> beqb a b = false.
Proof. intros H. destruct (beqb a b) eqn:E; [apply beqb_eq in E; contradiction|reflexivity]. Qed.

Lemma rset_log_get_same s n c act : rget (rset_log s n c act) n = Some c.
Proof.
  induction s as [|[m [v lg]] s IH]; simpl.
  - rewrite beqb_refl. reflexivity.
  - destruct (beqb m n) eqn:E; simpl; rewrite E; [reflexivity|exact IH].
Qed.

Lemma rset_log_logs_same s n c act :
  rlogs (rset_log s n c act) n = mk_log (rget s n) c act :: rlogs s n.
Proof.
  induction s as [|[m [v lg]] s IH]; simpl.
  - rewrite beqb_refl. reflexivity.
  - destruct (beqb m n) eqn:E; simpl; rewrite E; [reflexivity|exact IH].
Qed.

Lemma rset_log_get_other s n c act m : m <> n -> rget (rset_log s n c act) m = rget s m.
Proof.
  intros Hne. induction s as [|[k [v lg]] s IH]; simpl.
  - rewrite beqb_neq; auto.
  - destruct (beqb k n) eqn:E; simpl.
    + apply beqb_eq in E. subst k. rewrite (beqb_neq n m); auto.
    + destruct (beqb k m); [reflexivity|exact IH].
Qed.

Lemma rset_log_logs_other s n c act m : m <> n -> rlogs (rset_log s n c act) m = rlogs s m.
Proof.
  intros Hne. induction s as [|[k [v lg]] s IH]; simpl.
  - rewrite beqb_neq; auto.
  - destruct (beqb k n) eqn:E; simpl.
    + apply beqb_eq in E. subst k. rewrite (beqb_neq n m); auto.
    + destruct (beqb k m); [reflexivity|exact IH].
Qed.

Lemma rset_log_logs_mono s n c act m e : In e (rlogs s m) -> In e (rlogs (rset_log s n c act) m).
Proof.
  intros H. induction s as [|[k [v lg]] s IH]; simpl in *; [contradiction|].
  destruct (beqb k n) eqn:E; simpl.
  - destruct (beqb k m); [right; exact H|exact H].
  - destruct (beqb k m); [exact H|apply IH; exact H].
Qed.

(** LogFaithful (DESIGN section 7): every stored log is a chain that ends at the ref's value,
    each entry's old value being the new value of the entry before it; a "created" entry
    (old absent) is the oldest one. *)
Fixpoint log_chain (v : option commit) (lg : list logent) : Prop :=
  match lg with
  | [] => True
  | e :: rest =>
    v = Some (l_new e) /\
    match l_old e with
    | None => rest = []
    | Some o => log_chain (Some o) rest
    end
  end.

Definition LogFaithful (s : rstore) : Prop :=
  Forall (fun e : name * (commit * list logent) => log_chain (Some (fst (snd e))) (snd (snd e))) s.

Lemma rset_log_faithful s n c act : LogFaithful s -> LogFaithful (rset_log s n c act).
Proof.
  unfold LogFaithful. induction s as [|[m [v lg]] s IH]; intros H; simpl.
  - constructor; [simpl; auto|constructor].
  - inversion H as [|? ? Hh Ht]; subst. destruct (beqb m n).
    + constructor; [simpl; split; [reflexivity|exact Hh]|exact Ht].
    + constructor; [exact Hh|apply IH; exact Ht].
Qed.

Lemma rdel_faithful s n : LogFaithful s -> LogFaithful (rdel s n).
Proof.
  unfold LogFaithful. induction s as [|[m e] s IH]; intros H; simpl; [constructor|].
  inversion H as [|? ? Hh Ht]; subst. destruct (beqb m n); [exact Ht|].
  constructor; [exact Hh|apply IH; exact Ht].
Qed.

(* ---------------------------------------------------------------- transitions *)

(** ForwardOnly for one transition: a non-forced move goes to a descendant-or-self, and an
    existing tag is given a different value only with force.  (Creations and deletions - old or
    new absent - are not moves.) *)
Definition trans_ok (g : graph) (t : trans) : Prop :=
  match t_old t, t_new t with
  | Some o, Some n =>
    (t_forced t = false -> anc g o n) /\
    (kind_of (t_name t) = KTag -> o <> n -> t_forced t = true)
  | _, _ => True
  end.

(** every recorded local update is in that ref's log with its old and new value *)
Definition logged (s : rstore) (t : trans) : Prop :=
  match t_side t, t_new t with
  | Local, Some n => exists act, In (mk_log (t_old t) n act) (rlogs s (t_name t))
  | _, _ => True
  end.

Lemma kind_is_tag_spec k : kind_is_tag k = true <-> k = KTag.
Proof. destruct k; simpl; split; intros; congruence. Qed.

Lemma opt_ceqb_false o c x : o = Some x -> opt_ceqb o c = false -> x <> c.
Proof. intros -> H. simpl in H. apply N.eqb_neq. exact H. Qed.

Section WithOracles.
  Variable g : graph.
  Variable ia : commit -> commit -> bool.
  Variable sk : list commit -> seekres.
  Hypothesis ia_sound : IsAncSound g ia.
  Hypothesis sk_sound : SeekSound g sk.

  (* ---- fetch: one iteration *)
  Lemma fetch_item_inv gforce s tr nrej it s' tr' nrej' :
    fetch_item ia gforce (s, tr, nrej) it = (s', tr', nrej') ->
    Forall (trans_ok g) tr -> Forall (trans_ok g) tr'.
  Proof.
    unfold fetch_item. intros H Htr.
    set (old := rget s (fi_dst it)) in *.
    set (iab := match old with Some o => ia o (fi_new it) | None => false end) in *.
    pose proof (fetch_line (kind_of (fi_dst it)) (is_some old) (opt_ceqb old (fi_new it)) iab (fi_force it) gforce) as L.
    unfold fetch_line_ok in L.
    destruct (updates (fetch_decision (kind_of (fi_dst it)) (is_some old) (opt_ceqb old (fi_new it)) iab (fi_force it) gforce)) eqn:U.
    - inversion H; subst. apply Forall_app. split; [exact Htr|]. constructor; [|constructor].
      unfold trans_ok. simpl. destruct old as [o|] eqn:Eo; [|exact I]. simpl in L.
      split.
      + intros Hf. rewrite Hf in L. simpl in L.
        destruct iab eqn:Ei; simpl in L; [|discriminate].
        apply ia_sound. exact Ei.
      + intros Hk Hne.
        destruct (gforce || fi_force it) eqn:Hf; [reflexivity|].
        apply kind_is_tag_spec in Hk. rewrite Hk in L. simpl in L.
        destruct iab; simpl in L; discriminate.
    - inversion H; subst. exact Htr.
  Qed.

  (** rejected (or up-to-date) item: the whole store is untouched *)
  Lemma fetch_item_reject gforce s tr nrej it :
    updates (fetch_decision (kind_of (fi_dst it)) (is_some (rget s (fi_dst it)))
               (opt_ceqb (rget s (fi_dst it)) (fi_new it))
               (match rget s (fi_dst it) with Some o => ia o (fi_new it) | None => false end)
               (fi_force it) gforce) = false ->
    fst (fst (fetch_item ia gforce (s, tr, nrej) it)) = s.
  Proof. intros H. unfold fetch_item. rewrite H. reflexivity. Qed.

  (** frame: an item touches only its own destination *)
  Lemma fetch_item_frame gforce acc it n :
    n <> fi_dst it ->
    rget (fst (fst (fetch_item ia gforce acc it))) n = rget (fst (fst acc)) n /\
    rlogs (fst (fst (fetch_item ia gforce acc it))) n = rlogs (fst (fst acc)) n.
  Proof.
    intros Hne. destruct acc as [[s tr] nrej]. unfold fetch_item.
    destruct (updates _); simpl; [|split; reflexivity].
    split; [apply rset_log_get_other|apply rset_log_logs_other]; exact Hne.
  Qed.

  (* ---- what one iteration does to the store, the trace and the logs *)
  Definition acc_inv (s0 : rstore) (acc : facc) : Prop :=
    let '(s, tr, _) := acc in
    Forall (trans_ok g) tr /\ Forall (logged s) tr /\
    (LogFaithful s0 -> LogFaithful s) /\
    (forall n e, In e (rlogs s0 n) -> In e (rlogs s n)).

  Lemma logged_mono s n c act tr : Forall (logged s) tr -> Forall (logged (rset_log s n c act)) tr.
  Proof.
    intros H. eapply Forall_impl; [|exact H]. intros t Ht. unfold logged in *.
    destruct (t_side t); [|exact I]. destruct (t_new t) as [x|]; [|exact I].
    destruct Ht as [a Ha]. exists a. apply rset_log_logs_mono. exact Ha.
  Qed.

  Lemma logged_new s n old c act f :
    old = rget s n -> logged (rset_log s n c act) (mk_trans Local n old (Some c) f).
  Proof.
    intros ->. unfold logged. simpl. exists act. rewrite rset_log_logs_same. left. reflexivity.
  Qed.

  Lemma fetch_item_acc gforce s0 acc it :
    acc_inv s0 acc -> acc_inv s0 (fetch_item ia gforce acc it).
  Proof.
    destruct acc as [[s tr] nrej]. intros (H1 & H2 & H3 & H4).
    destruct (fetch_item ia gforce (s, tr, nrej) it) as [[s' tr'] nrej'] eqn:E.
    pose proof (fetch_item_inv gforce s tr nrej it s' tr' nrej' E H1) as H1'.
    unfold fetch_item in E.
    destruct (updates _) eqn:U; inversion E; subst; clear E.
    - simpl. split; [exact H1'|]. split; [|split].
      + apply Forall_app. split; [apply logged_mono; exact H2|].
        constructor; [apply logged_new; reflexivity|constructor].
      + intros Hf. apply rset_log_faithful. apply H3. exact Hf.
      + intros n e He. apply rset_log_logs_mono. apply H4. exact He.
    - simpl. auto.
  Qed.

  Lemma fetch_loop_acc gforce s0 items : forall acc,
    acc_inv s0 acc -> acc_inv s0 (fold_left (fetch_item ia gforce) items acc).
  Proof.
    induction items as [|it items IH]; intros acc H; simpl; [exact H|].
    apply IH. apply fetch_item_acc. exact H.
  Qed.

  (* ---- frame: the loop is independent per destination *)
  Definition view (s : rstore) (n : name) : option commit * list logent := (rget s n, rlogs s n).

  (** what one item does to the (value, log) of its own destination *)
  Definition item_view (gforce : bool) (it : fitem) (v : option commit * list logent)
    : option commit * list logent :=
    let old := fst v in
    let a := fetch_decision (kind_of (fi_dst it)) (is_some old) (opt_ceqb old (fi_new it))
                            (match old with Some o => ia o (fi_new it) | None => false end)
                            (fi_force it) gforce in
    if updates a then (Some (fi_new it), mk_log old (fi_new it) ACT_FETCH :: snd v) else v.

  Lemma fetch_item_view gforce acc it n :
    view (fst (fst (fetch_item ia gforce acc it))) n =
    if beqb (fi_dst it) n then item_view gforce it (view (fst (fst acc)) n) else view (fst (fst acc)) n.
  Proof.
    destruct acc as [[s tr] nrej]. destruct (beqb (fi_dst it) n) eqn:E.
    - apply beqb_eq in E. subst n. unfold fetch_item, item_view, view. simpl.
      destruct (updates _); simpl; [|reflexivity].
      rewrite rset_log_get_same, rset_log_logs_same. reflexivity.
    - assert (Hne : n <> fi_dst it).
      { intros ->. rewrite beqb_refl in E. discriminate. }
      unfold view. destruct (fetch_item_frame gforce (s, tr, nrej) it n Hne) as [A B].
      rewrite A, B. reflexivity.
  Qed.

  Lemma fetch_loop_frame gforce items n : forall acc,
    view (fst (fst (fold_left (fetch_item ia gforce) items acc))) n =
    fold_left (fun v it => item_view gforce it v)
              (filter (fun it => beqb (fi_dst it) n) items) (view (fst (fst acc)) n).
  Proof.
    induction items as [|it items IH]; intros acc; simpl; [reflexivity|].
    rewrite IH. rewrite fetch_item_view.
    destruct (beqb (fi_dst it) n); reflexivity.
  Qed.

  (** a ref that is the destination of no item keeps its value and its log *)
  Lemma fetch_loop_untouched gforce items n acc :
    (forall it, In it items -> fi_dst it <> n) ->
    view (fst (fst (fold_left (fetch_item ia gforce) items acc))) n = view (fst (fst acc)) n.
  Proof.
    intros H. rewrite fetch_loop_frame.
    replace (filter (fun it => beqb (fi_dst it) n) items) with (@nil fitem); [reflexivity|].
    symmetry. induction items as [|it items IH]; simpl; [reflexivity|].
    rewrite beqb_neq; [|apply H; left; reflexivity].
    apply IH. intros jt Hj. apply H. right. exact Hj.
  Qed.

  (* ---- results of whole operations *)
  Definition res_ok (st : state) (r : result) : Prop :=
    Forall (trans_ok g) (r_trace r) /\
    Forall (logged (lrefs (r_state r))) (r_trace r) /\
    (LogFaithful (lrefs st) -> LogFaithful (lrefs (r_state r))) /\
    (LogFaithful (rrefs st) -> LogFaithful (rrefs (r_state r))) /\
    (forall n e, In e (rlogs (lrefs st) n) -> In e (rlogs (lrefs (r_state r)) n)).

  Lemma res_ok_same st out nrej : res_ok st (mk_result st [] out nrej).
  Proof. unfold res_ok. simpl. repeat split; auto. Qed.

  Lemma fetch_step_h_ok st specs gforce recv : res_ok st (fetch_step_h ia st specs gforce recv).
  Proof.
    unfold fetch_step_h.
    destruct (resolve_fetch specs (listing (rrefs st))) as [items tags].
    destruct (recv (map fi_new items)) as [have'|]; [|apply res_ok_same].
    set (extra := flat_map _ tags).
    unfold fetch_loop.
    pose proof (fetch_loop_acc gforce (lrefs st) (sort_items (items ++ extra)) (lrefs st, [], O)) as H.
    destruct (fold_left (fetch_item ia gforce) (sort_items (items ++ extra)) (lrefs st, [], O))
      as [[s' tr] nrej] eqn:E.
    assert (H0 : acc_inv (lrefs st) (lrefs st, [], O)).
    { simpl. repeat split; auto. }
    specialize (H H0). simpl in H. destruct H as (H1 & H2 & H3 & H4).
    unfold res_ok. simpl. repeat split; auto.
  Qed.

  Lemma fetch_step_ok st specs gforce : res_ok st (fetch_step g ia st specs gforce).
  Proof. apply fetch_step_h_ok. Qed.

  (* ---- push *)
  (** what identifyUpdates guarantees about an update it lets through without force *)
  Definition upd_ok (u : update) : Prop :=
    u_forced u = false ->
    match u_old u, u_new u with
    | Some o, Some n => anc g o n /\ kind_of (u_dst u) <> KTag
    | _, _ => True
    end.

  Lemma identify_updates_ok gforce local snapshot items : forall us nrej,
    identify_updates ia gforce local snapshot items = Some (us, nrej) -> Forall upd_ok us.
  Proof.
    induction items as [|it items IH]; intros us nrej H; simpl in H.
    - inversion H. constructor.
    - destruct (match pi_src it with
                | None => Some None
                | Some n => match rget local n with Some c => Some (Some c) | None => None end
                end) as [sum|]; [|discriminate].
      destruct (identify_updates ia gforce local snapshot items) as [[us0 nrej0]|]; [|discriminate].
      specialize (IH us0 nrej0 eq_refl).
      set (v := lookup snapshot (pi_dst it)) in *.
      set (same := match v, sum with Some x, Some y => x =? y | _, _ => false end) in *.
      set (iab := match v, sum with Some x, Some y => ia x y | _, _ => false end) in *.
      pose proof (push_line (kind_of (pi_dst it)) (is_some v) same (is_some sum) iab (pi_force it) gforce) as L.
      unfold push_line_ok in L.
      destruct (updates (push_decision (kind_of (pi_dst it)) (is_some v) same (is_some sum) iab (pi_force it) gforce)) eqn:U.
      + inversion H; subst. constructor; [|exact IH].
        unfold upd_ok. simpl. intros Hf. destruct v as [o|] eqn:Ev; [|exact I].
        destruct sum as [c|] eqn:Es; [|exact I]. simpl in L. rewrite Hf in L. simpl in L.
        destruct iab eqn:Ei; simpl in L; [|discriminate].
        split; [apply ia_sound; exact Ei|].
        intros Hk. rewrite Hk in L. simpl in L. discriminate.
      + inversion H; subst. exact IH.
  Qed.

  Lemma insert_upd_In u l x : In x (insert_upd u l) -> x = u \/ In x l.
  Proof.
    induction l as [|y l IH]; simpl; intros H.
    - destruct H as [H|[]]; auto.
    - destruct (blt (u_dst u) (u_dst y)).
      + destruct H as [H|H]; auto.
      + destruct H as [H|H]; [right; left; exact H|].
        apply IH in H. destruct H; auto.
  Qed.

  Lemma sort_upds_In l x : In x (sort_upds l) -> In x l.
  Proof.
    unfold sort_upds.
    assert (G : forall acc, In x (fold_left (fun acc u => insert_upd u acc) l acc) -> In x acc \/ In x l).
    { induction l as [|u l IH]; intros acc H; simpl in *; [left; exact H|].
      apply IH in H. destruct H as [H|H]; [|right; right; exact H].
      apply insert_upd_In in H. destruct H as [H|H]; [right; left; symmetry; exact H|left; exact H]. }
    intros H. apply G in H. destruct H as [[]|H]. exact H.
  Qed.

  Lemma oeqb_eq a b : oeqb a b = true -> a = b.
  Proof.
    destruct a, b; simpl; intros H; try discriminate; [|reflexivity].
    apply N.eqb_eq in H. subst. reflexivity.
  Qed.

  Definition racc_inv (s0 : rstore) (acc : facc) : Prop :=
    let '(s, tr, _) := acc in
    Forall (trans_ok g) tr /\ Forall (fun t => t_side t = Remote) tr /\
    (LogFaithful s0 -> LogFaithful s).

  Lemma server_apply_acc dn dd s0 acc u :
    upd_ok u -> racc_inv s0 acc -> racc_inv s0 (server_apply ia dn dd acc u).
  Proof.
    destruct acc as [[s tr] nrej]. intros Hu (H1 & H2 & H3). unfold server_apply.
    destruct (negb (oeqb (rget s (u_dst u)) (u_old u))) eqn:Ecas; [simpl; auto|].
    apply negb_false_iff in Ecas. apply oeqb_eq in Ecas.
    destruct (u_new u) as [c|] eqn:En.
    - destruct (match rget s (u_dst u) with Some o => dn && negb (ia o c) | None => false end); [simpl; auto|].
      simpl. split; [|split].
      + apply Forall_app. split; [exact H1|]. constructor; [|constructor].
        unfold trans_ok. simpl. destruct (rget s (u_dst u)) as [o|] eqn:Eo; [|exact I].
        unfold upd_ok in Hu. rewrite <- Ecas, En in Hu.
        split.
        * intros Hf. apply Hu in Hf. tauto.
        * intros Hk Hne. destruct (u_forced u) eqn:Hf; [reflexivity|].
          specialize (Hu eq_refl). destruct Hu as [_ Hu]. contradiction.
      + apply Forall_app. split; [exact H2|]. constructor; [reflexivity|constructor].
      + intros Hf. apply rset_log_faithful. auto.
    - destruct dd; [simpl; auto|]. simpl. split; [|split].
      + apply Forall_app. split; [exact H1|]. constructor; [|constructor].
        unfold trans_ok. simpl. destruct (rget s (u_dst u)); exact I.
      + apply Forall_app. split; [exact H2|]. constructor; [reflexivity|constructor].
      + intros Hf. apply rdel_faithful. auto.
  Qed.

  Lemma server_loop_acc dn dd s0 us : forall acc,
    Forall upd_ok us -> racc_inv s0 acc ->
    racc_inv s0 (fold_left (server_apply ia dn dd) us acc).
  Proof.
    induction us as [|u us IH]; intros acc Hu H; simpl; [exact H|].
    inversion Hu; subst. apply IH; [assumption|]. apply server_apply_acc; assumption.
  Qed.

  Lemma logged_remote s tr : Forall (fun t => t_side t = Remote) tr -> Forall (logged s) tr.
  Proof.
    intros H. eapply Forall_impl; [|exact H]. intros t Ht. unfold logged. rewrite Ht. exact I.
  Qed.

  Lemma push_step_ok st items gf dn dd : res_ok st (push_step g ia st items gf dn dd).
  Proof.
    unfold push_step.
    destruct (identify_updates ia gf (lrefs st) (listing (rrefs st)) items) as [[us nrej]|] eqn:E;
      [|apply res_ok_same].
    apply identify_updates_ok in E.
    assert (Hs : Forall upd_ok (sort_upds us)).
    { apply Forall_forall. intros x Hx. apply sort_upds_In in Hx.
      rewrite Forall_forall in E. apply E. exact Hx. }
    pose proof (server_loop_acc dn dd (rrefs st) (sort_upds us) (rrefs st, [], nrej) Hs) as H.
    destruct (fold_left (server_apply ia dn dd) (sort_upds us) (rrefs st, [], nrej)) as [[s' tr] nrej'].
    assert (H0 : racc_inv (rrefs st) (rrefs st, [], nrej)).
    { simpl. repeat split; auto. }
    specialize (H H0). simpl in H. destruct H as (H1 & H2 & H3).
    unfold res_ok. simpl. repeat split; auto. apply logged_remote. exact H2.
  Qed.

  (* ---- merge *)
  Lemma ceq_list_eq a b : ceq_list a b = true -> a = b.
  Proof.
    revert b. induction a as [|x a IH]; intros [|y b] H; simpl in H; try discriminate; [reflexivity|].
    apply andb_true_iff in H. destruct H as [H1 H2]. apply N.eqb_eq in H1. subst.
    f_equal. apply IH. exact H2.
  Qed.

  (** the non-ancestral inputs all descend from the branch value, or the branch value is one of them *)
  Lemma non_ancestral_branch b rest :
    sk (b :: rest) <> SNone ->
    forall x, In x (non_ancestral (sk (b :: rest)) (b :: rest)) ->
    In b (non_ancestral (sk (b :: rest)) (b :: rest)) \/ anc g b x.
  Proof.
    intros _ x Hx. destruct (sk (b :: rest)) as [c| |] eqn:E;
      [|left; simpl; left; reflexivity|left; simpl; left; reflexivity].
    destruct (sk_sound _ _ E) as [Hin Hall].
    unfold non_ancestral in *.
    destruct (negb (b =? c)) eqn:Eb.
    - left. apply filter_In. split; [left; reflexivity|exact Eb].
    - apply negb_false_iff in Eb. apply N.eqb_eq in Eb. subst c.
      right. apply Hall. apply filter_In in Hx. tauto.
  Qed.

  Definition core_ok (s : rstore) (r : rstore * list trans * N * nat) : Prop :=
    let '(s', tr, _, _) := r in
    Forall (trans_ok g) tr /\ Forall (logged s') tr /\
    (LogFaithful s -> LogFaithful s') /\
    (forall n e, In e (rlogs s n) -> In e (rlogs s' n)).

  Lemma core_ok_same s out nrej : core_ok s (s, [], out, nrej).
  Proof. simpl. repeat split; auto. Qed.

  Lemma core_ok_set s branch old x :
    old = rget s branch -> kind_of branch <> KTag ->
    (match old with Some o => anc g o x | None => True end) ->
    core_ok s (rset_log s branch x ACT_MERGE, [mk_trans Local branch old (Some x) false], 0, O).
  Proof.
    intros Hold Hk Ha. simpl. repeat split.
    - constructor; [|constructor]. unfold trans_ok. simpl. destruct old as [o|]; [|exact I].
      split; [intros _; exact Ha|intros Hk'; contradiction].
    - constructor; [apply logged_new; exact Hold|constructor].
    - intros Hf. apply rset_log_faithful. exact Hf.
    - intros n e He. apply rset_log_logs_mono. exact He.
  Qed.

  Lemma length1 {A} (l : list A) : length l = 1%nat -> exists x, l = [x].
  Proof. destruct l as [|x [|y l]]; simpl; intros H; try discriminate. exists x. reflexivity. Qed.

  Lemma merge_decision_ff mode k : merge_decision mode k = MFastForward -> k = 1%nat.
  Proof. destruct k as [|[|k]]; destruct mode; simpl; intros H; congruence. Qed.
  Lemma merge_decision_all mode k : merge_decision mode k = MCommitAll -> k = 1%nat.
  Proof. destruct k as [|[|k]]; destruct mode; simpl; intros H; congruence. Qed.
  Lemma merge_decision_na mode k : merge_decision mode k = MCommitNonAnc -> (2 <= k)%nat.
  Proof. destruct k as [|[|k]]; destruct mode; simpl; intros H; try congruence; lia. Qed.

  Lemma merge_core_ok s branch b rest mode m :
    rget s branch = Some b -> kind_of branch <> KTag ->
    core_ok s (merge_core g sk s branch (b :: rest) mode m).
  Proof.
    intros Hb Hk. unfold merge_core.
    destruct (sk (b :: rest)) as [c| |] eqn:Esk; [| |apply core_ok_same].
    - (* base is an input *)
      rewrite <- Esk.
      pose proof (non_ancestral_branch b rest) as NA. rewrite Esk in NA.
      assert (Hne : SInput c <> SNone) by discriminate. specialize (NA Hne).
      rewrite Esk.
      set (na := non_ancestral (SInput c) (b :: rest)) in *.
      destruct (merge_decision mode (length na)) eqn:D.
      + apply core_ok_same.
      + apply merge_decision_ff in D. apply length1 in D. destruct D as [x Hx]. rewrite Hx.
        rewrite Hb. apply core_ok_set; [symmetry; exact Hb|exact Hk|].
        destruct (NA x) as [H|H]; [rewrite Hx; left; reflexivity| |exact H].
        rewrite Hx in H. destruct H as [H|[]]. subst. apply anc_refl.
      + destruct (ceq_list (parents g m) (b :: rest)) eqn:Ep; [|apply core_ok_same].
        apply ceq_list_eq in Ep. rewrite Hb. apply core_ok_set; [symmetry; exact Hb|exact Hk|].
        apply anc_parent. rewrite Ep. left. reflexivity.
      + destruct (ceq_list (parents g m) na) eqn:Ep; [|apply core_ok_same].
        apply ceq_list_eq in Ep. rewrite Hb. apply core_ok_set; [symmetry; exact Hb|exact Hk|].
        apply merge_decision_na in D.
        destruct na as [|x na'] eqn:Ena; [simpl in D; lia|].
        destruct (NA x) as [H|H]; [left; reflexivity| |].
        * apply anc_parent. rewrite Ep. exact H.
        * eapply anc_trans; [exact H|]. apply anc_parent. rewrite Ep. left. reflexivity.
      + apply core_ok_same.
    - (* base is not an input: every input is non-ancestral, the branch value among them *)
      simpl non_ancestral.
      destruct (merge_decision mode (length (b :: rest))) eqn:D.
      + apply core_ok_same.
      + rewrite Hb. apply core_ok_set; [symmetry; exact Hb|exact Hk|apply anc_refl].
      + destruct (ceq_list (parents g m) (b :: rest)) eqn:Ep; [|apply core_ok_same].
        apply ceq_list_eq in Ep. rewrite Hb. apply core_ok_set; [symmetry; exact Hb|exact Hk|].
        apply anc_parent. rewrite Ep. left. reflexivity.
      + destruct (ceq_list (parents g m) (b :: rest)) eqn:Ep; [|apply core_ok_same].
        apply ceq_list_eq in Ep. rewrite Hb. apply core_ok_set; [symmetry; exact Hb|exact Hk|].
        apply anc_parent. rewrite Ep. left. reflexivity.
      + apply core_ok_same.
  Qed.

  Lemma is_prefix_app p s : is_prefix p (p ++ s) = true.
  Proof. induction p as [|x p IH]; simpl; [reflexivity|]. rewrite N.eqb_refl. exact IH. Qed.

  Lemma kind_of_heads b : kind_of (s_heads ++ b) = KHead.
  Proof. unfold kind_of. rewrite is_prefix_app. reflexivity. Qed.

  Lemma kind_of_heads_not_tag b : kind_of (s_heads ++ b) <> KTag.
  Proof. rewrite kind_of_heads. discriminate. Qed.

  Lemma merge_step_ok st branch others mode m : res_ok st (merge_step g sk st branch others mode m).
  Proof.
    unfold merge_step.
    destruct (rget (lrefs st) (s_heads ++ branch)) as [b|] eqn:Eb; [|apply res_ok_same].
    destruct (resolve_all (lrefs st) others) as [cs|]; [|apply res_ok_same].
    pose proof (merge_core_ok (lrefs st) (s_heads ++ branch) b cs mode m Eb (kind_of_heads_not_tag branch)) as H.
    destruct (merge_core g sk (lrefs st) (s_heads ++ branch) (b :: cs) mode m) as [[[s' tr] out] nrej].
    simpl in H. destruct H as (H1 & H2 & H3 & H4).
    unfold res_ok. simpl. repeat split; auto.
  Qed.

  (* ---- pull = fetch, then a creation or a merge *)
  Lemma res_ok_weaken_out st r out nrej :
    res_ok st r -> res_ok st (mk_result (r_state r) (r_trace r) out nrej).
  Proof. unfold res_ok. simpl. tauto. Qed.

  Lemma logged_grow s s' tr :
    (forall n e, In e (rlogs s n) -> In e (rlogs s' n)) ->
    Forall (logged s) tr -> Forall (logged s') tr.
  Proof.
    intros Hm H. eapply Forall_impl; [|exact H]. intros t Ht. unfold logged in *.
    destruct (t_side t); [|exact I]. destruct (t_new t); [|exact I].
    destruct Ht as [a Ha]. exists a. apply Hm. exact Ha.
  Qed.

  (** guard needed only for the code BEFORE fix 43d74b6: when the pulled branch does not exist yet, the
      fetch half does not create it.  The repaired code re-reads the branch, so no guard is needed. *)
  Definition pull_guard (st : state) (branch : name) (specs : list refspec) (gf : bool) : Prop :=
    rget (lrefs st) (s_heads ++ branch) = None ->
    rget (lrefs (r_state (fetch_step g ia st specs gf))) (s_heads ++ branch) = None.

  Lemma pull_gen_ok fixed st branch specs gf mode m :
    (fixed = false -> pull_guard st branch specs gf) ->
    res_ok st (pull_step_gen fixed g ia sk st branch specs gf mode m).
  Proof.
    intros G. unfold pull_step_gen.
    pose proof (fetch_step_ok st specs gf) as F. unfold pull_guard in G.
    set (rf := fetch_step g ia st specs gf) in *.
    destruct (negb (r_outcome rf =? 0)); [exact F|].
    destruct F as (F1 & F2 & F3 & F4 & F5).
    set (st1 := r_state rf) in *.
    set (bn := s_heads ++ branch) in *.
    set (newbranch := if fixed then _ else _).
    destruct newbranch eqn:Enb.
    - (* new branch: the branch does not exist after the fetch *)
      assert (Hnone : rget (lrefs st1) bn = None).
      { unfold newbranch in Enb. destruct fixed.
        - apply andb_true_iff in Enb. destruct Enb as [_ E2].
          destruct (rget (lrefs st1) bn); [discriminate|reflexivity].
        - apply G; [reflexivity|]. destruct (rget (lrefs st) bn); [discriminate|reflexivity]. }
      match goal with |- context [flat_map ?f specs] => set (heads := flat_map f specs) end.
      assert (W : forall out, res_ok st (mk_result st1 (r_trace rf) out (r_nrej rf))).
      { intros out. unfold res_ok. simpl. auto. }
      destruct heads as [|[hn hc] [|h2 hs]]; try apply W.
      destruct (resolve_commitish (lrefs st1) hn) as [c|]; [|apply W].
      unfold res_ok. simpl. split; [|split; [|split; [|split]]].
      + apply Forall_app. split; [exact F1|]. constructor; [|constructor].
        unfold trans_ok. simpl. rewrite Hnone. exact I.
      + apply Forall_app. split; [apply logged_mono; exact F2|].
        constructor; [apply logged_new; reflexivity|constructor].
      + intros Hf. apply rset_log_faithful. auto.
      + exact F4.
      + intros n e He. apply rset_log_logs_mono. auto.
    - (* existing branch (possibly created by the fetch half): a merge *)
      match goal with |- context [flat_map ?f specs] => set (heads := flat_map f specs) end.
      assert (W : forall out, res_ok st (mk_result st1 (r_trace rf) out (r_nrej rf))).
      { intros out. unfold res_ok. simpl. auto. }
      destruct heads as [|h hs] eqn:Eh; [unfold res_ok; auto|].
      destruct (rget (lrefs st1) bn) as [b|] eqn:Eb; [|apply W].
      destruct (resolve_all (lrefs st1) (map fst (h :: hs))) as [cs|]; [|apply W].
      pose proof (merge_core_ok (lrefs st1) bn b cs mode m Eb (kind_of_heads_not_tag branch)) as H.
      destruct (merge_core g sk (lrefs st1) bn (b :: cs) mode m) as [[[s' tr] out] nrej].
      simpl in H. destruct H as (H1 & H2 & H3 & H4).
      unfold res_ok. simpl. split; [|split; [|split; [|split]]].
      + apply Forall_app. split; assumption.
      + apply Forall_app. split; [|exact H2]. eapply logged_grow; [exact H4|exact F2].
      + auto.
      + exact F4.
      + auto.
  Qed.

  Lemma pull_step_ok st branch specs gf mode m : res_ok st (pull_step g ia sk st branch specs gf mode m).
  Proof. apply pull_gen_ok. discriminate. Qed.

  (* ---- histories *)
  Lemma step_ok st o : res_ok st (step g ia sk st o).
  Proof.
    destruct o; simpl.
    - apply fetch_step_ok.
    - apply push_step_ok.
    - apply merge_step_ok.
    - apply pull_step_ok.
  Qed.

  Lemma run_ops_ok ops : forall st,
    let '(st', tr) := run_ops g ia sk st ops in
    Forall (trans_ok g) tr /\ Forall (logged (lrefs st')) tr /\
    (LogFaithful (lrefs st) -> LogFaithful (lrefs st')) /\
    (LogFaithful (rrefs st) -> LogFaithful (rrefs st')) /\
    (forall n e, In e (rlogs (lrefs st) n) -> In e (rlogs (lrefs st') n)).
  Proof.
    induction ops as [|o rest IH]; intros st; simpl.
    - repeat split; auto.
    - pose proof (step_ok st o) as S.
      specialize (IH (r_state (step g ia sk st o))).
      destruct (run_ops g ia sk (r_state (step g ia sk st o)) rest) as [st' tr].
      destruct S as (S1 & S2 & S3 & S4 & S5). destruct IH as (I1 & I2 & I3 & I4 & I5).
      split; [|split; [|split; [|split]]].
      + apply Forall_app. split; assumption.
      + apply Forall_app. split; [|exact I2]. eapply logged_grow; [exact I5|exact S2].
      + auto.
      + auto.
      + auto.
  Qed.

  (** C10_forward_only: every transition of every history is a legal move *)
  Theorem forward_only_history st ops : Forall (trans_ok g) (snd (run_ops g ia sk st ops)).
  Proof.
    pose proof (run_ops_ok ops st) as H.
    destruct (run_ops g ia sk st ops) as [st' tr]. simpl. tauto.
  Qed.

  (** C10_log_true: logs stay faithful chains and every local update of the history is in its ref's log
      with the old and new value the transition had *)
  Theorem log_true_history st ops :
    (LogFaithful (lrefs st) -> LogFaithful (lrefs (fst (run_ops g ia sk st ops)))) /\
    (LogFaithful (rrefs st) -> LogFaithful (rrefs (fst (run_ops g ia sk st ops)))) /\
    Forall (logged (lrefs (fst (run_ops g ia sk st ops)))) (snd (run_ops g ia sk st ops)).
  Proof.
    pose proof (run_ops_ok ops st) as H.
    destruct (run_ops g ia sk st ops) as [st' tr]. simpl. tauto.
  Qed.

  (** the code before fix 43d74b6 satisfies the rule only under [pull_guard] *)
  Theorem pull_prefix_guarded st branch specs gf mode m :
    pull_guard st branch specs gf ->
    res_ok st (pull_step_prefix g ia sk st branch specs gf mode m).
  Proof. intros G. apply pull_gen_ok. intros _. exact G. Qed.

  (** C10_ff_exact: when the branch value is the merge base and exactly one other commit remains,
      a merge that is not --no-ff sets the branch exactly to that commit, logging (old, new). *)
  Theorem ff_exact s branch b o mode m :
    rget s branch = Some b -> sk [b; o] = SInput b -> b <> o -> mode <> MNoFF ->
    let '(s', tr, out, _) := merge_core g sk s branch [b; o] mode m in
    rget s' branch = Some o /\ out = 0 /\
    rlogs s' branch = mk_log (Some b) o ACT_MERGE :: rlogs s branch /\
    tr = [mk_trans Local branch (Some b) (Some o) false].
  Proof.
    intros Hb Hsk Hne Hm. unfold merge_core. rewrite Hsk. simpl.
    rewrite N.eqb_refl. simpl.
    assert (E : (o =? b) = false). { apply N.eqb_neq. congruence. }
    rewrite E. simpl.
    destruct mode; try congruence; simpl;
      (split; [apply rset_log_get_same|split; [reflexivity|split; [|rewrite Hb; reflexivity]]];
       rewrite rset_log_logs_same, Hb; reflexivity).
  Qed.

  (** symmetric case: the other commit is already contained in the branch - the "fast-forward" writes the
      branch's own value (a self transition, logged as such) *)
  Theorem ff_self s branch b o mode m :
    rget s branch = Some b -> sk [b; o] = SInput o -> b <> o -> mode <> MNoFF ->
    let '(s', _, out, _) := merge_core g sk s branch [b; o] mode m in
    rget s' branch = Some b /\ out = 0.
  Proof.
    intros Hb Hsk Hne Hm. unfold merge_core. rewrite Hsk. simpl.
    assert (E : (b =? o) = false). { apply N.eqb_neq. congruence. }
    rewrite E, N.eqb_refl. simpl.
    destruct mode; try congruence; simpl; (split; [apply rset_log_get_same|reflexivity]).
  Qed.

End WithOracles.

(* ------------------------------------------------------- closed instances *)

(** the executable model's own oracles are sound, so the theorems hold for run_C10's step outright *)
Theorem forward_only_instance g st ops :
  Forall (trans_ok g) (snd (run_ops g (is_ancestor g) (seek_spec g) st ops)).
Proof.
  apply forward_only_history; [apply is_ancestor_sound|apply seek_spec_sound].
Qed.

(* ------------------------------------- the defect repaired by 43d74b6, on the pre-fix variant *)

Definition n_b : name := s_heads ++ [98].                        (* heads/b *)
Definition n_x : name := s_heads ++ [120].                       (* heads/x *)
Definition n_ox : name := s_remotes ++ [111;114;105;103;105;110;47;120].  (* remotes/origin/x *)

(** remote: heads/b = 0, heads/x = 1 (two unrelated roots); local: nothing.
    pull b origin refs/heads/*:refs/heads/* refs/heads/x:refs/remotes/origin/x *)
Definition w_graph : graph := [(0, []); (1, [])].
Definition w_state : state :=
  mk_state [] (rset_log (rset_log [] n_b 0 ACT_SETUP) n_x 1 ACT_SETUP) [].
Definition w_specs : list refspec := [mk_spec false true s_heads s_heads; mk_spec false false n_x n_ox].

Lemma w_trace :
  r_trace (pull_step_prefix w_graph (is_ancestor w_graph) (seek_spec w_graph) w_state [98] w_specs false MFF 1000) =
  [mk_trans Local n_b None (Some 0) false; mk_trans Local n_x None (Some 1) false;
   mk_trans Local n_ox None (Some 1) false; mk_trans Local n_b (Some 0) (Some 1) false].
Proof. vm_compute. reflexivity. Qed.

Lemma w_not_anc : ~ anc w_graph 0 1.
Proof.
  intros H. inversion H as [|a p b Hin Hp]; subst. simpl in Hin. contradiction.
Qed.

Theorem pull_new_branch_refuted :
  exists g st b specs gf mode m,
    ~ Forall (trans_ok g) (r_trace (pull_step_prefix g (is_ancestor g) (seek_spec g) st b specs gf mode m)).
Proof.
  exists w_graph, w_state, [98], w_specs, false, MFF, 1000. rewrite w_trace. intros H.
  inversion H as [|? ? _ H1]; subst. inversion H1 as [|? ? _ H2]; subst.
  inversion H2 as [|? ? _ H3]; subst. inversion H3 as [|? ? H4 _]; subst.
  unfold trans_ok in H4. simpl in H4. destruct H4 as [H4 _].
  apply w_not_anc. apply H4. reflexivity.
Qed.

(** the repaired code on the same input: the fetch creates heads/b, the pull then merges (here: fails, the
    histories are unrelated) and heads/b keeps the fetched value *)
Example w_fixed :
  let r := pull_step w_graph (is_ancestor w_graph) (seek_spec w_graph) w_state [98] w_specs false MFF 1000 in
  r_outcome r = 1 /\ rget (lrefs (r_state r)) n_b = Some 0.
Proof. vm_compute. split; reflexivity. Qed.

(* ------------------------------------------------------- non-vacuity *)

(** a concrete history (fetch with a rejected and an accepted ref, push, merge, guarded pull) meets the
    guards, and its trace is not empty *)
Definition ex_graph : graph := [(0, []); (1, [0]); (2, [1]); (3, [1]); (1000, [2; 3])].
Definition n_main : name := s_heads ++ [109].                          (* heads/m *)
Definition n_om : name := s_remotes ++ [111;47;109].                   (* remotes/o/m *)
Definition ex_state : state :=
  mk_state (rset_log (rset_log [] n_main 2 ACT_SETUP) n_om 3 ACT_SETUP)
           (rset_log [] n_main 3 ACT_SETUP) [0; 1; 2; 3].
Definition ex_ops : list op :=
  [ OFetch [mk_spec false false n_main n_om] false;
    OPush [mk_pitem false (Some n_main) n_main] false false false;
    OMerge [109] [n_om] MFF 1000;
    OPull [109] [mk_spec false false n_main n_om] false MFF 1000;
    OPush [mk_pitem false (Some n_main) n_main] false false false ].

Example ex_trace_nonempty :
  length (snd (run_ops ex_graph (is_ancestor ex_graph) (seek_spec ex_graph) ex_state ex_ops)) = 3%nat.
Proof. vm_compute. reflexivity. Qed.


(* ------------------------------------------------------- pull creates the branch *)

Lemma rget_none_rlogs_nil s n : rget s n = None -> rlogs s n = [].
Proof.
  induction s as [|[k [v lg]] s IH]; simpl; [reflexivity|].
  destruct (beqb k n); [discriminate|exact IH].
Qed.

(** the merge heads pullSingleRepo extracts after the fetch, for a branch that does not exist *)
Definition new_branch_heads (s1 : rstore) (specs : list refspec) : list (name * commit) :=
  flat_map (fun sp : refspec =>
              match rget s1 (rs_dst sp) with
              | Some c => if oeqb (Some c) None then [] else [(rs_dst sp, c)]
              | None => []
              end) specs.

(** a successful first pull of a branch creates it: the branch does not exist before nor after the fetch half
    (wherever the NAME happens to resolve - e.g. to an already present remote-tracking ref), exactly one refspec
    destination holds a commit: heads/BRANCH then holds that commit, logged as created by the pull *)
Theorem pull_creates_branch g ia sk st branch specs gf mode m hn hc c :
  let rf := fetch_step g ia st specs gf in
  r_outcome rf = 0 ->
  rget (lrefs st) (s_heads ++ branch) = None ->
  rget (lrefs (r_state rf)) (s_heads ++ branch) = None ->
  new_branch_heads (lrefs (r_state rf)) specs = [(hn, hc)] ->
  resolve_commitish (lrefs (r_state rf)) hn = Some c ->
  let r := pull_step g ia sk st branch specs gf mode m in
  r_outcome r = 0 /\
  rget (lrefs (r_state r)) (s_heads ++ branch) = Some c /\
  rlogs (lrefs (r_state r)) (s_heads ++ branch) = [mk_log None c ACT_PULL].
Proof.
  intros rf Hout Hb0 Hb1 Hh Hr. unfold pull_step, pull_step_gen. cbv zeta. fold rf.
  rewrite Hout. rewrite Hb0, Hb1. cbn [N.eqb negb is_some andb].
  unfold new_branch_heads in Hh. rewrite Hh. rewrite Hr. cbn [r_outcome r_state lrefs].
  split; [reflexivity|]. split; [apply rset_log_get_same|].
  rewrite rset_log_logs_same. rewrite Hb1.
  rewrite (rget_none_rlogs_nil _ _ Hb1). reflexivity.
Qed.
