(** C08 - proofs, part 4: Process, rounds, CommitsToSend: cover / order / sound / refuse /
    termination for whole sessions; exact characterisations for single-round sessions. *)
From Coq Require Import List NArith Bool Arith Lia Permutation.
From W.lib Require Import Tree.
From W.model Require Import ClosedSets ClosedSetsSpec.
From W.proofs Require Import ClosedSets_proofs ClosedSetsTerm_proofs ClosedSetsQueue_proofs.
Import ListNotations.

Lemma good_want_exists : forall g refs w, good_want g refs w -> get_commit g w <> None.
Proof. intros g refs w [_ [cm [H _]]]. rewrite H. discriminate. Qed.

Lemma finv_ext : forall g A A' f, (forall w, In w A <-> In w A') -> finv g A f -> finv g A' f.
Proof.
  intros g A A' f HE [I1 [I2 [I3 [I4 I5]]]]. unfold finv. splits; auto.
  - intros w Hw. apply I2. apply HE; auto.
  - intros x Hx. destruct (I3 x Hx) as [w [Hw Ha]]. exists w. split; auto. apply HE; auto.
  - intros w Hw. apply HE. auto.
  - intros t Ht. eapply tbl_sound_incl; [|apply I5; auto]. intros w Hw. apply HE; auto.
Qed.

Section Session.
  Variable qsort : list qitem -> list qitem.
  Variable ord : nat -> list cid -> list cid.
  Hypothesis Hsort : sort_fun qsort.
  Hypothesis Hord : order_fun ord.
  Variable g : store.
  Variable refs : list cid.
  Hypothesis Hacyc : acyclic g.

  Lemma enqueue_total : forall f defer,
    (forall w, In w (f_wants f) -> get_commit g w <> None) ->
    match enqueue ord g f defer with
    | Fuel => False
    | ErrStore => ~ closed g
    | Ok _ => True
    end.
  Proof.
    intros f defer Hw. unfold enqueue.
    pose proof (enqueue_loop_total g (f_depth f) (f_commons f) defer Hacyc
                                   (ord (f_calls f) (f_wants f)) [] (f_clists f) (f_tlists f) []) as H.
    destruct (enqueue_loop g (f_depth f) (f_commons f) defer (ord (f_calls f) (f_wants f)) []
                           (f_clists f) (f_tlists f) []) as [[[cls tls] dfr]| |]; auto.
    intros Hc. apply H; auto. intros w Hin. apply Hw. eapply ord_In; eauto.
  Qed.

  (** the state handed to enqueueWants by a successful Process *)
  Definition pre_enqueue (f : finder) (wants acks : list cid) : finder :=
    mkF (add_all acks (f_commons f)) (add_all wants (f_wants f)) (f_clists f) (f_tlists f)
        (f_depth f) (f_calls f) (f_multi f) (wants ++ f_accepted f).
  Definition defer_flag (f1 : finder) (done : bool) : bool :=
    negb done && negb (Nat.eqb (length (f_commons f1)) 0).

  Lemma process_ok_inv : forall f wants haves done f' acks,
    process qsort ord g refs f wants haves done = POk f' acks ->
    enqueue ord g (pre_enqueue f wants acks) (defer_flag (pre_enqueue f wants acks) done) = Ok f'.
  Proof.
    intros f wants haves done f' acks H. unfold process in H.
    destruct (q_new qsort g refs) as [q| |]; try discriminate.
    destruct (match wants with [] => EOk q | _ :: _ => ensure_wants g q wants end) as [q1|s| |];
      try discriminate.
    destruct (find_commons g q1 haves) as [commons| |]; try discriminate.
    fold (pre_enqueue f wants commons) in H.
    fold (defer_flag (pre_enqueue f wants commons) done) in H.
    destruct (enqueue ord g (pre_enqueue f wants commons)
                      (defer_flag (pre_enqueue f wants commons) done)) as [f2| |] eqn:E; try discriminate.
    inversion H; subst. exact E.
  Qed.

  Definition round_ok (r : round) (o : round_obs) : Prop :=
    match o with
    | ROk acks => (forall a, In a acks -> In a (r_haves r) /\ get_commit g a <> None /\ reach g refs a) /\
                  (forall w, In w (r_wants r) -> good_want g refs w)
    | RUnrec sums => sums <> [] /\ exists w, In w (r_wants r) /\ ~ good_want g refs w
    | RErr => ~ (closed g /\ refs_ok g refs)
    | RFuel => False
    end.

  Lemma process_spec : forall A f wants haves done,
    finv g A f -> (forall w, In w A -> good_want g refs w) ->
    match process qsort ord g refs f wants haves done with
    | POk f' acks =>
        finv g (wants ++ A) f' /\ (forall w, In w (wants ++ A) -> good_want g refs w) /\
        round_ok (mkRound wants haves done) (ROk acks) /\
        (forall k, In k (f_commons f') <-> In k acks \/ In k (f_commons f)) /\
        f_depth f' = f_depth f /\ f_accepted f' = wants ++ f_accepted f /\
        incl (concat (f_clists f)) (concat (f_clists f'))
    | PUnrecognized sums => round_ok (mkRound wants haves done) (RUnrec sums)
    | PErrStore => ~ (closed g /\ refs_ok g refs)
    | PFuel => False
    end.
  Proof.
    intros A f wants haves done HI HG.
    destruct (process qsort ord g refs f wants haves done) as [f' acks|sums| |] eqn:EP.
    - pose proof (process_ok_inv _ _ _ _ _ _ EP) as HE.
      unfold process in EP.
      pose proof (q_new_spec g refs qsort Hsort) as Hq.
      destruct (q_new qsort g refs) as [q| |]; try discriminate. destruct Hq as [HB HC].
      assert (Hew : match (match wants with [] => EOk q | _ :: _ => ensure_wants g q wants end) with
                    | EOk q' => (exists P', qbase g refs q' P' /\ qclosed g q' P') /\
                                forall w, In w wants -> good_want g refs w
                    | _ => True
                    end).
      { destruct wants as [|w0 ws].
        - split; eauto. intros ? [].
        - pose proof (ensure_wants_spec g refs (w0 :: ws) q [] HB HC) as H.
          destruct (ensure_wants g q (w0 :: ws)); auto. }
      destruct (match wants with [] => EOk q | _ :: _ => ensure_wants g q wants end) as [q1|s| |];
        try discriminate.
      destruct Hew as [[P1 [HB1 HC1]] Hgood].
      pose proof (find_commons_spec g refs haves q1 P1 HB1 HC1) as Hfc.
      destruct (find_commons g q1 haves) as [commons| |]; try discriminate.
      assert (Eacks : commons = acks).
      { destruct (enqueue ord g _ _); try discriminate. inversion EP; auto. }
      subst commons. clear EP.
      destruct HI as [I1 [I2 [I3 [I4 I5]]]].
      assert (HI1 : finv g (wants ++ A) (pre_enqueue f wants acks)).
      { unfold finv, pre_enqueue; simpl. splits.
        - eapply order_ok_mono; [|exact I1]. intros x Hx. apply add_all_In. auto.
        - intros w Hw. apply in_app_or in Hw. destruct Hw as [Hw|Hw].
          + left. apply add_all_In. auto.
          + destruct (I2 w Hw) as [H|[H|H]]; auto.
            * left. apply add_all_In. auto.
            * right. left. apply add_all_In. auto.
        - intros x Hx. destruct (I3 x Hx) as [w [Hw Ha]]. exists w. split; auto. apply in_or_app; auto.
        - intros w Hw. apply add_all_In in Hw. apply in_or_app. destruct Hw; auto.
        - intros t Ht. eapply tbl_sound_incl; [|apply I5; auto]. intros w Hw. apply in_or_app; auto. }
      destruct (enqueue_finv ord Hord g _ _ _ _ HI1 HE) as [HF [E1 [E2 [E3 [_ E5]]]]].
      splits; auto.
      + intros w Hw. apply in_app_or in Hw. destruct Hw; auto.
      + simpl. split; auto.
      + intros k. rewrite E1. unfold pre_enqueue; simpl. apply add_all_In.
    - unfold process in EP.
      pose proof (q_new_spec g refs qsort Hsort) as Hq.
      destruct (q_new qsort g refs) as [q| |]; try discriminate. destruct Hq as [HB HC].
      destruct wants as [|w0 ws].
      { destruct (find_commons g q haves); try discriminate.
        destruct (enqueue ord g _ _); discriminate. }
      pose proof (ensure_wants_spec g refs (w0 :: ws) q [] HB HC) as H.
      destruct (ensure_wants g q (w0 :: ws)) as [q1|s| |]; try discriminate.
      + destruct (find_commons g q1 haves); try discriminate.
        destruct (enqueue ord g _ _); discriminate.
      + inversion EP; subst. exact H.
    - unfold process in EP.
      pose proof (q_new_spec g refs qsort Hsort) as Hq.
      destruct (q_new qsort g refs) as [q| |]; try contradiction.
      + destruct Hq as [HB HC].
        assert (Hew : match (match wants with [] => EOk q | _ :: _ => ensure_wants g q wants end) with
                      | EOk q' => (exists P', qbase g refs q' P' /\ qclosed g q' P') /\
                                  forall w, In w wants -> good_want g refs w
                      | EErr => ~ closed g
                      | _ => True
                      end).
        { destruct wants as [|w0 ws].
          - split; eauto. intros ? [].
          - pose proof (ensure_wants_spec g refs (w0 :: ws) q [] HB HC) as H.
            destruct (ensure_wants g q (w0 :: ws)); auto. }
        destruct (match wants with [] => EOk q | _ :: _ => ensure_wants g q wants end) as [q1|s| |];
          try discriminate.
        * destruct Hew as [[P1 [HB1 HC1]] Hgood].
          pose proof (find_commons_spec g refs haves q1 P1 HB1 HC1) as Hfc.
          destruct (find_commons g q1 haves) as [commons| |]; try discriminate.
          -- fold (pre_enqueue f wants commons) in EP.
             pose proof (enqueue_total (pre_enqueue f wants commons)
                                       (defer_flag (pre_enqueue f wants commons) done)) as Ht.
             unfold defer_flag in Ht.
             destruct (enqueue ord g (pre_enqueue f wants commons) _); try discriminate.
             intros [Hc _]. apply Ht; auto.
             unfold pre_enqueue; simpl. intros w Hw. apply add_all_In in Hw.
             destruct Hw as [Hw|Hw].
             ++ eapply good_want_exists; eauto.
             ++ eapply good_want_exists. apply HG. destruct HI as [_ [_ [_ [I4 _]]]]. auto.
          -- intros [Hc _]. auto.
        * intros [Hc _]. auto.
      + intros [_ Hr]. auto.
    - unfold process in EP.
      pose proof (q_new_spec g refs qsort Hsort) as Hq.
      destruct (q_new qsort g refs) as [q| |]; try contradiction; try discriminate.
      destruct Hq as [HB HC].
      assert (Hew : match (match wants with [] => EOk q | _ :: _ => ensure_wants g q wants end) with
                    | EOk q' => (exists P', qbase g refs q' P' /\ qclosed g q' P') /\
                                forall w, In w wants -> good_want g refs w
                    | EFuel => False
                    | _ => True
                    end).
      { destruct wants as [|w0 ws].
        - split; eauto. intros ? [].
        - pose proof (ensure_wants_spec g refs (w0 :: ws) q [] HB HC) as H.
          destruct (ensure_wants g q (w0 :: ws)); auto. }
      destruct (match wants with [] => EOk q | _ :: _ => ensure_wants g q wants end) as [q1|s| |];
        try discriminate; auto.
      destruct Hew as [[P1 [HB1 HC1]] Hgood].
      pose proof (find_commons_spec g refs haves q1 P1 HB1 HC1) as Hfc.
      destruct (find_commons g q1 haves) as [commons| |]; try discriminate; auto.
      fold (pre_enqueue f wants commons) in EP.
      pose proof (enqueue_total (pre_enqueue f wants commons)
                                (defer_flag (pre_enqueue f wants commons) done)) as Ht.
      unfold defer_flag in Ht.
      destruct (enqueue ord g (pre_enqueue f wants commons) _); try discriminate.
      apply Ht. unfold pre_enqueue; simpl. intros w Hw. apply add_all_In in Hw.
      destruct Hw as [Hw|Hw].
      + eapply good_want_exists; eauto.
      + eapply good_want_exists. apply HG. destruct HI as [_ [_ [_ [I4 _]]]]. auto.
  Qed.

  (** ** rounds *)
  Lemma run_rounds_spec : forall rs A f os fo,
    finv g A f -> (forall w, In w A -> good_want g refs w) ->
    run_rounds qsort ord g refs f rs = (os, fo) ->
    (forall r o, In (r, o) (combine rs os) -> round_ok r o) /\
    (closed g -> refs_ok g refs -> fo <> None) /\
    (forall f', fo = Some f' ->
       exists A', finv g A' f' /\ (forall w, In w A' -> good_want g refs w) /\
                  (forall w, In w A' <-> In w (accepted_wants rs os) \/ In w A) /\
                  (forall k, In k (f_commons f') <-> In k (all_acks os) \/ In k (f_commons f)) /\
                  f_depth f' = f_depth f /\
                  incl (concat (f_clists f)) (concat (f_clists f'))).
  Proof.
    induction rs as [|r rest IH]; intros A f os fo HI HG H; simpl in H.
    - inversion H; subst. splits.
      + intros r o [].
      + discriminate.
      + intros f' E. inversion E; subst. exists A. splits; auto; simpl; try tauto. apply incl_refl.
    - pose proof (process_spec A f (r_wants r) (r_haves r) (r_done r) HI HG) as HP.
      destruct (process qsort ord g refs f (r_wants r) (r_haves r) (r_done r)) as [f1 acks|sums| |].
      + destruct HP as [HI1 [HG1 [HR [HK [HD [HA HL]]]]]].
        destruct (run_rounds qsort ord g refs f1 rest) as [os1 fo1] eqn:ER. inversion H; subst.
        destruct (IH _ _ _ _ HI1 HG1 ER) as [R1 [R2 R3]]. splits.
        * intros r0 o [E|Hin]; auto. inversion E; subst. destruct r0; exact HR.
        * exact R2.
        * intros f' E. destruct (R3 f' E) as [A' [B1 [B2 [B3 [B4 [B5 B6]]]]]].
          exists A'. splits; auto.
          -- intros w. rewrite B3. simpl. rewrite !in_app_iff. tauto.
          -- intros k. rewrite B4. simpl. rewrite in_app_iff, HK. tauto.
          -- congruence.
          -- eapply incl_tran; eauto.
      + destruct (run_rounds qsort ord g refs f rest) as [os1 fo1] eqn:ER. inversion H; subst.
        destruct (IH _ _ _ _ HI HG ER) as [R1 [R2 R3]]. splits.
        * intros r0 o [E|Hin]; auto. inversion E; subst. destruct r0; exact HP.
        * exact R2.
        * intros f' E. destruct (R3 f' E) as [A' [B1 [B2 [B3 [B4 [B5 B6]]]]]].
          exists A'. splits; auto.
      + inversion H; subst. splits.
        * simpl. rewrite combine_nil. intros r0 o [E|[]]. inversion E; subst. exact HP.
        * intros Hc Hr. exfalso. apply HP. auto.
        * discriminate.
      + contradiction.
  Qed.

  (** ** whole sessions *)
  Record session_ok (depth : nat) (rs : list round) (os : list round_obs) (f : finder) (L : list cid)
    : Prop := mk_session_ok {
    so_rounds : forall r o, In (r, o) (combine rs os) -> round_ok r o;
    so_commons : forall k, In k (f_commons f) <-> In k (all_acks os);
    so_order : order_ok g (f_commons f) L;
    so_cover : forall w a, In w (accepted_wants rs os) -> anc g w a -> covered g (f_commons f) L a;
    so_sound : forall x, In x L -> exists w, In w (accepted_wants rs os) /\ anc g w x;
    so_tables : forall t, In t (concat (f_tlists f)) -> tbl_sound g depth (accepted_wants rs os) t;
    so_wants_in : forall w, In w (accepted_wants rs os) -> In w (f_commons f) \/ In w L;
    so_wants : f_wants f = [];
    so_L : L = concat (f_clists f)
  }.

  Theorem session_spec : forall depth rs os fin,
    session qsort ord g refs depth rs = (os, fin) ->
    (forall r o, In (r, o) (combine rs os) -> round_ok r o) /\
    fin <> Some Fuel /\
    (closed g -> refs_ok g refs -> exists f L, fin = Some (Ok (f, L))) /\
    (forall f L, fin = Some (Ok (f, L)) -> session_ok depth rs os f L).
  Proof.
    intros depth rs os fin H. unfold session in H.
    destruct (run_rounds qsort ord g refs (new_finder depth) rs) as [os' fo] eqn:ER.
    inversion H; subst os' fin; clear H.
    assert (HG0 : forall w : cid, In w [] -> good_want g refs w) by (intros ? []).
    destruct (run_rounds_spec rs [] (new_finder depth) os fo (finv_new g depth) HG0 ER) as [R1 [R2 R3]].
    destruct fo as [f0|].
    - destruct (R3 f0 eq_refl) as [A' [B1 [B2 [B3 [B4 [B5 B6]]]]]].
      assert (Hw : forall w, In w (f_wants f0) -> get_commit g w <> None).
      { intros w Hw. eapply good_want_exists. apply B2. destruct B1 as [_ [_ [_ [I4 _]]]]. auto. }
      unfold commits_to_send.
      assert (Hfl : match flush_wants ord g f0 with
                    | Fuel => False | ErrStore => ~ closed g | Ok _ => True end).
      { unfold flush_wants. pose proof (enqueue_total f0 false Hw) as Ht.
        destruct (f_wants f0); auto. }
      destruct (flush_wants ord g f0) as [f1| |] eqn:EF.
      + destruct (flush_finv ord Hord g A' f0 f1 B1 EF) as [F1 [F2 [F3 [F4 F5]]]].
        splits; auto.
        * discriminate.
        * intros _ _. eauto.
        * intros f L E. inversion E; subst f L; clear E.
          destruct F1 as [I1 [I2 [I3 [I4 I5]]]].
          assert (HA : forall w, In w A' <-> In w (accepted_wants rs os)).
          { intros w. rewrite B3. simpl. tauto. }
          constructor; auto.
          -- intros k. rewrite F2, B4. simpl. tauto.
          -- intros w a Hw0 Ha. apply HA in Hw0. destruct (I2 w Hw0) as [Hp|[Hc|Hl]].
             ++ rewrite F5 in Hp. destruct Hp.
             ++ right. exists w. auto.
             ++ eapply order_ok_closed; eauto.
          -- intros x Hx. destruct (I3 x Hx) as [w [Hw0 Ha]]. exists w. split; auto. apply HA; auto.
          -- intros t Ht0. rewrite F3, B5 in I5. simpl in I5.
             eapply tbl_sound_incl; [|apply I5; auto]. intros w Hw'. apply HA; auto.
          -- intros w Hw0. apply HA in Hw0. destruct (I2 w Hw0) as [Hp|[Hc|Hl]]; auto.
             rewrite F5 in Hp. destruct Hp.
      + splits; auto.
        * discriminate.
        * intros Hc _. contradiction.
        * discriminate.
      + contradiction.
    - splits; auto.
      + discriminate.
      + intros Hc Hr. exfalso. apply (R2 Hc Hr). reflexivity.
      + discriminate.
  Qed.
End Session.
