(** C15 - facts about the two SQLite predicates of model/Like.v. *)
From W.lib Require Import Tree Bytes.
From W.model Require Import RefStore Like.
From Coq Require Import Lia ZifyNat ZifyN ZifyBool.
Local Open Scope N_scope.

(** instr never answers a position between 1 and its running counter *)
Lemma instr_from_bounds : forall h needle f n,
  instr_from f n h needle = 0 \/ n <= instr_from f n h needle.
Proof.
  induction h as [|b h IH]; intros needle f n; cbn [instr_from]; [now left|].
  destruct (negb f && is_cont b).
  - apply IH.
  - destruct (is_prefix needle (b :: h)); [right; lia|].
    destruct (IH needle false (n + 1)) as [H|H]; [now left|right; lia].
Qed.

Lemma is_prefix_nil_r : forall p, is_prefix p [] = match p with [] => true | _ => false end.
Proof. now intros [|x p]. Qed.

(** the repaired filter: [instr(name, p) = 1] is exactly "name literally starts with p" *)
Lemma instr_prefix_correct : forall p s, instr_prefix p s = is_prefix p s.
Proof.
  intros p s. unfold instr_prefix, instr.
  destruct p as [|x p]; [reflexivity|].
  destruct s as [|b s]; [reflexivity|].
  cbn [instr_from negb andb].
  destruct (is_prefix (x :: p) (b :: s)) eqn:E; [reflexivity|].
  destruct (instr_from_bounds s (x :: p) false (1 + 1)) as [H|H]; rewrite ?H; [reflexivity|].
  apply N.eqb_neq. lia.
Qed.

(** the pre-fix filter is NOT literal prefix matching *)
Lemma like_prefix_refuted : exists p s, like_prefix p s <> is_prefix p s.
Proof. exists [97; und], [97; 98]. vm_compute. discriminate. Qed.

Lemma like_prefix_case_refuted : exists p s, like_prefix p s <> is_prefix p s.
Proof. exists [97], [65]. vm_compute. discriminate. Qed.

(** ... but it only ever selects too much: every literal match is a LIKE match *)
Lemma like_pct_all : forall s, like_match [pct] s = true.
Proof.
  intros s. cbn [like_match]. rewrite N.eqb_refl.
  induction s as [|d s IH]; [reflexivity|].
  cbn. exact IH.
Qed.

Lemma like_try_weaken : forall pat s d,
  (fix try (t : bytes) : bool := like_match pat t || match t with [] => false | _ :: t' => try t' end) s = true ->
  (fix try (t : bytes) : bool := like_match pat t || match t with [] => false | _ :: t' => try t' end) (d :: s) = true.
Proof. intros pat s d H. cbn. cbn in H. rewrite H. apply orb_true_r. Qed.

Lemma like_prefix_complete : forall p s, is_prefix p s = true -> like_prefix p s = true.
Proof.
  unfold like_prefix.
  induction p as [|c p IH]; intros s H.
  - apply like_pct_all.
  - destruct s as [|d s]; [discriminate|].
    cbn [is_prefix] in H. apply andb_prop in H. destruct H as [Hcd Hp].
    apply N.eqb_eq in Hcd. subst d.
    specialize (IH s Hp).
    cbn [app like_match].
    destruct (c =? pct) eqn:Epct.
    + apply like_try_weaken. destruct s; rewrite IH; reflexivity.
    + destruct (c =? und) eqn:Eund.
      * apply N.eqb_eq in Eund. subst c. cbn [skip_char].
        replace (192 <=? und) with false by reflexivity. exact IH.
      * rewrite N.eqb_refl. exact IH.
Qed.
