(** Bridge B5 (C20 -> C05), proofs: the merge collector running on the C20 hash-set model
    (model/BridgeHashSetMerge.v) computes exactly what model/Merge.v computes with its
    abstract discarded-key list, provided the key sums involved are 16-byte values without
    collision.  The C20 side enters through [HashSet_proofs.refines] (= C20_refines) and
    [HashSet_proofs.member_after_flush] (= C20_member); the C05 side through the theorems
    of MergeTable_proofs, transported along the equality [hs_run_merge_eq]. *)
From W.lib Require Import Tree Bytes GoSlice.
From W.model Require Import ColDiff Merge MergeSpec BridgeHashSetMerge.
From W.model Require HashSet HashSetSpec.
From W.proofs Require HashSet_proofs.
From W.proofs Require Import Merge_proofs ColDiff_proofs MergeTable_proofs.
From Coq Require Import Arith Lia Bool List NArith Permutation Sorting.Sorted.
Import ListNotations.

(** ---- 1. the abstract set of C20 on the collector's operation sequence ---- *)

Lemma spec_run_adds : forall l s,
  HashSetSpec.spec_run s (map HashSet.OAdd l) = repeat HashSet.RUnit (length l).
Proof.
  induction l as [|a l IH]; intros s; cbn [map HashSetSpec.spec_run length repeat]; [reflexivity|].
  destruct (HashSetSpec.spec_step s (HashSet.OAdd a)) as [s' r] eqn:E.
  assert (Er : r = HashSet.RUnit).
  { cbn [HashSetSpec.spec_step] in E.
    destruct (HashSetSpec.mem a (HashSetSpec.fl s)); [now inversion E|].
    destruct (Nat.leb _ _); now inversion E. }
  subst r. f_equal. apply IH.
Qed.

Lemma spec_run_has : forall qs s,
  HashSetSpec.spec_run s (map HashSet.OHas qs)
  = map (fun q => HashSet.RBool (HashSetSpec.mem q (HashSetSpec.fl s))) qs.
Proof.
  induction qs as [|q qs IH]; intros s; cbn [map HashSetSpec.spec_run HashSetSpec.spec_step]; [reflexivity|].
  f_equal. apply IH.
Qed.

(** the flushed content of the abstract set after the Adds and the Flush *)
Definition flushed (bsz : nat) (hs : list HashSet.hash) : list HashSet.hash :=
  HashSetSpec.fl (HashSetSpec.spec_flush
    (HashSet_proofs.spec_exec (HashSetSpec.spec_new bsz) (map HashSet.OAdd hs))).

Lemma flushed_in : forall bsz hs x, In x (flushed bsz hs) <-> In x hs.
Proof.
  intros bsz hs x. unfold flushed, HashSetSpec.spec_flush. cbn [HashSetSpec.fl].
  rewrite HashSet_proofs.spec_adds_content.
  unfold HashSetSpec.spec_new. cbn [HashSetSpec.fl HashSetSpec.pend app In]. tauto.
Qed.

Lemma mem_flushed : forall bsz hs x, HashSetSpec.mem x (flushed bsz hs) = true <-> In x hs.
Proof. intros. rewrite HashSet_proofs.mem_In. apply flushed_in. Qed.

(** ---- facts about model/Merge.v used below (independent of the hash set) ---- *)

Lemma merge_records_keys : forall cd base others kr,
  In kr (merge_records cd base others) -> In (k_key kr) (all_keys base others).
Proof.
  intros cd base others kr H. unfold merge_records in H. apply in_flat_map in H as (k & Hk & Hin).
  cbv zeta in Hin. destruct (no_changes (mk_mrec base others k)); [destruct Hin|].
  destruct Hin as [<-|[]]. exact Hk.
Qed.

Lemma pick_nil : forall r, pick [] r = [].
Proof. reflexivity. Qed.

(** under the C05 guard the key is not empty *)
Lemma guard_pk_idx : forall cols pk base others, guard cols pk base others -> pk_idx base <> [].
Proof.
  intros cols pk base others Hg Eidx.
  rewrite (l3_pk_idx cols pk base others Hg base (l3_wf_base cols pk base others Hg)) in Eidx.
  pose proof (l3_p_pos cols pk base others Hg) as Hp.
  destruct (length pk); [lia|discriminate Eidx].
Qed.

Lemma guard_keyless_ok : forall cols pk base others others',
  guard cols pk base others -> keyless_ok base others'.
Proof. intros cols pk base others others' Hg Eidx. exfalso. now apply (guard_pk_idx _ _ _ _ Hg). Qed.

(** the key universe does not depend on the order of the branches *)
Lemma all_keys_in : forall base others k,
  In k (all_keys base others) <->
  filter (diff_enabled base) others <> [] /\
  In k (map (key_of base) (t_rows base) ++
        flat_map (fun o => map (key_of o) (t_rows o)) (filter (diff_enabled base) others)).
Proof.
  intros base others k. unfold all_keys.
  destruct (filter (diff_enabled base) others) as [|o en] eqn:E.
  - split; [intros []|intros [H _]; now elim H].
  - rewrite dedupe_keys_in. split; [intros H; split; [discriminate|exact H]|intros [_ H]; exact H].
Qed.

Lemma all_keys_perm : forall base others others' k,
  Permutation others others' -> In k (all_keys base others) -> In k (all_keys base others').
Proof.
  intros base others others' k HP H. apply all_keys_in in H as [Hne H]. apply all_keys_in.
  pose proof (perm_filter (diff_enabled base) others others' HP) as HPf.
  split.
  - intros E. rewrite E in HPf. apply Permutation_sym, Permutation_nil in HPf. contradiction.
  - apply in_app_or in H as [H|H]; apply in_or_app; [now left|right].
    apply in_flat_map in H as (o & Ho & Hk). apply in_flat_map. exists o. split; [|assumption].
    now apply (Permutation_in o HPf).
Qed.

Section Bridge.
  Variable hk : list bytes -> HashSet.hash.
  Variable bsz : nat.

  Lemma discard_ops_wf : forall adds queries,
    (forall k, In k (adds ++ queries) -> HashSetSpec.wf_hash (hk k)) ->
    Forall HashSetSpec.wf_op (discard_ops hk adds queries).
  Proof.
    intros adds queries Hwf. unfold discard_ops. apply Forall_app. split.
    - apply Forall_forall. intros o Ho. apply in_map_iff in Ho as (k & <- & Hk).
      cbn [HashSetSpec.wf_op]. apply Hwf, in_or_app. now left.
    - constructor; [exact I|]. apply Forall_forall. intros o Ho. apply in_map_iff in Ho as (k & <- & Hk).
      cbn [HashSetSpec.wf_op]. apply Hwf, in_or_app. now right.
  Qed.

  (** C20_refines on the collector's sequence: the implementation run IS the abstract run *)
  Lemma discard_outs_refines : forall adds queries,
    (forall k, In k (adds ++ queries) -> HashSetSpec.wf_hash (hk k)) ->
    discard_outs hk bsz adds queries
    = HashSetSpec.spec_run (HashSetSpec.spec_new bsz) (discard_ops hk adds queries).
  Proof.
    intros adds queries Hwf. unfold discard_outs.
    apply HashSet_proofs.refines. now apply discard_ops_wf.
  Qed.

  (** ... whose answers are [HashSetSpec.mem] on the flushed content *)
  Lemma discard_outs_mem : forall adds queries,
    (forall k, In k (adds ++ queries) -> HashSetSpec.wf_hash (hk k)) ->
    discard_outs hk bsz adds queries
    = repeat HashSet.RUnit (S (length adds)) ++
      map (fun q => HashSet.RBool (HashSetSpec.mem (hk q) (flushed bsz (map hk adds)))) queries.
  Proof.
    intros adds queries Hwf. rewrite (discard_outs_refines adds queries Hwf). unfold discard_ops.
    rewrite <- (map_map hk HashSet.OAdd adds), <- (map_map hk HashSet.OHas queries).
    rewrite HashSet_proofs.spec_run_app, spec_run_adds, map_length.
    cbn [HashSetSpec.spec_run HashSetSpec.spec_step].
    rewrite spec_run_has, map_map. fold (flushed bsz (map hk adds)).
    replace (S (length adds)) with (length adds + 1) by lia.
    rewrite repeat_app, <- app_assoc. reflexivity.
  Qed.

  (** membership of a key sum among the added sums = membership of the key among the keys,
      when the queried key collides with no other added key *)
  Lemma mem_keys : forall adds q,
    (forall a, In a adds -> hk q = hk a -> q = a) ->
    HashSetSpec.mem (hk q) (flushed bsz (map hk adds)) = existsb (keqb q) adds.
  Proof.
    intros adds q Hinj. apply eq_true_iff_eq. rewrite mem_flushed, in_map_iff, existsb_exists.
    split.
    - intros (a & Ea & Ha). exists a. split; [assumption|]. apply keqb_eq. apply Hinj; [assumption|now symmetry].
    - intros (a & Ha & Ea). apply keqb_eq in Ea. subst a. now exists q.
  Qed.

  Lemma sums_ok_wf : forall ks, sums_ok hk ks -> forall k, In k ks -> HashSetSpec.wf_hash (hk k).
  Proof. intros ks [H _]. exact H. Qed.

  Lemma sums_ok_incl : forall ks ks', incl ks' ks -> sums_ok hk ks -> sums_ok hk ks'.
  Proof.
    intros ks ks' Hi [Hw Hj]. split.
    - intros k Hk. apply Hw, Hi, Hk.
    - intros a b Ha Hb. apply Hj; apply Hi; assumption.
  Qed.

  Lemma sums_okb_ok : forall ks, sums_okb hk ks = true -> sums_ok hk ks.
  Proof.
    intros ks H. unfold sums_okb in H. apply andb_true_iff in H as [Hw Hj].
    rewrite forallb_forall in Hw, Hj. split.
    - intros k Hk. unfold HashSetSpec.wf_hash. apply N.ltb_lt. now apply Hw.
    - intros a b Ha Hb E. specialize (Hj a Ha). rewrite forallb_forall in Hj. specialize (Hj b Hb).
      rewrite E, N.eqb_refl in Hj. cbn [implb] in Hj. now apply keqb_eq.
  Qed.

  (** THE SET-LEVEL BRIDGE: on the hash-set model the collector's sequence answers, for every
      queried key, list membership among the added keys - the semantics Merge.v gives to its
      [discarded] list; no operation errs *)
  Lemma discard_outs_set : forall adds queries,
    sums_ok hk (adds ++ queries) ->
    discard_outs hk bsz adds queries
    = repeat HashSet.RUnit (S (length adds)) ++
      map (fun q => HashSet.RBool (existsb (keqb q) adds)) queries.
  Proof.
    intros adds queries [Hw Hj]. rewrite (discard_outs_mem adds queries Hw). f_equal.
    apply map_ext_in. intros q Hq. f_equal. apply mem_keys.
    intros a Ha. apply Hj; apply in_or_app; [now right|now left].
  Qed.

  (** the same fact in the shape of C20_member (one query), obtained FROM C20_member *)
  Lemma discard_member : forall adds q,
    sums_ok hk (q :: adds) ->
    last (discard_outs hk bsz adds [q]) HashSet.RErr = HashSet.RBool (existsb (keqb q) adds).
  Proof.
    intros adds q [Hw Hj]. unfold discard_outs, discard_ops. cbn [map].
    rewrite <- (map_map hk HashSet.OAdd adds).
    rewrite HashSet_proofs.member_after_flush.
    - f_equal. destruct (in_dec N.eq_dec (hk q) (map hk adds)) as [Hin|Hnin].
      + symmetry. apply existsb_exists. apply in_map_iff in Hin as (a & Ea & Ha).
        exists a. split; [assumption|]. apply keqb_eq. apply Hj; [now left|now right|now symmetry].
      + symmetry. apply not_true_is_false. intros H. apply Hnin.
        apply existsb_exists in H as (a & Ha & Ea). apply keqb_eq in Ea. subst a. now apply in_map.
    - apply Forall_forall. intros h Hh. apply in_map_iff in Hh as (a & <- & Ha). apply Hw. now right.
    - apply Hw. now left.
  Qed.

  (** ---- 2. the collector's loop over the answers ---- *)

  Lemma existsb_err_units : forall n, existsb out_err (repeat HashSet.RUnit n) = false.
  Proof. induction n as [|n IH]; [reflexivity|exact IH]. Qed.

  Lemma existsb_err_bools : forall (A : Type) (f : A -> bool) l,
    existsb out_err (map (fun q => HashSet.RBool (f q)) l) = false.
  Proof. intros A f l. induction l as [|x l IH]; [reflexivity|exact IH]. Qed.

  Lemma skipn_units : forall n (X : list HashSet.out), skipn n (repeat HashSet.RUnit n ++ X) = X.
  Proof. induction n as [|n IH]; intros X; [reflexivity|]. cbn [repeat app skipn]. apply IH. Qed.

  Lemma keep_unfound_filter : forall (f : list bytes -> bool) idx rows,
    keep_unfound rows (map (fun q => HashSet.RBool (f q)) (map (pick idx) rows))
    = filter (fun r => negb (f (pick idx r))) rows.
  Proof.
    intros f idx rows. induction rows as [|r rows IH]; [reflexivity|].
    cbn [map keep_unfound filter]. destruct (f (pick idx r)); cbn [negb]; [exact IH|now f_equal].
  Qed.

  Lemma hs_untouched_eq : forall adds idx rows,
    sums_ok hk (adds ++ map (pick idx) rows) ->
    hs_untouched hk bsz adds idx rows
    = Ok (filter (fun r => negb (existsb (keqb (pick idx r)) adds)) rows).
  Proof.
    intros adds idx rows Hok. unfold hs_untouched. cbv zeta.
    rewrite (discard_outs_set adds (map (pick idx) rows) Hok).
    rewrite existsb_app, existsb_err_units.
    rewrite (existsb_err_bools (list bytes) (fun q => existsb (keqb q) adds)). cbn [orb].
    rewrite skipn_units. f_equal.
    apply (keep_unfound_filter (fun q => existsb (keqb q) adds)).
  Qed.

  (** the order of the Add calls (Go map iteration, collector goroutine vs caller) and
      repeated Adds of a key do not matter *)
  Lemma hs_untouched_any_order : forall adds adds' idx rows,
    (forall k, In k adds <-> In k adds') ->
    sums_ok hk (adds ++ map (pick idx) rows) ->
    hs_untouched hk bsz adds' idx rows = hs_untouched hk bsz adds idx rows.
  Proof.
    intros adds adds' idx rows Hsame Hok.
    rewrite (hs_untouched_eq adds idx rows Hok).
    rewrite (hs_untouched_eq adds' idx rows).
    - f_equal. apply filter_ext. intros r. f_equal. apply eq_true_iff_eq.
      rewrite !existsb_exists. split; intros (a & Ha & Ea); exists a; (split; [now apply Hsame|assumption]).
    - apply (sums_ok_incl (adds ++ map (pick idx) rows)); [|assumption].
      intros k Hk. apply in_app_or in Hk as [Hk|Hk]; apply in_or_app; [left; now apply Hsame|now right].
  Qed.

  (** ---- 3. collector, result and merge: equal to model/Merge.v ---- *)

  Lemma hs_collected_rows_eq : forall base others recs policy,
    sums_ok hk (merge_keys base others) -> keyless_ok base others ->
    (forall kr, In kr recs -> In (k_key kr) (all_keys base others)) ->
    hs_collected_rows hk bsz base recs policy = Ok (collected_rows base recs policy).
  Proof.
    intros base others recs policy Hok Hkl Hrecs. unfold hs_collected_rows, collected_rows. cbv zeta.
    set (discarded := map k_key (filter (fun kr => r_resolved (k_res kr) || negb (Nat.eqb policy 0)) recs)).
    assert (Hdisc : forall k, In k discarded -> In k (all_keys base others)).
    { intros k Hk. subst discarded. apply in_map_iff in Hk as (kr & <- & Hkr).
      apply filter_In in Hkr as [Hkr _]. now apply Hrecs. }
    rewrite hs_untouched_eq.
    - cbn [rbind]. do 3 f_equal.
      destruct (pk_idx base) as [|i idx] eqn:Eidx; [|reflexivity].
      assert (Hno : existsb (keqb []) discarded = false).
      { apply not_true_is_false. intros H. apply existsb_exists in H as (a & Ha & Ea).
        apply keqb_eq in Ea. subst a. apply (Hkl Eidx). now apply Hdisc. }
      induction (t_rows base) as [|r rows IH]; [reflexivity|].
      cbn [filter]. rewrite pick_nil, Hno. cbn [negb]. now f_equal.
    - apply (sums_ok_incl (merge_keys base others)); [|assumption].
      unfold merge_keys. intros k Hk. apply in_app_or in Hk as [Hk|Hk]; apply in_or_app; [left; now apply Hdisc|now right].
  Qed.

  Lemma hs_result_rows_eq : forall base others recs policy removed blocks,
    sums_ok hk (merge_keys base others) -> keyless_ok base others ->
    (forall kr, In kr recs -> In (k_key kr) (all_keys base others)) ->
    hs_result_rows hk bsz base recs policy removed blocks = result_rows base recs policy removed blocks.
  Proof.
    intros base others recs policy removed blocks Hok Hkl Hrecs. unfold hs_result_rows, result_rows.
    rewrite (hs_collected_rows_eq base others recs policy Hok Hkl Hrecs). reflexivity.
  Qed.

  (** THE MERGE-LEVEL BRIDGE *)
  Theorem hs_run_merge_eq : forall base others policy remmode blocks,
    sums_ok hk (merge_keys base others) -> keyless_ok base others ->
    hs_run_merge hk bsz base others policy remmode blocks = run_merge base others policy remmode blocks.
  Proof.
    intros base others policy remmode blocks Hok Hkl. unfold hs_run_merge, run_merge.
    destruct (negb (start_ok others)); [reflexivity|].
    destruct (compare_columns (header_of base) (map header_of others)) as [cd|e|]; cbn [rbind]; try reflexivity.
    rewrite (hs_result_rows_eq base others (merge_records cd base others) policy _ blocks Hok Hkl
               (merge_records_keys cd base others)).
    reflexivity.
  Qed.

  Lemma sums_ok_perm : forall base others others',
    Permutation others others' -> sums_ok hk (merge_keys base others) -> sums_ok hk (merge_keys base others').
  Proof.
    intros base others others' HP. apply sums_ok_incl. unfold merge_keys. intros k Hk.
    apply in_app_or in Hk as [Hk|Hk]; apply in_or_app; [left|now right].
    now apply (all_keys_perm base others' others k (Permutation_sym HP)).
  Qed.

  (** ---- 4. the C05 table-level theorems with the collector on the C20 hash set ---- *)

  Theorem hs_merge_guard : forall cols pk base others policy remmode blocks,
    sums_ok hk (merge_keys base others) ->
    guard cols pk base others -> policy < 2 ->
    exists o, hs_run_merge hk bsz base others policy remmode blocks = Ok o /\
      mo_cols o = cols /\ cd_names (mo_cd o) = cols /\
      forall r, In r (mo_rows o) <->
                exists k, table_keys pk base others k /\ final_row cols base others policy k = Some r.
  Proof.
    intros cols pk base others policy remmode blocks Hok Hg Hp.
    rewrite (hs_run_merge_eq base others policy remmode blocks Hok (guard_keyless_ok _ _ _ _ _ Hg)).
    now apply merge_guard.
  Qed.

  Theorem hs_result_sorted : forall cols pk base others policy remmode blocks o,
    sums_ok hk (merge_keys base others) ->
    guard cols pk base others -> policy < 2 ->
    hs_run_merge hk bsz base others policy remmode blocks = Ok o ->
    StronglySorted (fun a b => klt (kf (length pk) a) (kf (length pk) b) = true) (mo_rows o).
  Proof.
    intros cols pk base others policy remmode blocks o Hok Hg Hp Hrun.
    rewrite (hs_run_merge_eq base others policy remmode blocks Hok (guard_keyless_ok _ _ _ _ _ Hg)) in Hrun.
    now apply (merge_guard_sorted cols pk base others policy remmode blocks o).
  Qed.

  Theorem hs_identity : forall cols pk base X policy remmode blocks,
    sums_ok hk (merge_keys base [X; base]) ->
    guard cols pk base [X; base] -> policy < 2 ->
    exists o, hs_run_merge hk bsz base [X; base] policy remmode blocks = Ok o /\ mo_cols o = cols /\
      forall r, In r (mo_rows o) <-> In r (t_rows X).
  Proof.
    intros cols pk base X policy remmode blocks Hok Hg Hp.
    rewrite (hs_run_merge_eq base [X; base] policy remmode blocks Hok (guard_keyless_ok _ _ _ _ _ Hg)).
    now apply (law_identity cols pk).
  Qed.

  Theorem hs_identity_left : forall cols pk base X policy remmode blocks,
    sums_ok hk (merge_keys base [base; X]) ->
    guard cols pk base [base; X] -> policy < 2 ->
    exists o, hs_run_merge hk bsz base [base; X] policy remmode blocks = Ok o /\ mo_cols o = cols /\
      forall r, In r (mo_rows o) <-> In r (t_rows X).
  Proof.
    intros cols pk base X policy remmode blocks Hok Hg Hp.
    rewrite (hs_run_merge_eq base [base; X] policy remmode blocks Hok (guard_keyless_ok _ _ _ _ _ Hg)).
    now apply (law_identity_left cols pk).
  Qed.

  Theorem hs_idem : forall cols pk base X policy remmode blocks,
    sums_ok hk (merge_keys base [X; X]) ->
    guard cols pk base [X; X] -> policy < 2 ->
    exists o, hs_run_merge hk bsz base [X; X] policy remmode blocks = Ok o /\ mo_cols o = cols /\
      forall r, In r (mo_rows o) <-> In r (t_rows X).
  Proof.
    intros cols pk base X policy remmode blocks Hok Hg Hp.
    rewrite (hs_run_merge_eq base [X; X] policy remmode blocks Hok (guard_keyless_ok _ _ _ _ _ Hg)).
    now apply (law_idem cols pk).
  Qed.

  Theorem hs_disjoint : forall cols pk base X Y policy remmode blocks,
    sums_ok hk (merge_keys base [X; Y]) ->
    guard cols pk base [X; Y] -> policy < 2 ->
    (forall k, disjoint_at (length cols) (lookup base k) (lookup X k) (lookup Y k)) ->
    exists o, hs_run_merge hk bsz base [X; Y] policy remmode blocks = Ok o /\ mo_cols o = cols /\
      Forall (fun kr => r_resolved (k_res kr) = true) (mo_recs o) /\
      forall r, In r (mo_rows o) <->
        exists k, table_keys pk base [X; Y] k /\
                  combined (length cols) (lookup base k) (lookup X k) (lookup Y k) = Some r.
  Proof.
    intros cols pk base X Y policy remmode blocks Hok Hg Hp Hd.
    rewrite (hs_run_merge_eq base [X; Y] policy remmode blocks Hok (guard_keyless_ok _ _ _ _ _ Hg)).
    now apply (law_disjoint cols pk).
  Qed.

  Theorem hs_untouched_rows : forall cols pk base others policy remmode blocks r,
    sums_ok hk (merge_keys base others) ->
    guard cols pk base others -> policy < 2 ->
    In r (t_rows base) -> (forall o, In o others -> In r (t_rows o)) ->
    exists o, hs_run_merge hk bsz base others policy remmode blocks = Ok o /\ mo_cols o = cols /\ In r (mo_rows o).
  Proof.
    intros cols pk base others policy remmode blocks r Hok Hg Hp Hr Ho.
    rewrite (hs_run_merge_eq base others policy remmode blocks Hok (guard_keyless_ok _ _ _ _ _ Hg)).
    now apply (law_untouched_rows cols pk).
  Qed.

  Theorem hs_untouched_cells : forall cols pk base others policy remmode blocks br i,
    sums_ok hk (merge_keys base others) ->
    guard cols pk base others -> policy < 2 ->
    In br (t_rows base) -> i < length cols ->
    (forall o, In o others -> exists ro, lookup o (kf (length pk) br) = Some ro /\ nth i ro [] = nth i br []) ->
    exists o, hs_run_merge hk bsz base others policy remmode blocks = Ok o /\
      forall r, In r (mo_rows o) -> kf (length pk) r = kf (length pk) br -> nth i r [] = nth i br [].
  Proof.
    intros cols pk base others policy remmode blocks br i Hok Hg Hp Hbr Hi Ho.
    rewrite (hs_run_merge_eq base others policy remmode blocks Hok (guard_keyless_ok _ _ _ _ _ Hg)).
    now apply (law_untouched_cells cols pk).
  Qed.

  Theorem hs_order : forall cols pk base others others' policy remmode blocks,
    sums_ok hk (merge_keys base others) ->
    guard cols pk base others -> Permutation others others' -> policy < 2 ->
    exists o o', hs_run_merge hk bsz base others policy remmode blocks = Ok o /\
                 hs_run_merge hk bsz base others' policy remmode blocks = Ok o' /\
                 mo_cols o = mo_cols o' /\ forall r, In r (mo_rows o) <-> In r (mo_rows o').
  Proof.
    intros cols pk base others others' policy remmode blocks Hok Hg HP Hp.
    destruct (law_order cols pk base others others' policy remmode blocks Hg HP Hp)
      as (o & o' & E & E' & Hc & Hr).
    exists o, o'.
    rewrite (hs_run_merge_eq base others policy remmode blocks Hok (guard_keyless_ok _ _ _ _ _ Hg)).
    rewrite (hs_run_merge_eq base others' policy remmode blocks (sums_ok_perm base others others' HP Hok)).
    - repeat split; try assumption; apply Hr.
    - exact (guard_keyless_ok _ _ _ _ _ Hg).
  Qed.
End Bridge.

Lemma keyless_okb_ok : forall base others, keyless_okb base others = true -> keyless_ok base others.
Proof.
  intros base others H Eidx Hin. unfold keyless_okb in H. rewrite Eidx in H. cbn [length Nat.eqb negb orb] in H.
  apply negb_true_iff in H. assert (E : existsb (keqb []) (all_keys base others) = true).
  { apply existsb_exists. exists []. split; [assumption|apply keqb_refl]. }
  rewrite E in H. discriminate H.
Qed.

(** ---- 5. concrete instances (non-vacuity; the tables of TestMergerAutoResolve, as in C05) ---- *)
From W.proofs Require Import Merge_witness_proofs.

Lemma ar_guard others :
  others <> [] -> (forall t, In t others -> In t [ar_base; ar_b1; ar_b2]) ->
  guard ar_cols [s_a] ar_base others.
Proof.
  intros Hne Hin.
  split; [apply nodupb_ok; reflexivity|]. split; [discriminate|]. split; [now exists [s_b; s_c]|].
  split; [assumption|]. split; [apply ar_wf; now left|].
  apply Forall_forall. intros t Ht. apply ar_wf. now apply Hin.
Qed.

(** under the guard a key that [lookup] finds is a key of the tables *)
Lemma lookup_table_keys cols pk base others t k r :
  guard cols pk base others -> t = base \/ In t others -> lookup t k = Some r ->
  table_keys pk base others k.
Proof.
  intros Hg Ht E. unfold lookup in E. apply find_some in E as [Hin Hk]. apply keqb_eq in Hk.
  rewrite (l3_key_of cols pk base others Hg t r (l3_wf_any cols pk base others Hg t Ht)) in Hk.
  exists t. split; [assumption|]. exists r. now split.
Qed.

Lemma ar_disjoint : forall k, disjoint_at (length ar_cols) (lookup ar_base k) (lookup ar_b1 k) (lookup ar_b2 k).
Proof.
  intros k. pose proof (proj1 guard_nonvacuous) as Hg.
  destruct (proj2 guard_nonvacuous) as (_ & _ & _ & Hd). destruct (Hd k) as [H|Hnk]; [exact H|].
  assert (Hn : forall t, In t [ar_base; ar_b1; ar_b2] -> lookup t k = None).
  { intros t Ht. destruct (lookup t k) as [r|] eqn:E; [|reflexivity]. exfalso. apply Hnk.
    apply (lookup_table_keys ar_cols [s_a] ar_base [ar_b1; ar_b2] t k r Hg); [|exact E].
    destruct Ht as [<-|Ht]; [now left|now right]. }
  rewrite (Hn ar_base), (Hn ar_b1), (Hn ar_b2); cbn; auto.
Qed.

Definition nv_branch_lists : list (list table) :=
  [[ar_b1; ar_b2]; [ar_b2; ar_b1]; [ar_b1; ar_base]; [ar_base; ar_b1]; [ar_b1; ar_b1]].

(** the toy key sum meets [sums_ok] on every instance used below, and the guard holds *)
Lemma nv_premises others : In others nv_branch_lists ->
  sums_ok hk_toy (merge_keys ar_base others) /\ guard ar_cols [s_a] ar_base others.
Proof.
  intros H. split.
  - apply sums_okb_ok. repeat (destruct H as [<-|H]; [vm_compute; reflexivity|]). destruct H.
  - apply ar_guard.
    + repeat (destruct H as [<-|H]; [discriminate|]). destruct H.
    + intros t Ht. repeat (destruct H as [<-|H];
        [repeat (destruct Ht as [<-|Ht]; [cbn; tauto|]); destruct Ht|]). destruct H.
Qed.

Lemma nv_run_auto_resolve :
  exists o, hs_run_merge hk_toy 0 ar_base [ar_b1; ar_b2] 1 1 false = Ok o /\
            mo_rows o = [[s_1; s_e; s_r]; [s_3; s_s; s_d]; [s_4; s_r; s_t]] /\
            Forall (fun kr => r_resolved (k_res kr) = true) (mo_recs o).
Proof. eexists. split; [vm_compute; reflexivity|]. split; [reflexivity|]. repeat constructor. Qed.

Lemma nv_run_swapped :
  exists o, hs_run_merge hk_toy 0 ar_base [ar_b2; ar_b1] 1 1 false = Ok o /\
            mo_rows o = [[s_1; s_e; s_r]; [s_3; s_s; s_d]; [s_4; s_r; s_t]].
Proof. eexists. split; [vm_compute; reflexivity|reflexivity]. Qed.

Lemma nv_run_identity :
  (exists o, hs_run_merge hk_toy 2 ar_base [ar_b1; ar_base] 0 0 true = Ok o /\ mo_rows o = t_rows ar_b1) /\
  (exists o, hs_run_merge hk_toy 2 ar_base [ar_base; ar_b1] 0 0 true = Ok o /\ mo_rows o = t_rows ar_b1) /\
  (exists o, hs_run_merge hk_toy 2 ar_base [ar_b1; ar_b1] 0 0 true = Ok o /\ mo_rows o = t_rows ar_b1).
Proof. repeat split; (eexists; split; [vm_compute; reflexivity|reflexivity]). Qed.

(** the set-level statements on a concrete sequence: batch size 2, so the third Add flushes
    on its own; the queries hit, miss, hit *)
Lemma nv_discard :
  sums_ok hk_toy ([[s_1]; [s_2]; [s_3]; [s_2]] ++ [[s_1]; [s_4]; [s_3]]) /\
  discard_outs hk_toy 2 [[s_1]; [s_2]; [s_3]; [s_2]] [[s_1]; [s_4]; [s_3]]
  = [HashSet.RUnit; HashSet.RUnit; HashSet.RUnit; HashSet.RUnit; HashSet.RUnit;
     HashSet.RBool true; HashSet.RBool false; HashSet.RBool true] /\
  hs_untouched hk_toy 2 [[s_3]; [s_2]; [s_1]] [0] (t_rows ar_base) = Ok [[s_4; s_r; s_t]].
Proof. split; [apply sums_okb_ok; vm_compute; reflexivity|]. split; vm_compute; reflexivity. Qed.

(** a keyless instance (known finding F2 of C05) meets the premises of the general bridge *)
Lemma nv_keyless :
  sums_ok hk_toy (merge_keys f2_base [f2_b1; f2_b2]) /\ keyless_ok f2_base [f2_b1; f2_b2] /\
  pk_idx f2_base = [] /\
  exists o, hs_run_merge hk_toy 0 f2_base [f2_b1; f2_b2] 0 1 false = Ok o /\ mo_rows o = [[s_a; s_1]].
Proof.
  split; [apply sums_okb_ok; vm_compute; reflexivity|]. split; [apply keyless_okb_ok; vm_compute; reflexivity|].
  split; [reflexivity|]. eexists. split; [vm_compute; reflexivity|reflexivity].
Qed.

(** ---- 6. the premises are needed ---- *)

(** two keys with the same sum: key 4 (untouched) is taken for a discarded one and its row
    is lost *)
Lemma collision_loses_row :
  (exists o, hs_run_merge (fun _ => 5%N) 0 ar_base [ar_b1; ar_b2] 1 1 false = Ok o /\
             mo_rows o = [[s_1; s_e; s_r]; [s_3; s_s; s_d]]) /\
  (exists o, run_merge ar_base [ar_b1; ar_b2] 1 1 false = Ok o /\
             mo_rows o = [[s_1; s_e; s_r]; [s_3; s_s; s_d]; [s_4; s_r; s_t]]).
Proof. split; (eexists; split; [vm_compute; reflexivity|reflexivity]). Qed.

(** sums wider than 16 bytes are outside C20's model (first byte >= 256): membership fails,
    the discarded rows of keys 1 and 2 come back next to the resolved row of key 1 and the
    sorter keeps the first row per key *)
Lemma wide_sum_wrong :
  exists o o', hs_run_merge (fun k => (hk_toy k + 2 ^ 130)%N) 0 ar_base [ar_b1; ar_b2] 1 1 false = Ok o /\
               run_merge ar_base [ar_b1; ar_b2] 1 1 false = Ok o' /\ mo_rows o <> mo_rows o'.
Proof. eexists. eexists. split; [vm_compute; reflexivity|]. split; [vm_compute; reflexivity|]. vm_compute. discriminate. Qed.

(** keyless table without columns: the removed empty row is a discarded key, the Go code's
    query "sum of the empty cell list" finds it (row dropped), Merge.v's short cut re-adds
    it: the two models differ exactly where [keyless_ok] fails *)
Definition e_base : table := mk [] [] [[]].
Definition e_b1 : table := mk [] [] [].
Lemma keyless_empty_row_differs :
  sums_ok hk_toy (merge_keys e_base [e_b1]) /\ ~ keyless_ok e_base [e_b1] /\
  (exists o, hs_run_merge hk_toy 0 e_base [e_b1] 0 0 false = Ok o /\ mo_rows o = []) /\
  (exists o, run_merge e_base [e_b1] 0 0 false = Ok o /\ mo_rows o = [[]]).
Proof.
  split; [apply sums_okb_ok; vm_compute; reflexivity|]. split.
  - intros H. apply H; [reflexivity|]. vm_compute. now left.
  - split; (eexists; split; [vm_compute; reflexivity|reflexivity]).
Qed.
