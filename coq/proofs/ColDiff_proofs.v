(** Proofs about CompareColumns (model/ColDiff.v): for duplicate-free column lists the
    merged Names is duplicate-free, is the union of all column names, starts with the key,
    every table's columns map injectively onto their own names, and Added / Removed are
    the set differences with the base ([cd_consistent]). *)
From W.lib Require Import Tree Bytes GoSlice.
From W.model Require Import ColDiff Merge MergeSpec.
From W.proofs Require Import Merge_proofs.
From Coq Require Import Arith Lia Bool List Permutation.
Import ListNotations.

(** ---- stringSliceToMap ---- *)
Lemma find_last_from_spec s l : forall k acc,
  find_last_from s l k acc =
  match find_last_from s l k None with Some i => Some i | None => acc end.
Proof.
  induction l as [|x l IH]; intros k acc; cbn; [reflexivity|].
  destruct (beqb x s); [|apply IH].
  rewrite (IH (S k) (Some k)). now destruct (find_last_from s l (S k) None).
Qed.

Lemma find_last_from_range s l : forall k i, find_last_from s l k None = Some i ->
  k <= i < k + length l /\ nth (i - k) l [] = s.
Proof.
  induction l as [|x l IH]; intros k i; cbn; [discriminate|].
  rewrite find_last_from_spec. destruct (find_last_from s l (S k) None) as [j|] eqn:E.
  - intros H; injection H as <-. apply IH in E as [Hr Hn]. split; [lia|].
    replace (j - k) with (S (j - S k)) by lia. exact Hn.
  - destruct (beqb x s) eqn:Ex; [|discriminate]. intros H; injection H as <-.
    split; [lia|]. rewrite Nat.sub_diag. now apply beqb_eq.
Qed.

Lemma find_last_from_none s l : forall k, find_last_from s l k None = None <-> ~ In s l.
Proof.
  induction l as [|x l IH]; intros k; cbn; [tauto|].
  rewrite find_last_from_spec. destruct (find_last_from s l (S k) None) as [j|] eqn:E.
  - split; [discriminate|]. intros H. exfalso. apply H. right.
    destruct (in_dec (list_eq_dec N.eq_dec) s l) as [Hin|Hn]; [assumption|].
    apply (IH (S k)) in Hn. congruence.
  - apply IH in E. destruct (beqb x s) eqn:Ex.
    + apply beqb_eq in Ex. split; [discriminate|]. intros H. exfalso. apply H. now left.
    + apply beqb_neq in Ex. split; [|reflexivity]. intros _ [H|H]; [congruence|tauto].
Qed.

Lemma map_idx_none l s : map_idx l s = None <-> ~ In s l.
Proof. apply find_last_from_none. Qed.

Lemma map_idx_some l s i : map_idx l s = Some i -> i < length l /\ nth i l [] = s.
Proof.
  intros H. apply find_last_from_range in H as [Hr Hn]. split; [lia|]. now rewrite Nat.sub_0_r in Hn.
Qed.

Lemma NoDup_nth_inj {A} (l : list A) d i j :
  NoDup l -> i < length l -> j < length l -> nth i l d = nth j l d -> i = j.
Proof. intros H Hi Hj E. now apply (proj1 (NoDup_nth l d) H). Qed.

Lemma map_idx_nodup l i :
  NoDup l -> i < length l -> map_idx l (nth i l []) = Some i.
Proof.
  intros Hnd Hi. destruct (map_idx l (nth i l [])) as [j|] eqn:E.
  - apply map_idx_some in E as [Hj Hn]. f_equal. now apply (NoDup_nth_inj l []).
  - apply map_idx_none in E. exfalso. apply E. now apply nth_In.
Qed.

Lemma map_idx_in l s : In s l -> exists i, map_idx l s = Some i.
Proof.
  intros H. destruct (map_idx l s) as [i|] eqn:E; [now exists i|]. apply map_idx_none in E. tauto.
Qed.

Lemma mem_name_in l s : mem_name l s = true <-> In s l.
Proof.
  unfold mem_name. rewrite existsb_exists. split.
  - intros (x & Hx & E). apply beqb_eq in E. now subst.
  - intros H. exists s. split; [assumption|apply beqb_refl].
Qed.

Lemma anchor_eqb_eq a b : anchor_eqb a b = true <-> a = b.
Proof.
  destruct a, b; cbn; split; try discriminate; try reflexivity; intros H.
  - f_equal. now apply Nat.eqb_eq. - injection H as ->. apply Nat.eqb_refl.
Qed.

(** ---- insertToNames ---- *)
Lemma filter_split_perm {A} (p q : A -> bool) l :
  Permutation (filter p l) (filter (fun x => p x && q x) l ++ filter (fun x => p x && negb (q x)) l).
Proof.
  induction l as [|x l IH]; cbn; [constructor|].
  destruct (p x), (q x); cbn; try assumption.
  - now constructor.
  - apply Permutation_cons_app. assumption.
Qed.

Definition anchor_in (k n : nat) (a : option nat) : bool :=
  match a with Some x => (k <=? x) && (x <? k + n) | None => false end.

Lemma filter_ext_in' {A} (f g : A -> bool) l : (forall x, In x l -> f x = g x) -> filter f l = filter g l.
Proof.
  induction l as [|x l IH]; intros H; cbn; [reflexivity|].
  rewrite (H x (or_introl eq_refl)), IH; [reflexivity|]. intros y Hy. apply H. now right.
Qed.

Lemma weave_perm g names : forall k,
  Permutation (weave g names k)
              (names ++ map snd (filter (fun p => anchor_in k (length names) (fst p)) g)).
Proof.
  induction names as [|x t IH]; intros k; cbn [weave length app].
  - rewrite (filter_ext_in' _ (fun _ => false)).
    + assert (E : filter (fun _ : option nat * name => false) g = []) by (induction g; cbn; auto).
      rewrite E. constructor.
    + intros [a s] _. unfold anchor_in; cbn [fst]. destruct a; [|reflexivity].
      destruct (k <=? n) eqn:E1, (n <? k + 0) eqn:E2; try reflexivity.
      exfalso. apply Nat.leb_le in E1. apply Nat.ltb_lt in E2. lia.
  - constructor.
    pose proof (filter_split_perm (fun p => anchor_in k (S (length t)) (fst p))
                                  (fun p => anchor_eqb (fst p) (Some k)) g) as Hs.
    cbv beta in Hs.
    rewrite (filter_ext_in' (fun x0 => anchor_in k (S (length t)) (fst x0) && anchor_eqb (fst x0) (Some k))
                            (fun p => anchor_eqb (fst p) (Some k))) in Hs.
    2:{ intros [a s] _. cbn [fst]. unfold anchor_in. destruct a as [n|]; cbn [anchor_eqb]; [|reflexivity].
        destruct (Nat.eqb n k) eqn:E; [|now rewrite andb_false_r].
        apply Nat.eqb_eq in E; subst. rewrite Nat.leb_refl. cbn [andb].
        rewrite andb_true_r. apply Nat.ltb_lt. lia. }
    rewrite (filter_ext_in' (fun x0 => anchor_in k (S (length t)) (fst x0) && negb (anchor_eqb (fst x0) (Some k)))
                            (fun p => anchor_in (S k) (length t) (fst p))) in Hs.
    2:{ intros [a s] _. cbn [fst]. unfold anchor_in. destruct a as [n|]; cbn [anchor_eqb]; [|reflexivity].
        destruct (Nat.eqb n k) eqn:E.
        - apply Nat.eqb_eq in E; subst. cbn [negb]. rewrite andb_false_r.
          symmetry. apply andb_false_iff. left. apply Nat.leb_gt. lia.
        - apply Nat.eqb_neq in E. cbn [negb]. rewrite andb_true_r.
          destruct (k <=? n) eqn:E1, (n <? k + S (length t)) eqn:E2, (S k <=? n) eqn:E3, (n <? S k + length t) eqn:E4;
            try reflexivity; exfalso;
            repeat match goal with
                   | H : (_ <=? _) = true |- _ => apply Nat.leb_le in H
                   | H : (_ <=? _) = false |- _ => apply Nat.leb_gt in H
                   | H : (_ <? _) = true |- _ => apply Nat.ltb_lt in H
                   | H : (_ <? _) = false |- _ => apply Nat.ltb_ge in H
                   end; lia. }
    apply (Permutation_map snd) in Hs. rewrite map_app in Hs.
    unfold group_of at 1.
    eapply perm_trans; [apply Permutation_app_head; apply IH|].
    rewrite app_assoc.
    eapply perm_trans; [apply Permutation_app_tail; apply Permutation_app_comm|].
    rewrite <- app_assoc. apply Permutation_app_head. symmetry. exact Hs.
Qed.

Lemma collect_groups_spec names cols : forall anchor,
  map snd (collect_groups names cols anchor) = filter (fun s => negb (mem_name names s)) cols /\
  (forall a s, In (a, s) (collect_groups names cols anchor) ->
     a = anchor \/ exists i, a = Some i /\ i < length names).
Proof.
  induction cols as [|s t IH]; intros anchor; cbn [collect_groups filter]; [split; [reflexivity|intros ? ? []]|].
  destruct (map_idx names s) as [i|] eqn:E.
  - assert (Hm : mem_name names s = true).
    { apply mem_name_in. apply map_idx_some in E as [Hi <-]. now apply nth_In. }
    rewrite Hm. cbn [negb]. destruct (IH (Some i)) as [H1 H2]. split; [assumption|].
    intros a s' Hin. right. destruct (H2 a s' Hin) as [->|H]; [|assumption].
    exists i. split; [reflexivity|]. now apply map_idx_some in E.
  - assert (Hm : mem_name names s = false).
    { apply map_idx_none in E. destruct (mem_name names s) eqn:Em; [|reflexivity].
      apply mem_name_in in Em. tauto. }
    rewrite Hm. cbn [negb map snd]. destruct (IH anchor) as [H1 H2]. split; [now f_equal|].
    intros a s' [Hin|Hin]; [injection Hin as <- <-; now left|now apply (H2 a s')].
Qed.

Lemma filter_true {A} (l : list A) : filter (fun _ => true) l = l.
Proof. induction l as [|x l IH]; cbn; [reflexivity|now rewrite IH]. Qed.

Lemma insert_to_names_perm names cols :
  Permutation (insert_to_names names cols) (names ++ filter (fun s => negb (mem_name names s)) cols).
Proof.
  unfold insert_to_names. set (g := collect_groups names cols None).
  destruct (collect_groups_spec names cols None) as [Hs Ha]. fold g in Hs, Ha.
  eapply perm_trans; [apply Permutation_app_head; apply weave_perm|].
  eapply perm_trans; [apply Permutation_app_comm|]. rewrite <- app_assoc.
  apply Permutation_app_head. rewrite <- Hs.
  pose proof (filter_split_perm (fun _ : option nat * name => true) (fun p => anchor_in 0 (length names) (fst p)) g) as Hp.
  rewrite filter_true in Hp. cbv beta in Hp. cbn [andb] in Hp.
  rewrite (filter_ext_in' (fun x => negb (anchor_in 0 (length names) (fst x))) (fun p => anchor_eqb (fst p) None)) in Hp.
  2:{ intros [a s] Hin. cbn [fst]. destruct (Ha a s Hin) as [->|(i & -> & Hi)]; [reflexivity|].
      cbn [anchor_eqb anchor_in]. apply negb_false_iff. change (0 <=? i) with true. cbn [andb]. apply Nat.ltb_lt. exact Hi. }
  apply (Permutation_map snd) in Hp. rewrite map_app in Hp. symmetry. exact Hp.
Qed.

Lemma NoDup_filter {A} (f : A -> bool) l : NoDup l -> NoDup (filter f l).
Proof.
  induction 1 as [|x l Hx Hl IH]; cbn; [constructor|]. destruct (f x); [|assumption].
  constructor; [|assumption]. intros H. apply filter_In in H. tauto.
Qed.

Lemma NoDup_app_intro {A} (l1 l2 : list A) :
  NoDup l1 -> NoDup l2 -> (forall x, In x l1 -> ~ In x l2) -> NoDup (l1 ++ l2).
Proof.
  induction 1 as [|x l Hx Hl IH]; intros H2 Hd; cbn; [assumption|].
  constructor.
  - intros H. apply in_app_or in H as [H|H]; [tauto|]. apply (Hd x); [now left|assumption].
  - apply IH; [assumption|]. intros y Hy. apply Hd. now right.
Qed.

Lemma insert_to_names_nodup names cols :
  NoDup names -> NoDup cols -> NoDup (insert_to_names names cols).
Proof.
  intros Hn Hc. eapply Permutation_NoDup; [symmetry; apply insert_to_names_perm|].
  apply NoDup_app_intro; [assumption|now apply NoDup_filter|].
  intros s Hs Hf. apply filter_In in Hf as [_ Hf]. apply negb_true_iff in Hf.
  apply mem_name_in in Hs. congruence.
Qed.

Lemma insert_to_names_in names cols s :
  In s (insert_to_names names cols) <-> In s names \/ In s cols.
Proof.
  split.
  - intros H. apply (Permutation_in _ (insert_to_names_perm names cols)) in H.
    apply in_app_or in H as [H|H]; [now left|]. apply filter_In in H. tauto.
  - intros H. apply (Permutation_in _ (Permutation_sym (insert_to_names_perm names cols))).
    apply in_or_app. destruct (mem_name names s) eqn:E.
    + left. now apply mem_name_in.
    + destruct H as [H|H]; [now left|]. right. apply filter_In. split; [assumption|]. now rewrite E.
Qed.

(** ---- names0 ---- *)
Lemma fold_insert_nodup others : forall acc,
  NoDup acc -> Forall (fun c => NoDup c) others -> NoDup (fold_left insert_to_names others acc).
Proof.
  induction others as [|c t IH]; intros acc Ha Hc; cbn [fold_left]; [assumption|].
  inversion Hc; subst. apply IH; [now apply insert_to_names_nodup|assumption].
Qed.

Lemma fold_insert_in others : forall acc s,
  In s (fold_left insert_to_names others acc) <-> In s acc \/ exists c, In c others /\ In s c.
Proof.
  induction others as [|c t IH]; intros acc s; cbn [fold_left].
  - split; [now left|]. intros [H|(c & [] & _)]. assumption.
  - rewrite IH, insert_to_names_in. split.
    + intros [[H|H]|(c' & Hc' & H)]; [now left|right; exists c; split; [now left|assumption]|].
      right. exists c'. split; [now right|assumption].
    + intros [H|(c' & [<-|Hc'] & H)]; [left; now left|left; now right|].
      right. now exists c'.
Qed.

Lemma names0_nodup base others :
  NoDup base -> Forall (fun c => NoDup c) others -> NoDup (names0 base others).
Proof.
  intros Hb Ho. unfold names0. apply insert_to_names_nodup; [|assumption].
  apply fold_insert_nodup; [constructor|assumption].
Qed.

Lemma names0_in base others s :
  In s (names0 base others) <-> In s base \/ exists c, In c others /\ In s c.
Proof.
  unfold names0. rewrite insert_to_names_in, fold_insert_in. cbn [In]. tauto.
Qed.

(** ---- entries and hoist ---- *)
Lemma entries_names nm adds rems : map ce_name (entries nm adds rems) = nm.
Proof.
  unfold entries. rewrite map_map. cbn [ce_name].
  apply nth_ext with (d := []) (d' := []); [now rewrite map_length, seq_length|].
  intros n Hn. rewrite map_length, seq_length in Hn.
  rewrite (nth_indep _ [] (nth 0 nm [])) by (now rewrite map_length, seq_length).
  rewrite (map_nth (fun i => nth i nm [])). now rewrite seq_nth.
Qed.

Lemma hoist_prefix_perm pk (l : list colent) n :
  Permutation (flat_map (fun r => filter (fun e => rank_eqb (Some r) e pk) l) (seq 0 n)
               ++ filter (fun e => negb (existsb (fun r => rank_eqb (Some r) e pk) (seq 0 n))) l) l.
Proof.
  induction n as [|n IH].
  - cbn [seq flat_map existsb negb app]. now rewrite filter_true.
  - rewrite seq_S, flat_map_app. cbn [plus flat_map]. rewrite app_nil_r, <- app_assoc.
    eapply perm_trans; [|exact IH]. apply Permutation_app_head.
    pose proof (filter_split_perm (fun e => negb (existsb (fun r => rank_eqb (Some r) e pk) (seq 0 n)))
                                  (fun e => rank_eqb (Some n) e pk) l) as Hs. cbv beta in Hs.
    symmetry. eapply perm_trans; [exact Hs|].
    apply Permutation_app.
    + rewrite (filter_ext_in' (fun x => negb (existsb (fun r => rank_eqb (Some r) x pk) (seq 0 n)) && rank_eqb (Some n) x pk)
                              (fun e => rank_eqb (Some n) e pk)).
      * apply Permutation_refl.
      * intros e _. destruct (rank_eqb (Some n) e pk) eqn:E; [|now rewrite andb_false_r].
        rewrite andb_true_r. apply negb_true_iff.
        destruct (existsb _ (seq 0 n)) eqn:Ex; [|reflexivity].
        apply existsb_exists in Ex as (r & Hr & Er). apply in_seq in Hr.
        unfold rank_eqb in *. apply anchor_eqb_eq in E. apply anchor_eqb_eq in Er.
        rewrite E in Er. injection Er as ->. lia.
    + rewrite (filter_ext_in' (fun x => negb (existsb (fun r => rank_eqb (Some r) x pk) (seq 0 n)) && negb (rank_eqb (Some n) x pk))
                              (fun e => negb (existsb (fun r => rank_eqb (Some r) e pk) (seq 0 n ++ [0 + n])))).
      * apply Permutation_refl.
      * intros e _. rewrite existsb_app. cbn [existsb plus]. rewrite orb_false_r, negb_orb. reflexivity.
Qed.

Lemma hoist_perm pk l : Permutation (hoist pk l) l.
Proof.
  unfold hoist. eapply perm_trans; [|apply (hoist_prefix_perm pk l (length pk))].
  apply Permutation_app_head.
  rewrite (filter_ext_in' (fun e => rank_eqb None e pk)
                          (fun e => negb (existsb (fun r => rank_eqb (Some r) e pk) (seq 0 (length pk))))).
  - apply Permutation_refl.
  - intros e _. unfold rank_eqb. destruct (map_idx pk (ce_name e)) as [i|] eqn:E.
    + cbn [anchor_eqb]. symmetry. apply negb_false_iff. apply existsb_exists. exists i.
      split; [apply in_seq; apply map_idx_some in E; lia|]. apply Nat.eqb_refl.
    + cbn [anchor_eqb]. symmetry. apply negb_true_iff.
      destruct (existsb _ _) eqn:Ex; [|reflexivity]. apply existsb_exists in Ex as (r & _ & Er). discriminate Er.
Qed.

(** the key comes first *)
Lemma filter_unique {A B} (f : A -> B) (P : A -> bool) (l : list A) x :
  NoDup (map f l) -> In x l -> P x = true -> (forall e, In e l -> P e = true -> f e = f x) ->
  filter P l = [x].
Proof.
  induction l as [|y l IH]; intros Hnd Hin HP Hall; [destruct Hin|].
  cbn [map] in Hnd. inversion Hnd as [|? ? Hy Hnd']; subst. cbn [filter].
  destruct Hin as [->|Hin].
  - rewrite HP. f_equal.
    assert (E : forall e, In e l -> P e = false).
    { intros e He. destruct (P e) eqn:Ee; [|reflexivity]. exfalso. apply Hy.
      rewrite <- (Hall e (or_intror He) Ee). now apply in_map. }
    clear -E. induction l as [|z l IH]; cbn; [reflexivity|].
    rewrite (E z (or_introl eq_refl)). apply IH. intros e He. apply E. now right.
  - destruct (P y) eqn:Ey.
    + exfalso. apply Hy. rewrite (Hall y (or_introl eq_refl) Ey). now apply in_map.
    + apply IH; try assumption. intros e He. apply Hall. now right.
Qed.

Lemma hoist_pk_first pk es :
  NoDup pk -> NoDup (map ce_name es) -> (forall p, In p pk -> In p (map ce_name es)) ->
  exists rest, map ce_name (hoist pk es) = pk ++ rest.
Proof.
  intros Hpk Hnd Hsub. unfold hoist. rewrite map_app. eexists. f_equal.
  assert (H : forall r, r < length pk ->
             map ce_name (filter (fun e => rank_eqb (Some r) e pk) es) = [nth r pk []]).
  { intros r Hr.
    destruct (proj1 (in_map_iff ce_name es (nth r pk [])) (Hsub _ (nth_In pk [] Hr))) as (x & Hx & Hin).
    rewrite (filter_unique ce_name _ es x Hnd Hin).
    - cbn. now rewrite Hx.
    - unfold rank_eqb. rewrite Hx, (map_idx_nodup pk r Hpk Hr). apply anchor_eqb_eq. reflexivity.
    - intros e _ He. unfold rank_eqb in He. apply anchor_eqb_eq in He. apply map_idx_some in He as [_ He].
      now rewrite Hx. }
  assert (G : forall n k, k + n <= length pk ->
             map ce_name (flat_map (fun r => filter (fun e => rank_eqb (Some r) e pk) es) (seq k n))
             = firstn n (skipn k pk)).
  { induction n as [|n IH]; intros k Hk; cbn [seq flat_map]; [reflexivity|].
    rewrite map_app, H by lia. rewrite IH by lia. cbn [app].
    assert (E : skipn k pk = nth k pk [] :: skipn (S k) pk).
    { clear -Hk. revert k Hk. induction pk as [|p pk IH]; intros k Hk; [cbn in Hk; lia|].
      destruct k as [|k]; [reflexivity|]. cbn [skipn nth]. apply IH. cbn in Hk. lia. }
    rewrite E. reflexivity. }
  rewrite G by lia. cbn [skipn]. apply firstn_all.
Qed.

(** ---- index maps ---- *)
Lemma find_last_pos_from_spec {A} (f : A -> bool) l : forall k acc,
  find_last_pos_from f l k acc =
  match find_last_pos_from f l k None with Some i => Some i | None => acc end.
Proof.
  induction l as [|x l IH]; intros k acc; cbn; [reflexivity|].
  destruct (f x); [|apply IH].
  rewrite (IH (S k) (Some k)). now destruct (find_last_pos_from f l (S k) None).
Qed.

Lemma find_last_pos_from_some {A} (f : A -> bool) (d : A) l : forall k i,
  find_last_pos_from f l k None = Some i -> k <= i < k + length l /\ f (nth (i - k) l d) = true.
Proof.
  induction l as [|x l IH]; intros k i; cbn; [discriminate|].
  rewrite find_last_pos_from_spec. destruct (find_last_pos_from f l (S k) None) as [j|] eqn:E.
  - intros H; injection H as <-. apply IH in E as [Hr Hn]. split; [lia|].
    replace (j - k) with (S (j - S k)) by lia. exact Hn.
  - destruct (f x) eqn:Ex; [|discriminate]. intros H; injection H as <-.
    split; [lia|]. now rewrite Nat.sub_diag.
Qed.

Lemma find_last_pos_from_none {A} (f : A -> bool) l : forall k,
  find_last_pos_from f l k None = None <-> forall x, In x l -> f x = false.
Proof.
  induction l as [|x l IH]; intros k; cbn; [split; [intros _ ? []|reflexivity]|].
  rewrite find_last_pos_from_spec. destruct (find_last_pos_from f l (S k) None) as [j|] eqn:E.
  - split; [discriminate|]. intros H.
    assert (E' : find_last_pos_from f l (S k) None = None) by (apply IH; intros y Hy; apply H; now right).
    congruence.
  - rewrite IH in E. destruct (f x) eqn:Ex.
    + split; [discriminate|]. intros H. rewrite (H x (or_introl eq_refl)) in Ex. discriminate Ex.
    + split; [|reflexivity]. intros _ y [<-|Hy]; [assumption|now apply E].
Qed.

Lemma map_idx0_nth nm i : NoDup nm -> i < length nm -> map_idx0 nm (nth i nm []) = i.
Proof. intros Hn Hi. unfold map_idx0. now rewrite map_idx_nodup. Qed.

Lemma map_idx0_in nm s : In s nm -> map_idx0 nm s < length nm /\ nth (map_idx0 nm s) nm [] = s.
Proof.
  intros H. unfold map_idx0. destruct (map_idx_in nm s H) as [i E]. rewrite E. now apply map_idx_some.
Qed.

(** position n of the index map of [cols] is Some j exactly when cols[j] is the n-th name *)
Lemma idx_map_spec nm cols n :
  NoDup nm -> NoDup cols -> (forall s, In s cols -> In s nm) -> n < length nm ->
  (forall j, nth n (idx_map nm cols) None = Some j <-> j < length cols /\ nth j cols [] = nth n nm []) /\
  has_col (idx_map nm cols) n = mem_name cols (nth n nm []).
Proof.
  intros Hnm Hc Hsub Hn.
  assert (E : nth n (idx_map nm cols) None =
              find_last_pos_from (fun s => Nat.eqb (map_idx0 nm s) n) cols 0 None).
  { unfold idx_map.
    rewrite (nth_indep _ None ((fun n0 => find_last_pos_from (fun s => Nat.eqb (map_idx0 nm s) n0) cols 0 None) 0))
      by (now rewrite map_length, seq_length).
    rewrite (map_nth (fun n0 => find_last_pos_from (fun s => Nat.eqb (map_idx0 nm s) n0) cols 0 None)).
    now rewrite seq_nth. }
  assert (Hiff : forall s, In s cols -> (Nat.eqb (map_idx0 nm s) n = true <-> s = nth n nm [])).
  { intros s Hs. destruct (map_idx0_in nm s (Hsub s Hs)) as [Hl Hv]. rewrite Nat.eqb_eq. split.
    - intros <-. now symmetry. - intros ->. now apply map_idx0_nth. }
  split.
  - intros j. rewrite E. split.
    + intros H. apply (find_last_pos_from_some _ []) in H as [Hr Hf]. rewrite Nat.sub_0_r in Hf.
      assert (Hj : j < length cols) by (destruct Hr as [_ Hr]; exact Hr).
      split; [assumption|]. exact (proj1 (Hiff _ (nth_In cols [] Hj)) Hf).
    + intros [Hj Hv].
      destruct (find_last_pos_from _ cols 0 None) as [j'|] eqn:Ef.
      * apply (find_last_pos_from_some _ []) in Ef as [Hr Hf]. rewrite Nat.sub_0_r in Hf.
        assert (Hj' : j' < length cols) by (destruct Hr as [_ Hr]; exact Hr).
        apply (proj1 (Hiff _ (nth_In cols [] Hj'))) in Hf. f_equal.
        apply (NoDup_nth_inj cols []); try assumption. congruence.
      * exfalso. rewrite find_last_pos_from_none in Ef.
        specialize (Ef (nth j cols []) (nth_In cols [] Hj)).
        assert (Nat.eqb (map_idx0 nm (nth j cols [])) n = true) by (exact (proj2 (Hiff _ (nth_In cols [] Hj)) Hv)).
        congruence.
  - unfold has_col. rewrite E.
    destruct (find_last_pos_from _ cols 0 None) as [j|] eqn:Ef; cbn [is_some].
    + apply (find_last_pos_from_some _ []) in Ef as [Hr Hf]. rewrite Nat.sub_0_r in Hf.
      assert (Hj : j < length cols) by (destruct Hr as [_ Hr]; exact Hr).
      symmetry. apply mem_name_in. apply (proj1 (Hiff _ (nth_In cols [] Hj))) in Hf. rewrite <- Hf. now apply nth_In.
    + symmetry. destruct (mem_name cols (nth n nm [])) eqn:Em; [|reflexivity]. exfalso.
      apply mem_name_in in Em. rewrite find_last_pos_from_none in Ef. specialize (Ef _ Em).
      assert (Nat.eqb (map_idx0 nm (nth n nm [])) n = true) by (exact (proj2 (Hiff _ Em) eq_refl)).
      congruence.
Qed.

(** ---- CompareColumns ---- *)
Lemma nth_map_seq {A} (f : nat -> A) n i d : i < n -> nth i (map f (seq 0 n)) d = f i.
Proof.
  intros H. rewrite (nth_indep _ d (f 0)) by (now rewrite map_length, seq_length).
  rewrite map_nth. now rewrite seq_nth.
Qed.

Lemma nth_map_lt {A B} (f : A -> B) l i d d' : i < length l -> nth i (map f l) d = f (nth i l d').
Proof.
  intros H. rewrite (nth_indep _ d (f d')) by (now rewrite map_length). apply map_nth.
Qed.

Definition hdr0 : header := (@nil name, @nil name).

Definition wf_header (h : header) : Prop :=
  NoDup (fst h) /\ NoDup (snd h) /\ forall p, In p (snd h) -> In p (fst h).

Lemma added0_spec nm base cols i :
  NoDup nm -> (forall s, In s cols -> In s nm) -> i < length nm ->
  nth i (added0 nm base cols) false = mem_name cols (nth i nm []) && negb (mem_name base (nth i nm [])).
Proof.
  intros Hnm Hsub Hi. unfold added0. rewrite nth_map_seq by assumption.
  destruct (existsb _ cols) eqn:E.
  - apply existsb_exists in E as (s & Hs & H). apply andb_true_iff in H as [Hb Ha].
    apply anchor_eqb_eq in Ha. apply map_idx_some in Ha as [_ Hv]. subst s.
    rewrite Hb. symmetry. rewrite andb_true_r. now apply mem_name_in.
  - destruct (mem_name cols (nth i nm [])) eqn:Em; [|reflexivity]. cbn [andb].
    destruct (mem_name base (nth i nm [])) eqn:Eb; [reflexivity|]. exfalso.
    assert (existsb (fun s => negb (mem_name base s) && anchor_eqb (map_idx nm s) (Some i)) cols = true); [|congruence].
    apply existsb_exists. exists (nth i nm []). split; [now apply mem_name_in|].
    rewrite Eb. cbn. apply anchor_eqb_eq. now apply map_idx_nodup.
Qed.

Lemma removed0_spec nm base cols i :
  NoDup nm -> (forall s, In s base -> In s nm) -> i < length nm ->
  nth i (removed0 nm base cols) false = mem_name base (nth i nm []) && negb (mem_name cols (nth i nm [])).
Proof.
  intros Hnm Hsub Hi. unfold removed0. rewrite nth_map_seq by assumption.
  destruct (existsb _ base) eqn:E.
  - apply existsb_exists in E as (s & Hs & H). apply andb_true_iff in H as [Hb Ha].
    apply anchor_eqb_eq in Ha. apply map_idx_some in Ha as [_ Hv]. subst s.
    rewrite Hb. symmetry. rewrite andb_true_r. now apply mem_name_in.
  - destruct (mem_name base (nth i nm [])) eqn:Em; [|reflexivity]. cbn [andb].
    destruct (mem_name cols (nth i nm [])) eqn:Eb; [reflexivity|]. exfalso.
    assert (existsb (fun s => negb (mem_name cols s) && anchor_eqb (map_idx nm s) (Some i)) base = true); [|congruence].
    apply existsb_exists. exists (nth i nm []). split; [now apply mem_name_in|].
    rewrite Eb. cbn. apply anchor_eqb_eq. now apply map_idx_nodup.
Qed.

Definition dummy_ent : colent := {| ce_name := []; ce_added := []; ce_removed := [] |}.

Section CompareColumns.
  Variables (base : header) (others : list header) (cd : coldiff).
  Hypothesis Hb : wf_header base.
  Hypothesis Ho : Forall wf_header others.
  Hypothesis Hcd : compare_columns base others = Ok cd.

  Let ocols := map fst others.
  Let nm0 := names0 (fst base) ocols.
  Let adds0 := map (added0 nm0 (fst base)) ocols.
  Let rems0 := map (removed0 nm0 (fst base)) ocols.
  Let pk0 := snd (hd hdr0 others).
  Let es := hoist pk0 (entries nm0 adds0 rems0).

  Lemma cc_shape :
    others <> [] /\
    cd = {| cd_names := map ce_name es;
            cd_added := map (fun l => map (fun e => nth l (ce_added e) false) es) (seq 0 (length others));
            cd_removed := map (fun l => map (fun e => nth l (ce_removed e) false) es) (seq 0 (length others));
            cd_base_idx := idx_map (map ce_name es) (fst base);
            cd_other_idx := map (fun o => idx_map (map ce_name es) (fst o)) others;
            cd_base_pk := map (map_idx0 (map ce_name es)) (snd base);
            cd_other_pk := map (fun o => map (map_idx0 (map ce_name es)) (snd o)) others |}.
  Proof.
    unfold compare_columns in Hcd. destruct others as [|o0 t] eqn:E; [discriminate|].
    split; [discriminate|]. injection Hcd as <-. reflexivity.
  Qed.

  Lemma cc_ocols_nodup : Forall (fun c => NoDup c) ocols.
  Proof.
    subst ocols. apply Forall_forall. intros c Hc. apply in_map_iff in Hc as (o & <- & Hin).
    rewrite Forall_forall in Ho. now destruct (Ho o Hin).
  Qed.

  Lemma cc_nm0_nodup : NoDup nm0.
  Proof. apply names0_nodup; [now destruct Hb|apply cc_ocols_nodup]. Qed.

  Lemma cc_nm0_in s : In s nm0 <-> In s (fst base) \/ exists o, In o others /\ In s (fst o).
  Proof.
    subst nm0. rewrite names0_in. subst ocols. split; (intros [H|(c & Hc & Hs)]; [now left|right]).
    - apply in_map_iff in Hc as (o & <- & Ho'). now exists o.
    - exists (fst c). split; [now apply in_map|assumption].
  Qed.

  Lemma cc_es_perm : Permutation es (entries nm0 adds0 rems0).
  Proof. apply hoist_perm. Qed.

  Lemma cc_names_perm : Permutation (cd_names cd) nm0.
  Proof.
    destruct cc_shape as [_ ->]. cbn [cd_names].
    rewrite <- (entries_names nm0 adds0 rems0). apply Permutation_map. apply cc_es_perm.
  Qed.

  (** Names is duplicate-free ... *)
  Lemma cc_names_nodup : NoDup (cd_names cd).
  Proof. eapply Permutation_NoDup; [symmetry; apply cc_names_perm|apply cc_nm0_nodup]. Qed.

  (** ... and the union of all column names *)
  Lemma cc_names_in s : In s (cd_names cd) <-> In s (fst base) \/ exists o, In o others /\ In s (fst o).
  Proof.
    rewrite <- cc_nm0_in. split; intros H.
    - now apply (Permutation_in _ cc_names_perm).
    - now apply (Permutation_in _ (Permutation_sym cc_names_perm)).
  Qed.

  (** the key of the first branch comes first, in key order *)
  Lemma cc_pk_first : exists rest, cd_names cd = pk0 ++ rest.
  Proof.
    destruct cc_shape as [Hne ->]. cbn [cd_names]. subst es.
    assert (Hw : wf_header (hd hdr0 others)).
    { destruct others as [|o t]; [congruence|]. inversion Ho; subst. assumption. }
    destruct Hw as (_ & Hpk & Hsub).
    apply hoist_pk_first; [assumption| |].
    - rewrite entries_names. apply cc_nm0_nodup.
    - intros p Hp. rewrite entries_names. apply cc_nm0_in. right.
      exists (hd hdr0 others). split; [|now apply Hsub].
      destruct others; [congruence|now left].
  Qed.

  (** every entry carries, for every layer, "in the branch and not in the base" / vice versa *)
  Lemma cc_entry_flags e l :
    In e es -> l < length others ->
    nth l (ce_added e) false = mem_name (fst (nth l others hdr0)) (ce_name e) && negb (mem_name (fst base) (ce_name e)) /\
    nth l (ce_removed e) false = mem_name (fst base) (ce_name e) && negb (mem_name (fst (nth l others hdr0)) (ce_name e)).
  Proof.
    intros He Hl. apply (Permutation_in _ cc_es_perm) in He.
    unfold entries in He. apply in_map_iff in He as (i & <- & Hi). apply in_seq in Hi. cbn [ce_name ce_added ce_removed].
    assert (Hlo : l < length ocols) by (subst ocols; now rewrite map_length).
    assert (Eo : nth l ocols [] = fst (nth l others hdr0)).
    { subst ocols. now rewrite (nth_map_lt fst others l [] hdr0). }
    assert (Hsubo : forall s, In s (nth l ocols []) -> In s nm0).
    { intros s Hs. apply cc_nm0_in. right. exists (nth l others hdr0). split; [now apply nth_In|]. now rewrite <- Eo. }
    assert (Hsubb : forall s, In s (fst base) -> In s nm0) by (intros s Hs; apply cc_nm0_in; now left).
    split.
    - rewrite (nth_map_lt (fun a => nth i a false) adds0 l false []) by (subst adds0; now rewrite map_length).
      subst adds0. rewrite (nth_map_lt (added0 nm0 (fst base)) ocols l [] []) by assumption.
      rewrite added0_spec; [|apply cc_nm0_nodup|assumption|lia]. now rewrite Eo.
    - rewrite (nth_map_lt (fun a => nth i a false) rems0 l false []) by (subst rems0; now rewrite map_length).
      subst rems0. rewrite (nth_map_lt (removed0 nm0 (fst base)) ocols l [] []) by assumption.
      rewrite removed0_spec; [|apply cc_nm0_nodup|assumption|lia]. now rewrite Eo.
  Qed.

  Lemma cc_layers : cd_layers cd = length others.
  Proof. destruct cc_shape as [_ ->]. unfold cd_layers. cbn [cd_added]. now rewrite map_length, seq_length. Qed.

  Lemma cc_base_sub s : In s (fst base) -> In s (cd_names cd).
  Proof. intros H. apply cc_names_in. now left. Qed.
  Lemma cc_other_sub l s : l < length others -> In s (fst (nth l others hdr0)) -> In s (cd_names cd).
  Proof. intros Hl H. apply cc_names_in. right. exists (nth l others hdr0). split; [now apply nth_In|assumption]. Qed.

  (** the index maps send Names position n to the position of that name in the table *)
  Lemma cc_base_idx n j :
    n < length (cd_names cd) ->
    (nth n (cd_base_idx cd) None = Some j <-> j < length (fst base) /\ nth j (fst base) [] = nth n (cd_names cd) []).
  Proof.
    intros Hn. pose proof cc_names_nodup as Hnd. pose proof cc_base_sub as Hsub.
    destruct cc_shape as [_ E]. rewrite E in *. cbn [cd_names cd_base_idx] in *.
    apply idx_map_spec; try assumption. now destruct Hb.
  Qed.

  Lemma cc_other_idx l n j :
    l < length others -> n < length (cd_names cd) ->
    (nth n (nth l (cd_other_idx cd) []) None = Some j <->
     j < length (fst (nth l others hdr0)) /\ nth j (fst (nth l others hdr0)) [] = nth n (cd_names cd) []).
  Proof.
    intros Hl Hn. pose proof cc_names_nodup as Hnd. pose proof (fun s => cc_other_sub l s Hl) as Hsub.
    destruct cc_shape as [_ E]. rewrite E in *. cbn [cd_names cd_other_idx] in *.
    rewrite (nth_map_lt (fun o => idx_map (map ce_name es) (fst o)) others l [] hdr0) by assumption.
    apply idx_map_spec; try assumption.
    rewrite Forall_forall in Ho. now destruct (Ho _ (nth_In others hdr0 Hl)).
  Qed.

  (** Added = branch \ base and Removed = base \ branch, in terms of the index maps *)
  Lemma cc_consistent : cd_consistent cd.
  Proof.
    pose proof cc_names_nodup as Hnd. pose proof cc_layers as Hlay.
    pose proof cc_base_sub as Hsubb. pose proof (fun l Hl s => cc_other_sub l s Hl) as Hsubo.
    pose proof cc_entry_flags as Hfl.
    destruct cc_shape as [_ E]. rewrite E in *.
    unfold cd_consistent. cbn [cd_names cd_base_idx cd_other_idx] in *.
    split; [unfold idx_map; now rewrite map_length, seq_length|].
    split; [now rewrite map_length, Hlay|].
    intros l Hl. rewrite Hlay in Hl.
    rewrite (nth_map_lt (fun o => idx_map (map ce_name es) (fst o)) others l [] hdr0) by assumption.
    split; [unfold idx_map; now rewrite map_length, seq_length|].
    intros i Hi. rewrite map_length in Hi.
    pose proof (Hsubo l Hl) as Hsubl. pose proof (Hfl (nth i es dummy_ent) l (nth_In es dummy_ent Hi) Hl) as Hfli.
    assert (Hwo : NoDup (fst (nth l others hdr0))).
    { rewrite Forall_forall in Ho. now destruct (Ho _ (nth_In others hdr0 Hl)). }
    destruct (idx_map_spec (map ce_name es) (fst base) i Hnd (proj1 Hb) Hsubb) as [_ Hhb];
      [now rewrite map_length|].
    match goal with
    | |- context [has_col (idx_map (map ce_name es) ?c) i && negb _] =>
        destruct (idx_map_spec (map ce_name es) c i Hnd Hwo Hsubl) as [_ Hho]; [now rewrite map_length|]
    end.
    rewrite Hhb, Hho.
    rewrite (nth_map_lt ce_name es i [] dummy_ent) by assumption.
    destruct Hfli as [Ha Hr].
    unfold in_added, in_removed. cbn [cd_added cd_removed].
    rewrite !(nth_map_seq _ (length others) l) by assumption.
    rewrite !(nth_map_lt _ es i false dummy_ent) by assumption.
    now rewrite Ha, Hr.
  Qed.
End CompareColumns.

(** boolean check of [wf_header] (for concrete examples) *)
Fixpoint nodupb (l : list name) : bool :=
  match l with [] => true | x :: t => negb (mem_name t x) && nodupb t end.
Lemma nodupb_ok l : nodupb l = true -> NoDup l.
Proof.
  induction l as [|x t IH]; cbn; [constructor|]. intros H. apply andb_true_iff in H as [Hx Ht].
  constructor; [|now apply IH]. intros Hin. apply mem_name_in in Hin. rewrite Hin in Hx. discriminate Hx.
Qed.
Definition wf_headerb (h : header) : bool :=
  nodupb (fst h) && nodupb (snd h) && forallb (mem_name (fst h)) (snd h).
Lemma wf_headerb_ok h : wf_headerb h = true -> wf_header h.
Proof.
  unfold wf_headerb, wf_header. intros H. apply andb_true_iff in H as [H H3]. apply andb_true_iff in H as [H1 H2].
  split; [now apply nodupb_ok|]. split; [now apply nodupb_ok|].
  intros p Hp. rewrite forallb_forall in H3. now apply mem_name_in, H3.
Qed.
