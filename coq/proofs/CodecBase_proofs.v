(** Proofs about the shared codec primitives of model/CodecBase.v.  Axiom-free. *)
From W.lib Require Import Tree Bytes.
From W.model Require Import CodecBase.
From Coq Require Import Arith Lia ZifyNat ZifyN ZifyBool List NArith Bool ZArith.
Import ListNotations.
Local Open Scope N_scope.

(** inversion of [Some _ = Some _] / pair equalities WITHOUT normalising the
    terms (injection/inversion would unfold [be 2 n ++ _] into conses) *)
Lemma some_inj {A} (a b : A) : Some a = Some b -> a = b.
Proof. intros H. now injection H. Qed.
Lemma pair_inj {A B} (a c : A) (b d : B) : (a, b) = (c, d) -> a = c /\ b = d.
Proof. intros H. now injection H. Qed.
Ltac pinv H :=
  lazymatch type of H with
  | (_, _) = (_, _) =>
      let H1 := fresh in let H2 := fresh in
      apply pair_inj in H; destruct H as [H1 H2]; pinv H1; pinv H2
  | _ => idtac
  end.
Ltac inv H := apply some_inj in H; pinv H; subst.

(* ------------------------------------------------------------------ *)
(** * take *)

Lemma take_app : forall (h t : bytes), take (length h) (h ++ t) = Some (h, t).
Proof.
  induction h as [|x h IH]; intros t; cbn; [reflexivity|]. now rewrite IH.
Qed.

Lemma take_app_n : forall n (h t : bytes), length h = n -> take n (h ++ t) = Some (h, t).
Proof. intros n h t <-. apply take_app. Qed.

Lemma take_spec : forall n (b h t : bytes),
  take n b = Some (h, t) -> b = h ++ t /\ length h = n.
Proof.
  induction n as [|n IH]; intros b h t H; cbn in H.
  - inversion H; subst. split; reflexivity.
  - destruct b as [|x b]; [discriminate|].
    destruct (take n b) as [[h' t']|] eqn:E; [|discriminate].
    inversion H; subst. apply IH in E as [-> <-]. split; reflexivity.
Qed.

Lemma take_none : forall n (b : bytes), take n b = None -> (length b < n)%nat.
Proof.
  induction n as [|n IH]; intros b H; cbn in H; [discriminate|].
  destruct b as [|x b]; [cbn; lia|].
  destruct (take n b) as [[h' t']|] eqn:E; [discriminate|].
  apply IH in E. cbn. lia.
Qed.

Lemma take_nil_some : forall n h t, take n [] = Some (h, t) -> n = 0%nat.
Proof. intros [|n] h t H; [reflexivity|discriminate]. Qed.

(* ------------------------------------------------------------------ *)
(** * big-endian words *)

Lemma len_app (a b : bytes) : len (a ++ b) = len a + len b.
Proof. unfold len. rewrite app_length. lia. Qed.

Lemma len_be w n : len (be w n) = N.of_nat w.
Proof. unfold len. now rewrite be_length. Qed.

Lemma rd_be_app w n (t : bytes) :
  n < 256 ^ N.of_nat w -> rd_be w (be w n ++ t) = Some (n, t).
Proof.
  intros Hn. unfold rd_be. rewrite (take_app_n w) by apply be_length.
  now rewrite unbe_be.
Qed.

Lemma unbe_snoc (a : bytes) (x : N) : unbe (a ++ [x]) = unbe a * 256 + x.
Proof. rewrite unbe_app. reflexivity. Qed.

Lemma unbe_lt : forall (b : bytes), wf_bytes b -> unbe b < 256 ^ N.of_nat (length b).
Proof.
  intros b. induction b as [|x b IH] using rev_ind; intros Hw.
  - cbn. lia.
  - apply Forall_app in Hw as [Hw1 Hw2]. inversion Hw2 as [|? ? Hx _]; subst.
    unfold wf_byte in Hx. specialize (IH Hw1).
    rewrite unbe_snoc, app_length. cbn [length].
    replace (N.of_nat (length b + 1)) with (N.succ (N.of_nat (length b))) by lia.
    rewrite N.pow_succ_r'. nia.
Qed.

Lemma be_unbe : forall (b : bytes), wf_bytes b -> be (length b) (unbe b) = b.
Proof.
  intros b. induction b as [|x b IH] using rev_ind; intros Hw; [reflexivity|].
  apply Forall_app in Hw as [Hw1 Hw2]. inversion Hw2 as [|? ? Hx _]; subst.
  unfold wf_byte in Hx.
  rewrite app_length, Nat.add_comm. cbn [length Nat.add be].
  rewrite unbe_snoc.
  replace ((unbe b * 256 + x) / 256) with (unbe b).
  2:{ apply N.div_unique with x; lia. }
  replace ((unbe b * 256 + x) mod 256) with x.
  2:{ apply N.mod_unique with (unbe b); lia. }
  now rewrite IH.
Qed.

Lemma rd_be_spec w (b t : bytes) n :
  rd_be w b = Some (n, t) -> exists h, b = h ++ t /\ length h = w /\ n = unbe h.
Proof.
  unfold rd_be. destruct (take w b) as [[h t']|] eqn:E; [|discriminate].
  intros H; inversion H; subst. apply take_spec in E as [-> E]. eauto.
Qed.

Lemma rd_be_inv w (b t : bytes) n :
  wf_bytes b -> rd_be w b = Some (n, t) -> b = be w n ++ t /\ n < 256 ^ N.of_nat w /\ wf_bytes t.
Proof.
  intros Hw H. apply rd_be_spec in H as (h & -> & Hl & ->).
  apply Forall_app in Hw as [Hh Ht]. subst w.
  rewrite be_unbe by assumption. auto using unbe_lt.
Qed.

(* ------------------------------------------------------------------ *)
(** * expect *)

Lemma beq_refl (a : bytes) : beq a a = true.
Proof. unfold beq, beqb. now rewrite bcmp_refl. Qed.

Lemma beq_eq (a b : bytes) : beq a b = true -> a = b.
Proof. unfold beq, beqb. destruct (bcmp a b) eqn:E; try discriminate. intros _. now apply bcmp_eq. Qed.

Lemma expect_app (s t : bytes) : expect s (s ++ t) = Some t.
Proof. unfold expect. rewrite take_app, beq_refl. reflexivity. Qed.

Lemma expect_spec (s b t : bytes) : expect s b = Some t -> b = s ++ t.
Proof.
  unfold expect. destruct (take (length s) b) as [[h t']|] eqn:E; [|discriminate].
  destruct (beq h s) eqn:Eb; [|discriminate]. intros H; inversion H; subst.
  apply beq_eq in Eb; subst. now apply take_spec in E as [-> _].
Qed.

(* ------------------------------------------------------------------ *)
(** * decimal digits of fixed width *)

Lemma fixw_length w n : length (fixw w n) = w.
Proof. revert n; induction w as [|w IH]; intros n; cbn; [reflexivity|]. rewrite app_length, IH; cbn; lia. Qed.

Lemma dval_app (a b : bytes) :
  dval (a ++ b) = fold_left (fun a c => a * 10 + (c - 48)) b (dval a).
Proof. unfold dval. now rewrite fold_left_app. Qed.

Lemma dval_fixw w n : n < 10 ^ N.of_nat w -> dval (fixw w n) = n.
Proof.
  revert n; induction w as [|w IH]; intros n Hn.
  - cbn in *. lia.
  - cbn [fixw]. rewrite dval_app. cbn [fold_left].
    rewrite IH.
    + pose proof (N.div_mod n 10 ltac:(lia)). pose proof (N.mod_lt n 10 ltac:(lia)). lia.
    + rewrite Nat2N.inj_succ, N.pow_succ_r' in Hn.
      apply N.div_lt_upper_bound; lia.
Qed.

Lemma fixw_digits w n : forallb is_digit (fixw w n) = true.
Proof.
  revert n; induction w as [|w IH]; intros n; cbn [fixw]; [reflexivity|].
  rewrite forallb_app, IH. cbn [forallb andb]. unfold is_digit.
  pose proof (N.mod_lt n 10 ltac:(lia)).
  rewrite andb_true_r. apply andb_true_intro; split; apply N.leb_le; lia.
Qed.

Lemma parse_uint_fixw w n : (0 < w)%nat -> n < 10 ^ N.of_nat w -> parse_uint (fixw w n) = Some n.
Proof.
  intros Hw Hn. unfold parse_uint.
  destruct (fixw w n) as [|c l] eqn:E.
  - apply (f_equal (@length N)) in E. rewrite fixw_length in E. cbn in E. lia.
  - rewrite <- E, fixw_digits, dval_fixw by assumption. reflexivity.
Qed.

Lemma fmt_pad_small w n : n < 10 ^ N.of_nat w -> fmt_pad w n = fixw w n.
Proof. intros H. unfold fmt_pad. apply N.ltb_lt in H. now rewrite H. Qed.
