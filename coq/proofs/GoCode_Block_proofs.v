(** (iii) objects.CombineRowBytesIntoBlock: translated body (gen/ExtractedCode.v) = u32 row
    count followed by the concatenated row encodings, i.e. [encode_block] of
    model/CodecStrList.v when the rows are the [encode_strlist] encodings; more than 2^32 rows
    panic in Go = [None] in the model. *)
From Coq Require Import List ZArith NArith Bool String Lia Arith.
From W.lib Require Import Tree Bytes GoLang.
From W.proofs Require Import GoLang_proofs.
From W.gen Require Import ExtractedCode.
From W.model Require Import CodecBase CodecStrList.
Import ListNotations.
Local Open Scope Z_scope.

(** [be w] keeps the low 8w bits *)
Lemma be_mod w : forall n, be w (n mod 256 ^ N.of_nat w) = be w n.
Proof.
  induction w as [|w IH]; intros n; [reflexivity|].
  cbn [be]. rewrite Nat2N.inj_succ, N.pow_succ_r'.
  assert (P : (256 ^ N.of_nat w <> 0)%N) by (apply N.pow_nonzero; lia).
  rewrite N.mod_mul_r by lia.
  f_equal.
  - rewrite <- (IH (n / 256)%N). f_equal.
    rewrite N.mul_comm, N.div_add by lia. rewrite N.div_small by (apply N.mod_lt; lia). reflexivity.
  - f_equal. rewrite N.mul_comm, N.mod_add by lia. apply N.mod_mod. lia.
Qed.

Definition combine_spec (brs : list bytes) : option bytes :=
  if (2 ^ 32 <? N.of_nat (length brs))%N then None
  else Some (be 4 (N.of_nat (length brs)) ++ concat brs).

Lemma concat_firstn_S (l : list bytes) n : (n < length l)%nat ->
  concat (firstn (S n) l) = concat (firstn n l) ++ nth n l [].
Proof. intros H. rewrite (firstn_S_nth l n []) by exact H. rewrite concat_app. cbn. now rewrite app_nil_r. Qed.

Lemma concat_firstn_le (l : list bytes) n : (length (concat (firstn n l)) <= length (concat l))%nat.
Proof.
  rewrite <- (firstn_skipn n l) at 2. rewrite concat_app, app_length. lia.
Qed.

Lemma go_CombineRowBytesIntoBlock_spec (brs : list bytes) :
  Z.of_nat (length brs) < 2 ^ 62 -> Z.of_nat (length (concat brs)) < 2 ^ 62 ->
  exists fuel, run_func fuel go_prog go_CombineRowBytesIntoBlock [v_strs brs]
               = match combine_spec brs with Some b => FOk [VStr b] [] | None => FPanic end.
Proof.
  intros Hn Hc.
  start_func go_CombineRowBytesIntoBlock. unfold v_strs.
  straight.
  (* m := 4 + sum of the lengths *)
  eapply (wp_seq_inv _ _ _ _
            (fun e1 => exists vb, e1 = [VList (map VStr brs); VInt (4 + Z.of_nat (length (concat brs))); vb; VUnset; VUnset; VUnset; VUnset])).
  { stepn.
    eapply (wp_items_inv _ _ _ _ _ _
              (fun n e => exists vb, e = [VList (map VStr brs); VInt (4 + Z.of_nat (length (concat (firstn n brs))));
                                          vb; VUnset; VUnset; VUnset; VUnset])).
    - exists VUnset. reflexivity.
    - intros n e x (vb & ->) Hx.
      apply (nth_error_map_inv VStr brs n x []) in Hx. destruct Hx as [Hlt ->].
      pose proof (concat_firstn_le brs n). pose proof (concat_firstn_le brs (S n)) as HS.
      rewrite (concat_firstn_S brs n Hlt), app_length in *.
      ev. stepsn. rewrite <- Z.add_assoc, <- Nat2Z.inj_add. eexists. reflexivity.
    - intros e (vb & ->). rewrite length_map_VStr, firstn_all. exists vb. reflexivity. }
  intros e1 (vb & ->). straight.
  stepn. stepn.
  unfold combine_spec.
  assert (Eg : (4294967296 <? Z.of_nat (length brs)) = (2 ^ 32 <? N.of_nat (length brs))%N).
  { change (2 ^ 32)%N with 4294967296%N.
    destruct (Z.ltb_spec 4294967296 (Z.of_nat (length brs))), (N.ltb_spec 4294967296 (N.of_nat (length brs))); try reflexivity; lia. }
  rewrite Eg. destruct (N.ltb_spec (2 ^ 32) (N.of_nat (length brs))) as [Big|Small].
  { stepsn. reflexivity. }
  stepn. stepn.
  replace (Z.to_nat (4 + Z.of_nat (length (concat brs)))) with (4 + length (concat brs))%nat by lia.
  (* binary.BigEndian.PutUint32(b, uint32(n)) *)
  stepn. stepn.
  change (Z.to_nat 0) with O. change (0 + 4)%nat with 4%nat. cbn [firstn app].
  rewrite skipn_repeat.
  assert (Ebe : be 4 (Z.to_N (wrap (IU 32) (Z.of_nat (length brs)))) = be 4 (N.of_nat (length brs))).
  { rewrite <- (be_mod 4 (N.of_nat (length brs))). f_equal. unfold wrap.
    rewrite Z2N.inj_mod by lia. rewrite <- (nat_N_Z (length brs)), N2Z.id. reflexivity. }
  rewrite Ebe. set (hd := be 4 (N.of_nat (length brs))).
  assert (Hhd : length hd = 4%nat) by apply be_length.
  straight.
  (* the rows *)
  stepn. stepn.
  eapply (wp_items_inv _ _ _ _ _ _
            (fun n e => exists vrow,
               e = [VList (map VStr brs); VInt (4 + Z.of_nat (length (concat brs))); vb;
                    VStr ((hd ++ concat (firstn n brs)) ++ repeat 0%N (length (concat brs) - length (concat (firstn n brs))));
                    VInt (Z.of_nat (length brs)); VInt (4 + Z.of_nat (length (concat (firstn n brs)))); vrow])).
  - exists VUnset. cbn [firstn concat length]. rewrite app_nil_r, Nat.sub_0_r. reflexivity.
  - intros n e x (vrow & ->) Hx.
    apply (nth_error_map_inv VStr brs n x []) in Hx. destruct Hx as [Hlt ->].
    pose proof (concat_firstn_le brs n) as Hle. pose proof (concat_firstn_le brs (S n)) as HS.
    rewrite (concat_firstn_S brs n Hlt) in *. rewrite app_length in HS.
    set (P := hd ++ concat (firstn n brs)) in *.
    assert (HP : length P = (4 + length (concat (firstn n brs)))%nat) by (unfold P; rewrite app_length; lia).
    ev. stepn. stepn.
    replace (Z.to_nat (4 + Z.of_nat (length (concat (firstn n brs))))) with (length P) by lia.
    rewrite (firstn_app_len P _ _ eq_refl), (skipn_app_len P _ _ eq_refl).
    rewrite copy_into_zeros by lia.
    stepsn. rewrite <- Z.add_assoc, <- Nat2Z.inj_add.
    exists (VStr (nth n brs [])). unfold P.
    rewrite (app_length (concat (firstn n brs))), <- !app_assoc, Nat.sub_add_distr. reflexivity.
  - intros e (vrow & ->). rewrite length_map_VStr, firstn_all, Nat.sub_diag. cbn [repeat]. rewrite app_nil_r.
    stepsn. reflexivity.
Qed.

(** the block encoder of the model is [combine_spec] of the row encodings *)
Lemma enc_rows_concat : forall rows brs,
  map encode_strlist rows = map Some brs -> enc_rows rows = Some (concat brs).
Proof.
  induction rows as [|r rows IH]; intros [|b brs] H; cbn in H; try discriminate; [reflexivity|].
  inversion H as [[H1 H2]]. cbn [enc_rows concat]. rewrite H1, (IH brs H2). reflexivity.
Qed.

Lemma encode_block_combine rows brs :
  map encode_strlist rows = map Some brs -> encode_block rows = combine_spec brs.
Proof.
  intros H. unfold encode_block, combine_spec.
  assert (L : length rows = length brs).
  { rewrite <- (map_length encode_strlist rows), H. apply map_length. }
  rewrite L, (enc_rows_concat rows brs H). reflexivity.
Qed.

Lemma go_CombineRowBytesIntoBlock_model (rows : list (list bytes)) (brs : list bytes) :
  map encode_strlist rows = map Some brs ->
  Z.of_nat (length brs) < 2 ^ 62 -> Z.of_nat (length (concat brs)) < 2 ^ 62 ->
  exists fuel, run_func fuel go_prog go_CombineRowBytesIntoBlock [v_strs brs]
               = match encode_block rows with Some b => FOk [VStr b] [] | None => FPanic end.
Proof.
  intros H Hn Hc. rewrite (encode_block_combine rows brs H).
  apply go_CombineRowBytesIntoBlock_spec; assumption.
Qed.
