(** Proofs about coq/model/Prune.v (C12), part 2: childrenFirst (Kahn's algorithm).
    [children_first_spec]: the result has no duplicates, contains only to-remove commits, every
    prefix of it is closed under "to-remove child of" (so a commit is deleted only after all its
    to-remove children), and - when the parent relation is acyclic - it contains every
    to-remove commit. *)
From Coq Require Import List NArith ZArith Bool Arith Lia ZifyNat ZifyN ZifyBool.
From W.lib Require Import Tree GoSort.
From W.model Require Import PruneRepo Prune.
From W.proofs Require Import Prune_proofs.
Import ListNotations.
Local Open Scope N_scope.

Lemma get_setz : forall m k v k', getz (setz k v m) k' = if k =? k' then v else getz m k'.
Proof.
  intros m k v k'. unfold getz, setz. cbn [get]. destruct (k =? k') eqn:E; [reflexivity|].
  rewrite get_rem, E. reflexivity.
Qed.

Notation cnt := (count_occ N.eq_dec).

Lemma inc_fold_spec : forall ps m x,
  getz (fold_left (fun m p => setz p (getz m p + 1)%Z m) ps m) x = (getz m x + Z.of_nat (cnt ps x))%Z.
Proof.
  induction ps as [|p ps IH]; intros m x; cbn [fold_left].
  - cbn. lia.
  - rewrite IH, get_setz. destruct (N.eq_dec p x) as [->|Hne].
    + rewrite N.eqb_refl, count_occ_cons_eq by reflexivity. lia.
    + rewrite (proj2 (N.eqb_neq p x) Hne), count_occ_cons_neq by exact Hne. lia.
Qed.

Lemma in_middle : forall A (u1 u2 : list A) a x, In x (u1 ++ a :: u2) <-> x = a \/ In x (u1 ++ u2).
Proof. intros. rewrite !in_app_iff. cbn [In]. intuition. Qed.

Lemma NoDup_snoc : forall A (l : list A) a, NoDup l -> ~ In a l -> NoDup (l ++ [a]).
Proof.
  intros A l a H. induction H as [|x l Hx Hnd IH]; intros Ha; cbn [app].
  - constructor; [intros []|constructor].
  - constructor.
    + rewrite in_app_iff. cbn [In]. intros [H|[H|[]]]; [exact (Hx H)|]. apply Ha. left. symmetry. exact H.
    + apply IH. intros H. apply Ha. right. exact H.
Qed.

Lemma max_rank : forall (rank : N -> nat) (l : list N), l <> [] ->
  exists c, In c l /\ forall x, In x l -> (rank x <= rank c)%nat.
Proof.
  intros rank l. induction l as [|a l IH]; intros Hne; [congruence|].
  destruct l as [|b l].
  - exists a. split; [left; reflexivity|]. intros x [<-|[]]. lia.
  - destruct (IH ltac:(discriminate)) as (c & Hc & Hmax).
    destruct (Nat.le_gt_cases (rank a) (rank c)) as [H|H].
    + exists c. split; [right; exact Hc|]. intros x [<-|Hx]; [exact H|apply Hmax; exact Hx].
    + exists a. split; [left; reflexivity|]. intros x [<-|Hx]; [lia|]. specialize (Hmax x Hx). lia.
Qed.

Section Kahn.
  Variable cm : list (N * commit).
  Variable cs : list N.
  Hypothesis cs_nodup : NoDup cs.

  Let cfp := cf_parents cm cs.

  Lemma cfp_In : forall c p, In p (cfp c) <->
    exists co, get cm c = Some co /\ In p (c_parents co) /\ In p cs.
  Proof.
    intros c p. unfold cfp, cf_parents. destruct (get cm c) as [co|].
    - rewrite filter_In, mem_In. split.
      + intros [H1 H2]. exists co. auto.
      + intros (co' & E & H1 & H2). inversion E; subst. auto.
    - split; [intros []|intros (co & E & _); discriminate].
  Qed.

  Lemma cf_count_fold : forall l m x,
    getz (fold_left (fun m c => fold_left (fun m p => setz p (getz m p + 1)%Z m) (cf_parents cm cs c) m) l m) x
    = (getz m x + Z.of_nat (cnt (flat_map cfp l) x))%Z.
  Proof.
    induction l as [|c l IH]; intros m x; cbn [fold_left flat_map].
    - cbn. lia.
    - rewrite IH, inc_fold_spec, count_occ_app. fold (cfp c). lia.
  Qed.

  Lemma cf_count_spec : forall x, getz (cf_count cm cs) x = Z.of_nat (cnt (flat_map cfp cs) x).
  Proof. intros x. unfold cf_count. rewrite cf_count_fold. cbn. lia. Qed.

  Lemma cnt_flat_ge : forall (U : list N) c x, In c U -> (cnt (cfp c) x <= cnt (flat_map cfp U) x)%nat.
  Proof.
    intros U c x Hin. destruct (in_split c U Hin) as (u1 & u2 & ->).
    rewrite flat_map_app. cbn [flat_map]. rewrite !count_occ_app. lia.
  Qed.

  (** the decrement loop *)
  Lemma cf_dec_spec : forall ps pend q,
    (forall x, (Z.of_nat (cnt ps x) <= getz pend x)%Z) ->
    NoDup q -> (forall x, In x q -> ~ In x ps) ->
    (forall x, getz (fst (cf_dec ps pend q)) x = (getz pend x - Z.of_nat (cnt ps x))%Z) /\
    (forall x, In x (snd (cf_dec ps pend q)) <->
               In x q \/ (In x ps /\ getz (fst (cf_dec ps pend q)) x = 0%Z)) /\
    NoDup (snd (cf_dec ps pend q)).
  Proof.
    induction ps as [|p ps IH]; intros pend q Hge Hnd Hq; cbn [cf_dec].
    - cbn [fst snd]. split; [intros x; cbn; lia|]. split; [|exact Hnd].
      intros x. cbn [In]. tauto.
    - set (v := (getz pend p - 1)%Z).
      set (pend1 := setz p v pend).
      set (q1 := if (v =? 0)%Z then q ++ [p] else q).
      assert (Hp : (Z.of_nat (cnt ps p) <= v)%Z).
      { specialize (Hge p). rewrite count_occ_cons_eq in Hge by reflexivity. unfold v. lia. }
      assert (Hge1 : forall x, (Z.of_nat (cnt ps x) <= getz pend1 x)%Z).
      { intros x. unfold pend1. rewrite get_setz. destruct (N.eq_dec p x) as [->|Hne].
        - rewrite N.eqb_refl. exact Hp.
        - rewrite (proj2 (N.eqb_neq p x) Hne). specialize (Hge x).
          rewrite count_occ_cons_neq in Hge by exact Hne. exact Hge. }
      assert (Hnd1 : NoDup q1 /\ forall x, In x q1 -> ~ In x ps).
      { unfold q1. destruct (v =? 0)%Z eqn:Ev.
        - apply Z.eqb_eq in Ev. assert (Hnp : ~ In p ps).
          { intros Hin. apply (count_occ_In N.eq_dec) in Hin. lia. }
          split.
          + apply NoDup_snoc; [exact Hnd|]. intros Hin. apply (Hq p Hin). left. reflexivity.
          + intros x Hx. apply in_app_iff in Hx. destruct Hx as [Hx|[<-|[]]]; [|exact Hnp].
            intros Hin. apply (Hq x Hx). right. exact Hin.
        - split; [exact Hnd|]. intros x Hx Hin. apply (Hq x Hx). right. exact Hin. }
      destruct Hnd1 as [Hnd1 Hq1].
      destruct (IH pend1 q1 Hge1 Hnd1 Hq1) as (R1 & R2 & R3).
      split; [|split; [|exact R3]].
      + intros x. rewrite R1. unfold pend1. rewrite get_setz. destruct (N.eq_dec p x) as [->|Hne].
        * rewrite N.eqb_refl, count_occ_cons_eq by reflexivity. unfold v. lia.
        * rewrite (proj2 (N.eqb_neq p x) Hne), count_occ_cons_neq by exact Hne. lia.
      + intros x. rewrite R2. unfold q1. cbn [In]. destruct (v =? 0)%Z eqn:Ev.
        * apply Z.eqb_eq in Ev. rewrite in_app_iff. cbn [In]. split.
          -- intros [[H|[<-|[]]]|[H1 H2]]; [left; exact H| |right; split; [right; exact H1|exact H2]].
             right. split; [left; reflexivity|]. rewrite R1. unfold pend1.
             rewrite get_setz, N.eqb_refl. lia.
          -- intros [H|[[<-|H1] H2]]; [left; left; exact H|left; right; left; reflexivity|].
             right. split; assumption.
        * apply Z.eqb_neq in Ev. split.
          -- intros [H|[H1 H2]]; [left; exact H|right; split; [right; exact H1|exact H2]].
          -- intros [H|[[<-|H1] H2]]; [left; exact H| |right; split; assumption].
             right. split; [|exact H2].
             pose proof H2 as H3. rewrite R1 in H3. unfold pend1 in H3. rewrite get_setz, N.eqb_refl in H3.
             apply (count_occ_In N.eq_dec). lia.
  Qed.

  Lemma In_snoc : forall (l : list N) a c, In c (l ++ [a]) <-> In c l \/ c = a.
  Proof. intros. rewrite in_app_iff. cbn [In]. intuition. Qed.

  Record kinv (U : list N) (pend : list (N * Z)) (queue result : list N) : Prop := mkKinv {
    k_part : forall c, In c cs <-> In c U \/ In c result;
    k_disj : forall c, In c U -> ~ In c result;
    k_Und : NoDup U;
    k_cnt : forall x, getz pend x = Z.of_nat (cnt (flat_map cfp U) x);
    k_q : forall c, In c queue -> In c U /\ getz pend c = 0%Z;
    k_qnd : NoDup queue;
    k_res0 : forall c, In c result -> getz pend c = 0%Z;
    k_zero : forall c, In c cs -> getz pend c = 0%Z -> In c queue \/ In c result;
    k_rnd : NoDup result;
    k_cc : forall m p c, In p (firstn m result) -> In c cs -> In p (cfp c) -> In c (firstn m result) }.

  Lemma cf_loop_spec : forall fuel U pend queue result,
    kinv U pend queue result -> (length result + fuel = S (length cs))%nat ->
    exists out U' pend', cf_loop fuel cm cs pend queue result = Some out /\ kinv U' pend' [] out.
  Proof.
    induction fuel as [|fuel IH]; intros U pend queue result Hk Hf.
    - exfalso. assert (length result <= length cs)%nat; [|lia].
      apply NoDup_incl_length; [apply (k_rnd _ _ _ _ Hk)|].
      intros c Hc. apply (k_part _ _ _ _ Hk). right. exact Hc.
    - cbn [cf_loop]. destruct queue as [|sum q'].
      + exists result, U, pend. split; [reflexivity|exact Hk].
      + destruct Hk as [Kp Kd Ku Kc Kq Kqn Kr0 Kz Krn Kcc].
        destruct (Kq sum (or_introl eq_refl)) as [HsU Hs0].
        destruct (in_split sum U HsU) as (u1 & u2 & EU).
        assert (HcU : forall x, cnt (flat_map cfp U) x
                                = (cnt (flat_map cfp (u1 ++ u2)) x + cnt (cfp sum) x)%nat).
        { intros x. rewrite EU, !flat_map_app. cbn [flat_map]. rewrite !count_occ_app. lia. }
        assert (Hge : forall x, (Z.of_nat (cnt (cfp sum) x) <= getz pend x)%Z).
        { intros x. rewrite Kc, HcU. lia. }
        apply NoDup_cons_iff in Kqn. destruct Kqn as [Hsq Kqn'].
        assert (Hqps : forall x, In x q' -> ~ In x (cfp sum)).
        { intros x Hx Hin. destruct (Kq x (or_intror Hx)) as [_ Hx0].
          apply (count_occ_In N.eq_dec) in Hin. specialize (Hge x). lia. }
        destruct (cf_dec_spec (cfp sum) pend q' Hge Kqn' Hqps) as (D1 & D2 & D3).
        fold cfp. destruct (cf_dec (cfp sum) pend q') as [pend' q''] eqn:Ed. cbn [fst snd] in D1, D2, D3.
        apply (IH (u1 ++ u2) pend' q'' (result ++ [sum])); [|rewrite app_length; cbn [length]; lia].
        assert (HU' : forall c, In c U <-> c = sum \/ In c (u1 ++ u2)).
        { intros c. rewrite EU. apply in_middle. }
        assert (Hns : ~ In sum (u1 ++ u2)).
        { rewrite EU in Ku. apply NoDup_remove_2 in Ku. exact Ku. }
        assert (Hsr : ~ In sum result) by (apply Kd; exact HsU).
        constructor.
        * intros c. rewrite Kp, HU', In_snoc. tauto.
        * intros c Hc Hr. apply In_snoc in Hr. destruct Hr as [Hr| ->]; [|exact (Hns Hc)].
          apply (Kd c); [apply HU'; right; exact Hc|exact Hr].
        * rewrite EU in Ku. apply NoDup_remove_1 in Ku. exact Ku.
        * intros x. rewrite D1, Kc, HcU. lia.
        * intros c Hc. apply D2 in Hc. destruct Hc as [Hc|[Hc Hc0]].
          -- destruct (Kq c (or_intror Hc)) as [HcU' Hc00]. split.
             ++ apply HU' in HcU'. destruct HcU' as [-> |H]; [contradiction|exact H].
             ++ rewrite D1. specialize (Hge c). lia.
          -- split; [|exact Hc0].
             assert (Hpos : (1 <= Z.of_nat (cnt (cfp sum) c))%Z).
             { apply (count_occ_In N.eq_dec) in Hc. lia. }
             assert (Hccs : In c cs) by (apply cfp_In in Hc; destruct Hc as (co & _ & _ & H); exact H).
             apply Kp in Hccs. destruct Hccs as [H|H].
             ++ apply HU' in H. destruct H as [-> |H]; [|exact H]. specialize (Hge sum). lia.
             ++ apply Kr0 in H. specialize (Hge c). lia.
        * exact D3.
        * intros c Hc. rewrite D1. specialize (Hge c). apply In_snoc in Hc. destruct Hc as [Hc| ->].
          -- apply Kr0 in Hc. lia.
          -- lia.
        * intros c Hc H0. rewrite D1 in H0. destruct (Z.eq_dec (getz pend c) 0) as [Hz|Hnz].
          -- destruct (Kz c Hc Hz) as [[<- |H]|H].
             ++ right. apply In_snoc. right. reflexivity.
             ++ left. apply D2. left. exact H.
             ++ right. apply In_snoc. left. exact H.
          -- left. apply D2. right. split; [|rewrite D1; exact H0].
             apply (count_occ_In N.eq_dec). specialize (Hge c). lia.
        * apply NoDup_snoc; assumption.
        * intros m p c Hp Hc Hpc. rewrite firstn_app in *.
          destruct (Nat.le_gt_cases m (length result)) as [Hm|Hm].
          -- replace (m - length result)%nat with 0%nat in * by lia. cbn [firstn] in *.
             rewrite app_nil_r in *. eapply Kcc; eassumption.
          -- rewrite (firstn_all2 result) in * by lia.
             destruct (m - length result)%nat as [|k] eqn:Ek; [lia|]. cbn [firstn] in *.
             rewrite firstn_nil in *. apply In_snoc. apply In_snoc in Hp. left.
             destruct Hp as [Hp| ->].
             ++ pose proof (Kcc (length result) p c) as H. rewrite firstn_all in H. apply H; assumption.
             ++ apply Kp in Hc. destruct Hc as [Hc|Hc]; [|exact Hc]. exfalso.
                pose proof (cnt_flat_ge U c sum Hc) as Hle.
                apply (count_occ_In N.eq_dec) in Hpc. specialize (Kc sum). lia.
  Qed.

  Theorem children_first_spec :
    exists out, children_first cm cs = Some out /\ NoDup out /\ incl out cs /\
      (forall m p c, In p (firstn m out) -> In c cs -> In p (cfp c) -> In c (firstn m out)) /\
      ((exists rank : N -> nat, forall c co p, In c cs -> get cm c = Some co ->
            In p (c_parents co) -> In p cs -> (rank p < rank c)%nat) ->
       forall c, In c cs -> In c out).
  Proof.
    unfold children_first.
    set (pend := cf_count cm cs).
    destruct (cf_loop_spec (S (length cs)) cs pend (filter (fun c => (getz pend c =? 0)%Z) cs) [])
      as (out & U & pend' & E & Hk).
    { constructor.
      - intros c. cbn [In]. tauto.
      - intros c _ [].
      - exact cs_nodup.
      - apply cf_count_spec.
      - intros c Hc. apply filter_In in Hc. destruct Hc as [H1 H2]. apply Z.eqb_eq in H2. auto.
      - apply NoDup_filter. exact cs_nodup.
      - intros c [].
      - intros c Hc H0. left. apply filter_In. split; [exact Hc|apply Z.eqb_eq; exact H0].
      - constructor.
      - intros m p c Hp. rewrite firstn_nil in Hp. destruct Hp. }
    { cbn [length]. lia. }
    exists out. split; [exact E|]. destruct Hk as [Kp Kd Ku Kc Kq Kqn Kr0 Kz Krn Kcc].
    split; [exact Krn|]. split; [intros c Hc; apply Kp; right; exact Hc|]. split; [exact Kcc|].
    intros (rank & Hrank) c Hc.
    destruct U as [|u0 U'] eqn:EU.
    - apply Kp in Hc. destruct Hc as [[]|Hc]. exact Hc.
    - exfalso. rewrite <- EU in *. assert (HUne : U <> []) by (rewrite EU; discriminate).
      destruct (max_rank rank U HUne) as (c0 & Hc0 & Hmax).
      assert (Hc0cs : In c0 cs) by (apply Kp; left; exact Hc0).
      assert (Hz : getz pend' c0 = 0%Z).
      { rewrite Kc. destruct (cnt (flat_map cfp U) c0) as [|k] eqn:Ek; [reflexivity|exfalso].
        assert (Hin : In c0 (flat_map cfp U)) by (apply (count_occ_In N.eq_dec); lia).
        apply in_flat_map in Hin. destruct Hin as (c' & Hc' & Hp).
        apply cfp_In in Hp. destruct Hp as (co & Eco & Hp1 & Hp2).
        assert (Hc'cs : In c' cs) by (apply Kp; left; exact Hc').
        pose proof (Hrank c' co c0 Hc'cs Eco Hp1 Hp2). specialize (Hmax c' Hc'). lia. }
      destruct (Kz c0 Hc0cs Hz) as [[]|H]. exact (Kd c0 Hc0 H).
  Qed.
End Kahn.
