(** Proofs about coq/model/Prune.v (C12), part 4: concrete witnesses - the two pre-fix variants
    refuted, the behaviours the property text does not cover (early return, torn triple), and
    non-vacuity of the hypotheses. *)
From Coq Require Import List NArith ZArith Bool Arith Lia ZifyNat ZifyN ZifyBool.
From W.lib Require Import Tree GoSort.
From W.model Require Import PruneRepo Prune.
From W.proofs Require Import Prune_proofs PruneOrder_proofs PrunePlan_proofs.
Import ListNotations.
Local Open Scope N_scope.

(** deciding reachability facts of a concrete state with the (verified) ref walk *)
Definition walk_removable (s : state) (c : N) : bool :=
  match find_commits pos_append true s with Ok (rm, _) => mem c rm | Fail _ => false end.
Definition walk_not_live (s : state) (t : N) : bool :=
  match find_commits pos_append true s with
  | Ok (_, sv) => forallb (fun c => match get_commit s c with
                                    | Some cm => negb (c_table cm =? t) | None => true end) sv
  | Fail _ => false
  end.

Lemma walk_removable_ok : forall s c, ClosedReach s -> walk_removable s c = true -> removable s c.
Proof.
  intros s c Hcl H. unfold walk_removable in H.
  destruct (find_commits_spec pos_append s Hcl) as (rm & sv & E & _ & Hrm & _). rewrite E in H.
  apply Hrm. apply mem_In. exact H.
Qed.

Lemma walk_not_live_ok : forall s t, ClosedReach s -> walk_not_live s t = true -> ~ live_table s t.
Proof.
  intros s t Hcl H (c & cm & Hr & Ec & Et). unfold walk_not_live in H.
  destruct (find_commits_spec pos_append s Hcl) as (rm & sv & E & Hsv & _). rewrite E in H.
  rewrite forallb_forall in H. assert (Hin : In c sv) by (apply Hsv; split; [exact Hr|congruence]).
  specialize (H c Hin). rewrite Ec in H. apply negb_true_iff, N.eqb_neq in H. exact (H Et).
Qed.

Ltac hyps := repeat match goal with
  | |- Closed _ => apply closedb_Closed; vm_compute; reflexivity
  | |- RefsResolve _ => apply refs_resolveb_RefsResolve; vm_compute; reflexivity
  | |- Acyclic _ => apply acyclicb_Acyclic; vm_compute; reflexivity
  | |- _ /\ _ => split
  end.

(* reachable shallow commit 1 (table 9 is not stored) + orphan commit 2 *)
Definition w_shallow : state :=
  mkState [(1, mkCommit 9 []); (2, mkCommit 5 [])] [] [] [] [] [] [(0, 1)].

(** before fix 98a13da the slot found by sort.Search was indexed blindly: index out of range *)
Lemma unchecked_refuted :
  exists s, Closed s /\ RefsResolve s /\ Acyclic s /\ snd (prune_unchecked s) = Panic.
Proof. exists w_shallow. hyps. vm_compute. reflexivity. Qed.

(* the shallow commit's table id 4 sorts just before the orphan's stored table 5 *)
Definition w_between : state :=
  mkState [(1, mkCommit 4 []); (2, mkCommit 5 [])] [(5, mkTable [7] [8])] [5] [5] [7] [8] [(0, 1)].

(** ... or the slot of the next table was marked: an unreferenced table survives *)
Lemma unchecked_keeps_garbage :
  exists s t, Closed s /\ RefsResolve s /\ Acyclic s /\ has_removable s /\
    get_table s t <> None /\ ~ live_table s t /\
    snd (prune_unchecked s) = Done /\
    get_table (apply_dels (fst (prune_unchecked s)) s) t <> None.
Proof.
  exists w_between, 5.
  assert (Hcl : ClosedReach w_between) by (apply Closed_ClosedReach, closedb_Closed; vm_compute; reflexivity).
  hyps.
  - exists 2. apply walk_removable_ok; [exact Hcl|vm_compute; reflexivity].
  - vm_compute. discriminate.
  - apply walk_not_live_ok; [exact Hcl|vm_compute; reflexivity].
  - vm_compute. reflexivity.
  - vm_compute. discriminate.
Qed.

(* orphan chain: 3's parent is 2; key order deletes the parent first *)
Definition w_chain : state :=
  mkState [(1, mkCommit 9 []); (2, mkCommit 9 []); (3, mkCommit 9 [2])] [] [] [] [] [] [(0, 1)].

(** before fix b7554dd the unreachable commits were deleted in key order: a crash inside that
    phase could leave a stored commit whose parent is gone *)
Lemma key_order_refuted :
  exists s n, Closed s /\ RefsResolve s /\ Acyclic s /\
    ~ Closed (apply_dels (firstn n (fst (prune_key_order s))) s).
Proof.
  exists w_chain, 1%nat. hyps. intros H.
  apply (H 3 (mkCommit 9 [2]) 2); [vm_compute; reflexivity|left; reflexivity|vm_compute; reflexivity].
Qed.

(* no unreachable commit, but a table (with index, profile, block, block index) nothing refers to,
   e.g. left by an interrupted commit / fetch *)
Definition w_orphan_table : state :=
  mkState [(1, mkCommit 9 [])] [(5, mkTable [7] [8])] [5] [5] [7] [8] [(0, 1)].

(** the early return: with no removable commit prune deletes nothing, whatever else is garbage *)
Lemma early_return_leaves_orphans :
  exists s t, Closed s /\ RefsResolve s /\ Acyclic s /\
    get_table s t <> None /\ ~ live_table s t /\ prune s = ([], Done).
Proof.
  exists w_orphan_table, 5.
  assert (Hcl : ClosedReach w_orphan_table) by (apply Closed_ClosedReach, closedb_Closed; vm_compute; reflexivity).
  hyps.
  - vm_compute. discriminate.
  - apply walk_not_live_ok; [exact Hcl|vm_compute; reflexivity].
  - vm_compute. reflexivity.
Qed.

(* reachable commit 1, orphan commit 2 with table 5 (index, profile, block 7, block index 8) *)
Definition w_orphan : state :=
  mkState [(1, mkCommit 9 []); (2, mkCommit 5 [])] [(5, mkTable [7] [8])] [5] [5] [7] [8] [(0, 1)].

(** a crash between DeleteTable and DeleteTableProfile leaves a profile no re-run removes *)
Lemma torn_triple_leak :
  exists s n t, Closed s /\ RefsResolve s /\ Acyclic s /\
    mem t (prof (pruned s)) = false /\
    mem t (prof (pruned (crash n s))) = true /\
    prune (pruned (crash n s)) = ([], Done).
Proof. exists w_orphan, 2%nat, 5. hyps; vm_compute; reflexivity. Qed.

(* a merge history with shared blocks, a shallow commit, refs of several kinds *)
Definition w_example : state :=
  mkState [(1, mkCommit 20 []); (2, mkCommit 21 [1]); (3, mkCommit 22 [1]); (4, mkCommit 21 [2; 3]);
           (5, mkCommit 23 [2]); (6, mkCommit 24 [5; 3]); (7, mkCommit 99 [1])]
          [(20, mkTable [30] [40]); (21, mkTable [30; 31] [40; 41]); (22, mkTable [30; 32] [40; 42]);
           (23, mkTable [31; 33] [41; 43]); (24, mkTable [34] [44])]
          [20; 21; 22; 23; 24] [20; 21; 22; 23]
          [30; 31; 32; 33; 34; 35] [40; 41; 42; 43; 44]
          [(0, 4); (4294967296, 2); (8589934592, 7)].

(** the hypotheses of the theorems are satisfiable by a state on which prune has real work *)
Lemma example_nontrivial :
  Closed w_example /\ RefsResolve w_example /\ Acyclic w_example /\ has_removable w_example /\
  prune w_example =
    ([Del KTable 23; Del KTblIdx 23; Del KProf 23; Del KTable 24; Del KTblIdx 24; Del KProf 24;
      Del KBlock 33; Del KBlock 34; Del KBlock 35; Del KBlkIdx 43; Del KBlkIdx 44;
      Del KCommit 6; Del KCommit 5], Done).
Proof.
  hyps.
  - exists 5. apply walk_removable_ok; [|vm_compute; reflexivity].
    apply Closed_ClosedReach, closedb_Closed. vm_compute. reflexivity.
  - vm_compute. reflexivity.
Qed.

(* ------------------------------------------------------------------ *)
(** the statements of props/C12.v under the premises Closed and RefsResolve *)

Lemma thm_total_closed : forall pos s, Closed s -> RefsResolve s -> snd (prune_with pos s) = Done.
Proof. intros pos s H _. exact (prune_total pos s (Closed_ClosedReach s H)). Qed.

Lemma thm_safe : forall pos s, Closed s -> RefsResolve s ->
  let s' := pruned_with pos s in
  refs s' = refs s /\ RefsResolve s' /\ Closed s' /\
  (forall c, reach s c -> commit_intact s s' c) /\ (forall c, reach s' c <-> reach s c).
Proof.
  intros pos s Hc Hr.
  destruct (prune_safe pos s (Closed_ClosedReach s Hc)) as (A & B & _ & D & _ & G & H).
  exact (conj A (conj (B Hr) (conj (D Hc) (conj G H)))).
Qed.

Lemma thm_prefix_safe : forall pos s n, Closed s -> RefsResolve s ->
  let s' := crash_with pos n s in
  refs s' = refs s /\ RefsResolve s' /\ Closed s' /\
  (forall c, reach s c -> commit_intact s s' c) /\ (forall c, reach s' c <-> reach s c).
Proof.
  intros pos s n Hc Hr.
  destruct (prune_prefix_safe pos s n (Closed_ClosedReach s Hc)) as (A & B & _ & D & _ & G & H).
  exact (conj A (conj (B Hr) (conj (D Hc) (conj G H)))).
Qed.

Lemma thm_complete : forall pos s, Closed s -> RefsResolve s -> Acyclic s ->
  let s' := pruned_with pos s in
  (forall c, ~ reach s c -> get_commit s' c = None) /\
  (has_removable s ->
     (forall t, ~ live_table s t -> get_table s' t = None) /\
     (forall t, get_table s t <> None -> ~ live_table s t ->
        mem t (tblidx s') = false /\ mem t (prof s') = false) /\
     (forall b, ~ live_block s b -> mem b (blocks s') = false) /\
     (forall b, ~ live_blkidx s b -> mem b (blkidx s') = false)) /\
  (forall t, get_table s t = None ->
     mem t (tblidx s') = mem t (tblidx s) /\ mem t (prof s') = mem t (prof s)) /\
  (~ has_removable s -> prune_with pos s = ([], Done)).
Proof.
  intros pos s Hc _ Ha.
  destruct (prune_complete pos s (Closed_ClosedReach s Hc)) as (A & B & C & D & F & G & H).
  exact (conj (A Ha) (conj (fun y => conj (B y) (conj (C y) (conj (F y) (G y)))) (conj D H))).
Qed.

Lemma thm_idempotent : forall pos s, Closed s -> RefsResolve s -> Acyclic s ->
  prune_with pos (pruned_with pos s) = ([], Done).
Proof. intros pos s Hc _ Ha. exact (prune_idempotent pos s (Closed_ClosedReach s Hc) Ha). Qed.

Lemma thm_rerun : forall pos s n, Closed s -> RefsResolve s -> Acyclic s ->
  let P := firstn n (fst (prune_with pos s)) in
  let s1 := crash_with pos n s in
  let sF := pruned_with pos s in
  let s2 := pruned_with pos s1 in
  snd (prune_with pos s1) = Done /\
  ((forall c, get_commit s2 c = get_commit sF c) /\
   (forall t, get_table s2 t = get_table sF t) /\
   (forall b, mem b (blocks s2) = mem b (blocks sF)) /\
   (forall b, mem b (blkidx s2) = mem b (blkidx sF)) /\
   refs s2 = refs sF /\
   (forall t, mem t (tblidx s2) = mem t (tblidx sF)
                || (deleted KTable t P && negb (deleted KTblIdx t P) && mem t (tblidx s))) /\
   (forall t, mem t (prof s2) = mem t (prof sF)
                || (deleted KTable t P && negb (deleted KProf t P) && mem t (prof s)))) /\
  prune_with pos s2 = ([], Done).
Proof. intros pos s n Hc _ Ha. exact (prune_rerun pos s n (Closed_ClosedReach s Hc) Ha). Qed.

Lemma thm_rerun_clean : forall pos s n, Closed s -> RefsResolve s -> Acyclic s ->
  let P := firstn n (fst (prune_with pos s)) in
  (forall t, deleted KTable t P = true -> deleted KTblIdx t P = true /\ deleted KProf t P = true) ->
  same_objs (pruned_with pos (crash_with pos n s)) (pruned_with pos s).
Proof. intros pos s n Hc _ Ha. exact (prune_rerun_clean pos s n (Closed_ClosedReach s Hc) Ha). Qed.

(* ------------------------------------------------------------------ *)
(** gc = drop the refs of expired transactions, then prune *)

Lemma gc_refs_closed : forall expired s, Closed s -> Closed (gc_refs expired s).
Proof. intros expired s H. exact H. Qed.

Lemma gc_refs_resolve : forall expired s, RefsResolve s -> RefsResolve (gc_refs expired s).
Proof.
  intros expired s H n c Hin. unfold gc_refs, set_refs in Hin. cbn [refs] in Hin.
  apply filter_In in Hin. destruct Hin as [Hin _]. exact (H n c Hin).
Qed.

Lemma thm_gc_safe : forall pos expired s, Closed s -> RefsResolve s ->
  let s0 := gc_refs expired s in
  let s' := gced_with pos expired s in
  (forall n c, In (n, c) (refs s) -> expired n = false -> In (n, c) (refs s') /\ reach s0 c) /\
  (forall n c, In (n, c) (refs s') -> In (n, c) (refs s) /\ expired n = false) /\
  RefsResolve s' /\ Closed s' /\
  (forall c, reach s0 c -> commit_intact s s' c) /\ (forall c, reach s' c <-> reach s0 c).
Proof.
  intros pos expired s Hc Hr. cbv zeta. unfold gced_with. set (s0 := gc_refs expired s).
  destruct (thm_safe pos s0 (gc_refs_closed expired s Hc) (gc_refs_resolve expired s Hr))
    as (A & B & C & D & E).
  assert (Hrefs : forall n c, In (n, c) (refs s0) <-> In (n, c) (refs s) /\ expired n = false).
  { intros n c. unfold s0, gc_refs, set_refs. cbn [refs]. rewrite filter_In. cbn [fst].
    rewrite negb_true_iff. reflexivity. }
  split; [|split; [|split; [exact B|split; [exact C|split; [exact D|exact E]]]]].
  - intros n c Hin He. assert (H0 : In (n, c) (refs s0)) by (apply Hrefs; auto).
    split; [rewrite A; exact H0|eapply reach_ref; exact H0].
  - intros n c Hin. rewrite A in Hin. apply Hrefs. exact Hin.
Qed.

Lemma thm_gc_complete : forall pos expired s, Closed s -> RefsResolve s -> Acyclic s ->
  forall c, ~ reach (gc_refs expired s) c -> get_commit (gced_with pos expired s) c = None.
Proof.
  intros pos expired s Hc Hr Ha.
  destruct (thm_complete pos (gc_refs expired s) (gc_refs_closed expired s Hc)
              (gc_refs_resolve expired s Hr) Ha) as (A & _).
  exact A.
Qed.
