(** Bridge B4 (C08 -> C09): proofs.  The session model's client (model/Session.v, proofs/Session_proofs.v)
    against the server that runs C08's ClosedSetsFinder (model/ClosedSets.v, proofs/ClosedSets*_proofs.v)
    and the ObjectSender of model/BridgeClosedSession.v.  Session side is imported, ClosedSets side is
    used with qualified names (both define add_all, anc, q_insert, find_commons, walk_want, ...). *)
From Coq Require Import List NArith Bool Arith Lia Permutation.
From W.lib Require Import Tree Bytes.
From W.model Require Import RefUpdate Session BridgeClosedSession.
From W.model Require ClosedSets ClosedSetsSpec.
From W.proofs Require Import RefUpdate_proofs Session_proofs.
From W.proofs Require ClosedSets_proofs ClosedSetsTerm_proofs ClosedSetsQueue_proofs
     ClosedSetsSession_proofs ClosedSetsSingle_proofs ClosedSetsMain_proofs.
Import ListNotations.
Local Open Scope N_scope.

(* ------------------------------------------------------------------ *)
(** * the abstraction function                                          *)
(* ------------------------------------------------------------------ *)

Lemma mem_cmem x l : ClosedSets.mem x l = cmem x l.
Proof. reflexivity. Qed.

Lemma assoc_store g cs c :
  ClosedSets.assoc (map (fun c => (c, cs_commit g c)) cs) c =
  if cmem c cs then Some (cs_commit g c) else None.
Proof.
  induction cs as [|x cs IH]; simpl; [reflexivity|].
  rewrite (N.eqb_sym c x). destruct (x =? c) eqn:E; simpl.
  - apply N.eqb_eq in E. subst. reflexivity.
  - exact IH.
Qed.

Lemma get_commit_store g o c :
  ClosedSets.get_commit (store_of g o) c =
  if cmem c (o_commits o) then Some (cs_commit g c) else None.
Proof. unfold ClosedSets.get_commit, store_of. simpl. apply assoc_store. Qed.

Lemma get_commit_store_some g o c cm :
  ClosedSets.get_commit (store_of g o) c = Some cm -> In c (o_commits o) /\ cm = cs_commit g c.
Proof.
  rewrite get_commit_store. destruct (cmem c (o_commits o)) eqn:E; [|discriminate].
  intros H. inversion H. split; [apply cmem_In; exact E|reflexivity].
Qed.

Lemma get_commit_store_in g o c :
  In c (o_commits o) -> ClosedSets.get_commit (store_of g o) c = Some (cs_commit g c).
Proof. intros H. rewrite get_commit_store. apply cmem_In in H. rewrite H. reflexivity. Qed.

Lemma get_commit_store_stored g o c :
  ClosedSets.get_commit (store_of g o) c <> None -> In c (o_commits o).
Proof.
  rewrite get_commit_store. destruct (cmem c (o_commits o)) eqn:E; [|congruence].
  intros _. apply cmem_In. exact E.
Qed.

Lemma parent_of_store g o c p :
  ClosedSetsSpec.parent_of (store_of g o) c p <-> In c (o_commits o) /\ In p (cpar g c).
Proof.
  unfold ClosedSetsSpec.parent_of, ClosedSets.parents_of. rewrite get_commit_store.
  destruct (cmem c (o_commits o)) eqn:E; simpl.
  - apply cmem_In in E. tauto.
  - split; [intros []|]. intros [H _]. apply cmem_In in H. congruence.
Qed.

Lemma table_exist_store g o t : ClosedSets.table_exist (store_of g o) t = cmem t (o_tables o).
Proof. reflexivity. Qed.

Lemma store_acyclic g o : GAcyclic g -> ClosedSetsSpec.acyclic (store_of g o).
Proof.
  intros [rank H]. exists rank. intros c p Hp. apply parent_of_store in Hp. apply H. tauto.
Qed.

(** Session's Closed store = ClosedSets' closed store *)
Lemma store_closed g o : Closed g (o_commits o) -> ClosedSetsSpec.closed (store_of g o).
Proof.
  intros HC c p Hp. apply parent_of_store in Hp. destruct Hp as [Hc Hp].
  rewrite get_commit_store_in; [discriminate|]. eapply HC; eassumption.
Qed.

(* ------------------------------------------------------------------ *)
(** * parent paths                                                      *)
(* ------------------------------------------------------------------ *)

(** a parent path of the session graph, read from its start *)
Inductive spath (g : cgraph) : commit -> nat -> commit -> Prop :=
| sp_0 : forall c, spath g c O c
| sp_S : forall c p k x, In p (cpar g c) -> spath g p k x -> spath g c (S k) x.

Lemma spath_anc g s k x : spath g s k x -> anc (to_graph g) x s.
Proof.
  intros H. induction H as [c|c p k x Hp _ IH]; [apply anc_refl|].
  eapply anc_step; [|exact IH]. rewrite parents_to_graph. exact Hp.
Qed.

Lemma anc_spath g x s : anc (to_graph g) x s -> exists k, spath g s k x.
Proof.
  intros H. induction H as [a|a p b Hp _ [k IH]].
  - exists O. apply sp_0.
  - exists (S k). eapply sp_S; [|exact IH]. rewrite parents_to_graph in Hp. exact Hp.
Qed.

Lemma spath_closed g cs s k x : Closed g cs -> spath g s k x -> In s cs -> In x cs.
Proof.
  intros HC H. induction H as [c|c p k x Hp _ IH]; intros Hs; [exact Hs|].
  apply IH. eapply HC; eassumption.
Qed.

Lemma within_depth_spath g d : forall level c,
  In c (within_depth g d level) -> exists l k, In l level /\ (k < d)%nat /\ spath g l k c.
Proof.
  induction d as [|d IH]; intros level c H; simpl in H; [destruct H|].
  apply add_all_In in H. destruct H as [H|H].
  - exists c, O. split; [exact H|]. split; [lia|apply sp_0].
  - apply IH in H. destruct H as (l & k & Hl & Hk & Hp).
    apply in_flat_map in Hl. destruct Hl as (l0 & Hl0 & Hl).
    exists l0, (S k). split; [exact Hl0|]. split; [lia|]. eapply sp_S; eassumption.
Qed.

(** the region of a want, as paths with an admissible depth *)
Lemma region_spath g depth w c :
  In c (region g depth w) -> exists k, spath g w k c /\ ClosedSets.depth_ok depth k = true.
Proof.
  unfold region. destruct depth as [|d]; intros H.
  - unfold anc_set, anc_closure in H. apply close_fuel_sound in H.
    destruct H as (y & [<-|[]] & Ha). apply anc_spath in Ha. destruct Ha as [k Hk].
    exists k. split; [exact Hk|reflexivity].
  - apply within_depth_spath in H. destruct H as (l & k & [<-|[]] & Hk & Hp).
    exists k. split; [exact Hp|]. unfold ClosedSets.depth_ok. simpl.
    destruct k as [|k]; [reflexivity|]. apply Nat.leb_le. lia.
Qed.

(** prepending an edge to a visit of the finder's walk *)
Lemma visf_cons st stop c p d k x :
  stop c = false -> ClosedSets.get_commit st c <> None -> ClosedSetsSpec.parent_of st c p ->
  ClosedSetsSpec.visf st stop p (S d) k x -> ClosedSetsSpec.visf st stop c d k x.
Proof.
  intros Hs Hg Hp H. induction H as [Hsp Hgp|k y q Hv IH Hq Hsq Hgq].
  - eapply ClosedSetsSpec.visf_S; [apply ClosedSetsSpec.visf_0; assumption|exact Hp|exact Hsp|exact Hgp].
  - eapply ClosedSetsSpec.visf_S; eassumption.
Qed.

(** a session-graph path from a commit the sender stores, none of whose nodes is stopped, is a visit *)
Lemma spath_visf g so stop s k x :
  Closed g (o_commits so) ->
  spath g s k x -> In s (o_commits so) ->
  (forall y j, spath g y j x -> stop y = false) ->
  forall d, ClosedSetsSpec.visf (store_of g so) stop s d (d + k) x.
Proof.
  intros HC H. induction H as [c|c p k x Hp Hsp IH]; intros Hs Hstop d.
  - rewrite Nat.add_0_r. apply ClosedSetsSpec.visf_0.
    + eapply Hstop. apply sp_0.
    + rewrite get_commit_store_in; [discriminate|exact Hs].
  - apply visf_cons with (p := p).
    + eapply Hstop. eapply sp_S; eassumption.
    + rewrite get_commit_store_in; [discriminate|exact Hs].
    + apply parent_of_store. split; assumption.
    + replace (d + S k)%nat with (S d + k)%nat by lia. apply IH; [|exact Hstop].
      eapply HC; eassumption.
Qed.

(* ------------------------------------------------------------------ *)
(** * one want, ANY number of negotiation rounds                        *)
(* ------------------------------------------------------------------ *)
(** C08_depth_one_want is stated for a single Process call.  A session negotiates in several requests
    (the want travels with the first; the finder defers the walk while the client has not said done and a
    root is still reachable), so the same exactness is re-derived here for every such list of rounds from
    C08's per-walk characterisation (ClosedSets_proofs.walk_want_facts): the want is walked exactly once,
    against the commons known at that moment - a subset of the final ones. *)
Section OneWantRounds.
  Variable qsort : list ClosedSets.qitem -> list ClosedSets.qitem.
  Variable ord : nat -> list ClosedSets.cid -> list ClosedSets.cid.
  Hypothesis Hord : ClosedSetsSpec.order_fun ord.
  Variable st : ClosedSets.store.
  Variable refs : list ClosedSets.cid.
  Variable w : ClosedSets.cid.

  (** the finder of a single-want session: nothing accepted yet / the want is pending / it was walked *)
  Definition SW (f : ClosedSets.finder) : Prop :=
    (ClosedSets.f_wants f = [] /\ ClosedSets.f_clists f = [] /\ ClosedSets.f_tlists f = []) \/
    (ClosedSets.f_wants f = [w] /\ ClosedSets.f_clists f = [] /\ ClosedSets.f_tlists f = []) \/
    (ClosedSets.f_wants f = [] /\
     exists K dfr sums cl tl,
       (forall x, In x K -> In x (ClosedSets.f_commons f)) /\
       ClosedSets.walk_want st (ClosedSets.f_depth f) [] K dfr w = ClosedSets.WDone sums cl tl /\
       ClosedSets.f_clists f = [cl] /\ ClosedSets.f_tlists f = [tl]).

  Lemma ord_nil i : ord i [] = [].
  Proof. apply Permutation_nil. apply Permutation_sym. apply Hord. Qed.

  Lemma enqueue_SW f defer f' :
    SW f -> ClosedSets.enqueue ord st f defer = ClosedSets.Ok f' ->
    SW f' /\ ClosedSets.f_commons f' = ClosedSets.f_commons f /\
    ClosedSets.f_depth f' = ClosedSets.f_depth f /\
    (defer = false -> ClosedSets.f_wants f' = []).
  Proof.
    intros HS H. unfold ClosedSets.enqueue in H.
    destruct HS as [(Hw & Hc & Ht)|[(Hw & Hc & Ht)|(Hw & K & dfr & sums & cl & tl & HK & HW & Hc & Ht)]].
    - rewrite Hw, ord_nil in H. simpl in H. inversion H; subst f'; clear H. simpl.
      split; [left; auto|]. auto.
    - rewrite Hw, (ClosedSetsSingle_proofs.ord_single ord Hord) in H. simpl in H.
      destruct (ClosedSets.walk_want st (ClosedSets.f_depth f) [] (ClosedSets.f_commons f) defer w)
        as [sums cl tl| | |] eqn:EW; try discriminate.
      + inversion H; subst f'; clear H. simpl. rewrite Hc, Ht. simpl.
        split; [|auto]. right. right. split; [reflexivity|].
        exists (ClosedSets.f_commons f), defer, sums, cl, tl. auto.
      + inversion H; subst f'; clear H. simpl.
        split; [right; left; auto|]. split; [reflexivity|]. split; [reflexivity|].
        intros ->. exfalso. unfold ClosedSets.walk_want in EW.
        eapply ClosedSets_proofs.walk_no_defer. exact EW.
    - rewrite Hw, ord_nil in H. simpl in H. inversion H; subst f'; clear H. simpl.
      split; [|auto]. right. right. split; [reflexivity|]. exists K, dfr, sums, cl, tl. auto.
  Qed.

  (** a Process call that brings no new want *)
  Lemma process_SW f haves done f' acks :
    SW f -> ClosedSets.process qsort ord st refs f [] haves done = ClosedSets.POk f' acks ->
    SW f' /\ ClosedSets.f_depth f' = ClosedSets.f_depth f.
  Proof.
    intros HS H. apply (ClosedSetsSession_proofs.process_ok_inv qsort ord st refs) in H.
    apply enqueue_SW in H.
    - destruct H as (H1 & _ & H3 & _). split; [exact H1|exact H3].
    - unfold ClosedSetsSession_proofs.pre_enqueue. unfold SW. simpl.
      destruct HS as [HS|[HS|(Hw & K & dfr & sums & cl & tl & HK & HW & Hc & Ht)]]; [left; exact HS|right; left; exact HS|].
      right. right. split; [exact Hw|]. exists K, dfr, sums, cl, tl. split; [|auto].
      intros x Hx. apply ClosedSets_proofs.add_all_In. right. apply HK. exact Hx.
  Qed.

  (** the first Process call, carrying the want *)
  Lemma process_first_SW depth haves done f' acks :
    ClosedSets.process qsort ord st refs (ClosedSets.new_finder depth) [w] haves done = ClosedSets.POk f' acks ->
    SW f' /\ ClosedSets.f_depth f' = depth.
  Proof.
    intros H. apply (ClosedSetsSession_proofs.process_ok_inv qsort ord st refs) in H.
    apply enqueue_SW in H.
    - destruct H as (H1 & _ & H3 & _). split; [exact H1|exact H3].
    - right. left. unfold ClosedSetsSession_proofs.pre_enqueue. simpl. auto.
  Qed.

  Lemma run_rounds_SW rest : forall f os f',
    Forall (fun r => ClosedSets.r_wants r = []) rest -> SW f ->
    ClosedSets.run_rounds qsort ord st refs f rest = (os, Some f') ->
    SW f' /\ ClosedSets.f_depth f' = ClosedSets.f_depth f.
  Proof.
    induction rest as [|r rest IH]; intros f os f' HF HS H; simpl in H.
    - inversion H; subst. auto.
    - inversion HF as [|? ? Hr HF']; subst. rewrite Hr in H.
      destruct (ClosedSets.process qsort ord st refs f [] (ClosedSets.r_haves r) (ClosedSets.r_done r))
        as [f1 acks|sums| |] eqn:EP.
      + destruct (ClosedSets.run_rounds qsort ord st refs f1 rest) as [os1 fo1] eqn:ER.
        inversion H; subst. apply process_SW in EP; [|exact HS]. destruct EP as [S1 D1].
        destruct (IH _ _ _ HF' S1 ER) as [S2 D2]. split; [exact S2|congruence].
      + destruct (ClosedSets.run_rounds qsort ord st refs f rest) as [os1 fo1] eqn:ER.
        inversion H; subst. eapply IH; eassumption.
      + inversion H.
      + inversion H.
  Qed.

  (** the finder after the rounds of a single-want session *)
  Lemma want_rounds_SW depth h d rest os f :
    Forall (fun r => ClosedSets.r_wants r = []) rest ->
    ClosedSets.run_rounds qsort ord st refs (ClosedSets.new_finder depth)
                          (ClosedSets.mkRound [w] h d :: rest) = (os, Some f) ->
    SW f /\ ClosedSets.f_depth f = depth.
  Proof.
    intros HF H. simpl in H.
    destruct (ClosedSets.process qsort ord st refs (ClosedSets.new_finder depth) [w] h d)
      as [f1 acks|sums| |] eqn:EP.
    - destruct (ClosedSets.run_rounds qsort ord st refs f1 rest) as [os1 fo1] eqn:ER.
      inversion H; subst. apply process_first_SW in EP. destruct EP as [S1 D1].
      destruct (run_rounds_SW _ _ _ _ HF S1 ER) as [S2 D2]. split; [exact S2|congruence].
    - destruct (ClosedSets.run_rounds qsort ord st refs (ClosedSets.new_finder depth) rest) as [os1 fo1] eqn:ER.
      inversion H; subst.
      assert (S0 : SW (ClosedSets.new_finder depth)) by (left; simpl; auto).
      destruct (run_rounds_SW _ _ _ _ HF S0 ER) as [S2 D2]. split; [exact S2|exact D2].
    - inversion H.
    - inversion H.
  Qed.

  (** CommitsToSend / TablesToSend of such a finder: nothing at all, or exactly the visits of ONE walk of
      the want against commons [K] that are among the final ones *)
  Lemma flush_SW f f1 L :
    SW f -> ClosedSets.commits_to_send ord st f = ClosedSets.Ok (f1, L) ->
    ClosedSets.f_commons f1 = ClosedSets.f_commons f /\
    ClosedSets.tables_to_send ord st f1 = ClosedSets.Ok (f1, concat (ClosedSets.f_tlists f1)) /\
    ((L = [] /\ concat (ClosedSets.f_tlists f1) = []) \/
     exists K dfr sums,
       (forall x, In x K -> In x (ClosedSets.f_commons f1)) /\
       ClosedSets.walk_want st (ClosedSets.f_depth f) [] K dfr w =
         ClosedSets.WDone sums L (concat (ClosedSets.f_tlists f1))).
  Proof.
    intros HS H. unfold ClosedSets.commits_to_send in H.
    destruct (ClosedSets.flush_wants ord st f) as [f2| |] eqn:EF; try discriminate.
    inversion H; subst f2 L; clear H.
    assert (HF : SW f1 /\ ClosedSets.f_commons f1 = ClosedSets.f_commons f /\
                 ClosedSets.f_depth f1 = ClosedSets.f_depth f /\ ClosedSets.f_wants f1 = []).
    { unfold ClosedSets.flush_wants in EF. destruct (ClosedSets.f_wants f) as [|x l] eqn:EW.
      - inversion EF; subst f1. auto.
      - apply enqueue_SW in EF; [|exact HS]. destruct EF as (E1 & E2 & E3 & E4). auto. }
    destruct HF as (S1 & C1 & D1 & W1). split; [exact C1|]. split.
    - unfold ClosedSets.tables_to_send, ClosedSets.flush_wants. rewrite W1. reflexivity.
    - destruct S1 as [(_ & Hc & Ht)|[(Hw & _)|(_ & K & dfr & sums & cl & tl & HK & HW & Hc & Ht)]].
      + left. rewrite Hc, Ht. auto.
      + rewrite W1 in Hw. discriminate.
      + right. exists K, dfr, sums. split; [exact HK|].
        rewrite Hc, Ht. simpl. rewrite !app_nil_r. rewrite <- D1. exact HW.
  Qed.
End OneWantRounds.

(* ------------------------------------------------------------------ *)
(** * the ObjectSender                                                  *)
(* ------------------------------------------------------------------ *)

Lemma common_tables_In st : forall commons ct t,
  common_tables st commons = Some ct -> In t ct ->
  exists k cm, In k commons /\ ClosedSets.get_commit st k = Some cm /\ ClosedSets.c_table cm = t.
Proof.
  induction commons as [|k r IH]; intros ct t H Ht; simpl in H.
  - inversion H; subst. destruct Ht.
  - destruct (ClosedSets.get_commit st k) as [cm|] eqn:Eg; [|discriminate].
    destruct (common_tables st r) as [ts|]; [|discriminate]. inversion H; subst.
    destruct Ht as [<-|Ht].
    + exists k, cm. split; [left; reflexivity|auto].
    + destruct (IH _ _ eq_refl Ht) as (k' & cm' & H1 & H2). exists k', cm'. split; [right; exact H1|exact H2].
Qed.

(** the commit objects of the stream are those of the list, in the same order *)
Lemma send_objs_commit st tosend : forall l sent x,
  In (OCommit x) (send_objs st tosend sent l) <-> In x l.
Proof.
  induction l as [|c r IH]; intros sent x; simpl; [tauto|].
  destruct (ClosedSets.get_commit st c) as [cm|].
  - destruct (ClosedSets.mem (ClosedSets.c_table cm) tosend && negb (ClosedSets.mem (ClosedSets.c_table cm) sent)).
    + rewrite in_app_iff. simpl. rewrite IH.
      destruct (ClosedSets.table_exist st (ClosedSets.c_table cm)); simpl; split.
      * intros [[H|[]]|[H|H]]; [discriminate|inversion H; auto|auto].
      * intros [->|H]; auto.
      * intros [[]|[H|H]]; [inversion H; auto|auto].
      * intros [->|H]; auto.
    + simpl. rewrite IH. split; [intros [H|H]; [inversion H; auto|auto]|intros [->|H]; auto].
  - simpl. rewrite IH. split; [intros [H|H]; [inversion H; auto|auto]|intros [->|H]; auto].
Qed.

(** enqueueNextCommit: when a commit object is written, its table - if selected and stored - was a common
    table from the start or has been written BEFORE it *)
Lemma send_objs_table_before st tosend : forall l sent S1 x S2 cm,
  send_objs st tosend sent l = S1 ++ OCommit x :: S2 ->
  ClosedSets.get_commit st x = Some cm ->
  ClosedSets.mem (ClosedSets.c_table cm) tosend = true ->
  ClosedSets.table_exist st (ClosedSets.c_table cm) = true ->
  In (ClosedSets.c_table cm) sent \/ In (OTable (ClosedSets.c_table cm)) S1.
Proof.
  induction l as [|c r IH]; intros sent S1 x S2 cm H Hg Hm He; simpl in H.
  - destruct S1; discriminate.
  - assert (Tail : forall sent' S1',
              send_objs st tosend sent' r = S1' ++ OCommit x :: S2 ->
              In (ClosedSets.c_table cm) sent' \/ In (OTable (ClosedSets.c_table cm)) S1').
    { intros sent' S1' H'. eapply IH; eassumption. }
    destruct (ClosedSets.get_commit st c) as [cm0|] eqn:Eg0.
    + destruct (ClosedSets.mem (ClosedSets.c_table cm0) tosend && negb (ClosedSets.mem (ClosedSets.c_table cm0) sent)) eqn:Ec.
      * apply andb_true_iff in Ec. destruct Ec as [Ec1 Ec2].
        destruct (ClosedSets.table_exist st (ClosedSets.c_table cm0)) eqn:Ee0; simpl in H.
        -- destruct S1 as [|a S1]; [discriminate|]. simpl in H. injection H as Ea H. subst a.
           destruct S1 as [|a S1]; simpl in H; injection H as Ea H.
           ++ subst c. rewrite Eg0 in Hg. injection Hg as Hg. subst cm0.
              right. left. reflexivity.
           ++ destruct (Tail _ _ H) as [[Ht|Ht]|Ht].
              ** right. left. rewrite Ht. reflexivity.
              ** left. exact Ht.
              ** right. right. right. exact Ht.
        -- destruct S1 as [|a S1]; simpl in H; injection H as Ea H.
           ++ subst c. rewrite Eg0 in Hg. injection Hg as Hg. subst cm0. congruence.
           ++ destruct (Tail _ _ H) as [[Ht|Ht]|Ht].
              ** rewrite <- Ht in He. congruence.
              ** left. exact Ht.
              ** right. right. exact Ht.
      * destruct S1 as [|a S1]; simpl in H; injection H as Ea H.
        -- subst c. rewrite Eg0 in Hg. injection Hg as Hg. subst cm0.
           rewrite Hm in Ec. simpl in Ec.
           apply negb_false_iff in Ec. left. apply ClosedSets_proofs.mem_In. exact Ec.
        -- destruct (Tail _ _ H) as [Ht|Ht]; [left; exact Ht|right; right; exact Ht].
    + destruct S1 as [|a S1]; simpl in H; injection H as Ea H.
      * subst c. congruence.
      * destruct (Tail _ _ H) as [Ht|Ht]; [left; exact Ht|right; right; exact Ht].
Qed.

(* ------------------------------------------------------------------ *)
(** * the receiver, a little more                                       *)
(* ------------------------------------------------------------------ *)

(** what a packfile changes: a stored commit was stored before or came as an object; an expected commit
    stays expected or came as an object *)
Lemma receive_from g pack : forall o e o' e',
  receive g o e pack = Some (o', e') ->
  (forall x, In x (o_commits o') -> In x (o_commits o) \/ In (OCommit x) pack) /\
  (forall x, In x e -> In x e' \/ In (OCommit x) pack).
Proof.
  induction pack as [|ob pack IH]; intros o e o' e' H; simpl in H.
  - inversion H; subst. split; auto.
  - destruct ob as [t|c].
    + apply IH in H. simpl in H. destruct H as [H1 H2]. split.
      * intros x Hx. destruct (H1 x Hx); [left|right; right]; assumption.
      * intros x Hx. destruct (H2 x Hx); [left|right; right]; assumption.
    + destruct (forallb _ _); [|discriminate]. apply IH in H. simpl in H. destruct H as [H1 H2]. split.
      * intros x Hx. destruct (H1 x Hx) as [Hi|Hi]; [|right; right; exact Hi].
        apply add1_In in Hi. destruct Hi as [->|Hi]; [right; left; reflexivity|left; exact Hi].
      * intros x Hx. destruct (x =? c) eqn:E.
        -- apply N.eqb_eq in E. subst. right. left. reflexivity.
        -- destruct (H2 x) as [Hi|Hi]; [|left; exact Hi|right; right; exact Hi].
           apply filter_In. split; [exact Hx|]. rewrite E. reflexivity.
Qed.

Lemma receive_packs_from g packs : forall o e o' e' n,
  receive_packs g o e packs = Some (o', e', n) ->
  (forall x, In x (o_commits o') -> In x (o_commits o) \/ In (OCommit x) (concat (firstn n packs))) /\
  (forall x, In x e -> In x e' \/ In (OCommit x) (concat (firstn n packs))).
Proof.
  induction packs as [|p packs IH]; intros o e o' e' n H; simpl in H.
  - inversion H; subst. split; auto.
  - destruct (receive g o e p) as [[o1 e1]|] eqn:E1; [|discriminate].
    apply receive_from in E1. destruct E1 as [A1 A2].
    destruct e1 as [|x1 e1].
    + inversion H; subst. simpl. rewrite app_nil_r. split; assumption.
    + destruct (receive_packs g o1 (x1 :: e1) packs) as [[[o2 e2] m]|] eqn:E2; [|discriminate].
      inversion H; subst. apply IH in E2. destruct E2 as [B1 B2]. simpl. split.
      * intros x Hx. destruct (B1 x Hx) as [Hi|Hi].
        -- destruct (A1 x Hi) as [Hj|Hj]; [left; exact Hj|right; apply in_or_app; left; exact Hj].
        -- right. apply in_or_app. right. exact Hi.
      * intros x Hx. destruct (A2 x Hx) as [Hi|Hi]; [|right; apply in_or_app; left; exact Hi].
        destruct (B2 x Hi) as [Hj|Hj]; [left; exact Hj|right; apply in_or_app; right; exact Hj].
Qed.

(** the consumed packfiles are a prefix of the stream *)
Lemma consumed_prefix (packs : list (list obj)) n :
  concat packs = concat (firstn n packs) ++ concat (skipn n packs).
Proof. rewrite <- concat_app, firstn_skipn. reflexivity. Qed.

(** ObjectSender.WriteObjects cuts the object list, it neither drops nor reorders anything *)
Lemma chunk_aux_concat p : forall l cur n, concat (chunk_aux p cur n l) = cur ++ l.
Proof.
  induction l as [|x l IH]; intros cur n; simpl.
  - destruct cur; simpl; [reflexivity|rewrite !app_nil_r; reflexivity].
  - destruct n as [|[|n]]; simpl.
    + rewrite IH. simpl. rewrite <- app_assoc. reflexivity.
    + rewrite IH. simpl. rewrite <- app_assoc. reflexivity.
    + rewrite IH. rewrite <- app_assoc. reflexivity.
Qed.

Lemma chunk_concat p l : concat (chunk p l) = l.
Proof. unfold chunk. apply chunk_aux_concat. Qed.

(* ------------------------------------------------------------------ *)
(** * acknowledged commons are haves                                    *)
(* ------------------------------------------------------------------ *)

Lemma all_acks_round qsort ord st refs : forall rs f os fo k,
  ClosedSets.run_rounds qsort ord st refs f rs = (os, fo) ->
  In k (ClosedSetsSpec.all_acks os) ->
  exists r acks, In (r, ClosedSets.ROk acks) (combine rs os) /\ In k acks.
Proof.
  induction rs as [|r rest IH]; intros f os fo k H Hk; simpl in H.
  - inversion H; subst. destruct Hk.
  - destruct (ClosedSets.process qsort ord st refs f (ClosedSets.r_wants r) (ClosedSets.r_haves r) (ClosedSets.r_done r))
      as [f1 acks|sums| |].
    + destruct (ClosedSets.run_rounds qsort ord st refs f1 rest) as [os1 fo1] eqn:ER.
      inversion H; subst. simpl in Hk. apply in_app_or in Hk. destruct Hk as [Hk|Hk].
      * exists r, acks. split; [left; reflexivity|exact Hk].
      * destruct (IH _ _ _ _ ER Hk) as (r' & a' & H1 & H2). exists r', a'. split; [right; exact H1|exact H2].
    + destruct (ClosedSets.run_rounds qsort ord st refs f rest) as [os1 fo1] eqn:ER.
      inversion H; subst. simpl in Hk.
      destruct (IH _ _ _ _ ER Hk) as (r' & a' & H1 & H2). exists r', a'. split; [right; exact H1|exact H2].
    + inversion H; subst. destruct Hk.
    + inversion H; subst. destruct Hk.
Qed.

(** every common commit the finder ends with was offered as a have in some request
    (C08_sound, second half, on the finder state) *)
Lemma commons_are_haves qsort ord st refs depth rs os f :
  ClosedSetsSpec.sort_fun qsort -> ClosedSetsSpec.order_fun ord -> ClosedSetsSpec.acyclic st ->
  ClosedSets.run_rounds qsort ord st refs (ClosedSets.new_finder depth) rs = (os, Some f) ->
  forall k, In k (ClosedSets.f_commons f) -> exists r, In r rs /\ In k (ClosedSets.r_haves r).
Proof.
  intros Hs Ho Ha H k Hk.
  assert (HG0 : forall x : ClosedSets.cid, In x [] -> ClosedSetsQueue_proofs.good_want st refs x) by (intros ? []).
  destruct (ClosedSetsSession_proofs.run_rounds_spec qsort ord Hs Ho st refs Ha rs [] (ClosedSets.new_finder depth)
              os (Some f) (ClosedSets_proofs.finv_new st depth) HG0 H) as (R1 & _ & R3).
  destruct (R3 f eq_refl) as (A' & _ & _ & _ & B4 & _).
  apply B4 in Hk. simpl in Hk. destruct Hk as [Hk|[]].
  destruct (all_acks_round _ _ _ _ _ _ _ _ _ H Hk) as (r & acks & Hin & Hka).
  pose proof (R1 _ _ Hin) as HR. simpl in HR. destruct HR as [HR _].
  exists r. split; [eapply in_combine_l; exact Hin|]. apply HR. exact Hka.
Qed.

(* ------------------------------------------------------------------ *)
(** * SrvDepth for the finder + sender, one want                         *)
(* ------------------------------------------------------------------ *)

(** the server run seen as a C08 session *)
Lemma cs_serve_session qsort ord g remote depth rs acked stream :
  ClosedSetsSpec.sort_fun qsort -> ClosedSetsSpec.order_fun ord -> GAcyclic g ->
  cs_serve qsort ord g remote depth rs acked = Some stream ->
  exists os f L ct,
    ClosedSets.session qsort ord (store_of g (r_objs remote)) (ref_values (r_refs remote)) depth rs
      = (os, Some (ClosedSets.Ok (f, L))) /\
    forallb round_accepted os = true /\
    common_tables (store_of g (r_objs remote)) (ClosedSets.f_commons f) = Some ct /\
    stream = send_objs (store_of g (r_objs remote))
               (filter (fun t => negb (cmem t acked)) (concat (ClosedSets.f_tlists f))) ct L.
Proof.
  intros Hs Ho Ha H. unfold cs_serve in H.
  set (st := store_of g (r_objs remote)) in *. set (refs := ref_values (r_refs remote)) in *.
  destruct (ClosedSets.run_rounds qsort ord st refs (ClosedSets.new_finder depth) rs) as [os [f|]] eqn:ER;
    [|discriminate].
  destruct (forallb round_accepted os) eqn:EOK; [|discriminate].
  unfold cs_send in H.
  destruct (ClosedSets.commits_to_send ord st f) as [[f1 L]| |] eqn:EC; try discriminate.
  assert (ES : ClosedSets.session qsort ord st refs depth rs = (os, Some (ClosedSets.Ok (f1, L)))).
  { unfold ClosedSets.session. rewrite ER, EC. reflexivity. }
  destruct (ClosedSetsMain_proofs.tables_final qsort ord st refs depth rs os f1 L Hs Ho
              (store_acyclic g _ Ha) ES) as [TT _].
  rewrite TT in H.
  destruct (common_tables st (ClosedSets.f_commons f1)) as [ct|] eqn:ECT; [|discriminate].
  injection H as H. exists os, f1, L, ct. auto.
Qed.

Section Depth.
  Variable qsort : list ClosedSets.qitem -> list ClosedSets.qitem.
  Variable ord : nat -> list ClosedSets.cid -> list ClosedSets.cid.
  Hypothesis Hsort : ClosedSetsSpec.sort_fun qsort.
  Hypothesis Hord : ClosedSetsSpec.order_fun ord.
  Variable g : cgraph.
  Hypothesis Hacyc : GAcyclic g.
  Variable remote : repo.
  Hypothesis HCr : Closed g (o_commits (r_objs remote)).
  Variable before : objs.
  Hypothesis HCb : Closed g (o_commits before).
  Variable depth : nat.
  Variable w : commit.

  Let st := store_of g (r_objs remote).

  (** the common step: a finder result whose list and table selection are those of ONE walk of the want
      against commons [K0], sent by the ObjectSender with common commits [K] (both stored at the client,
      with their tables) *)
  Lemma sender_table_before K0 K L T ct acked stream :
    (forall x, In x L -> exists k, ClosedSetsSpec.vis st (ClosedSets.stopb [] K0) w k x) ->
    (forall k x cm, ClosedSetsSpec.vis st (ClosedSets.stopb [] K0) w k x ->
                    ClosedSets.get_commit st x = Some cm -> ClosedSets.depth_ok depth k = true ->
                    In (ClosedSets.c_table cm) T) ->
    (forall k, In k K0 \/ In k K -> In k (o_commits before) /\ In (ctbl g k) (o_tables before)) ->
    (forall t, In t acked -> In t (o_tables before)) ->
    SenderFull g (r_objs remote) depth [w] ->
    common_tables st K = Some ct ->
    stream = send_objs st (filter (fun t => negb (cmem t acked)) T) ct L ->
    forall S1 c S2, stream = S1 ++ OCommit c :: S2 ->
      In c (region g depth w) -> ~ In c (o_commits before) ->
      In (ctbl g c) (o_tables before) \/ In (OTable (ctbl g c)) S1.
  Proof.
    intros F1 F2 HK HA HSF ECT H S1 c S2 ES Hc Hn.
    assert (HcL : In c L).
    { apply (send_objs_commit st (filter (fun t => negb (cmem t acked)) T) L ct c).
      rewrite <- H, ES. apply in_or_app. right. left. reflexivity. }
    (* the want is stored at the sender *)
    assert (Hw : In w (o_commits (r_objs remote))).
    { apply F1 in HcL. destruct HcL as [k0 Hv]. apply ClosedSets_proofs.visf_start in Hv.
      apply (get_commit_store_stored g). exact (proj2 Hv). }
    (* the region path is a visit of the walk: none of its commits is stored at the client *)
    destruct (region_spath g depth w c Hc) as (k & Hp & Hdk).
    assert (Hv : ClosedSetsSpec.vis st (ClosedSets.stopb [] K0) w k c).
    { unfold ClosedSetsSpec.vis. change k with (0 + k)%nat.
      apply (spath_visf g (r_objs remote) (ClosedSets.stopb [] K0) w k c HCr Hp Hw).
      intros y j Hy. apply ClosedSetsSingle_proofs.stopb_nil_false. intros Hin.
      apply Hn. eapply spath_closed; [exact HCb|exact Hy|]. apply HK. left. exact Hin. }
    assert (Hcs : In c (o_commits (r_objs remote))).
    { apply ClosedSets_proofs.visf_end in Hv. apply (get_commit_store_stored g). exact (proj2 Hv). }
    assert (Hgc : ClosedSets.get_commit st c = Some (cs_commit g c)) by (apply get_commit_store_in; exact Hcs).
    assert (HT : In (ctbl g c) T).
    { apply (F2 k c (cs_commit g c)); auto. }
    destruct (cmem (ctbl g c) acked) eqn:Eak.
    { left. apply HA. apply cmem_In. exact Eak. }
    assert (Hsel : ClosedSets.mem (ClosedSets.c_table (cs_commit g c))
                     (filter (fun t => negb (cmem t acked)) T) = true).
    { apply ClosedSets_proofs.mem_In. apply filter_In. split; [exact HT|]. simpl. rewrite Eak. reflexivity. }
    assert (Hex : ClosedSets.table_exist st (ClosedSets.c_table (cs_commit g c)) = true).
    { unfold st. rewrite table_exist_store. apply cmem_In. apply HSF. exact Hc. }
    rewrite ES in H. symmetry in H.
    destruct (send_objs_table_before st _ L ct S1 c S2 (cs_commit g c) H Hgc Hsel Hex) as [Hct|Hs].
    - left. destruct (common_tables_In st _ ct _ ECT Hct) as (k0 & cm0 & Hk0 & Hg0 & Ht0).
      apply get_commit_store_some in Hg0. destruct Hg0 as [_ ->]. simpl in Ht0.
      simpl in Hct. rewrite <- Ht0. apply HK. right. exact Hk0.
    - right. exact Hs.
  Qed.

  (** ONE negotiation request: directly from C08_depth_one_want (exact list and table selection),
      C08_sound (acks are haves) and C08_depth_sound (TablesToSend = the concatenated table lists) *)
  Lemma serve_table_before_one_round h d acked stream :
    HavesStored g before [ClosedSets.mkRound [w] h d] ->
    (forall t, In t acked -> In t (o_tables before)) ->
    SenderFull g (r_objs remote) depth [w] ->
    cs_serve qsort ord g remote depth [ClosedSets.mkRound [w] h d] acked = Some stream ->
    forall S1 c S2, stream = S1 ++ OCommit c :: S2 ->
      In c (region g depth w) -> ~ In c (o_commits before) ->
      In (ctbl g c) (o_tables before) \/ In (OTable (ctbl g c)) S1.
  Proof.
    intros HH HA HSF H S1 c S2 ES Hc Hn.
    assert (Hast : ClosedSetsSpec.acyclic st) by (apply store_acyclic; exact Hacyc).
    destruct (cs_serve_session qsort ord g remote depth _ acked stream Hsort Hord Hacyc H)
      as (os & f & L & ct & HSes & _ & ECT & EStr).
    fold st in HSes, ECT, EStr.
    (* the round was accepted, or nothing is sent *)
    assert (Hos : (exists acks, os = [ClosedSets.ROk acks]) \/ L = []).
    { pose proof HSes as HS'. unfold ClosedSets.session in HS'. simpl in HS'.
      destruct (ClosedSets.process qsort ord st (ref_values (r_refs remote)) (ClosedSets.new_finder depth) [w] h d)
        as [f1 acks|sums| |]; try (inversion HS'; fail).
      - left. exists acks. inversion HS'. reflexivity.
      - right. injection HS' as _ HS'. unfold ClosedSets.commits_to_send, ClosedSets.flush_wants in HS'.
        simpl in HS'. inversion HS'. subst. reflexivity. }
    destruct Hos as [[acks Eos]|EL]; [subst os|subst L].
    2:{ exfalso. simpl in EStr. rewrite EStr in ES. destruct S1; discriminate. }
    destruct (ClosedSetsMain_proofs.one_want_final qsort ord st _ depth w h d acks f L Hsort Hord Hast HSes)
      as (O1 & O2 & _).
    destruct (ClosedSetsMain_proofs.sound_final qsort ord st _ depth _ _ f L Hsort Hord Hast HSes) as [_ So2].
    assert (Hacks : forall k, In k acks -> In k (o_commits before) /\ In (ctbl g k) (o_tables before)).
    { intros k Hk. destruct (So2 (ClosedSets.mkRound [w] h d) acks (or_introl eq_refl) k Hk) as [Hh _].
      apply (HH _ (or_introl eq_refl) k Hh). }
    assert (Hcom : forall k, In k (ClosedSets.f_commons f) -> In k acks).
    { intros k Hk.
      destruct (ClosedSetsSingle_proofs.single_round_inv qsort ord Hsort Hord st _ Hast _ _ _ _ _ HSes) as [HKK _].
      apply HKK. exact Hk. }
    eapply (sender_table_before acks (ClosedSets.f_commons f) L (concat (ClosedSets.f_tlists f)) ct acked stream);
      try eassumption.
    - intros x Hx. apply O1. exact Hx.
    - intros k x cm Hv Hg Hd. apply O2. exists k, x, cm. auto.
    - intros k [Hk|Hk]; [apply Hacks; exact Hk|apply Hacks; apply Hcom; exact Hk].
  Qed.

  (** ANY number of negotiation requests (the want travels with the first one) *)
  Lemma serve_table_before h d rest acked stream :
    Forall (fun r => ClosedSets.r_wants r = []) rest ->
    HavesStored g before (ClosedSets.mkRound [w] h d :: rest) ->
    (forall t, In t acked -> In t (o_tables before)) ->
    SenderFull g (r_objs remote) depth [w] ->
    cs_serve qsort ord g remote depth (ClosedSets.mkRound [w] h d :: rest) acked = Some stream ->
    forall S1 c S2, stream = S1 ++ OCommit c :: S2 ->
      In c (region g depth w) -> ~ In c (o_commits before) ->
      In (ctbl g c) (o_tables before) \/ In (OTable (ctbl g c)) S1.
  Proof.
    intros HF HH HA HSF H S1 c S2 ES Hc Hn.
    unfold cs_serve in H. fold st in H.
    set (refs := ref_values (r_refs remote)) in *.
    assert (Hast : ClosedSetsSpec.acyclic st) by (apply store_acyclic; exact Hacyc).
    destruct (ClosedSets.run_rounds qsort ord st refs (ClosedSets.new_finder depth)
                (ClosedSets.mkRound [w] h d :: rest)) as [os [f|]] eqn:ER; [|discriminate].
    destruct (forallb round_accepted os); [|discriminate].
    unfold cs_send in H.
    destruct (ClosedSets.commits_to_send ord st f) as [[f1 L]| |] eqn:EC; try discriminate.
    destruct (ClosedSets.tables_to_send ord st f1) as [[f2 T]| |] eqn:ET; try discriminate.
    destruct (common_tables st (ClosedSets.f_commons f2)) as [ct|] eqn:ECT; [|discriminate].
    injection H as H.
    destruct (want_rounds_SW qsort ord Hord st refs w depth h d rest os f HF ER) as [HSW HD].
    destruct (flush_SW ord Hord st w f f1 L HSW EC) as (C1 & TT & Cases).
    rewrite TT in ET. injection ET as E2 ET. subst f2 T.
    assert (HK : forall k, In k (ClosedSets.f_commons f1) ->
                           In k (o_commits before) /\ In (ctbl g k) (o_tables before)).
    { intros k Hk. rewrite C1 in Hk.
      destruct (commons_are_haves qsort ord st refs depth _ os f Hsort Hord Hast ER k Hk) as (r & Hr & Hh).
      eapply HH; eassumption. }
    destruct Cases as [[EL _]|(K & dfr & sums & HKs & HW)].
    { exfalso. subst L. simpl in H. rewrite <- H in ES. destruct S1; discriminate. }
    rewrite HD in HW.
    destruct (ClosedSets_proofs.walk_want_facts st depth [] K dfr w sums L _ HW) as (F1 & F2 & _).
    eapply (sender_table_before K (ClosedSets.f_commons f1) L (concat (ClosedSets.f_tlists f1)) ct acked stream);
      try eassumption.
    - intros x Hx. apply F1. exact Hx.
    - intros k x cm Hv Hg Hd. apply F2. exists k, x, cm. auto.
    - intros k [Hk|Hk]; [apply HK; apply HKs; exact Hk|apply HK; exact Hk].
    - symmetry. exact H.
  Qed.

  (** the premise SrvDepth of C09's depth clause, for every cut of the stream into packfiles and every
      successful receive loop *)
  Theorem srv_depth_rounds h d rest acked stream packs o' n :
    Forall (fun r => ClosedSets.r_wants r = []) rest ->
    HavesStored g before (ClosedSets.mkRound [w] h d :: rest) ->
    (forall t, In t acked -> In t (o_tables before)) ->
    SenderFull g (r_objs remote) depth [w] ->
    cs_serve qsort ord g remote depth (ClosedSets.mkRound [w] h d :: rest) acked = Some stream ->
    concat packs = stream ->
    receive_packs g before [w] packs = Some (o', [], n) ->
    SrvDepth g before [w] depth packs n.
  Proof.
    intros HF HH HA HSF H EP ER w' [<-|[]] c Hc Hn.
    (* the gate: every ancestor of the want is stored afterwards, so c came in a consumed packfile *)
    pose proof (receive_packs_closed g packs before [w] o' n HCb ER) as [_ HW].
    destruct (HW w (or_introl eq_refl)) as [_ HAnc].
    destruct (region_spath g depth w c Hc) as (k & Hp & _).
    pose proof (HAnc c (spath_anc g w k c Hp)) as Hco.
    destruct (receive_packs_from g packs _ _ _ _ _ ER) as [Hfrom _].
    destruct (Hfrom c Hco) as [Hb|Hin]; [contradiction|].
    apply in_split in Hin. destruct Hin as (P1 & P2 & EPre).
    assert (ES : stream = P1 ++ OCommit c :: (P2 ++ concat (skipn n packs))).
    { rewrite <- EP, (consumed_prefix packs n), EPre, <- app_assoc. reflexivity. }
    destruct (serve_table_before h d rest acked stream HF HH HA HSF H _ _ _ ES Hc Hn) as [Ht|Ht].
    - left. exact Ht.
    - right. rewrite EPre. apply in_or_app. left. exact Ht.
  Qed.

  (** the same for one request, resting on C08_depth_one_want *)
  Theorem srv_depth_one_round h d acked stream packs o' n :
    HavesStored g before [ClosedSets.mkRound [w] h d] ->
    (forall t, In t acked -> In t (o_tables before)) ->
    SenderFull g (r_objs remote) depth [w] ->
    cs_serve qsort ord g remote depth [ClosedSets.mkRound [w] h d] acked = Some stream ->
    concat packs = stream ->
    receive_packs g before [w] packs = Some (o', [], n) ->
    SrvDepth g before [w] depth packs n.
  Proof.
    intros HH HA HSF H EP ER w' [<-|[]] c Hc Hn.
    pose proof (receive_packs_closed g packs before [w] o' n HCb ER) as [_ HW].
    destruct (HW w (or_introl eq_refl)) as [_ HAnc].
    destruct (region_spath g depth w c Hc) as (k & Hp & _).
    pose proof (HAnc c (spath_anc g w k c Hp)) as Hco.
    destruct (receive_packs_from g packs _ _ _ _ _ ER) as [Hfrom _].
    destruct (Hfrom c Hco) as [Hb|Hin]; [contradiction|].
    apply in_split in Hin. destruct Hin as (P1 & P2 & EPre).
    assert (ES : stream = P1 ++ OCommit c :: (P2 ++ concat (skipn n packs))).
    { rewrite <- EP, (consumed_prefix packs n), EPre, <- app_assoc. reflexivity. }
    destruct (serve_table_before_one_round h d acked stream HH HA HSF H _ _ _ ES Hc Hn) as [Ht|Ht].
    - left. exact Ht.
    - right. rewrite EPre. apply in_or_app. left. exact Ht.
  Qed.
End Depth.

(* ------------------------------------------------------------------ *)
(** * the client's haves are stored commits                             *)
(* ------------------------------------------------------------------ *)

Definition QIn (cs : list commit) (s : qstate) : Prop := forall x, In x (fst s) -> In x cs.

Lemma s_q_insert_In g c : forall q y, In y (Session.q_insert g c q) -> y = c \/ In y q.
Proof.
  induction q as [|x q IH]; intros y H; simpl in H.
  - destruct H as [H|[]]; auto.
  - destruct (ctime g x <=? ctime g c).
    + destruct H as [H|H]; auto.
    + destruct H as [H|H]; [right; left; exact H|]. apply IH in H. destruct H; auto. right. right. assumption.
Qed.

Lemma q_fold_in g cs : forall l s,
  QIn cs s -> (forall c, In c l -> In c cs) ->
  QIn cs (fold_left (fun (s : qstate) c => if cmem c (snd s) then s
                                           else (Session.q_insert g c (fst s), snd s ++ [c])) l s).
Proof.
  induction l as [|c l IH]; intros s HQ Hl; simpl; [exact HQ|].
  apply IH; [|intros x Hx; apply Hl; right; exact Hx].
  destruct (cmem c (snd s)); [exact HQ|].
  intros x Hx. simpl in Hx. apply s_q_insert_In in Hx. destruct Hx as [->|Hx]; [apply Hl; left; reflexivity|].
  apply HQ. exact Hx.
Qed.

Lemma s_q_new_in g cs init : (forall c, In c init -> In c cs) -> QIn cs (Session.q_new g init).
Proof. intros H. unfold Session.q_new. apply q_fold_in; [intros x []|exact H]. Qed.

Lemma s_q_insert_parents_in g cs c s :
  Closed g cs -> In c cs -> QIn cs s -> QIn cs (Session.q_insert_parents g c s).
Proof.
  intros HC Hc HQ. unfold Session.q_insert_parents. apply q_fold_in; [exact HQ|].
  intros p Hp. eapply HC; eassumption.
Qed.

Lemma remove_ancestors_in g cs acks s : QIn cs s -> QIn cs (remove_ancestors g acks s).
Proof. intros HQ x Hx. unfold remove_ancestors in Hx. simpl in Hx. apply filter_In in Hx. apply HQ. tauto. Qed.

Lemma pop_haves_stored g cs tables : Closed g cs -> forall fuel k s acc haves done s',
  QIn cs s -> (forall h, In h acc -> In h cs) ->
  pop_haves g tables fuel k s acc = (haves, done, s') ->
  (forall h, In h haves -> In h cs) /\ QIn cs s'.
Proof.
  intros HC. induction fuel as [|f IH]; intros k s acc haves done s' HQ Ha H.
  - destruct k; simpl in H; inversion H; subst; auto.
  - destruct k as [|k']; simpl in H; [inversion H; subst; auto|].
    destruct s as [q seen]. simpl in H. destruct q as [|x q'].
    + inversion H; subst. auto.
    + assert (Hx : In x cs) by (apply HQ; left; reflexivity).
      assert (HQ' : QIn cs (Session.q_insert_parents g x (q', seen))).
      { apply s_q_insert_parents_in; auto. intros y Hy. apply HQ. right. exact Hy. }
      destruct (cmem (ctbl g x) tables).
      * eapply IH; [exact HQ'| |exact H].
        intros h Hh. apply in_app_or in Hh. destruct Hh as [Hh|[<-|[]]]; auto.
      * eapply IH; [exact HQ'|exact Ha|exact H].
Qed.

(* ------------------------------------------------------------------ *)
(** * the negotiation loop is a run of rounds of the single-want shape  *)
(* ------------------------------------------------------------------ *)

Definition first_wants (acc : list ClosedSets.round) (wants : list commit) : list commit :=
  match acc with [] => wants | _ => [] end.

Lemma cs_negotiate_S qsort ord g lo st refs wants k fu s f acc :
  cs_negotiate qsort ord g lo st refs wants k (S fu) s f acc =
  let '(haves, done, s') := pop_haves g (o_tables lo) (S (length g)) k s [] in
  match ClosedSets.process qsort ord st refs f (first_wants acc wants) haves done with
  | ClosedSets.POk f' acks =>
    let acc' := acc ++ [ClosedSets.mkRound (first_wants acc wants) haves done] in
    if negb done && match ClosedSets.f_wants f' with [] => false | _ => true end
    then cs_negotiate qsort ord g lo st refs wants k fu (remove_ancestors g acks s') f' acc'
    else Some (f', acc')
  | _ => None
  end.
Proof. reflexivity. Qed.

Lemma run_rounds_cons_ok qsort ord st refs f r rest f1 acks os fo :
  ClosedSets.process qsort ord st refs f (ClosedSets.r_wants r) (ClosedSets.r_haves r) (ClosedSets.r_done r)
    = ClosedSets.POk f1 acks ->
  ClosedSets.run_rounds qsort ord st refs f1 rest = (os, fo) ->
  ClosedSets.run_rounds qsort ord st refs f (r :: rest) = (ClosedSets.ROk acks :: os, fo).
Proof. intros H1 H2. simpl. rewrite H1, H2. reflexivity. Qed.

Lemma first_wants_snoc acc r wants : first_wants (acc ++ [r]) wants = [].
Proof. destruct acc; reflexivity. Qed.

Lemma cs_negotiate_run qsort ord g lo st refs wants k :
  Closed g (o_commits lo) ->
  forall fuel s f acc f' rs,
  QIn (o_commits lo) s ->
  cs_negotiate qsort ord g lo st refs wants k fuel s f acc = Some (f', rs) ->
  exists h d rest,
    rs = acc ++ ClosedSets.mkRound (first_wants acc wants) h d :: rest /\
    Forall (fun r => ClosedSets.r_wants r = []) rest /\
    (exists os, ClosedSets.run_rounds qsort ord st refs f
                  (ClosedSets.mkRound (first_wants acc wants) h d :: rest) = (os, Some f') /\
                forallb round_accepted os = true) /\
    HavesStored g lo (ClosedSets.mkRound (first_wants acc wants) h d :: rest).
Proof.
  intros HC. induction fuel as [|fu IH]; intros s f acc f' rs HQ H; [discriminate|].
  rewrite cs_negotiate_S in H.
  destruct (pop_haves g (o_tables lo) (S (length g)) k s []) as [[haves done] s'] eqn:EP.
  cbv zeta in H.
  destruct (ClosedSets.process qsort ord st refs f (first_wants acc wants) haves done)
    as [f1 acks|sums| |] eqn:EPr; try discriminate.
  pose proof (pop_haves_stored g (o_commits lo) (o_tables lo) HC _ _ _ _ _ _ _ HQ (fun h (F : In h []) => match F with end) EP)
    as [Hst HQ'].
  pose proof (pop_haves_spec g (o_tables lo) _ _ _ _ _ _ _ EP) as [Htb _].
  assert (HH1 : forall h0, In h0 haves -> In h0 (o_commits lo) /\ In (ctbl g h0) (o_tables lo)).
  { intros h0 Hh0. split; [apply Hst; exact Hh0|]. destruct (Htb h0 Hh0) as [[]|Ht]. apply cmem_In. exact Ht. }
  destruct (negb done && match ClosedSets.f_wants f1 with [] => false | _ => true end).
  - apply IH in H; [|apply remove_ancestors_in; exact HQ'].
    destruct H as (h2 & d2 & rest2 & E & HF & [os [HR HOK]] & HH).
    rewrite first_wants_snoc in E, HR, HH.
    exists haves, done, (ClosedSets.mkRound [] h2 d2 :: rest2). split.
    + rewrite E, <- app_assoc. reflexivity.
    + split; [constructor; [reflexivity|exact HF]|]. split.
      * exists (ClosedSets.ROk acks :: os). split; [eapply run_rounds_cons_ok; [exact EPr|exact HR]|exact HOK].
      * intros r [<-|Hr] h0 Hh0; [apply HH1; exact Hh0|]. eapply HH; eassumption.
  - injection H as <- <-. exists haves, done, []. split; [reflexivity|]. split; [constructor|]. split.
    + exists [ClosedSets.ROk acks]. split; [eapply run_rounds_cons_ok; [exact EPr|reflexivity]|reflexivity].
    + intros r [<-|[]] h0 Hh0. apply HH1. exact Hh0.
Qed.

(* ------------------------------------------------------------------ *)
(** * the depth clause of C09 for single-want fetch sessions            *)
(* ------------------------------------------------------------------ *)

(** C09_tables_partial (arbitrary packfiles) with SrvDepth discharged: any single-want request list, any cut *)
Theorem tables_depth_one_want qsort ord g remote o depth w h d rest acked stream packs o' n :
  ClosedSetsSpec.sort_fun qsort -> ClosedSetsSpec.order_fun ord -> GAcyclic g ->
  Closed g (o_commits (r_objs remote)) -> Closed g (o_commits o) ->
  Forall (fun r => ClosedSets.r_wants r = []) rest ->
  HavesStored g o (ClosedSets.mkRound [w] h d :: rest) ->
  (forall t, In t acked -> In t (o_tables o)) ->
  SenderFull g (r_objs remote) depth [w] ->
  cs_serve qsort ord g remote depth (ClosedSets.mkRound [w] h d :: rest) acked = Some stream ->
  concat packs = stream ->
  receive_packs g o [w] packs = Some (o', [], n) ->
  forall c, In c (region g depth w) -> ~ In c (o_commits o) -> In (ctbl g c) (o_tables o').
Proof.
  intros Hs Ho Ha HCr HCo HF HH HA HSF H EP ER c Hc Hn.
  eapply (tables_within_depth_partial g o [w] depth packs o' n HCo ER); [|left; reflexivity|exact Hc|exact Hn].
  eapply srv_depth_rounds; eassumption.
Qed.

(** the same for one request: SrvDepth from C08_depth_one_want *)
Theorem tables_depth_one_round qsort ord g remote o depth w h d acked stream packs o' n :
  ClosedSetsSpec.sort_fun qsort -> ClosedSetsSpec.order_fun ord -> GAcyclic g ->
  Closed g (o_commits (r_objs remote)) -> Closed g (o_commits o) ->
  HavesStored g o [ClosedSets.mkRound [w] h d] ->
  (forall t, In t acked -> In t (o_tables o)) ->
  SenderFull g (r_objs remote) depth [w] ->
  cs_serve qsort ord g remote depth [ClosedSets.mkRound [w] h d] acked = Some stream ->
  concat packs = stream ->
  receive_packs g o [w] packs = Some (o', [], n) ->
  forall c, In c (region g depth w) -> ~ In c (o_commits o) -> In (ctbl g c) (o_tables o').
Proof.
  intros Hs Ho Ha HCr HCo HH HA HSF H EP ER c Hc Hn.
  eapply (tables_within_depth_partial g o [w] depth packs o' n HCo ER); [|left; reflexivity|exact Hc|exact Hn].
  eapply srv_depth_one_round; eassumption.
Qed.

(** the whole fetchObjects exchange against the finder + sender, single want: no server premise left *)
Theorem fetch_depth_one_want qsort ord g local remote adv depth k p tn w o' rounds n :
  ClosedSetsSpec.sort_fun qsort -> ClosedSetsSpec.order_fun ord -> GAcyclic g ->
  Closed g (o_commits (r_objs remote)) ->
  Closed g (o_commits (r_objs local)) -> RefsStored (r_objs local) (r_refs local) ->
  filter (fun c => negb (cmem c (o_commits (r_objs local)))) adv = [w] ->
  SenderFull g (r_objs remote) depth [w] ->
  cs_fetch_objects qsort ord g local remote adv depth k p tn = FDone o' rounds n ->
  forall c, In c (region g depth w) -> ~ In c (o_commits (r_objs local)) -> In (ctbl g c) (o_tables o').
Proof.
  intros Hs Ho Ha HCr HCl HRS Ew HSF H c Hc Hn.
  unfold cs_fetch_objects in H. rewrite Ew in H.
  set (st := store_of g (r_objs remote)) in *. set (refs := ref_values (r_refs remote)) in *.
  destruct (cs_negotiate qsort ord g (r_objs local) st refs [w] k (S (length g))
              (Session.q_new g (ref_values (r_refs local))) (ClosedSets.new_finder depth) [])
    as [[f rs]|] eqn:EN; [|discriminate].
  set (acked := if tn then o_tables (r_objs local) else []) in *.
  destruct (cs_send ord st f acked) as [stream|] eqn:ES; [|discriminate].
  destruct (receive_packs g (r_objs local) [w] (chunk p stream)) as [[[o1 e1] m]|] eqn:ER; [|discriminate].
  destruct e1; [|discriminate]. injection H as -> _ ->.
  apply (cs_negotiate_run qsort ord g (r_objs local) st refs [w] k HCl) in EN;
    [|apply s_q_new_in; exact HRS].
  destruct EN as (h & d & rest & E & HF & [os [HR HOK]] & HH). unfold first_wants in E, HR, HH. simpl in E. subst rs.
  eapply (tables_depth_one_want qsort ord g remote (r_objs local) depth w h d rest acked stream
            (chunk p stream) o' n); try eassumption.
  - intros t Ht. unfold acked in Ht. destruct tn; [exact Ht|destruct Ht].
  - unfold cs_serve. cbv zeta. fold st refs.
    match goal with |- (let (_, o) := ?X in _) = _ => replace X with (os, Some f) by (symmetry; exact HR) end.
    rewrite HOK. exact ES.
  - apply chunk_concat.
Qed.

(* ------------------------------------------------------------------ *)
(** * delivery: the stream passes the receiver's gate and completes the session *)
(* ------------------------------------------------------------------ *)
(** The order-independent half of C08 (C08_order, C08_cover, C08_sound, C08_refuse) composed with C09's
    receiver: for ANY number of wants, ANY processing order of the wants and ANY negotiation, every commit
    object of the finder + sender stream finds its parents stored (never "parent commit does not exist"),
    and every want arrives - the receive loop ends with nothing expected. *)

Lemma receive_app g a : forall b o e,
  receive g o e (a ++ b) =
  match receive g o e a with Some (o1, e1) => receive g o1 e1 b | None => None end.
Proof.
  induction a as [|x a IH]; intros b o e; simpl; [reflexivity|].
  destruct x as [t|c]; [apply IH|].
  destruct (forallb _ _); [apply IH|reflexivity].
Qed.

(** a stream that the gate accepts as a whole and that brings every expected commit completes the receive
    loop however it is cut *)
Lemma receive_packs_of_whole g : forall packs o e o1,
  receive g o e (concat packs) = Some (o1, []) -> e <> [] ->
  exists o' n, receive_packs g o e packs = Some (o', [], n).
Proof.
  induction packs as [|p packs IH]; intros o e o1 H He; simpl in H.
  - inversion H; subst. congruence.
  - rewrite receive_app in H. simpl.
    destruct (receive g o e p) as [[o2 e2]|]; [|discriminate].
    destruct e2 as [|x e2].
    + exists o2, 1%nat. reflexivity.
    + destruct (IH o2 (x :: e2) o1 H) as (o' & n & Hr); [discriminate|].
      rewrite Hr. exists o', (S n). reflexivity.
Qed.

(** the gate over the sender's stream: with the commits [pre] already written and [K] stored before, a
    parent-first list is accepted whole; afterwards all of it is stored and nothing of it is expected *)
Lemma receive_send_ok g st tosend K : forall L sent pre o e,
  (forall x, In x K -> In x (o_commits o)) ->
  (forall x, In x pre -> In x (o_commits o)) ->
  (forall l1 c l2, L = l1 ++ c :: l2 -> forall p, In p (cpar g c) -> In p K \/ In p pre \/ In p l1) ->
  exists o1 e1, receive g o e (send_objs st tosend sent L) = Some (o1, e1) /\
                (forall x, In x e1 -> In x e /\ ~ In x L).
Proof.
  induction L as [|c r IH]; intros sent pre o e HK Hpre Hord; simpl.
  - exists o, e. split; [reflexivity|]. intros x Hx. split; [exact Hx|intros []].
  - assert (Gate : forallb (fun p => cmem p (o_commits o)) (cpar g c) = true).
    { apply forallb_forall. intros p Hp. apply cmem_In.
      destruct (Hord [] c r eq_refl p Hp) as [H|[H|[]]]; [apply HK; exact H|apply Hpre; exact H]. }
    (* the step after the commit object: same K and pre + c, on the store with c added (and maybe a table) *)
    assert (Step : forall sent' tabs,
              exists o1 e1,
                receive g (mk_objs (add1 c (o_commits o)) tabs) (filter (fun x => negb (x =? c)) e)
                        (send_objs st tosend sent' r) = Some (o1, e1) /\
                (forall x, In x e1 -> In x e /\ ~ In x (c :: r))).
    { intros sent' tabs.
      destruct (IH sent' (c :: pre) (mk_objs (add1 c (o_commits o)) tabs) (filter (fun x => negb (x =? c)) e))
        as (o1 & e1 & Hr & He1).
      - intros x Hx. simpl. apply add1_In. right. apply HK. exact Hx.
      - intros x [<-|Hx]; simpl; apply add1_In; [left; reflexivity|right; apply Hpre; exact Hx].
      - intros l1 c' l2 E p Hp.
        assert (E' : c :: r = (c :: l1) ++ c' :: l2) by (rewrite E; reflexivity).
        destruct (Hord (c :: l1) c' l2 E' p Hp) as [H|[H|[H|H]]].
        + left. exact H.
        + right. left. right. exact H.
        + right. left. left. exact H.
        + right. right. exact H.
      - exists o1, e1. split; [exact Hr|]. intros x Hx. destruct (He1 x Hx) as [Hf Hn].
        apply filter_In in Hf. destruct Hf as [Hin Hne]. split; [exact Hin|].
        intros [<-|Hr']; [rewrite N.eqb_refl in Hne; discriminate|contradiction]. }
    destruct (ClosedSets.get_commit st c) as [cm|].
    + destruct (ClosedSets.mem (ClosedSets.c_table cm) tosend && negb (ClosedSets.mem (ClosedSets.c_table cm) sent)).
      * destruct (ClosedSets.table_exist st (ClosedSets.c_table cm)); simpl; rewrite Gate; apply Step.
      * simpl. rewrite Gate. apply Step.
    + simpl. rewrite Gate. apply Step.
Qed.

(** ancestry of the sender's store is ancestry of the session graph; stored-ness descends in a Closed store *)
Lemma cs_anc_anc g o c a : ClosedSetsSpec.anc (store_of g o) c a -> anc (to_graph g) a c.
Proof.
  intros H. induction H as [c|c p a Hp _ IH]; [apply anc_refl|].
  apply parent_of_store in Hp. destruct Hp as [_ Hp].
  eapply anc_trans; [exact IH|]. apply anc_parent. rewrite parents_to_graph. exact Hp.
Qed.

Lemma cs_anc_stored g o c a :
  Closed g (o_commits o) -> ClosedSetsSpec.anc (store_of g o) c a -> In c (o_commits o) -> In a (o_commits o).
Proof.
  intros HC H. induction H as [c|c p a Hp _ IH]; intros Hc; [exact Hc|].
  apply parent_of_store in Hp. destruct Hp as [_ Hp]. apply IH. eapply HC; eassumption.
Qed.

(** wants of accepted rounds are accepted wants *)
Lemma accepted_all qsort ord st refs : forall rs f os fo,
  ClosedSets.run_rounds qsort ord st refs f rs = (os, fo) -> fo <> None ->
  forallb round_accepted os = true ->
  forall r w, In r rs -> In w (ClosedSets.r_wants r) -> In w (ClosedSetsSpec.accepted_wants rs os).
Proof.
  induction rs as [|r0 rest IH]; intros f os fo H Hfo HOK r w Hr Hw; [destruct Hr|].
  simpl in H.
  destruct (ClosedSets.process qsort ord st refs f (ClosedSets.r_wants r0) (ClosedSets.r_haves r0) (ClosedSets.r_done r0))
    as [f1 acks|sums| |].
  - destruct (ClosedSets.run_rounds qsort ord st refs f1 rest) as [os1 fo1] eqn:ER.
    inversion H; subst. simpl in HOK. simpl. apply in_or_app.
    destruct Hr as [<-|Hr]; [left; exact Hw|right]. eapply IH; eassumption.
  - destruct (ClosedSets.run_rounds qsort ord st refs f rest) as [os1 fo1] eqn:ER.
    inversion H; subst. simpl in HOK. discriminate.
  - inversion H; subst. congruence.
  - inversion H; subst. congruence.
Qed.

Theorem serve_delivers qsort ord g remote o depth rs acked stream wants packs :
  ClosedSetsSpec.sort_fun qsort -> ClosedSetsSpec.order_fun ord -> GAcyclic g ->
  Closed g (o_commits (r_objs remote)) -> Closed g (o_commits o) ->
  HavesStored g o rs ->
  cs_serve qsort ord g remote depth rs acked = Some stream ->
  wants <> [] ->
  (forall w, In w wants -> ~ In w (o_commits o) /\ exists r, In r rs /\ In w (ClosedSets.r_wants r)) ->
  concat packs = stream ->
  exists o' n, receive_packs g o wants packs = Some (o', [], n).
Proof.
  intros Hs Ho Ha HCr HCo HH H Hne HW EP.
  destruct (cs_serve_session qsort ord g remote depth rs acked stream Hs Ho Ha H)
    as (os & f & L & ct & HSes & HOK & ECT & EStr).
  set (st := store_of g (r_objs remote)) in *. set (refs := ref_values (r_refs remote)) in *.
  assert (Hast : ClosedSetsSpec.acyclic st) by (apply store_acyclic; exact Ha).
  (* acks are haves, hence stored at the client *)
  destruct (ClosedSetsMain_proofs.sound_final qsort ord st refs depth rs os f L Hs Ho Hast HSes) as [So1 So2].
  assert (HER : exists fo, ClosedSets.run_rounds qsort ord st refs (ClosedSets.new_finder depth) rs = (os, fo) /\ fo <> None).
  { unfold ClosedSets.session in HSes.
    destruct (ClosedSets.run_rounds qsort ord st refs (ClosedSets.new_finder depth) rs) as [os' fo] eqn:ER.
    injection HSes as -> HSes. exists fo. split; [reflexivity|]. destruct fo; [discriminate|discriminate]. }
  destruct HER as (fo & ER & Hfo).
  assert (Hacks : forall k, In k (ClosedSetsSpec.all_acks os) -> In k (o_commits o)).
  { intros k Hk. destruct (all_acks_round _ _ _ _ _ _ _ _ _ ER Hk) as (r & acks & Hin & Hka).
    destruct (So2 r acks Hin k Hka) as [Hh _].
    apply (HH r (in_combine_l _ _ _ _ Hin) k Hh). }
  (* every listed commit is stored at the sender *)
  assert (HLst : forall x, In x L -> In x (o_commits (r_objs remote))).
  { intros x Hx. destruct (So1 x Hx) as (w0 & Hw0 & Hanc).
    apply (cs_anc_stored g _ w0 x HCr Hanc).
    (* an accepted want is full, hence stored *)
    assert (Hfull : forall rs' os', (forall r o0, In (r, o0) (combine rs' os') -> In (r, o0) (combine rs os)) ->
                      In w0 (ClosedSetsSpec.accepted_wants rs' os') ->
                      exists r a, In (r, ClosedSets.ROk a) (combine rs os) /\ In w0 (ClosedSets.r_wants r)).
    { induction rs' as [|r' rs' IHr]; intros os' Hsub Hin; [destruct Hin|].
      destruct os' as [|o0 os']; [destruct Hin|].
      destruct o0 as [a| | |]; simpl in Hin.
      - apply in_app_or in Hin. destruct Hin as [Hin|Hin].
        + exists r', a. split; [apply Hsub; left; reflexivity|exact Hin].
        + apply (IHr os'); [|exact Hin]. intros r1 o1 H1. apply Hsub. right. exact H1.
      - apply (IHr os'); [|exact Hin]. intros r1 o1 H1. apply Hsub. right. exact H1.
      - apply (IHr os'); [|exact Hin]. intros r1 o1 H1. apply Hsub. right. exact H1.
      - apply (IHr os'); [|exact Hin]. intros r1 o1 H1. apply Hsub. right. exact H1. }
    destruct (Hfull rs os (fun _ _ X => X) Hw0) as (r & a & Hin & Hwr).
    pose proof (ClosedSetsMain_proofs.rounds_final qsort ord st refs depth rs os f L Hs Ho Hast HSes r _ Hin) as HR.
    simpl in HR. destruct (HR w0 Hwr) as [_ (cm & Hg & _)].
    apply (get_commit_store_stored g). unfold st in Hg. rewrite Hg. discriminate. }
  (* parent-first, in the session graph *)
  assert (Hord : forall l1 c l2, L = l1 ++ c :: l2 -> forall p, In p (cpar g c) ->
                   In p (ClosedSetsSpec.all_acks os) \/ In p [] \/ In p l1).
  { intros l1 c l2 E p Hp.
    destruct (ClosedSetsMain_proofs.order_final qsort ord st refs depth rs os f L Hs Ho Hast HSes l1 c l2 E p) as [Hk|Hl].
    - apply parent_of_store. split; [|exact Hp]. apply HLst. rewrite E. apply in_or_app. right. left. reflexivity.
    - left. exact Hk.
    - right. right. exact Hl. }
  destruct (receive_send_ok g st (filter (fun t => negb (cmem t acked)) (concat (ClosedSets.f_tlists f)))
              (ClosedSetsSpec.all_acks os) L ct [] o wants Hacks (fun x (F : In x []) => match F with end) Hord)
    as (o1 & e1 & Hrecv & He1).
  (* every want is listed (cover), so nothing stays expected *)
  assert (E1 : e1 = []).
  { destruct e1 as [|x e1]; [reflexivity|]. exfalso.
    destruct (He1 x (or_introl eq_refl)) as [Hxw HxL].
    destruct (HW x Hxw) as [Hxo (r & Hr & Hwr)].
    pose proof (accepted_all qsort ord st refs rs _ os fo ER Hfo HOK r x Hr Hwr) as Hacc.
    destruct (ClosedSetsMain_proofs.cover_final qsort ord st refs depth rs os f L Hs Ho Hast HSes x x Hacc
                (ClosedSetsSpec.anc_refl st x)) as [Hl|(k & Hk & Hanc)]; [contradiction|].
    apply Hxo. apply (closed_anc g (o_commits o) HCo x k); [|apply Hacks; exact Hk].
    apply (cs_anc_anc g (r_objs remote)). exact Hanc. }
  subst e1. rewrite <- EStr in Hrecv. rewrite <- EP in Hrecv.
  eapply receive_packs_of_whole; eassumption.
Qed.

(* ------------------------------------------------------------------ *)
(** * the whole fetchObjects / fetch.Fetch against the finder + sender  *)
(* ------------------------------------------------------------------ *)

(** the exchange of [cs_fetch_objects], made visible *)
Lemma cs_fetch_objects_run qsort ord g local remote adv depth k p tn o' rounds n :
  cs_fetch_objects qsort ord g local remote adv depth k p tn = FDone o' rounds n ->
  exists f rs stream,
    filter (fun c => negb (cmem c (o_commits (r_objs local)))) adv <> [] /\
    cs_negotiate qsort ord g (r_objs local) (store_of g (r_objs remote)) (ref_values (r_refs remote))
                 (filter (fun c => negb (cmem c (o_commits (r_objs local)))) adv) k (S (length g))
                 (Session.q_new g (ref_values (r_refs local))) (ClosedSets.new_finder depth) [] = Some (f, rs) /\
    cs_send ord (store_of g (r_objs remote)) f (if tn then o_tables (r_objs local) else []) = Some stream /\
    receive_packs g (r_objs local) (filter (fun c => negb (cmem c (o_commits (r_objs local)))) adv)
                  (chunk p stream) = Some (o', [], n) /\ rounds = length rs.
Proof.
  intros H. unfold cs_fetch_objects in H.
  set (wants := filter (fun c => negb (cmem c (o_commits (r_objs local)))) adv) in *.
  destruct wants as [|w0 ws] eqn:Ew; [discriminate|].
  destruct (cs_negotiate _ _ _ _ _ _ _ _ _ _ _ _) as [[f rs]|] eqn:EN; [|discriminate].
  destruct (cs_send _ _ _ _) as [stream|] eqn:ES; [|discriminate].
  destruct (receive_packs _ _ _ _) as [[[o1 e1] m]|] eqn:ER; [|discriminate].
  destruct e1; [|discriminate]. injection H as -> <- ->.
  exists f, rs, stream. split; [discriminate|]. auto.
Qed.

(** C09_fetch_objects_closed for the finder + sender server (the receiver's gate alone) *)
Theorem cs_fetch_objects_closed qsort ord g local remote adv depth k p tn o' rounds n :
  Closed g (o_commits (r_objs local)) ->
  cs_fetch_objects qsort ord g local remote adv depth k p tn = FDone o' rounds n ->
  Closed g (o_commits o') /\
  incl (o_commits (r_objs local)) (o_commits o') /\ incl (o_tables (r_objs local)) (o_tables o') /\
  forall w, In w adv -> In w (o_commits o') /\ forall a, anc (to_graph g) a w -> In a (o_commits o').
Proof.
  intros HC H. apply cs_fetch_objects_run in H. destruct H as (f & rs & stream & _ & _ & _ & ER & _).
  pose proof ER as ER'. apply receive_packs_inv in ER'; [|exact HC].
  destruct ER' as (H1 & H2 & H3 & _).
  apply receive_packs_closed in ER; [|exact HC]. destruct ER as [_ HW].
  split; [exact H1|]. split; [exact H2|]. split; [exact H3|].
  intros w Hw.
  destruct (cmem w (o_commits (r_objs local))) eqn:Em.
  - apply cmem_In in Em. split; [apply H2; exact Em|].
    intros a Ha. apply H2. eapply closed_anc; eassumption.
  - apply HW. apply filter_In. split; [exact Hw|]. rewrite Em. reflexivity.
Qed.

(** delivery: once negotiation and NewObjectSender succeed, the transfer cannot fail - whatever the number
    of wants, their processing order, k and the packfile size *)
Theorem cs_fetch_objects_delivers qsort ord g local remote adv depth k p (tn : bool) f rs stream :
  ClosedSetsSpec.sort_fun qsort -> ClosedSetsSpec.order_fun ord -> GAcyclic g ->
  Closed g (o_commits (r_objs remote)) ->
  Closed g (o_commits (r_objs local)) -> RefsStored (r_objs local) (r_refs local) ->
  filter (fun c => negb (cmem c (o_commits (r_objs local)))) adv <> [] ->
  cs_negotiate qsort ord g (r_objs local) (store_of g (r_objs remote)) (ref_values (r_refs remote))
               (filter (fun c => negb (cmem c (o_commits (r_objs local)))) adv) k (S (length g))
               (Session.q_new g (ref_values (r_refs local))) (ClosedSets.new_finder depth) [] = Some (f, rs) ->
  cs_send ord (store_of g (r_objs remote)) f (if tn then o_tables (r_objs local) else []) = Some stream ->
  exists o' n, cs_fetch_objects qsort ord g local remote adv depth k p tn = FDone o' (length rs) n.
Proof.
  intros Hs Ho Ha HCr HCl HRS Hne EN ES.
  set (wants := filter (fun c => negb (cmem c (o_commits (r_objs local)))) adv) in *.
  set (st := store_of g (r_objs remote)) in *. set (refs := ref_values (r_refs remote)) in *.
  pose proof EN as EN'.
  apply (cs_negotiate_run qsort ord g (r_objs local) st refs wants k HCl) in EN';
    [|apply s_q_new_in; exact HRS].
  destruct EN' as (h & d & rest & E & HF & [os [HR HOK]] & HH). unfold first_wants in E, HR, HH. simpl in E.
  assert (HSrv : cs_serve qsort ord g remote depth (ClosedSets.mkRound wants h d :: rest)
                          (if tn then o_tables (r_objs local) else []) = Some stream).
  { unfold cs_serve. cbv zeta. fold st refs.
    match goal with |- (let (_, o) := ?X in _) = _ => replace X with (os, Some f) by (symmetry; exact HR) end.
    rewrite HOK. exact ES. }
  destruct (serve_delivers qsort ord g remote (r_objs local) depth _ _ stream wants (chunk p stream)
              Hs Ho Ha HCr HCl HH HSrv Hne) as (o' & n & ER).
  - intros w Hw. split.
    + unfold wants in Hw. apply filter_In in Hw. destruct Hw as [_ Hw]. intros Hin.
      apply cmem_In in Hin. rewrite Hin in Hw. discriminate.
    + exists (ClosedSets.mkRound wants h d). split; [left; reflexivity|exact Hw].
  - apply chunk_concat.
  - exists o', n. unfold cs_fetch_objects. fold wants. fold st refs.
    destruct wants as [|w0 ws] eqn:Ew; [congruence|].
    rewrite EN, ES, ER. reflexivity.
Qed.

(** C09_fetch_closed for fetch.Fetch over the finder + sender: whatever it reports, the local store is
    Closed, nothing is lost, and every created or moved ref has its whole history.  (Same argument as
    Session_proofs.fetch_closed: only the gate and saveFetchedRefs are involved.) *)
Theorem cs_fetch_closed qsort ord g local remote specs gforce depth k p tn :
  Closed g (o_commits (r_objs local)) ->
  let '(out, l') := cs_fetch qsort ord g local remote specs gforce depth k p tn in
  Closed g (o_commits (r_objs l')) /\
  incl (o_commits (r_objs local)) (o_commits (r_objs l')) /\
  incl (o_tables (r_objs local)) (o_tables (r_objs l')) /\
  forall n c, rget (r_refs l') n = Some c -> rget (r_refs local) n <> Some c ->
              In c (o_commits (r_objs l')) /\
              forall a, anc (to_graph g) a c -> In a (o_commits (r_objs l')).
Proof.
  intros HC. unfold cs_fetch.
  set (adv := map fi_new (fst (resolve_fetch specs (listing (r_refs remote))))).
  destruct (cs_fetch_objects qsort ord g local remote adv depth k p tn) as [| |o' rounds packs] eqn:EF.
  - (* nothing wanted: every advertised commit is already stored *)
    assert (Hadv : forall w, In w adv -> In w (o_commits (r_objs local))).
    { intros w Hw. unfold cs_fetch_objects in EF.
      destruct (filter (fun c => negb (cmem c (o_commits (r_objs local)))) adv) as [|w0 ws] eqn:Ew.
      - destruct (cmem w (o_commits (r_objs local))) eqn:Em; [apply cmem_In; exact Em|].
        assert (In w []) as []. rewrite <- Ew. apply filter_In. split; [exact Hw|]. rewrite Em. reflexivity.
      - destruct (cs_negotiate _ _ _ _ _ _ _ _ _ _ _ _) as [[f rs]|]; [|discriminate].
        destruct (cs_send _ _ _ _); [|discriminate].
        destruct (receive_packs _ _ _ _) as [[[? [|? ?]] ?]|]; discriminate. }
    unfold fetch_step_h. cbn [lrefs rrefs lhave].
    destruct (resolve_fetch specs (listing (r_refs remote))) as [items tags] eqn:ER.
    match goal with |- context [flat_map ?f tags] => set (extra := flat_map f tags) end. unfold fetch_loop.
    destruct (fold_left _ (sort_items (items ++ extra)) _) as [[s' tr] nrej] eqn:EL. simpl.
    assert (Hval : forall n c, rget s' n = Some c -> rget (r_refs local) n <> Some c ->
                               In c (o_commits (r_objs local))).
    { intros n c H Hne.
      pose proof (fetch_loop_values (is_ancestor (to_graph g)) gforce (sort_items (items ++ extra))
                                    (r_refs local, [], O) n c) as V.
      rewrite EL in V. simpl in V. destruct (V H) as [V1|V1]; [contradiction|].
      apply in_map_iff in V1. destruct V1 as [it [Hit Hin]]. apply sort_items_In in Hin.
      apply in_app_or in Hin. destruct Hin as [Hin|Hin].
      * apply Hadv. subst adv. simpl. apply in_map_iff. exists it. split; assumption.
      * unfold extra in Hin. apply in_flat_map in Hin. destruct Hin as [e [_ He]].
        destruct (cmem (snd e) (o_commits (r_objs local)) && _) eqn:Ec; [|destruct He].
        destruct He as [<-|[]]. simpl in Hit. subst c.
        apply andb_true_iff in Ec. apply cmem_In. tauto. }
    repeat split; auto using incl_refl.
    + eapply Hval; eassumption.
    + intros a Ha. eapply closed_anc; [exact HC|exact Ha|]. eapply Hval; eassumption.
  - (* transfer failed: nothing changes *)
    simpl. repeat split; auto using incl_refl; contradiction.
  - apply cs_fetch_objects_closed in EF; [|exact HC].
    destruct EF as (F1 & F2 & F3 & F4).
    unfold fetch_step_h. cbn [lrefs rrefs lhave].
    destruct (resolve_fetch specs (listing (r_refs remote))) as [items tags] eqn:ER.
    match goal with |- context [flat_map ?f tags] => set (extra := flat_map f tags) end. unfold fetch_loop.
    destruct (fold_left _ (sort_items (items ++ extra)) _) as [[s' tr] nrej] eqn:EL. simpl.
    assert (Hval : forall n c, rget s' n = Some c -> rget (r_refs local) n <> Some c -> In c (o_commits o')).
    { intros n c H Hne.
      pose proof (fetch_loop_values (is_ancestor (to_graph g)) gforce (sort_items (items ++ extra))
                                    (r_refs local, [], O) n c) as V.
      rewrite EL in V. simpl in V. destruct (V H) as [V1|V1]; [contradiction|].
      apply in_map_iff in V1. destruct V1 as [it [Hit Hin]]. apply sort_items_In in Hin.
      apply in_app_or in Hin. destruct Hin as [Hin|Hin].
      * apply F4. subst adv. simpl. apply in_map_iff. exists it. split; assumption.
      * unfold extra in Hin. apply in_flat_map in Hin. destruct Hin as [e [_ He]].
        destruct (cmem (snd e) (o_commits o') && _) eqn:Ec; [|destruct He].
        destruct He as [<-|[]]. simpl in Hit. subst c.
        apply andb_true_iff in Ec. apply cmem_In. tauto. }
    repeat split; auto.
    + eapply Hval; eassumption.
    + intros a Ha. eapply closed_anc; [exact F1|exact Ha|]. eapply Hval; eassumption.
Qed.

(* ------------------------------------------------------------------ *)
(** * depth = 0 (full history): ANY number of wants, ANY processing order *)
(* ------------------------------------------------------------------ *)
(** The want-order finding (C08_depth_order_refuted) needs depth > 0: with depth = 0 every commit that is
    listed has its table selected in the same step, whatever walk lists it.  So for full fetches the depth
    clause holds for every set of wants and every map order. *)

(** every listed commit is stored and its table is selected *)
Definition TL (st : ClosedSets.store) (cls : list (list ClosedSets.cid)) (tls : list (list N)) : Prop :=
  forall x, In x (concat cls) ->
    exists cm, ClosedSets.get_commit st x = Some cm /\ In (ClosedSets.c_table cm) (concat tls).

Lemma enqueue_loop_TL st commons defer : forall order seen cls tls dfr cls' tls' dfr',
  ClosedSets.enqueue_loop st 0 commons defer order seen cls tls dfr = ClosedSets.Ok (cls', tls', dfr') ->
  TL st cls tls -> TL st cls' tls'.
Proof.
  induction order as [|w r IH]; intros seen cls tls dfr cls' tls' dfr' H HT; simpl in H.
  - inversion H; subst. exact HT.
  - destruct (ClosedSets.walk_want st 0 seen commons defer w) as [sums cl tl| | |] eqn:EW; try discriminate.
    + apply IH in H; [exact H|].
      destruct (ClosedSets_proofs.walk_want_facts st 0 seen commons defer w sums cl tl EW) as (F1 & F2 & _).
      intros x Hx. rewrite ClosedSets_proofs.concat_snoc in Hx. rewrite ClosedSets_proofs.concat_snoc.
      apply in_app_or in Hx. destruct Hx as [Hx|Hx].
      * destruct (HT x Hx) as (cm & Hg & Ht). exists cm. split; [exact Hg|apply in_or_app; left; exact Ht].
      * apply F1 in Hx. destruct Hx as [k Hv].
        destruct (ClosedSets.get_commit st x) as [cm|] eqn:Eg.
        -- exists cm. split; [reflexivity|]. apply in_or_app. right. apply F2. exists k, x, cm. auto.
        -- apply ClosedSets_proofs.visf_end in Hv. destruct Hv as [_ Hv]. congruence.
    + apply IH in H; [exact H|exact HT].
Qed.

Lemma enqueue_TL ord st f defer f' :
  ClosedSets.f_depth f = 0%nat -> TL st (ClosedSets.f_clists f) (ClosedSets.f_tlists f) ->
  ClosedSets.enqueue ord st f defer = ClosedSets.Ok f' ->
  ClosedSets.f_depth f' = 0%nat /\ TL st (ClosedSets.f_clists f') (ClosedSets.f_tlists f').
Proof.
  intros HD HT H. unfold ClosedSets.enqueue in H. rewrite HD in H.
  destruct (ClosedSets.enqueue_loop st 0 (ClosedSets.f_commons f) defer (ord (ClosedSets.f_calls f) (ClosedSets.f_wants f)) []
              (ClosedSets.f_clists f) (ClosedSets.f_tlists f) []) as [[[cls tls] dfr]| |] eqn:E; try discriminate.
  inversion H; subst f'; clear H. simpl. split; [reflexivity|].
  eapply enqueue_loop_TL; eassumption.
Qed.

Lemma run_rounds_TL qsort ord st refs : forall rs f os f',
  ClosedSets.f_depth f = 0%nat -> TL st (ClosedSets.f_clists f) (ClosedSets.f_tlists f) ->
  ClosedSets.run_rounds qsort ord st refs f rs = (os, Some f') ->
  ClosedSets.f_depth f' = 0%nat /\ TL st (ClosedSets.f_clists f') (ClosedSets.f_tlists f').
Proof.
  induction rs as [|r rest IH]; intros f os f' HD HT H; simpl in H.
  - inversion H; subst. auto.
  - destruct (ClosedSets.process qsort ord st refs f (ClosedSets.r_wants r) (ClosedSets.r_haves r) (ClosedSets.r_done r))
      as [f1 acks|sums| |] eqn:EP.
    + destruct (ClosedSets.run_rounds qsort ord st refs f1 rest) as [os1 fo1] eqn:ER.
      inversion H; subst.
      apply (ClosedSetsSession_proofs.process_ok_inv qsort ord st refs) in EP.
      apply enqueue_TL in EP; [|exact HD|exact HT]. destruct EP as [D1 T1].
      eapply IH; eassumption.
    + destruct (ClosedSets.run_rounds qsort ord st refs f rest) as [os1 fo1] eqn:ER.
      inversion H; subst. eapply IH; eassumption.
    + inversion H.
    + inversion H.
Qed.

Lemma session_TL qsort ord st refs rs os f L :
  ClosedSets.session qsort ord st refs 0 rs = (os, Some (ClosedSets.Ok (f, L))) ->
  forall x, In x L -> exists cm, ClosedSets.get_commit st x = Some cm /\
                                 In (ClosedSets.c_table cm) (concat (ClosedSets.f_tlists f)).
Proof.
  intros H. unfold ClosedSets.session in H.
  destruct (ClosedSets.run_rounds qsort ord st refs (ClosedSets.new_finder 0) rs) as [os' [f0|]] eqn:ER;
    [|inversion H].
  injection H as _ H.
  apply run_rounds_TL in ER; [|reflexivity|intros x []]. destruct ER as [D0 T0].
  unfold ClosedSets.commits_to_send in H.
  destruct (ClosedSets.flush_wants ord st f0) as [f2| |] eqn:EF; try discriminate.
  injection H as -> <-.
  unfold ClosedSets.flush_wants in EF. destruct (ClosedSets.f_wants f0).
  - inversion EF; subst. exact T0.
  - apply enqueue_TL in EF; [|exact D0|exact T0]. exact (proj2 EF).
Qed.

(** wants that were accepted travelled in some request *)
Lemma accepted_in_rounds : forall rs os w,
  In w (ClosedSetsSpec.accepted_wants rs os) ->
  exists r a, In (r, ClosedSets.ROk a) (combine rs os) /\ In w (ClosedSets.r_wants r).
Proof.
  induction rs as [|r rs IH]; intros os w Hin; [destruct Hin|].
  destruct os as [|o0 os]; [destruct Hin|].
  destruct o0 as [a| | |]; simpl in Hin.
  - apply in_app_or in Hin. destruct Hin as [Hin|Hin].
    + exists r, a. split; [left; reflexivity|exact Hin].
    + destruct (IH os w Hin) as (r1 & a1 & H1 & H2). exists r1, a1. split; [right; exact H1|exact H2].
  - destruct (IH os w Hin) as (r1 & a1 & H1 & H2). exists r1, a1. split; [right; exact H1|exact H2].
  - destruct (IH os w Hin) as (r1 & a1 & H1 & H2). exists r1, a1. split; [right; exact H1|exact H2].
  - destruct (IH os w Hin) as (r1 & a1 & H1 & H2). exists r1, a1. split; [right; exact H1|exact H2].
Qed.

(** every listed commit is stored at a Closed sender and is an ancestor of a want of some request *)
Lemma session_listed qsort ord g remote depth rs os f L :
  ClosedSetsSpec.sort_fun qsort -> ClosedSetsSpec.order_fun ord -> GAcyclic g ->
  Closed g (o_commits (r_objs remote)) ->
  ClosedSets.session qsort ord (store_of g (r_objs remote)) (ref_values (r_refs remote)) depth rs
    = (os, Some (ClosedSets.Ok (f, L))) ->
  forall x, In x L ->
    In x (o_commits (r_objs remote)) /\
    exists r w, In r rs /\ In w (ClosedSets.r_wants r) /\ anc (to_graph g) x w.
Proof.
  intros Hs Ho Ha HCr HSes x Hx.
  set (st := store_of g (r_objs remote)) in *. set (refs := ref_values (r_refs remote)) in *.
  assert (Hast : ClosedSetsSpec.acyclic st) by (apply store_acyclic; exact Ha).
  destruct (ClosedSetsMain_proofs.sound_final qsort ord st refs depth rs os f L Hs Ho Hast HSes) as [So1 _].
  destruct (So1 x Hx) as (w0 & Hw0 & Hanc).
  destruct (accepted_in_rounds rs os w0 Hw0) as (r & a & Hin & Hwr).
  pose proof (ClosedSetsMain_proofs.rounds_final qsort ord st refs depth rs os f L Hs Ho Hast HSes r _ Hin) as HR.
  simpl in HR. destruct (HR w0 Hwr) as [_ (cm & Hg & _)].
  assert (Hw0s : In w0 (o_commits (r_objs remote))).
  { apply (get_commit_store_stored g). unfold st in Hg. rewrite Hg. discriminate. }
  split.
  - apply (cs_anc_stored g _ w0 x HCr Hanc Hw0s).
  - exists r, w0. split; [eapply in_combine_l; exact Hin|]. split; [exact Hwr|].
    apply (cs_anc_anc g (r_objs remote)). exact Hanc.
Qed.

Lemma serve_table_before_depth0 qsort ord g remote before rs acked stream :
  ClosedSetsSpec.sort_fun qsort -> ClosedSetsSpec.order_fun ord -> GAcyclic g ->
  Closed g (o_commits (r_objs remote)) ->
  HavesStored g before rs ->
  (forall t, In t acked -> In t (o_tables before)) ->
  SenderFullAnc g (r_objs remote) rs ->
  cs_serve qsort ord g remote 0 rs acked = Some stream ->
  forall S1 c S2, stream = S1 ++ OCommit c :: S2 ->
    In (ctbl g c) (o_tables before) \/ In (OTable (ctbl g c)) S1.
Proof.
  intros Hs Ho Ha HCr HH HA HSF H S1 c S2 ES.
  destruct (cs_serve_session qsort ord g remote 0 rs acked stream Hs Ho Ha H)
    as (os & f & L & ct & HSes & HOK & ECT & EStr).
  set (st := store_of g (r_objs remote)) in *. set (refs := ref_values (r_refs remote)) in *.
  assert (Hast : ClosedSetsSpec.acyclic st) by (apply store_acyclic; exact Ha).
  assert (HcL : In c L).
  { apply (send_objs_commit st (filter (fun t => negb (cmem t acked)) (concat (ClosedSets.f_tlists f))) L ct c).
    rewrite <- EStr, ES. apply in_or_app. right. left. reflexivity. }
  destruct (session_TL qsort ord st refs rs os f L HSes c HcL) as (cm & Hg & HT).
  destruct (session_listed qsort ord g remote 0 rs os f L Hs Ho Ha HCr HSes c HcL) as (Hcs & r & w & Hr & Hwr & Hanc).
  pose proof Hg as Hg'. apply get_commit_store_some in Hg'. destruct Hg' as [_ ->]. simpl in HT.
  destruct (cmem (ctbl g c) acked) eqn:Eak.
  { left. apply HA. apply cmem_In. exact Eak. }
  assert (Hsel : ClosedSets.mem (ClosedSets.c_table (cs_commit g c))
                   (filter (fun t => negb (cmem t acked)) (concat (ClosedSets.f_tlists f))) = true).
  { apply ClosedSets_proofs.mem_In. apply filter_In. split; [exact HT|]. simpl. rewrite Eak. reflexivity. }
  assert (Hex : ClosedSets.table_exist st (ClosedSets.c_table (cs_commit g c)) = true).
  { unfold st. rewrite table_exist_store. apply cmem_In. eapply HSF; eassumption. }
  rewrite ES in EStr. symmetry in EStr.
  destruct (send_objs_table_before st _ L ct S1 c S2 (cs_commit g c) EStr Hg Hsel Hex) as [Hct|Hs1].
  - left. destruct (common_tables_In st _ ct _ ECT Hct) as (k0 & cm0 & Hk0 & Hg0 & Ht0).
    apply get_commit_store_some in Hg0. destruct Hg0 as [_ ->]. simpl in Ht0. simpl in Hct. rewrite <- Ht0.
    (* a common commit is a have *)
    assert (HER : exists fo, ClosedSets.run_rounds qsort ord st refs (ClosedSets.new_finder 0) rs = (os, fo)).
    { unfold ClosedSets.session in HSes.
      destruct (ClosedSets.run_rounds qsort ord st refs (ClosedSets.new_finder 0) rs) as [os' fo] eqn:ER.
      injection HSes as -> _. exists fo. reflexivity. }
    destruct HER as [fo ER].
    destruct (ClosedSetsSession_proofs.session_spec qsort ord Hs Ho st refs Hast 0 rs _ _ HSes) as (_ & _ & _ & HSO).
    specialize (HSO f L eq_refl).
    apply (ClosedSetsSession_proofs.so_commons _ _ _ _ _ _ _ HSO) in Hk0.
    destruct (all_acks_round _ _ _ _ _ _ _ _ _ ER Hk0) as (r0 & acks & Hin & Hka).
    destruct (ClosedSetsMain_proofs.sound_final qsort ord st refs 0 rs os f L Hs Ho Hast HSes) as [_ So2].
    destruct (So2 r0 acks Hin k0 Hka) as [Hh _].
    apply (HH r0 (in_combine_l _ _ _ _ Hin) k0 Hh).
  - right. exact Hs1.
Qed.

Theorem srv_depth0_any_wants qsort ord g remote before rs acked stream wants packs o' n :
  ClosedSetsSpec.sort_fun qsort -> ClosedSetsSpec.order_fun ord -> GAcyclic g ->
  Closed g (o_commits (r_objs remote)) -> Closed g (o_commits before) ->
  HavesStored g before rs ->
  (forall t, In t acked -> In t (o_tables before)) ->
  SenderFullAnc g (r_objs remote) rs ->
  cs_serve qsort ord g remote 0 rs acked = Some stream ->
  concat packs = stream ->
  receive_packs g before wants packs = Some (o', [], n) ->
  SrvDepth g before wants 0 packs n.
Proof.
  intros Hs Ho Ha HCr HCb HH HA HSF H EP ER w Hw c Hc Hn.
  pose proof (receive_packs_closed g packs before wants o' n HCb ER) as [_ HW].
  destruct (HW w Hw) as [_ HAnc].
  destruct (region_spath g 0 w c Hc) as (k & Hp & _).
  pose proof (HAnc c (spath_anc g w k c Hp)) as Hco.
  destruct (receive_packs_from g packs _ _ _ _ _ ER) as [Hfrom _].
  destruct (Hfrom c Hco) as [Hb|Hin]; [contradiction|].
  apply in_split in Hin. destruct Hin as (P1 & P2 & EPre).
  assert (ES : stream = P1 ++ OCommit c :: (P2 ++ concat (skipn n packs))).
  { rewrite <- EP, (consumed_prefix packs n), EPre, <- app_assoc. reflexivity. }
  destruct (serve_table_before_depth0 qsort ord g remote before rs acked stream Hs Ho Ha HCr HH HA HSF H _ _ _ ES)
    as [Ht|Ht].
  - left. exact Ht.
  - right. rewrite EPre. apply in_or_app. left. exact Ht.
Qed.

(** full fetch (depth 0), any number of wants: every commit that a created or moved ref reaches and that
    was not stored before has its table afterwards *)
Theorem fetch_depth0_any_wants qsort ord g local remote adv k p tn o' rounds n :
  ClosedSetsSpec.sort_fun qsort -> ClosedSetsSpec.order_fun ord -> GAcyclic g ->
  Closed g (o_commits (r_objs remote)) ->
  Closed g (o_commits (r_objs local)) -> RefsStored (r_objs local) (r_refs local) ->
  (forall c, In c (o_commits (r_objs remote)) -> In (ctbl g c) (o_tables (r_objs remote))) ->
  cs_fetch_objects qsort ord g local remote adv 0 k p tn = FDone o' rounds n ->
  forall w, In w adv -> ~ In w (o_commits (r_objs local)) ->
  forall c, In c (region g 0 w) -> ~ In c (o_commits (r_objs local)) -> In (ctbl g c) (o_tables o').
Proof.
  intros Hs Ho Ha HCr HCl HRS HFull H w Hw Hnw c Hc Hn.
  apply cs_fetch_objects_run in H. destruct H as (f & rs & stream & Hne & EN & ES & ER & _).
  set (wants := filter (fun c => negb (cmem c (o_commits (r_objs local)))) adv) in *.
  set (st := store_of g (r_objs remote)) in *. set (refs := ref_values (r_refs remote)) in *.
  apply (cs_negotiate_run qsort ord g (r_objs local) st refs wants k HCl) in EN;
    [|apply s_q_new_in; exact HRS].
  destruct EN as (h & d & rest & E & HF & [os [HR HOK]] & HH). unfold first_wants in E, HR, HH. simpl in E.
  assert (HSrv : cs_serve qsort ord g remote 0 (ClosedSets.mkRound wants h d :: rest)
                          (if tn then o_tables (r_objs local) else []) = Some stream).
  { unfold cs_serve. cbv zeta. fold st refs.
    match goal with |- (let (_, o) := ?X in _) = _ => replace X with (os, Some f) by (symmetry; exact HR) end.
    rewrite HOK. exact ES. }
  eapply (tables_within_depth_partial g (r_objs local) wants 0 (chunk p stream) o' n HCl ER).
  - eapply (srv_depth0_any_wants qsort ord g remote (r_objs local) _ _ stream wants); try eassumption.
    + intros t Ht. destruct tn; [exact Ht|destruct Ht].
    + intros r0 w0 a _ _ _ Hs0. apply HFull. exact Hs0.
    + apply chunk_concat.
  - unfold wants. apply filter_In. split; [exact Hw|].
    destruct (cmem w (o_commits (r_objs local))) eqn:Em; [apply cmem_In in Em; contradiction|reflexivity].
  - exact Hc.
  - exact Hn.
Qed.

(* ------------------------------------------------------------------ *)
(** * executable forms of the hypotheses                                *)
(* ------------------------------------------------------------------ *)

Lemma cinfo_of_In g c i : cinfo_of g c = Some i -> In (c, i) g.
Proof.
  induction g as [|[x j] g IH]; simpl; [discriminate|].
  destruct (x =? c) eqn:E.
  - apply N.eqb_eq in E. intros H. inversion H; subst. left. reflexivity.
  - intros H. right. apply IH. exact H.
Qed.

Lemma gacyclicb_ok g : gacyclicb g = true -> GAcyclic g.
Proof.
  intros H. exists N.to_nat. intros c p Hp. unfold cpar in Hp.
  destruct (cinfo_of g c) as [i|] eqn:E; [|destruct Hp].
  apply cinfo_of_In in E. unfold gacyclicb in H. rewrite forallb_forall in H.
  specialize (H _ E). simpl in H. rewrite forallb_forall in H. specialize (H p Hp).
  apply N.ltb_lt in H. lia.
Qed.

Lemma closedb_ok g cs : closedb g cs = true -> Closed g cs.
Proof.
  intros H c Hc p Hp. unfold closedb in H. rewrite forallb_forall in H. specialize (H c Hc).
  rewrite forallb_forall in H. apply cmem_In. apply H. exact Hp.
Qed.

Lemma refs_storedb_ok o refs : refs_storedb o refs = true -> RefsStored o refs.
Proof.
  intros H c Hc. unfold refs_storedb in H. rewrite forallb_forall in H. apply cmem_In. apply H. exact Hc.
Qed.

Lemma sender_fullb_ok g sender depth level : sender_fullb g sender depth level = true -> SenderFull g sender depth level.
Proof.
  intros H c Hc. unfold sender_fullb in H. rewrite forallb_forall in H. apply cmem_In. apply H. exact Hc.
Qed.

Lemma sender_allb_ok g sender :
  sender_allb g sender = true -> forall c, In c (o_commits sender) -> In (ctbl g c) (o_tables sender).
Proof.
  intros H c Hc. unfold sender_allb in H. rewrite forallb_forall in H. apply cmem_In. apply H. exact Hc.
Qed.

(* ------------------------------------------------------------------ *)
(** * the statements of props/ComposeB4.v in their final binder order   *)
(* ------------------------------------------------------------------ *)

Lemma table_before_commit_final : forall qsort ord g remote before depth w h d rest acked stream,
  ClosedSetsSpec.sort_fun qsort -> ClosedSetsSpec.order_fun ord -> GAcyclic g ->
  Closed g (o_commits (r_objs remote)) -> Closed g (o_commits before) ->
  Forall (fun r => ClosedSets.r_wants r = []) rest ->
  HavesStored g before (ClosedSets.mkRound [w] h d :: rest) ->
  (forall t, In t acked -> In t (o_tables before)) ->
  SenderFull g (r_objs remote) depth [w] ->
  cs_serve qsort ord g remote depth (ClosedSets.mkRound [w] h d :: rest) acked = Some stream ->
  forall S1 c S2, stream = S1 ++ OCommit c :: S2 ->
    In c (region g depth w) -> ~ In c (o_commits before) ->
    In (ctbl g c) (o_tables before) \/ In (OTable (ctbl g c)) S1.
Proof.
  intros qsort ord g remote before depth w h d rest acked stream Hs Ho Ha HCr HCb HF HH HA HSF H.
  exact (serve_table_before qsort ord Hs Ho g Ha remote HCr before HCb depth w h d rest acked stream HF HH HA HSF H).
Qed.

Lemma srv_depth_one_want_final : forall qsort ord g remote before depth w h d rest acked stream packs o' n,
  ClosedSetsSpec.sort_fun qsort -> ClosedSetsSpec.order_fun ord -> GAcyclic g ->
  Closed g (o_commits (r_objs remote)) -> Closed g (o_commits before) ->
  Forall (fun r => ClosedSets.r_wants r = []) rest ->
  HavesStored g before (ClosedSets.mkRound [w] h d :: rest) ->
  (forall t, In t acked -> In t (o_tables before)) ->
  SenderFull g (r_objs remote) depth [w] ->
  cs_serve qsort ord g remote depth (ClosedSets.mkRound [w] h d :: rest) acked = Some stream ->
  concat packs = stream ->
  receive_packs g before [w] packs = Some (o', [], n) ->
  SrvDepth g before [w] depth packs n.
Proof.
  intros qsort ord g remote before depth w h d rest acked stream packs o' n Hs Ho Ha HCr HCb.
  exact (srv_depth_rounds qsort ord Hs Ho g Ha remote HCr before HCb depth w h d rest acked stream packs o' n).
Qed.

Lemma srv_depth_one_round_final : forall qsort ord g remote before depth w h d acked stream packs o' n,
  ClosedSetsSpec.sort_fun qsort -> ClosedSetsSpec.order_fun ord -> GAcyclic g ->
  Closed g (o_commits (r_objs remote)) -> Closed g (o_commits before) ->
  HavesStored g before [ClosedSets.mkRound [w] h d] ->
  (forall t, In t acked -> In t (o_tables before)) ->
  SenderFull g (r_objs remote) depth [w] ->
  cs_serve qsort ord g remote depth [ClosedSets.mkRound [w] h d] acked = Some stream ->
  concat packs = stream ->
  receive_packs g before [w] packs = Some (o', [], n) ->
  SrvDepth g before [w] depth packs n.
Proof.
  intros qsort ord g remote before depth w h d acked stream packs o' n Hs Ho Ha HCr HCb.
  exact (srv_depth_one_round qsort ord Hs Ho g Ha remote HCr before HCb depth w h d acked stream packs o' n).
Qed.

(* ------------------------------------------------------------------ *)
(** * non-vacuity                                                       *)
(* ------------------------------------------------------------------ *)

(** two roots and a merge on top: 0 <- 1 <- 2, 5 <- 6, 7 = merge(2, 6); tables 1,2,3,6,7,8.  The client has
    0,1 (ref on 1), the server everything (ref on 7).  With k = 1 the first request offers have 1; the walk
    of want 7 reaches the root 5 while the client has not said done, so the finder DEFERS it and the server
    answers ACK 1; the second request (no have left, done) makes it walk: two negotiation rounds. *)
Definition b4_g : cgraph :=
  [(0, mk_ci [] 1 0); (1, mk_ci [0] 2 1); (2, mk_ci [1] 3 2); (5, mk_ci [] 6 3); (6, mk_ci [5] 7 4);
   (7, mk_ci [2; 6] 8 5)].
Definition b4_local : repo := mk_repo (mk_objs [0; 1] [1; 2]) (rset_log [] ex_main 1 ACT_SETUP).
Definition b4_remote : repo :=
  mk_repo (mk_objs [0; 1; 2; 5; 6; 7] [1; 2; 3; 6; 7; 8]) (rset_log [] ex_main 7 ACT_SETUP).
Definition b4_rounds : list ClosedSets.round :=
  [ClosedSets.mkRound [7] [1] false; ClosedSets.mkRound [] [] true].
Definition b4_stream : list obj :=
  [OCommit 5; OTable 7; OCommit 6; OTable 3; OCommit 2; OTable 8; OCommit 7].

Example b4_hyps :
  ClosedSetsSpec.sort_fun ClosedSets.isort_time /\ ClosedSetsSpec.order_fun (ClosedSets.ord_of 0) /\
  GAcyclic b4_g /\ Closed b4_g (o_commits (r_objs b4_remote)) /\ Closed b4_g (o_commits (r_objs b4_local)) /\
  RefsStored (r_objs b4_local) (r_refs b4_local) /\
  filter (fun c => negb (cmem c (o_commits (r_objs b4_local)))) [7] = [7] /\
  SenderFull b4_g (r_objs b4_remote) 2 [7] /\
  HavesStored b4_g (r_objs b4_local) b4_rounds.
Proof.
  split; [exact ClosedSetsSingle_proofs.isort_time_perm|].
  split; [apply ClosedSetsSingle_proofs.ord_of_order_fun|].
  split; [apply gacyclicb_ok; vm_compute; reflexivity|].
  split; [apply closedb_ok; vm_compute; reflexivity|].
  split; [apply closedb_ok; vm_compute; reflexivity|].
  split; [apply refs_storedb_ok; vm_compute; reflexivity|].
  split; [vm_compute; reflexivity|].
  split; [apply sender_fullb_ok; vm_compute; reflexivity|].
  intros r [<-|[<-|[]]] h Hh; simpl in Hh.
  - destruct Hh as [<-|[]]. vm_compute. auto.
  - destruct Hh.
Qed.

(** the server run, its stream, a cut into one-object packfiles and the receive loop *)
Example b4_serve :
  cs_serve ClosedSets.isort_time (ClosedSets.ord_of 0) b4_g b4_remote 2 b4_rounds [] = Some b4_stream /\
  concat (chunk 1 b4_stream) = b4_stream /\
  receive_packs b4_g (r_objs b4_local) [7] (chunk 1 b4_stream)
    = Some (mk_objs [0; 1; 5; 6; 2; 7] [1; 2; 7; 3; 8], [], 7%nat).
Proof. vm_compute. auto. Qed.

(** the whole session: two negotiation rounds, seven packfiles; the region of want 7 at depth 2 is {7, 2, 6},
    none of it stored before; their tables 8, 3, 7 are stored afterwards, the table 6 of commit 5 (beyond
    the depth) is not - the conclusion is not trivially true *)
Example b4_fetch :
  cs_fetch_objects ClosedSets.isort_time (ClosedSets.ord_of 0) b4_g b4_local b4_remote [7] 2 1 1 false
    = FDone (mk_objs [0; 1; 5; 6; 2; 7] [1; 2; 7; 3; 8]) 2 7 /\
  region b4_g 2 7 = [7; 2; 6] /\
  map (ctbl b4_g) (region b4_g 2 7) = [8; 3; 7] /\ ctbl b4_g 5 = 6 /\
  fetch_objects b4_g b4_local b4_remote [7] 2 1 1 false
    = FDone (mk_objs [0; 1; 2; 5; 6; 7] [1; 2; 3; 7; 8]) 2 7.
Proof. vm_compute. auto. Qed.

(** delivery: negotiation and NewObjectSender succeed on this instance *)
Example b4_negotiated :
  exists f,
    cs_negotiate ClosedSets.isort_time (ClosedSets.ord_of 0) b4_g (r_objs b4_local)
                 (store_of b4_g (r_objs b4_remote)) (ref_values (r_refs b4_remote)) [7] 1 (S (length b4_g))
                 (Session.q_new b4_g (ref_values (r_refs b4_local))) (ClosedSets.new_finder 2) []
      = Some (f, b4_rounds) /\
    cs_send (ClosedSets.ord_of 0) (store_of b4_g (r_objs b4_remote)) f [] = Some b4_stream.
Proof. eexists. vm_compute. split; reflexivity. Qed.

(** two wants, full fetch and depth 1, on Session's witness history 0 <- 1 <- 2 (tables 1,2,3): refs on 2
    and on 1, the client has nothing *)
Definition b4_wo_local : repo := mk_repo (mk_objs [] []) [].
Definition b4_wo_remote : repo :=
  mk_repo (mk_objs [0; 1; 2] [1; 2; 3])
          (rset_log (rset_log [] ex_main 2 ACT_SETUP) (s_heads ++ [110]) 1 ACT_SETUP).

Example b4_wo_hyps :
  GAcyclic wo_g /\ Closed wo_g (o_commits (r_objs b4_wo_remote)) /\ Closed wo_g (o_commits (r_objs b4_wo_local)) /\
  RefsStored (r_objs b4_wo_local) (r_refs b4_wo_local) /\
  (forall c, In c (o_commits (r_objs b4_wo_remote)) -> In (ctbl wo_g c) (o_tables (r_objs b4_wo_remote))).
Proof.
  split; [apply gacyclicb_ok; vm_compute; reflexivity|].
  split; [apply closedb_ok; vm_compute; reflexivity|].
  split; [apply closedb_ok; vm_compute; reflexivity|].
  split; [apply refs_storedb_ok; vm_compute; reflexivity|].
  apply sender_allb_ok. vm_compute. reflexivity.
Qed.

(** depth 0: both processing orders deliver every table *)
Example b4_wo_depth0 :
  cs_fetch_objects ClosedSets.isort_time (ClosedSets.ord_of 0) wo_g b4_wo_local b4_wo_remote [2; 1] 0 256 2000 false
    = FDone (mk_objs [0; 1; 2] [1; 2; 3]) 1 1 /\
  cs_fetch_objects ClosedSets.isort_time (ClosedSets.ord_of 1) wo_g b4_wo_local b4_wo_remote [2; 1] 0 256 2000 false
    = FDone (mk_objs [0; 1; 2] [1; 2; 3]) 1 1.
Proof. vm_compute. auto. Qed.

(** depth 1, two wants: the known finding survives the composition.  Walking want 2 first the session
    succeeds and want 1 - a ref tip, in its own region - is left without its table 2; walking want 1 first
    both tables arrive. *)
Lemma depth_two_wants_refuted :
  cs_fetch_objects ClosedSets.isort_time (ClosedSets.ord_of 0) wo_g b4_wo_local b4_wo_remote [2; 1] 1 256 2000 false
    = FDone (mk_objs [0; 1; 2] [3]) 1 1 /\
  cs_fetch_objects ClosedSets.isort_time (ClosedSets.ord_of 1) wo_g b4_wo_local b4_wo_remote [2; 1] 1 256 2000 false
    = FDone (mk_objs [0; 1; 2] [2; 3]) 1 1 /\
  In 1 (region wo_g 1 1) /\ ~ In 1 (o_commits (r_objs b4_wo_local)) /\ ~ In (ctbl wo_g 1) [3].
Proof.
  split; [vm_compute; reflexivity|]. split; [vm_compute; reflexivity|].
  split; [vm_compute; auto|]. split; [intros []|].
  vm_compute. intros [H|[]]. discriminate.
Qed.
