(** (i) prune.childrenFirst: translated body (gen/ExtractedCode.v) = [children_first] of
    model/Prune.v and = [children_first] of model/Crash.v (hence the two models agree).
    objects.GetCommit is the program's oracle: [par sum] = the parents of the stored commit
    [sum], [None] when GetCommit returns an error.

    Layers:  translated code  =  [cf_M (wrap (IS 64))]   (symbolic execution, no arithmetic)
             [cf_M (wrap (IS 64))] = [cf_M id]            (counters stay far below 2^63)
             [cf_M id] = Prune.children_first = Crash.children_first   (GoCode_ChildrenFirstModels_proofs.v) *)
From Coq Require Import List ZArith NArith Bool String Lia Arith.
From W.lib Require Import Tree Bytes GoLang.
From W.proofs Require Import GoLang_proofs.
From W.gen Require Import ExtractedCode.
Import ListNotations.
Local Open Scope Z_scope.

(** * the Go function as a list program over association lists *)
Fixpoint afind {A} (k : bytes) (m : list (bytes * A)) : option A :=
  match m with
  | [] => None
  | (k', v) :: m' => if beqb k' k then Some v else afind k m'
  end.
Definition getz (m : list (bytes * Z)) (k : bytes) : Z := match afind k m with Some z => z | None => 0 end.
Definition getl (m : list (bytes * list bytes)) (k : bytes) : list bytes :=
  match afind k m with Some l => l | None => [] end.
Definition has (m : list (bytes * unit)) (k : bytes) : bool :=
  match afind k m with Some _ => true | None => false end.

Section M.
  Variable w : Z -> Z.                              (* int arithmetic: [wrap (IS 64)] or the identity *)
  Variable par : bytes -> option (list bytes).      (* objects.GetCommit(db, sum).Parents *)

  Definition pmap := list (bytes * Z).
  Definition lmap := list (bytes * list bytes).

  Definition rm_of (sums : list bytes) : list (bytes * unit) :=
    fold_left (fun m s => (s, tt) :: m) sums [].

  Fixpoint cf_inner (rm : list (bytes * unit)) (sum : bytes) (ps : list bytes) (st : pmap * lmap)
    : pmap * lmap :=
    match ps with
    | [] => st
    | p :: ps' =>
        cf_inner rm sum ps'
          (if has rm p
           then ((p, w (getz (fst st) p + 1)) :: fst st, (sum, getl (snd st) sum ++ [p]) :: snd st)
           else st)
    end.

  Definition cf_build1 (rm : list (bytes * unit)) (st : pmap * lmap) (sum : bytes) : pmap * lmap :=
    match par sum with
    | None => st
    | Some ps => cf_inner rm sum ps st
    end.
  Definition cf_build (rm : list (bytes * unit)) (sums : list bytes) : pmap * lmap :=
    fold_left (cf_build1 rm) sums ([], []).

  Definition cf_queue1 (pend : pmap) (q : list bytes) (s : bytes) : list bytes :=
    if getz pend s =? 0 then q ++ [s] else q.
  Definition cf_queue0 (pend : pmap) (sums : list bytes) : list bytes :=
    fold_left (cf_queue1 pend) sums [].

  Fixpoint cf_dec (ps : list bytes) (st : pmap * list bytes) : pmap * list bytes :=
    match ps with
    | [] => st
    | p :: ps' =>
        let pend' := (p, w (getz (fst st) p - 1)) :: fst st in
        cf_dec ps' (pend', if getz pend' p =? 0 then snd st ++ [p] else snd st)
    end.

  Fixpoint cf_loop (fuel : nat) (pars : lmap) (pend : pmap) (q res : list bytes)
    : option (list bytes * pmap) :=
    match fuel with
    | O => None
    | S f =>
        match q with
        | [] => Some (res, pend)
        | s :: q' =>
            let st := cf_dec (getl pars s) (pend, q') in
            cf_loop f pars (fst st) (snd st) (res ++ [s])
        end
    end.

  Definition cf_M (fuel : nat) (sums : list bytes) : option (list bytes * pmap) :=
    let rm := rm_of sums in
    let st := cf_build rm sums in
    cf_loop fuel (snd st) (fst st) (cf_queue0 (fst st) sums) [].
End M.

(** * value encodings of the maps *)
Definition v_rm (m : list (bytes * unit)) : value := VMap (map (fun e => (fst e, VNil)) m).
Definition v_pend (m : pmap) : value := VMap (map (fun e => (fst e, VInt (snd e))) m).
Definition v_pars (m : lmap) : value := VMap (map (fun e => (fst e, VList (map VStr (snd e)))) m).

Lemma map_find_map {A} (f : A -> value) k (m : list (bytes * A)) :
  map_find k (map (fun e => (fst e, f (snd e))) m) = option_map f (afind k m).
Proof.
  induction m as [|[k' a] m IH]; [reflexivity|]. cbn [map map_find afind fst snd].
  destruct (beqb k' k); [reflexivity|exact IH].
Qed.

Lemma find_rm k m : map_find k (map (fun e : bytes * unit => (fst e, VNil)) m) = option_map (fun _ => VNil) (afind k m).
Proof. exact (map_find_map (fun _ : unit => VNil) k m). Qed.
Lemma find_pend k m : map_find k (map (fun e : bytes * Z => (fst e, VInt (snd e))) m) = option_map VInt (afind k m).
Proof. exact (map_find_map VInt k m). Qed.
Lemma find_pars k m :
  map_find k (map (fun e : bytes * list bytes => (fst e, VList (map VStr (snd e)))) m)
  = option_map (fun l => VList (map VStr l)) (afind k m).
Proof. exact (map_find_map (fun l => VList (map VStr l)) k m). Qed.

Lemma get_pend k m :
  match map_find k (map (fun e : bytes * Z => (fst e, VInt (snd e))) m) with Some v => v | None => VInt 0 end
  = VInt (getz m k).
Proof. rewrite find_pend. unfold getz. destruct (afind k m); reflexivity. Qed.
Lemma get_pars k m :
  match map_find k (map (fun e : bytes * list bytes => (fst e, VList (map VStr (snd e)))) m) with
  | Some v => v | None => VList [] end
  = VList (map VStr (getl m k)).
Proof. rewrite find_pars. unfold getl. destruct (afind k m); reflexivity. Qed.
Lemma has_rm k m :
  match map_find k (map (fun e : bytes * unit => (fst e, VNil)) m) with Some _ => true | None => false end
  = has m k.
Proof. rewrite find_rm. unfold has. destruct (afind k m); reflexivity. Qed.

(** the oracle: GetCommit(db, sum) = (&Commit{Parents: par sum}, nil) or (nil, err) *)
Definition cf_oracle (par : bytes -> option (list bytes)) (name : string) (args : list value)
  : option (list value) :=
  if String.eqb name "objects.GetCommit" then
    match args with
    | [VStr sum] =>
        Some (match par sum with
              | Some ps => [VList [VList (map VStr ps)]; VNil]
              | None => [VNil; VErr]
              end)
    | _ => None
    end
  else None.

(** * the translated code computes [cf_M (wrap (IS 64))] *)
Lemma get_pend_cons k k' z m :
  match map_find k ((k', VInt z) :: map (fun e : bytes * Z => (fst e, VInt (snd e))) m) with
  | Some v => v | None => VInt 0 end
  = VInt (getz ((k', z) :: m) k).
Proof. exact (get_pend k ((k', z) :: m)). Qed.

Ltac norm_extra ::=
  first [ rewrite get_pend_cons | rewrite get_pend | rewrite get_pars | rewrite has_rm ].

Lemma map_VStr_snoc l p : map VStr l ++ [VStr p] = map VStr (l ++ [p]).
Proof. now rewrite map_app. Qed.

Lemma ltb_0_S n : (0 <? Z.of_nat (S n)) = true.
Proof. apply Z.ltb_lt. lia. Qed.

Section Code.
  Variable par : bytes -> option (list bytes).
  Notation w := (wrap (IS 64)).
  Notation P := (with_oracle go_prog (cf_oracle par)).

  (* the environment of go_childrenFirst *)
  Definition cfenv (sums : list bytes) (vrm v3 vpend vpars v6 v7 v8 v9 v10 vres vq v13 v14 v15 : value) : env :=
    [VNil; VList (map VStr sums); vrm; v3; vpend; vpars; v6; v7; v8; v9; v10; vres; vq; v13; v14; v15].

  Lemma go_childrenFirst_M sums fuel r pendF :
    cf_M w par fuel sums = Some (r, pendF) ->
    exists fuel', run_func fuel' P go_childrenFirst [VNil; v_strs sums] = FOk [v_strs r] [].
  Proof.
    intros HM. unfold cf_M in HM.
    set (rm := rm_of sums) in *.
    set (st := cf_build w par rm sums) in *.
    set (pend0 := fst st) in *. set (pars := snd st) in *.
    start_func go_childrenFirst. unfold v_strs.
    straight.
    (* toRemove[string(sum)] = struct{}{} *)
    eapply (wp_seq_inv _ _ _ _
              (fun e1 => exists v3, e1 = cfenv sums (v_rm rm) v3 VUnset VUnset VUnset VUnset VUnset VUnset VUnset VUnset VUnset VUnset VUnset VUnset)).
    { stepn.
      eapply (wp_items_inv _ _ _ _ _ _
                (fun n e => exists v3, e = cfenv sums (v_rm (fold_left (fun m s => (s, tt) :: m) (firstn n sums) []))
                                          v3 VUnset VUnset VUnset VUnset VUnset VUnset VUnset VUnset VUnset VUnset VUnset VUnset)).
      - exists VUnset. reflexivity.
      - intros n e x (v3 & ->) Hx.
        apply (nth_error_map_inv VStr sums n x []) in Hx. destruct Hx as [Hn ->].
        unfold cfenv, v_rm. ev. stepsn.
        exists (VStr (nth n sums [])). rewrite (firstn_S_nth sums n []) by exact Hn.
        rewrite fold_left_app. reflexivity.
      - intros e (v3 & ->). rewrite length_map_VStr, firstn_all. exists v3. reflexivity. }
    intros e1 (v3 & ->). unfold cfenv. straight.
    (* pendingChildren / parents *)
    eapply (wp_seq_inv _ _ _ _
              (fun e1 => exists v6 v7 v8 v9 v10,
                 e1 = cfenv sums (v_rm rm) v3 (v_pend pend0) (v_pars pars) v6 v7 v8 v9 v10 VUnset VUnset VUnset VUnset VUnset)).
    { stepn.
      eapply (wp_items_inv _ _ _ _ _ _
                (fun n e => exists v6 v7 v8 v9 v10,
                   e = cfenv sums (v_rm rm) v3
                             (v_pend (fst (fold_left (cf_build1 w par rm) (firstn n sums) ([], []))))
                             (v_pars (snd (fold_left (cf_build1 w par rm) (firstn n sums) ([], []))))
                             v6 v7 v8 v9 v10 VUnset VUnset VUnset VUnset VUnset)).
      - exists VUnset, VUnset, VUnset, VUnset, VUnset. reflexivity.
      - intros n e x (v6 & v7 & v8 & v9 & v10 & ->) Hx.
        apply (nth_error_map_inv VStr sums n x []) in Hx. destruct Hx as [Hn ->].
        rewrite (firstn_S_nth sums n []) by exact Hn. rewrite fold_left_app. cbn [fold_left].
        set (s := nth n sums []).
        set (st0 := fold_left (cf_build1 w par rm) (firstn n sums) ([], [])).
        unfold cf_build1 at 1 2. unfold cfenv, v_rm, v_pend, v_pars. ev.
        stepn. stepn.
        { unfold cf_oracle. cbn [String.eqb Ascii.eqb Bool.eqb]. reflexivity. }
        destruct (par s) as [ps|].
        2:{ (* GetCommit failed: continue *) stepsn. eexists _, _, _, _, _. reflexivity. }
        stepsn.
        eapply (wp_items_inv _ _ _ _ _ _
                  (fun i e => exists sti v9 v10,
                     e = cfenv sums (v_rm rm) v3 (v_pend (fst sti)) (v_pars (snd sti)) (VStr s)
                               (VList [VList (map VStr ps)]) VNil v9 v10 VUnset VUnset VUnset VUnset VUnset
                     /\ cf_inner w rm s ps st0 = cf_inner w rm s (skipn i ps) sti)).
        + exists st0, v9, v10. split; reflexivity.
        + intros i e x (sti & v9' & v10' & -> & HI) Hx.
          apply (nth_error_map_inv VStr ps i x []) in Hx. destruct Hx as [Hi ->].
          rewrite (skipn_nth_cons ps i []) in HI by exact Hi. cbn [cf_inner] in HI.
          unfold cfenv, v_rm, v_pend, v_pars. ev. stepsn.
          destruct (has rm (nth i ps [])) eqn:Hh.
          * stepsn. rewrite map_VStr_snoc.
            match type of HI with _ = cf_inner _ _ _ _ ?st' => exists st' end.
            eexists _, _. split; [reflexivity|]. exact HI.
          * stepsn. eexists sti, _, _. split; [reflexivity|]. exact HI.
        + intros e (sti & v9' & v10' & -> & HI).
          rewrite length_map_VStr, skipn_all in HI. cbn [cf_inner] in HI. rewrite HI.
          eexists _, _, _, _, _. reflexivity.
      - intros e (v6 & v7 & v8 & v9 & v10 & ->). rewrite length_map_VStr, firstn_all.
        eexists _, _, _, _, _. reflexivity. }
    intros e1 (v6 & v7 & v8 & v9 & v10 & ->). unfold cfenv. straight.
    (* the initial queue *)
    eapply (wp_seq_inv _ _ _ _
              (fun e1 => exists v13,
                 e1 = cfenv sums (v_rm rm) v3 (v_pend pend0) (v_pars pars) v6 v7 v8 v9 v10 (VList [])
                            (VList (map VStr (cf_queue0 pend0 sums))) v13 VUnset VUnset)).
    { stepn.
      eapply (wp_items_inv _ _ _ _ _ _
                (fun n e => exists v13,
                   e = cfenv sums (v_rm rm) v3 (v_pend pend0) (v_pars pars) v6 v7 v8 v9 v10 (VList [])
                             (VList (map VStr (fold_left (cf_queue1 pend0) (firstn n sums) []))) v13 VUnset VUnset)).
      - exists VUnset. reflexivity.
      - intros n e x (v13 & ->) Hx.
        apply (nth_error_map_inv VStr sums n x []) in Hx. destruct Hx as [Hn ->].
        rewrite (firstn_S_nth sums n []) by exact Hn. rewrite fold_left_app. cbn [fold_left].
        unfold cfenv, v_rm, v_pend, v_pars. ev. stepn.
        destruct (getz pend0 (nth n sums []) =? 0) eqn:Hc.
        + stepsn. rewrite map_VStr_snoc. eexists. unfold cf_queue1. rewrite Hc. reflexivity.
        + stepsn. eexists. unfold cf_queue1. rewrite Hc. reflexivity.
      - intros e (v13 & ->). rewrite length_map_VStr, firstn_all. exists v13. reflexivity. }
    intros e1 (v13 & ->). fold (cf_queue0 pend0 sums) in HM. unfold cfenv.
    (* for len(queue) > 0 *)
    stepn.
    lazymatch goal with |- wp ?p (SFor ?id ?c ?post ?body) _ _ =>
      assert (LOOP : forall (Q : outcome -> Prop) f pend q res v14 v15,
        cf_loop w f pars pend q res = Some (r, pendF) ->
        (forall pend' v14' v15',
            Q (ONormal (cfenv sums (v_rm rm) v3 (v_pend pend') (v_pars pars) v6 v7 v8 v9 v10
                              (VList (map VStr r)) (VList []) v13 v14' v15'))) ->
        wp p (SFor id c post body)
           (cfenv sums (v_rm rm) v3 (v_pend pend) (v_pars pars) v6 v7 v8 v9 v10
                  (VList (map VStr res)) (VList (map VStr q)) v13 v14 v15) Q)
    end.
    { intros Q. induction f as [|f IH]; intros pend q res v14 v15 HL HQ; [discriminate|].
      cbn [cf_loop] in HL. unfold cfenv, v_rm, v_pend, v_pars.
      eapply wp_for; [evn; reflexivity|].
      destruct q as [|s q'].
      - change (0 <? Z.of_nat (length (@nil bytes))) with false. cbv iota.
        inversion HL; subst. apply HQ.
      - cbn [length]. rewrite ltb_0_S.
        stepsn. cbn [skipn]. rewrite map_VStr_snoc.
        eapply (wp_items_inv _ _ _ _ _ _
                  (fun i e => exists std v15',
                     e = cfenv sums (v_rm rm) v3 (v_pend (fst std)) (v_pars pars) v6 v7 v8 v9 v10
                               (VList (map VStr (res ++ [s]))) (VList (map VStr (snd std))) v13 (VStr s) v15'
                     /\ cf_dec w (getl pars s) (pend, q') = cf_dec w (skipn i (getl pars s)) std)).
        + exists (pend, q'), v15. split; reflexivity.
        + intros i e x (std & v15' & -> & HD) Hx.
          apply (nth_error_map_inv VStr (getl pars s) i x []) in Hx. destruct Hx as [Hi ->].
          rewrite (skipn_nth_cons (getl pars s) i []) in HD by exact Hi. cbn [cf_dec] in HD.
          unfold cfenv, v_rm, v_pend, v_pars. ev. stepsn.
          match goal with |- wp _ (if ?c then _ else _) _ _ => destruct c end.
          * stepsn. rewrite map_VStr_snoc.
            match type of HD with _ = cf_dec _ _ ?st' => exists st' end.
            eexists. split; [reflexivity|]. exact HD.
          * stepsn.
            match type of HD with _ = cf_dec _ _ ?st' => exists st' end.
            eexists. split; [reflexivity|]. exact HD.
        + intros e (std & v15' & -> & HD).
          rewrite length_map_VStr, skipn_all in HD. cbn [cf_dec] in HD. rewrite HD in HL.
          ev. stepsn. apply (IH _ _ _ _ _ HL HQ). }
    eapply (LOOP _ _ _ _ [] _ _ HM).
    intros pend' v14' v15'. unfold cfenv. stepsn. reflexivity.
  Qed.
End Code.
