(** (e) objects.ValidateStrListBytes and objects.ValidateBlockBytes: translated bodies
    (gen/ExtractedCode.v) = [validate_strlist] / [validate_block] of model/DecLists.v, and the
    translated code never panics. *)
From Coq Require Import List ZArith NArith Bool String Lia Arith.
From W.lib Require Import Tree Bytes GoSlice GoLang.
From W.proofs Require Import GoLang_proofs CodecBase_proofs DecLists_proofs.
From W.gen Require Import ExtractedCode.
From W.model Require Import DecLists.
Import ListNotations.
Local Open Scope Z_scope.

(** how a [res nat] of the model shows as the (int, error) pair of the Go function *)
Definition enc_int_err (r : res nat) : fres :=
  match r with
  | Ok m => FOk [v_nat m; VNil] []
  | Err _ => FOk [VInt 0; VErr] []
  | Panic => FPanic
  end.

Lemma unbe_firstn_lt (b : bytes) w : wf_bytes b -> (unbe (firstn w b) < 256 ^ N.of_nat w)%N.
Proof.
  intros H. assert (W : wf_bytes (firstn w b)).
  { unfold wf_bytes in *. rewrite Forall_forall in *. intros x Hx. apply H.
    rewrite <- (firstn_skipn w b). apply in_or_app. now left. }
  pose proof (unbe_lt _ W) as L. pose proof (firstn_le_length w b) as L2.
  eapply N.lt_le_trans; [exact L|]. apply N.pow_le_mono_r; lia.
Qed.

Lemma ZofN_ltb a b : (Z.of_N a <? Z.of_N b) = (a <? b)%N.
Proof. destruct (Z.ltb_spec (Z.of_N a) (Z.of_N b)), (N.ltb_spec a b); try reflexivity; lia. Qed.

Lemma wf_bytes_skipn (b : bytes) n : wf_bytes b -> wf_bytes (skipn n b).
Proof.
  unfold wf_bytes. rewrite !Forall_forall. intros H x Hx. apply H.
  rewrite <- (firstn_skipn n b). apply in_or_app. now right.
Qed.

Lemma go_ValidateStrListBytes_model (b : bytes) :
  wf_bytes b -> Z.of_nat (length b) < 2 ^ 62 ->
  exists fuel, run_func fuel go_prog go_ValidateStrListBytes [VStr b] = enc_int_err (validate_strlist b).
Proof.
  intros WF Hlen.
  start_func go_ValidateStrListBytes.
  unfold validate_strlist, validate_strlist_gen. cbn [andb].
  stepsn.
  assert (E4 : (Z.of_nat (length b) <? 4) = (length b <? 4)%nat).
  { destruct (Z.ltb_spec (Z.of_nat (length b)) 4), (Nat.ltb_spec (length b) 4); try reflexivity; lia. }
  rewrite E4. destruct (Nat.ltb_spec (length b) 4) as [L4|L4].
  { stepsn. reflexivity. }
  unfold be_u32. rewrite be_uint_len_ok by lia.
  set (count := unbe (firstn 4 b)).
  assert (Hcount : (count < 2 ^ 32)%N) by (apply (unbe_firstn_lt b 4 WF)).
  stepsn.
  (* the loop, by induction on the model's fuel *)
  lazymatch goal with |- wp ?p (SFor ?id ?c ?post ?body) _ _ =>
    assert (LOOP : forall (Q : outcome -> Prop) f i off vl,
      (off <= length b)%nat -> (length b - off < f)%nat -> (i <= count)%N ->
      (forall m vi' vl', validate_strlist_loop true f b count i off = Ok m ->
          Q (ONormal [VStr b; VInt (Z.of_nat (length b)); VInt (Z.of_N count); VInt (Z.of_nat m); vi'; vl'])) ->
      (forall err e', validate_strlist_loop true f b count i off = Err err ->
          Q (OReturn [VInt 0; VErr] e')) ->
      wp p (SFor id c post body)
         [VStr b; VInt (Z.of_nat (length b)); VInt (Z.of_N count); VInt (Z.of_nat off); VInt (Z.of_N i); vl] Q)
  end.
  { intros Q. induction f as [|f IH]; intros i off vl Ho Hf Hi HOk HErr; [lia|].
    cbn [validate_strlist_loop andb] in HOk, HErr.
    eapply wp_for; [evn; reflexivity|]. rewrite ZofN_ltb.
    destruct (N.ltb_spec i count) as [Lt|Ge]; [|now apply HOk].
    stepsn.
    assert (E2 : (Z.of_nat (length b) <? Z.of_nat off + 2) = (length b <? off + 2)%nat).
    { destruct (Z.ltb_spec (Z.of_nat (length b)) (Z.of_nat off + 2)), (Nat.ltb_spec (length b) (off + 2)); try reflexivity; lia. }
    rewrite E2. destruct (Nat.ltb_spec (length b) (off + 2)) as [L2|L2].
    { stepsn. now eapply HErr. }
    rewrite slice_from_ok in HOk, HErr by lia. cbn [rbind] in HOk, HErr. unfold be_u16 in HOk, HErr.
    rewrite be_uint_len_ok in HOk, HErr by (rewrite skipn_length; lia).
    set (l := unbe (firstn 2 (skipn off b))) in *.
    assert (Hl : (l < 2 ^ 16)%N) by (apply (unbe_firstn_lt (skipn off b) 2), wf_bytes_skipn, WF).
    stepsn. fold l. unwrap.
    match goal with
    | |- context [VInt (Z.of_nat off + ?t)] =>
        replace (Z.of_nat off + t) with (Z.of_nat (off + 2 + N.to_nat l)) by lia
    end.
    assert (E3 : (Z.of_nat (length b) <? Z.of_nat (off + 2 + N.to_nat l)) = (length b <? off + 2 + N.to_nat l)%nat).
    { destruct (Z.ltb_spec (Z.of_nat (length b)) (Z.of_nat (off + 2 + N.to_nat l))),
        (Nat.ltb_spec (length b) (off + 2 + N.to_nat l)); try reflexivity; lia. }
    rewrite E3. destruct (Nat.ltb_spec (length b) (off + 2 + N.to_nat l)) as [L3|L3].
    { stepsn. now eapply HErr. }
    stepsn.
    replace (Z.of_N i + 1) with (Z.of_N (i + 1)) by lia.
    apply IH; auto; lia. }
  apply (LOOP _ (S (length b)) 0%N 4%nat VUnset); [lia|lia|lia| |].
  - intros m vi' vl' Hm. stepsn. rewrite Hm. reflexivity.
  - intros err e' He. ev. rewrite He. reflexivity.
Qed.

Definition enc_err (r : res unit) : fres :=
  match r with
  | Ok _ => FOk [VNil] []
  | Err _ => FOk [VErr] []
  | Panic => FPanic
  end.

Lemma go_ValidateBlockBytes_model (b : bytes) :
  wf_bytes b -> Z.of_nat (length b) < 2 ^ 62 ->
  exists fuel, run_func fuel go_prog go_ValidateBlockBytes [VStr b] = enc_err (validate_block b).
Proof.
  intros WF Hlen.
  start_func go_ValidateBlockBytes.
  unfold validate_block, validate_block_gen. cbn [andb].
  stepsn.
  assert (E4 : (Z.of_nat (length b) <? 4) = (length b <? 4)%nat).
  { destruct (Z.ltb_spec (Z.of_nat (length b)) 4), (Nat.ltb_spec (length b) 4); try reflexivity; lia. }
  rewrite E4. destruct (Nat.ltb_spec (length b) 4) as [L4|L4].
  { stepsn. reflexivity. }
  unfold be_u32. rewrite be_uint_len_ok by lia.
  set (n := unbe (firstn 4 b)).
  assert (Hn : (n < 2 ^ 32)%N) by (apply (unbe_firstn_lt b 4 WF)).
  stepsn.
  lazymatch goal with |- wp ?p (SFor ?id ?c ?post ?body) _ _ =>
    assert (LOOP : forall (Q : outcome -> Prop) f i off vm verr,
      (off <= length b)%nat -> (length b - off < f)%nat -> (i <= n)%N ->
      (forall voff' vi' vm' verr', validate_block_loop true f b n i off = Ok tt ->
          Q (ONormal [VStr b; VNil; voff'; VInt (Z.of_N n); vi'; vm'; verr'])) ->
      (forall err e', validate_block_loop true f b n i off = Err err ->
          Q (OReturn [VErr] e')) ->
      wp p (SFor id c post body)
         [VStr b; VNil; VInt (Z.of_nat off); VInt (Z.of_N n); VInt (Z.of_N i); vm; verr] Q)
  end.
  { intros Q. induction f as [|f IH]; intros i off vm verr Ho Hf Hi HOk HErr; [lia|].
    cbn [validate_block_loop] in HOk, HErr.
    eapply wp_for; [evn; reflexivity|]. rewrite ZofN_ltb.
    destruct (N.ltb_spec i n) as [Lt|Ge]; [|now apply HOk].
    rewrite slice_from_ok in HOk, HErr by lia. cbn [rbind] in HOk, HErr.
    change (validate_strlist_gen true (skipn off b)) with (validate_strlist (skipn off b)) in HOk, HErr.
    pose proof (validate_strlist_ok (skipn off b)) as Hv.
    destruct (go_ValidateStrListBytes_model (skipn off b)) as [fuel Hrun];
      [now apply wf_bytes_skipn|rewrite skipn_length; lia|].
    destruct (validate_strlist (skipn off b)) as [m|e|]; cbn [enc_int_err vres_ok] in Hrun, Hv; [| |contradiction];
      rewrite ?skipn_length in Hv.
    - stepn. step_call (ex_intro (fun fuel => _ = _) fuel Hrun).
      stepsn. replace (Z.of_nat off + Z.of_nat m) with (Z.of_nat (off + m)) by lia.
      replace (Z.of_N i + 1) with (Z.of_N (i + 1)) by lia.
      apply IH; auto; lia.
    - stepn. step_call (ex_intro (fun fuel => _ = _) fuel Hrun).
      stepsn. now eapply HErr. }
  apply (LOOP _ (S (length b)) 0%N 4%nat VUnset VUnset); [lia|lia|lia| |].
  - intros voff' vi' vm' verr' Hm. stepsn. rewrite Hm. reflexivity.
  - intros err e' He. ev. rewrite He. reflexivity.
Qed.

(** the translated validators never panic (for any byte string) *)
Lemma go_ValidateStrListBytes_no_panic (b : bytes) :
  wf_bytes b -> Z.of_nat (length b) < 2 ^ 62 ->
  exists fuel rets, run_func fuel go_prog go_ValidateStrListBytes [VStr b] = FOk rets [].
Proof.
  intros WF Hlen. destruct (go_ValidateStrListBytes_model b WF Hlen) as [fuel H].
  pose proof (validate_strlist_ok b) as Hv.
  destruct (validate_strlist b); cbn in *; [eauto|eauto|contradiction].
Qed.

Lemma go_ValidateBlockBytes_no_panic (b : bytes) :
  wf_bytes b -> Z.of_nat (length b) < 2 ^ 62 ->
  exists fuel rets, run_func fuel go_prog go_ValidateBlockBytes [VStr b] = FOk rets [].
Proof.
  intros WF Hlen. destruct (go_ValidateBlockBytes_model b WF Hlen) as [fuel H].
  destruct (validate_block_total b) as [Hp _].
  destruct (validate_block b); cbn in *; [eauto|eauto|congruence].
Qed.
