(** Proofs for C05, part 1: the resolver's column loop (any number of layers). *)
From W.lib Require Import Tree Bytes GoSlice.
From W.model Require Import ColDiff Merge MergeSpec.
From Coq Require Import Arith Lia Bool List.
Import ListNotations.

Lemma beqb_eq a b : beqb a b = true <-> a = b.
Proof. unfold beqb. destruct (bcmp a b) eqn:E; split; try discriminate; intros H.
  - now apply bcmp_eq. - reflexivity.
  - subst. now rewrite bcmp_refl in E. - subst. now rewrite bcmp_refl in E. Qed.
Lemma beqb_refl a : beqb a a = true. Proof. now apply beqb_eq. Qed.
Lemma beqb_neq a b : beqb a b = false <-> a <> b.
Proof. rewrite <- beqb_eq. destruct (beqb a b); split; congruence. Qed.
Lemma keqb_eq a b : keqb a b = true <-> a = b.
Proof. unfold keqb. destruct (kcmp a b) eqn:E; split; try discriminate; intros H.
  - now apply kcmp_eq. - reflexivity.
  - subst. now rewrite kcmp_refl in E. - subst. now rewrite kcmp_refl in E. Qed.
Lemma keqb_refl a : keqb a a = true. Proof. now apply keqb_eq. Qed.

Lemma cst_eqb_eq a b : cst_eqb a b = true <-> a = b.
Proof. destruct a, b; cbn; split; try discriminate; try reflexivity; intros H.
  - f_equal. now apply beqb_eq. - injection H as ->. apply beqb_refl. Qed.
Lemma cst_eqb_refl a : cst_eqb a a = true. Proof. now apply cst_eqb_eq. Qed.
Lemma cst_eqb_neq a b : cst_eqb a b = false <-> a <> b.
Proof. rewrite <- cst_eqb_eq. destruct (cst_eqb a b); split; congruence. Qed.

(** ---- the inner loop as a machine over (added?, removed?, value) ---- *)
Definition kstep (bpres : bool) (bv : bytes) (st : cstate) (x : bool * bool * bytes) : cstate :=
  let '(ad, rm, v) := x in
  let unresolve := {| c_add := c_add st; c_mod := c_mod st; c_rem := c_rem st; c_res := bv; c_unres := true |} in
  let assign (a m : option bytes) (r : bool) :=
    {| c_add := a; c_mod := m; c_rem := r; c_res := v; c_unres := c_unres st |} in
  if ad then
    match c_add st with
    | None => assign (Some v) (c_mod st) (c_rem st)
    | Some a => if beqb a v then assign (c_add st) (c_mod st) (c_rem st) else unresolve
    end
  else match c_add st with
  | Some _ => st
  | None =>
    if rm then
      match c_mod st with
      | None => assign None None true
      | Some _ => unresolve
      end
    else if negb bpres || negb (beqb bv v) then
      if c_rem st then unresolve
      else match c_mod st with
           | None => assign None (Some v) (c_rem st)
           | Some m => if beqb m v then assign None (c_mod st) (c_rem st) else unresolve
           end
    else if c_rem st || is_some (c_mod st) then st
    else assign None None (c_rem st)
  end.

Definition base_cell (base_row : option row) (i : nat) : bytes :=
  match base_row with Some b => nth i b [] | None => [] end.

Lemma cell_step_kstep cd base_row i st lr :
  cell_step cd base_row i st lr =
  kstep (is_some base_row) (base_cell base_row i) st
        (in_added cd (fst lr) i, in_removed cd (fst lr) i, nth i (snd lr) []).
Proof. reflexivity. Qed.

Lemma resolve_cell_kstep cd base_row rem_layers rows i :
  resolve_cell cd base_row rem_layers rows i =
  fold_left (kstep (is_some base_row) (base_cell base_row i))
            (map (fun lr => (in_added cd (fst lr) i, in_removed cd (fst lr) i, nth i (snd lr) [])) rows)
            (cell_init cd base_row rem_layers i).
Proof.
  unfold resolve_cell. generalize (cell_init cd base_row rem_layers i) as st.
  induction rows as [|lr rows IH]; intros st; cbn [fold_left map]; [reflexivity|].
  rewrite IH. reflexivity.
Qed.

(** ---- algebra of [conflictb] / [spec_value] ---- *)
Lemma cst_eqb_sym a b : cst_eqb a b = cst_eqb b a.
Proof.
  destruct (cst_eqb a b) eqn:E.
  - apply cst_eqb_eq in E; subst. now rewrite cst_eqb_refl.
  - destruct (cst_eqb b a) eqn:E'; [|reflexivity]. apply cst_eqb_eq in E'; subst.
    now rewrite cst_eqb_refl in E.
Qed.

Definition clash (bst s : cst) (P : list cst) : bool :=
  changed bst s && existsb (fun s' => changed bst s' && negb (cst_eqb s' s)) P.

Lemma existsb_orb {A} (f g : A -> bool) l :
  existsb (fun x => f x || g x) l = existsb f l || existsb g l.
Proof. induction l as [|x l IH]; cbn; [reflexivity|]. rewrite IH.
  destruct (f x), (g x), (existsb f l), (existsb g l); reflexivity. Qed.

Lemma existsb_ext' {A} (f g : A -> bool) l : (forall x, f x = g x) -> existsb f l = existsb g l.
Proof. intros H. induction l as [|x l IH]; cbn; [reflexivity|]. now rewrite H, IH. Qed.

Lemma conflictb_snoc bst P s :
  conflictb bst (P ++ [s]) = conflictb bst P || clash bst s P.
Proof.
  unfold conflictb, clash.
  rewrite existsb_app. cbn [existsb]. rewrite orb_false_r.
  rewrite (existsb_ext' (fun s1 => existsb (fun s2 => changed bst s1 && changed bst s2 && negb (cst_eqb s1 s2)) (P ++ [s]))
                        (fun s1 => existsb (fun s2 => changed bst s1 && changed bst s2 && negb (cst_eqb s1 s2)) P
                                   || (changed bst s1 && changed bst s && negb (cst_eqb s1 s))) P).
  2:{ intros x. rewrite existsb_app. cbn [existsb]. now rewrite orb_false_r. }
  rewrite existsb_orb.
  rewrite existsb_app. cbn [existsb]. rewrite cst_eqb_refl. cbn [negb]. rewrite andb_false_r, !orb_false_r.
  assert (E1 : existsb (fun s1 => changed bst s1 && changed bst s && negb (cst_eqb s1 s)) P
               = changed bst s && existsb (fun s' => changed bst s' && negb (cst_eqb s' s)) P).
  { induction P as [|x P IH]; cbn; [now rewrite andb_false_r|]. rewrite IH.
    destruct (changed bst x), (changed bst s), (cst_eqb x s); cbn; try reflexivity. }
  assert (E2 : existsb (fun s2 => changed bst s && changed bst s2 && negb (cst_eqb s s2)) P
               = changed bst s && existsb (fun s' => changed bst s' && negb (cst_eqb s' s)) P).
  { rewrite <- E1. apply existsb_ext'. intros x. rewrite (cst_eqb_sym s x).
    destruct (changed bst x), (changed bst s); reflexivity. }
  rewrite E1, E2.
  generalize (existsb (fun s1 => existsb (fun s2 => changed bst s1 && changed bst s2 && negb (cst_eqb s1 s2)) P) P) as a.
  generalize (changed bst s && existsb (fun s' => changed bst s' && negb (cst_eqb s' s)) P) as b.
  intros [|] [|]; reflexivity.
Qed.

(** without conflict every change equals the first change *)
Lemma no_conflict_all_first bst P :
  conflictb bst P = false ->
  forall s, In s P -> changed bst s = true -> find (changed bst) P = Some s.
Proof.
  intros H s Hin Hc.
  destruct (find (changed bst) P) as [f|] eqn:Ef.
  - apply find_some in Ef as [Hf Hcf].
    destruct (cst_eqb f s) eqn:E; [apply cst_eqb_eq in E; now subst|].
    exfalso. unfold conflictb in H.
    assert (existsb (fun s1 => existsb (fun s2 => changed bst s1 && changed bst s2 && negb (cst_eqb s1 s2)) P) P = true).
    { apply existsb_exists. exists f. split; [assumption|]. apply existsb_exists. exists s. split; [assumption|].
      now rewrite Hcf, Hc, E. }
    congruence.
  - exfalso. apply (find_none _ _ Ef) in Hin. congruence.
Qed.

Lemma clash_false_first bst P s :
  conflictb bst P = false ->
  clash bst s P = (changed bst s && match find (changed bst) P with
                                    | Some f => negb (cst_eqb f s)
                                    | None => false
                                    end).
Proof.
  intros H. unfold clash. destruct (changed bst s); [cbn|reflexivity].
  destruct (find (changed bst) P) as [f|] eqn:Ef.
  - destruct (existsb _ P) eqn:E.
    + apply existsb_exists in E as (x & Hx & Hc). apply andb_true_iff in Hc as [Hc Hn].
      pose proof (no_conflict_all_first _ _ H x Hx Hc) as Hf. rewrite Ef in Hf. injection Hf as ->. now rewrite Hn.
    + apply find_some in Ef as [Hf Hcf].
      destruct (cst_eqb f s) eqn:E'; [reflexivity|]. exfalso.
      assert (existsb (fun s' => changed bst s' && negb (cst_eqb s' s)) P = true).
      { apply existsb_exists. exists f. split; [assumption|]. now rewrite Hcf, E'. }
      congruence.
  - destruct (existsb _ P) eqn:E; [|reflexivity].
    apply existsb_exists in E as (x & Hx & Hc). apply andb_true_iff in Hc as [Hc _].
    apply (find_none _ _ Ef) in Hx. congruence.
Qed.

Lemma find_snoc {A} (f : A -> bool) P s :
  find f (P ++ [s]) = match find f P with Some x => Some x | None => if f s then Some s else None end.
Proof. induction P as [|x P IH]; cbn; [reflexivity|]. destruct (f x); [reflexivity|apply IH]. Qed.

(** ---- the loop invariant ---- *)
Definition st_of (lc : bool * bytes) : cst := if fst lc then SVal (snd lc) else SNoCell.
Definition wf_lc (lc : bool * bytes) : Prop := fst lc = false -> snd lc = [].
Definition no_absent (P : list cst) : Prop := Forall (fun s => s <> SAbsent) P.

Lemma st_of_no_absent l : no_absent (map st_of l).
Proof. induction l as [|[h v] l IH]; constructor; [destruct h; cbn; discriminate|assumption]. Qed.

Definition first_change (bst : cst) (P : list cst) := find (changed bst) P.

(** column of the base: layers either lack it (removed) or carry a value *)
Section BaseColumn.
  Variables (bpres : bool) (bv : bytes) (r0 : bool).
  Hypothesis Hbv : bpres = false -> bv = [].
  Let bst := if bpres then SVal bv else SAbsent.
  Let tr (lc : bool * bytes) := (false, negb (fst lc), snd lc).

  Definition InvB (P : list cst) (st : cstate) : Prop :=
    c_add st = None /\ c_unres st = conflictb bst P /\
    (conflictb bst P = false ->
       c_rem st = match first_change bst P with Some SNoCell => true | _ => false end /\
       c_mod st = match first_change bst P with Some (SVal x) => Some x | _ => None end /\
       (r0 = false -> c_res st = render (spec_value bst P))).

  Lemma render_bst : render bst = bv.
  Proof. subst bst. destruct bpres; [reflexivity|]. now rewrite Hbv. Qed.

  Lemma changed_val v : changed bst (SVal v) = negb bpres || negb (beqb bv v).
  Proof.
    subst bst. unfold changed. destruct bpres; cbn; [|reflexivity].
    f_equal. destruct (beqb v bv) eqn:E.
    - apply beqb_eq in E; subst. now rewrite beqb_refl.
    - apply beqb_neq in E. symmetry. apply beqb_neq. congruence.
  Qed.
  Lemma changed_nocell : changed bst SNoCell = true.
  Proof. subst bst. unfold changed. now destruct bpres. Qed.

  Lemma InvB_step P st lc :
    no_absent P -> wf_lc lc -> InvB P st -> InvB (P ++ [st_of lc]) (kstep bpres bv st (tr lc)).
  Proof.
    intros Hna Hwf (Hadd & Hun & Hst).
    destruct lc as [has v]. unfold tr, st_of; cbn [fst snd].
    unfold InvB. rewrite conflictb_snoc.
    destruct (conflictb bst P) eqn:Ec.
    - (* already in conflict: the flag stays *)
      cbn [orb]. unfold kstep. rewrite Hadd.
      destruct has; cbn [negb].
      + destruct (negb bpres || negb (beqb bv v)).
        * destruct (c_rem st); [repeat split; try discriminate; assumption|].
          destruct (c_mod st) as [m|]; [destruct (beqb m v)|]; repeat split; try discriminate; try assumption.
        * destruct (c_rem st || is_some (c_mod st)); repeat split; try discriminate; assumption.
      + destruct (c_mod st); repeat split; try discriminate; assumption.
    - specialize (Hst eq_refl) as (Hrem & Hmod & Hres).
      cbn [orb]. rewrite (clash_false_first _ _ _ Ec).
      unfold first_change in *. rewrite find_snoc.
      unfold kstep. rewrite Hadd.
      destruct has; cbn [negb].
      + (* the layer has the column *)
        rewrite (changed_val v).
        destruct (negb bpres || negb (beqb bv v)) eqn:Ech; cbn [andb].
        * destruct (find (changed bst) P) as [f|] eqn:Ef.
          -- destruct f as [|x|].
             ++ rewrite Hrem. cbn. repeat split; try discriminate; assumption.
             ++ rewrite Hrem, Hmod. cbn [cst_eqb].
                destruct (beqb x v) eqn:Exv; cbn [negb].
                ** apply beqb_eq in Exv; subst x. split; [reflexivity|]. split; [assumption|].
                   intros _. split; [reflexivity|]. split; [reflexivity|].
                   intros _. cbn. unfold spec_value. rewrite find_snoc, Ef. reflexivity.
                ** repeat split; try discriminate; assumption.
             ++ exfalso. apply find_some in Ef as [Hin _].
                unfold no_absent in Hna. rewrite Forall_forall in Hna. now apply (Hna _ Hin).
          -- rewrite Hrem, Hmod. cbn. split; [reflexivity|]. split; [assumption|].
             intros _. try rewrite (changed_val v), Ech. split; [reflexivity|]. split; [reflexivity|].
             intros _. unfold spec_value. rewrite find_snoc, Ef, (changed_val v), Ech. reflexivity.
        * (* unchanged cell *)
          cbn [andb orb].
          assert (Ev : v = bv).
          { apply orb_false_iff in Ech as [_ E]. apply negb_false_iff in E. apply beqb_eq in E. congruence. }
          destruct (find (changed bst) P) as [f|] eqn:Ef.
          -- destruct f as [|x|].
             ++ rewrite Hrem. cbn [orb]. split; [assumption|]. split; [assumption|].
                intros _. split; [assumption|]. split; [assumption|].
                intros Hr. unfold spec_value. rewrite find_snoc, Ef.
                rewrite (Hres Hr). unfold spec_value. now rewrite Ef.
             ++ rewrite Hmod. cbn [is_some]. rewrite orb_true_r.
                split; [assumption|]. split; [assumption|].
                intros _. split; [assumption|]. split; [assumption|].
                intros Hr. unfold spec_value. rewrite find_snoc, Ef.
                rewrite (Hres Hr). unfold spec_value. now rewrite Ef.
             ++ exfalso. apply find_some in Ef as [Hin _].
                unfold no_absent in Hna. rewrite Forall_forall in Hna. now apply (Hna _ Hin).
          -- rewrite Hrem, Hmod. cbn. split; [reflexivity|]. split; [assumption|].
             intros _. try rewrite (changed_val v), Ech. split; [reflexivity|]. split; [reflexivity|].
             intros _. unfold spec_value. rewrite find_snoc, Ef, (changed_val v), Ech.
             rewrite render_bst. now subst v.
      + (* the layer removed the column *)
        rewrite changed_nocell. cbn [andb].
        assert (Ev : v = []) by (apply Hwf; reflexivity). subst v.
        destruct (find (changed bst) P) as [f|] eqn:Ef.
        * destruct f as [|x|].
          -- rewrite Hmod. cbn. split; [reflexivity|]. split; [assumption|].
             intros _. split; [reflexivity|]. split; [reflexivity|].
             intros _. unfold spec_value. rewrite find_snoc, Ef. reflexivity.
          -- rewrite Hmod. cbn. repeat split; try discriminate; assumption.
          -- exfalso. apply find_some in Ef as [Hin _].
             unfold no_absent in Hna. rewrite Forall_forall in Hna. now apply (Hna _ Hin).
        * rewrite Hmod. cbn. split; [reflexivity|]. split; [assumption|].
          intros _. try rewrite changed_nocell. split; [reflexivity|]. split; [reflexivity|].
          intros _. unfold spec_value. rewrite find_snoc, Ef, changed_nocell. reflexivity.
  Qed.

  Lemma InvB_fold l P st :
    no_absent P -> Forall wf_lc l -> InvB P st ->
    InvB (P ++ map st_of l) (fold_left (kstep bpres bv) (map tr l) st).
  Proof.
    revert P st. induction l as [|lc l IH]; intros P st Hna Hwf HI; cbn [map fold_left].
    - now rewrite app_nil_r.
    - inversion Hwf as [|? ? Hw Hwl]; subst.
      replace (P ++ st_of lc :: map st_of l) with ((P ++ [st_of lc]) ++ map st_of l)
        by (now rewrite <- app_assoc).
      apply IH; [|assumption|now apply InvB_step].
      apply Forall_app; split; [assumption|]. constructor; [|constructor].
      destruct lc as [[|] ?]; cbn; discriminate.
  Qed.

  (** initial state: [r0] = some layer removed the row (then the base has it) *)
  Lemma InvB_init :
    (r0 = true -> bpres = true) ->
    InvB (if r0 then [SNoCell] else [])
         {| c_add := None; c_mod := None; c_rem := r0; c_res := bv; c_unres := false |}.
  Proof.
    intros Hr. unfold InvB, first_change; cbn [c_add c_unres c_rem c_mod c_res].
    destruct r0.
    - cbn. rewrite changed_nocell. cbn. repeat split; try reflexivity. intros H'; discriminate H'.
    - cbn. repeat split; try reflexivity. intros _. unfold spec_value; cbn. now rewrite render_bst.
  Qed.
End BaseColumn.

(** column that the base lacks: layers either add it or lack it too *)
Section AddedColumn.
  Variable bpres : bool.
  Let tr (lc : bool * bytes) := (fst lc, false, snd lc).

  Definition InvA (P : list cst) (st : cstate) : Prop :=
    c_unres st = conflictb SNoCell P /\
    (conflictb SNoCell P = false ->
       c_add st = match first_change SNoCell P with Some (SVal x) => Some x | _ => None end /\
       c_res st = render (spec_value SNoCell P) /\
       (c_add st = None -> (c_mod st = None \/ c_mod st = Some []) /\ (c_rem st = true -> bpres = true))).

  Lemma InvA_step P st lc :
    no_absent P -> wf_lc lc -> InvA P st -> InvA (P ++ [st_of lc]) (kstep bpres [] st (tr lc)).
  Proof.
    intros Hna Hwf (Hun & Hst).
    destruct lc as [has v]. unfold tr, st_of; cbn [fst snd].
    unfold InvA. rewrite conflictb_snoc.
    destruct (conflictb SNoCell P) eqn:Ec.
    - cbn [orb]. unfold kstep.
      destruct has.
      + destruct (c_add st) as [a|]; [destruct (beqb a v)|]; repeat split; try discriminate; assumption.
      + destruct (c_add st) as [a|]; [repeat split; try discriminate; assumption|].
        destruct (negb bpres || negb (beqb [] v)).
        * destruct (c_rem st); [repeat split; try discriminate; assumption|].
          destruct (c_mod st) as [m|]; [destruct (beqb m v)|]; repeat split; try discriminate; assumption.
        * destruct (c_rem st || is_some (c_mod st)); repeat split; try discriminate; assumption.
    - specialize (Hst eq_refl) as (Hadd & Hres & Hmisc).
      cbn [orb]. rewrite (clash_false_first _ _ _ Ec).
      unfold first_change in *. unfold spec_value in *. rewrite find_snoc.
      assert (Hfind : forall f, find (changed SNoCell) P = Some f -> exists x, f = SVal x).
      { intros f Ef. apply find_some in Ef as [Hin Hc]. destruct f as [|x|].
        - discriminate Hc. - now exists x.
        - exfalso. unfold no_absent in Hna. rewrite Forall_forall in Hna. now apply (Hna _ Hin). }
      unfold kstep.
      destruct has.
      + (* an adding layer *)
        change (changed SNoCell (SVal v)) with true. cbn [andb].
        destruct (find (changed SNoCell) P) as [f|] eqn:Ef.
        * destruct (Hfind f eq_refl) as [x ->]. rewrite Hadd. cbn [cst_eqb].
          destruct (beqb x v) eqn:Exv; cbn [negb].
          -- apply beqb_eq in Exv; subst x. split; [assumption|]. intros _.
             split; [reflexivity|]. split; [reflexivity|]. intros H; discriminate H.
          -- split; [reflexivity|]. intros H; discriminate H.
        * rewrite Hadd. cbn. split; [assumption|]. intros _.
          split; [reflexivity|]. split; [reflexivity|]. intros H; discriminate H.
      + (* a layer without the column *)
        change (changed SNoCell SNoCell) with false. cbn [andb].
        assert (Ev : v = []) by (apply Hwf; reflexivity). subst v.
        destruct (find (changed SNoCell) P) as [f|] eqn:Ef.
        * destruct (Hfind f eq_refl) as [x ->]. rewrite Hadd.
          split; [assumption|]. intros _. split; [assumption|]. split; [assumption|]. assumption.
        * rewrite Hadd. rewrite Hadd in Hmisc. destruct (Hmisc eq_refl) as [Hm Hr].
          cbn [beqb bcmp negb orb]. rewrite orb_false_r.
          destruct bpres eqn:Ebp; cbn [negb].
          -- destruct (c_rem st || is_some (c_mod st)) eqn:E.
             ++ split; [assumption|]. intros _. split; [assumption|]. split; [assumption|]. intros _. now split.
             ++ cbn. split; [assumption|]. intros _. split; [reflexivity|]. split; [reflexivity|].
                intros _. split; [now left|]. reflexivity.
          -- assert (Er : c_rem st = false).
             { destruct (c_rem st); [|reflexivity]. specialize (Hr eq_refl). discriminate Hr. }
             rewrite Er.
             destruct Hm as [Hm|Hm]; rewrite Hm.
             ++ cbn. split; [assumption|]. intros _. split; [reflexivity|]. split; [reflexivity|].
                intros _. split; [now right|]. intros H; discriminate H.
             ++ cbn. split; [assumption|]. intros _. split; [reflexivity|]. split; [reflexivity|].
                intros _. split; [now right|]. intros H; discriminate H.
  Qed.

  Lemma InvA_fold l P st :
    no_absent P -> Forall wf_lc l -> InvA P st ->
    InvA (P ++ map st_of l) (fold_left (kstep bpres []) (map tr l) st).
  Proof.
    revert P st. induction l as [|lc l IH]; intros P st Hna Hwf HI; cbn [map fold_left].
    - now rewrite app_nil_r.
    - inversion Hwf as [|? ? Hw Hwl]; subst.
      replace (P ++ st_of lc :: map st_of l) with ((P ++ [st_of lc]) ++ map st_of l)
        by (now rewrite <- app_assoc).
      apply IH; [|assumption|now apply InvA_step].
      apply Forall_app; split; [assumption|]. constructor; [|constructor].
      destruct lc as [[|] ?]; cbn; discriminate.
  Qed.

  Lemma InvA_init (r0 : bool) :
    (r0 = true -> bpres = true) ->
    InvA [] {| c_add := None; c_mod := None; c_rem := r0; c_res := []; c_unres := false |}.
  Proof.
    intros Hr. unfold InvA, first_change, spec_value; cbn. repeat split; try reflexivity; auto.
  Qed.
End AddedColumn.

(** ---- [conflictb] / [spec_value] only depend on the set of changes ---- *)
Lemma conflictb_true_iff bst P :
  conflictb bst P = true <->
  exists s1 s2, In s1 P /\ In s2 P /\ changed bst s1 = true /\ changed bst s2 = true /\ s1 <> s2.
Proof.
  unfold conflictb. split.
  - intros H. apply existsb_exists in H as (s1 & H1 & H). apply existsb_exists in H as (s2 & H2 & H).
    apply andb_true_iff in H as [H Hn]. apply andb_true_iff in H as [Hc1 Hc2].
    exists s1, s2. repeat split; try assumption. apply negb_true_iff in Hn. now apply cst_eqb_neq.
  - intros (s1 & s2 & H1 & H2 & Hc1 & Hc2 & Hn).
    apply existsb_exists. exists s1. split; [assumption|]. apply existsb_exists. exists s2. split; [assumption|].
    rewrite Hc1, Hc2. cbn. apply negb_true_iff. now apply cst_eqb_neq.
Qed.

Definition same_changes (bst : cst) (P Q : list cst) : Prop :=
  forall s, changed bst s = true -> (In s P <-> In s Q).

Lemma conflictb_same bst P Q : same_changes bst P Q -> conflictb bst P = conflictb bst Q.
Proof.
  intros H. destruct (conflictb bst P) eqn:EP, (conflictb bst Q) eqn:EQ; try reflexivity.
  - apply conflictb_true_iff in EP as (s1 & s2 & H1 & H2 & Hc1 & Hc2 & Hn).
    assert (conflictb bst Q = true); [|congruence].
    apply conflictb_true_iff. exists s1, s2. repeat split; try assumption; now apply H.
  - apply conflictb_true_iff in EQ as (s1 & s2 & H1 & H2 & Hc1 & Hc2 & Hn).
    assert (conflictb bst P = true); [|congruence].
    apply conflictb_true_iff. exists s1, s2. repeat split; try assumption; now apply H.
Qed.

Lemma find_none_iff {A} (f : A -> bool) l : find f l = None <-> forall x, In x l -> f x = false.
Proof.
  split; [apply find_none|]. induction l as [|x l IH]; intros H; cbn; [reflexivity|].
  rewrite (H x (or_introl eq_refl)). apply IH. intros y Hy. apply H. now right.
Qed.

Lemma spec_value_same bst P Q :
  same_changes bst P Q -> conflictb bst P = false -> spec_value bst P = spec_value bst Q.
Proof.
  intros H HP. assert (HQ : conflictb bst Q = false) by (now rewrite <- (conflictb_same _ _ _ H)).
  unfold spec_value. destruct (find (changed bst) P) as [s|] eqn:Ef.
  - apply find_some in Ef as [Hin Hc].
    rewrite (no_conflict_all_first _ _ HQ s); [reflexivity| |assumption]. now apply H.
  - assert (E : find (changed bst) Q = None); [|now rewrite E].
    apply find_none_iff. intros x Hx. destruct (changed bst x) eqn:Ec; [|reflexivity].
    rewrite find_none_iff in Ef. rewrite <- Ec. apply Ef. now apply H.
Qed.

(** ---- the layers seen by tryResolve ---- *)
Lemma none_positions_spec l k others :
  In l (none_positions k others) <-> k <= l /\ nth_error others (l - k) = Some None.
Proof.
  revert k. induction others as [|o others IH]; intros k; cbn [none_positions].
  - split; [intros []|]. intros [_ H]. destruct (l - k); discriminate.
  - destruct o as [r|].
    + rewrite IH. split.
      * intros [Hk H]. split; [lia|]. replace (l - k) with (S (l - S k)) by lia. exact H.
      * intros [Hk H]. destruct (l - k) as [|d] eqn:E; [discriminate|]. cbn in H.
        split; [lia|]. replace (l - S k) with d by lia. exact H.
    + cbn [In]. rewrite IH. split.
      * intros [->|[Hk H]]; [split; [lia|]; now rewrite Nat.sub_diag|].
        split; [lia|]. replace (l - k) with (S (l - S k)) by lia. exact H.
      * intros [Hk H]. destruct (l - k) as [|d] eqn:E; [left; lia|]. right. cbn in H.
        split; [lia|]. replace (l - S k) with d by lia. exact H.
Qed.

Lemma uniq_layers_sound l r k others :
  In (l, r) (uniq_layers k others) -> k <= l /\ nth_error others (l - k) = Some (Some r).
Proof.
  revert k. induction others as [|o others IH]; intros k; cbn [uniq_layers]; [intros []|].
  assert (Hrec : In (l, r) (uniq_layers (S k) others) -> k <= l /\ nth_error (o :: others) (l - k) = Some (Some r)).
  { intros H. apply IH in H as [Hk H]. split; [lia|]. replace (l - k) with (S (l - S k)) by lia. exact H. }
  destruct o as [r0|]; [|exact Hrec].
  destruct (existsb _ others); [exact Hrec|].
  intros [E|H]; [|now apply Hrec]. injection E as <- <-. split; [lia|]. now rewrite Nat.sub_diag.
Qed.

Lemma uniq_layers_complete others : forall k d r,
  nth_error others d = Some (Some r) ->
  exists l r', In (l, r') (uniq_layers k others) /\ keqb r' r = true.
Proof.
  induction others as [|o others IH]; intros k d r H; [destruct d; discriminate|].
  cbn [uniq_layers]. destruct d as [|d]; cbn in H.
  - injection H as ->.
    destruct (existsb (fun o => sum_eqb o (Some r)) others) eqn:E.
    + apply existsb_exists in E as (o & Hin & Hs). destruct o as [r1|]; [|discriminate].
      apply In_nth_error in Hin as [d Hd].
      destruct (IH (S k) d r1 Hd) as (l & r' & Hl & Hk). exists l, r'. split; [assumption|].
      cbn in Hs. apply keqb_eq in Hs. subst. assumption.
    + exists k, r. split; [now left|apply keqb_refl].
  - destruct (IH (S k) d r H) as (l & r' & Hl & Hk).
    exists l, r'. split; [|assumption].
    destruct o as [r0|]; [|assumption]. destruct (existsb _ others); [assumption|now right].
Qed.

Lemma states_in cd m i s :
  In s (states cd m i) <->
  (exists l r, nth_error (m_others m) l = Some (Some r) /\ s = layer_cell cd l r i) \/
  (s = SNoCell /\ is_some (m_base m) = true /\ exists l, nth_error (m_others m) l = Some None).
Proof.
  unfold states. rewrite in_flat_map. split.
  - intros ([l o] & Hin & Hs).
    assert (Hn : nth_error (m_others m) l = Some o).
    { apply In_nth_error in Hin as [n Hn].
      pose proof (nth_error_Some (combine (seq 0 (length (m_others m))) (m_others m)) n) as Hlt.
      rewrite Hn in Hlt. assert (Hlen : n < length (combine (seq 0 (length (m_others m))) (m_others m))) by (apply Hlt; discriminate).
      rewrite combine_length, seq_length, Nat.min_id in Hlen.
      rewrite (nth_error_nth' _ (0, None) ) in Hn by (rewrite combine_length, seq_length, Nat.min_id; exact Hlen).
      rewrite combine_nth in Hn by (now rewrite seq_length).
      rewrite seq_nth in Hn by exact Hlen. injection Hn as <- <-.
      apply nth_error_nth'. exact Hlen. }
    unfold layer_states in Hs; cbn [fst snd] in Hs. destruct o as [r|].
    + destruct Hs as [<-|[]]. left. now exists l, r.
    + destruct (is_some (m_base m)) eqn:Eb; [|destruct Hs]. destruct Hs as [<-|[]].
      right. split; [reflexivity|]. split; [reflexivity|]. now exists l.
  - assert (Hcomb : forall l o, nth_error (m_others m) l = Some o ->
                     In (l, o) (combine (seq 0 (length (m_others m))) (m_others m))).
    { intros l o Hn.
      assert (Hlt : l < length (m_others m)) by (apply nth_error_Some; congruence).
      replace (l, o) with (nth l (combine (seq 0 (length (m_others m))) (m_others m)) (0, None)).
      - apply nth_In. now rewrite combine_length, seq_length, Nat.min_id.
      - rewrite combine_nth by (now rewrite seq_length). rewrite seq_nth by exact Hlt.
        f_equal. now apply nth_error_nth. }
    intros [(l & r & Hn & ->)|(-> & Hb & l & Hn)].
    + exists (l, Some r). split; [now apply Hcomb|]. now left.
    + exists (l, None). split; [now apply Hcomb|]. unfold layer_states; cbn. rewrite Hb. now left.
Qed.
