(** Proofs for C05, part 1: the resolver's column loop (any number of layers). *)
From W.lib Require Import Tree Bytes GoSlice.
From W.model Require Import ColDiff Merge MergeSpec.
From Coq Require Import Arith Lia Bool List.
Import ListNotations.

Lemma beqb_eq a b : beqb a b = true <-> a = b.
Proof. unfold beqb. destruct (bcmp a b) eqn:E; split; try discriminate; intros H.
  - now apply bcmp_eq. - reflexivity.
  - subst. now rewrite bcmp_refl in E. - subst. now rewrite bcmp_refl in E. Qed.
Lemma beqb_refl a : beqb a a = true. Proof. now apply beqb_eq. Qed.
Lemma beqb_neq a b : beqb a b = false <-> a <> b.
Proof. rewrite <- beqb_eq. destruct (beqb a b); split; congruence. Qed.
Lemma keqb_eq a b : keqb a b = true <-> a = b.
Proof. unfold keqb. destruct (kcmp a b) eqn:E; split; try discriminate; intros H.
  - now apply kcmp_eq. - reflexivity.
  - subst. now rewrite kcmp_refl in E. - subst. now rewrite kcmp_refl in E. Qed.
Lemma keqb_refl a : keqb a a = true. Proof. now apply keqb_eq. Qed.

Lemma cst_eqb_eq a b : cst_eqb a b = true <-> a = b.
Proof. destruct a, b; cbn; split; try discriminate; try reflexivity; intros H.
  - f_equal. now apply beqb_eq. - injection H as ->. apply beqb_refl. Qed.
Lemma cst_eqb_refl a : cst_eqb a a = true. Proof. now apply cst_eqb_eq. Qed.
Lemma cst_eqb_neq a b : cst_eqb a b = false <-> a <> b.
Proof. rewrite <- cst_eqb_eq. destruct (cst_eqb a b); split; congruence. Qed.

(** ---- the inner loop as a machine over (added?, removed?, value) ---- *)
Definition kstep (bpres : bool) (bv : bytes) (st : cstate) (x : bool * bool * bytes) : cstate :=
  let '(ad, rm, v) := x in
  let unresolve := {| c_add := c_add st; c_mod := c_mod st; c_rem := c_rem st; c_res := bv; c_unres := true |} in
  let assign (a m : option bytes) (r : bool) :=
    {| c_add := a; c_mod := m; c_rem := r; c_res := v; c_unres := c_unres st |} in
  if ad then
    match c_add st with
    | None => assign (Some v) (c_mod st) (c_rem st)
    | Some a => if beqb a v then assign (c_add st) (c_mod st) (c_rem st) else unresolve
    end
  else match c_add st with
  | Some _ => st
  | None =>
    if rm then
      match c_mod st with
      | None => assign None None true
      | Some _ => unresolve
      end
    else if negb bpres || negb (beqb bv v) then
      if c_rem st then unresolve
      else match c_mod st with
           | None => assign None (Some v) (c_rem st)
           | Some m => if beqb m v then assign None (c_mod st) (c_rem st) else unresolve
           end
    else if c_rem st || is_some (c_mod st) then st
    else assign None None (c_rem st)
  end.

Definition base_cell (base_row : option row) (i : nat) : bytes :=
  match base_row with Some b => nth i b [] | None => [] end.

Lemma cell_step_kstep cd base_row i st lr :
  cell_step cd base_row i st lr =
  kstep (is_some base_row) (base_cell base_row i) st
        (in_added cd (fst lr) i, in_removed cd (fst lr) i, nth i (snd lr) []).
Proof. reflexivity. Qed.

Lemma resolve_cell_kstep cd base_row rem_layers rows i :
  resolve_cell cd base_row rem_layers rows i =
  fold_left (kstep (is_some base_row) (base_cell base_row i))
            (map (fun lr => (in_added cd (fst lr) i, in_removed cd (fst lr) i, nth i (snd lr) [])) rows)
            (cell_init cd base_row rem_layers i).
Proof.
  unfold resolve_cell. generalize (cell_init cd base_row rem_layers i) as st.
  induction rows as [|lr rows IH]; intros st; cbn [fold_left map]; [reflexivity|].
  rewrite IH. reflexivity.
Qed.

(** ---- algebra of [conflictb] / [spec_value] ---- *)
Lemma cst_eqb_sym a b : cst_eqb a b = cst_eqb b a.
Proof.
  destruct (cst_eqb a b) eqn:E.
  - apply cst_eqb_eq in E; subst. now rewrite cst_eqb_refl.
  - destruct (cst_eqb b a) eqn:E'; [|reflexivity]. apply cst_eqb_eq in E'; subst.
    now rewrite cst_eqb_refl in E.
Qed.

Definition clash (bst s : cst) (P : list cst) : bool :=
  changed bst s && existsb (fun s' => changed bst s' && negb (cst_eqb s' s)) P.

Lemma existsb_orb {A} (f g : A -> bool) l :
  existsb (fun x => f x || g x) l = existsb f l || existsb g l.
Proof. induction l as [|x l IH]; cbn; [reflexivity|]. rewrite IH.
  destruct (f x), (g x), (existsb f l), (existsb g l); reflexivity. Qed.

Lemma existsb_ext' {A} (f g : A -> bool) l : (forall x, f x = g x) -> existsb f l = existsb g l.
Proof. intros H. induction l as [|x l IH]; cbn; [reflexivity|]. now rewrite H, IH. Qed.

Lemma conflictb_snoc bst P s :
  conflictb bst (P ++ [s]) = conflictb bst P || clash bst s P.
Proof.
  unfold conflictb, clash.
  rewrite existsb_app. cbn [existsb]. rewrite orb_false_r.
  rewrite (existsb_ext' (fun s1 => existsb (fun s2 => changed bst s1 && changed bst s2 && negb (cst_eqb s1 s2)) (P ++ [s]))
                        (fun s1 => existsb (fun s2 => changed bst s1 && changed bst s2 && negb (cst_eqb s1 s2)) P
                                   || (changed bst s1 && changed bst s && negb (cst_eqb s1 s))) P).
  2:{ intros x. rewrite existsb_app. cbn [existsb]. now rewrite orb_false_r. }
  rewrite existsb_orb.
  rewrite existsb_app. cbn [existsb]. rewrite cst_eqb_refl. cbn [negb]. rewrite andb_false_r, !orb_false_r.
  assert (E1 : existsb (fun s1 => changed bst s1 && changed bst s && negb (cst_eqb s1 s)) P
               = changed bst s && existsb (fun s' => changed bst s' && negb (cst_eqb s' s)) P).
  { induction P as [|x P IH]; cbn; [now rewrite andb_false_r|]. rewrite IH.
    destruct (changed bst x), (changed bst s), (cst_eqb x s); cbn; try reflexivity. }
  assert (E2 : existsb (fun s2 => changed bst s && changed bst s2 && negb (cst_eqb s s2)) P
               = changed bst s && existsb (fun s' => changed bst s' && negb (cst_eqb s' s)) P).
  { rewrite <- E1. apply existsb_ext'. intros x. rewrite (cst_eqb_sym s x).
    destruct (changed bst x), (changed bst s); reflexivity. }
  rewrite E1, E2.
  generalize (existsb (fun s1 => existsb (fun s2 => changed bst s1 && changed bst s2 && negb (cst_eqb s1 s2)) P) P) as a.
  generalize (changed bst s && existsb (fun s' => changed bst s' && negb (cst_eqb s' s)) P) as b.
  intros [|] [|]; reflexivity.
Qed.

(** without conflict every change equals the first change *)
Lemma no_conflict_all_first bst P :
  conflictb bst P = false ->
  forall s, In s P -> changed bst s = true -> find (changed bst) P = Some s.
Proof.
  intros H s Hin Hc.
  destruct (find (changed bst) P) as [f|] eqn:Ef.
  - apply find_some in Ef as [Hf Hcf].
    destruct (cst_eqb f s) eqn:E; [apply cst_eqb_eq in E; now subst|].
    exfalso. unfold conflictb in H.
    assert (existsb (fun s1 => existsb (fun s2 => changed bst s1 && changed bst s2 && negb (cst_eqb s1 s2)) P) P = true).
    { apply existsb_exists. exists f. split; [assumption|]. apply existsb_exists. exists s. split; [assumption|].
      now rewrite Hcf, Hc, E. }
    congruence.
  - exfalso. apply (find_none _ _ Ef) in Hin. congruence.
Qed.

Lemma clash_false_first bst P s :
  conflictb bst P = false ->
  clash bst s P = (changed bst s && match find (changed bst) P with
                                    | Some f => negb (cst_eqb f s)
                                    | None => false
                                    end).
Proof.
  intros H. unfold clash. destruct (changed bst s); [cbn|reflexivity].
  destruct (find (changed bst) P) as [f|] eqn:Ef.
  - destruct (existsb _ P) eqn:E.
    + apply existsb_exists in E as (x & Hx & Hc). apply andb_true_iff in Hc as [Hc Hn].
      pose proof (no_conflict_all_first _ _ H x Hx Hc) as Hf. rewrite Ef in Hf. injection Hf as ->. now rewrite Hn.
    + apply find_some in Ef as [Hf Hcf].
      destruct (cst_eqb f s) eqn:E'; [reflexivity|]. exfalso.
      assert (existsb (fun s' => changed bst s' && negb (cst_eqb s' s)) P = true).
      { apply existsb_exists. exists f. split; [assumption|]. now rewrite Hcf, E'. }
      congruence.
  - destruct (existsb _ P) eqn:E; [|reflexivity].
    apply existsb_exists in E as (x & Hx & Hc). apply andb_true_iff in Hc as [Hc _].
    apply (find_none _ _ Ef) in Hx. congruence.
Qed.

Lemma find_snoc {A} (f : A -> bool) P s :
  find f (P ++ [s]) = match find f P with Some x => Some x | None => if f s then Some s else None end.
Proof. induction P as [|x P IH]; cbn; [reflexivity|]. destruct (f x); [reflexivity|apply IH]. Qed.

(** ---- the loop invariant ---- *)
Definition st_of (lc : bool * bytes) : cst := if fst lc then SVal (snd lc) else SNoCell.
Definition wf_lc (lc : bool * bytes) : Prop := fst lc = false -> snd lc = [].
Definition no_absent (P : list cst) : Prop := Forall (fun s => s <> SAbsent) P.

Lemma st_of_no_absent l : no_absent (map st_of l).
Proof. induction l as [|[h v] l IH]; constructor; [destruct h; cbn; discriminate|assumption]. Qed.

Definition first_change (bst : cst) (P : list cst) := find (changed bst) P.

(** column of the base: layers either lack it (removed) or carry a value *)
Section BaseColumn.
  Variables (bpres : bool) (bv : bytes) (r0 : bool).
  Hypothesis Hbv : bpres = false -> bv = [].
  Let bst := if bpres then SVal bv else SAbsent.
  Let tr (lc : bool * bytes) := (false, negb (fst lc), snd lc).

  Definition InvB (P : list cst) (st : cstate) : Prop :=
    c_add st = None /\ c_unres st = conflictb bst P /\
    (conflictb bst P = false ->
       c_rem st = match first_change bst P with Some SNoCell => true | _ => false end /\
       c_mod st = match first_change bst P with Some (SVal x) => Some x | _ => None end /\
       (r0 = false -> c_res st = render (spec_value bst P))).

  Lemma render_bst : render bst = bv.
  Proof. subst bst. destruct bpres; [reflexivity|]. now rewrite Hbv. Qed.

  Lemma changed_val v : changed bst (SVal v) = negb bpres || negb (beqb bv v).
  Proof.
    subst bst. unfold changed. destruct bpres; cbn; [|reflexivity].
    f_equal. destruct (beqb v bv) eqn:E.
    - apply beqb_eq in E; subst. now rewrite beqb_refl.
    - apply beqb_neq in E. symmetry. apply beqb_neq. congruence.
  Qed.
  Lemma changed_nocell : changed bst SNoCell = true.
  Proof. subst bst. unfold changed. now destruct bpres. Qed.

  Lemma InvB_step P st lc :
    no_absent P -> wf_lc lc -> InvB P st -> InvB (P ++ [st_of lc]) (kstep bpres bv st (tr lc)).
  Proof.
    intros Hna Hwf (Hadd & Hun & Hst).
    destruct lc as [has v]. unfold tr, st_of; cbn [fst snd].
    unfold InvB. rewrite conflictb_snoc.
    destruct (conflictb bst P) eqn:Ec.
    - (* already in conflict: the flag stays *)
      cbn [orb]. unfold kstep. rewrite Hadd.
      destruct has; cbn [negb].
      + destruct (negb bpres || negb (beqb bv v)).
        * destruct (c_rem st); [repeat split; try discriminate; assumption|].
          destruct (c_mod st) as [m|]; [destruct (beqb m v)|]; repeat split; try discriminate; try assumption.
        * destruct (c_rem st || is_some (c_mod st)); repeat split; try discriminate; assumption.
      + destruct (c_mod st); repeat split; try discriminate; assumption.
    - specialize (Hst eq_refl) as (Hrem & Hmod & Hres).
      cbn [orb]. rewrite (clash_false_first _ _ _ Ec).
      unfold first_change in *. rewrite find_snoc.
      unfold kstep. rewrite Hadd.
      destruct has; cbn [negb].
      + (* the layer has the column *)
        rewrite (changed_val v).
        destruct (negb bpres || negb (beqb bv v)) eqn:Ech; cbn [andb].
        * destruct (find (changed bst) P) as [f|] eqn:Ef.
          -- destruct f as [|x|].
             ++ rewrite Hrem. cbn. repeat split; try discriminate; assumption.
             ++ rewrite Hrem, Hmod. cbn [cst_eqb].
                destruct (beqb x v) eqn:Exv; cbn [negb].
                ** apply beqb_eq in Exv; subst x. split; [reflexivity|]. split; [assumption|].
                   intros _. split; [reflexivity|]. split; [reflexivity|].
                   intros _. cbn. unfold spec_value. rewrite find_snoc, Ef. reflexivity.
                ** repeat split; try discriminate; assumption.
             ++ exfalso. apply find_some in Ef as [Hin _].
                unfold no_absent in Hna. rewrite Forall_forall in Hna. now apply (Hna _ Hin).
          -- rewrite Hrem, Hmod. cbn. split; [reflexivity|]. split; [assumption|].
             intros _. try rewrite (changed_val v), Ech. split; [reflexivity|]. split; [reflexivity|].
             intros _. unfold spec_value. rewrite find_snoc, Ef, (changed_val v), Ech. reflexivity.
        * (* unchanged cell *)
          cbn [andb orb].
          assert (Ev : v = bv).
          { apply orb_false_iff in Ech as [_ E]. apply negb_false_iff in E. apply beqb_eq in E. congruence. }
          destruct (find (changed bst) P) as [f|] eqn:Ef.
          -- destruct f as [|x|].
             ++ rewrite Hrem. cbn [orb]. split; [assumption|]. split; [assumption|].
                intros _. split; [assumption|]. split; [assumption|].
                intros Hr. unfold spec_value. rewrite find_snoc, Ef.
                rewrite (Hres Hr). unfold spec_value. now rewrite Ef.
             ++ rewrite Hmod. cbn [is_some]. rewrite orb_true_r.
                split; [assumption|]. split; [assumption|].
                intros _. split; [assumption|]. split; [assumption|].
                intros Hr. unfold spec_value. rewrite find_snoc, Ef.
                rewrite (Hres Hr). unfold spec_value. now rewrite Ef.
             ++ exfalso. apply find_some in Ef as [Hin _].
                unfold no_absent in Hna. rewrite Forall_forall in Hna. now apply (Hna _ Hin).
          -- rewrite Hrem, Hmod. cbn. split; [reflexivity|]. split; [assumption|].
             intros _. try rewrite (changed_val v), Ech. split; [reflexivity|]. split; [reflexivity|].
             intros _. unfold spec_value. rewrite find_snoc, Ef, (changed_val v), Ech.
             rewrite render_bst. now subst v.
      + (* the layer removed the column *)
        rewrite changed_nocell. cbn [andb].
        assert (Ev : v = []) by (apply Hwf; reflexivity). subst v.
        destruct (find (changed bst) P) as [f|] eqn:Ef.
        * destruct f as [|x|].
          -- rewrite Hmod. cbn. split; [reflexivity|]. split; [assumption|].
             intros _. split; [reflexivity|]. split; [reflexivity|].
             intros _. unfold spec_value. rewrite find_snoc, Ef. reflexivity.
          -- rewrite Hmod. cbn. repeat split; try discriminate; assumption.
          -- exfalso. apply find_some in Ef as [Hin _].
             unfold no_absent in Hna. rewrite Forall_forall in Hna. now apply (Hna _ Hin).
        * rewrite Hmod. cbn. split; [reflexivity|]. split; [assumption|].
          intros _. try rewrite changed_nocell. split; [reflexivity|]. split; [reflexivity|].
          intros _. unfold spec_value. rewrite find_snoc, Ef, changed_nocell. reflexivity.
  Qed.

  Lemma InvB_fold l P st :
    no_absent P -> Forall wf_lc l -> InvB P st ->
    InvB (P ++ map st_of l) (fold_left (kstep bpres bv) (map tr l) st).
  Proof.
    revert P st. induction l as [|lc l IH]; intros P st Hna Hwf HI; cbn [map fold_left].
    - now rewrite app_nil_r.
    - inversion Hwf as [|? ? Hw Hwl]; subst.
      replace (P ++ st_of lc :: map st_of l) with ((P ++ [st_of lc]) ++ map st_of l)
        by (now rewrite <- app_assoc).
      apply IH; [|assumption|now apply InvB_step].
      apply Forall_app; split; [assumption|]. constructor; [|constructor].
      destruct lc as [[|] ?]; cbn; discriminate.
  Qed.

  (** initial state: [r0] = some layer removed the row (then the base has it) *)
  Lemma InvB_init :
    (r0 = true -> bpres = true) ->
    InvB (if r0 then [SNoCell] else [])
         {| c_add := None; c_mod := None; c_rem := r0; c_res := bv; c_unres := false |}.
  Proof.
    intros Hr. unfold InvB, first_change; cbn [c_add c_unres c_rem c_mod c_res].
    destruct r0.
    - cbn. rewrite changed_nocell. cbn. repeat split; try reflexivity. intros H'; discriminate H'.
    - cbn. repeat split; try reflexivity. intros _. unfold spec_value; cbn. now rewrite render_bst.
  Qed.
End BaseColumn.

(** column that the base lacks: layers either add it or lack it too *)
Section AddedColumn.
  Variable bpres : bool.
  Let tr (lc : bool * bytes) := (fst lc, false, snd lc).

  Definition InvA (P : list cst) (st : cstate) : Prop :=
    c_unres st = conflictb SNoCell P /\
    (conflictb SNoCell P = false ->
       c_add st = match first_change SNoCell P with Some (SVal x) => Some x | _ => None end /\
       c_res st = render (spec_value SNoCell P) /\
       (c_add st = None -> (c_mod st = None \/ c_mod st = Some []) /\ (c_rem st = true -> bpres = true))).

  Lemma InvA_step P st lc :
    no_absent P -> wf_lc lc -> InvA P st -> InvA (P ++ [st_of lc]) (kstep bpres [] st (tr lc)).
  Proof.
    intros Hna Hwf (Hun & Hst).
    destruct lc as [has v]. unfold tr, st_of; cbn [fst snd].
    unfold InvA. rewrite conflictb_snoc.
    destruct (conflictb SNoCell P) eqn:Ec.
    - cbn [orb]. unfold kstep.
      destruct has.
      + destruct (c_add st) as [a|]; [destruct (beqb a v)|]; repeat split; try discriminate; assumption.
      + destruct (c_add st) as [a|]; [repeat split; try discriminate; assumption|].
        destruct (negb bpres || negb (beqb [] v)).
        * destruct (c_rem st); [repeat split; try discriminate; assumption|].
          destruct (c_mod st) as [m|]; [destruct (beqb m v)|]; repeat split; try discriminate; assumption.
        * destruct (c_rem st || is_some (c_mod st)); repeat split; try discriminate; assumption.
    - specialize (Hst eq_refl) as (Hadd & Hres & Hmisc).
      cbn [orb]. rewrite (clash_false_first _ _ _ Ec).
      unfold first_change in *. unfold spec_value in *. rewrite find_snoc.
      assert (Hfind : forall f, find (changed SNoCell) P = Some f -> exists x, f = SVal x).
      { intros f Ef. apply find_some in Ef as [Hin Hc]. destruct f as [|x|].
        - discriminate Hc. - now exists x.
        - exfalso. unfold no_absent in Hna. rewrite Forall_forall in Hna. now apply (Hna _ Hin). }
      unfold kstep.
      destruct has.
      + (* an adding layer *)
        change (changed SNoCell (SVal v)) with true. cbn [andb].
        destruct (find (changed SNoCell) P) as [f|] eqn:Ef.
        * destruct (Hfind f eq_refl) as [x ->]. rewrite Hadd. cbn [cst_eqb].
          destruct (beqb x v) eqn:Exv; cbn [negb].
          -- apply beqb_eq in Exv; subst x. split; [assumption|]. intros _.
             split; [reflexivity|]. split; [reflexivity|]. intros H; discriminate H.
          -- split; [reflexivity|]. intros H; discriminate H.
        * rewrite Hadd. cbn. split; [assumption|]. intros _.
          split; [reflexivity|]. split; [reflexivity|]. intros H; discriminate H.
      + (* a layer without the column *)
        change (changed SNoCell SNoCell) with false. cbn [andb].
        assert (Ev : v = []) by (apply Hwf; reflexivity). subst v.
        destruct (find (changed SNoCell) P) as [f|] eqn:Ef.
        * destruct (Hfind f eq_refl) as [x ->]. rewrite Hadd.
          split; [assumption|]. intros _. split; [assumption|]. split; [assumption|]. assumption.
        * rewrite Hadd. rewrite Hadd in Hmisc. destruct (Hmisc eq_refl) as [Hm Hr].
          cbn [beqb bcmp negb orb]. rewrite orb_false_r.
          destruct bpres eqn:Ebp; cbn [negb].
          -- destruct (c_rem st || is_some (c_mod st)) eqn:E.
             ++ split; [assumption|]. intros _. split; [assumption|]. split; [assumption|]. intros _. now split.
             ++ cbn. split; [assumption|]. intros _. split; [reflexivity|]. split; [reflexivity|].
                intros _. split; [now left|]. reflexivity.
          -- assert (Er : c_rem st = false).
             { destruct (c_rem st); [|reflexivity]. specialize (Hr eq_refl). discriminate Hr. }
             rewrite Er.
             destruct Hm as [Hm|Hm]; rewrite Hm.
             ++ cbn. split; [assumption|]. intros _. split; [reflexivity|]. split; [reflexivity|].
                intros _. split; [now right|]. intros H; discriminate H.
             ++ cbn. split; [assumption|]. intros _. split; [reflexivity|]. split; [reflexivity|].
                intros _. split; [now right|]. intros H; discriminate H.
  Qed.

  Lemma InvA_fold l P st :
    no_absent P -> Forall wf_lc l -> InvA P st ->
    InvA (P ++ map st_of l) (fold_left (kstep bpres []) (map tr l) st).
  Proof.
    revert P st. induction l as [|lc l IH]; intros P st Hna Hwf HI; cbn [map fold_left].
    - now rewrite app_nil_r.
    - inversion Hwf as [|? ? Hw Hwl]; subst.
      replace (P ++ st_of lc :: map st_of l) with ((P ++ [st_of lc]) ++ map st_of l)
        by (now rewrite <- app_assoc).
      apply IH; [|assumption|now apply InvA_step].
      apply Forall_app; split; [assumption|]. constructor; [|constructor].
      destruct lc as [[|] ?]; cbn; discriminate.
  Qed.

  Lemma InvA_init (r0 : bool) :
    (r0 = true -> bpres = true) ->
    InvA [] {| c_add := None; c_mod := None; c_rem := r0; c_res := []; c_unres := false |}.
  Proof.
    intros Hr. unfold InvA, first_change, spec_value; cbn. repeat split; try reflexivity; auto.
  Qed.
End AddedColumn.

(** ---- [conflictb] / [spec_value] only depend on the set of changes ---- *)
Lemma conflictb_true_iff bst P :
  conflictb bst P = true <->
  exists s1 s2, In s1 P /\ In s2 P /\ changed bst s1 = true /\ changed bst s2 = true /\ s1 <> s2.
Proof.
  unfold conflictb. split.
  - intros H. apply existsb_exists in H as (s1 & H1 & H). apply existsb_exists in H as (s2 & H2 & H).
    apply andb_true_iff in H as [H Hn]. apply andb_true_iff in H as [Hc1 Hc2].
    exists s1, s2. repeat split; try assumption. apply negb_true_iff in Hn. now apply cst_eqb_neq.
  - intros (s1 & s2 & H1 & H2 & Hc1 & Hc2 & Hn).
    apply existsb_exists. exists s1. split; [assumption|]. apply existsb_exists. exists s2. split; [assumption|].
    rewrite Hc1, Hc2. cbn. apply negb_true_iff. now apply cst_eqb_neq.
Qed.

Definition same_changes (bst : cst) (P Q : list cst) : Prop :=
  forall s, changed bst s = true -> (In s P <-> In s Q).

Lemma conflictb_same bst P Q : same_changes bst P Q -> conflictb bst P = conflictb bst Q.
Proof.
  intros H. destruct (conflictb bst P) eqn:EP, (conflictb bst Q) eqn:EQ; try reflexivity.
  - apply conflictb_true_iff in EP as (s1 & s2 & H1 & H2 & Hc1 & Hc2 & Hn).
    assert (conflictb bst Q = true); [|congruence].
    apply conflictb_true_iff. exists s1, s2. repeat split; try assumption; now apply H.
  - apply conflictb_true_iff in EQ as (s1 & s2 & H1 & H2 & Hc1 & Hc2 & Hn).
    assert (conflictb bst P = true); [|congruence].
    apply conflictb_true_iff. exists s1, s2. repeat split; try assumption; now apply H.
Qed.

Lemma find_none_iff {A} (f : A -> bool) l : find f l = None <-> forall x, In x l -> f x = false.
Proof.
  split; [apply find_none|]. induction l as [|x l IH]; intros H; cbn; [reflexivity|].
  rewrite (H x (or_introl eq_refl)). apply IH. intros y Hy. apply H. now right.
Qed.

Lemma spec_value_same bst P Q :
  same_changes bst P Q -> conflictb bst P = false -> spec_value bst P = spec_value bst Q.
Proof.
  intros H HP. assert (HQ : conflictb bst Q = false) by (now rewrite <- (conflictb_same _ _ _ H)).
  unfold spec_value. destruct (find (changed bst) P) as [s|] eqn:Ef.
  - apply find_some in Ef as [Hin Hc].
    rewrite (no_conflict_all_first _ _ HQ s); [reflexivity| |assumption]. now apply H.
  - assert (E : find (changed bst) Q = None); [|now rewrite E].
    apply find_none_iff. intros x Hx. destruct (changed bst x) eqn:Ec; [|reflexivity].
    rewrite find_none_iff in Ef. rewrite <- Ec. apply Ef. now apply H.
Qed.

(** ---- the layers seen by tryResolve ---- *)
Lemma none_positions_spec l k others :
  In l (none_positions k others) <-> k <= l /\ nth_error others (l - k) = Some None.
Proof.
  revert k. induction others as [|o others IH]; intros k; cbn [none_positions].
  - split; [intros []|]. intros [_ H]. destruct (l - k); discriminate.
  - destruct o as [r|].
    + rewrite IH. split.
      * intros [Hk H]. split; [lia|]. replace (l - k) with (S (l - S k)) by lia. exact H.
      * intros [Hk H]. destruct (l - k) as [|d] eqn:E; [discriminate|]. cbn in H.
        split; [lia|]. replace (l - S k) with d by lia. exact H.
    + cbn [In]. rewrite IH. split.
      * intros [->|[Hk H]]; [split; [lia|]; now rewrite Nat.sub_diag|].
        split; [lia|]. replace (l - k) with (S (l - S k)) by lia. exact H.
      * intros [Hk H]. destruct (l - k) as [|d] eqn:E; [left; lia|]. right. cbn in H.
        split; [lia|]. replace (l - S k) with d by lia. exact H.
Qed.

Lemma uniq_layers_sound l r k others :
  In (l, r) (uniq_layers k others) -> k <= l /\ nth_error others (l - k) = Some (Some r).
Proof.
  revert k. induction others as [|o others IH]; intros k; cbn [uniq_layers]; [intros []|].
  assert (Hrec : In (l, r) (uniq_layers (S k) others) -> k <= l /\ nth_error (o :: others) (l - k) = Some (Some r)).
  { intros H. apply IH in H as [Hk H]. split; [lia|]. replace (l - k) with (S (l - S k)) by lia. exact H. }
  destruct o as [r0|]; [|exact Hrec].
  destruct (existsb _ others); [exact Hrec|].
  intros [E|H]; [|now apply Hrec]. injection E as <- <-. split; [lia|]. now rewrite Nat.sub_diag.
Qed.

Lemma uniq_layers_complete others : forall k d r,
  nth_error others d = Some (Some r) ->
  exists l r', In (l, r') (uniq_layers k others) /\ keqb r' r = true.
Proof.
  induction others as [|o others IH]; intros k d r H; [destruct d; discriminate|].
  cbn [uniq_layers]. destruct d as [|d]; cbn in H.
  - injection H as ->.
    destruct (existsb (fun o => sum_eqb o (Some r)) others) eqn:E.
    + apply existsb_exists in E as (o & Hin & Hs). destruct o as [r1|]; [|discriminate].
      apply In_nth_error in Hin as [d Hd].
      destruct (IH (S k) d r1 Hd) as (l & r' & Hl & Hk). exists l, r'. split; [assumption|].
      cbn in Hs. apply keqb_eq in Hs. subst. assumption.
    + exists k, r. split; [now left|apply keqb_refl].
  - destruct (IH (S k) d r H) as (l & r' & Hl & Hk).
    exists l, r'. split; [|assumption].
    destruct o as [r0|]; [|assumption]. destruct (existsb _ others); [assumption|now right].
Qed.

Lemma states_in cd m i s :
  In s (states cd m i) <->
  (exists l r, nth_error (m_others m) l = Some (Some r) /\ s = layer_cell cd l r i) \/
  (s = SNoCell /\ is_some (m_base m) = true /\ exists l, nth_error (m_others m) l = Some None).
Proof.
  unfold states. rewrite in_flat_map. split.
  - intros ([l o] & Hin & Hs).
    assert (Hn : nth_error (m_others m) l = Some o).
    { apply In_nth_error in Hin as [n Hn].
      pose proof (nth_error_Some (combine (seq 0 (length (m_others m))) (m_others m)) n) as Hlt.
      rewrite Hn in Hlt. assert (Hlen : n < length (combine (seq 0 (length (m_others m))) (m_others m))) by (apply Hlt; discriminate).
      rewrite combine_length, seq_length, Nat.min_id in Hlen.
      rewrite (nth_error_nth' _ (0, None) ) in Hn by (rewrite combine_length, seq_length, Nat.min_id; exact Hlen).
      rewrite combine_nth in Hn by (now rewrite seq_length).
      rewrite seq_nth in Hn by exact Hlen. injection Hn as <- <-.
      apply nth_error_nth'. exact Hlen. }
    unfold layer_states in Hs; cbn [fst snd] in Hs. destruct o as [r|].
    + destruct Hs as [<-|[]]. left. now exists l, r.
    + destruct (is_some (m_base m)) eqn:Eb; [|destruct Hs]. destruct Hs as [<-|[]].
      right. split; [reflexivity|]. split; [reflexivity|]. now exists l.
  - assert (Hcomb : forall l o, nth_error (m_others m) l = Some o ->
                     In (l, o) (combine (seq 0 (length (m_others m))) (m_others m))).
    { intros l o Hn.
      assert (Hlt : l < length (m_others m)) by (apply nth_error_Some; congruence).
      replace (l, o) with (nth l (combine (seq 0 (length (m_others m))) (m_others m)) (0, None)).
      - apply nth_In. now rewrite combine_length, seq_length, Nat.min_id.
      - rewrite combine_nth by (now rewrite seq_length). rewrite seq_nth by exact Hlt.
        f_equal. now apply nth_error_nth. }
    intros [(l & r & Hn & ->)|(-> & Hb & l & Hn)].
    + exists (l, Some r). split; [now apply Hcomb|]. now left.
    + exists (l, None). split; [now apply Hcomb|]. unfold layer_states; cbn. rewrite Hb. now left.
Qed.

(** ---- assembling: tryResolve against the specification ---- *)
Lemma nth_rearrange idx r i :
  nth i (rearrange idx r) [] = match nth i idx None with Some j => nth j r [] | None => [] end.
Proof.
  unfold rearrange. revert i. induction idx as [|o idx IH]; intros [|i]; cbn; try reflexivity. apply IH.
Qed.

Definition rem_layers_of (m : mrec) : list nat :=
  match m_base m with None => [] | Some _ => none_positions 0 (m_others m) end.
Definition rows_of (cd : coldiff) (m : mrec) : list (nat * row) :=
  map (fun lr => (fst lr, rearrange (nth (fst lr) (cd_other_idx cd) []) (snd lr))) (uniq_layers 0 (m_others m)).
Definition base_row_of (cd : coldiff) (m : mrec) : option row :=
  option_map (rearrange (cd_base_idx cd)) (m_base m).

Lemma rem_layers_nonempty m :
  rem_layers_of m <> [] <-> row_removed m = true.
Proof.
  unfold rem_layers_of, row_removed. destruct (m_base m) as [b|]; cbn [is_some andb]; [|split; [congruence|discriminate]].
  split.
  - intros H. destruct (none_positions 0 (m_others m)) as [|l t] eqn:E; [congruence|].
    assert (Hl : In l (none_positions 0 (m_others m))) by (rewrite E; now left).
    apply none_positions_spec in Hl as [_ Hl]. apply nth_error_In in Hl.
    apply existsb_exists. now exists None.
  - intros H. apply existsb_exists in H as (o & Hin & Ho). destruct o; [discriminate|].
    apply In_nth_error in Hin as [d Hd].
    assert (Hl : In d (none_positions 0 (m_others m))).
    { apply none_positions_spec. split; [lia|]. now rewrite Nat.sub_0_r. }
    intros E. now rewrite E in Hl.
Qed.

Lemma layer_cell_st_of cd l r i :
  layer_cell cd l r i =
  st_of (has_col (nth l (cd_other_idx cd) []) i, nth i (rearrange (nth l (cd_other_idx cd) []) r) []).
Proof.
  unfold layer_cell, st_of, has_col. rewrite nth_rearrange. cbn [fst snd].
  now destruct (nth i (nth l (cd_other_idx cd) []) None).
Qed.

Definition lcs_of (cd : coldiff) (m : mrec) (i : nat) : list (bool * bytes) :=
  map (fun lr => (has_col (nth (fst lr) (cd_other_idx cd) []) i,
                  nth i (rearrange (nth (fst lr) (cd_other_idx cd) []) (snd lr)) []))
      (uniq_layers 0 (m_others m)).

Lemma lcs_wf cd m i : Forall wf_lc (lcs_of cd m i).
Proof.
  unfold lcs_of. apply Forall_forall. intros lc H. apply in_map_iff in H as (lr & <- & _).
  unfold wf_lc, has_col; cbn [fst snd]. rewrite nth_rearrange.
  destruct (nth i (nth (fst lr) (cd_other_idx cd) []) None); [discriminate|reflexivity].
Qed.

(** the states of the surviving rows are, as a set, those of all participating layers *)
Lemma states_same cd m i (P0 : list cst) :
  dedupe_ok cd m ->
  (forall s, In s P0 <-> s = SNoCell /\ row_removed m = true) ->
  forall s, In s (P0 ++ map st_of (lcs_of cd m i)) <-> In s (states cd m i).
Proof.
  intros Hd HP0 s. rewrite in_app_iff, states_in, HP0. split.
  - intros [[-> Hr]|H].
    + right. split; [reflexivity|]. unfold row_removed in Hr. apply andb_true_iff in Hr as [Hb He].
      split; [assumption|]. apply existsb_exists in He as (o & Hin & Ho). destruct o; [discriminate|].
      apply In_nth_error in Hin as [l Hl]. now exists l.
    + left. unfold lcs_of in H. rewrite map_map in H. apply in_map_iff in H as ([l r] & <- & Hin).
      apply uniq_layers_sound in Hin as [_ Hn]. rewrite Nat.sub_0_r in Hn.
      exists l, r. split; [assumption|]. cbn [fst snd]. symmetry. apply layer_cell_st_of.
  - intros [(l & r & Hn & ->)|(-> & Hb & l & Hn)].
    + right. destruct (uniq_layers_complete (m_others m) 0 l r Hn) as (l' & r' & Hin & Hk).
      pose proof (uniq_layers_sound _ _ _ _ Hin) as [_ Hn']. rewrite Nat.sub_0_r in Hn'.
      rewrite <- (Hd l' l r' r Hn' Hn Hk i).
      unfold lcs_of. rewrite map_map. apply in_map_iff. exists (l', r'). split; [|assumption].
      cbn [fst snd]. symmetry. apply layer_cell_st_of.
    + left. split; [reflexivity|]. unfold row_removed. rewrite Hb. cbn [andb].
      apply existsb_exists. exists None. split; [|reflexivity]. now apply nth_error_In in Hn.
Qed.

Lemma resolve_cell_spec cd m i :
  cd_consistent cd -> length (m_others m) = cd_layers cd -> dedupe_ok cd m ->
  i < length (cd_names cd) ->
  let st := resolve_cell cd (base_row_of cd m) (rem_layers_of m) (rows_of cd m) i in
  c_unres st = conflictb (base_st cd m i) (states cd m i) /\
  (row_removed m = false -> conflictb (base_st cd m i) (states cd m i) = false ->
   c_res st = render (spec_value (base_st cd m i) (states cd m i))).
Proof.
  intros (Hlb & Hlo & Hcons) Hlen Hd Hi st. subst st.
  rewrite resolve_cell_kstep.
  (* facts about the layers involved *)
  assert (Hlay : forall l r, In (l, r) (uniq_layers 0 (m_others m)) -> l < cd_layers cd).
  { intros l r H. apply uniq_layers_sound in H as [_ H]. rewrite Nat.sub_0_r in H.
    rewrite <- Hlen. apply nth_error_Some. congruence. }
  assert (Hrl : forall l, In l (rem_layers_of m) -> l < cd_layers cd).
  { intros l H. unfold rem_layers_of in H. destruct (m_base m); [|destruct H].
    apply none_positions_spec in H as [_ H]. rewrite Nat.sub_0_r in H.
    rewrite <- Hlen. apply nth_error_Some. congruence. }
  assert (Hbase : base_cell (base_row_of cd m) i =
                  match nth i (cd_base_idx cd) None, m_base m with
                  | Some j, Some b => nth j b []
                  | _, _ => []
                  end).
  { unfold base_cell, base_row_of. destruct (m_base m) as [b|]; cbn [option_map].
    - rewrite nth_rearrange. now destruct (nth i (cd_base_idx cd) None).
    - now destruct (nth i (cd_base_idx cd) None). }
  assert (Hpres : is_some (base_row_of cd m) = is_some (m_base m)).
  { unfold base_row_of. now destruct (m_base m). }
  assert (Hr0 : (rem_layers_of m <> [] -> is_some (m_base m) = true)).
  { unfold rem_layers_of. destruct (m_base m); [reflexivity|congruence]. }
  destruct (has_col (cd_base_idx cd) i) eqn:Ebh.
  - (* a column of the base *)
    assert (Ej : exists j, nth i (cd_base_idx cd) None = Some j).
    { unfold has_col in Ebh. destruct (nth i (cd_base_idx cd) None) as [j|]; [now exists j|discriminate]. }
    destruct Ej as [j Ej].
    set (bv := base_cell (base_row_of cd m) i) in *.
    set (bpres := is_some (base_row_of cd m)) in *.
    set (r0 := match rem_layers_of m with [] => false | _ => true end).
    assert (Einit : cell_init cd (base_row_of cd m) (rem_layers_of m) i =
                    {| c_add := None; c_mod := None; c_rem := r0; c_res := bv; c_unres := false |}).
    { unfold cell_init. f_equal.
      subst r0. destruct (rem_layers_of m) as [|l t] eqn:E; [reflexivity|].
      cbn [existsb]. destruct (Hcons l (Hrl l (or_introl eq_refl))) as [_ Hc].
      destruct (Hc i Hi) as [Ha _]. rewrite Ha, Ebh. cbn [negb].
      now rewrite andb_false_r. }
    assert (Emap : map (fun lr => (in_added cd (fst lr) i, in_removed cd (fst lr) i, nth i (snd lr) [])) (rows_of cd m)
                   = map (fun lc : bool * bytes => (false, negb (fst lc), snd lc)) (lcs_of cd m i)).
    { unfold rows_of, lcs_of. rewrite !map_map. apply map_ext_in. intros [l r] Hin. cbn [fst snd].
      destruct (Hcons l (Hlay l r Hin)) as [_ Hc]. destruct (Hc i Hi) as [Ha Hr].
      rewrite Ha, Hr, Ebh. cbn [negb andb]. now rewrite andb_false_r. }
    rewrite Einit, Emap.
    assert (Hbv : bpres = false -> bv = []).
    { subst bpres bv. rewrite Hbase, Hpres, Ej. now destruct (m_base m). }
    assert (Hr0b : r0 = true -> bpres = true).
    { subst r0 bpres. rewrite Hpres. destruct (rem_layers_of m) eqn:E; [discriminate|].
      intros _. apply Hr0. congruence. }
    pose proof (InvB_fold bpres bv r0 Hbv (lcs_of cd m i) (if r0 then [SNoCell] else [])
                  {| c_add := None; c_mod := None; c_rem := r0; c_res := bv; c_unres := false |}) as HI.
    assert (Hna0 : no_absent (if r0 then [SNoCell] else [])).
    { destruct r0; repeat constructor; discriminate. }
    specialize (HI Hna0 (lcs_wf cd m i) (InvB_init bpres bv r0 Hbv Hr0b)).
    destruct HI as (_ & Hun & Hst).
    assert (Ebst : (if bpres then SVal bv else SAbsent) = base_st cd m i).
    { unfold base_st. rewrite Ej. subst bpres bv. rewrite Hbase, Hpres, Ej. now destruct (m_base m). }
    rewrite Ebst in *.
    assert (Hsame : forall s, In s ((if r0 then [SNoCell] else []) ++ map st_of (lcs_of cd m i)) <-> In s (states cd m i)).
    { apply states_same; [assumption|]. intros s. subst r0.
      rewrite <- rem_layers_nonempty. destruct (rem_layers_of m); cbn; split.
      - intros []. - intros [_ H]. congruence.
      - intros [<-|[]]. split; [reflexivity|discriminate]. - intros [-> _]. now left. }
    assert (Hsc : same_changes (base_st cd m i) ((if r0 then [SNoCell] else []) ++ map st_of (lcs_of cd m i)) (states cd m i)).
    { intros s _. apply Hsame. }
    rewrite (conflictb_same _ _ _ Hsc) in Hun, Hst.
    split; [exact Hun|].
    intros Hrr Hnc. destruct (Hst Hnc) as (_ & _ & Hres).
    rewrite Hres.
    + f_equal. apply spec_value_same; [assumption|]. now rewrite (conflictb_same _ _ _ Hsc).
    + subst r0. destruct (rem_layers_of m) eqn:E; [reflexivity|].
      assert (Hne : rem_layers_of m <> []) by congruence. apply rem_layers_nonempty in Hne. congruence.
  - (* a column the base does not have *)
    assert (Ej : nth i (cd_base_idx cd) None = None).
    { unfold has_col in Ebh. destruct (nth i (cd_base_idx cd) None) as [j|]; [discriminate|reflexivity]. }
    assert (Ebv : base_cell (base_row_of cd m) i = []).
    { rewrite Hbase, Ej. reflexivity. }
    rewrite Ebv.
    set (bpres := is_some (base_row_of cd m)) in *.
    set (r0 := existsb (fun layer => negb (in_added cd layer i)) (rem_layers_of m)).
    assert (Einit : cell_init cd (base_row_of cd m) (rem_layers_of m) i =
                    {| c_add := None; c_mod := None; c_rem := r0; c_res := []; c_unres := false |}).
    { unfold cell_init. f_equal. fold (base_cell (base_row_of cd m) i). exact Ebv. }
    assert (Emap : map (fun lr => (in_added cd (fst lr) i, in_removed cd (fst lr) i, nth i (snd lr) [])) (rows_of cd m)
                   = map (fun lc : bool * bytes => (fst lc, false, snd lc)) (lcs_of cd m i)).
    { unfold rows_of, lcs_of. rewrite !map_map. apply map_ext_in. intros [l r] Hin. cbn [fst snd].
      destruct (Hcons l (Hlay l r Hin)) as [_ Hc]. destruct (Hc i Hi) as [Ha Hr].
      rewrite Ha, Hr, Ebh. cbn [negb andb]. now rewrite andb_true_r. }
    rewrite Einit, Emap.
    assert (Hr0b : r0 = true -> bpres = true).
    { subst r0 bpres. rewrite Hpres. intros H. apply Hr0. intros E. rewrite E in H. discriminate H. }
    pose proof (InvA_fold bpres (lcs_of cd m i) []
                  {| c_add := None; c_mod := None; c_rem := r0; c_res := []; c_unres := false |}
                  (Forall_nil _) (lcs_wf cd m i) (InvA_init bpres r0 Hr0b)) as (Hun & Hst).
    cbn [app] in Hun, Hst.
    assert (Ebst : SNoCell = base_st cd m i) by (unfold base_st; now rewrite Ej).
    rewrite Ebst in *.
    assert (Hsc : same_changes (base_st cd m i) (map st_of (lcs_of cd m i)) (states cd m i)).
    { intros s Hc.
      pose proof (states_same cd m i (if row_removed m then [SNoCell] else []) Hd) as Hs.
      assert (HP0 : forall s, In s (if row_removed m then [SNoCell] else []) <-> s = SNoCell /\ row_removed m = true).
      { intros s'. destruct (row_removed m); cbn; split.
        - intros [<-|[]]. now split. - intros [-> _]. now left.
        - intros []. - intros [_ H]. discriminate H. }
      specialize (Hs HP0 s). rewrite <- Hs, in_app_iff. split; [now right|].
      intros [H|H]; [|assumption]. exfalso. apply HP0 in H as [-> _]. rewrite <- Ebst in Hc. discriminate Hc. }
    rewrite (conflictb_same _ _ _ Hsc) in Hun, Hst.
    split; [exact Hun|].
    intros _ Hnc. destruct (Hst Hnc) as (_ & Hres & _). rewrite Hres.
    f_equal. apply spec_value_same; [assumption|]. now rewrite (conflictb_same _ _ _ Hsc).
Qed.

(** ---- tryResolve / Resolve as a whole ---- *)
Lemma flagged_positions {A} (f : A -> bool) (d : A) (l : list A) k i :
  In i (map fst (filter (fun p => f (snd p)) (combine (seq k (length l)) l))) <->
  k <= i < k + length l /\ f (nth (i - k) l d) = true.
Proof.
  revert k. induction l as [|x l IH]; intros k; cbn [length seq combine filter map].
  - split; [intros []|]. intros [H _]. lia.
  - cbn [snd]. destruct (f x) eqn:E; cbn [map fst In]; rewrite IH; split.
    + intros [<-|[Hk H]].
      * split; [lia|]. now rewrite Nat.sub_diag.
      * split; [lia|]. replace (i - k) with (S (i - S k)) by lia. exact H.
    + intros [Hk H]. destruct (i - k) as [|n] eqn:En; [left; lia|].
      right. split; [lia|]. replace (i - S k) with n by lia. exact H.
    + intros [Hk H]. split; [lia|]. replace (i - k) with (S (i - S k)) by lia. exact H.
    + intros [Hk H]. destruct (i - k) as [|n] eqn:En; [cbn in H; congruence|].
      split; [lia|]. replace (i - S k) with n by lia. exact H.
Qed.

Lemma try_resolve_cells cd m :
  try_resolve cd m =
  let cells := map (resolve_cell cd (base_row_of cd m) (rem_layers_of m) (rows_of cd m)) (seq 0 (length (cd_names cd))) in
  let unres := map fst (filter (fun p => c_unres (snd p)) (combine (seq 0 (length cells)) cells)) in
  {| r_resolved := match rem_layers_of m with
                   | [] => match unres with [] => true | _ => false end
                   | _ => false
                   end;
     r_row := Some (map c_res cells);
     r_unres := unres |}.
Proof. reflexivity. Qed.

Definition dummy_cstate : cstate := {| c_add := None; c_mod := None; c_rem := false; c_res := []; c_unres := false |}.

Lemma try_resolve_unres cd m i :
  In i (r_unres (try_resolve cd m)) <->
  i < length (cd_names cd) /\
  c_unres (resolve_cell cd (base_row_of cd m) (rem_layers_of m) (rows_of cd m) i) = true.
Proof.
  rewrite try_resolve_cells. cbn [r_unres].
  rewrite (flagged_positions c_unres dummy_cstate). rewrite map_length, seq_length, Nat.sub_0_r.
  split; intros [Hi H].
  - split; [lia|]. rewrite (nth_indep _ _ (resolve_cell cd (base_row_of cd m) (rem_layers_of m) (rows_of cd m) 0)) in H
      by (rewrite map_length, seq_length; lia).
    rewrite map_nth, seq_nth in H by lia. exact H.
  - split; [lia|]. rewrite (nth_indep _ _ (resolve_cell cd (base_row_of cd m) (rem_layers_of m) (rows_of cd m) 0))
      by (rewrite map_length, seq_length; lia).
    rewrite map_nth, seq_nth by lia. exact H.
Qed.

Lemma try_resolve_row cd m i :
  i < length (cd_names cd) ->
  exists row, r_row (try_resolve cd m) = Some row /\ length row = length (cd_names cd) /\
              nth i row [] = c_res (resolve_cell cd (base_row_of cd m) (rem_layers_of m) (rows_of cd m) i).
Proof.
  intros Hi. rewrite try_resolve_cells. cbn [r_row]. eexists. split; [reflexivity|].
  split; [now rewrite !map_length, seq_length|].
  rewrite map_map.
  rewrite (nth_indep _ [] ((fun j => c_res (resolve_cell cd (base_row_of cd m) (rem_layers_of m) (rows_of cd m) j)) 0))
    by (rewrite map_length, seq_length; lia).
  rewrite (map_nth (fun j => c_res (resolve_cell cd (base_row_of cd m) (rem_layers_of m) (rows_of cd m) j))).
  rewrite seq_nth by lia. reflexivity.
Qed.

(** Row level, any number of layers: column i is reported unresolved exactly when the
    specification finds two different changes; otherwise (no branch removed the row)
    the resolved cell is the specified value. *)
Theorem resolve_cell_correct cd m i :
  cd_consistent cd -> length (m_others m) = cd_layers cd -> dedupe_ok cd m ->
  i < length (cd_names cd) ->
  (In i (r_unres (try_resolve cd m)) <-> conflictb (base_st cd m i) (states cd m i) = true) /\
  (row_removed m = false -> conflictb (base_st cd m i) (states cd m i) = false ->
   exists row, r_row (try_resolve cd m) = Some row /\
               nth i row [] = render (spec_value (base_st cd m i) (states cd m i))).
Proof.
  intros Hc Hl Hd Hi.
  destruct (resolve_cell_spec cd m i Hc Hl Hd Hi) as [Hun Hres].
  split.
  - rewrite try_resolve_unres, Hun. split; [now intros [_ H]|now split].
  - intros Hr Hnc. destruct (try_resolve_row cd m i Hi) as (row & Hrow & _ & Hn).
    exists row. split; [assumption|]. rewrite Hn. now apply Hres.
Qed.

(** the record is reported resolved exactly when no branch removed the row and no column conflicts *)
Theorem resolved_flag_correct cd m :
  cd_consistent cd -> length (m_others m) = cd_layers cd -> dedupe_ok cd m ->
  (r_resolved (try_resolve cd m) = true <->
   row_removed m = false /\
   forall i, i < length (cd_names cd) -> conflictb (base_st cd m i) (states cd m i) = false).
Proof.
  intros Hc Hl Hd.
  assert (Hun : forall i, In i (r_unres (try_resolve cd m)) <->
                     i < length (cd_names cd) /\ conflictb (base_st cd m i) (states cd m i) = true).
  { intros i. rewrite try_resolve_unres. split; intros [Hi H]; (split; [assumption|]).
    - now rewrite <- (proj1 (resolve_cell_spec cd m i Hc Hl Hd Hi)).
    - now rewrite (proj1 (resolve_cell_spec cd m i Hc Hl Hd Hi)). }
  assert (Hres : r_resolved (try_resolve cd m) = true <-> rem_layers_of m = [] /\ r_unres (try_resolve cd m) = []).
  { rewrite try_resolve_cells. cbn [r_resolved r_unres].
    destruct (rem_layers_of m); [|split; [discriminate|intros [H _]; discriminate H]].
    destruct (map fst _); split; try discriminate; auto. intros [_ H]; discriminate H. }
  rewrite Hres. split.
  - intros [Hr Hu]. split.
    + destruct (row_removed m) eqn:E; [|reflexivity]. apply rem_layers_nonempty in E. congruence.
    + intros i Hi. destruct (conflictb _ _) eqn:E; [|reflexivity].
      assert (In i (r_unres (try_resolve cd m))) by (apply Hun; now split). rewrite Hu in H. destruct H.
  - intros [Hr Hall]. split.
    + destruct (rem_layers_of m) eqn:E; [reflexivity|].
      assert (Hne : rem_layers_of m <> []) by congruence. apply rem_layers_nonempty in Hne. congruence.
    + destruct (r_unres (try_resolve cd m)) as [|i t]; [reflexivity|].
      assert (Hi : In i (i :: t)) by (now left).
      apply Hun in Hi as [Hi Hc']. rewrite (Hall i Hi) in Hc'. discriminate Hc'.
Qed.

(** ---- never silent: where a cell of the resolved row comes from ---- *)
Lemma kstep_origin bpres bv st x :
  kstep bpres bv st x = st \/ c_res (kstep bpres bv st x) = snd x \/ c_unres (kstep bpres bv st x) = true.
Proof.
  destruct x as [[ad rm] v]. unfold kstep. cbn [snd].
  destruct ad.
  - destruct (c_add st) as [a|]; [destruct (beqb a v)|]; auto.
  - destruct (c_add st) as [a|]; [auto|].
    destruct rm; [destruct (c_mod st); auto|].
    destruct (negb bpres || negb (beqb bv v)).
    + destruct (c_rem st); [auto|]. destruct (c_mod st) as [mv|]; [destruct (beqb mv v)|]; auto.
    + destruct (c_rem st || is_some (c_mod st)); auto.
Qed.

Lemma kstep_unres_mono bpres bv st x : c_unres st = true -> c_unres (kstep bpres bv st x) = true.
Proof.
  intros H. destruct x as [[ad rm] v]. unfold kstep.
  destruct ad.
  - destruct (c_add st) as [a|]; [destruct (beqb a v)|]; auto.
  - destruct (c_add st) as [a|]; [auto|].
    destruct rm; [destruct (c_mod st); auto|].
    destruct (negb bpres || negb (beqb bv v)).
    + destruct (c_rem st); [auto|]. destruct (c_mod st) as [mv|]; [destruct (beqb mv v)|]; auto.
    + destruct (c_rem st || is_some (c_mod st)); auto.
Qed.

Definition from_seen (bpres : bool) (bv : bytes) (seen : list (bool * bool * bytes)) (st : cstate) : Prop :=
  c_unres st = false -> (bpres = true /\ c_res st = bv) \/ exists x, In x seen /\ c_res st = snd x.

Lemma from_seen_fold bpres bv l : forall seen st,
  from_seen bpres bv seen st -> from_seen bpres bv (seen ++ l) (fold_left (kstep bpres bv) l st).
Proof.
  induction l as [|x l IH]; intros seen st H; cbn [fold_left]; [now rewrite app_nil_r|].
  replace (seen ++ x :: l) with ((seen ++ [x]) ++ l) by (now rewrite <- app_assoc).
  apply IH. intros Hu.
  destruct (kstep_origin bpres bv st x) as [E|[E|E]].
  - rewrite E in *. destruct (H Hu) as [Hb|(y & Hy & Hr)]; [now left|].
    right. exists y. split; [apply in_or_app; now left|assumption].
  - right. exists x. split; [apply in_or_app; right; now left|assumption].
  - congruence.
Qed.

Lemma first_step_assigns bv st x :
  c_add st = None -> c_mod st = None -> c_rem st = false ->
  c_res (kstep false bv st x) = snd x.
Proof.
  intros Ha Hm Hr. destruct x as [[ad rm] v]. unfold kstep. rewrite Ha, Hm, Hr. cbn [snd negb orb].
  destruct ad; [reflexivity|]. destruct rm; reflexivity.
Qed.

Lemma resolve_cell_origin cd m i :
  rows_of cd m <> [] ->
  let st := resolve_cell cd (base_row_of cd m) (rem_layers_of m) (rows_of cd m) i in
  c_unres st = false ->
  (is_some (m_base m) = true /\ c_res st = base_cell (base_row_of cd m) i) \/
  exists lr, In lr (rows_of cd m) /\ c_res st = nth i (snd lr) [].
Proof.
  intros Hne st Hu. subst st. rewrite resolve_cell_kstep in *.
  set (tr := fun lr : nat * row => (in_added cd (fst lr) i, in_removed cd (fst lr) i, nth i (snd lr) [])) in *.
  assert (Hpres : is_some (base_row_of cd m) = is_some (m_base m)).
  { unfold base_row_of. now destruct (m_base m). }
  assert (Hfin : forall seen st, from_seen (is_some (base_row_of cd m)) (base_cell (base_row_of cd m) i) seen st ->
            (forall x, In x seen -> In x (map tr (rows_of cd m))) ->
            forall l, (forall x, In x l -> In x (map tr (rows_of cd m))) ->
            c_unres (fold_left (kstep (is_some (base_row_of cd m)) (base_cell (base_row_of cd m) i)) l st) = false ->
            (is_some (m_base m) = true /\
             c_res (fold_left (kstep (is_some (base_row_of cd m)) (base_cell (base_row_of cd m) i)) l st) = base_cell (base_row_of cd m) i) \/
            exists lr, In lr (rows_of cd m) /\
             c_res (fold_left (kstep (is_some (base_row_of cd m)) (base_cell (base_row_of cd m) i)) l st) = nth i (snd lr) []).
  { intros seen st HJ Hs l Hl Hun.
    destruct (from_seen_fold _ _ l seen st HJ Hun) as [[Hb Hr]|(x & Hx & Hr)].
    - left. split; [now rewrite <- Hpres|assumption].
    - right. assert (Hin : In x (map tr (rows_of cd m))).
      { apply in_app_or in Hx as [Hx|Hx]; auto. }
      apply in_map_iff in Hin as (lr & <- & Hlr). exists lr. split; [assumption|exact Hr]. }
  destruct (is_some (m_base m)) eqn:Eb.
  - (* base row present: the initial cell is the base cell *)
    apply (Hfin [] _); [|intros x []|auto|exact Hu].
    intros _. left. split; [now rewrite Hpres|reflexivity].
  - (* no base row: the first row always assigns *)
    destruct (rows_of cd m) as [|lr0 rest] eqn:Er; [congruence|].
    cbn [map fold_left] in *.
    assert (Erem : rem_layers_of m = []).
    { unfold rem_layers_of. destruct (m_base m); [discriminate|reflexivity]. }
    rewrite Erem in *. rewrite Hpres in *.
    apply (Hfin [tr lr0] _); [| |intros x Hx; now right|exact Hu].
    + intros _. right. exists (tr lr0). split; [now left|].
      apply first_step_assigns; reflexivity.
    + intros x [<-|[]]. now left.
Qed.

Lemma filter_length_pos {A} (f : A -> bool) l : length (filter f l) <> 0 -> exists x, In x l /\ f x = true.
Proof.
  induction l as [|x l IH]; cbn; [congruence|]. destruct (f x) eqn:E.
  - intros _. exists x. split; [now left|assumption].
  - intros H. destruct (IH H) as (y & Hy & Hf). exists y. split; [now right|assumption].
Qed.

(** Any number of layers, no hypothesis on the ColDiff: every cell of a row that the
    resolver reports as resolved is the base's cell or some branch's cell for that
    key and column (as seen through the index maps; "" where that table has no such column). *)
Theorem never_silent cd m row i :
  r_resolved (resolve cd m) = true -> r_row (resolve cd m) = Some row -> i < length (cd_names cd) ->
  (is_some (m_base m) = true /\ nth i row [] = render (base_st cd m i)) \/
  (exists l raw, nth_error (m_others m) l = Some (Some raw) /\ nth i row [] = render (layer_cell cd l raw i)).
Proof.
  unfold resolve.
  destruct (Nat.eqb (length (filter is_some (m_others m))) 0 || _) eqn:Eearly; [cbn; discriminate|].
  intros Hres Hrow Hi.
  apply orb_false_iff in Eearly as [Enn _]. apply Nat.eqb_neq in Enn.
  destruct (filter_length_pos _ _ Enn) as (o & Hin & Ho). destruct o as [raw0|]; [|discriminate].
  apply In_nth_error in Hin as [d Hd].
  destruct (uniq_layers_complete (m_others m) 0 d raw0 Hd) as (l0 & r0 & Hl0 & _).
  assert (Hne : rows_of cd m <> []).
  { unfold rows_of. intros E. apply map_eq_nil in E. rewrite E in Hl0. destruct Hl0. }
  destruct (try_resolve_row cd m i Hi) as (row' & Hrow' & _ & Hn).
  rewrite Hrow in Hrow'. injection Hrow' as <-.
  assert (Hun : c_unres (resolve_cell cd (base_row_of cd m) (rem_layers_of m) (rows_of cd m) i) = false).
  { destruct (c_unres _) eqn:E; [|reflexivity]. exfalso.
    assert (Hiu : In i (r_unres (try_resolve cd m))) by (apply try_resolve_unres; now split).
    rewrite try_resolve_cells in Hres, Hiu. cbn [r_resolved r_unres] in Hres, Hiu.
    destruct (rem_layers_of m); [|discriminate]. destruct (map fst _); [destruct Hiu|discriminate]. }
  destruct (resolve_cell_origin cd m i Hne Hun) as [[Hb Hr]|(lr & Hlr & Hr)].
  - left. split; [assumption|]. rewrite Hn, Hr.
    unfold base_cell, base_row_of, base_st. destruct (m_base m) as [b|]; [|discriminate]. cbn [option_map].
    rewrite nth_rearrange. now destruct (nth i (cd_base_idx cd) None).
  - right. unfold rows_of in Hlr. apply in_map_iff in Hlr as ([l raw] & <- & Hin').
    apply uniq_layers_sound in Hin' as [_ Hnth]. rewrite Nat.sub_0_r in Hnth.
    exists l, raw. split; [assumption|]. rewrite Hn, Hr. cbn [fst snd].
    rewrite nth_rearrange. unfold layer_cell. now destruct (nth i (nth l (cd_other_idx cd) []) None).
Qed.
