(** C16 - data-race freedom of the worker pool: conflicting accesses to the shared fields
    are ordered by happens-before (program order + mutex release/acquire + wg.Done/Wait). *)
From W.lib Require Import Tree.
From W.model Require Import Pool PoolSpec.
From W.proofs Require Import PoolBase_proofs Pool_proofs.
From Coq Require Import Arith Lia Relations.
Local Open Scope nat_scope.
Set Default Proof Using "All".

Definition is_acc (l : lab) : bool := match l with LAcc _ _ => true | _ => false end.
Definition is_sync_acc (l : lab) : bool :=
  match l with LLock | LUnlock | LAcc _ _ => true | _ => false end.
Definition wtid (k : nat) : nat := S (S (S k)).

(* ---------------------------------------------------------------- list decompositions *)
Lemma snoc_split {A} (tr : list A) x a y b :
  tr ++ [x] = a ++ y :: b ->
  (b = [] /\ tr = a /\ x = y) \/ (exists b', b = b' ++ [x] /\ tr = a ++ y :: b').
Proof.
  intros H. destruct (@exists_last _ (y :: b) ltac:(discriminate)) as (b0 & z & E).
  destruct b0 as [|y0 b0].
  - simpl in E. inversion E; subst. left.
    change (a ++ [z]) with (a ++ [z]) in H. apply app_inj_tail in H as [-> ->]. auto.
  - simpl in E. inversion E; subst. right. exists b0.
    rewrite app_comm_cons, app_assoc in H. apply app_inj_tail in H as [-> ->]. auto.
Qed.

Lemma two_splits {A} (a : list A) x b c y d :
  a ++ x :: b = c ++ y :: d ->
  (a = c /\ x = y /\ b = d) \/
  (exists m, c = a ++ x :: m /\ b = m ++ y :: d) \/
  (exists m, a = c ++ y :: m /\ d = m ++ x :: b).
Proof.
  revert c. induction a as [|a0 a IH]; intros [|c0 c] H; simpl in H.
  - inversion H; auto.
  - inversion H; subst. right; left. exists c. auto.
  - inversion H; subst. right; right. exists a. auto.
  - inversion H; subst. destruct (IH c H2) as [(-> & -> & ->)|[(m & -> & ->)|(m & -> & ->)]]; auto.
    + right; left. exists m. auto.
    + right; right. exists m. auto.
Qed.

Lemma in_split_l {A} (x : A) l : In x l -> exists l1 l2, l = l1 ++ x :: l2.
Proof. apply in_split. Qed.

(* ---------------------------------------------------------------- shape of steps *)
Section HB.
  Variable c : cfg.
  Hypothesis Hok : cfg_ok c.
  Local Notation InvC := (InvC c).

  Lemma nonworker_step t s s' l :
    t < 3 -> step c t s = Some (s', l) ->
    is_sync_acc l = false /\ exists extra, ws s' = ws s ++ extra /\ Forall (fun w => in_cs w = false) extra.
  Proof.
    intros Ht H. unfold step in H. destruct (panicked s); [discriminate|].
    assert (Hnil : forall A (l : list A), l = l ++ []) by (intros; now rewrite app_nil_r).
    destruct t as [|[|[|t]]]; [| | |lia].
    - unfold step_main in H. destruct (mainpc s) as [|a pc]; [discriminate|].
      destruct a; simpl in H;
        try (destruct (wg s)); try (destruct (eclosed s)); try (destruct (sclosed s));
        try (destruct (buf s)); try (destruct (closed s)); try (destruct (ebuf s)); try (destruct (sbuf s));
        try discriminate; inversion H; subst; clear H; simpl; split; auto;
        try (exists []; split; [apply Hnil|constructor]).
      all: exists (repeat worker0 (c_w c)); split; auto; apply Forall_forall; intros x Hx;
        apply repeat_spec in Hx; subst; reflexivity.
    - unfold step_prod in H. destruct (pend s) as [|[b|] p].
      + destruct (closed s); [discriminate|]. inversion H; subst; simpl. split; auto. exists []. auto.
      + destruct (c_select c || ppolled s).
        * destruct (List.length (buf s) <? c_ccap c); [|discriminate]. inversion H; subst; simpl. split; auto. exists []; auto.
        * destruct (cancelled s); inversion H; subst; simpl; split; auto; exists []; auto.
      + destruct (sclosed s); [inversion H; subst; simpl; split; auto; exists []; auto|].
        destruct (List.length (sbuf s) <? 1); [|discriminate]. inversion H; subst; simpl. split; auto. exists []; auto.
    - unfold step_prod_cancel in H. destruct (pend s) as [|[b|] p]; try discriminate.
      destruct (c_select c && cancelled s); [|discriminate]. inversion H; subst; simpl. split; auto. exists []; auto.
  Qed.

  (* what a worker step does to its critical-section status, by label *)
  Lemma worker_step_shape k s s' l :
    InvC s -> step_worker c k s = Some (s', l) ->
    exists wk, nth_error (ws s) k = Some wk /\
    ((ws s' = ws s /\ l = LPanic) \/
     exists wk', ws s' = set_nth k wk' (ws s) /\
       ((l = LLock /\ in_cs wk = false /\ in_cs wk' = true) \/
        (l = LUnlock /\ in_cs wk = true /\ in_cs wk' = false) \/
        (is_acc l = true /\ in_cs wk = true /\ in_cs wk' = true) \/
        (is_sync_acc l = false /\ in_cs wk' = in_cs wk))).
  Proof.
    intros I H. unfold step_worker in H.
    destruct (nth_error (ws s) k) as [wk|] eqn:Hk; [|discriminate].
    exists wk. split; auto.
    pose proof (ic_wf c s I k wk Hk) as Hwf. unfold wf_w in Hwf.
    destruct wk as [stt trc tab]; simpl in *.
    destruct stt as [|pc cur|cur| |]; try discriminate.
    - destruct (buf s) as [|b r].
      + destruct (closed s); [|discriminate]. inversion H; subst; clear H. right.
        eexists; split; [reflexivity|]. right; right; right. auto.
      + inversion H; subst; clear H. right. eexists; split; [reflexivity|]. right; right; right.
        split; auto. rewrite (next_st_in_cs c Hok). destruct (body_nonempty c Hok) as (? & ? & _ & E). exact E.
    - destruct pc as [|a pc]; [discriminate|]. destruct Hwf as [Hsuf _].
      destruct (body_positions _ a pc (ok_body c Hok) Hsuf) as
        [(-> & f & g & Hfg & ->)|[(-> & f & g & Hfg & ->)|[(-> & f & g & Hfg & ->)|[(f & g & Hfg & -> & ->)|
         [(f & g & Hfg & -> & ->)|[(g & -> & ->)|[(g & -> & ->)|(-> & ->)]]]]]]]; unfold cs_acts in *.
      + destruct (b_fail cur); inversion H; subst; clear H; right; eexists; (split; [reflexivity|]);
          right; right; right; auto.
      + destruct (b_fail cur); inversion H; subst; clear H; right; eexists; (split; [reflexivity|]);
          right; right; right; auto.
      + destruct (mutex s); [discriminate|]. inversion H; subst; clear H. right. eexists; split; [reflexivity|].
        left. auto.
      + destruct f; inversion H; subst; clear H; right; eexists; (split; [reflexivity|]); right; right; left; auto.
      + destruct f; inversion H; subst; clear H; right; eexists; (split; [reflexivity|]); right; right; left; auto.
      + destruct g; inversion H; subst; clear H; right; eexists; (split; [reflexivity|]); right; right; left; auto.
      + destruct g; inversion H; subst; clear H; right; eexists; (split; [reflexivity|]); right; right; left; auto.
      + destruct (mutex s); inversion H; subst; clear H; [|left; auto].
        right. eexists; split; [reflexivity|]. right; left. auto.
    - destruct (eclosed s); [inversion H; subst; left; auto|].
      destruct (List.length (ebuf s) <? c_ecap c); [|discriminate]. inversion H; subst; clear H. right.
      eexists; split; [reflexivity|]. right; right; right. auto.
    - destruct (wg s); inversion H; subst; clear H; [left; auto|]. right.
      eexists; split; [reflexivity|]. right; right; right. auto.
  Qed.

  (* ---------------------------------------------------------------- trace invariant *)
  Record TInv (tr : list ev) (s : st) : Prop := {
    t_who : forall t a, In (t, a) tr -> is_sync_acc a = true ->
              exists k wk, t = wtid k /\ nth_error (ws s) k = Some wk;
    t_in : forall k wk, nth_error (ws s) k = Some wk -> in_cs wk = true ->
              exists tr1 tr2, tr = tr1 ++ (wtid k, LLock) :: tr2 /\
                (forall t a, In (t, a) tr2 -> is_sync_acc a = true -> t = wtid k);
    t_out : forall k wk, nth_error (ws s) k = Some wk -> in_cs wk = false ->
              forall tr1 tr2 a, tr = tr1 ++ (wtid k, a) :: tr2 -> is_acc a = true ->
                In (wtid k, LUnlock) tr2;
    t_race : forall l1 t1 a1 l2 t2 a2 l3,
              tr = l1 ++ (t1, a1) :: l2 ++ (t2, a2) :: l3 -> is_acc a1 = true -> is_acc a2 = true ->
              t1 <> t2 ->
              exists m1 m2 m3, l2 = m1 ++ (t1, LUnlock) :: m2 ++ (t2, LLock) :: m3 }.

  Lemma TInv_init items : TInv [] (init c items).
  Proof.
    constructor; simpl.
    - intros ? ? [].
    - intros [|?] ? ?; discriminate.
    - intros [|?] ? ?; discriminate.
    - intros l1 ? ? ? ? ? ? H. destruct l1; discriminate.
  Qed.

  Lemma nth_error_app_some {A} (l e : list A) k x : nth_error l k = Some x -> nth_error (l ++ e) k = Some x.
  Proof. intros H. rewrite nth_error_app1; auto. eapply nth_error_lt; eauto. Qed.

  Lemma acc_sync a : is_acc a = true -> is_sync_acc a = true.
  Proof. destruct a; simpl; auto; discriminate. Qed.

  Lemma TInv_step tr s t s' l :
    InvC s -> TInv tr s -> step c t s = Some (s', l) -> TInv (tr ++ [(t, l)]) s'.
  Proof.
    intros I T H.
    destruct (le_lt_dec 3 t) as [Ht|Ht].
    - (* a worker step *)
      destruct t as [|[|[|k]]]; try lia. pose proof H as Hstep. unfold step in H. rewrite (ic_np c s I) in H.
      destruct (worker_step_shape k s s' l I H) as (wk & Hk & Hshape).
      destruct T as [Twho Tin Tout Trace].
      destruct Hshape as [[Ews ->]|(wk' & Ews & Hl)].
      + (* panic: nothing changes for the invariant *)
        constructor; rewrite ?Ews.
        * intros t0 a Hin Ha. apply in_app_or in Hin as [Hin|[E|[]]]; eauto. inversion E; subst. discriminate.
        * intros k0 wk0 H0 Hc. destruct (Tin k0 wk0 H0 Hc) as (tr1 & tr2 & -> & Hx).
          exists tr1, (tr2 ++ [(wtid k, LPanic)]). split; [now rewrite <- app_assoc|].
          intros t0 a Hin Ha. apply in_app_or in Hin as [Hin|[E|[]]]; eauto. inversion E; subst. discriminate.
        * intros k0 wk0 H0 Hc tr1 tr2 a E Ha.
          apply snoc_split in E as [(-> & -> & E)|(b' & -> & ->)]; [inversion E; subst; discriminate|].
          apply in_or_app. left. eapply Tout; eauto.
        * intros l1 t1 a1 l2 t2 a2 l3 E Ha1 Ha2 Hne.
          rewrite app_comm_cons, app_assoc in E.
          apply snoc_split in E as [(-> & -> & E)|(b' & -> & E)]; [inversion E; subst; discriminate|].
          rewrite <- app_assoc, <- app_comm_cons in E. eapply Trace; eauto.
      + assert (Hlt : k < List.length (ws s)) by (eapply nth_error_lt; eauto).
        assert (Hexcl : forall j wj, j <> k -> nth_error (ws s) j = Some wj -> in_cs wj = true ->
                          in_cs wk = false /\ in_cs wk' = false).
        { intros j wj Hne Hj Hc. pose proof (ic_cs c s I j wj Hj Hc) as Hm.
          destruct Hl as [(_ & ? & ?)|[(_ & E & _)|[(_ & E & _)|(_ & E)]]].
          - pose proof (InvC_step c Hok _ _ _ _ I Hstep) as I'.
            exfalso. assert (Hj' : nth_error (ws s') j = Some wj) by (rewrite Ews, set_nth_other; auto).
            assert (Hk' : nth_error (ws s') k = Some wk') by (rewrite Ews, set_nth_same; auto).
            pose proof (ic_cs c s' I' j wj Hj' Hc). pose proof (ic_cs c s' I' k wk' Hk' ltac:(auto)). congruence.
          - pose proof (ic_cs c s I k wk Hk E). congruence.
          - pose proof (ic_cs c s I k wk Hk E). congruence.
          - destruct (in_cs wk) eqn:Ec; [|rewrite E; auto].
            pose proof (ic_cs c s I k wk Hk Ec). congruence. }
        constructor; rewrite ?Ews.
        * (* t_who *)
          intros t0 a Hin Ha. apply in_app_or in Hin as [Hin|[E|[]]].
          -- destruct (Twho t0 a Hin Ha) as (k0 & wk0 & -> & H0). exists k0.
             destruct (Nat.eq_dec k0 k) as [->|Hne].
             ++ exists wk'. split; auto. apply set_nth_same; auto.
             ++ exists wk0. split; auto. rewrite set_nth_other; auto.
          -- inversion E; subst. exists k, wk'. split; auto. apply set_nth_same; auto.
        * (* t_in *)
          intros k0 wk0 H0 Hc. destruct (Nat.eq_dec k0 k) as [->|Hne].
          -- rewrite set_nth_same in H0 by auto. inversion H0; subst wk0; clear H0.
             destruct Hl as [(-> & _ & _)|[(_ & _ & E)|[(Ha & E & _)|(Ha & E)]]]; try congruence.
             ++ exists tr, []. split; auto. intros ? ? [].
             ++ destruct (Tin k wk Hk E) as (tr1 & tr2 & -> & Hx).
                exists tr1, (tr2 ++ [(wtid k, l)]). split; [now rewrite <- app_assoc|].
                intros t0 a Hin Hs. apply in_app_or in Hin as [Hin|[E0|[]]]; eauto. now inversion E0.
             ++ rewrite E in Hc. destruct (Tin k wk Hk Hc) as (tr1 & tr2 & -> & Hx).
                exists tr1, (tr2 ++ [(wtid k, l)]). split; [now rewrite <- app_assoc|].
                intros t0 a Hin Hs. apply in_app_or in Hin as [Hin|[E0|[]]]; eauto. now inversion E0.
          -- rewrite set_nth_other in H0 by auto.
             destruct (Hexcl k0 wk0 Hne H0 Hc) as [Hc1 Hc2].
             assert (Hns : is_sync_acc l = false).
             { destruct Hl as [(_ & _ & ?)|[(_ & ? & _)|[(_ & ? & _)|(? & _)]]]; auto; congruence. }
             destruct (Tin k0 wk0 H0 Hc) as (tr1 & tr2 & -> & Hx).
             exists tr1, (tr2 ++ [(wtid k, l)]). split; [now rewrite <- app_assoc|].
             intros t0 a Hin Hs. apply in_app_or in Hin as [Hin|[E0|[]]]; eauto. inversion E0; subst. congruence.
        * (* t_out *)
          intros k0 wk0 H0 Hc tr1 tr2 a E Ha. destruct (Nat.eq_dec k0 k) as [->|Hne].
          -- rewrite set_nth_same in H0 by auto. inversion H0; subst wk0; clear H0.
             apply snoc_split in E as [(-> & -> & E)|(b' & -> & ->)].
             ++ inversion E; subst. exfalso.
                destruct Hl as [(-> & _)|[(-> & _)|[(_ & _ & ?)|(Hs & _)]]]; try discriminate; try congruence.
                rewrite (acc_sync _ Ha) in Hs. discriminate.
             ++ apply in_or_app.
                destruct Hl as [(_ & _ & ?)|[(-> & _ & _)|[(_ & _ & ?)|(_ & E)]]]; try congruence.
                ** right. now left.
                ** left. rewrite E in Hc. eapply Tout; eauto.
          -- rewrite set_nth_other in H0 by auto.
             apply snoc_split in E as [(-> & -> & E)|(b' & -> & ->)]; [inversion E; unfold wtid in *; lia|].
             apply in_or_app. left. eapply Tout; eauto.
        * (* t_race *)
          intros l1 t1 a1 l2 t2 a2 l3 E Ha1 Ha2 Hne.
          rewrite app_comm_cons, app_assoc in E.
          apply snoc_split in E as [(-> & -> & E)|(b' & -> & E)].
          2:{ rewrite <- app_assoc, <- app_comm_cons in E. eapply Trace; eauto. }
          inversion E; subst t2 a2; clear E.
          (* the stepping worker k accesses a field: it is inside its critical section *)
          assert (Hc : in_cs wk = true).
          { destruct Hl as [(-> & _)|[(-> & _)|[(_ & ? & _)|(Hs & _)]]]; try discriminate; auto.
            rewrite (acc_sync _ Ha2) in Hs. discriminate. }
          destruct (Tin k wk Hk Hc) as (tr1 & tr2 & Etr & Hx).
          destruct (Twho t1 a1) as (k1 & wk1 & -> & Hk1).
          { rewrite Etr. rewrite <- Etr. apply in_or_app. right. now left. }
          { now apply acc_sync. }
          assert (Hk1k : k1 <> k) by (intros ->; apply Hne; reflexivity).
          apply two_splits in Etr as [(_ & E & _)|[(m & -> & ->)|(m & -> & ->)]].
          -- inversion E; subst. discriminate.
          -- (* the earlier access is before k's Lock *)
             assert (Hc1 : in_cs wk1 = false).
             { destruct (in_cs wk1) eqn:Ec1; auto. destruct (Hexcl k1 wk1 Hk1k Hk1 Ec1). congruence. }
             pose proof (Tout k1 wk1 Hk1 Hc1 l1 (m ++ (wtid k, LLock) :: tr2) a1 ltac:(first [reflexivity | now rewrite <- app_assoc]) Ha1) as Hu.
             apply in_app_or in Hu as [Hu|[Hu|Hu]].
             ++ apply in_split in Hu as (m1 & m2 & ->). exists m1, m2, tr2. now rewrite <- app_assoc.
             ++ inversion Hu.
             ++ specialize (Hx _ _ Hu eq_refl). unfold wtid in Hx. lia.
          -- (* the earlier access after k's Lock: impossible, it is by another thread *)
             exfalso. specialize (Hx (wtid k1) a1 ltac:(apply in_or_app; right; now left) (acc_sync _ Ha1)).
             unfold wtid in Hx. lia.
    - (* main / producer step *)
      destruct (nonworker_step t s s' l Ht H) as (Hns & extra & Ews & Hex).
      destruct T as [Twho Tin Tout Trace].
      assert (Hold : forall k wk, nth_error (ws s') k = Some wk ->
                nth_error (ws s) k = Some wk \/ (List.length (ws s) <= k /\ in_cs wk = false)).
      { intros k wk Hk. rewrite Ews in Hk. destruct (le_lt_dec (List.length (ws s)) k).
        - right. split; auto. rewrite nth_error_app2 in Hk by auto. apply nth_error_In in Hk.
          rewrite Forall_forall in Hex. auto.
        - left. rewrite nth_error_app1 in Hk; auto. }
      constructor.
      + intros t0 a Hin Ha. apply in_app_or in Hin as [Hin|[E|[]]].
        * destruct (Twho t0 a Hin Ha) as (k0 & wk0 & -> & H0). exists k0, wk0. split; auto.
          rewrite Ews. now apply nth_error_app_some.
        * inversion E; subst. congruence.
      + intros k wk Hk Hc. destruct (Hold k wk Hk) as [Hk0|[_ Hc0]]; [|congruence].
        destruct (Tin k wk Hk0 Hc) as (tr1 & tr2 & -> & Hx).
        exists tr1, (tr2 ++ [(t, l)]). split; [now rewrite <- app_assoc|].
        intros t0 a Hin Hs. apply in_app_or in Hin as [Hin|[E0|[]]]; eauto. inversion E0; subst. congruence.
      + intros k wk Hk Hc tr1 tr2 a E Ha.
        apply snoc_split in E as [(-> & -> & E)|(b' & -> & ->)].
        * inversion E; subst. rewrite (acc_sync _ Ha) in Hns. discriminate.
        * apply in_or_app. left. destruct (Hold k wk Hk) as [Hk0|[Hge _]].
          -- eapply Tout; eauto.
          -- exfalso. destruct (Twho (wtid k) a) as (k0 & wk0 & Ek & Hk0).
             { apply in_or_app. right. now left. } { now apply acc_sync. }
             unfold wtid in Ek. inversion Ek; subst k0. apply nth_error_lt in Hk0. lia.
      + intros l1 t1 a1 l2 t2 a2 l3 E Ha1 Ha2 Hne.
        rewrite app_comm_cons, app_assoc in E.
        apply snoc_split in E as [(-> & -> & E)|(b' & -> & E)].
        * inversion E; subst. rewrite (acc_sync _ Ha2) in Hns. discriminate.
        * rewrite <- app_assoc, <- app_comm_cons in E. eapply Trace; eauto.
  Qed.

  Lemma TInv_execs items tr s : execs c (init c items) tr s -> InvC s /\ TInv tr s.
  Proof.
    intros E. remember (init c items) as s0 eqn:E0. induction E; subst.
    - split; [apply InvC_init; auto|apply TInv_init].
    - destruct (IHE eq_refl) as [I T]. split; [eapply InvC_step; eauto|eapply TInv_step; eauto].
  Qed.

  (* ---------------------------------------------------------------- happens-before *)
  Lemma nth_error_mid {A} (l1 : list A) x l2 : nth_error (l1 ++ x :: l2) (List.length l1) = Some x.
  Proof. rewrite nth_error_app2 by lia. now rewrite Nat.sub_diag. Qed.

  Lemma nth_error_split_at {A} (l : list A) i x :
    nth_error l i = Some x -> exists l1 l2, l = l1 ++ x :: l2 /\ List.length l1 = i.
  Proof. intros H. apply nth_error_split in H as (l1 & l2 & -> & <-). eauto. Qed.

  (** in every execution, two accesses to the shared fields by different threads are
      separated by an Unlock of the first thread followed by a Lock of the second: they
      are ordered by happens-before *)
  Theorem accesses_hb items tr s i j t1 a1 t2 a2 :
    execs c (init c items) tr s ->
    i < j -> nth_error tr i = Some (t1, a1) -> nth_error tr j = Some (t2, a2) ->
    is_acc a1 = true -> is_acc a2 = true -> t1 <> t2 ->
    hb tr i j.
  Proof.
    intros E Hij Hi Hj Ha1 Ha2 Hne.
    destruct (TInv_execs items tr s E) as [_ T].
    apply nth_error_split_at in Hj as (p & l3 & -> & Lp).
    rewrite nth_error_app1 in Hi by lia.
    apply nth_error_split_at in Hi as (l1 & l2 & -> & L1).
    destruct (t_race _ _ T l1 t1 a1 l2 t2 a2 l3 ltac:(now rewrite <- app_assoc) Ha1 Ha2 Hne)
      as (m1 & m2 & m3 & ->).
    set (tr := (l1 ++ (t1, a1) :: m1 ++ (t1, LUnlock) :: m2 ++ (t2, LLock) :: m3) ++ (t2, a2) :: l3).
    set (pu := List.length (l1 ++ (t1, a1) :: m1)).
    set (pl := List.length (l1 ++ (t1, a1) :: m1 ++ (t1, LUnlock) :: m2)).
    assert (Hmid : forall (pre : list ev) x post l, l = pre ++ x :: post -> nth_error l (List.length pre) = Some x)
      by (intros ? ? ? ? ->; apply nth_error_mid).
    assert (Hpu : nth_error tr pu = Some (t1, LUnlock)).
    { unfold pu. apply Hmid with (post := m2 ++ (t2, LLock) :: m3 ++ (t2, a2) :: l3).
      unfold tr. repeat (rewrite <- ?app_assoc; simpl). reflexivity. }
    assert (Hpl : nth_error tr pl = Some (t2, LLock)).
    { unfold pl. apply Hmid with (post := m3 ++ (t2, a2) :: l3).
      unfold tr. repeat (rewrite <- ?app_assoc; simpl). reflexivity. }
    assert (Hi' : nth_error tr i = Some (t1, a1)).
    { rewrite <- L1. apply Hmid with (post := m1 ++ (t1, LUnlock) :: m2 ++ (t2, LLock) :: m3 ++ (t2, a2) :: l3).
      unfold tr. repeat (rewrite <- ?app_assoc; simpl). reflexivity. }
    assert (Hj' : nth_error tr j = Some (t2, a2)).
    { rewrite <- Lp. apply Hmid with (post := l3). reflexivity. }
    assert (Lens : i < pu /\ pu < pl /\ pl < j).
    { unfold pu, pl. rewrite <- Lp, <- L1. repeat (rewrite app_length; simpl). unfold ev in *. lia. }
    destruct Lens as (H1 & H2 & H3).
    apply t_trans with pu; [|apply t_trans with pl]; apply t_step; (split; [assumption|]).
    - exists t1, a1, t1, LUnlock. repeat split; auto.
    - exists t1, LUnlock, t2, LLock. repeat split; auto.
    - exists t2, LLock, t2, a2. repeat split; auto.
  Qed.

  (* ---------------------------------------------------------------- the caller's reads *)
  Lemma ph_mono t s s' l :
    InvC s -> step c t s = Some (s', l) ->
    ph s' <= ph s /\ (l = LMainRead -> t = 0 /\ exists pc, mainpc s = MSort :: pc /\ mainpc s' = pc).
  Proof.
    intros I H. unfold step in H. destruct (panicked s); [discriminate|]. unfold ph.
    destruct t as [|[|[|k]]].
    - unfold step_main in H. pose proof (ic_main c s I) as Im.
      unfold prog, inner_prog, outer_prog in Im; simpl in Im.
      destruct (mainpc s) as [|a pc] eqn:Em; [discriminate|].
      suffix_cases Im; inversion Im; subst a pc; clear Im; simpl in H;
        try (destruct (wg s)); try (destruct (eclosed s)); try (destruct (sclosed s));
        try (destruct (buf s)); try (destruct (closed s)); try (destruct (ebuf s)); try (destruct (sbuf s));
        try discriminate; inversion H; subst; clear H; simpl; rewrite ?Em; simpl;
        try rewrite (ok_outer c Hok); simpl; (split; [lia|]); intros E; try discriminate E.
      all: split; auto; eexists; split; reflexivity.
    - unfold step_prod in H. destruct (pend s) as [|[b|] p].
      + destruct (closed s); [discriminate|]. inversion H; subst; simpl. split; [lia|discriminate].
      + destruct (c_select c || ppolled s).
        * destruct (List.length (buf s) <? c_ccap c); [|discriminate]. inversion H; subst; simpl. split; [lia|discriminate].
        * destruct (cancelled s); inversion H; subst; simpl; (split; [lia|discriminate]).
      + destruct (sclosed s); [inversion H; subst; simpl; split; [lia|discriminate]|].
        destruct (List.length (sbuf s) <? 1); [|discriminate]. inversion H; subst; simpl. split; [lia|discriminate].
    - unfold step_prod_cancel in H. destruct (pend s) as [|[b|] p]; try discriminate.
      destruct (c_select c && cancelled s); [|discriminate]. inversion H; subst; simpl. split; [lia|discriminate].
    - unfold step_worker in H. destruct (nth_error (ws s) k) as [wk|]; [|discriminate].
      destruct wk as [stt trc tab]; simpl in H. destruct stt as [|pc cur|cur| |]; try discriminate.
      + destruct (buf s); [destruct (closed s); [|discriminate]|]; inversion H; subst; simpl; (split; [lia|discriminate]).
      + destruct pc as [|a pc]; [discriminate|].
        destruct a as [| | | |[]|[]]; simpl in H; try (destruct (b_fail cur)); try (destruct (mutex s));
          try discriminate; inversion H; subst; simpl; (split; [lia|discriminate]).
      + destruct (eclosed s); [inversion H; subst; simpl; split; [lia|discriminate]|].
        destruct (List.length (ebuf s) <? c_ecap c); [|discriminate]. inversion H; subst; simpl. split; [lia|discriminate].
      + destruct (wg s); inversion H; subst; simpl; (split; [lia|discriminate]).
  Qed.

  (* a worker reaches WDone only through its wg.Done step, and never moves afterwards *)
  Lemma worker_done_shape k s s' l :
    step_worker c k s = Some (s', l) ->
    exists wk, nth_error (ws s) k = Some wk /\ w_st wk <> WDone /\
      (ws s' = ws s \/ exists wk', ws s' = set_nth k wk' (ws s) /\ (w_st wk' = WDone -> l = LWgDone)).
  Proof.
    intros H. unfold step_worker in H. destruct (nth_error (ws s) k) as [wk|] eqn:Hk; [|discriminate].
    exists wk. split; auto.
    destruct wk as [stt trc tab]; simpl in *. destruct stt as [|pc cur|cur| |]; try discriminate;
      (split; [discriminate|]).
    - destruct (buf s); [destruct (closed s); [|discriminate]|]; inversion H; subst; simpl; right;
        eexists; (split; [reflexivity|]); simpl; try discriminate.
      destruct (c_body c); simpl; discriminate.
    - destruct pc as [|a pc]; [discriminate|].
      destruct a as [| | | |[]|[]]; simpl in H; try (destruct (b_fail cur)); try (destruct (mutex s));
        try discriminate; inversion H; subst; simpl; auto; right; eexists; (split; [reflexivity|]); simpl;
        try discriminate; destruct pc; simpl; discriminate.
    - destruct (eclosed s); [inversion H; subst; simpl; auto|].
      destruct (List.length (ebuf s) <? c_ecap c); [|discriminate]. inversion H; subst; simpl. right.
      eexists; split; [reflexivity|]. simpl. discriminate.
    - destruct (wg s); inversion H; subst; simpl; auto. right. eexists; split; [reflexivity|]. auto.
  Qed.

  Record WInv (tr : list ev) (s : st) : Prop := {
    w_done : forall k wk, nth_error (ws s) k = Some wk -> w_st wk = WDone ->
               forall tr1 tr2 a, tr = tr1 ++ (wtid k, a) :: tr2 -> is_acc a = true ->
                 In (wtid k, LWgDone) tr2;
    w_noread : 5 <= ph s -> forall t, ~ In (t, LMainRead) tr;
    w_reader : forall t, In (t, LMainRead) tr -> t = 0;
    w_wait : ph s <= 7 -> exists tr1 tr2, tr = tr1 ++ (0, LWait) :: tr2 /\
               (forall t a, In (t, a) tr2 -> is_acc a = false) /\
               (forall l1 t a l2, tr1 = l1 ++ (t, a) :: l2 -> is_acc a = true -> In (t, LWgDone) l2) /\
               (forall t, ~ In (t, LMainRead) tr1) }.

  Lemma WInv_init items : WInv [] (init c items).
  Proof.
    constructor; simpl.
    - intros [|?] ? ?; discriminate.
    - intros _ t [].
    - intros t [].
    - unfold init, ph; simpl. rewrite (ok_inner c Hok), (ok_outer c Hok). simpl. lia.
  Qed.

  Lemma WInv_step tr s t s' l :
    InvC s -> TInv tr s -> WInv tr s -> step c t s = Some (s', l) -> WInv (tr ++ [(t, l)]) s'.
  Proof.
    intros I T W H.
    destruct (ph_mono t s s' l I H) as [Hph Hread].
    destruct W as [Wd Wn Wr Ww].
    assert (Hacc_worker : is_acc l = true -> exists k wk, t = wtid k /\ nth_error (ws s) k = Some wk /\ 8 <= ph s).
    { intros Ha. destruct (le_lt_dec 3 t) as [Ht|Ht].
      - destruct t as [|[|[|k]]]; try lia. unfold step in H. rewrite (ic_np c s I) in H.
        destruct (worker_done_shape k s s' l H) as (wk & Hk & Hnd & _).
        exists k, wk. repeat split; auto. eapply (worker_ph c Hok); eauto.
        unfold is_done. destruct (w_st wk); auto. congruence.
      - destruct (nonworker_step t s s' l Ht H) as [Hns _]. rewrite (acc_sync _ Ha) in Hns. discriminate. }
    constructor.
    - (* w_done *)
      intros k wk Hk Hd tr1 tr2 a E Ha.
      destruct (le_lt_dec 3 t) as [Ht|Ht].
      + destruct t as [|[|[|k0]]]; try lia. unfold step in H. rewrite (ic_np c s I) in H.
        destruct (worker_done_shape k0 s s' l H) as (wk0 & Hk0 & Hnd & [Ews|(wk' & Ews & Hl)]).
        * rewrite Ews in Hk.
          apply snoc_split in E as [(-> & -> & E)|(b' & -> & ->)].
          -- inversion E; subst. congruence.
          -- apply in_or_app. left. eapply Wd; eauto.
        * rewrite Ews in Hk. destruct (Nat.eq_dec k k0) as [->|Hne].
          -- rewrite set_nth_same in Hk by (eapply nth_error_lt; eauto). inversion Hk; subst wk'.
             specialize (Hl Hd). subst l.
             apply snoc_split in E as [(-> & -> & E)|(b' & -> & ->)]; [inversion E; subst; discriminate|].
             apply in_or_app. right. now left.
          -- rewrite set_nth_other in Hk by auto.
             apply snoc_split in E as [(-> & -> & E)|(b' & -> & ->)]; [inversion E; unfold wtid in *; lia|].
             apply in_or_app. left. eapply Wd; eauto.
      + destruct (nonworker_step t s s' l Ht H) as (Hns & extra & Ews & Hex).
        apply snoc_split in E as [(-> & -> & E)|(b' & -> & ->)].
        * inversion E; subst. rewrite (acc_sync _ Ha) in Hns. discriminate.
        * apply in_or_app. left.
          destruct (t_who _ _ T (wtid k) a ltac:(apply in_or_app; right; now left) (acc_sync _ Ha)) as (k1 & wk1 & Ek & Hk1).
          unfold wtid in Ek. inversion Ek; subst k1.
          rewrite Ews in Hk. rewrite nth_error_app1 in Hk by (eapply nth_error_lt; eauto).
          eapply (Wd k wk Hk Hd); eauto.
    - (* w_noread *)
      intros Hp t0 Hin. apply in_app_or in Hin as [Hin|[E|[]]].
      + apply (Wn ltac:(lia) t0 Hin).
      + inversion E; subst. destruct (Hread eq_refl) as (_ & pc & Em & Em').
        pose proof (ic_main c s I) as Im. rewrite Em in Im.
        unfold ph in Hp. rewrite Em' in Hp. clear Em'.
        unfold prog, inner_prog, outer_prog in Im; simpl in Im. suffix_cases Im; inversion Im; subst.
        simpl in Hp. lia.
    - (* w_reader *)
      intros t0 Hin. apply in_app_or in Hin as [Hin|[E|[]]]; auto.
      inversion E; subst. apply (Hread eq_refl).
    - (* w_wait *)
      intros Hp. destruct (le_lt_dec (ph s) 7) as [Hp7|Hp8].
      + (* already past Wait *)
        destruct (Ww Hp7) as (tr1 & tr2 & -> & Hno & Hdone & Hnr).
        exists tr1, (tr2 ++ [(t, l)]). split; [now rewrite <- app_assoc|]. split; [|split]; auto.
        intros t0 a Hin. apply in_app_or in Hin as [Hin|[E|[]]]; eauto. inversion E; subst.
        destruct (is_acc a) eqn:Ha; auto. destruct (Hacc_worker eq_refl) as (? & ? & _ & _ & ?). lia.
      + (* this is the Wait step *)
        assert (El : t = 0 /\ l = LWait /\ wg s = 0 /\ ws s' = ws s).
        { clear - H Hp Hp8 Hok I. unfold step in H. rewrite (ic_np c s I) in H.
          destruct t as [|[|[|k]]].
          - unfold step_main, ph in *. destruct (mainpc s) as [|a pc] eqn:Em; [discriminate|].
            pose proof (ic_main c s I) as Im. rewrite Em in Im.
            unfold prog, inner_prog, outer_prog in Im; simpl in Im. suffix_cases Im; inversion Im; subst;
              simpl in H;
              try (destruct (wg s) eqn:Eg); try (destruct (eclosed s)); try (destruct (sclosed s));
              try (destruct (buf s)); try (destruct (closed s)); try (destruct (ebuf s)); try (destruct (sbuf s));
              try discriminate; inversion H; subst; simpl in *; try rewrite (ok_outer c Hok) in *; simpl in *;
              try lia; auto.
          - exfalso. unfold step_prod, ph in *. destruct (pend s) as [|[b|] p].
            + destruct (closed s); [discriminate|]. inversion H; subst; simpl in *. lia.
            + destruct (c_select c || ppolled s).
              * destruct (List.length (buf s) <? c_ccap c); [|discriminate]. inversion H; subst; simpl in *. lia.
              * destruct (cancelled s); inversion H; subst; simpl in *; lia.
            + destruct (sclosed s); [inversion H; subst; simpl in *; lia|].
              destruct (List.length (sbuf s) <? 1); [|discriminate]. inversion H; subst; simpl in *. lia.
          - exfalso. unfold step_prod_cancel, ph in *. destruct (pend s) as [|[b|] p]; try discriminate.
            destruct (c_select c && cancelled s); [|discriminate]. inversion H; subst; simpl in *. lia.
          - exfalso. assert (Hs : step c (wtid k) s = Some (s', l)) by (unfold step, wtid; rewrite (ic_np c s I); exact H).
            unfold step_worker, ph in *. destruct (nth_error (ws s) k) as [wk|]; [|discriminate].
            destruct wk as [stt trc tab]; simpl in H. destruct stt as [|pc cur|cur| |]; try discriminate.
            + destruct (buf s); [destruct (closed s); [|discriminate]|]; inversion H; subst; simpl in *; lia.
            + destruct pc as [|a pc]; [discriminate|].
              destruct a as [| | | |[]|[]]; simpl in H; try (destruct (b_fail cur)); try (destruct (mutex s));
                try discriminate; inversion H; subst; simpl in *; lia.
            + destruct (eclosed s); [inversion H; subst; simpl in *; lia|].
              destruct (List.length (ebuf s) <? c_ecap c); [|discriminate]. inversion H; subst; simpl in *. lia.
            + destruct (wg s); inversion H; subst; simpl in *; lia. }
        destruct El as (-> & -> & Hwg & Ews).
        exists tr, []. split; auto. split; [intros ? ? []|]. split.
        * intros l1 t1 a l2 E Ha.
          destruct (t_who _ _ T t1 a ltac:(rewrite E; apply in_or_app; right; now left) (acc_sync _ Ha)) as (k1 & wk1 & -> & Hk1).
          eapply Wd; eauto. eapply all_done_of_wg0; eauto.
        * apply Wn. lia.
  Qed.

  Lemma WInv_execs items tr s : execs c (init c items) tr s -> InvC s /\ TInv tr s /\ WInv tr s.
  Proof.
    intros E. remember (init c items) as s0 eqn:E0. induction E; subst.
    - split; [apply InvC_init; auto|split; [apply TInv_init|apply WInv_init]].
    - destruct (IHE eq_refl) as (I & T & W).
      split; [eapply InvC_step; eauto|split; [eapply TInv_step; eauto|eapply WInv_step; eauto]].
  Qed.

  (* no worker access comes after the caller's read *)
  Lemma acc_before_read items tr s i j t1 a1 t2 :
    execs c (init c items) tr s ->
    nth_error tr i = Some (t1, a1) -> nth_error tr j = Some (t2, LMainRead) ->
    is_acc a1 = true -> i < j.
  Proof.
    intros E Hi Hj Ha1.
    destruct (WInv_execs items tr s E) as (I & T & W).
    assert (Hin : In (t2, LMainRead) tr) by (eapply nth_error_In; eauto).
    assert (Hp : ph s <= 7).
    { destruct (le_lt_dec (ph s) 7); auto. exfalso. eapply (w_noread _ _ W); eauto. lia. }
    destruct (w_wait _ _ W Hp) as (tr1 & tr2 & -> & Hno & Hdone & Hnr).
    assert (Hj2 : List.length tr1 < j).
    { destruct (lt_eq_lt_dec j (List.length tr1)) as [[Hlt|Heq]|Hgt]; auto; exfalso.
      - rewrite nth_error_app1 in Hj by auto. apply nth_error_In in Hj. eapply Hnr; eauto.
      - subst j. rewrite nth_error_mid in Hj. discriminate. }
    assert (Hi1 : i < List.length tr1).
    { destruct (lt_eq_lt_dec i (List.length tr1)) as [[Hlt|Heq]|Hgt]; auto; exfalso.
      - subst i. rewrite nth_error_mid in Hi. inversion Hi; subst. discriminate.
      - rewrite nth_error_app2 in Hi by lia.
        destruct (i - List.length tr1) as [|n] eqn:En; [lia|]. simpl in Hi.
        apply nth_error_In in Hi. rewrite (Hno _ _ Hi) in Ha1. discriminate. }
    lia.
  Qed.

  (** the caller's reads of rowsCount / asyncBlocks (sortBlocks) happen after every worker
      access: worker access -po-> its wg.Done -sync-> wg.Wait -po-> the read *)
  Theorem main_read_hb items tr s i j t1 a1 t2 :
    execs c (init c items) tr s ->
    nth_error tr i = Some (t1, a1) -> nth_error tr j = Some (t2, LMainRead) ->
    is_acc a1 = true ->
    hb tr i j.
  Proof.
    intros E Hi Hj Ha1.
    destruct (WInv_execs items tr s E) as (I & T & W).
    assert (Hin : In (t2, LMainRead) tr) by (eapply nth_error_In; eauto).
    assert (Ht2 : t2 = 0) by (eapply w_reader; eauto). subst t2.
    assert (Hp : ph s <= 7).
    { destruct (le_lt_dec (ph s) 7); auto. exfalso. eapply (w_noread _ _ W); eauto. lia. }
    destruct (w_wait _ _ W Hp) as (tr1 & tr2 & -> & Hno & Hdone & Hnr).
    (* the read is after the Wait *)
    assert (Hj2 : List.length tr1 < j).
    { destruct (lt_eq_lt_dec j (List.length tr1)) as [[Hlt|Heq]|Hgt]; auto; exfalso.
      - rewrite nth_error_app1 in Hj by auto. apply nth_error_In in Hj. eapply Hnr; eauto.
      - subst j. rewrite nth_error_mid in Hj. discriminate. }
    (* the access is before the Wait *)
    assert (Hi1 : i < List.length tr1).
    { destruct (lt_eq_lt_dec i (List.length tr1)) as [[Hlt|Heq]|Hgt]; auto; exfalso.
      - subst i. rewrite nth_error_mid in Hi. inversion Hi; subst. discriminate.
      - rewrite nth_error_app2 in Hi by lia.
        destruct (i - List.length tr1) as [|n] eqn:En; [lia|]. simpl in Hi.
        apply nth_error_In in Hi. rewrite (Hno _ _ Hi) in Ha1. discriminate. }
    rewrite nth_error_app1 in Hi by auto.
    apply nth_error_split_at in Hi as (l1 & l2 & -> & L1).
    pose proof (Hdone l1 t1 a1 l2 eq_refl Ha1) as Hd. apply in_split in Hd as (m1 & m2 & ->).
    set (tr := (l1 ++ (t1, a1) :: m1 ++ (t1, LWgDone) :: m2) ++ (0, LWait) :: tr2) in *.
    set (pd := List.length (l1 ++ (t1, a1) :: m1)).
    set (pw := List.length (l1 ++ (t1, a1) :: m1 ++ (t1, LWgDone) :: m2)) in *.
    assert (Hmid : forall (pre : list ev) x post l, l = pre ++ x :: post -> nth_error l (List.length pre) = Some x)
      by (intros ? ? ? ? ->; apply nth_error_mid).
    assert (Hpd : nth_error tr pd = Some (t1, LWgDone)).
    { unfold pd. apply Hmid with (post := m2 ++ (0, LWait) :: tr2).
      unfold tr. repeat (rewrite <- ?app_assoc; simpl). reflexivity. }
    assert (Hpw : nth_error tr pw = Some (0, LWait)).
    { unfold pw. apply Hmid with (post := tr2). reflexivity. }
    assert (Hi' : nth_error tr i = Some (t1, a1)).
    { rewrite <- L1. apply Hmid with (post := m1 ++ (t1, LWgDone) :: m2 ++ (0, LWait) :: tr2).
      unfold tr. repeat (rewrite <- ?app_assoc; simpl). reflexivity. }
    assert (Lens : i < pd /\ pd < pw).
    { unfold pd, pw. rewrite <- L1. repeat (rewrite app_length; simpl). unfold ev in *. lia. }
    destruct Lens as (H1 & H2).
    apply t_trans with pd; [|apply t_trans with pw]; apply t_step; (split; [assumption|]).
    - exists t1, a1, t1, LWgDone. repeat split; auto.
    - exists t1, LWgDone, 0, LWait. repeat split; auto.
    - exists 0, LWait, 0, LMainRead. repeat split; auto.
  Qed.

  (** no data race: any two conflicting accesses to rowsCount / asyncBlocks by different
      threads are ordered by happens-before *)
  Theorem no_race items tr s i j t1 a1 t2 a2 :
    execs c (init c items) tr s ->
    i < j -> nth_error tr i = Some (t1, a1) -> nth_error tr j = Some (t2, a2) ->
    conflict a1 a2 = true -> thread_of t1 <> thread_of t2 ->
    hb tr i j.
  Proof.
    intros E Hij Hi Hj Hc Hne.
    destruct a1, a2; simpl in Hc; try discriminate.
    - eapply accesses_hb; eauto; try (intros ->; now apply Hne).
    - eapply main_read_hb; eauto.
    - exfalso. pose proof (acc_before_read items tr s j i t2 (LAcc k f) t1 E Hj Hi eq_refl). lia.
  Qed.
End HB.
