(** C15 - the SQL model (model/RefSql.v) refines the specification
    (model/RefStore.v) when the WHERE clause is the literal-prefix one. *)
From W.lib Require Import Tree Bytes.
From W.model Require Import RefStore Like RefSql.
From W.proofs Require Import RefLike_proofs RefStore_proofs.
From Coq Require Import Lia Arith.
Local Open Scope N_scope.

(** * the refs table *)
Fixpoint nodupk (l : list (name * value)) : Prop :=
  match l with
  | [] => True
  | kv :: l' => m_get (fst kv) l' = None /\ nodupk l'
  end.

Lemma m_get_upsert : forall k k' v (l : list (name * value)),
  m_get k' (upsert k v l) = if beqb k k' then Some v else m_get k' l.
Proof.
  intros k k' v l. induction l as [|[k0 v0] l IH]; cbn.
  - now rewrite (beqb_sym k' k).
  - destruct (beqb k k0) eqn:E; cbn.
    + apply beqb_true in E. subst k0. rewrite (beqb_sym k' k). now destruct (beqb k k').
    + rewrite IH. destruct (beqb k' k0) eqn:E2; [|reflexivity].
      apply beqb_true in E2. subst k0. now rewrite E.
Qed.

Lemma nodupk_upsert : forall k v l, nodupk l -> nodupk (upsert k v l).
Proof.
  intros k v l. induction l as [|[k0 v0] l IH]; cbn; intros H.
  - now split.
  - destruct H as [Hf Hn]. destruct (beqb k k0) eqn:E; cbn; [now split|].
    split; [|auto]. rewrite m_get_upsert, E. exact Hf.
Qed.

Lemma m_get_app1 : forall k' k (v : value) l,
  m_get k' (l ++ [(k, v)]) =
  match m_get k' l with Some x => Some x | None => if beqb k' k then Some v else None end.
Proof.
  intros k' k v l. induction l as [|[k0 v0] l IH]; cbn; [reflexivity|].
  destruct (beqb k' k0); [reflexivity|exact IH].
Qed.

Lemma nodupk_app1 : forall k (v : value) l, m_get k l = None -> nodupk l -> nodupk (l ++ [(k, v)]).
Proof.
  intros k v l. induction l as [|[k0 v0] l IH]; cbn; intros Hk H.
  - now split.
  - destruct H as [Hf Hn]. destruct (beqb k k0) eqn:E; [discriminate|].
    split; [|auto]. rewrite m_get_app1, Hf. rewrite beqb_sym, E. reflexivity.
Qed.

Lemma nodupk_filter : forall (P : name -> bool) l, nodupk l -> nodupk (filter (fun kv => P (fst kv)) l).
Proof.
  intros P l. induction l as [|[k0 v0] l IH]; cbn; intros H; [exact I|].
  destruct H as [Hf Hn]. destruct (P k0) eqn:E; cbn; [|auto]. split; [|auto].
  rewrite (m_get_filter P). now rewrite E.
Qed.

(** ORDER BY name *)
Lemma m_get_ins : forall k kv (l : list (name * value)),
  m_get k (ins_by_name kv l) = if beqb k (fst kv) then Some (snd kv) else m_get k l.
Proof.
  intros k [k1 v1] l. cbn [fst snd]. induction l as [|[k0 v0] l IH]; cbn [ins_by_name fst]; [reflexivity|].
  destruct (bleb k1 k0) eqn:E; cbn [m_get]; [reflexivity|].
  rewrite IH. destruct (beqb k k0) eqn:E0; [|reflexivity].
  apply beqb_true in E0. subst k0.
  destruct (beqb k k1) eqn:E1; [|reflexivity].
  apply beqb_true in E1. subst k1. unfold bleb in E. rewrite bcmp_refl in E. discriminate.
Qed.

Lemma m_get_sort : forall k (l : list (name * value)), m_get k (sort_by_name l) = m_get k l.
Proof.
  intros k l. induction l as [|[k0 v0] l IH]; [reflexivity|].
  cbn [sort_by_name fold_right]. rewrite m_get_ins. cbn. now rewrite <- IH.
Qed.

Lemma lb_ins : forall k kv (l : list (name * value)),
  bcmp k (fst kv) = Lt -> lb k l -> lb k (ins_by_name kv l).
Proof.
  intros k kv l Hk H. induction H as [|x l Hx Hl IH]; cbn [ins_by_name].
  - constructor; [exact Hk|constructor].
  - destruct (bleb _ _).
    + constructor; [exact Hk|]. constructor; assumption.
    + constructor; assumption.
Qed.

Lemma ins_sorted : forall kv (l : list (name * value)),
  ssorted l -> m_get (fst kv) l = None -> ssorted (ins_by_name kv l).
Proof.
  intros [k1 v1] l. cbn [fst]. induction l as [|[k0 v0] l IH]; cbn [ins_by_name fst]; intros Hs Hg.
  - split; [constructor|exact I].
  - cbn in Hg. destruct (beqb k1 k0) eqn:E0; [discriminate|].
    destruct Hs as [Hlb Hs]. cbn [fst] in Hlb.
    destruct (bleb k1 k0) eqn:E.
    + assert (Hlt : bcmp k1 k0 = Lt).
      { unfold bleb in E. unfold beqb in E0. destruct (bcmp k1 k0); congruence. }
      split; [|split; assumption]. cbn [fst]. constructor; [exact Hlt|]. eapply lb_trans; eauto.
    + split; [|auto]. cbn [fst]. apply lb_ins; [|exact Hlb].
      cbn [fst]. unfold bleb in E. destruct (bcmp k1 k0) eqn:C; try discriminate. now apply bcmp_gt_lt.
Qed.

Lemma sort_sorted : forall (l : list (name * value)), nodupk l -> ssorted (sort_by_name l).
Proof.
  induction l as [|kv l IH]; intros H; [exact I|]. destruct H as [Hf Hn].
  cbn [sort_by_name fold_right]. apply ins_sorted; [now apply IH|]. now rewrite m_get_sort.
Qed.

(** * the WHERE clause of the repaired filterQuery *)
Lemma forallb_negb_existsb : forall {B} (f : B -> bool) l,
  forallb (fun x => negb (f x)) l = negb (existsb f l).
Proof.
  intros B f l. induction l as [|x l IH]; cbn; [reflexivity|]. rewrite IH. now destruct (f x).
Qed.

Lemma existsb_ext' : forall {B} (f g : B -> bool) l, (forall x, f x = g x) -> existsb f l = existsb g l.
Proof. intros B f g l H. induction l as [|x l IH]; cbn; [reflexivity|]. now rewrite H, IH. Qed.

Lemma where_clause_sel : forall fk ps ns nm, filter_ok fk = true -> where_clause fk ps ns nm = sel ps ns nm.
Proof.
  intros fk ps ns nm Hk. destruct fk; try discriminate.
  unfold where_clause, sel. rewrite forallb_negb_existsb. cbn [cond].
  f_equal.
  - destruct ps; [reflexivity|]. apply existsb_ext'. intros p. apply instr_prefix_correct.
  - f_equal. apply existsb_ext'. intros p. apply instr_prefix_correct.
Qed.

(** * the reflogs table *)
Definition row_of (k : name) (o : nat) (e : logent) : row :=
  mk_row k o (le_old e) (le_new e) (le_meta e).

Fixpoint number (k : name) (s : nat) (l : list logent) : list row :=
  match l with
  | [] => []
  | e :: l' => row_of k s e :: number k (S s) l'
  end.

Lemma ent_row_of : forall k o e, ent_of_row (row_of k o e) = e.
Proof. intros k o [x y z]. reflexivity. Qed.

Lemma number_app : forall k l1 l2 s,
  number k s (l1 ++ l2) = number k s l1 ++ number k (s + length l1) l2.
Proof.
  intros k l1 l2. induction l1 as [|e l1 IH]; intros s; cbn.
  - now rewrite Nat.add_0_r.
  - rewrite IH. do 3 f_equal. lia.
Qed.

Lemma number_length : forall k l s, length (number k s l) = length l.
Proof. intros k l. induction l as [|e l IH]; intros s; cbn; [reflexivity|]. now rewrite IH. Qed.

Lemma rows_of_app : forall k l1 l2, rows_of k (l1 ++ l2) = rows_of k l1 ++ rows_of k l2.
Proof. intros. unfold rows_of. apply filter_app. Qed.

Lemma pk_taken_rows : forall k o L,
  pk_taken k o L = existsb (fun r => Nat.eqb o (r_ord r)) (rows_of k L).
Proof.
  intros k o L. unfold pk_taken, rows_of. induction L as [|r L IH]; cbn; [reflexivity|].
  destruct (beqb k (r_ref r)); cbn; now rewrite IH.
Qed.

Lemma existsb_number : forall k o l s,
  existsb (fun r => Nat.eqb o (r_ord r)) (number k s l) = ((s <=? o) && (o <? s + length l))%nat.
Proof.
  intros k o l. induction l as [|e l IH]; intros s; cbn [existsb number row_of r_ord length].
  - symmetry. apply andb_false_iff. rewrite Nat.leb_gt, Nat.ltb_ge. lia.
  - rewrite IH. apply eq_true_iff_eq.
    rewrite orb_true_iff, !andb_true_iff, Nat.eqb_eq, !Nat.leb_le, !Nat.ltb_lt. lia.
Qed.

Lemma select_log_rows : forall k o d,
  sql_select_log k o d = find (fun r => Nat.eqb o (r_ord r)) (rows_of k (t_logs d)).
Proof.
  intros k o d. unfold sql_select_log. induction (t_logs d) as [|r L IH]; cbn; [reflexivity|].
  destruct (beqb k (r_ref r)); cbn; [destruct (Nat.eqb o (r_ord r)); auto|auto].
Qed.

Lemma find_number : forall k l s o e,
  nth_error l o = Some e ->
  find (fun r => Nat.eqb (s + o) (r_ord r)) (number k s l) = Some (row_of k (s + o) e).
Proof.
  intros k l. induction l as [|e0 l IH]; intros s o e H; [destruct o; discriminate|].
  destruct o as [|o]; cbn in H.
  - injection H as ->. cbn. rewrite Nat.add_0_r, Nat.eqb_refl. reflexivity.
  - cbn. destruct (Nat.eqb_spec (s + S o) s); [lia|].
    replace (s + S o)%nat with (S s + o)%nat by lia. now apply IH.
Qed.

Lemma firstn_S_nth : forall {B} (l : list B) j e, nth_error l j = Some e -> firstn (S j) l = firstn j l ++ [e].
Proof.
  intros B l. induction l as [|x l IH]; intros j e H; [destruct j; discriminate|].
  destruct j as [|j]; cbn in H.
  - injection H as ->. reflexivity.
  - change (firstn (S (S j)) (x :: l)) with (x :: firstn (S j) l).
    change (firstn (S j) (x :: l)) with (x :: firstn j l).
    rewrite (IH j e H). reflexivity.
Qed.

Lemma read_logs_number : forall k d l j,
  rows_of k (t_logs d) = number k 1 l -> (j <= length l)%nat ->
  read_logs k j d = (rev (firstn j l), true).
Proof.
  intros k d l j Hr. induction j as [|j IH]; intros Hj; [reflexivity|].
  cbn [read_logs]. rewrite select_log_rows, Hr.
  destruct (nth_error l j) as [e|] eqn:En; [|apply nth_error_None in En; lia].
  change (S j) with (1 + j)%nat at 1. rewrite (find_number k l 1 j e En).
  rewrite IH by lia. rewrite (firstn_S_nth l j e En), rev_app_distr, ent_row_of. reflexivity.
Qed.

Lemma clog_number : forall k d l,
  rows_of k (t_logs d) = number k 1 (rev l) -> clog d k = (l, true).
Proof.
  intros k d l Hr. unfold clog, sql_count_logs. rewrite Hr, number_length.
  rewrite (read_logs_number k d (rev l) _ Hr (le_n _)).
  now rewrite firstn_all, rev_involutive.
Qed.

(* DELETE FROM reflogs WHERE ref = k *)
Lemma rows_of_delete : forall k k' L,
  rows_of k' (filter (fun r => negb (beqb k (r_ref r))) L) = if beqb k k' then [] else rows_of k' L.
Proof.
  intros k k' L. unfold rows_of. induction L as [|r L IH]; cbn; [now destruct (beqb k k')|].
  destruct (beqb k (r_ref r)) eqn:E; cbn.
  - rewrite IH. destruct (beqb k k') eqn:E2; [reflexivity|].
    apply beqb_true in E. rewrite <- E. rewrite (beqb_sym k' k), E2. reflexivity.
  - destruct (beqb k' (r_ref r)) eqn:E3; rewrite IH; destruct (beqb k k') eqn:E2; try reflexivity.
    apply beqb_true in E2. subst k'. congruence.
Qed.

Definition set_ref (b : name) (r : row) : row := mk_row b (r_ord r) (r_old r) (r_new r) (r_meta r).

Lemma set_ref_number : forall a b l s, map (set_ref b) (number a s l) = number b s l.
Proof. intros a b l. induction l as [|e l IH]; intros s; cbn; [reflexivity|]. now rewrite IH. Qed.

Lemma rows_nil_forall : forall b L, rows_of b L = [] -> Forall (fun r => beqb b (r_ref r) = false) L.
Proof.
  intros b L. induction L as [|r L IH]; cbn; intros H; [constructor|].
  destruct (beqb b (r_ref r)) eqn:E; [discriminate|]. constructor; auto.
Qed.

(* UPDATE reflogs SET ref = b WHERE ref = a *)
Lemma rows_of_move : forall a b k' L, a <> b ->
  Forall (fun r => beqb b (r_ref r) = false) L ->
  rows_of k' (map (fun r => if beqb a (r_ref r) then set_ref b r else r) L) =
  if beqb k' b then map (set_ref b) (rows_of a L)
  else if beqb k' a then [] else rows_of k' L.
Proof.
  intros a b k' L Hab HL. induction HL as [|r L Hr _ IH]; cbn [map rows_of filter].
  - now destruct (beqb k' b), (beqb k' a).
  - fold (rows_of k' (map (fun r => if beqb a (r_ref r) then set_ref b r else r) L)).
    fold (rows_of a L). fold (rows_of k' L). rewrite IH. clear IH.
    destruct (beqb a (r_ref r)) eqn:Ea; cbn [set_ref r_ref map].
    + destruct (beqb k' b) eqn:Eb; [reflexivity|].
      destruct (beqb k' a) eqn:Eka; [reflexivity|].
      apply beqb_true in Ea. rewrite <- Ea, Eka. reflexivity.
    + destruct (beqb k' b) eqn:Eb.
      * apply beqb_true in Eb. subst k'. now rewrite Hr.
      * destruct (beqb k' a) eqn:Eka; [|reflexivity].
        apply beqb_true in Eka. subst k'. now rewrite Ea.
Qed.

Lemma rows_of_set_ref : forall b k' rs,
  rows_of k' (map (set_ref b) rs) = if beqb k' b then map (set_ref b) rs else [].
Proof.
  intros b k' rs. induction rs as [|r rs IH]; cbn; [now destruct (beqb k' b)|].
  fold (rows_of k' (map (set_ref b) rs)). rewrite IH. now destruct (beqb k' b).
Qed.

Lemma existsb_false : forall {B} (f : B -> bool) l, (forall x, f x = false) -> existsb f l = false.
Proof. intros B f l H. induction l as [|x l IH]; cbn; [reflexivity|]. now rewrite H, IH. Qed.

(** * the simulation relation *)
Record R (a : sstate) (c : db) : Prop := mkR {
  R_inv : Sinv a;
  R_nodup : nodupk (t_refs c);
  R_refs : forall k, m_get k (t_refs c) = m_get k (refs a);
  R_logs : forall k, rows_of k (t_logs c) = number k 1 (rev (logs a k)) }.

Lemma R_init : R sinit cinit.
Proof. split; [apply Sinv_init|exact I|reflexivity|reflexivity]. Qed.

Lemma R_seqv : forall a1 a2 c, seqv a1 a2 -> Sinv a2 -> R a1 c -> R a2 c.
Proof.
  intros a1 a2 c [Er El] Hi [_ Hn Hr Hl]. split; auto.
  - intros k. now rewrite Hr, Er.
  - intros k. now rewrite Hl, El.
Qed.

Lemma R_cget : forall a c k, R a c -> cget c k = m_get k (refs a).
Proof. intros a c k H. apply H. Qed.

Lemma R_clog : forall a c k, R a c -> clog c k = (logs a k, true).
Proof. intros a c k H. apply clog_number. apply H. Qed.

Lemma R_no_rows : forall a c k, R a c -> m_get k (refs a) = None -> rows_of k (t_logs c) = [].
Proof.
  intros a c k H Hg. rewrite (R_logs a c H). destruct (R_inv a c H) as [_ Hd]. now rewrite (Hd k Hg).
Qed.

Lemma R_no_conflict : forall a c b rs L', R a c -> m_get b (refs a) = None -> L' = t_logs c ->
  existsb (fun r => pk_taken b (r_ord r) L') rs = false.
Proof.
  intros a c b rs L' H Hg ->. apply existsb_false. intros r.
  rewrite pk_taken_rows, (R_no_rows a c b H Hg). reflexivity.
Qed.

(** sorted selections agree *)
Lemma select_agree : forall a c (P Q : name -> bool), R a c -> (forall k, P k = Q k) ->
  sort_by_name (filter (fun kv => P (fst kv)) (t_refs c)) = filter (fun kv => Q (fst kv)) (refs a).
Proof.
  intros a c P Q H HPQ. apply sorted_ext.
  - apply sort_sorted, nodupk_filter, H.
  - apply filter_sorted. apply (R_inv a c H).
  - intros k. rewrite m_get_sort, (m_get_filter P), (m_get_filter Q), HPQ, (R_refs a c H). reflexivity.
Qed.

(** * one primitive *)
Section Sim.
  Variable fk : filter_kind.
  Hypothesis fk_ok : filter_ok fk = true.

  Definition sim_goal (a : sstate) (c : db) (p : prim) : Prop :=
    snd (cstep fk c p) = snd (sstep a p) /\ R (fst (sstep a p)) (fst (cstep fk c p)).

  Lemma sim_set : forall a c k v, R a c -> sim_goal a c (PSet k v).
  Proof.
    intros a c k v H. split; [reflexivity|]. cbn [cstep sstep fst].
    split; [apply (sstep_inv a (PSet k v)), H|apply nodupk_upsert, H| |apply H].
    intros k'. cbn. now rewrite m_get_upsert, m_get_set, (R_refs a c H).
  Qed.

  Lemma setlog_c : forall a c k v m, R a c ->
    cstep fk c (PSetLog k v m) =
    (mk_db (upsert k v (t_refs c))
           (t_logs c ++ [row_of k (length (logs a k) + 1) (mk_logent (m_get k (refs a)) v m)]), ROk).
  Proof.
    intros a c k v m H. cbn [cstep]. unfold sql_insert_log, sql_count_logs, sql_select_sum.
    cbn [r_ref r_ord sql_upsert_ref t_logs t_refs].
    rewrite pk_taken_rows, (R_logs a c H), existsb_number, number_length, rev_length, (R_refs a c H).
    assert (((1 <=? length (logs a k) + 1) && (length (logs a k) + 1 <? 1 + length (logs a k)))%nat = false) as ->.
    { apply andb_false_iff. right. apply Nat.ltb_ge. lia. }
    reflexivity.
  Qed.

  Lemma sim_setlog : forall a c k v m, R a c -> sim_goal a c (PSetLog k v m).
  Proof.
    intros a c k v m H. unfold sim_goal. rewrite (setlog_c a c k v m H).
    split; [reflexivity|]. cbn [sstep fst].
    split; [apply (sstep_inv a (PSetLog k v m)), H|apply nodupk_upsert, H| |].
    - intros k'. cbn. now rewrite m_get_upsert, m_get_set, (R_refs a c H).
    - intros k'. cbn [t_logs logs]. rewrite rows_of_app, (R_logs a c H), fupd_eq.
      unfold rows_of at 1. cbn [filter row_of r_ref]. rewrite (beqb_sym k' k).
      destruct (beqb k k') eqn:E.
      + apply beqb_true in E. subst k'. cbn [rev]. rewrite number_app. cbn [number].
        rewrite rev_length. do 3 f_equal. lia.
      + now rewrite app_nil_r.
  Qed.

  Lemma sim_delete : forall a c k, R a c -> sim_goal a c (PDelete k).
  Proof.
    intros a c k H. split; [reflexivity|]. cbn [cstep sstep fst in_tx].
    split; [apply (sstep_inv a (PDelete k)), H| | |].
    - cbn. apply (nodupk_filter (fun x => negb (beqb k x))), H.
    - intros k'. cbn. rewrite (m_get_filter (fun x => negb (beqb k x))), m_get_del, (R_refs a c H).
      now destruct (beqb k k').
    - intros k'. cbn [t_logs logs sql_delete_ref sql_delete_logs].
      rewrite rows_of_delete, fupd_eq, (R_logs a c H). now destruct (beqb k k').
  Qed.

  Lemma rename_c : forall a c x y v, R a c ->
    m_get x (refs a) = Some v -> m_get y (refs a) = None ->
    cstep fk c (PRename x y) =
    (mk_db (filter (fun kv => negb (beqb x (fst kv))) (t_refs c ++ [(y, v)]))
           (map (fun r => if beqb x (r_ref r) then set_ref y r else r) (t_logs c)), ROk).
  Proof.
    intros a c x y v H Hx Hy. cbn [cstep]. unfold sql_select_sum, sql_insert_ref.
    rewrite !(R_refs a c H), Hx, Hy. cbn [bind]. unfold sql_move_logs. cbn [t_logs t_refs].
    assert (beqb y x = false) as ->. { apply beqb_false. intros ->. congruence. }
    rewrite (R_no_conflict a c y _ _ H Hy eq_refl). cbn [bind in_tx sql_delete_ref t_refs t_logs].
    reflexivity.
  Qed.

  Lemma sim_rename : forall a c x y, R a c -> sim_goal a c (PRename x y).
  Proof.
    intros a c x y H. unfold sim_goal.
    destruct (sstep_rename_cases a x y) as [[v [Hx [Hy E]]]|[Hf E]].
    - rewrite E, (rename_c a c x y v H Hx Hy). split; [reflexivity|]. cbn [fst].
      assert (Hxy : x <> y) by (intros ->; congruence).
      split.
      + pose proof (sstep_inv a (PRename x y) (R_inv a c H)) as Hi. rewrite E in Hi. exact Hi.
      + cbn [t_refs]. apply (nodupk_filter (fun k => negb (beqb x k))). apply nodupk_app1; [|apply H].
        now rewrite (R_refs a c H).
      + intros k'. cbn [t_refs refs].
        rewrite (m_get_filter (fun k => negb (beqb x k))), m_get_app1, m_get_del, m_get_set, (R_refs a c H).
        destruct (beqb x k') eqn:E1; cbn [negb]; [reflexivity|].
        rewrite (beqb_sym k' y). destruct (beqb y k') eqn:E2.
        * apply beqb_true in E2. subst k'. now rewrite Hy.
        * now destruct (m_get k' (refs a)).
      + intros k'. cbn [t_logs logs].
        rewrite (rows_of_move x y k' (t_logs c) Hxy (rows_nil_forall y _ (R_no_rows a c y H Hy))).
        rewrite !fupd_eq, (beqb_sym k' y), (beqb_sym k' x).
        destruct (beqb x k') eqn:E1.
        * apply beqb_true in E1. subst k'.
          assert (beqb y x = false) as -> by (apply beqb_false; congruence). reflexivity.
        * destruct (beqb y k') eqn:E2; [|apply H].
          apply beqb_true in E2. subst k'. rewrite (R_logs a c H). apply set_ref_number.
    - rewrite E. cbn [fst snd]. cbn [cstep]. unfold sql_select_sum, sql_insert_ref.
      rewrite !(R_refs a c H).
      destruct (m_get x (refs a)) as [v|] eqn:Hx; [|split; [reflexivity|exact H]].
      destruct (m_get y (refs a)) eqn:Hy; [split; [reflexivity|exact H]|].
      destruct Hf as [Hf|Hf]; congruence.
  Qed.

  Lemma copy_c : forall a c x y v, R a c ->
    m_get x (refs a) = Some v -> m_get y (refs a) = None ->
    cstep fk c (PCopy x y) =
    (mk_db (t_refs c ++ [(y, v)])
           (t_logs c ++ map (set_ref y) (rows_of x (t_logs c))), ROk).
  Proof.
    intros a c x y v H Hx Hy. cbn [cstep]. unfold sql_select_sum, sql_insert_ref.
    rewrite !(R_refs a c H), Hx, Hy. cbn [bind]. unfold sql_copy_logs. cbn [t_logs t_refs].
    rewrite (R_no_conflict a c y _ _ H Hy eq_refl). reflexivity.
  Qed.

  Lemma sim_copy : forall a c x y, R a c -> sim_goal a c (PCopy x y).
  Proof.
    intros a c x y H. unfold sim_goal.
    destruct (sstep_copy_cases a x y) as [[v [Hx [Hy E]]]|[Hf E]].
    - rewrite E, (copy_c a c x y v H Hx Hy). split; [reflexivity|]. cbn [fst].
      split.
      + pose proof (sstep_inv a (PCopy x y) (R_inv a c H)) as Hi. rewrite E in Hi. exact Hi.
      + cbn [t_refs]. apply nodupk_app1; [|apply H]. now rewrite (R_refs a c H).
      + intros k'. cbn [t_refs refs]. rewrite m_get_app1, m_get_set, (R_refs a c H).
        rewrite (beqb_sym k' y). destruct (beqb y k') eqn:E2.
        * apply beqb_true in E2. subst k'. now rewrite Hy.
        * now destruct (m_get k' (refs a)).
      + intros k'. cbn [t_logs logs]. rewrite rows_of_app, rows_of_set_ref, fupd_eq, (beqb_sym k' y).
        destruct (beqb y k') eqn:E2.
        * apply beqb_true in E2. subst k'. rewrite (R_no_rows a c y H Hy). cbn [app].
          rewrite (R_logs a c H). apply set_ref_number.
        * rewrite app_nil_r. apply H.
    - rewrite E. cbn [fst snd]. cbn [cstep]. unfold sql_select_sum, sql_insert_ref.
      rewrite !(R_refs a c H).
      destruct (m_get x (refs a)) as [v|] eqn:Hx; [|split; [reflexivity|exact H]].
      destruct (m_get y (refs a)) eqn:Hy; [split; [reflexivity|exact H]|].
      destruct Hf as [Hf|Hf]; congruence.
  Qed.

  Lemma prim_sim : forall a c p, R a c -> sim_goal a c p.
  Proof.
    intros a c p H. destruct p.
    - now apply sim_set.
    - now apply sim_setlog.
    - (* get *) split; [|exact H]. cbn. unfold sql_select_sum. now rewrite (R_refs a c H).
    - now apply sim_delete.
    - (* filter *) split; [|exact H]. cbn. f_equal. unfold sql_select_where, s_filter.
      apply (select_agree a c _ _ H). intros k. now apply where_clause_sel.
    - (* filter key *) split; [|exact H]. cbn. do 2 f_equal. unfold sql_select_where, s_filter.
      apply (select_agree a c _ _ H). intros k. now apply where_clause_sel.
    - now apply sim_rename.
    - now apply sim_copy.
    - (* log read *) split; [|exact H]. cbn [cstep sstep snd].
      pose proof (R_clog a c k H) as Hc. unfold clog in Hc.
      unfold sql_count_logs in *. rewrite (R_logs a c H), number_length, rev_length in *.
      destruct (logs a k) as [|e l] eqn:El; [reflexivity|].
      cbn [length] in *. rewrite Hc. reflexivity.
  Qed.
End Sim.

Lemma in_tx_cases : forall d b d' r, in_tx d b = (d', r) -> r = ROk \/ (r = RErr /\ d' = d).
Proof. intros d [x|] d' r H; cbn in H; injection H as <- <-; auto. Qed.

(** * programs, client operations, runs *)
Section Sim2.
  Variable fk : filter_kind.
  Hypothesis fk_ok : filter_ok fk = true.

  Lemma prog_sim : forall (P : prog) a c, R a c ->
    snd (interp (cstep fk) c P) = snd (interp sstep a P) /\
    R (fst (interp sstep a P)) (fst (interp (cstep fk) c P)).
  Proof.
    induction P as [r|p k IH]; intros a c H.
    - split; [reflexivity|exact H].
    - rewrite !interp_call. destruct (prim_sim fk fk_ok a c p H) as [E HR]. rewrite E. now apply IH.
  Qed.

  Lemma op_sim : forall o a c, R a c ->
    snd (cstep_op fk c o) = snd (sstep_op a o) /\ R (fst (sstep_op a o)) (fst (cstep_op fk c o)).
  Proof.
    intros o a c H. unfold cstep_op.
    destruct (prog_sim (prog_of o) a c H) as [E HR].
    destruct (op_spec_eq a o (R_inv a c H)) as [E2 Hq].
    split; [congruence|].
    eapply R_seqv; [exact Hq| |exact HR]. eapply Sinv_seqv; [exact Hq|apply HR].
  Qed.

  Lemma run_sim : forall ops a c, R a c ->
    crun fk c ops = srun a ops /\ R (sreach a ops) (creach fk c ops).
  Proof.
    induction ops as [|o ops IH]; intros a c H; [split; [reflexivity|exact H]|].
    cbn [crun srun sreach creach].
    destruct (op_sim o a c H) as [E HR].
    destruct (cstep_op fk c o) as [c' r']. destruct (sstep_op a o) as [a' r]. cbn [fst snd] in *.
    subst r'. destruct (IH a' c' HR) as [E' HR']. split; [now rewrite E'|exact HR'].
  Qed.

  Theorem refines : forall ops, crun fk cinit ops = srun sinit ops.
  Proof. intros ops. apply (run_sim ops sinit cinit R_init). Qed.

  Lemma reach_R : forall ops, R (sreach sinit ops) (creach fk cinit ops).
  Proof. intros ops. apply (run_sim ops sinit cinit R_init). Qed.

  (** ** frame *)
  Theorem frame : forall ops o k, touches o k = false ->
    let c := creach fk cinit ops in
    let c' := fst (cstep_op fk c o) in
    cget c' k = cget c k /\ clog c' k = clog c k.
  Proof.
    intros ops o k Ht c c'. pose proof (reach_R ops) as H. fold c in H.
    destruct (op_sim o _ c H) as [_ H']. fold c' in H'.
    destruct (sstep_op_frame (sreach sinit ops) o k Ht) as [F1 F2].
    rewrite (R_cget _ _ k H'), (R_cget _ _ k H), (R_clog _ _ k H'), (R_clog _ _ k H).
    split; congruence.
  Qed.

  (** ** logs *)
  Theorem log_faithful : forall ops o k v m, is_logged_set o k v m ->
    let c := creach fk cinit ops in
    let c' := fst (cstep_op fk c o) in
    snd (cstep_op fk c o) = ROk /\
    cget c' k = Some v /\
    clog c' k = (mk_logent (cget c k) v m :: fst (clog c k), true) /\
    snd (clog c k) = true.
  Proof.
    intros ops o k v m Ho c c'. pose proof (reach_R ops) as H. fold c in H.
    destruct (op_sim o _ c H) as [E H']. fold c' in H'.
    rewrite E, (R_cget _ _ k H'), (R_cget _ _ k H), (R_clog _ _ k H'), (R_clog _ _ k H). cbn [fst snd].
    destruct Ho as [-> | ->]; cbn [sstep_op sstep fst snd refs logs];
      rewrite m_get_set_same, fupd_eq, beqb_refl; auto.
  Qed.

  Theorem log_append_only : forall ops o k,
    let c := creach fk cinit ops in
    let c' := fst (cstep_op fk c o) in
    (exists v m, is_logged_set o k v m /\
       fst (clog c' k) = mk_logent (cget c k) v m :: fst (clog c k)) \/
    fst (clog c' k) = [] \/
    (exists k', fst (clog c' k) = fst (clog c k')).
  Proof.
    intros ops o k c c'. pose proof (reach_R ops) as H. fold c in H.
    destruct (op_sim o _ c H) as [_ H']. fold c' in H'.
    rewrite (R_clog _ _ k H'), (R_clog _ _ k H), (R_cget _ _ k H). cbn [fst].
    destruct (sstep_op_log_step (sreach sinit ops) o k) as [[v [m [Ho E]]]|[E|[k' E]]].
    - left. exists v, m. now split.
    - right. now left.
    - right. right. exists k'. now rewrite (R_clog _ _ k' H).
  Qed.

  (** ** rename / copy carry value and log *)
  Theorem rename_carry : forall ops x y,
    let c := creach fk cinit ops in
    let c' := fst (cstep_op fk c (OP (PRename x y))) in
    let r := snd (cstep_op fk c (OP (PRename x y))) in
    (r = ROk <-> (cget c x <> None /\ cget c y = None)) /\
    (r = ROk -> cget c' y = cget c x /\ cget c' x = None /\
                clog c' y = clog c x /\ clog c' x = ([], true)) /\
    (r <> ROk -> r = RErr /\ c' = c).
  Proof.
    intros ops x y c c' r. pose proof (reach_R ops) as H. fold c in H.
    destruct (op_sim (OP (PRename x y)) _ c H) as [E H']. fold c' in H'. fold r in E.
    set (a := sreach sinit ops) in *.
    rewrite !(R_cget _ _ _ H'), !(R_cget _ _ _ H), !(R_clog _ _ _ H'), !(R_clog _ _ _ H).
    cbn [sstep_op] in *.
    destruct (sstep_rename_cases a x y) as [[v [Hx [Hy Es]]]|[Hf Es]]; rewrite Es in *; cbn [fst snd] in *.
    - assert (Hxy : beqb x y = false) by (apply beqb_false; intros ->; congruence).
      split; [split; [intros _; split; congruence|intros _; exact E]|].
      split; [|congruence]. intros _. cbn [refs logs].
      rewrite !m_get_del, !m_get_set, !fupd_eq, !beqb_refl, Hxy, Hx.
      repeat split; reflexivity.
    - split; [split; [congruence|]|].
      + intros [H1 H2]. destruct Hf; congruence.
      + split; [congruence|]. intros _. split; [exact E|].
        unfold c', cstep_op. cbn [prog_of interp].
        unfold r, cstep_op in E. cbn [prog_of interp] in E.
        destruct (cstep fk c (PRename x y)) as [c2 r2] eqn:Ec. cbn [fst snd] in *.
        cbn [cstep] in Ec. destruct (in_tx_cases _ _ _ _ Ec) as [->|[_ ->]]; [discriminate|reflexivity].
  Qed.

  Theorem copy_carry : forall ops x y,
    let c := creach fk cinit ops in
    let c' := fst (cstep_op fk c (OP (PCopy x y))) in
    let r := snd (cstep_op fk c (OP (PCopy x y))) in
    (r = ROk <-> (cget c x <> None /\ cget c y = None)) /\
    (r = ROk -> cget c' y = cget c x /\ cget c' x = cget c x /\
                clog c' y = clog c x /\ clog c' x = clog c x) /\
    (r <> ROk -> r = RErr /\ c' = c).
  Proof.
    intros ops x y c c' r. pose proof (reach_R ops) as H. fold c in H.
    destruct (op_sim (OP (PCopy x y)) _ c H) as [E H']. fold c' in H'. fold r in E.
    set (a := sreach sinit ops) in *.
    rewrite !(R_cget _ _ _ H'), !(R_cget _ _ _ H), !(R_clog _ _ _ H'), !(R_clog _ _ _ H).
    cbn [sstep_op] in *.
    destruct (sstep_copy_cases a x y) as [[v [Hx [Hy Es]]]|[Hf Es]]; rewrite Es in *; cbn [fst snd] in *.
    - assert (Hxy : beqb y x = false) by (apply beqb_false; intros ->; congruence).
      split; [split; [intros _; split; congruence|intros _; exact E]|].
      split; [|congruence]. intros _. cbn [refs logs].
      rewrite !m_get_set, !fupd_eq, !beqb_refl, Hxy, Hx. repeat split; reflexivity.
    - split; [split; [congruence|]|].
      + intros [H1 H2]. destruct Hf; congruence.
      + split; [congruence|]. intros _. split; [exact E|].
        unfold c', cstep_op. cbn [prog_of interp].
        unfold r, cstep_op in E. cbn [prog_of interp] in E.
        destruct (cstep fk c (PCopy x y)) as [c2 r2] eqn:Ec. cbn [fst snd] in *.
        cbn [cstep] in Ec. destruct (in_tx_cases _ _ _ _ Ec) as [->|[_ ->]]; [discriminate|reflexivity].
  Qed.

  Theorem carry : forall ops x y,
    let c := creach fk cinit ops in
    (snd (cstep_op fk c (OP (PRename x y))) = ROk ->
       clog (fst (cstep_op fk c (OP (PRename x y)))) y = clog c x) /\
    (snd (cstep_op fk c (OP (PCopy x y))) = ROk ->
       clog (fst (cstep_op fk c (OP (PCopy x y)))) y = clog c x /\
       clog (fst (cstep_op fk c (OP (PCopy x y)))) x = clog c x).
  Proof.
    intros ops x y c. split; intros Hok.
    - apply (rename_carry ops x y). exact Hok.
    - pose proof (copy_carry ops x y) as [_ [Hc _]]. specialize (Hc Hok). tauto.
  Qed.

  (** ** bulk delete and listing touch exactly the literal prefix *)
  Definition bulk_delete_prefix (o : op) : option bytes :=
    match o with
    | ODelRemote r => Some (remote_prefix r)
    | ODelTx id => Some (tx_prefix id)
    | _ => None
    end.

  Theorem bulk_delete_exact : forall ops o p, bulk_delete_prefix o = Some p ->
    let c := creach fk cinit ops in
    let c' := fst (cstep_op fk c o) in
    snd (cstep_op fk c o) = ROk /\
    forall k, cget c' k = (if is_prefix p k then None else cget c k) /\
              clog c' k = (if is_prefix p k then ([], true) else clog c k).
  Proof.
    intros ops o p Ho c c'. pose proof (reach_R ops) as H. fold c in H.
    destruct (op_sim o _ c H) as [E H']. fold c' in H'.
    assert (Es : sstep_op (sreach sinit ops) o = (s_delete_prefix p (sreach sinit ops), ROk)).
    { destruct o; try discriminate; injection Ho as <-; reflexivity. }
    rewrite Es in *. cbn [fst snd] in *. split; [exact E|]. intros k.
    rewrite (R_cget _ _ k H'), (R_cget _ _ k H), (R_clog _ _ k H'), (R_clog _ _ k H).
    cbn [s_delete_prefix refs logs]. rewrite (m_get_filter (fun x => negb (is_prefix p x))).
    now destruct (is_prefix p k).
  Qed.

  Theorem list_exact : forall ops p,
    let c := creach fk cinit ops in
    exists l, snd (cstep_op fk c (OP (PFilterKey [p] []))) = RKeys l /\
      forall k, In k l <-> (cget c k <> None /\ is_prefix p k = true).
  Proof.
    intros ops p c. pose proof (reach_R ops) as H. fold c in H.
    destruct (op_sim (OP (PFilterKey [p] [])) _ c H) as [E _].
    exists (map fst (s_filter [p] [] (sreach sinit ops))). split; [exact E|].
    intros k. rewrite (R_cget _ _ k H). apply filter_keys_exact.
  Qed.
End Sim2.

(** * bulk rename is a map operation on exactly the names under the old remote *)
Section Sim3.
  Variable fk : filter_kind.
  Hypothesis fk_ok : filter_ok fk = true.

  Lemma ren_remote_keys : forall a r, Sinv a ->
    let op := remote_prefix r in
    let ks := map fst (filter (fun kv => is_prefix op (fst kv)) (refs a)) in
    Forall (fun k => is_prefix op k = true) ks /\ NoDup ks /\
    (forall k, In k ks <-> (m_get k (refs a) <> None /\ is_prefix op k = true)).
  Proof.
    intros a r [Hs _] op ks. split; [apply filter_keys_prefix|]. split.
    - apply ssorted_nodup. now apply filter_sorted.
    - intros k. unfold ks. rewrite <- s_filter_single. apply filter_keys_exact.
  Qed.

  Theorem bulk_rename_exact : forall ops r r',
    let op := remote_prefix r in
    let np := remote_prefix r' in
    is_prefix op np = false -> is_prefix np op = false ->
    let c := creach fk cinit ops in
    let c' := fst (cstep_op fk c (ORenRemote r r')) in
    snd (cstep_op fk c (ORenRemote r r')) = ROk ->
    forall rest,
      cget c' (op ++ rest) = None /\ clog c' (op ++ rest) = ([], true) /\
      cget c' (np ++ rest) =
        (match cget c (op ++ rest) with Some v => Some v | None => cget c (np ++ rest) end) /\
      clog c' (np ++ rest) =
        (match cget c (op ++ rest) with Some _ => clog c (op ++ rest) | None => clog c (np ++ rest) end).
  Proof.
    intros ops r r' op np Hd1 Hd2 c c' Hok rest.
    pose proof (reach_R fk fk_ok ops) as H. fold c in H.
    destruct (op_sim fk fk_ok (ORenRemote r r') _ c H) as [E H']. fold c' in H'.
    set (a := sreach sinit ops) in *.
    rewrite Hok in E. symmetry in E.
    rewrite !(R_cget _ _ _ H'), !(R_cget _ _ _ H), !(R_clog _ _ _ H'), !(R_clog _ _ _ H).
    cbn [sstep_op] in *. fold op in E, H' |- *. fold np in E, H' |- *.
    destruct (ren_remote_keys a r (R_inv a c H)) as [Kp [Kn Kin]]. fold op in Kp, Kn, Kin.
    set (ks := map fst (filter (fun kv => is_prefix op (fst kv)) (refs a))) in *.
    assert (Hex : forall k, In k ks -> m_get k (refs a) <> None) by (intros k Hin; now apply Kin).
    destruct (s_rename_each_exact op np Hd1 Hd2 ks a Kp Kn Hex E) as [X1 X2].
    set (a' := fst (s_rename_each (length op) np ks a)) in *.
    assert (Hsplit : skipn (length op) (op ++ rest) = rest).
    { rewrite skipn_app, skipn_all, Nat.sub_diag. reflexivity. }
    assert (Himg : img op np (op ++ rest) = np ++ rest) by (unfold img; now rewrite Hsplit).
    destruct (m_get (op ++ rest) (refs a)) as [v|] eqn:Eg.
    - assert (Hin : In (op ++ rest) ks) by (apply Kin; split; [congruence|apply is_prefix_app]).
      destruct (X1 _ Hin) as [J1 [J2 [J3 J4]]]. rewrite Himg in J3, J4.
      rewrite J1, J2, J3, J4, Eg. repeat split; reflexivity.
    - assert (Hnin : ~ In (op ++ rest) ks) by (intros Hin; apply Kin in Hin; tauto).
      assert (Hn1 : forall k0, In k0 ks -> op ++ rest <> img op np k0).
      { intros k0 Hin. apply not_eq_sym. apply (img_not_src op np Hd1 Hd2). apply is_prefix_app. }
      destruct (X2 _ Hnin Hn1) as [J1 J2].
      assert (Hnin2 : ~ In (np ++ rest) ks).
      { intros Hin. rewrite Forall_forall in Kp. specialize (Kp _ Hin).
        rewrite <- Himg in Kp. exact (img_not_src op np Hd1 Hd2 _ (op ++ rest) Kp eq_refl). }
      assert (Hn2 : forall k0, In k0 ks -> np ++ rest <> img op np k0).
      { intros k0 Hin Eq. rewrite <- Himg in Eq. rewrite Forall_forall in Kp.
        apply (img_inj op np) in Eq; [|apply is_prefix_app|apply Kp, Hin]. subst k0. contradiction. }
      destruct (X2 _ Hnin2 Hn2) as [J3 J4].
      destruct (R_inv a c H) as [_ Hdom].
      rewrite J1, J2, J3, J4, Eg, (Hdom _ Eg). repeat split; reflexivity.
  Qed.

  Theorem bulk_rename_succeeds : forall ops r r',
    let op := remote_prefix r in
    let np := remote_prefix r' in
    is_prefix op np = false -> is_prefix np op = false ->
    let c := creach fk cinit ops in
    (forall rest, cget c (op ++ rest) <> None -> cget c (np ++ rest) = None) ->
    snd (cstep_op fk c (ORenRemote r r')) = ROk.
  Proof.
    intros ops r r' op np Hd1 Hd2 c Hfree.
    pose proof (reach_R fk fk_ok ops) as H. fold c in H.
    destruct (op_sim fk fk_ok (ORenRemote r r') _ c H) as [E _].
    set (a := sreach sinit ops) in *. rewrite E. cbn [sstep_op]. fold op. fold np.
    destruct (ren_remote_keys a r (R_inv a c H)) as [Kp [Kn Kin]]. fold op in Kp, Kn, Kin.
    apply (s_rename_each_ok op np Hd1 Hd2); auto.
    - intros k Hin. now apply Kin.
    - intros k Hin. apply Kin in Hin. destruct Hin as [Hex Hp].
      unfold img. rewrite <- (R_cget _ _ _ H). apply Hfree.
      rewrite (R_cget _ _ _ H), <- (is_prefix_split op k Hp). exact Hex.
  Qed.
End Sim3.

(** the pre-fix WHERE clause does not refine the specification *)
From Coq Require Import String.
Definition like_witness : list op :=
  let b := bytes_of_string in
  [OP (PSet (b "remotes/a_b/x") [1]); OP (PSet (b "remotes/acb/x") [2]);
   OListRefs (remote_prefix (b "a_b")); ODelRemote (b "a_b"); OP (PGet (b "remotes/acb/x"))]%string.

Theorem like_not_refines : exists ops, crun FLike cinit ops <> srun sinit ops.
Proof. exists like_witness. vm_compute. discriminate. Qed.

(** * non-vacuity: concrete histories that meet the hypotheses of the theorems
    and exercise their interesting branches (checked by computation) *)
Definition nv_b := bytes_of_string.
Definition nv_meta : meta := mk_meta (nv_b "me") (nv_b "me@x") (nv_b "commit") (nv_b "msg") None.
Definition nv_hist : list op :=
  [OP (PSetLog (nv_b "remotes/a_b/x") [1] nv_meta); OP (PSet (nv_b "remotes/acb/x") [2]);
   OP (PSetLog (nv_b "remotes/A_B/x") [3] nv_meta); OP (PSetLog (nv_b "remotes/a_b/x") [4] nv_meta);
   OP (PSet (nv_b "heads/a") [5])].

Example nv_filter_ok : filter_ok FInstr = true.
Proof. reflexivity. Qed.

(* the history is non-trivial: three remotes, a two-entry log, distinct results *)
Example nv_hist_results :
  crun FInstr cinit (nv_hist ++ [OListRefs (remote_prefix (nv_b "a_b")); OP (PLogRead (nv_b "remotes/a_b/x"))]) =
  [ROk; ROk; ROk; ROk; ROk; RMap [([120], [4])];
   RLog [mk_logent (Some [1]) [4] nv_meta; mk_logent None [1] nv_meta] true].
Proof. vm_compute. reflexivity. Qed.

(* frame: deleting remote a_b does not touch acb / A_B (the names LIKE confused), and they exist *)
Example nv_frame :
  touches (ODelRemote (nv_b "a_b")) (nv_b "remotes/acb/x") = false /\
  touches (ODelRemote (nv_b "a_b")) (nv_b "remotes/A_B/x") = false /\
  touches (ODelRemote (nv_b "a_b")) (nv_b "remotes/a_b/x") = true /\
  cget (creach FInstr cinit nv_hist) (nv_b "remotes/acb/x") = Some [2] /\
  cget (creach FInstr cinit nv_hist) (nv_b "remotes/A_B/x") = Some [3] /\
  cget (fst (cstep_op FInstr (creach FInstr cinit nv_hist) (ODelRemote (nv_b "a_b")))) (nv_b "remotes/a_b/x") = None.
Proof. vm_compute. repeat split; reflexivity. Qed.

(* carry: a successful rename and copy of a ref that has a log *)
Example nv_carry :
  snd (cstep_op FInstr (creach FInstr cinit nv_hist) (OP (PRename (nv_b "remotes/a_b/x") (nv_b "remotes/z/x")))) = ROk /\
  snd (cstep_op FInstr (creach FInstr cinit nv_hist) (OP (PCopy (nv_b "remotes/a_b/x") (nv_b "remotes/z/x")))) = ROk /\
  fst (clog (creach FInstr cinit nv_hist) (nv_b "remotes/a_b/x")) <> [].
Proof. vm_compute. repeat split; discriminate. Qed.

(* bulk rename of a remote whose name occurs inside "remotes/": hypotheses hold, it succeeds, and the
   refs and logs arrive under remotes/origin/ *)
Definition nv_hist_o : list op :=
  [OP (PSetLog (nv_b "remotes/o/main") [1] nv_meta); OP (PSetLog (nv_b "remotes/o/main") [2] nv_meta);
   OP (PSet (nv_b "remotes/o/o") [3]); OP (PSet (nv_b "remotes/other/main") [4]); OP (PSet (nv_b "heads/o") [5])].
Example nv_bulk_rename :
  is_prefix (remote_prefix (nv_b "o")) (remote_prefix (nv_b "origin")) = false /\
  is_prefix (remote_prefix (nv_b "origin")) (remote_prefix (nv_b "o")) = false /\
  snd (cstep_op FInstr (creach FInstr cinit nv_hist_o) (ORenRemote (nv_b "o") (nv_b "origin"))) = ROk /\
  crun FInstr cinit (nv_hist_o ++ [ORenRemote (nv_b "o") (nv_b "origin"); OP (PFilterKey [] []);
                                   OP (PLogRead (nv_b "remotes/origin/main"))]) =
  [ROk; ROk; ROk; ROk; ROk; ROk;
   RKeys [nv_b "heads/o"; nv_b "remotes/origin/main"; nv_b "remotes/origin/o"; nv_b "remotes/other/main"];
   RLog [mk_logent (Some [1]) [2] nv_meta; mk_logent None [1] nv_meta] true].
Proof. vm_compute. repeat split; reflexivity. Qed.
