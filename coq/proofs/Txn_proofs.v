(** Proofs for C14 (model/Txn.v). *)
From Coq Require Import String.
From Coq Require Import List NArith Bool Arith Permutation Lia.
From W.lib Require Import Tree.
From W.model Require Import Txn.
Import ListNotations.
Local Open Scope N_scope.

(** * Basic facts *)
Lemma list_N_eqb_eq : forall a b, list_N_eqb a b = true <-> a = b.
Proof.
  induction a as [|x a IH]; destruct b as [|y b]; cbn; split; intro H; try easy.
  - apply andb_true_iff in H as [H1 H2]. apply N.eqb_eq in H1. apply IH in H2. now subst.
  - inversion H; subst. rewrite N.eqb_refl. cbn. now apply IH.
Qed.

Lemma commit_eqb_eq : forall a b, commit_eqb a b = true <-> a = b.
Proof.
  induction a as [t m p|t m p c IH]; destruct b as [t' m' p'|t' m' p' c']; cbn; split; intro H; try easy.
  - apply andb_true_iff in H as [H H3]. apply andb_true_iff in H as [H1 H2].
    apply N.eqb_eq in H1, H2. apply list_N_eqb_eq in H3. now subst.
  - inversion H; subst. rewrite !N.eqb_refl. cbn. now apply list_N_eqb_eq.
  - apply andb_true_iff in H as [H H4]. apply andb_true_iff in H as [H H3].
    apply andb_true_iff in H as [H1 H2].
    apply N.eqb_eq in H1, H2. apply list_N_eqb_eq in H3. apply IH in H4. now subst.
  - inversion H; subst. rewrite !N.eqb_refl. cbn.
    apply andb_true_iff; split; [now apply list_N_eqb_eq | now apply IH].
Qed.

Lemma commit_eqb_refl : forall a, commit_eqb a a = true.
Proof. intro a. now apply commit_eqb_eq. Qed.

Lemma existsb_commit_In : forall c l, existsb (commit_eqb c) l = true <-> In c l.
Proof.
  intros c l. rewrite existsb_exists. split.
  - intros [x [Hin Heq]]. apply commit_eqb_eq in Heq. now subst.
  - intro Hin. exists c. split; [assumption | apply commit_eqb_refl].
Qed.

Lemma existsb_commit_set : forall c l1 l2,
  (forall x, In x l1 <-> In x l2) -> existsb (commit_eqb c) l1 = existsb (commit_eqb c) l2.
Proof.
  intros c l1 l2 H. apply eq_true_iff_eq. rewrite !existsb_commit_In. apply H.
Qed.

Definition mem (b : N) (D : list N) : bool := existsb (N.eqb b) D.

Lemma mem_In : forall b D, mem b D = true <-> In b D.
Proof.
  intros b D. unfold mem. rewrite existsb_exists. split.
  - intros [x [Hin Heq]]. apply N.eqb_eq in Heq. now subst.
  - intro Hin. exists b. split; [assumption | apply N.eqb_refl].
Qed.

Lemma mem_false : forall b D, mem b D = false <-> ~ In b D.
Proof.
  intros b D. rewrite <- mem_In. destruct (mem b D); split; intro H; congruence.
Qed.

Lemma upd_same : forall A (f : N -> A) k v, upd f k v k = v.
Proof. intros. unfold upd. now rewrite N.eqb_refl. Qed.

Lemma upd_other : forall A (f : N -> A) k v x, x <> k -> upd f k v x = f x.
Proof. intros A f k v x H. unfold upd. apply N.eqb_neq in H. now rewrite H. Qed.

Lemma apply_all_app : forall ws1 ws2 s, apply_all (ws1 ++ ws2) s = apply_all ws2 (apply_all ws1 s).
Proof. intros. unfold apply_all. apply fold_left_app. Qed.

Lemma apply_all_cons : forall w ws s, apply_all (w :: ws) s = apply_all ws (apply s w).
Proof. reflexivity. Qed.

(** lookup in an association list with distinct keys *)
Lemma lookup_In : forall (m : list (branch * commit)) b sum,
  NoDup (map fst m) -> In (b, sum) m -> lookup b m = Some sum.
Proof.
  unfold lookup. induction m as [|[b' s'] m IH]; intros b sum Hnd Hin; [easy|].
  cbn in *. inversion Hnd as [|? ? Hni Hnd']; subst.
  destruct Hin as [Heq|Hin].
  - inversion Heq; subst. now rewrite N.eqb_refl.
  - destruct (b' =? b) eqn:E.
    + apply N.eqb_eq in E. subst. exfalso. apply Hni.
      change b with (fst (b, sum)). now apply in_map.
    + now apply IH.
Qed.

Lemma lookup_None : forall (m : list (branch * commit)) b,
  ~ In b (map fst m) -> lookup b m = None.
Proof.
  unfold lookup. induction m as [|[b' s'] m IH]; intros b Hni; [easy|].
  cbn in *. destruct (b' =? b) eqn:E.
  - apply N.eqb_eq in E. subst. exfalso. apply Hni. now left.
  - apply IH. intro H. apply Hni. now right.
Qed.

Lemma lookup_Some_In : forall (m : list (branch * commit)) b sum,
  lookup b m = Some sum -> In (b, sum) m.
Proof.
  unfold lookup. induction m as [|[b' s'] m IH]; intros b sum H; [easy|].
  cbn in *. destruct (b' =? b) eqn:E.
  - apply N.eqb_eq in E. inversion H; subst. now left.
  - right. now apply IH.
Qed.

(** * The interrupted-commit invariant *)
Section Commit.
Variable id : txid.
Variable s0 : state.
Hypothesis Hpre : pre id s0.

Let m0 := staged s0 id.

Lemma pre_tx : txs s0 id = Some InProgress.
Proof. apply Hpre. Qed.
Lemma pre_nolog : forall b, tx_log_new id (logs s0 b) = None.
Proof. apply Hpre. Qed.
Lemma pre_nodup : NoDup (map fst m0).
Proof. apply Hpre. Qed.
Lemma pre_stored : forall b sum, In (b, sum) m0 -> stored s0 sum = true.
Proof. apply Hpre. Qed.

Lemma new_head_In : forall b sum, In (b, sum) m0 ->
  new_head id s0 b = Some (tx_commit_of id sum (heads s0 b)).
Proof.
  intros b sum Hin. unfold new_head. fold m0. now rewrite (lookup_In m0 b sum pre_nodup Hin).
Qed.

Lemma new_head_None : forall b, ~ In b (map fst m0) -> new_head id s0 b = None.
Proof. intros b H. unfold new_head. fold m0. now rewrite lookup_None. Qed.

Lemma new_head_Some : forall b c, new_head id s0 b = Some c ->
  exists sum, In (b, sum) m0 /\ c = tx_commit_of id sum (heads s0 b).
Proof.
  intros b c H. unfold new_head in H. fold m0 in H.
  destruct (lookup b m0) as [sum|] eqn:E; [|easy].
  exists sum. split; [now apply lookup_Some_In | now inversion H].
Qed.

Lemma keys_In : forall b, In b (map fst m0) -> exists sum, In (b, sum) m0.
Proof.
  intros b H. apply in_map_iff in H as [[b' sum] [Hf Hin]]. cbn in Hf. subst. now exists sum.
Qed.

(** [mid T D P s]: s is s0 with exactly the branches of D landed (each by its one commit,
    logged), the commit objects of P added (D's commits and possibly others of the
    transaction), and transaction table T. *)
Record mid (T : txid -> option txstatus) (D : list branch) (P : list commit) (s : state) : Prop := {
  m_heads : forall b, heads s b = if mem b D then new_head id s0 b else heads s0 b;
  m_logs : forall b, logs s b =
     if mem b D then match new_head id s0 b with
                     | Some c => mk_log (heads s0 b) c (Some id) :: logs s0 b
                     | None => logs s0 b end
     else logs s0 b;
  m_staged : forall i, staged s i = staged s0 i;
  m_txs : forall i, txs s i = T i;
  m_stored : forall c, stored s c = stored s0 c || existsb (commit_eqb c) P;
  m_D : forall b, In b D -> In b (map fst m0);
  m_P1 : forall b c, In b D -> new_head id s0 b = Some c -> In c P;
  m_P2 : forall c, In c P -> In c (new_commits id s0) }.

Definition Tc : txid -> option txstatus := upd (txs s0) id (Some Committed).

Lemma mid_init : mid (txs s0) [] [] s0.
Proof.
  constructor; try easy. intro c. cbn. now rewrite orb_false_r.
Qed.

Lemma mid_put : forall T D P s c,
  mid T D P s -> In c (new_commits id s0) -> mid T D (c :: P) (apply s (WPutCommit c)).
Proof.
  intros T D P s c [H1 H2 H3 H4 H5 H6 H7 H8] Hc. constructor; cbn; try assumption.
  - intro x. rewrite H5. now rewrite orb_assoc, (orb_comm (commit_eqb x c)), <- orb_assoc.
  - intros b c' Hb Hn. right. eapply H7; eauto.
  - intros c' [Heq|Hin]; [now subst | now apply H8].
Qed.

Lemma mid_set : forall T D P s b sum,
  mid T D P s -> In (b, sum) m0 -> mem b D = false ->
  In (tx_commit_of id sum (heads s0 b)) P ->
  mid T (b :: D) P (apply s (WSetWithLog b (tx_commit_of id sum (heads s0 b)) (Some id))).
Proof.
  intros T D P s b sum [H1 H2 H3 H4 H5 H6 H7 H8] Hin HbD HP.
  pose proof (new_head_In b sum Hin) as Hnh.
  constructor; cbn; try assumption.
  - intro x. unfold upd. destruct (x =? b) eqn:E.
    + apply N.eqb_eq in E. subst. now rewrite Hnh.
    + cbn. apply H1.
  - intro x. unfold upd. destruct (x =? b) eqn:E.
    + apply N.eqb_eq in E. subst. rewrite Hnh. rewrite H1, H2, HbD. reflexivity.
    + cbn. apply H2.
  - intros x [Heq|Hx]; [subst; change x with (fst (x, sum)); now apply in_map | now apply H6].
  - intros x c [Heq|Hx] Hn.
    + subst. rewrite Hnh in Hn. inversion Hn; subst. assumption.
    + eapply H7; eauto.
Qed.

Lemma new_commit_In : forall b sum, In (b, sum) m0 ->
  In (tx_commit_of id sum (heads s0 b)) (new_commits id s0).
Proof.
  intros b sum Hin. unfold new_commits. fold m0.
  apply in_map_iff. exists (b, sum). split; [reflexivity | assumption].
Qed.

(** The branch loop from a [mid] state: it never errs; every proper prefix of its writes
    leaves a [mid] state; all of them leave the [mid] state of D plus all enumerated
    branches, marked committed. *)
Lemma loop_mid : forall m D P s lg n,
  mid (txs s0) D P s ->
  NoDup (map fst m) ->
  (forall b sum, In (b, sum) m -> In (b, sum) m0) ->
  (forall b, In b (map fst m) -> lg b = if mem b D then new_head id s0 b else None) ->
  exists ws, commit_loop id lg m s = (ws, ROk) /\
    ((n < length ws)%nat -> exists D' P', mid (txs s0) D' P' (apply_all (firstn n ws) s)) /\
    ((length ws <= n)%nat -> exists D' P', mid Tc D' P' (apply_all (firstn n ws) s) /\
        forall x, mem x D' = mem x D || mem x (map fst m)).
Proof.
  induction m as [|[b sum] m IH]; intros D P s lg n Hmid Hnd Hsub Hlg.
  - cbn. eexists. split; [reflexivity|]. split.
    + intro Hn. cbn in Hn. assert (n = 0)%nat by lia. subst. cbn. eauto.
    + intro Hn. cbn in Hn. destruct n as [|n]; [lia|]. cbn [firstn]. rewrite firstn_nil.
      cbn [apply_all fold_left apply].
      exists D, P. split; [|intro x; now rewrite orb_false_r].
      destruct Hmid as [H1 H2 H3 H4 H5 H6 H7 H8].
      rewrite H4, pre_tx. constructor; cbn [heads logs staged txs stored]; try assumption.
      intro i. unfold Tc, upd. destruct (i =? id); [reflexivity | apply H4].
  - cbn [commit_loop].
    assert (Hin0 : In (b, sum) m0) by (apply Hsub; now left).
    pose proof (new_head_In b sum Hin0) as Hnh.
    inversion Hnd as [|? ? Hni Hnd']; subst.
    assert (Hsub' : forall b' sum', In (b', sum') m -> In (b', sum') m0)
      by (intros; apply Hsub; now right).
    rewrite (Hlg b) by (now left). destruct (mem b D) eqn:HbD.
    + (* already landed by an earlier run: skipped *)
      rewrite Hnh.
      assert (Hst : stored s (tx_commit_of id sum (heads s0 b)) = true).
      { rewrite (m_stored _ _ _ _ Hmid). apply orb_true_iff. right. apply existsb_commit_In.
        eapply (m_P1 _ _ _ _ Hmid); eauto. now apply mem_In. }
      rewrite Hst.
      destruct (IH D P s lg n Hmid Hnd' Hsub') as [ws [Hl [Hp Hf]]].
      { intros b' Hb'. apply Hlg. now right. }
      exists ws. split; [assumption|]. split; [assumption|].
      intro Hn. destruct (Hf Hn) as [D' [P' [Hm Hx]]]. exists D', P'. split; [assumption|].
      intro x. rewrite Hx. cbn. destruct (x =? b) eqn:E; [|reflexivity].
      apply N.eqb_eq in E. subst. rewrite HbD. reflexivity.
    + (* not yet landed *)
      assert (Hss : stored s sum = true).
      { rewrite (m_stored _ _ _ _ Hmid), (pre_stored b sum Hin0). reflexivity. }
      rewrite Hss.
      assert (Hh : heads s b = heads s0 b) by (rewrite (m_heads _ _ _ _ Hmid), HbD; reflexivity).
      rewrite Hh.
      set (c' := tx_commit_of id sum (heads s0 b)).
      pose proof (new_commit_In b sum Hin0) as Hc'. fold c' in Hc'.
      pose proof (mid_put _ _ _ _ c' Hmid Hc') as Hm1.
      assert (Hm2 : mid (txs s0) (b :: D) (c' :: P)
                        (apply (apply s (WPutCommit c')) (WSetWithLog b c' (Some id)))).
      { apply mid_set; try assumption. now left. }
      change (apply_all [WPutCommit c'; WSetWithLog b c' (Some id)] s)
        with (apply (apply s (WPutCommit c')) (WSetWithLog b c' (Some id))).
      destruct (IH (b :: D) (c' :: P) _ lg (n - 2)%nat Hm2 Hnd' Hsub') as [ws [Hl [Hp Hf]]].
      { intros b' Hb'. rewrite Hlg by (now right). cbn.
        destruct (b' =? b) eqn:E; [|reflexivity].
        apply N.eqb_eq in E. subst. contradiction. }
      rewrite Hl. eexists. split; [reflexivity|].
      cbn [app length]. split.
      * intro Hn. destruct n as [|[|n]].
        -- cbn. eauto.
        -- cbn. eauto.
        -- cbn [firstn]. rewrite !apply_all_cons.
           replace (S (S n) - 2)%nat with n in Hp by lia. apply Hp. lia.
      * intro Hn. destruct n as [|[|n]]; [lia|lia|].
        cbn [firstn]. rewrite !apply_all_cons.
        replace (S (S n) - 2)%nat with n in Hf by lia.
        destruct Hf as [D' [P' [Hm Hx]]]; [lia|]. exists D', P'. split; [assumption|].
        intro x. rewrite Hx. cbn. destruct (x =? b); cbn; [now rewrite orb_true_r | reflexivity].
Qed.

(** GetTransactionLogs on a [mid] state *)
Lemma mid_lg : forall D P s b, mid (txs s0) D P s ->
  tx_log_new id (logs s b) = if mem b D then new_head id s0 b else None.
Proof.
  intros D P s b Hmid. rewrite (m_logs _ _ _ _ Hmid).
  destruct (mem b D).
  - destruct (new_head id s0 b) as [c|].
    + cbn. now rewrite N.eqb_refl.
    + apply pre_nolog.
  - apply pre_nolog.
Qed.

Lemma perm_keys : forall (ord : order), order_ok ord m0 ->
  NoDup (map fst (ord m0)) /\ (forall b sum, In (b, sum) (ord m0) <-> In (b, sum) m0) /\
  (forall b, In b (map fst (ord m0)) <-> In b (map fst m0)).
Proof.
  intros ord Hord. unfold order_ok in Hord. split; [|split].
  - eapply Permutation_NoDup; [apply Permutation_sym, Permutation_map, Hord | apply pre_nodup].
  - intros b sum. split; apply Permutation_in; [assumption | now apply Permutation_sym].
  - intro b. split; apply Permutation_in; apply Permutation_map; [assumption | now apply Permutation_sym].
Qed.

(** Commit from a [mid] state, any enumeration order, any number of writes performed *)
Lemma commit_mid : forall (ord : order) D P s n,
  order_ok ord m0 -> mid (txs s0) D P s ->
  exists ws, tx_commit ord id s = (ws, ROk) /\
    ((n < length ws)%nat -> exists D' P', mid (txs s0) D' P' (apply_all (firstn n ws) s)) /\
    ((length ws <= n)%nat -> exists D' P', mid Tc D' P' (apply_all (firstn n ws) s) /\
        forall x, In x (map fst m0) -> mem x D' = true).
Proof.
  intros ord D P s n Hord Hmid. unfold tx_commit.
  rewrite (m_txs _ _ _ _ Hmid), pre_tx, (m_staged _ _ _ _ Hmid). fold m0.
  destruct (perm_keys ord Hord) as [Hnd [Hin Hk]].
  destruct (loop_mid (ord m0) D P s (fun b => tx_log_new id (logs s b)) n Hmid Hnd) as [ws [Hl [Hp Hf]]].
  - intros b sum H. now apply Hin.
  - intros b _. now apply mid_lg with (P := P).
  - exists ws. split; [assumption|]. split; [assumption|].
    intro Hn. destruct (Hf Hn) as [D' [P' [Hm Hx]]]. exists D', P'. split; [assumption|].
    intros x Hxk. rewrite Hx. apply orb_true_iff. right. apply mem_In. now apply Hk.
Qed.

(** a committed [mid] state covering every staged branch is the all-branches outcome *)
Lemma midc_outcome : forall D P s, mid Tc D P s ->
  (forall x, In x (map fst m0) -> mem x D = true) -> st_eq s (all_outcome id s0).
Proof.
  intros D P s [H1 H2 H3 H4 H5 H6 H7 H8] Hcov.
  assert (Hcase : forall b, (mem b D = true /\ exists c, new_head id s0 b = Some c) \/
                            (mem b D = false /\ new_head id s0 b = None)).
  { intro b. destruct (mem b D) eqn:E.
    - left. split; [reflexivity|]. apply mem_In, H6, keys_In in E as [sum Hin].
      eexists. now apply new_head_In with (sum := sum).
    - right. split; [reflexivity|]. apply new_head_None. intro Hk. apply Hcov in Hk. congruence. }
  unfold st_eq, all_outcome; cbn. repeat split.
  - intro b. rewrite H1. destruct (Hcase b) as [[E [c Hc]]|[E Hc]]; rewrite E, Hc; reflexivity.
  - intro b. rewrite H2. destruct (Hcase b) as [[E [c Hc]]|[E Hc]]; rewrite E, Hc; reflexivity.
  - assumption.
  - assumption.
  - intro c. rewrite H5. f_equal. apply existsb_commit_set. intro x. split; [apply H8|].
    intro Hx. unfold new_commits in Hx. fold m0 in Hx.
    apply in_map_iff in Hx as [[b sum] [Heq Hin]]. cbn in Heq. subst x.
    apply H7 with (b := b).
    + apply mem_In, Hcov. change b with (fst (b, sum)). now apply in_map.
    + now apply new_head_In.
Qed.

(** every branch of a [mid] state is either where it was or landed exactly once and logged *)
Lemma mid_branch : forall T D P s b, mid T D P s -> unmoved s0 s b \/ landed id s0 s b.
Proof.
  intros T D P s b Hmid. destruct (mem b D) eqn:E.
  - right. pose proof E as HbD. apply mem_In in HbD.
    destruct (keys_In b (m_D _ _ _ _ Hmid b HbD)) as [sum Hin].
    pose proof (new_head_In b sum Hin) as Hnh.
    exists sum. split; [assumption|]. cbn. repeat split.
    + now rewrite (m_heads _ _ _ _ Hmid), E.
    + rewrite (m_stored _ _ _ _ Hmid). apply orb_true_iff. right. apply existsb_commit_In.
      eapply (m_P1 _ _ _ _ Hmid); eauto.
    + now rewrite (m_logs _ _ _ _ Hmid), E, Hnh.
  - left. split; [now rewrite (m_heads _ _ _ _ Hmid), E | now rewrite (m_logs _ _ _ _ Hmid), E].
Qed.

(** ** States reachable from s0 by any number of interrupted Commits (any orders, any cut points) *)
Inductive interrupted : state -> Prop :=
| int_0 : interrupted s0
| int_S : forall s (ord : order) n, interrupted s -> order_ok ord m0 ->
    (n < length (fst (tx_commit ord id s)))%nat ->
    interrupted (fst (run_upto n (tx_commit ord id s) s)).

Lemma interrupted_mid : forall s, interrupted s -> exists D P, mid (txs s0) D P s.
Proof.
  induction 1 as [|s ord n Hi [D [P Hmid]] Hord Hn].
  - exists [], []. apply mid_init.
  - destruct (commit_mid ord D P s n Hord Hmid) as [ws [Hl [Hp _]]].
    rewrite Hl in *. cbn in *. now apply Hp.
Qed.

Lemma complete_from_interrupted : forall s (ord : order), interrupted s -> order_ok ord m0 ->
  exists s', run_full (tx_commit ord id s) s = (s', ROk) /\ st_eq s' (all_outcome id s0).
Proof.
  intros s ord Hi Hord. destruct (interrupted_mid s Hi) as [D [P Hmid]].
  destruct (commit_mid ord D P s (length (fst (tx_commit ord id s))) Hord Hmid) as [ws [Hl [_ Hf]]].
  unfold run_full. rewrite Hl in *. cbn in *. eexists. split; [reflexivity|].
  destruct Hf as [D' [P' [Hm Hcov]]]; [lia|]. rewrite firstn_all in Hm.
  eapply midc_outcome; eauto.
Qed.

(** the state after the first n writes of a Commit issued from an interrupted state *)
Lemma crash_state : forall s (ord : order) n, interrupted s -> order_ok ord m0 ->
  let s1 := fst (run_upto n (tx_commit ord id s) s) in
  (interrupted s1 /\ txs s1 id = Some InProgress) \/
  (st_eq s1 (all_outcome id s0) /\ (length (fst (tx_commit ord id s)) <= n)%nat).
Proof.
  intros s ord n Hi Hord s1.
  destruct (Nat.lt_ge_cases n (length (fst (tx_commit ord id s)))) as [Hn|Hn].
  - left. split; [now apply int_S|].
    destruct (interrupted_mid s1) as [D [P Hm]]; [now apply int_S|].
    rewrite (m_txs _ _ _ _ Hm). apply pre_tx.
  - right. split; [|assumption]. destruct (interrupted_mid s Hi) as [D [P Hmid]].
    destruct (commit_mid ord D P s n Hord Hmid) as [ws [Hl [_ Hf]]].
    subst s1. unfold run_upto. rewrite Hl in *. cbn in *.
    destruct (Hf Hn) as [D' [P' [Hm Hcov]]]. eapply midc_outcome; eauto.
Qed.

Lemma crash_branch : forall s (ord : order) n b, interrupted s -> order_ok ord m0 ->
  let s1 := fst (run_upto n (tx_commit ord id s) s) in
  unmoved s0 s1 b \/ landed id s0 s1 b.
Proof.
  intros s ord n b Hi Hord s1. destruct (interrupted_mid s Hi) as [D [P Hmid]].
  destruct (commit_mid ord D P s n Hord Hmid) as [ws [Hl [Hp Hf]]].
  subst s1. unfold run_upto. rewrite Hl in *. cbn in *.
  destruct (Nat.lt_ge_cases n (length ws)) as [Hn|Hn].
  - destruct (Hp Hn) as [D' [P' Hm]]. eapply mid_branch; eauto.
  - destruct (Hf Hn) as [D' [P' [Hm _]]]. eapply mid_branch; eauto.
Qed.

Lemma commit_result : forall s (ord : order), interrupted s -> order_ok ord m0 ->
  snd (tx_commit ord id s) = ROk.
Proof.
  intros s ord Hi Hord. destruct (interrupted_mid s Hi) as [D [P Hmid]].
  destruct (commit_mid ord D P s 0%nat Hord Hmid) as [ws [Hl _]]. now rewrite Hl.
Qed.

End Commit.

(** * Statements in the shape used by props/C14.v *)

Theorem all_or_completable : forall id s0 (ord1 ord2 : order) n,
  pre id s0 -> order_ok ord1 (staged s0 id) -> order_ok ord2 (staged s0 id) ->
  let s1 := fst (run_upto n (tx_commit ord1 id s0) s0) in
  (forall b, unmoved s0 s1 b) \/
  (exists s2, run_full (tx_commit ord2 id s1) s1 = (s2, ROk) /\ st_eq s2 (all_outcome id s0)) \/
  (st_eq s1 (all_outcome id s0) /\ snd (run_upto n (tx_commit ord1 id s0) s0) = ROk).
Proof.
  intros id s0 ord1 ord2 n Hpre H1 H2 s1.
  destruct (crash_state id s0 Hpre s0 ord1 n (int_0 id s0) H1) as [[Hi _]|[Heq Hn]].
  - right. left. now apply complete_from_interrupted.
  - right. right. split; [assumption|]. unfold run_upto. cbn [snd].
    apply Nat.ltb_ge in Hn. rewrite Hn. apply commit_result with (s0 := s0); try assumption. constructor.
Qed.

(** the strong form: whatever the cut point, while the transaction is not yet marked
    committed a re-run (any order) completes it to exactly the all-branches outcome *)
Theorem rerun_completes : forall id s0 (ord1 ord2 : order) n,
  pre id s0 -> order_ok ord1 (staged s0 id) -> order_ok ord2 (staged s0 id) ->
  let s1 := fst (run_upto n (tx_commit ord1 id s0) s0) in
  (txs s1 id = Some InProgress /\
   exists s2, run_full (tx_commit ord2 id s1) s1 = (s2, ROk) /\ st_eq s2 (all_outcome id s0)) \/
  (txs s1 id = Some Committed /\ st_eq s1 (all_outcome id s0)).
Proof.
  intros id s0 ord1 ord2 n Hpre H1 H2 s1.
  destruct (crash_state id s0 Hpre s0 ord1 n (int_0 id s0) H1) as [[Hi Ht]|[Heq Hn]].
  - left. split; [assumption|]. now apply complete_from_interrupted.
  - right. split; [|assumption]. destruct Heq as [_ [_ [_ [Ht _]]]]. fold s1 in Ht.
    rewrite Ht. cbn. apply upd_same.
Qed.

Theorem uninterrupted : forall id s0 (ord : order),
  pre id s0 -> order_ok ord (staged s0 id) ->
  exists s', run_full (tx_commit ord id s0) s0 = (s', ROk) /\ st_eq s' (all_outcome id s0).
Proof.
  intros id s0 ord Hpre Hord. apply complete_from_interrupted; try assumption. constructor.
Qed.

Theorem any_crash_history : forall id s0 s (ord : order),
  pre id s0 -> interrupted id s0 s -> order_ok ord (staged s0 id) ->
  exists s', run_full (tx_commit ord id s) s = (s', ROk) /\ st_eq s' (all_outcome id s0).
Proof. intros. now apply complete_from_interrupted. Qed.

Theorem logged : forall id s0 s (ord : order) n b,
  pre id s0 -> interrupted id s0 s -> order_ok ord (staged s0 id) ->
  let s1 := fst (run_upto n (tx_commit ord id s) s) in
  heads s1 b <> heads s0 b -> landed id s0 s1 b.
Proof.
  intros id s0 s ord n b Hpre Hi Hord s1 Hne.
  destruct (crash_branch id s0 Hpre s ord n b Hi Hord) as [[Hh _]|Hl]; [|assumption].
  fold s1 in Hh. contradiction.
Qed.

Theorem branch_consistent : forall id s0 s (ord : order) n b,
  pre id s0 -> interrupted id s0 s -> order_ok ord (staged s0 id) ->
  let s1 := fst (run_upto n (tx_commit ord id s) s) in
  unmoved s0 s1 b \/ landed id s0 s1 b.
Proof. intros. now apply crash_branch. Qed.

(** shape of the outcome, in the words of the property *)
Theorem outcome_shape : forall id s0 b sum,
  pre id s0 -> In (b, sum) (staged s0 id) ->
  exists c', heads (all_outcome id s0) b = Some c' /\
    c_table c' = c_table sum /\ c_parent c' = heads s0 b /\ c_pfx c' = id :: c_pfx sum /\
    c_meta c' = c_meta sum /\
    logs (all_outcome id s0) b = mk_log (heads s0 b) c' (Some id) :: logs s0 b /\
    stored (all_outcome id s0) c' = true /\
    txs (all_outcome id s0) id = Some Committed.
Proof.
  intros id s0 b sum Hpre Hin.
  pose proof (new_head_In id s0 Hpre b sum Hin) as Hnh.
  exists (tx_commit_of id sum (heads s0 b)). cbn. rewrite Hnh. repeat split.
  - unfold tx_commit_of, mk_commit. now destruct (heads s0 b).
  - unfold tx_commit_of, mk_commit. now destruct (heads s0 b).
  - unfold tx_commit_of, mk_commit. now destruct (heads s0 b).
  - unfold tx_commit_of, mk_commit. now destruct (heads s0 b).
  - apply orb_true_iff. right. apply existsb_commit_In. now apply new_commit_In.
  - apply upd_same.
Qed.

Theorem outcome_frame : forall id s0 b,
  ~ In b (map fst (staged s0 id)) ->
  heads (all_outcome id s0) b = heads s0 b /\ logs (all_outcome id s0) b = logs s0 b.
Proof.
  intros id s0 b Hni. cbn. unfold new_head. now rewrite lookup_None.
Qed.

(** * C14_once *)
Theorem once_commit : forall id s (ord : order) n,
  txs s id = Some Committed -> run_upto n (tx_commit ord id s) s = (s, RErr).
Proof.
  intros id s ord n H. unfold run_upto, tx_commit. rewrite H. cbn. now destruct n.
Qed.

Theorem once_discard : forall id s (ord : order) n,
  txs s id = Some Committed -> run_upto n (tx_discard ord id s) s = (s, RErr).
Proof.
  intros id s ord n H. unfold run_upto, tx_discard. rewrite H. cbn. now destruct n.
Qed.

Theorem missing_tx : forall id s (ord : order) n,
  txs s id = None ->
  run_upto n (tx_commit ord id s) s = (s, RErr) /\ run_upto n (tx_discard ord id s) s = (s, RErr).
Proof.
  intros id s ord n H. unfold run_upto, tx_commit, tx_discard. rewrite H. cbn. now destruct n.
Qed.

(** * Discard *)
Lemma Forall_firstn : forall A (P : A -> Prop) n (l : list A), Forall P l -> Forall P (firstn n l).
Proof.
  intros A P n. induction n as [|n IH]; intros l H; [constructor|].
  destruct l as [|x l]; [constructor|]. inversion H; subst. cbn. constructor; auto.
Qed.

Definition discard_write (id : txid) (w : write) : Prop :=
  match w with WDelStaged i _ => i = id | WDelTx i => i = id | _ => False end.

Lemma discard_frame_ws : forall id ws s, Forall (discard_write id) ws ->
  let s1 := apply_all ws s in
  (forall b, heads s1 b = heads s b) /\ (forall b, logs s1 b = logs s b) /\
  (forall c, stored s1 c = stored s c) /\
  (forall i, i <> id -> staged s1 i = staged s i /\ txs s1 i = txs s i) /\
  incl (staged s1 id) (staged s id).
Proof.
  intros id ws. induction ws as [|w ws IH]; intros s Hall.
  - cbn. repeat split; try easy.
  - inversion Hall as [|? ? Hw Hall']; subst. rewrite apply_all_cons.
    destruct (IH (apply s w) Hall') as [I1 [I2 [I3 [I4 I5]]]].
    assert (Hstep : (forall b, heads (apply s w) b = heads s b) /\
                    (forall b, logs (apply s w) b = logs s b) /\
                    (forall c, stored (apply s w) c = stored s c) /\
                    (forall i, i <> id -> staged (apply s w) i = staged s i /\ txs (apply s w) i = txs s i) /\
                    incl (staged (apply s w) id) (staged s id)).
    { destruct w as [c|b c t|i st|i b|i]; cbn in Hw; try contradiction; subst i.
      - cbn [apply heads logs staged txs stored].
        split; [reflexivity|]. split; [reflexivity|]. split; [reflexivity|]. split.
        + intros i Hi. split; [now rewrite upd_other | reflexivity].
        + rewrite upd_same. intros x Hx. now apply filter_In in Hx.
      - cbn [apply]. destruct (txs s id) as [[|]|]; cbn [heads logs staged txs stored].
        + split; [reflexivity|]. split; [reflexivity|]. split; [reflexivity|]. split.
          * intros i Hi. split; [reflexivity | now rewrite upd_other].
          * apply incl_refl.
        + repeat split; try reflexivity. apply incl_refl.
        + repeat split; try reflexivity. apply incl_refl. }
    destruct Hstep as [S1 [S2 [S3 [S4 S5]]]].
    cbn zeta. split; [|split; [|split; [|split]]].
    + intro b. now rewrite I1.
    + intro b. now rewrite I2.
    + intro c. now rewrite I3.
    + intros i Hi. destruct (I4 i Hi) as [E F]. destruct (S4 i Hi) as [E' F']. split; congruence.
    + eapply incl_tran; eauto.
Qed.

Lemma discard_writes_ok : forall id (ord : order) s, Forall (discard_write id) (discard_writes ord id s).
Proof.
  intros id ord s. unfold discard_writes. apply Forall_app. split.
  - apply Forall_forall. intros w Hw. apply in_map_iff in Hw as [e [He _]]. now subst.
  - now constructor.
Qed.

Theorem discard_frame : forall id s (ord : order) n,
  let s1 := fst (run_upto n (tx_discard ord id s) s) in
  (forall b, heads s1 b = heads s b) /\ (forall b, logs s1 b = logs s b) /\
  (forall c, stored s1 c = stored s c) /\
  (forall i, i <> id -> staged s1 i = staged s i /\ txs s1 i = txs s i) /\
  incl (staged s1 id) (staged s id).
Proof.
  intros id s ord n. cbn [run_upto fst]. apply discard_frame_ws.
  unfold tx_discard. destruct (txs s id) as [[|]|]; cbn [fst].
  - apply Forall_firstn, discard_writes_ok.
  - rewrite firstn_nil. constructor.
  - rewrite firstn_nil. constructor.
Qed.

Lemma filter_keys_nil : forall (l : list (branch * commit)),
  filter (fun e => negb (mem (fst e) [])) l = l.
Proof.
  induction l as [|e l IH]; [reflexivity|].
  cbn [filter]. change (mem (fst e) []) with false. cbn [negb]. now rewrite IH.
Qed.

Lemma filter_keys_cons : forall b K (l : list (branch * commit)),
  filter (fun e => negb (mem (fst e) K)) (filter (fun e => negb (fst e =? b)) l)
  = filter (fun e => negb (mem (fst e) (b :: K))) l.
Proof.
  unfold branch. intros b K. induction l as [|e l IH]; [reflexivity|].
  cbn [filter]. change (mem (fst e) (b :: K)) with ((fst e =? b) || mem (fst e) K).
  destruct (fst e =? b); cbn [negb orb filter].
  - apply IH.
  - destruct (mem (fst e) K); cbn [negb]; [apply IH | now rewrite IH].
Qed.

Lemma filter_all_out : forall K (l : list (branch * commit)),
  (forall e, In e l -> mem (fst e) K = true) -> filter (fun e => negb (mem (fst e) K)) l = [].
Proof.
  unfold branch. intros K. induction l as [|e l IHl]; intro Hk; [reflexivity|].
  cbn [filter]. rewrite Hk by (now left). cbn [negb]. apply IHl.
  intros e' He'. apply Hk. now right.
Qed.

Lemma del_staged_all : forall id (m : list (branch * commit)) s,
  let s1 := apply_all (map (fun e => WDelStaged id (fst e)) m) s in
  staged s1 id = filter (fun e => negb (mem (fst e) (map fst m))) (staged s id) /\
  txs s1 = txs s.
Proof.
  intros id m. induction m as [|[b c] m IH]; intro s.
  - cbn [map apply_all fold_left]. split; [|reflexivity]. now rewrite filter_keys_nil.
  - cbn [map]. rewrite apply_all_cons. destruct (IH (apply s (WDelStaged id (fst (b, c))))) as [E1 E2].
    cbn zeta. rewrite E1, E2. cbn [apply staged txs fst]. rewrite upd_same. split; [|reflexivity].
    apply filter_keys_cons.
Qed.

Theorem discard_complete : forall id s (ord : order),
  txs s id = Some InProgress -> order_ok ord (staged s id) ->
  exists s1, run_full (tx_discard ord id s) s = (s1, ROk) /\
    staged s1 id = [] /\ txs s1 id = None.
Proof.
  intros id s ord Ht Hord. unfold run_full, tx_discard. rewrite Ht. cbn [fst snd].
  eexists. split; [reflexivity|]. unfold discard_writes. rewrite apply_all_app.
  destruct (del_staged_all id (ord (staged s id)) s) as [E1 E2]. cbn zeta in E1, E2.
  set (sa := apply_all (map (fun e => WDelStaged id (fst e)) (ord (staged s id))) s) in *.
  cbn. rewrite E2, Ht. cbn. split; [|apply upd_same].
  rewrite E1. clear E1 E2 sa.
  assert (Hk : forall e, In e (staged s id) -> mem (fst e) (map fst (ord (staged s id))) = true).
  { intros e He. apply mem_In. apply Permutation_in with (l := map fst (staged s id)).
    - apply Permutation_map, Permutation_sym, Hord.
    - now apply in_map. }
  now apply filter_all_out.
Qed.


(** * Enumeration orders used by the executable model are permutations *)
Lemma filter_split_perm : forall A (f : A -> bool) (l : list A),
  Permutation (filter f l ++ filter (fun x => negb (f x)) l) l.
Proof.
  intros A f. induction l as [|x l IH]; [constructor|].
  cbn [filter]. destruct (f x); cbn [negb app].
  - now constructor.
  - apply Permutation_sym. apply Permutation_cons_app. now apply Permutation_sym.
Qed.

Lemma filter_filter : forall A (f g : A -> bool) (l : list A),
  filter f (filter g l) = filter (fun x => g x && f x) l.
Proof.
  intros A f g. induction l as [|x l IH]; [reflexivity|].
  cbn [filter]. destruct (g x); cbn [andb filter]; [destruct (f x)|]; now rewrite IH.
Qed.

Lemma ord_id_ok : forall l, order_ok ord_id l.
Proof. intro l. apply Permutation_refl. Qed.

Lemma ord_rev_ok : forall l, order_ok (@rev _) l.
Proof. intro l. apply Permutation_sym, Permutation_rev. Qed.

Lemma ord_by_ok : forall perm l, NoDup perm -> order_ok (ord_by perm) l.
Proof.
  unfold order_ok, ord_by, branch. induction perm as [|b p IH]; intros l Hnd.
  - cbn [flat_map existsb app]. cbn [negb].
    induction l as [|x l IHl]; [constructor|]. cbn [filter]. now constructor.
  - inversion Hnd as [|? ? Hni Hnd']; subst. specialize (IH l Hnd').
    cbn [flat_map].
    set (FM := flat_map (fun b0 => filter (fun e : N * commit => fst e =? b0) l) p) in *.
    set (Rp := filter (fun e : N * commit => negb (existsb (N.eqb (fst e)) p)) l) in *.
    assert (E1 : filter (fun e : N * commit => fst e =? b) Rp = filter (fun e : N * commit => fst e =? b) l).
    { subst Rp. rewrite filter_filter. apply filter_ext_in. intros e _.
      destruct (fst e =? b) eqn:E; [|now rewrite andb_false_r].
      apply N.eqb_eq in E. rewrite E. rewrite andb_true_r.
      apply negb_true_iff. apply mem_false in Hni. exact Hni. }
    assert (E2 : filter (fun e : N * commit => negb (fst e =? b)) Rp
                 = filter (fun e : N * commit => negb (existsb (N.eqb (fst e)) (b :: p))) l).
    { subst Rp. rewrite filter_filter. apply filter_ext. intro e. cbn [existsb].
      rewrite negb_orb. apply andb_comm. }
    rewrite <- E1, <- E2.
    eapply Permutation_trans; [|exact IH].
    rewrite <- app_assoc.
    eapply Permutation_trans; [apply Permutation_app_swap_app|].
    apply Permutation_app_head. apply filter_split_perm.
Qed.

(** * Witnesses *)
Definition s_w : state := stage 1 1 8 (stage 1 0 7 (new_tx 1 (plain_commit 0 100 init))).

Lemma s_w_pre : pre 1 s_w.
Proof.
  unfold pre. split; [reflexivity|]. split; [|split].
  - intro b. unfold s_w, stage, new_tx, plain_commit.
    cbn [apply_all fold_left apply logs heads staged txs stored].
    unfold upd. destruct (b =? 0); reflexivity.
  - vm_compute. repeat constructor; cbn; intuition; discriminate.
  - intros b sum H. vm_compute in H. destruct H as [H|[H|[]]]; inversion H; subst; reflexivity.
Qed.

Definition s_committed : state := fst (run_full (tx_commit ord_id 1 s_w) s_w).

(* pre-fix Commit: a second Commit of a committed transaction succeeds and stacks a copy of
   the head commit on top of it *)
Lemma once_v0_refuted : exists id s (ord : order),
  order_ok ord (staged s id) /\ txs s id = Some Committed /\
  snd (run_full (tx_commit_v0 ord id s) s) = ROk /\
  exists b c, heads s b = Some c /\
    heads (fst (run_full (tx_commit_v0 ord id s) s)) b
    = Some (Child (c_table c) (c_meta c) (c_pfx c) c).
Proof.
  exists 1, s_committed, ord_id. split; [apply ord_id_ok|]. split; [reflexivity|].
  split; [reflexivity|]. exists 0. eexists. split; reflexivity.
Qed.

(* pre-fix Commit: crash after the first branch has landed; the re-run cannot reach the
   all-branches outcome (the landed branch gets a second commit) *)
Lemma completable_v0_refuted : exists id s0 (ord1 ord2 : order) n,
  pre id s0 /\ order_ok ord1 (staged s0 id) /\ order_ok ord2 (staged s0 id) /\
  let s1 := fst (run_upto n (tx_commit_v0 ord1 id s0) s0) in
  ~ (forall b, unmoved s0 s1 b) /\ txs s1 id = Some InProgress /\
  forall s2 r, run_full (tx_commit_v0 ord2 id s1) s1 = (s2, r) -> ~ st_eq s2 (all_outcome id s0).
Proof.
  exists 1, s_w, ord_id, ord_id, 2%nat.
  split; [apply s_w_pre|]. split; [apply ord_id_ok|]. split; [apply ord_id_ok|].
  cbn zeta. split; [|split].
  - intro H. destruct (H 0) as [Hh _]. vm_compute in Hh. discriminate.
  - reflexivity.
  - intros s2 r H Heq. inversion H; subst. destruct Heq as [Hh _]. specialize (Hh 0).
    vm_compute in Hh. discriminate.
Qed.

(* pre-fix Discard: refusing to discard a committed transaction, but only after having
   deleted its staged refs *)
Lemma discard_v0_refuted : exists id s (ord : order),
  order_ok ord (staged s id) /\ txs s id = Some Committed /\ staged s id <> [] /\
  snd (run_full (tx_discard_v0 ord id s) s) = RErr /\
  staged (fst (run_full (tx_discard_v0 ord id s) s)) id = [].
Proof.
  exists 1, s_committed, ord_id. split; [apply ord_id_ok|]. split; [reflexivity|].
  split; [|split; reflexivity]. vm_compute. discriminate.
Qed.

(* the repaired code on the same witnesses *)
Example once_fixed_witness :
  run_full (tx_commit ord_id 1 s_committed) s_committed = (s_committed, RErr) /\
  run_full (tx_discard ord_id 1 s_committed) s_committed = (s_committed, RErr).
Proof. split; reflexivity. Qed.

(* non-vacuity: a concrete pre-state with two staged branches (one existing, one new), two
   different enumeration orders, a cut after the first branch *)
Example nonvacuous :
  pre 1 s_w /\ length (staged s_w 1) = 2%nat /\
  order_ok (@rev _) (staged s_w 1) /\ order_ok (ord_by [1; 0]) (staged s_w 1) /\
  let s1 := fst (run_upto 2 (tx_commit (@rev _) 1 s_w) s_w) in
  heads s1 1 <> heads s_w 1 /\ heads s1 0 = heads s_w 0 /\ txs s1 1 = Some InProgress /\
  snd (run_full (tx_commit ord_id 1 s1) s1) = ROk /\
  txn_skel_ok_strict txn_commit_skel_ref = true /\ txn_discard_skel_ok_strict txn_discard_skel_ref = true /\
  txn_skel_ok txn_commit_skel_v0 = false /\ txn_discard_skel_ok txn_discard_skel_v0 = false.
Proof.
  split; [apply s_w_pre|]. split; [reflexivity|]. split; [apply ord_rev_ok|].
  split; [apply ord_by_ok; repeat constructor; cbn; intuition; discriminate|].
  cbn zeta. split; [vm_compute; discriminate|]. repeat split; reflexivity.
Qed.

Theorem once : forall id s (ord : order) n, txs s id = Some Committed ->
  run_upto n (tx_commit ord id s) s = (s, RErr) /\ run_upto n (tx_discard ord id s) s = (s, RErr).
Proof. intros. split; [now apply once_commit | now apply once_discard]. Qed.

(** * Discard is completable from every cut *)
Lemma del_staged_frame_tx : forall id (m : list (branch * commit)) s,
  txs (apply_all (map (fun e => WDelStaged id (fst e)) m) s) = txs s.
Proof. intros id m s. apply (proj2 (del_staged_all id m s)). Qed.

Theorem discard_rerun : forall id s (ord1 ord2 : order) n,
  txs s id = Some InProgress -> order_ok ord1 (staged s id) ->
  let s1 := fst (run_upto n (tx_discard ord1 id s) s) in
  order_ok ord2 (staged s1 id) ->
  (txs s1 id = Some InProgress /\
   exists s2, run_full (tx_discard ord2 id s1) s1 = (s2, ROk) /\ staged s2 id = [] /\ txs s2 id = None) \/
  (txs s1 id = None /\ staged s1 id = [] /\ snd (run_upto n (tx_discard ord1 id s) s) = ROk).
Proof.
  intros id s ord1 ord2 n Ht H1 s1 H2.
  set (dels := map (fun e => WDelStaged id (fst e)) (ord1 (staged s id))).
  assert (Hp : tx_discard ord1 id s = (dels ++ [WDelTx id], ROk)).
  { unfold tx_discard. now rewrite Ht. }
  destruct (Nat.le_gt_cases n (length dels)) as [Hn|Hn].
  - (* only staged refs deleted so far: still in progress, Discard applies again *)
    assert (Hs1 : s1 = apply_all (map (fun e => WDelStaged id (fst e)) (firstn n (ord1 (staged s id)))) s).
    { subst s1. unfold run_upto. rewrite Hp. cbn [fst]. rewrite firstn_app.
      replace (n - length dels)%nat with 0%nat by lia. cbn [firstn]. rewrite app_nil_r.
      subst dels. now rewrite firstn_map. }
    assert (Ht1 : txs s1 id = Some InProgress).
    { rewrite Hs1, del_staged_frame_tx. exact Ht. }
    left. split; [assumption|]. now apply discard_complete.
  - (* every write happened *)
    right.
    destruct (discard_complete id s ord1 Ht H1) as [sf [Hr [Hst Htx]]].
    unfold run_full in Hr. rewrite Hp in Hr. cbn [fst snd] in Hr. inversion Hr as [Hsf].
    assert (Hs1 : s1 = apply_all (dels ++ [WDelTx id]) s).
    { subst s1. unfold run_upto. rewrite Hp. cbn [fst]. f_equal. apply firstn_all2.
      rewrite app_length. cbn. lia. }
    rewrite Hs1, Hsf. split; [assumption|]. split; [assumption|].
    unfold run_upto. rewrite Hp. cbn [fst snd]. rewrite app_length. cbn [length].
    assert (E : (n <? length dels + 1)%nat = false) by (apply Nat.ltb_ge; lia). now rewrite E.
Qed.

(** * A failing SQL statement inside one atomic write = a cut before that write *)
Theorem statement_fault : forall id s0 (ord1 ord2 : order) (f : write -> bool),
  pre id s0 -> order_ok ord1 (staged s0 id) -> order_ok ord2 (staged s0 id) ->
  let s1 := fst (run_write_fault f (tx_commit ord1 id s0) s0) in
  (forall b, unmoved s0 s1 b \/ landed id s0 s1 b) /\
  ((txs s1 id = Some InProgress /\
    exists s2, run_full (tx_commit ord2 id s1) s1 = (s2, ROk) /\ st_eq s2 (all_outcome id s0)) \/
   (txs s1 id = Some Committed /\ st_eq s1 (all_outcome id s0))).
Proof.
  intros id s0 ord1 ord2 f Hpre H1 H2 s1. split.
  - intro b. apply (branch_consistent id s0 s0 ord1 (cut_index f (fst (tx_commit ord1 id s0))) b Hpre);
      [constructor | assumption].
  - apply (rerun_completes id s0 ord1 ord2 (cut_index f (fst (tx_commit ord1 id s0))) Hpre H1 H2).
Qed.

Theorem statement_fault_discard : forall id s (ord1 ord2 : order) (f : write -> bool),
  txs s id = Some InProgress -> order_ok ord1 (staged s id) ->
  let s1 := fst (run_write_fault f (tx_discard ord1 id s) s) in
  order_ok ord2 (staged s1 id) ->
  (txs s1 id = Some InProgress /\
   exists s2, run_full (tx_discard ord2 id s1) s1 = (s2, ROk) /\ staged s2 id = [] /\ txs s2 id = None) \/
  (txs s1 id = None /\ staged s1 id = []).
Proof.
  intros id s ord1 ord2 f Ht H1 s1 H2.
  destruct (discard_rerun id s ord1 ord2 (cut_index f (fst (tx_discard ord1 id s))) Ht H1 H2) as [H|[Ha [Hb _]]].
  - left. exact H.
  - right. split; assumption.
Qed.

(** * Another writer between an interrupted Commit and its re-run: a branch whose reflog already
    carries the transaction id is never written again, whatever its head is now *)
Lemma loop_writes_unlogged : forall id lg m s ws r,
  commit_loop id lg m s = (ws, r) ->
  forall b c t, In (WSetWithLog b c t) ws -> lg b = None.
Proof.
  intros id lg. induction m as [|[b0 sum] m IH]; intros s ws r H b c t Hin.
  - cbn in H. inversion H; subst. destruct Hin as [Hw|[]]. discriminate.
  - cbn [commit_loop] in H. destruct (lg b0) as [c0|] eqn:E0.
    + destruct (stored s c0); [eapply IH; eauto|]. inversion H; subst. destruct Hin.
    + destruct (stored s sum); [|inversion H; subst; destruct Hin].
      destruct (commit_loop id lg m _) as [ws' r'] eqn:El. inversion H; subst.
      cbn in Hin. destruct Hin as [Hw|[Hw|Hin]].
      * discriminate.
      * inversion Hw; subst. assumption.
      * eapply IH; eauto.
Qed.

Lemma apply_all_branch_frame : forall b ws s,
  (forall c t, ~ In (WSetWithLog b c t) ws) ->
  heads (apply_all ws s) b = heads s b /\ logs (apply_all ws s) b = logs s b.
Proof.
  intros b. induction ws as [|w ws IH]; intros s Hno; [split; reflexivity|].
  rewrite apply_all_cons.
  assert (Hno' : forall c t, ~ In (WSetWithLog b c t) ws) by (intros c t Hi; apply (Hno c t); now right).
  destruct (IH (apply s w) Hno') as [E1 E2]. rewrite E1, E2.
  destruct w as [c|b' c t|i st|i b'|i]; cbn [apply]; try (split; reflexivity).
  - destruct (N.eq_dec b' b) as [->|Hne]; [exfalso; apply (Hno c t); now left|].
    cbn. rewrite !upd_other by congruence. split; reflexivity.
  - destruct (txs s i); split; reflexivity.
  - destruct (txs s i) as [[|]|]; split; reflexivity.
Qed.

Theorem landed_branch_untouched : forall id s (ord : order) n b c,
  tx_log_new id (logs s b) = Some c ->
  let s1 := fst (run_upto n (tx_commit ord id s) s) in
  heads s1 b = heads s b /\ logs s1 b = logs s b.
Proof.
  intros id s ord n b c Hl s1. subst s1. cbn [run_upto fst]. apply apply_all_branch_frame.
  intros c' t Hin.
  assert (Hin' : In (WSetWithLog b c' t) (fst (tx_commit ord id s))).
  { revert Hin. generalize (fst (tx_commit ord id s)). intros l. revert n.
    induction l as [|x l IHl]; intros [|n] H; cbn in H; try contradiction.
    destruct H as [H|H]; [now left | right; eapply IHl; eauto]. }
  unfold tx_commit in Hin'. destruct (txs s id) as [[|]|]; try (cbn in Hin'; contradiction).
  destruct (commit_loop id (fun b0 => tx_log_new id (logs s b0)) (ord (staged s id)) s) as [ws r] eqn:E.
  cbn in Hin'. pose proof (loop_writes_unlogged _ _ _ _ _ _ E b c' t Hin') as Hn. cbn in Hn. congruence.
Qed.
