(** Proofs about coq/model/Prune.v (C12), part 3.
    [prune_plan]: on every state whose reachable commits have stored parents, prune (with any
    queue discipline) ends with status Done and issues exactly
       triples(T,TI,P) of the stored tables no reachable commit names  ++  blocks no live table lists
       ++ block indices no live table lists  ++  the stored commits no ref reaches, children first,
    the first three groups in ascending key order, and nothing at all when no commit is removable.
    Then the theorems of props/C12.v. *)
From Coq Require Import List NArith ZArith Bool Arith Lia ZifyNat ZifyN ZifyBool.
From W.lib Require Import Tree GoSort.
From W.model Require Import PruneRepo Prune.
From W.proofs Require Import Prune_proofs PruneOrder_proofs.
Import ListNotations.
Local Open Scope N_scope.

(* ------------------------------------------------------------------ *)
(** * 1. the plan *)

Definition pre_dels (ts bs bis : list N) : list del :=
  flat_map triple ts ++ map (Del KBlock) bs ++ map (Del KBlkIdx) bis.
Definition plan_dels (ts bs bis cs : list N) : list del :=
  pre_dels ts bs bis ++ map (Del KCommit) cs.

Definition has_removable (s : state) : Prop := exists c, removable s c.

(** what prune decides to delete: three ascending id lists and the commit order *)
Record plan (s : state) (ts bs bis cs : list N) : Prop := mkPlan {
  pl_cs_sound : forall c, In c cs -> removable s c;
  pl_cs_nodup : NoDup cs;
  pl_cs_cf : forall m p c cm, In p (firstn m cs) -> removable s c -> get_commit s c = Some cm ->
                              In p (c_parents cm) -> In c (firstn m cs);
  pl_cs_complete : Acyclic s -> forall c, removable s c -> In c cs;
  pl_ts : has_removable s -> forall t, In t ts <-> get_table s t <> None /\ ~ live_table s t;
  pl_bs : has_removable s -> forall b, In b bs <-> In b (blocks s) /\ ~ live_block s b;
  pl_bis : has_removable s -> forall b, In b bis <-> In b (blkidx s) /\ ~ live_blkidx s b;
  pl_none : ~ has_removable s -> ts = [] /\ bs = [] /\ bis = [] /\ cs = [];
  pl_dec : has_removable s \/ ~ has_removable s;
  pl_sts : ssorted ts; pl_sbs : ssorted bs; pl_sbis : ssorted bis }.

Lemma live_table_sv : forall s sv, (forall c, In c sv <-> reach s c /\ get_commit s c <> None) ->
  forall t, (exists c cm, In c sv /\ get_commit s c = Some cm /\ c_table cm = t) <-> live_table s t.
Proof.
  intros s sv Hsv t. unfold live_table. split.
  - intros (c & cm & H1 & H2 & H3). exists c, cm. apply Hsv in H1. tauto.
  - intros (c & cm & H1 & H2 & H3). exists c, cm. split; [|tauto]. apply Hsv. split; [exact H1|congruence].
Qed.

Lemma firstn_In_incl : forall A (l : list A) n x, In x (firstn n l) -> In x l.
Proof.
  intros A l n x H. rewrite <- (firstn_skipn n l). apply in_or_app. left. exact H.
Qed.

Definition not_commit_del (d : del) : Prop := match d with Del KCommit _ => False | _ => True end.

Lemma apply_dels_commits_nocommit : forall ds s, (forall d, In d ds -> not_commit_del d) ->
  commits (apply_dels ds s) = commits s.
Proof.
  induction ds as [|[k id] ds IH]; intros s H; [reflexivity|].
  cbn [apply_dels fold_left]. fold (apply_dels ds (apply_del (Del k id) s)).
  rewrite IH by (intros d Hd; apply H; right; exact Hd).
  specialize (H (Del k id) (or_introl eq_refl)). destruct k; cbn in H; try reflexivity. contradiction.
Qed.

Lemma in_triple : forall k id t, In (Del k id) (triple t) <-> id = t /\ (k = KTable \/ k = KTblIdx \/ k = KProf).
Proof.
  intros k id t. unfold triple. cbn [In]. split.
  - intros [H|[H|[H|[]]]]; inversion H; subst; auto.
  - intros [-> [-> |[-> | ->]]]; auto.
Qed.

Lemma in_map_del : forall k k' id l, In (Del k id) (map (Del k') l) <-> k = k' /\ In id l.
Proof.
  intros k k' id l. rewrite in_map_iff. split.
  - intros (x & E & Hx). inversion E; subst. auto.
  - intros [-> H]. exists id. auto.
Qed.

Lemma pre_dels_In : forall k id ts bs bis,
  In (Del k id) (pre_dels ts bs bis) <->
  match k with
  | KTable | KTblIdx | KProf => In id ts
  | KBlock => In id bs
  | KBlkIdx => In id bis
  | KCommit => False
  end.
Proof.
  intros k id ts bs bis. unfold pre_dels. rewrite !in_app_iff, in_flat_map, !in_map_del. split.
  - intros [(t & Ht & Hd)|[[-> H]|[-> H]]]; [|exact H|exact H].
    apply in_triple in Hd. destruct Hd as [-> [-> |[-> | ->]]]; exact Ht.
  - destruct k; intros H; try contradiction;
      try (left; exists id; split; [exact H|apply in_triple; auto]; fail).
    + right. left. auto.
    + right. right. auto.
Qed.

Lemma pre_dels_nocommit : forall ts bs bis d, In d (pre_dels ts bs bis) -> not_commit_del d.
Proof. intros ts bs bis [k id] H. apply pre_dels_In in H. destruct k; cbn; auto. Qed.

Lemma plan_dels_In : forall k id ts bs bis cs,
  In (Del k id) (plan_dels ts bs bis cs) <->
  match k with
  | KTable | KTblIdx | KProf => In id ts
  | KBlock => In id bs
  | KBlkIdx => In id bis
  | KCommit => In id cs
  end.
Proof.
  intros k id ts bs bis cs. unfold plan_dels. rewrite in_app_iff, pre_dels_In, in_map_del.
  destruct k; split; intros H; try (destruct H as [H|[H1 H]]; try discriminate; auto; fail); auto.
  - destruct H as [[]|[_ H]]. exact H.
Qed.

Theorem prune_plan : forall pos s, ClosedReach s ->
  exists ts bs bis cs, prune_gen pos true true s = (plan_dels ts bs bis cs, Done) /\ plan s ts bs bis cs.
Proof.
  intros pos s Hcl. unfold prune_gen.
  destruct (find_commits_spec pos s Hcl) as (rm & sv & Ef & Hsv & Hrm & Srm & Ssv).
  rewrite Ef. destruct rm as [|r0 rm'] eqn:Erm.
  - exists [], [], [], []. split; [reflexivity|].
    assert (Hno : ~ has_removable s) by (intros (c & Hc); apply Hrm in Hc; exact Hc).
    constructor.
    + intros c [].
    + constructor.
    + intros m p c cm Hp. rewrite firstn_nil in Hp. destruct Hp.
    + intros _ c Hc. exfalso. apply Hno. exists c. exact Hc.
    + intros H; contradiction.
    + intros H; contradiction.
    + intros H; contradiction.
    + intros _. auto.
    + right. exact Hno.
    + constructor.
    + constructor.
    + constructor.
  - assert (Hne : rm <> []) by (rewrite Erm; discriminate).
    rewrite <- Erm in *. clear Erm.
    assert (Hyes : has_removable s).
    { destruct rm as [|c0 rm0]; [congruence|]. exists c0. apply Hrm. left. reflexivity. }
    set (tkeys := table_keys s). set (bkeys := block_keys s). set (bikeys := blkidx_keys s).
    assert (Stk : ssorted tkeys) by apply sortu_sorted.
    assert (Sbk : ssorted bkeys) by apply sortu_sorted.
    assert (Sbik : ssorted bikeys) by apply sortu_sorted.
    destruct (table_marks_spec s tkeys sv (repeat false (length tkeys)) Stk (repeat_length _ _))
      as (tf & Etm & Ltf & Mtf).
    { intros c Hc. apply Hsv in Hc. tauto. }
    rewrite Etm.
    assert (Htf : forall t, marked tkeys tf t <-> get_table s t <> None /\ live_table s t).
    { intros t. rewrite Mtf, (live_table_sv s sv Hsv). unfold tkeys. rewrite table_keys_In.
      split; [intros [H|H]; [exfalso; eapply marked_repeat_false; exact H|exact H]|auto]. }
    assert (Hcomb : forall t, In (t, true) (combine tkeys tf) <-> marked tkeys tf t).
    { intros t. rewrite combine_In_nth by exact Ltf. reflexivity. }
    destruct (table_loop_spec s bkeys bikeys Sbk Sbik (combine tkeys tf) s
                (repeat false (length bkeys)) (repeat false (length bikeys)))
      as (R1 & R2 & R3 & R4 & R5 & R6).
    { rewrite combine_fst by exact Ltf. apply ssorted_NoDup. exact Stk. }
    { reflexivity. }
    { intros t Ht. apply Hcomb, Htf in Ht. tauto. }
    { apply repeat_length. }
    { apply repeat_length. }
    set (r := table_loop true s bkeys bikeys (combine tkeys tf)
                         (repeat false (length bkeys)) (repeat false (length bikeys))) in *.
    rewrite R1, R2, (loop_dels_select tkeys tf Ltf).
    set (ts := select false tkeys tf). set (bs := select false bkeys (tl_kb r)).
    set (bis := select false bikeys (tl_kbi r)).
    change (flat_map triple ts ++ map (Del KBlock) bs ++ map (Del KBlkIdx) bis) with (pre_dels ts bs bis).
    rewrite (apply_dels_commits_nocommit (pre_dels ts bs bis) s (pre_dels_nocommit ts bs bis)).
    destruct (children_first_spec (commits s) rm (ssorted_NoDup rm Srm)) as (out & Eo & Ond & Oin & Ocf & Ocomp).
    rewrite Eo. exists ts, bs, bis, out. split; [reflexivity|].
    assert (Hkb : forall b, marked bkeys (tl_kb r) b <-> In b (blocks s) /\ live_block s b).
    { intros b. rewrite R5. rewrite (block_keys_In s b : In b bkeys <-> _). unfold live_block. split.
      - intros [H|(H1 & t & tb & H2 & H3 & H4)]; [exfalso; eapply marked_repeat_false; exact H|].
        split; [exact H1|]. exists t, tb. apply Hcomb, Htf in H2. tauto.
      - intros (H1 & t & tb & H2 & H3 & H4). right. split; [exact H1|]. exists t, tb.
        split; [|tauto]. apply Hcomb, Htf. split; [congruence|exact H2]. }
    assert (Hkbi : forall b, marked bikeys (tl_kbi r) b <-> In b (blkidx s) /\ live_blkidx s b).
    { intros b. rewrite R6. rewrite (blkidx_keys_In s b : In b bikeys <-> _). unfold live_blkidx. split.
      - intros [H|(H1 & t & tb & H2 & H3 & H4)]; [exfalso; eapply marked_repeat_false; exact H|].
        split; [exact H1|]. exists t, tb. apply Hcomb, Htf in H2. tauto.
      - intros (H1 & t & tb & H2 & H3 & H4). right. split; [exact H1|]. exists t, tb.
        split; [|tauto]. apply Hcomb, Htf. split; [congruence|exact H2]. }
    constructor.
    + intros c Hc. apply Hrm. apply Oin. exact Hc.
    + exact Ond.
    + intros m p c cm Hp Hc Ec Hpc. apply (Ocf m p c Hp).
      * apply Hrm. exact Hc.
      * apply cfp_In. exists cm. split; [exact Ec|]. split; [exact Hpc|].
        apply Oin. apply (firstn_In_incl _ _ _ _ Hp).
    + intros (rank & Hrank) c Hc. apply Ocomp; [|apply Hrm; exact Hc].
      exists rank. intros c0 co p _ E Hp _. eapply Hrank; eassumption.
    + intros _ t. unfold ts. rewrite select_false_unmarked by (try apply ssorted_NoDup; assumption).
      rewrite Htf. unfold tkeys. rewrite table_keys_In. tauto.
    + intros _ b. unfold bs. rewrite select_false_unmarked by (try apply ssorted_NoDup; assumption).
      rewrite Hkb. unfold bkeys. rewrite block_keys_In. tauto.
    + intros _ b. unfold bis. rewrite select_false_unmarked by (try apply ssorted_NoDup; assumption).
      rewrite Hkbi. unfold bikeys. rewrite blkidx_keys_In. tauto.
    + intros H. contradiction.
    + left. exact Hyes.
    + apply select_sorted; assumption.
    + apply select_sorted; assumption.
    + apply select_sorted; assumption.
Qed.

(* ------------------------------------------------------------------ *)
(** * 2. deleting only what nothing reachable needs: the frame *)

Section Frame.
  Variable s : state.
  Variable ds : list del.
  Hypothesis Hun : forall d, In d ds -> ~ needed s d.
  Let s' := apply_dels ds s.

  Lemma fr_refs : refs s' = refs s.
  Proof. apply apply_dels_refs. Qed.

  Lemma fr_commit_mono : forall c cm, get_commit s' c = Some cm -> get_commit s c = Some cm.
  Proof.
    intros c cm. unfold s'. rewrite apply_dels_commit.
    destruct (deleted KCommit c ds); [discriminate|auto].
  Qed.

  Lemma fr_table_mono : forall t tb, get_table s' t = Some tb -> get_table s t = Some tb.
  Proof.
    intros t tb. unfold s'. rewrite apply_dels_table.
    destruct (deleted KTable t ds); [discriminate|auto].
  Qed.

  Lemma fr_commit_reach : forall c, reach s c -> get_commit s' c = get_commit s c.
  Proof.
    intros c Hr. unfold s'. rewrite apply_dels_commit.
    destruct (deleted KCommit c ds) eqn:E; [|reflexivity].
    apply deleted_In in E. exfalso. apply (Hun _ E). exact Hr.
  Qed.

  Lemma fr_reach : forall c, reach s' c <-> reach s c.
  Proof.
    intros c; split; intros H.
    - induction H as [n c Hin|c cm p Hr IH Ec Hp].
      + eapply reach_ref. rewrite <- fr_refs. exact Hin.
      + eapply reach_parent; [exact IH|apply fr_commit_mono; exact Ec|exact Hp].
    - induction H as [n c Hin|c cm p Hr IH Ec Hp].
      + eapply reach_ref. rewrite fr_refs. exact Hin.
      + eapply reach_parent; [exact IH|rewrite fr_commit_reach by exact Hr; exact Ec|exact Hp].
  Qed.

  Lemma fr_live_table_keep : forall t, live_table s t ->
    get_table s' t = get_table s t /\ mem t (tblidx s') = mem t (tblidx s) /\
    mem t (prof s') = mem t (prof s).
  Proof.
    intros t Hl. unfold s'. rewrite apply_dels_table, apply_dels_tblidx, apply_dels_prof.
    assert (E1 : deleted KTable t ds = false) by (apply deleted_false; intros Hin; apply (Hun _ Hin); exact Hl).
    assert (E2 : deleted KTblIdx t ds = false) by (apply deleted_false; intros Hin; apply (Hun _ Hin); exact Hl).
    assert (E3 : deleted KProf t ds = false) by (apply deleted_false; intros Hin; apply (Hun _ Hin); exact Hl).
    rewrite E1, E2, E3. auto.
  Qed.

  Lemma fr_live_block_keep : forall b, live_block s b -> mem b (blocks s') = mem b (blocks s).
  Proof.
    intros b Hl. unfold s'. rewrite apply_dels_blocks.
    assert (E1 : deleted KBlock b ds = false) by (apply deleted_false; intros Hin; apply (Hun _ Hin); exact Hl).
    rewrite E1. reflexivity.
  Qed.

  Lemma fr_live_blkidx_keep : forall b, live_blkidx s b -> mem b (blkidx s') = mem b (blkidx s).
  Proof.
    intros b Hl. unfold s'. rewrite apply_dels_blkidx.
    assert (E1 : deleted KBlkIdx b ds = false) by (apply deleted_false; intros Hin; apply (Hun _ Hin); exact Hl).
    rewrite E1. reflexivity.
  Qed.

  Lemma fr_intact : forall c, reach s c -> commit_intact s s' c.
  Proof.
    intros c Hr. split; [apply fr_commit_reach; exact Hr|]. intros cm Ec.
    assert (Hl : live_table s (c_table cm)) by (exists c, cm; auto).
    destruct (fr_live_table_keep _ Hl) as (A & B & C).
    split; [exact A|]. split; [exact B|]. split; [exact C|].
    intros tb Etb. split; intros b Hb.
    - apply fr_live_block_keep. exists (c_table cm), tb. auto.
    - apply fr_live_blkidx_keep. exists (c_table cm), tb. auto.
  Qed.

  Lemma fr_live_table_iff : forall t, live_table s' t <-> live_table s t.
  Proof.
    unfold live_table. intros t. split; intros (c & cm & H1 & H2 & H3); exists c, cm.
    - split; [apply fr_reach; exact H1|]. split; [apply fr_commit_mono; exact H2|exact H3].
    - split; [apply fr_reach; exact H1|]. split; [|exact H3].
      rewrite fr_commit_reach by exact H1. exact H2.
  Qed.

  Lemma fr_live_block_iff : forall b, live_block s' b <-> live_block s b.
  Proof.
    unfold live_block. intros b. split; intros (t & tb & H1 & H2 & H3); exists t, tb.
    - split; [apply fr_live_table_iff; exact H1|]. split; [apply fr_table_mono; exact H2|exact H3].
    - split; [apply fr_live_table_iff; exact H1|]. split; [|exact H3].
      destruct (fr_live_table_keep t H1) as (A & _). rewrite A. exact H2.
  Qed.

  Lemma fr_live_blkidx_iff : forall b, live_blkidx s' b <-> live_blkidx s b.
  Proof.
    unfold live_blkidx. intros b. split; intros (t & tb & H1 & H2 & H3); exists t, tb.
    - split; [apply fr_live_table_iff; exact H1|]. split; [apply fr_table_mono; exact H2|exact H3].
    - split; [apply fr_live_table_iff; exact H1|]. split; [|exact H3].
      destruct (fr_live_table_keep t H1) as (A & _). rewrite A. exact H2.
  Qed.

  Lemma fr_refs_resolve : RefsResolve s -> RefsResolve s'.
  Proof.
    intros H n c Hin. rewrite fr_refs in Hin.
    rewrite fr_commit_reach by (eapply reach_ref; exact Hin). eapply H; exact Hin.
  Qed.

  Lemma fr_closed_reach : ClosedReach s -> ClosedReach s'.
  Proof.
    intros H c cm p Hr Ec Hp. apply fr_reach in Hr. pose proof (fr_commit_mono _ _ Ec) as Ec0.
    rewrite fr_commit_reach by (eapply reach_parent; eassumption). eapply H; eassumption.
  Qed.

  Lemma fr_acyclic : Acyclic s -> Acyclic s'.
  Proof.
    intros (rank & H). exists rank. intros c cm p Ec Hp.
    eapply H; [apply fr_commit_mono; exact Ec|exact Hp].
  Qed.

  Lemma fr_removable : forall c, removable s' c <-> removable s c /\ deleted KCommit c ds = false.
  Proof.
    intros c. unfold removable. rewrite fr_reach. unfold s'. rewrite apply_dels_commit.
    destruct (deleted KCommit c ds); split.
    - intros [H _]. congruence.
    - intros [_ H]. discriminate.
    - intros [H1 H2]. auto.
    - intros [[H1 H2] _]. auto.
  Qed.
End Frame.

Lemma plan_unneeded : forall s ts bs bis cs, plan s ts bs bis cs ->
  forall d, In d (plan_dels ts bs bis cs) -> ~ needed s d.
Proof.
  intros s ts bs bis cs Hp [k id] Hin Hneed.
  destruct (pl_dec _ _ _ _ _ Hp) as [Hyes|Hno].
  2:{ destruct (pl_none _ _ _ _ _ Hp Hno) as (-> & -> & -> & ->). cbn in Hin. exact Hin. }
  apply plan_dels_In in Hin. destruct k; cbn [needed] in Hneed.
  - apply (pl_ts _ _ _ _ _ Hp Hyes) in Hin. tauto.
  - apply (pl_ts _ _ _ _ _ Hp Hyes) in Hin. tauto.
  - apply (pl_ts _ _ _ _ _ Hp Hyes) in Hin. tauto.
  - apply (pl_bs _ _ _ _ _ Hp Hyes) in Hin. tauto.
  - apply (pl_bis _ _ _ _ _ Hp Hyes) in Hin. tauto.
  - apply (pl_cs_sound _ _ _ _ _ Hp) in Hin. destruct Hin as [_ Hn]. exact (Hn Hneed).
Qed.

Lemma prefix_split : forall ts bs bis cs n,
  firstn n (plan_dels ts bs bis cs)
  = firstn n (pre_dels ts bs bis) ++ map (Del KCommit) (firstn (n - length (pre_dels ts bs bis)) cs).
Proof. intros. unfold plan_dels. rewrite firstn_app, firstn_map. reflexivity. Qed.

Lemma prefix_commit_In : forall ts bs bis cs n c,
  In (Del KCommit c) (firstn n (plan_dels ts bs bis cs)) <->
  In c (firstn (n - length (pre_dels ts bs bis)) cs).
Proof.
  intros. rewrite prefix_split, in_app_iff, in_map_del. split.
  - intros [H|[_ H]]; [|exact H]. apply firstn_In_incl in H. apply pre_dels_nocommit in H. contradiction.
  - intros H. right. auto.
Qed.

(** every crash point of a planned delete list *)
Lemma plan_prefix_safe : forall s ts bs bis cs n, plan s ts bs bis cs ->
  let s' := apply_dels (firstn n (plan_dels ts bs bis cs)) s in
  refs s' = refs s /\ (RefsResolve s -> RefsResolve s') /\ (ClosedReach s -> ClosedReach s') /\
  (Closed s -> Closed s') /\ (Acyclic s -> Acyclic s') /\
  (forall c, reach s c -> commit_intact s s' c) /\ (forall c, reach s' c <-> reach s c).
Proof.
  intros s ts bs bis cs n Hp s'.
  set (P := firstn n (plan_dels ts bs bis cs)) in *.
  assert (Hun : forall d, In d P -> ~ needed s d).
  { intros d Hd. apply (plan_unneeded s ts bs bis cs Hp). apply (firstn_In_incl _ _ _ _ Hd). }
  split; [apply fr_refs|]. split; [apply fr_refs_resolve; exact Hun|].
  split; [apply fr_closed_reach; exact Hun|]. split; [|split; [apply fr_acyclic|split; [apply fr_intact; exact Hun|apply fr_reach; exact Hun]]].
  intros Hcl c cm p Ec Hpc.
  pose proof (fr_commit_mono s P c cm Ec) as Ec0.
  pose proof (Hcl c cm p Ec0 Hpc) as Hps.
  unfold s'. rewrite apply_dels_commit. destruct (deleted KCommit p P) eqn:Edp; [|exact Hps].
  exfalso. apply deleted_In in Edp. unfold P in Edp. pose proof Edp as Edp'. apply prefix_commit_In in Edp.
  set (m := (n - length (pre_dels ts bs bis))%nat) in *.
  assert (Hprm : removable s p) by (apply (pl_cs_sound _ _ _ _ _ Hp); apply (firstn_In_incl _ _ _ _ Edp)).
  assert (Hcrm : removable s c).
  { split; [congruence|]. intros Hr. destruct Hprm as [_ Hn]. apply Hn. eapply reach_parent; eassumption. }
  pose proof (pl_cs_cf _ _ _ _ _ Hp m p c cm Edp Hcrm Ec0 Hpc) as Hc.
  apply (prefix_commit_In ts bs bis cs n c) in Hc. fold P in Hc. apply deleted_In in Hc.
  unfold s' in Ec. rewrite apply_dels_commit, Hc in Ec. discriminate.
Qed.

(* ------------------------------------------------------------------ *)
(** * 3. what an uninterrupted prune leaves *)

Lemma plan_complete : forall s ts bs bis cs, plan s ts bs bis cs ->
  let s' := apply_dels (plan_dels ts bs bis cs) s in
  (Acyclic s -> forall c, ~ reach s c -> get_commit s' c = None) /\
  (has_removable s -> forall t, ~ live_table s t -> get_table s' t = None) /\
  (has_removable s -> forall t, get_table s t <> None -> ~ live_table s t ->
     mem t (tblidx s') = false /\ mem t (prof s') = false) /\
  (forall t, get_table s t = None ->
     mem t (tblidx s') = mem t (tblidx s) /\ mem t (prof s') = mem t (prof s)) /\
  (has_removable s -> forall b, ~ live_block s b -> mem b (blocks s') = false) /\
  (has_removable s -> forall b, ~ live_blkidx s b -> mem b (blkidx s') = false) /\
  (~ has_removable s -> plan_dels ts bs bis cs = []).
Proof.
  intros s ts bs bis cs Hp s'. set (ds := plan_dels ts bs bis cs) in *.
  split; [|split; [|split; [|split; [|split; [|split]]]]].
  - intros Hac c Hnr. unfold s'. rewrite apply_dels_commit.
    destruct (get_commit s c) as [cm|] eqn:Ec; [|destruct (deleted KCommit c ds); reflexivity].
    assert (Hin : In c cs) by (apply (pl_cs_complete _ _ _ _ _ Hp Hac); split; [congruence|exact Hnr]).
    assert (E : deleted KCommit c ds = true) by (apply deleted_In, plan_dels_In; exact Hin).
    rewrite E. reflexivity.
  - intros Hyes t Hnl. unfold s'. rewrite apply_dels_table.
    destruct (get_table s t) as [tb|] eqn:Et; [|destruct (deleted KTable t ds); reflexivity].
    assert (Hin : In t ts) by (apply (pl_ts _ _ _ _ _ Hp Hyes); split; [congruence|exact Hnl]).
    assert (E : deleted KTable t ds = true) by (apply deleted_In, plan_dels_In; exact Hin).
    rewrite E. reflexivity.
  - intros Hyes t Hst Hnl. unfold s'. rewrite apply_dels_tblidx, apply_dels_prof.
    assert (Hin : In t ts) by (apply (pl_ts _ _ _ _ _ Hp Hyes); split; assumption).
    assert (E1 : deleted KTblIdx t ds = true) by (apply deleted_In, plan_dels_In; exact Hin).
    assert (E2 : deleted KProf t ds = true) by (apply deleted_In, plan_dels_In; exact Hin).
    rewrite E1, E2. auto.
  - intros t Hns. unfold s'. rewrite apply_dels_tblidx, apply_dels_prof.
    assert (Hnin : ~ In t ts).
    { intros Hin. destruct (pl_dec _ _ _ _ _ Hp) as [Hyes|Hno].
      - apply (pl_ts _ _ _ _ _ Hp Hyes) in Hin. tauto.
      - destruct (pl_none _ _ _ _ _ Hp Hno) as (E & _). rewrite E in Hin. exact Hin. }
    assert (E1 : deleted KTblIdx t ds = false) by (apply deleted_false; intros H; apply plan_dels_In in H; auto).
    assert (E2 : deleted KProf t ds = false) by (apply deleted_false; intros H; apply plan_dels_In in H; auto).
    rewrite E1, E2. auto.
  - intros Hyes b Hnl. unfold s'. rewrite apply_dels_blocks.
    destruct (mem b (blocks s)) eqn:Em; [|apply andb_false_r].
    assert (Hin : In b bs) by (apply (pl_bs _ _ _ _ _ Hp Hyes); split; [apply mem_In; exact Em|exact Hnl]).
    assert (E : deleted KBlock b ds = true) by (apply deleted_In, plan_dels_In; exact Hin).
    rewrite E. reflexivity.
  - intros Hyes b Hnl. unfold s'. rewrite apply_dels_blkidx.
    destruct (mem b (blkidx s)) eqn:Em; [|apply andb_false_r].
    assert (Hin : In b bis) by (apply (pl_bis _ _ _ _ _ Hp Hyes); split; [apply mem_In; exact Em|exact Hnl]).
    assert (E : deleted KBlkIdx b ds = true) by (apply deleted_In, plan_dels_In; exact Hin).
    rewrite E. reflexivity.
  - intros Hno. destruct (pl_none _ _ _ _ _ Hp Hno) as (-> & -> & -> & ->). reflexivity.
Qed.

Lemma plan_full_safe : forall s ts bs bis cs, plan s ts bs bis cs ->
  let s' := apply_dels (plan_dels ts bs bis cs) s in
  refs s' = refs s /\ (RefsResolve s -> RefsResolve s') /\ (ClosedReach s -> ClosedReach s') /\
  (Closed s -> Closed s') /\ (Acyclic s -> Acyclic s') /\
  (forall c, reach s c -> commit_intact s s' c) /\ (forall c, reach s' c <-> reach s c).
Proof.
  intros s ts bs bis cs Hp.
  pose proof (plan_prefix_safe s ts bs bis cs (length (plan_dels ts bs bis cs)) Hp) as H.
  rewrite firstn_all in H. exact H.
Qed.

Lemma plan_idempotent : forall pos s ts bs bis cs, ClosedReach s -> Acyclic s -> plan s ts bs bis cs ->
  prune_gen pos true true (apply_dels (plan_dels ts bs bis cs) s) = ([], Done).
Proof.
  intros pos s ts bs bis cs Hcl Hac Hp.
  destruct (plan_full_safe s ts bs bis cs Hp) as (_ & _ & Hcl' & _ & _ & _ & Hreach).
  destruct (plan_complete s ts bs bis cs Hp) as (Hc & _).
  set (s' := apply_dels (plan_dels ts bs bis cs) s) in *.
  destruct (prune_plan pos s' (Hcl' Hcl)) as (ts' & bs' & bis' & cs' & E & Hp'). rewrite E.
  assert (Hno : ~ has_removable s').
  { intros (c & Hst & Hnr). apply Hst. apply (Hc Hac). intros Hr. apply Hnr. apply Hreach. exact Hr. }
  destruct (pl_none _ _ _ _ _ Hp' Hno) as (-> & -> & -> & ->). reflexivity.
Qed.

(* ------------------------------------------------------------------ *)
(** * 4. re-running prune after a crash *)

Lemma NoDup_nth_notin_firstn : forall (l : list N) m, NoDup l -> (m < length l)%nat ->
  ~ In (nth m l 0) (firstn m l).
Proof.
  induction l as [|a l IH]; intros m Hnd Hm; cbn [length] in Hm; [lia|].
  apply NoDup_cons_iff in Hnd. destruct Hnd as [Ha Hnd].
  destruct m as [|m]; cbn [firstn nth]; [intros []|].
  intros [H|H].
  - apply Ha. rewrite H. apply nth_In. lia.
  - apply (IH m Hnd ltac:(lia) H).
Qed.

Section Rerun.
  Variables (s : state) (ts bs bis cs : list N) (n : nat).
  Hypothesis Hp : plan s ts bs bis cs.
  Hypothesis Hac : Acyclic s.
  Hypothesis Hyes : has_removable s.
  Let ds := plan_dels ts bs bis cs.
  Let P := firstn n ds.
  Let s1 := apply_dels P s.
  Variables (ts1 bs1 bis1 cs1 : list N).
  Hypothesis Hp1 : plan s1 ts1 bs1 bis1 cs1.
  Hypothesis Hyes1 : has_removable s1.
  Let ds1 := plan_dels ts1 bs1 bis1 cs1.

  Lemma rr_unP : forall d, In d P -> ~ needed s d.
  Proof.
    intros d Hd. apply (plan_unneeded s ts bs bis cs Hp). apply (firstn_In_incl _ _ _ _ Hd).
  Qed.

  Lemma rr_sub : forall k id, deleted k id P = true -> deleted k id ds = true.
  Proof.
    intros k id H. apply deleted_In. apply deleted_In in H. eapply firstn_In_incl; exact H.
  Qed.

  Lemma rr_commit : forall c,
    deleted KCommit c ds1 = negb (deleted KCommit c P) && deleted KCommit c ds.
  Proof.
    intros c. apply eq_true_iff_eq. rewrite andb_true_iff, negb_true_iff, !deleted_In.
    unfold ds1, ds. rewrite !plan_dels_In. split.
    - intros Hin. apply (pl_cs_sound _ _ _ _ _ Hp1) in Hin.
      apply (fr_removable s P rr_unP) in Hin. destruct Hin as [Hr Hd]. split; [exact Hd|].
      apply (pl_cs_complete _ _ _ _ _ Hp Hac). exact Hr.
    - intros [Hd Hin]. apply (pl_cs_complete _ _ _ _ _ Hp1 (fr_acyclic s P Hac)).
      apply (fr_removable s P rr_unP). split; [|exact Hd].
      apply (pl_cs_sound _ _ _ _ _ Hp). exact Hin.
  Qed.

  Lemma rr_ts1 : forall t, In t ts1 <-> deleted KTable t P = false /\ In t ts.
  Proof.
    intros t. rewrite (pl_ts _ _ _ _ _ Hp1 Hyes1), (pl_ts _ _ _ _ _ Hp Hyes).
    unfold s1. rewrite (fr_live_table_iff s P rr_unP). rewrite apply_dels_table.
    destruct (deleted KTable t P); split.
    - intros [H _]. congruence.
    - intros [H _]. discriminate.
    - intros [H1 H2]. auto.
    - intros [_ H]. exact H.
  Qed.

  Lemma rr_table : forall t, deleted KTable t ds1 = negb (deleted KTable t P) && deleted KTable t ds.
  Proof.
    intros t. apply eq_true_iff_eq. rewrite andb_true_iff, negb_true_iff, !deleted_In.
    unfold ds1, ds. rewrite !plan_dels_In. apply rr_ts1.
  Qed.
  Lemma rr_tblidx : forall t, deleted KTblIdx t ds1 = negb (deleted KTable t P) && deleted KTable t ds.
  Proof.
    intros t. apply eq_true_iff_eq. rewrite andb_true_iff, negb_true_iff, !deleted_In.
    unfold ds1, ds. rewrite !plan_dels_In. apply rr_ts1.
  Qed.
  Lemma rr_prof : forall t, deleted KProf t ds1 = negb (deleted KTable t P) && deleted KTable t ds.
  Proof.
    intros t. apply eq_true_iff_eq. rewrite andb_true_iff, negb_true_iff, !deleted_In.
    unfold ds1, ds. rewrite !plan_dels_In. apply rr_ts1.
  Qed.

  Lemma rr_triple_eq : forall t, deleted KTblIdx t ds = deleted KTable t ds /\ deleted KProf t ds = deleted KTable t ds.
  Proof.
    intros t. split; apply eq_true_iff_eq; rewrite !deleted_In; unfold ds; rewrite !plan_dels_In; reflexivity.
  Qed.

  Lemma rr_block : forall b, deleted KBlock b ds1 = negb (deleted KBlock b P) && deleted KBlock b ds.
  Proof.
    intros b. apply eq_true_iff_eq. rewrite andb_true_iff, negb_true_iff, !deleted_In.
    unfold ds1, ds. rewrite !plan_dels_In.
    rewrite (pl_bs _ _ _ _ _ Hp1 Hyes1), (pl_bs _ _ _ _ _ Hp Hyes).
    unfold s1. rewrite (fr_live_block_iff s P rr_unP). rewrite <- !mem_In. rewrite apply_dels_blocks.
    destruct (deleted KBlock b P); cbn [negb andb]; split.
    - intros [H _]. discriminate.
    - intros [H _]. discriminate.
    - intros [H1 H2]. auto.
    - intros [_ H]. exact H.
  Qed.

  Lemma rr_blkidx : forall b, deleted KBlkIdx b ds1 = negb (deleted KBlkIdx b P) && deleted KBlkIdx b ds.
  Proof.
    intros b. apply eq_true_iff_eq. rewrite andb_true_iff, negb_true_iff, !deleted_In.
    unfold ds1, ds. rewrite !plan_dels_In.
    rewrite (pl_bis _ _ _ _ _ Hp1 Hyes1), (pl_bis _ _ _ _ _ Hp Hyes).
    unfold s1. rewrite (fr_live_blkidx_iff s P rr_unP). rewrite <- !mem_In. rewrite apply_dels_blkidx.
    destruct (deleted KBlkIdx b P); cbn [negb andb]; split.
    - intros [H _]. discriminate.
    - intros [H _]. discriminate.
    - intros [H1 H2]. auto.
    - intros [_ H]. exact H.
  Qed.

  Lemma rr_pointwise :
    let s2 := apply_dels ds1 s1 in
    let sF := apply_dels ds s in
    (forall c, get_commit s2 c = get_commit sF c) /\
    (forall t, get_table s2 t = get_table sF t) /\
    (forall b, mem b (blocks s2) = mem b (blocks sF)) /\
    (forall b, mem b (blkidx s2) = mem b (blkidx sF)) /\
    refs s2 = refs sF /\
    (forall t, mem t (tblidx s2) = mem t (tblidx sF)
                 || (deleted KTable t P && negb (deleted KTblIdx t P) && mem t (tblidx s))) /\
    (forall t, mem t (prof s2) = mem t (prof sF)
                 || (deleted KTable t P && negb (deleted KProf t P) && mem t (prof s))).
  Proof.
    intros s2 sF. unfold s2, sF, s1.
    split; [|split; [|split; [|split; [|split; [|split]]]]].
    - intros c. rewrite !apply_dels_commit, rr_commit. pose proof (rr_sub KCommit c) as Hs.
      destruct (deleted KCommit c P), (deleted KCommit c ds); cbn [negb andb]; try reflexivity.
      discriminate (Hs eq_refl).
    - intros t. rewrite !apply_dels_table, rr_table. pose proof (rr_sub KTable t) as Hs.
      destruct (deleted KTable t P), (deleted KTable t ds); cbn [negb andb]; try reflexivity.
      discriminate (Hs eq_refl).
    - intros b. rewrite !apply_dels_blocks, rr_block. pose proof (rr_sub KBlock b) as Hs.
      destruct (deleted KBlock b P), (deleted KBlock b ds); cbn [negb andb]; try reflexivity.
      discriminate (Hs eq_refl).
    - intros b. rewrite !apply_dels_blkidx, rr_blkidx. pose proof (rr_sub KBlkIdx b) as Hs.
      destruct (deleted KBlkIdx b P), (deleted KBlkIdx b ds); cbn [negb andb]; try reflexivity.
      discriminate (Hs eq_refl).
    - rewrite !apply_dels_refs. reflexivity.
    - intros t. rewrite !apply_dels_tblidx, rr_tblidx. destruct (rr_triple_eq t) as [E1 _]. rewrite E1.
      pose proof (rr_sub KTable t) as Hs1. pose proof (rr_sub KTblIdx t) as Hs2. rewrite E1 in Hs2.
      destruct (deleted KTable t P), (deleted KTblIdx t P), (deleted KTable t ds), (mem t (tblidx s));
        cbn [negb andb orb]; try reflexivity;
        try discriminate (Hs1 eq_refl); try discriminate (Hs2 eq_refl).
    - intros t. rewrite !apply_dels_prof, rr_prof. destruct (rr_triple_eq t) as [_ E1]. rewrite E1.
      pose proof (rr_sub KTable t) as Hs1. pose proof (rr_sub KProf t) as Hs2. rewrite E1 in Hs2.
      destruct (deleted KTable t P), (deleted KProf t P), (deleted KTable t ds), (mem t (prof s));
        cbn [negb andb orb]; try reflexivity;
        try discriminate (Hs1 eq_refl); try discriminate (Hs2 eq_refl).
  Qed.
End Rerun.

Lemma plan_no_removable_after : forall s ts bs bis cs, Acyclic s -> plan s ts bs bis cs ->
  ~ has_removable (apply_dels (plan_dels ts bs bis cs) s).
Proof.
  intros s ts bs bis cs Hac Hp (c & Hst & Hnr).
  destruct (plan_full_safe s ts bs bis cs Hp) as (_ & _ & _ & _ & _ & _ & Hreach).
  destruct (plan_complete s ts bs bis cs Hp) as (Hc & _).
  apply Hst. apply (Hc Hac). intros Hr. apply Hnr. apply Hreach. exact Hr.
Qed.

Lemma plan_dels_length : forall ts bs bis cs,
  length (plan_dels ts bs bis cs) = (length (pre_dels ts bs bis) + length cs)%nat.
Proof. intros. unfold plan_dels. rewrite app_length, map_length. reflexivity. Qed.

(** re-running prune from any crash point: it succeeds, ends in the state of the uninterrupted
    run - except that the table index / profile of a table whose triple was torn by the crash
    (table deleted, index or profile not yet) stay behind - and a further run deletes nothing *)
Lemma plan_rerun : forall pos s ts bs bis cs n, ClosedReach s -> Acyclic s -> plan s ts bs bis cs ->
  let ds := plan_dels ts bs bis cs in
  let P := firstn n ds in
  let s1 := apply_dels P s in
  let sF := apply_dels ds s in
  exists ds1, prune_gen pos true true s1 = (ds1, Done) /\
    let s2 := apply_dels ds1 s1 in
    ((forall c, get_commit s2 c = get_commit sF c) /\
     (forall t, get_table s2 t = get_table sF t) /\
     (forall b, mem b (blocks s2) = mem b (blocks sF)) /\
     (forall b, mem b (blkidx s2) = mem b (blkidx sF)) /\
     refs s2 = refs sF /\
     (forall t, mem t (tblidx s2) = mem t (tblidx sF)
                  || (deleted KTable t P && negb (deleted KTblIdx t P) && mem t (tblidx s))) /\
     (forall t, mem t (prof s2) = mem t (prof sF)
                  || (deleted KTable t P && negb (deleted KProf t P) && mem t (prof s)))) /\
    prune_gen pos true true s2 = ([], Done).
Proof.
  intros pos s ts bs bis cs n Hcl Hac Hp ds P s1 sF.
  destruct (plan_prefix_safe s ts bs bis cs n Hp) as (_ & _ & Hcl1 & _ & Hac1 & _ & _).
  fold ds in Hcl1, Hac1. fold P in Hcl1, Hac1. fold s1 in Hcl1, Hac1.
  destruct (prune_plan pos s1 (Hcl1 Hcl)) as (ts1 & bs1 & bis1 & cs1 & E1 & Hp1).
  exists (plan_dels ts1 bs1 bis1 cs1). split; [exact E1|]. intros s2.
  split; [|apply (plan_idempotent pos s1 ts1 bs1 bis1 cs1 (Hcl1 Hcl) (Hac1 Hac) Hp1)].
  destruct (pl_dec _ _ _ _ _ Hp) as [Hyes|Hno].
  2:{ (* nothing was removable: nothing happens, twice *)
      destruct (pl_none _ _ _ _ _ Hp Hno) as (-> & -> & -> & ->).
      assert (EP : P = []) by (unfold P, ds; cbn; apply firstn_nil).
      assert (Es1 : s1 = s) by (unfold s1; rewrite EP; reflexivity).
      rewrite Es1 in Hp1.
      destruct (pl_none _ _ _ _ _ Hp1 Hno) as (-> & -> & -> & ->).
      unfold s2, sF. rewrite Es1. unfold ds. cbn [plan_dels pre_dels flat_map map app apply_dels fold_left].
      rewrite EP. cbn [deleted existsb andb]. repeat split; intros; try reflexivity; symmetry; apply orb_false_r. }
  destruct (Nat.le_gt_cases (length ds) n) as [Hn|Hn].
  - (* the crash came after the last delete *)
    assert (EP : P = ds) by (unfold P; apply firstn_all2; exact Hn).
    assert (Es1 : s1 = sF) by (unfold s1, sF; rewrite EP; reflexivity).
    assert (Hno1 : ~ has_removable s1) by (rewrite Es1; apply plan_no_removable_after; assumption).
    destruct (pl_none _ _ _ _ _ Hp1 Hno1) as (-> & -> & -> & ->).
    unfold s2. cbn [plan_dels pre_dels flat_map map app apply_dels fold_left]. rewrite Es1, EP.
    assert (Et : forall t, deleted KTblIdx t ds = deleted KTable t ds /\ deleted KProf t ds = deleted KTable t ds).
    { intros t. split; apply eq_true_iff_eq; rewrite !deleted_In; unfold ds; rewrite !plan_dels_In; reflexivity. }
    repeat split; intros; try reflexivity.
    + destruct (Et t) as [Ea _]. rewrite Ea. destruct (deleted KTable t ds); cbn [negb andb]; symmetry; apply orb_false_r.
    + destruct (Et t) as [_ Ea]. rewrite Ea. destruct (deleted KTable t ds); cbn [negb andb]; symmetry; apply orb_false_r.
  - (* a removable commit is still there *)
    assert (Hyes1 : has_removable s1).
    { set (m := (n - length (pre_dels ts bs bis))%nat).
      assert (Hcs : (0 < length cs)%nat).
      { destruct Hyes as (c & Hc). apply (pl_cs_complete _ _ _ _ _ Hp Hac) in Hc.
        destruct cs; [destruct Hc|cbn; lia]. }
      assert (Hm : (m < length cs)%nat).
      { unfold ds in Hn. rewrite plan_dels_length in Hn. unfold m. lia. }
      exists (nth m cs 0). apply (fr_removable s P).
      - intros d Hd. apply (plan_unneeded s ts bs bis cs Hp). apply (firstn_In_incl _ _ _ _ Hd).
      - split; [apply (pl_cs_sound _ _ _ _ _ Hp); apply nth_In; exact Hm|].
        apply deleted_false. intros H. unfold P, ds in H. apply prefix_commit_In in H. fold m in H.
        exact (NoDup_nth_notin_firstn cs m (pl_cs_nodup _ _ _ _ _ Hp) Hm H). }
    exact (rr_pointwise s ts bs bis cs n Hp Hac Hyes ts1 bs1 bis1 cs1 Hp1 Hyes1).
Qed.

(* ------------------------------------------------------------------ *)
(** * 5. the theorems of props/C12.v *)

Lemma Closed_ClosedReach : forall s, Closed s -> ClosedReach s.
Proof. intros s H c cm p _ Ec Hp. eapply H; eassumption. Qed.

Lemma get_Some_In : forall A (m : list (N * A)) k v, get m k = Some v -> In (k, v) m.
Proof.
  intros A m k v. induction m as [|[k' v'] m IH]; cbn [get]; [discriminate|].
  destruct (k' =? k) eqn:E.
  - apply N.eqb_eq in E. intros H. inversion H; subst. left. reflexivity.
  - intros H. right. apply IH. exact H.
Qed.

Lemma closedb_Closed : forall s, closedb s = true -> Closed s.
Proof.
  intros s H c cm p Ec Hp. unfold closedb in H. rewrite forallb_forall in H.
  specialize (H (c, cm) (get_Some_In _ _ _ _ Ec)). cbn [snd] in H. rewrite forallb_forall in H.
  specialize (H p Hp). destruct (get_commit s p); [discriminate|discriminate H].
Qed.

Lemma refs_resolveb_RefsResolve : forall s, refs_resolveb s = true -> RefsResolve s.
Proof.
  intros s H n c Hin. unfold refs_resolveb in H. rewrite forallb_forall in H.
  specialize (H (n, c) Hin). cbn [snd] in H. destruct (get_commit s c); [discriminate|discriminate H].
Qed.

Lemma acyclicb_Acyclic : forall s, acyclicb s = true -> Acyclic s.
Proof.
  intros s H. exists N.to_nat. intros c cm p Ec Hp. unfold acyclicb in H. rewrite forallb_forall in H.
  specialize (H (c, cm) (get_Some_In _ _ _ _ Ec)). cbn [snd fst] in H. rewrite forallb_forall in H.
  specialize (H p Hp). apply N.ltb_lt in H. lia.
Qed.

Theorem prune_total : forall pos s, ClosedReach s -> snd (prune_with pos s) = Done.
Proof.
  intros pos s Hcl. unfold prune_with.
  destruct (prune_plan pos s Hcl) as (ts & bs & bis & cs & E & _). rewrite E. reflexivity.
Qed.

Theorem prune_prefix_safe : forall pos s n, ClosedReach s ->
  let s' := crash_with pos n s in
  refs s' = refs s /\ (RefsResolve s -> RefsResolve s') /\ ClosedReach s' /\
  (Closed s -> Closed s') /\ (Acyclic s -> Acyclic s') /\
  (forall c, reach s c -> commit_intact s s' c) /\ (forall c, reach s' c <-> reach s c).
Proof.
  intros pos s n Hcl. unfold crash_with, prune_with.
  destruct (prune_plan pos s Hcl) as (ts & bs & bis & cs & E & Hp). rewrite E. cbn [fst].
  destruct (plan_prefix_safe s ts bs bis cs n Hp) as (A & B & C & D & F & G & H).
  repeat (split; [assumption|]). split; [exact (C Hcl)|]. repeat (split; [assumption|]). assumption.
Qed.

Theorem prune_safe : forall pos s, ClosedReach s ->
  let s' := pruned_with pos s in
  refs s' = refs s /\ (RefsResolve s -> RefsResolve s') /\ ClosedReach s' /\
  (Closed s -> Closed s') /\ (Acyclic s -> Acyclic s') /\
  (forall c, reach s c -> commit_intact s s' c) /\ (forall c, reach s' c <-> reach s c).
Proof.
  intros pos s Hcl. unfold pruned_with, prune_with.
  destruct (prune_plan pos s Hcl) as (ts & bs & bis & cs & E & Hp). rewrite E. cbn [fst].
  destruct (plan_full_safe s ts bs bis cs Hp) as (A & B & C & D & F & G & H).
  repeat (split; [assumption|]). split; [exact (C Hcl)|]. repeat (split; [assumption|]). assumption.
Qed.

Theorem prune_complete : forall pos s, ClosedReach s ->
  let s' := pruned_with pos s in
  (Acyclic s -> forall c, ~ reach s c -> get_commit s' c = None) /\
  (has_removable s -> forall t, ~ live_table s t -> get_table s' t = None) /\
  (has_removable s -> forall t, get_table s t <> None -> ~ live_table s t ->
     mem t (tblidx s') = false /\ mem t (prof s') = false) /\
  (forall t, get_table s t = None ->
     mem t (tblidx s') = mem t (tblidx s) /\ mem t (prof s') = mem t (prof s)) /\
  (has_removable s -> forall b, ~ live_block s b -> mem b (blocks s') = false) /\
  (has_removable s -> forall b, ~ live_blkidx s b -> mem b (blkidx s') = false) /\
  (~ has_removable s -> prune_with pos s = ([], Done)).
Proof.
  intros pos s Hcl. unfold pruned_with, prune_with.
  destruct (prune_plan pos s Hcl) as (ts & bs & bis & cs & E & Hp). rewrite E. cbn [fst].
  destruct (plan_complete s ts bs bis cs Hp) as (A & B & C & D & F & G & H).
  repeat (split; [assumption|]). intros Hno. rewrite (H Hno). reflexivity.
Qed.

Theorem prune_idempotent : forall pos s, ClosedReach s -> Acyclic s ->
  prune_with pos (pruned_with pos s) = ([], Done).
Proof.
  intros pos s Hcl Hac. unfold pruned_with, prune_with.
  destruct (prune_plan pos s Hcl) as (ts & bs & bis & cs & E & Hp). rewrite E. cbn [fst].
  apply plan_idempotent; assumption.
Qed.

Theorem prune_rerun : forall pos s n, ClosedReach s -> Acyclic s ->
  let P := firstn n (fst (prune_with pos s)) in
  let s1 := crash_with pos n s in
  let sF := pruned_with pos s in
  let s2 := pruned_with pos s1 in
  snd (prune_with pos s1) = Done /\
  ((forall c, get_commit s2 c = get_commit sF c) /\
   (forall t, get_table s2 t = get_table sF t) /\
   (forall b, mem b (blocks s2) = mem b (blocks sF)) /\
   (forall b, mem b (blkidx s2) = mem b (blkidx sF)) /\
   refs s2 = refs sF /\
   (forall t, mem t (tblidx s2) = mem t (tblidx sF)
                || (deleted KTable t P && negb (deleted KTblIdx t P) && mem t (tblidx s))) /\
   (forall t, mem t (prof s2) = mem t (prof sF)
                || (deleted KTable t P && negb (deleted KProf t P) && mem t (prof s)))) /\
  prune_with pos s2 = ([], Done).
Proof.
  intros pos s n Hcl Hac. unfold pruned_with, crash_with, prune_with.
  destruct (prune_plan pos s Hcl) as (ts & bs & bis & cs & E & Hp). rewrite E. cbn [fst].
  destruct (plan_rerun pos s ts bs bis cs n Hcl Hac Hp) as (ds1 & E1 & R1 & R2).
  rewrite E1. cbn [fst snd]. split; [reflexivity|]. split; [exact R1|exact R2].
Qed.

(** when the crash did not fall inside a (table, index, profile) triple, the re-run ends exactly
    in the state of the uninterrupted run *)
Theorem prune_rerun_clean : forall pos s n, ClosedReach s -> Acyclic s ->
  let P := firstn n (fst (prune_with pos s)) in
  (forall t, deleted KTable t P = true -> deleted KTblIdx t P = true /\ deleted KProf t P = true) ->
  same_objs (pruned_with pos (crash_with pos n s)) (pruned_with pos s).
Proof.
  intros pos s n Hcl Hac P Hclean.
  destruct (prune_rerun pos s n Hcl Hac) as (_ & (A & B & C & D & F & G & H) & _).
  fold P in G, H. unfold same_objs.
  split; [exact A|]. split; [exact B|]. split; [|split; [|split; [exact C|split; [exact D|exact F]]]].
  - intros t. rewrite G. destruct (deleted KTable t P) eqn:Et; cbn [andb]; [|apply orb_false_r].
    destruct (Hclean t Et) as [-> _]. cbn [negb andb]. apply orb_false_r.
  - intros t. rewrite H. destruct (deleted KTable t P) eqn:Et; cbn [andb]; [|apply orb_false_r].
    destruct (Hclean t Et) as [_ ->]. cbn [negb andb]. apply orb_false_r.
Qed.
