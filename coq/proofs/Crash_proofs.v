(** C13 - every prefix of every operation's write list keeps the invariants
    (commit, commitWithTable, DeleteHead, merge commit, merge no-ff, merge ff, fetch);
    prune and the re-run theorems are in CrashPrune_proofs.v / CrashRerun_proofs.v. *)
From Coq Require Import List NArith Bool String Lia Permutation.
From W.model Require Import CrashRepo Crash.
From W.proofs Require Import CrashRepo_proofs.
Import ListNotations.
Local Open Scope N_scope.
Local Notation length := List.length.
Local Notation concat := List.concat.

(* ------------------------------------------------------------------ skeleton predicates *)

Lemma str_list_eqb_eq (a b : list N) : list_eqb N.eqb a b = true <-> a = b.
Proof. apply list_eqb_eq. apply N.eqb_eq. Qed.

Lemma one_of_In allowed l : one_of allowed l = true -> In l allowed.
Proof. unfold one_of. intros H. apply (memb_In _ str_list_eqb_eq) in H. exact H. Qed.

Lemma all_nil_concat {A} (ls : list (list A)) : Forall (fun l => l = []) ls -> List.concat ls = [].
Proof. induction 1; cbn; subst; auto. Qed.

Lemma Interleave_Permutation {A} (ls : list (list A)) out : Interleave ls out -> Permutation out (List.concat ls).
Proof.
  induction 1 as [ls H | ls1 x l ls2 out H IH].
  - rewrite all_nil_concat; auto.
  - rewrite concat_app in *. cbn [List.concat] in *.
    change ((x :: l) ++ List.concat ls2) with (x :: (l ++ List.concat ls2)).
    apply Permutation_cons_app. exact IH.
Qed.

Lemma sequential_valid : valid_sched sequential.
Proof.
  intros ls. unfold sequential. induction ls as [|l ls IH]; cbn.
  - constructor. constructor.
  - induction l as [|x l IHl]; cbn.
    + clear -IH. remember (List.concat ls) as out. clear Heqout.
      induction IH as [ls H | ls1 x l ls2 out H IH].
      * constructor. constructor; auto.
      * apply (il_step ([] :: ls1)). exact IH.
    + apply (il_step [] x l ls). exact IHl.
Qed.

Lemma sched_In sched ls x : valid_sched sched -> (In x (sched ls) <-> In x (List.concat ls)).
Proof.
  intros H. pose proof (Interleave_Permutation _ _ (H ls)) as P. split; intros Hx.
  - eapply Permutation_in; eauto.
  - eapply Permutation_in; [apply Permutation_sym|]; eauto.
Qed.

(* ------------------------------------------------------------------ index / put classes *)

(** writes of derived data and blocks: safe anywhere, and puts *)
Definition idx_put (w : write) : Prop :=
  match w with PutBlock _ | PutBlkIdx _ | PutTblIdx _ | PutProf _ => True | _ => False end.

Lemma idx_put_always w : idx_put w -> always_safe w.
Proof. destruct w; cbn; auto. Qed.
Lemma idx_put_is_put w : idx_put w -> is_put w.
Proof. destruct w; cbn; auto. Qed.
Lemma idx_puts_always ws : Forall idx_put ws -> Forall always_safe ws.
Proof. intros H. eapply Forall_impl; [|exact H]. apply idx_put_always. Qed.
Lemma idx_puts_is_put ws : Forall idx_put ws -> Forall is_put ws.
Proof. intros H. eapply Forall_impl; [|exact H]. apply idx_put_is_put. Qed.

(* ------------------------------------------------------------------ ingest *)

Lemma block_pair_idx_put sk p : Forall idx_put (block_pair_writes sk p).
Proof.
  unfold block_pair_writes. apply Forall_forall. intros w Hw. apply in_flat_map in Hw.
  destruct Hw as [nm [_ Hw]].
  destruct (is_name nm n_SaveBlock); [destruct Hw as [<-|[]]; exact I|].
  destruct (is_name nm n_SaveBlockIndex); [destruct Hw as [<-|[]]; exact I|]. destruct Hw.
Qed.

Lemma block_pair_cases sk p : insert_block_skel_ok (sk_insert_block sk) = true ->
  block_pair_writes sk p = [PutBlock (fst p); PutBlkIdx (snd p)] \/
  block_pair_writes sk p = [PutBlkIdx (snd p); PutBlock (fst p)].
Proof.
  intros H. apply one_of_In in H. unfold block_pair_writes.
  destruct H as [H | [H | []]]; rewrite <- H; [left | right]; reflexivity.
Qed.

Lemma block_phase_idx_put sk sched rows : valid_sched sched ->
  Forall idx_put (sched (map (block_pair_writes sk) rows)).
Proof.
  intros Hv. apply Forall_forall. intros w Hw. apply (sched_In _ _ _ Hv) in Hw.
  apply in_concat in Hw. destruct Hw as [l [Hl Hw]]. apply in_map_iff in Hl.
  destruct Hl as [p [<- _]]. pose proof (block_pair_idx_put sk p) as F.
  rewrite Forall_forall in F. auto.
Qed.

Lemma block_phase_has sk sched rows : valid_sched sched ->
  insert_block_skel_ok (sk_insert_block sk) = true ->
  forall p, In p rows ->
    In (PutBlock (fst p)) (sched (map (block_pair_writes sk) rows)) /\
    In (PutBlkIdx (snd p)) (sched (map (block_pair_writes sk) rows)).
Proof.
  intros Hv Hok p Hp.
  assert (Hc : forall w, In w (block_pair_writes sk p) -> In w (sched (map (block_pair_writes sk) rows))).
  { intros w Hw. apply (sched_In _ _ _ Hv). apply in_concat. exists (block_pair_writes sk p).
    split; auto. apply in_map; auto. }
  destruct (block_pair_cases sk p Hok) as [E | E]; split; apply Hc; rewrite E; cbn; auto.
Qed.

Definition opt_prof (hp : bool) (t : table) : list write := if hp then [PutProf t] else [].

Lemma ingest_tail_cases sk t hp : ingest_skel_ok (sk_ingest sk) = true ->
  ingest_tail sk t hp = [PutTblIdx t] ++ opt_prof hp t ++ [PutTable t] \/
  ingest_tail sk t hp = opt_prof hp t ++ [PutTblIdx t] ++ [PutTable t].
Proof.
  intros H. apply one_of_In in H. unfold ingest_tail.
  destruct H as [H | [H | []]]; rewrite <- H; [left | right]; destruct hp; reflexivity.
Qed.

Lemma opt_prof_idx_put hp t : Forall idx_put (opt_prof hp t).
Proof. destruct hp; cbn; repeat constructor. Qed.

(** the general shape all table-producing sequences have: index writes, then the table *)
Lemma pre_table_safe pre t s :
  Forall idx_put pre ->
  (forall b, In b (t_blocks t) -> In b (blocks s) \/ In (PutBlock b) pre) ->
  (forall i, In i (t_blkidx t) -> In i (blkidx s) \/ In (PutBlkIdx i) pre) ->
  In (PutTblIdx t) pre ->
  safe_seq s (pre ++ [PutTable t]).
Proof.
  intros Hp Hb Hi Ht. apply safe_seq_app.
  - apply always_safe_seq. apply idx_puts_always; auto.
  - cbn. split; auto. split; [exact I|].
    pose proof (idx_puts_is_put _ Hp) as Hput.
    destruct (puts_establish pre s Hput) as (E1&E2&E3&_).
    destruct (puts_mono pre s Hput) as (_&_&_&_&M5&M6).
    cbn. repeat split.
    + intros b Hb'. destruct (Hb b Hb'); auto.
    + intros i Hi'. destruct (Hi i Hi'); auto.
    + auto.
Qed.

Lemma rows_blocks t b : In b (t_blocks t) -> exists p, In p (t_rows t) /\ fst p = b.
Proof. unfold t_blocks. intros H. apply in_map_iff in H. destruct H as [p [H1 H2]]. eauto. Qed.
Lemma rows_blkidx t i : In i (t_blkidx t) -> exists p, In p (t_rows t) /\ snd p = i.
Proof. unfold t_blkidx. intros H. apply in_map_iff in H. destruct H as [p [H1 H2]]. eauto. Qed.

Section WithSkels.
  Variable sk : skels.
  Variable sched : schedule.
  Hypothesis Hsched : valid_sched sched.
  Hypothesis Hingest : ingest_skel_ok (sk_ingest sk) = true.
  Hypothesis Hblock : insert_block_skel_ok (sk_insert_block sk) = true.

  (** ingest = idx_put prefix ++ [PutTable t] *)
  Lemma ingest_shape t hp : exists pre,
    ingest_writes sk sched t hp = pre ++ [PutTable t] /\ Forall idx_put pre /\
    (forall b, In b (t_blocks t) -> In (PutBlock b) pre) /\
    (forall i, In i (t_blkidx t) -> In (PutBlkIdx i) pre) /\
    In (PutTblIdx t) pre /\ (hp = true -> In (PutProf t) pre).
  Proof.
    unfold ingest_writes.
    set (B := sched (map (block_pair_writes sk) (t_rows t))).
    assert (HB : Forall idx_put B) by (apply block_phase_idx_put; auto).
    assert (Hb : forall b, In b (t_blocks t) -> In (PutBlock b) B).
    { intros b Hb. destruct (rows_blocks _ _ Hb) as [p [Hp <-]].
      apply (block_phase_has sk sched (t_rows t) Hsched Hblock p Hp). }
    assert (Hi : forall i, In i (t_blkidx t) -> In (PutBlkIdx i) B).
    { intros i Hi. destruct (rows_blkidx _ _ Hi) as [p [Hp <-]].
      apply (block_phase_has sk sched (t_rows t) Hsched Hblock p Hp). }
    destruct (ingest_tail_cases sk t hp Hingest) as [E | E]; rewrite E.
    - exists (B ++ [PutTblIdx t] ++ opt_prof hp t). rewrite <- !app_assoc. split; [reflexivity|].
      split; [|split; [|split; [|split]]].
      + apply Forall_app; split; auto. apply Forall_app; split; [repeat constructor | apply opt_prof_idx_put].
      + intros; apply in_or_app; auto.
      + intros; apply in_or_app; auto.
      + apply in_or_app; right; cbn; auto.
      + intros ->. apply in_or_app; right. cbn. auto.
    - exists (B ++ opt_prof hp t ++ [PutTblIdx t]). rewrite <- !app_assoc. split; [reflexivity|].
      split; [|split; [|split; [|split]]].
      + apply Forall_app; split; auto. apply Forall_app; split; [apply opt_prof_idx_put | repeat constructor].
      + intros; apply in_or_app; auto.
      + intros; apply in_or_app; auto.
      + apply in_or_app; right. apply in_or_app; right; cbn; auto.
      + intros ->. apply in_or_app; right. cbn. auto.
  Qed.

  Lemma ingest_safe t hp s : safe_seq s (ingest_writes sk sched t hp).
  Proof.
    destruct (ingest_shape t hp) as [pre (E&Hp&Hb&Hi&Ht&_)]. rewrite E.
    apply pre_table_safe; auto.
  Qed.

  Lemma ingest_is_put t hp : Forall is_put (ingest_writes sk sched t hp).
  Proof.
    destruct (ingest_shape t hp) as [pre (E&Hp&_)]. rewrite E.
    apply Forall_app; split; [apply idx_puts_is_put; auto | repeat constructor].
  Qed.

  Lemma ingest_has_table t hp : In (PutTable t) (ingest_writes sk sched t hp).
  Proof.
    destruct (ingest_shape t hp) as [pre (E&_)]. rewrite E. apply in_or_app; right; cbn; auto.
  Qed.

  Lemma ingest_has_prof t : In (PutProf t) (ingest_writes sk sched t true).
  Proof.
    destruct (ingest_shape t true) as [pre (E&_&_&_&_&Hp)]. rewrite E. apply in_or_app; left; auto.
  Qed.

  (* ---------------------------------------------------------------- commit *)

  Hypothesis Hcommit : commit_skel_ok (sk_commit sk) = true.
  Hypothesis Hcwt : commit_with_table_skel_ok (sk_commit_with_table sk) = true.

  Lemma commit_writes_eq s r t nonce :
    commit_writes sk sched s r t nonce =
    ingest_writes sk sched t true ++
      [PutCommit (Cid t (opt_list (head_of r s)) nonce); SetRefLog r (Cid t (opt_list (head_of r s)) nonce) true].
  Proof.
    pose proof (one_of_In _ _ Hcommit) as H. unfold commit_writes.
    destruct H as [H | []]; rewrite <- H. cbn. try rewrite app_nil_r. reflexivity.
  Qed.

  Lemma commit_with_table_writes_eq s r t nonce :
    commit_with_table_writes sk s r t nonce =
      [PutCommit (Cid t (opt_list (head_of r s)) nonce); SetRefLog r (Cid t (opt_list (head_of r s)) nonce) true].
  Proof.
    pose proof (one_of_In _ _ Hcwt) as H. unfold commit_with_table_writes.
    destruct H as [H | []]; rewrite <- H. reflexivity.
  Qed.

  (** the tail shared by commit, commitWithTable and createMergeCommit: the commit object,
      then the ref *)
  Lemma commit_ref_safe s r c :
    (forall p, In p (c_parents c) -> In p (commits s)) -> In (c_table c) (tables s) ->
    safe_seq s [PutCommit c; SetRefLog r c true].
  Proof.
    intros Hp Ht. cbn. repeat split; auto.
    - apply In_commits_apply. cbn. auto.
    - intros _. apply In_tables_apply. cbn. auto.
  Qed.

  Lemma head_parents_stored s r : RefsResolve s -> forall p, In p (opt_list (head_of r s)) -> In p (commits s).
  Proof.
    intros Hr p Hp. destruct (head_of r s) as [h|] eqn:E; cbn in Hp; [|contradiction].
    destruct Hp as [<- | []]. destruct (head_of_In _ _ _ E) as [f Hf]. eapply Hr; eauto.
  Qed.

  Lemma commit_safe s r t nonce : Inv s -> safe_seq s (commit_writes sk sched s r t nonce).
  Proof.
    intros (Hc & Hr & Htu & Hh). rewrite commit_writes_eq. apply safe_seq_app.
    - apply ingest_safe.
    - pose proof (ingest_is_put t true) as Hput.
      destruct (puts_mono _ s Hput) as (M1&_).
      destruct (puts_establish _ s Hput) as (_&_&_&_&E5&_).
      apply commit_ref_safe.
      + cbn. intros p Hp. apply M1. eapply head_parents_stored; eauto.
      + cbn. apply E5. apply ingest_has_table.
  Qed.

  Lemma commit_with_table_safe s r t nonce : Inv s -> In t (tables s) ->
    safe_seq s (commit_with_table_writes sk s r t nonce).
  Proof.
    intros (Hc & Hr & Htu & Hh) Ht. rewrite commit_with_table_writes_eq.
    apply commit_ref_safe; auto. cbn. intros p Hp. eapply head_parents_stored; eauto.
  Qed.

  (* ---------------------------------------------------------------- merge *)

  Hypothesis Hmerge : merge_result_skel_ok (sk_merge_result sk) = true.
  Hypothesis Hcreate : create_merge_skel_ok (sk_create_merge sk) = true.

  Lemma create_merge_writes_eq r c : create_merge_writes sk r c = [PutCommit c; SetRefLog r c true].
  Proof.
    pose proof (one_of_In _ _ Hcreate) as H. unfold create_merge_writes.
    destruct H as [H | []]; rewrite <- H. reflexivity.
  Qed.

  Lemma merge_commit_writes_eq r c :
    merge_commit_writes sk sched r c =
    ingest_writes sk sched (c_table c) false ++ [PutProf (c_table c)] ++ [PutCommit c; SetRefLog r c true].
  Proof.
    pose proof (one_of_In _ _ Hmerge) as H. unfold merge_commit_writes.
    destruct H as [H | []]; rewrite <- H. cbn. rewrite create_merge_writes_eq. try rewrite app_nil_r. reflexivity.
  Qed.

  Lemma merge_commit_safe s r c :
    (forall p, In p (c_parents c) -> In p (commits s)) ->
    safe_seq s (merge_commit_writes sk sched r c).
  Proof.
    intros Hp. rewrite merge_commit_writes_eq. rewrite app_assoc. apply safe_seq_app.
    - apply safe_seq_app; [apply ingest_safe|]. cbn. split; [split; exact I | exact I].
    - assert (Hput : Forall is_put (ingest_writes sk sched (c_table c) false ++ [PutProf (c_table c)])).
      { apply Forall_app; split; [apply ingest_is_put | repeat constructor]. }
      destruct (puts_mono _ s Hput) as (M1&_).
      destruct (puts_establish _ s Hput) as (_&_&_&_&E5&_).
      apply commit_ref_safe; auto.
      apply E5. apply in_or_app; left. apply ingest_has_table.
  Qed.

  (* ---------------------------------------------------------------- receive *)

  Hypothesis Hrtable : recv_table_skel_ok (sk_recv_table sk) = true.
  Hypothesis Hindex : index_table_skel_ok (sk_index_table sk) = true.
  Hypothesis Hrcommit : recv_commit_skel_ok (sk_recv_commit sk) = true.

  Variable dv : deriver.

  Lemma index_blocks_spec s meta rows :
    Forall idx_put (fst (index_blocks dv s meta rows)) /\
    (snd (index_blocks dv s meta rows) = true ->
       forall p, In p rows -> In (fst p) (blocks s) /\ In (PutBlkIdx (snd p)) (fst (index_blocks dv s meta rows))).
  Proof.
    induction rows as [|[b i] rows IH]; cbn.
    - split; [constructor | intros _ p []].
    - destruct (memb N.eqb b (blocks s)) eqn:Eb; cbn; [|split; [constructor | discriminate]].
      destruct (N.eqb (dv meta b) i) eqn:Ei; cbn; [|split; [repeat constructor | discriminate]].
      apply N.eqb_eq in Ei. destruct (index_blocks dv s meta rows) as [ws ok]; cbn in *.
      destruct IH as [IH1 IH2]. split; [constructor; [exact I | auto]|].
      intros Hok p [<- | Hp]; cbn.
      + split; [apply (memb_In N.eqb N.eqb_eq); auto | left; rewrite Ei; reflexivity].
      + destruct (IH2 Hok p Hp); auto.
  Qed.

  Lemma index_table_writes_eq s t :
    index_table_writes sk dv s t =
    (let '(ws, ok) := index_blocks dv s (t_meta t) (t_rows t) in
     if ok then (ws ++ [PutTblIdx t], true) else (ws, false)).
  Proof.
    pose proof (one_of_In _ _ Hindex) as H. unfold index_table_writes.
    destruct H as [H | []]; rewrite <- H. cbn.
    destruct (index_blocks dv s (t_meta t) (t_rows t)) as [ws ok]. destruct ok; reflexivity.
  Qed.

  Lemma index_table_spec s t :
    Forall idx_put (fst (index_table_writes sk dv s t)) /\
    (snd (index_table_writes sk dv s t) = true ->
       (forall b, In b (t_blocks t) -> In b (blocks s)) /\
       (forall i, In i (t_blkidx t) -> In (PutBlkIdx i) (fst (index_table_writes sk dv s t))) /\
       In (PutTblIdx t) (fst (index_table_writes sk dv s t))).
  Proof.
    rewrite index_table_writes_eq.
    pose proof (index_blocks_spec s (t_meta t) (t_rows t)) as [H1 H2].
    destruct (index_blocks dv s (t_meta t) (t_rows t)) as [ws ok]; cbn in *. destruct ok; cbn.
    - split; [apply Forall_app; split; auto; repeat constructor|]. intros _.
      specialize (H2 eq_refl). split; [|split].
      + intros b Hb. destruct (rows_blocks _ _ Hb) as [p [Hp <-]]. apply (H2 p Hp).
      + intros i Hi. destruct (rows_blkidx _ _ Hi) as [p [Hp <-]]. apply in_or_app; left. apply (H2 p Hp).
      + apply in_or_app; right; cbn; auto.
    - split; auto. discriminate.
  Qed.

  (** saveTable: either it fails after index writes only, or its writes are index writes
      followed by the table, the blocks being present and all derived data written before *)
  Lemma recv_table_spec s t :
    let r := recv_table_writes sk dv s t in
    (snd r = false /\ Forall idx_put (fst r)) \/
    (snd r = true /\ exists pre, fst r = pre ++ [PutTable t] /\ Forall idx_put pre /\
       (forall b, In b (t_blocks t) -> In b (blocks s)) /\
       (forall i, In i (t_blkidx t) -> In (PutBlkIdx i) pre) /\ In (PutTblIdx t) pre /\ In (PutProf t) pre).
  Proof.
    pose proof (one_of_In _ _ Hrtable) as H. unfold recv_table_writes.
    pose proof (index_table_spec s t) as [I1 I2].
    destruct H as [H | [H | []]]; rewrite <- H; cbn.
    - (* IndexTable, ProfileTable, SaveTable *)
      destruct (index_table_writes sk dv s t) as [wi oki]; cbn in *. destruct oki; cbn; [|left; auto].
      destruct (I2 eq_refl) as (Hb&Hi&Ht).
      assert (Hincl : inclb N.eqb (t_blocks t) (blocks s) = true) by (apply (inclb_incl N.eqb N.eqb_eq); auto).
      rewrite Hincl. cbn. right. split; auto. exists (wi ++ [PutProf t]). split; [rewrite <- app_assoc; reflexivity|].
      split; [apply Forall_app; split; auto; repeat constructor|].
      split; auto. split; [intros; apply in_or_app; auto|].
      split; apply in_or_app; [left | right; cbn]; auto.
    - (* ProfileTable, IndexTable, SaveTable *)
      destruct (inclb N.eqb (t_blocks t) (blocks s)) eqn:Hincl; cbn; [|left; split; auto; constructor].
      destruct (index_table_writes sk dv s t) as [wi oki]; cbn in *. destruct oki; cbn.
      + destruct (I2 eq_refl) as (Hb&Hi&Ht). right. split; auto. exists (PutProf t :: wi). split; [reflexivity|].
        split; [constructor; [exact I | auto]|]. split; auto. split; [intros; right; auto|]. split; [right|left]; auto.
      + left. split; auto. constructor; [exact I | auto].
  Qed.

  Lemma recv_commit_writes_eq s c :
    recv_commit_writes sk s c =
    if inclb cid_eqb (c_parents c) (commits s) then ([PutCommit c], true) else ([], false).
  Proof.
    pose proof (one_of_In _ _ Hrcommit) as H. unfold recv_commit_writes.
    destruct H as [H | []]; rewrite <- H. cbn.
    destruct (inclb cid_eqb (c_parents c) (commits s)); reflexivity.
  Qed.

  Lemma recv_obj_safe s o : safe_seq s (fst (recv_obj sk dv s o)) /\ Forall is_put (fst (recv_obj sk dv s o)).
  Proof.
    destruct o as [b | t | c]; cbn [recv_obj].
    - split; [cbn; repeat split; auto | repeat constructor].
    - destruct (recv_table_spec s t) as [[_ Hf] | [_ [pre (E&Hp&Hb&Hi&Ht&_)]]].
      + split; [apply always_safe_seq; apply idx_puts_always; auto | apply idx_puts_is_put; auto].
      + rewrite E. split; [apply pre_table_safe; auto|].
        apply Forall_app; split; [apply idx_puts_is_put; auto | repeat constructor].
    - rewrite recv_commit_writes_eq. destruct (inclb cid_eqb (c_parents c) (commits s)) eqn:E; cbn.
      + pose proof (proj1 (inclb_incl cid_eqb cid_eqb_eq _ _) E) as E'.
        split; [cbn; repeat split; auto | repeat constructor].
      + split; [exact I | constructor].
  Qed.

  Lemma receive_safe objs : forall s,
    safe_seq s (fst (receive sk dv s objs)) /\ Forall is_put (fst (receive sk dv s objs)).
  Proof.
    induction objs as [|o objs IH]; intros s; cbn [receive].
    - cbn. split; auto.
    - destruct (recv_obj_safe s o) as [Hs Hp]. destruct (recv_obj sk dv s o) as [ws ok]; cbn in *.
      destruct ok; [|split; auto].
      specialize (IH (apply_all ws s)). destruct (receive sk dv (apply_all ws s) objs) as [ws' ok']; cbn in *.
      destruct IH as [IH1 IH2]. split; [apply safe_seq_app; auto | apply Forall_app; auto].
  Qed.

  (* ---------------------------------------------------------------- fetch *)

  Hypothesis Hfetch : fetch_skel_ok (sk_fetch sk) = true.

  Lemma apply_setref_commits r c f s : commits (apply (SetRefLog r c f) s) = commits s.
  Proof. destruct s; reflexivity. Qed.

  Lemma save_refs_safe upd : forall s,
    (forall u, In u upd -> In (snd (fst u)) (commits s)) -> safe_seq s (fst (save_refs s upd)).
  Proof.
    induction upd as [|[[r c] force] upd IH]; intros s Hst; cbn [save_refs].
    - exact I.
    - assert (Hc : In c (commits s)) by (apply (Hst (r, c, force)); left; reflexivity).
      assert (Hrest : forall s', commits s' = commits s -> forall u, In u upd -> In (snd (fst u)) (commits s')).
      { intros s' E u Hu. rewrite E. apply Hst. right; auto. }
      assert (Hset : safe (SetRefLog r c false) s).
      { split; [exact I|]. cbn. split; auto. discriminate. }
      destruct (head_of r s) as [old|].
      + destruct (cid_eqb old c); [apply IH; apply Hrest; reflexivity|].
        destruct (negb (stored c s)); [exact I|].
        destruct (is_anc old c || force).
        * specialize (IH (apply (SetRefLog r c false) s) (Hrest _ (apply_setref_commits _ _ _ _))).
          destruct (save_refs (apply (SetRefLog r c false) s) upd) as [ws ok]; cbn in *. split; auto.
        * specialize (IH s (Hrest _ eq_refl)).
          destruct (save_refs s upd) as [ws ok]; cbn in *. auto.
      + specialize (IH (apply (SetRefLog r c false) s) (Hrest _ (apply_setref_commits _ _ _ _))).
        destruct (save_refs (apply (SetRefLog r c false) s) upd) as [ws ok]; cbn in *. split; auto.
  Qed.

  Lemma fetch_objects_spec s objs upd :
    safe_seq s (fst (fetch_objects sk dv s objs upd)) /\
    Forall is_put (fst (fetch_objects sk dv s objs upd)) /\
    (snd (fetch_objects sk dv s objs upd) = true ->
       forall u, In u upd -> In (snd (fst u)) (commits (apply_all (fst (fetch_objects sk dv s objs upd)) s))).
  Proof.
    unfold fetch_objects.
    destruct (forallb (fun u => stored (snd (fst u)) s) upd) eqn:E.
    - cbn. split; [exact I|]. split; [constructor|]. intros _ u Hu.
      rewrite forallb_forall in E. apply (memb_In cid_eqb cid_eqb_eq). apply E; auto.
    - destruct (receive_safe objs s) as [Hs Hp].
      destruct (receive sk dv s objs) as [wr okr]; cbn in *. split; auto. split; auto.
      intros H u Hu. apply andb_true_iff in H. destruct H as [_ H]. rewrite forallb_forall in H.
      apply (memb_In cid_eqb cid_eqb_eq). apply H; auto.
  Qed.

  Lemma fetch_writes_eq s objs upd :
    fetch_writes sk dv s objs upd =
    (let '(wo, oko) := fetch_objects sk dv s objs upd in
     if oko then let '(wsr, oks) := save_refs (apply_all wo s) upd in (wo ++ wsr, oks)
     else (wo, false)).
  Proof.
    pose proof (one_of_In _ _ Hfetch) as H. unfold fetch_writes.
    destruct H as [H | []]; rewrite <- H. cbn.
    destruct (fetch_objects sk dv s objs upd) as [wo oko]. cbn.
    destruct oko; [|reflexivity].
    destruct (save_refs (apply_all wo s) upd) as [wsr oks]. reflexivity.
  Qed.

  Lemma fetch_safe s objs upd : safe_seq s (fst (fetch_writes sk dv s objs upd)).
  Proof.
    rewrite fetch_writes_eq. destruct (fetch_objects_spec s objs upd) as (Hs & Hp & Hst).
    destruct (fetch_objects sk dv s objs upd) as [wo oko]; cbn in *.
    destruct oko; [|exact Hs].
    pose proof (save_refs_safe upd (apply_all wo s)) as Hsr.
    destruct (save_refs (apply_all wo s) upd) as [wsr oks]; cbn in *.
    apply safe_seq_app; auto.
  Qed.

  (* ---------------------------------------------------------------- all non-prune operations *)

  (** environment assumptions that the code does not check itself *)
  Definition op_ok (s : state) (o : op) : Prop :=
    match o with
    | OCommitTable _ t _ => In t (tables s)
        (* commitWithTable is called with the table of the temp commit that was just made or
           whose table was just read back (getCommitTable) *)
    | OMergeNoFF r other _ =>
        (* createMergeCommit re-uses the head's table when the other commit is an ancestor;
           nothing checks that the head's table exists *)
        forall h, head_of r s = Some h -> In (c_table h) (tables s)
    | OPrune => False   (* handled separately *)
    | _ => True
    end.

  Lemma others_ok_spec s others : others_ok s others = true ->
    forall c, In c others -> In c (commits s) /\ In (c_table c) (tables s).
  Proof.
    unfold others_ok. rewrite forallb_forall. intros H c Hc. specialize (H c Hc).
    apply andb_true_iff in H. destruct H as [H1 H2].
    split; [apply (memb_In cid_eqb cid_eqb_eq) | apply (memb_In table_eqb table_eqb_eq)]; auto.
  Qed.

  Lemma head_stored s r h : RefsResolve s -> head_of r s = Some h -> In h (commits s).
  Proof. intros Hr E. destruct (head_of_In _ _ _ E) as [f Hf]. eapply Hr; eauto. Qed.

  Lemma flag_of_true s r h : HeadsFull s -> head_of r s = Some h -> flag_of r s = true -> In (c_table h) (tables s).
  Proof.
    unfold head_of, flag_of. intros Hh E F. destruct (get_ref r s) as [[c f]|] eqn:G; try discriminate.
    inversion E; subst. apply get_ref_In in G. eapply Hh; eauto.
  Qed.

  Lemma ff_safe s r h o1 : Inv s -> head_of r s = Some h ->
    In o1 (commits s) -> In (c_table o1) (tables s) -> safe_seq s (fst (ff_writes s r h o1)).
  Proof.
    intros (Hc & Hr & Htu & Hh) E Ho1 Ho2. unfold ff_writes.
    destruct (cid_eqb h o1); [exact I|].
    destruct (is_anc h o1); cbn [fst]; [cbn; repeat split; auto|].
    destruct (is_anc o1 h); cbn [fst]; [|exact I].
    cbn. repeat split; auto. { eapply head_stored; eauto. } { intros F. eapply flag_of_true; eauto. }
  Qed.

  Lemma merge_op_safe s r others t nonce : Inv s -> safe_seq s (fst (merge_op_writes sk sched s r others t nonce)).
  Proof.
    intros Hi. pose proof Hi as (Hc & Hr & Htu & Hh). unfold merge_op_writes.
    destruct (head_of r s) as [h|] eqn:E; [|exact I].
    destruct (others_ok s others) eqn:Eo; [|exact I].
    destruct (diverged h others) eqn:Ed; cbn [fst].
    + apply merge_commit_safe. cbn. intros p [<- | Hp].
      * eapply head_stored; eauto.
      * apply (others_ok_spec _ _ Eo p Hp).
    + destruct others as [|o1 [|o2 l]]; try exact I.
      destruct (others_ok_spec _ _ Eo o1 (or_introl eq_refl)) as [Ho1 Ho2].
      apply (ff_safe s r h o1); auto.
  Qed.

  Lemma pull_tail_safe s1 r rr t nonce : Inv s1 -> safe_seq s1 (fst (pull_tail sk sched s1 r rr t nonce)).
  Proof.
    intros Hi. pose proof Hi as (Hc & Hr & Htu & Hh). unfold pull_tail.
    destruct (head_of rr s1) as [c'|] eqn:Err; [|exact I].
    destruct (head_of r s1) as [h|] eqn:Er.
    - destruct (cid_eqb c' h); [exact I | apply merge_op_safe; auto].
    - cbn. repeat split; auto. { eapply head_stored; eauto. } { discriminate. }
  Qed.

  Lemma pull_safe s r rr objs c force t nonce : Inv s ->
    safe_seq s (fst (pull_writes sk dv sched s r rr objs c force t nonce)).
  Proof.
    intros Hi. unfold pull_writes. pose proof (fetch_safe s objs [(rr, c, force)]) as Hf.
    destruct (fetch_writes sk dv s objs [(rr, c, force)]) as [wf okf]; cbn [fst] in *.
    destruct okf; [|exact Hf].
    pose proof (pull_tail_safe (apply_all wf s) r rr t nonce (safe_seq_end wf s Hi Hf)) as Ht.
    destruct (pull_tail sk sched (apply_all wf s) r rr t nonce) as [wt okt]; cbn [fst] in *.
    apply safe_seq_app; auto.
  Qed.

  Theorem op_safe s o : Inv s -> op_ok s o -> safe_seq s (fst (op_writes sk dv sched s o)).
  Proof.
    intros Hi Hok. pose proof Hi as (Hc & Hr & Htu & Hh).
    destruct o as [r t n | r t n | r | r others t n | r other n | r other | objs upd | | r rr objs c force t n]; cbn [op_writes fst].
    - apply commit_safe; auto.
    - apply commit_with_table_safe; auto.
    - cbn. repeat split; auto.
    - apply merge_op_safe; auto.
    - destruct (head_of r s) as [h|] eqn:E; [|exact I].
      destruct (others_ok s [other]) eqn:Eo; [|exact I].
      destruct (others_ok_spec _ _ Eo other (or_introl eq_refl)) as [Ho1 Ho2].
      assert (Hpar : forall p, In p [h; other] -> In p (commits s)).
      { intros p [<- | [<- | []]]; auto. eapply head_stored; eauto. }
      destruct (cid_eqb h other); [exact I|].
      destruct (is_anc h other); cbn [fst]; [rewrite create_merge_writes_eq; apply commit_ref_safe; auto|].
      destruct (is_anc other h); cbn [fst]; [|exact I].
      rewrite create_merge_writes_eq; apply commit_ref_safe; auto. cbn. apply Hok; auto.
    - destruct (head_of r s) as [h|] eqn:E; [|exact I].
      destruct (others_ok s [other]) eqn:Eo; [|exact I].
      destruct (others_ok_spec _ _ Eo other (or_introl eq_refl)) as [Ho1 Ho2].
      apply (ff_safe s r h other); auto.
    - apply fetch_safe.
    - contradiction.
    - apply pull_safe; auto.
  Qed.

  Theorem op_prefix_consistent s o n :
    Inv s -> op_ok s o -> Inv (crash n (fst (op_writes sk dv sched s o)) s).
  Proof. intros Hi Hok. apply safe_seq_prefix; auto. apply op_safe; auto. Qed.

  (* ---------------------------------------------------------------- re-run: commit-like operations *)

  Lemma ingest_is_obj t hp : Forall is_obj (ingest_writes sk sched t hp).
  Proof.
    destruct (ingest_shape t hp) as [pre (E&Hp&_)]. rewrite E.
    apply Forall_app; split; [|repeat constructor].
    eapply Forall_impl; [|exact Hp]. intros w; destruct w; cbn; auto.
  Qed.

End WithSkels.

Lemma Forall_firstn {A} (P : A -> Prop) n l : Forall P l -> Forall P (firstn n l).
Proof.
  revert n; induction l as [|x l IH]; intros n H; [rewrite firstn_nil; constructor|].
  destruct n; cbn; [constructor|]. inversion H; subst. constructor; auto.
Qed.

Lemma firstn_app_le {A} n (l1 l2 : list A) : (n <= length l1)%nat -> firstn n (l1 ++ l2) = firstn n l1.
Proof.
  intros H. rewrite firstn_app. replace (n - length l1)%nat with 0%nat by lia. cbn. apply app_nil_r.
Qed.

Lemma head_of_refs_eq r a b : refs a = refs b -> head_of r a = head_of r b.
Proof. unfold head_of, get_ref. intros ->. reflexivity. Qed.

Lemma flag_of_refs_eq r a b : refs a = refs b -> flag_of r a = flag_of r b.
Proof. unfold flag_of, get_ref. intros ->. reflexivity. Qed.

Lemma find_del_key {V} (r r' : N) (R : list (N * V)) : r' <> r ->
  find (fun e => N.eqb (fst e) r') (del_key r R) = find (fun e => N.eqb (fst e) r') R.
Proof.
  intros Hne. induction R as [|[k v] R IH]; cbn; auto.
  destruct (N.eqb k r) eqn:E; cbn.
  - apply N.eqb_eq in E. subst k. destruct (N.eqb r r') eqn:E'; [apply N.eqb_eq in E'; congruence | exact IH].
  - destruct (N.eqb k r'); auto.
Qed.

Lemma refs_after_set s r c f : refs (apply (SetRefLog r c f) s) = (r, (c, f)) :: del_key r (refs s).
Proof. destruct s; reflexivity. Qed.

(** a write list "object writes, then one SetRefLog" *)
Lemma refs_after_tail objs r c f s : Forall is_obj objs ->
  refs (apply_all (objs ++ [SetRefLog r c f]) s) = (r, (c, f)) :: del_key r (refs s).
Proof.
  intros H. rewrite apply_all_app. cbn. rewrite refs_after_set, apply_all_obj_refs; auto.
Qed.

Lemma crash_before_tail objs w n s : Forall is_obj objs -> (n < length (objs ++ [w]))%nat ->
  refs (crash n (objs ++ [w]) s) = refs s /\ Forall is_obj (firstn n (objs ++ [w])) /\
  firstn n (objs ++ [w]) = firstn n objs.
Proof.
  intros H Hn. rewrite app_length in Hn. cbn in Hn.
  assert (E : firstn n (objs ++ [w]) = firstn n objs) by (apply firstn_app_le; lia).
  unfold crash. rewrite E. split; [|split; auto]; [apply apply_all_obj_refs|]; apply Forall_firstn; auto.
Qed.

Lemma obs_eq_same_tail A B R r c1 c2 f1 f2 :
  refs A = (r, (c1, f1)) :: del_key r R -> refs B = (r, (c2, f2)) :: del_key r R ->
  shape_of c1 = shape_of c2 -> obs_eq A B.
Proof.
  intros EA EB Hs r'. unfold ref_shape, get_ref. rewrite EA, EB. cbn.
  destruct (N.eqb r r') eqn:E; cbn; [rewrite Hs; reflexivity | reflexivity].
Qed.

Lemma objs_le_stored s s' c : objs_le s s' -> stored c s = true -> stored c s' = true.
Proof.
  intros (M1&_) H. apply (memb_In cid_eqb cid_eqb_eq). apply M1. apply (memb_In cid_eqb cid_eqb_eq); auto.
Qed.
Lemma objs_le_table_present s s' t : objs_le s s' -> table_present t s = true -> table_present t s' = true.
Proof.
  intros (_&M2&_) H. apply (memb_In table_eqb table_eqb_eq). apply M2. apply (memb_In table_eqb table_eqb_eq); auto.
Qed.
Lemma objs_le_others_ok s s' others : objs_le s s' -> others_ok s others = true -> others_ok s' others = true.
Proof.
  unfold others_ok. rewrite !forallb_forall. intros Hle H c Hc. specialize (H c Hc).
  apply andb_true_iff in H. destruct H as [H1 H2]. apply andb_true_iff.
  split; [eapply objs_le_stored | eapply objs_le_table_present]; eauto.
Qed.

Section Rerun.
  Variable sk : skels.
  Variable dv : deriver.
  Hypothesis Hok : skels_ok sk = true.

  (* unpack the conjunction once *)
  Lemma skels_ok_parts :
    ingest_skel_ok (sk_ingest sk) = true /\ insert_block_skel_ok (sk_insert_block sk) = true /\
    recv_table_skel_ok (sk_recv_table sk) = true /\ index_table_skel_ok (sk_index_table sk) = true /\
    recv_commit_skel_ok (sk_recv_commit sk) = true /\ fetch_skel_ok (sk_fetch sk) = true /\
    prune_skel_ok (sk_prune sk) = true /\ prune_tables_skel_ok (sk_prune_tables sk) = true /\
    prune_commit_order_ok (sk_prune_commit_order sk) = true /\
    commit_skel_ok (sk_commit sk) = true /\ commit_with_table_skel_ok (sk_commit_with_table sk) = true /\
    merge_result_skel_ok (sk_merge_result sk) = true /\ create_merge_skel_ok (sk_create_merge sk) = true.
  Proof.
    pose proof Hok as H. unfold skels_ok, recv_skel_ok in H.
    repeat match goal with H : _ && _ = true |- _ => apply andb_true_iff in H; destruct H end.
    repeat split; assumption.
  Qed.

  Let Hingest := proj1 skels_ok_parts.
  Let Hblock := proj1 (proj2 skels_ok_parts).
  Let Hrtable := proj1 (proj2 (proj2 skels_ok_parts)).
  Let Hindex := proj1 (proj2 (proj2 (proj2 skels_ok_parts))).
  Let Hrcommit := proj1 (proj2 (proj2 (proj2 (proj2 skels_ok_parts)))).
  Let Hfetch := proj1 (proj2 (proj2 (proj2 (proj2 (proj2 skels_ok_parts))))).
  Let Hcommit := proj1 (proj2 (proj2 (proj2 (proj2 (proj2 (proj2 (proj2 (proj2 (proj2 skels_ok_parts))))))))).
  Let Hcwt := proj1 (proj2 (proj2 (proj2 (proj2 (proj2 (proj2 (proj2 (proj2 (proj2 (proj2 skels_ok_parts)))))))))).
  Let Hmerge := proj1 (proj2 (proj2 (proj2 (proj2 (proj2 (proj2 (proj2 (proj2 (proj2 (proj2 (proj2 skels_ok_parts))))))))))).
  Let Hcreate := proj2 (proj2 (proj2 (proj2 (proj2 (proj2 (proj2 (proj2 (proj2 (proj2 (proj2 (proj2 skels_ok_parts))))))))))).

  (** prefix consistency of every non-prune operation, from [skels_ok] *)
  Theorem nonprune_prefix_consistent sched s o n : valid_sched sched ->
    Inv s -> op_ok s o -> Inv (crash n (fst (op_writes sk dv sched s o)) s).
  Proof.
    intros Hv Hi Ho. apply op_prefix_consistent; auto.
  Qed.

  Lemma nonprune_final_inv sched s o : valid_sched sched -> Inv s -> op_ok s o -> Inv (run_op sk dv sched s o).
  Proof.
    intros Hv Hi Ho. unfold run_op.
    rewrite <- (crash_all _ s (length (fst (op_writes sk dv sched s o)))); auto.
    apply nonprune_prefix_consistent; auto.
  Qed.

  (** the operations whose write list is "object puts, then the branch ref": commit,
      commitWithTable, merge commit, merge no-ff.  [tail_op o] gives the ref and says the
      guards hold. *)
  Definition put_obj (w : write) : Prop := is_put w /\ is_obj w.

  Lemma tail_rerun s r c1 c2 objs1 objs2 n :
    let ws1 := objs1 ++ [SetRefLog r c1 true] in
    Forall is_obj objs1 -> (n < length ws1)%nat ->
    Forall is_obj objs2 -> shape_of c1 = shape_of c2 ->
    obs_eq (apply_all (objs2 ++ [SetRefLog r c2 true]) (crash n ws1 s)) (apply_all ws1 s).
  Proof.
    intros ws1 H1 Hn H2 Hs. subst ws1.
    destruct (crash_before_tail objs1 (SetRefLog r c1 true) n s H1 Hn) as (Er&_&_).
    eapply obs_eq_same_tail with (R := refs s); [| |symmetry; exact Hs].
    - rewrite refs_after_tail; auto. rewrite Er. reflexivity.
    - apply refs_after_tail; auto.
  Qed.

  Lemma crash_objs_le objs w n s : Forall is_put objs -> Forall is_obj objs -> (n < length (objs ++ [w]))%nat ->
    objs_le s (crash n (objs ++ [w]) s).
  Proof.
    intros Hp Ho Hn. destruct (crash_before_tail objs w n s Ho Hn) as (_&_&E). unfold crash. rewrite E.
    apply puts_mono. apply Forall_firstn; auto.
  Qed.

  (** commit: the re-run (new nonce = new time stamp, any worker interleaving) succeeds, ends
      in an invariant state and leaves the branch on a commit with the same table and the same
      history as the uninterrupted run.  The interrupted run's objects (blocks, indices,
      table, possibly its commit object) stay behind as unreferenced garbage. *)
  Theorem commit_rerun sched1 sched2 s r t n1 n2 n :
    valid_sched sched1 -> valid_sched sched2 -> Inv s ->
    let ws1 := fst (op_writes sk dv sched1 s (OCommit r t n1)) in
    (n < length ws1)%nat ->
    let cs := crash n ws1 s in
    snd (op_writes sk dv sched2 cs (OCommit r t n2)) = true /\
    Inv (run_op sk dv sched2 cs (OCommit r t n2)) /\
    obs_eq (run_op sk dv sched2 cs (OCommit r t n2)) (apply_all ws1 s).
  Proof.
    intros Hv1 Hv2 Hi ws1 Hn cs. split; [reflexivity|]. split.
    - apply nonprune_final_inv; auto; [|exact I]. apply nonprune_prefix_consistent; auto. exact I.
    - unfold run_op, cs, ws1 in *. cbn [op_writes fst] in *.
      rewrite (commit_writes_eq sk sched1 Hcommit) in *. rewrite (commit_writes_eq sk sched2 Hcommit).
      set (c1 := Cid t (opt_list (head_of r s)) n1) in *.
      set (O1 := ingest_writes sk sched1 t true ++ [PutCommit c1]).
      assert (E1 : ingest_writes sk sched1 t true ++ [PutCommit c1; SetRefLog r c1 true] = O1 ++ [SetRefLog r c1 true])
        by (unfold O1; rewrite <- app_assoc; reflexivity).
      rewrite E1 in *.
      assert (HO1 : Forall is_obj O1).
      { unfold O1. apply Forall_app; split; [apply ingest_is_obj; auto | repeat constructor]. }
      destruct (crash_before_tail O1 (SetRefLog r c1 true) n s HO1 Hn) as (Er&_&_).
      rewrite (head_of_refs_eq r _ s Er).
      set (c2 := Cid t (opt_list (head_of r s)) n2).
      replace (ingest_writes sk sched2 t true ++ [PutCommit c2; SetRefLog r c2 true])
        with ((ingest_writes sk sched2 t true ++ [PutCommit c2]) ++ [SetRefLog r c2 true])
        by (rewrite <- app_assoc; reflexivity).
      apply tail_rerun; auto.
      apply Forall_app; split; [apply ingest_is_obj; auto | repeat constructor].
  Qed.

  Theorem commit_table_rerun sched s r t n1 n2 n :
    Inv s -> In t (tables s) ->
    let ws1 := fst (op_writes sk dv sched s (OCommitTable r t n1)) in
    (n < length ws1)%nat ->
    let cs := crash n ws1 s in
    snd (op_writes sk dv sched cs (OCommitTable r t n2)) = true /\
    obs_eq (run_op sk dv sched cs (OCommitTable r t n2)) (apply_all ws1 s).
  Proof.
    intros Hi Ht ws1 Hn cs. split; [reflexivity|].
    unfold run_op, cs, ws1 in *. cbn [op_writes fst] in *.
    rewrite (commit_with_table_writes_eq sk Hcwt) in *. rewrite (commit_with_table_writes_eq sk Hcwt).
    set (c1 := Cid t (opt_list (head_of r s)) n1) in *.
    change [PutCommit c1; SetRefLog r c1 true] with ([PutCommit c1] ++ [SetRefLog r c1 true]) in *.
    assert (HO1 : Forall is_obj [PutCommit c1]) by repeat constructor.
    destruct (crash_before_tail [PutCommit c1] (SetRefLog r c1 true) n s HO1 Hn) as (Er&_&_).
    rewrite (head_of_refs_eq r _ s Er).
    set (c2 := Cid t (opt_list (head_of r s)) n2).
    change [PutCommit c2; SetRefLog r c2 true] with ([PutCommit c2] ++ [SetRefLog r c2 true]).
    apply tail_rerun; auto. repeat constructor.
  Qed.

  (** merge commit *)
  Theorem merge_commit_rerun sched1 sched2 s r others t n1 n2 n :
    valid_sched sched1 -> valid_sched sched2 -> Inv s ->
    (forall h, head_of r s = Some h -> diverged h others = true) ->
    snd (op_writes sk dv sched1 s (OMergeCommit r others t n1)) = true ->
    let ws1 := fst (op_writes sk dv sched1 s (OMergeCommit r others t n1)) in
    (n < length ws1)%nat ->
    let cs := crash n ws1 s in
    snd (op_writes sk dv sched2 cs (OMergeCommit r others t n2)) = true /\
    Inv (run_op sk dv sched2 cs (OMergeCommit r others t n2)) /\
    obs_eq (run_op sk dv sched2 cs (OMergeCommit r others t n2)) (apply_all ws1 s).
  Proof.
    intros Hv1 Hv2 Hi Hdiv Hok1 ws1 Hn cs.
    assert (Hinv_cs : Inv cs) by (apply nonprune_prefix_consistent; auto; exact I).
    unfold run_op, cs, ws1 in *. cbn [op_writes] in *. unfold merge_op_writes in *.
    destruct (head_of r s) as [h|] eqn:Eh; [|cbn in Hok1; discriminate].
    destruct (others_ok s others) eqn:Eo; [|cbn in Hok1; discriminate].
    rewrite (Hdiv h eq_refl) in *.
    cbn [fst snd] in *.
    rewrite (merge_commit_writes_eq sk sched1 Hmerge Hcreate) in *. cbn [c_table] in *.
    set (c1 := Cid t (h :: others) n1) in *.
    set (O1 := ingest_writes sk sched1 t false ++ [PutProf t] ++ [PutCommit c1]).
    assert (E1 : ingest_writes sk sched1 t false ++ [PutProf t] ++ [PutCommit c1; SetRefLog r c1 true]
                 = O1 ++ [SetRefLog r c1 true]).
    { unfold O1. rewrite <- !app_assoc. reflexivity. }
    rewrite E1 in *.
    assert (HO1 : Forall is_obj O1).
    { unfold O1. apply Forall_app; split; [apply ingest_is_obj; auto | repeat constructor]. }
    assert (HP1 : Forall is_put O1).
    { unfold O1. apply Forall_app; split; [apply ingest_is_put; auto | repeat constructor]. }
    destruct (crash_before_tail O1 (SetRefLog r c1 true) n s HO1 Hn) as (Er&_&_).
    pose proof (crash_objs_le O1 (SetRefLog r c1 true) n s HP1 HO1 Hn) as Hle.
    rewrite (head_of_refs_eq r _ s Er), Eh.
    rewrite (objs_le_others_ok _ _ _ Hle Eo), (Hdiv h eq_refl). cbn [fst snd].
    split; [reflexivity|]. split.
    - pose proof (nonprune_final_inv sched2 _ (OMergeCommit r others t n2) Hv2 Hinv_cs I) as F.
      unfold run_op in F. cbn [op_writes] in F. unfold merge_op_writes in F.
      rewrite (head_of_refs_eq r _ s Er), Eh, (objs_le_others_ok _ _ _ Hle Eo), (Hdiv h eq_refl) in F. exact F.
    - rewrite (merge_commit_writes_eq sk sched2 Hmerge Hcreate). cbn [c_table].
      set (c2 := Cid t (h :: others) n2).
      replace (ingest_writes sk sched2 t false ++ [PutProf t] ++ [PutCommit c2; SetRefLog r c2 true])
        with ((ingest_writes sk sched2 t false ++ [PutProf t] ++ [PutCommit c2]) ++ [SetRefLog r c2 true])
        by (rewrite <- !app_assoc; reflexivity).
      apply tail_rerun; auto.
      apply Forall_app; split; [apply ingest_is_obj; auto | repeat constructor].
  Qed.

  (** merge with ff=never (createMergeCommit over an existing table) *)
  Theorem merge_noff_rerun sched s r other n1 n2 n :
    Inv s ->
    snd (op_writes sk dv sched s (OMergeNoFF r other n1)) = true ->
    let ws1 := fst (op_writes sk dv sched s (OMergeNoFF r other n1)) in
    (n < length ws1)%nat ->
    let cs := crash n ws1 s in
    snd (op_writes sk dv sched cs (OMergeNoFF r other n2)) = true /\
    obs_eq (run_op sk dv sched cs (OMergeNoFF r other n2)) (apply_all ws1 s).
  Proof.
    intros Hi Hok1 ws1 Hn cs.
    unfold run_op, cs, ws1 in *. cbn [op_writes] in *.
    destruct (head_of r s) as [h|] eqn:Eh; [|cbn in Hok1; discriminate].
    destruct (others_ok s [other]) eqn:Eo; [|cbn in Hok1; discriminate].
    destruct (cid_eqb h other) eqn:Ec; [cbn in Hn; lia|].
    assert (Hgen : forall t, 
      let c1 := Cid t [h; other] n1 in
      (n < length (create_merge_writes sk r c1))%nat ->
      refs (crash n (create_merge_writes sk r c1) s) = refs s /\
      objs_le s (crash n (create_merge_writes sk r c1) s) /\
      forall c2, shape_of c1 = shape_of c2 ->
        obs_eq (apply_all (create_merge_writes sk r c2) (crash n (create_merge_writes sk r c1) s))
               (apply_all (create_merge_writes sk r c1) s)).
    { intros t c1 Hn'. rewrite !(create_merge_writes_eq sk Hcreate) in *.
      change [PutCommit c1; SetRefLog r c1 true] with ([PutCommit c1] ++ [SetRefLog r c1 true]) in *.
      assert (HO1 : Forall is_obj [PutCommit c1]) by repeat constructor.
      assert (HP1 : Forall is_put [PutCommit c1]) by repeat constructor.
      destruct (crash_before_tail [PutCommit c1] (SetRefLog r c1 true) n s HO1 Hn') as (Er&_&_).
      split; auto. split; [apply crash_objs_le; auto|].
      intros c2 Hs. rewrite (create_merge_writes_eq sk Hcreate).
      change [PutCommit c2; SetRefLog r c2 true] with ([PutCommit c2] ++ [SetRefLog r c2 true]).
      apply tail_rerun; auto. repeat constructor. }
    destruct (is_anc h other) eqn:Ea; cbn [fst snd] in *.
    - destruct (Hgen (c_table other) Hn) as (Er & Hle & Hobs).
      rewrite (head_of_refs_eq r _ s Er), Eh, (objs_le_others_ok _ _ _ Hle Eo), Ec, Ea. cbn [fst snd].
      split; [reflexivity|]. apply Hobs. reflexivity.
    - destruct (is_anc other h) eqn:Eb; cbn [fst snd] in *; [|discriminate].
      destruct (Hgen (c_table h) Hn) as (Er & Hle & Hobs).
      rewrite (head_of_refs_eq r _ s Er), Eh, (objs_le_others_ok _ _ _ Hle Eo), Ec, Ea, Eb. cbn [fst snd].
      split; [reflexivity|]. apply Hobs. reflexivity.
  Qed.

End Rerun.
