(** (g) slice.KeyIndices: translated body (gen/ExtractedCode.v) = [key_indices] of
    model/Ingest.v.  The Go map[int]struct{} is a set of integers in lib/GoLang.v. *)
From Coq Require Import List ZArith NArith Bool String Lia Arith.
From W.lib Require Import Tree Bytes GoLang.
From W.proofs Require Import GoLang_proofs.
From W.gen Require Import ExtractedCode.
From W.model Require Import Ingest.
Import ListNotations.
Local Open Scope Z_scope.

(** * the Go loops as list functions *)
Fixpoint scan_cols (k : bytes) (cols : list bytes) (i : nat) (seen res : list nat) (found : bool)
  : option (list nat * list nat * bool) :=
  match cols with
  | [] => Some (seen, res, found)
  | c :: cols' =>
      if beqb c k then
        if existsb (Nat.eqb i) seen then None
        else scan_cols k cols' (S i) (seen ++ [i]) (res ++ [i]) true
      else scan_cols k cols' (S i) seen res found
  end.

Fixpoint go_keys (cols names : list bytes) (seen res : list nat) : option (list nat) :=
  match names with
  | [] => Some res
  | k :: names' =>
      match scan_cols k cols O seen res false with
      | None => None
      | Some (seen', res', found) => if found then go_keys cols names' seen' res' else None
      end
  end.

(** * the list functions are the model *)
Lemma indices_of_ge k cols : forall i x, In x (indices_of k i cols) -> (i <= x)%nat.
Proof.
  induction cols as [|c cols IH]; intros i x H; cbn [indices_of] in H; [contradiction|].
  destruct (beqb c k).
  - destruct H as [<-|H]; [lia|]. apply IH in H. lia.
  - apply IH in H. lia.
Qed.

Definition hit (seen l : list nat) : bool := existsb (fun i => existsb (Nat.eqb i) seen) l.

Lemma hit_snoc seen i l : (forall x, In x l -> (S i <= x)%nat) -> hit (seen ++ [i]) l = hit seen l.
Proof.
  intros H. unfold hit. induction l as [|x l IH]; [reflexivity|]. cbn [existsb].
  rewrite IH by (intros y Hy; apply H; now right). f_equal.
  rewrite existsb_app. cbn [existsb]. rewrite orb_false_r.
  assert (S i <= x)%nat by (apply H; now left).
  replace (x =? i)%nat with false by (symmetry; apply Nat.eqb_neq; lia). apply orb_false_r.
Qed.

Lemma scan_cols_spec k cols : forall i seen res found,
  scan_cols k cols i seen res found
  = if hit seen (indices_of k i cols) then None
    else Some (seen ++ indices_of k i cols, res ++ indices_of k i cols,
               found || match indices_of k i cols with [] => false | _ => true end).
Proof.
  induction cols as [|c cols IH]; intros i seen res found; cbn [scan_cols indices_of].
  - cbn. now rewrite !app_nil_r, orb_false_r.
  - destruct (beqb c k).
    + unfold hit at 1. cbn [existsb]. fold (hit seen (indices_of k (S i) cols)).
      destruct (existsb (Nat.eqb i) seen); [reflexivity|]. cbn [orb].
      rewrite IH. rewrite hit_snoc by (intros x Hx; apply indices_of_ge in Hx; lia).
      destruct (hit seen (indices_of k (S i) cols)); [reflexivity|].
      rewrite <- !app_assoc. cbn [app]. now rewrite orb_true_r.
    + apply IH.
Qed.

Lemma hit_same seen seen' l :
  (forall x, existsb (Nat.eqb x) seen = existsb (Nat.eqb x) seen') -> hit seen l = hit seen' l.
Proof. intros H. unfold hit. induction l as [|x l IH]; [reflexivity|]. cbn [existsb]. now rewrite H, IH. Qed.

Lemma go_keys_spec cols names : forall seen seenM res,
  (forall x, existsb (Nat.eqb x) seen = existsb (Nat.eqb x) seenM) ->
  go_keys cols names seen res
  = match key_indices_loop cols names seenM with None => None | Some r => Some (res ++ r) end.
Proof.
  induction names as [|k names IH]; intros seen seenM res Hs; cbn [go_keys key_indices_loop].
  - now rewrite app_nil_r.
  - rewrite scan_cols_spec. fold (hit seenM (indices_of k 0 cols)).
    rewrite (hit_same seen seenM _ Hs).
    destruct (hit seenM (indices_of k 0 cols)); [reflexivity|]. cbn [orb].
    destruct (indices_of k 0 cols) as [|i l] eqn:El; [reflexivity|].
    rewrite (IH _ ((i :: l) ++ seenM)).
    + destruct (key_indices_loop cols names ((i :: l) ++ seenM)); [|reflexivity].
      now rewrite <- app_assoc.
    + intros x. rewrite !existsb_app, Hs. apply orb_comm.
Qed.

Lemma go_keys_key_indices cols names :
  go_keys cols names [] [] = key_indices cols names.
Proof.
  unfold key_indices. rewrite (go_keys_spec cols names [] [] []) by reflexivity.
  destruct (key_indices_loop cols names []); reflexivity.
Qed.

(** * the translated code computes the list functions *)
Lemma has_nat i (seen : list nat) :
  existsb (int_is (Z.of_nat i)) (map v_nat seen) = existsb (Nat.eqb i) seen.
Proof.
  induction seen as [|y seen IH]; [reflexivity|]. cbn [map existsb]. rewrite IH. f_equal.
  unfold v_nat, int_is. destruct (Z.eqb_spec (Z.of_nat y) (Z.of_nat i)), (Nat.eqb_spec i y); try reflexivity; lia.
Qed.

Definition enc_keys (r : option (list nat)) : fres :=
  match r with
  | Some l => FOk [v_nats l; VNil] []
  | None => FOk [VNil; VErr] []
  end.

Lemma map_v_nat_snoc l i : map v_nat l ++ [VInt (Z.of_nat i)] = map v_nat (l ++ [i]).
Proof. now rewrite map_app. Qed.

Lemma go_KeyIndices_code (cols names : list bytes) :
  Z.of_nat (length cols) < 2 ^ 32 ->
  exists fuel, run_func fuel go_prog go_KeyIndices [v_strs cols; v_strs names]
               = enc_keys (go_keys cols names [] []).
Proof.
  intros Hlen.
  start_func go_KeyIndices. unfold v_strs.
  stepsn.
  eapply (wp_items_inv _ _ _ _ _ _
            (fun n e => exists seen res vk vfound vi vc vok,
               e = [VList (map VStr cols); VList (map VStr names); VList (map v_nat res); VNil;
                    VList (map v_nat seen); vk; vfound; vi; vc; vok]
               /\ go_keys cols names [] [] = go_keys cols (skipn n names) seen res)).
  - exists [], [], VUnset, VUnset, VUnset, VUnset, VUnset. split; reflexivity.
  - intros n e x (seen & res & vk & vfound & vi & vc & vok & -> & HO) Hx.
    apply (nth_error_map_inv VStr names n x []) in Hx. destruct Hx as [Hn ->].
    set (k := nth n names []) in *.
    rewrite (skipn_nth_cons names n []) in HO by exact Hn. fold k in HO. cbn [go_keys] in HO.
    ev. stepsn.
    eapply (wp_items_inv _ _ _ _ _ _
              (fun i e => exists seen' res' found' vi vc vok,
                 e = [VList (map VStr cols); VList (map VStr names); VList (map v_nat res'); VNil;
                      VList (map v_nat seen'); VStr k; VBool found'; vi; vc; vok]
                 /\ scan_cols k cols O seen res false = scan_cols k (skipn i cols) i seen' res' found')).
    + exists seen, res, false, vi, vc, vok. split; reflexivity.
    + intros i e x (seen' & res' & found' & vi' & vc' & vok' & -> & HI) Hx.
      apply (nth_error_map_inv VStr cols i x []) in Hx. destruct Hx as [Hi ->].
      rewrite (skipn_nth_cons cols i []) in HI by exact Hi. cbn [scan_cols] in HI.
      ev. stepn. rewrite ?(beqb_sym k (nth i cols [])). split_if as Hck.
      * stepsn. rewrite has_nat. split_if as Hseen.
        { (* the column is already a key column: error *)
          stepsn. rewrite HO, HI. reflexivity. }
        stepsn. unwrap. rewrite !map_v_nat_snoc.
        eexists _, _, true, _, _, _. split; [reflexivity|exact HI].
      * stepsn. eexists _, _, _, _, _, _. split; [reflexivity|exact HI].
    + intros e (seen' & res' & found' & vi' & vc' & vok' & -> & HI).
      rewrite length_map_VStr, skipn_all in HI. cbn [scan_cols] in HI.
      rewrite HI in HO.
      stepn. destruct found'; cbn [negb].
      * stepsn. replace (Z.of_nat n + 1) with (Z.of_nat (S n)) by lia.
        eexists _, _, _, _, _, _, _. split; [reflexivity|exact HO].
      * stepsn. rewrite HO. reflexivity.
  - intros e (seen & res & vk & vfound & vi & vc & vok & -> & HO).
    rewrite length_map_VStr, skipn_all in HO. cbn [go_keys] in HO.
    stepsn. rewrite HO. reflexivity.
Qed.

Lemma go_KeyIndices_model (cols names : list bytes) :
  Z.of_nat (length cols) < 2 ^ 32 ->
  exists fuel, run_func fuel go_prog go_KeyIndices [v_strs cols; v_strs names]
               = enc_keys (key_indices cols names).
Proof. rewrite <- go_keys_key_indices. apply go_KeyIndices_code. Qed.
