(** C16 - the worker pool: the theorems (sequential result, no hang, error reporting,
    refutations of the unsynchronised / pre-fix variants). *)
From W.lib Require Import Tree.
From W.model Require Import Pool PoolSpec.
From W.proofs Require Import PoolBase_proofs Pool_proofs PoolData_proofs.
From Coq Require Import Arith Lia ZifyNat ZifyN ZifyBool String Sorting.Permutation.
Local Open Scope nat_scope.
Set Default Proof Using "All".

(* ---------------------------------------------------------------- skeleton -> cfg_ok *)
Lemma ecap_of_ok cap w : errchan_ok cap = true -> ecap_of cap w = w.
Proof. unfold ecap_of. now intros ->. Qed.

Lemma cfg_of_skeleton_ok acc post outer cap send w :
  lockset_ok acc = true -> post_ok post = true -> outer_ok outer = true ->
  errchan_ok cap = true -> send_ok send = true -> 1 <= w ->
  exists c, cfg_of_skeleton acc post outer cap send w = Some c /\ cfg_ok c /\ c_w c = w.
Proof.
  intros H1 H2 H3 H4 H5 Hw.
  destruct (lockset_ok_body acc H1) as (l & El & Hb).
  unfold cfg_of_skeleton. rewrite El, (post_ok_prog _ H2), (outer_ok_prog _ H3).
  eexists. split; [reflexivity|]. split; [|reflexivity].
  constructor; simpl; auto. rewrite ecap_of_ok; auto. lia.
Qed.

Section Thm.
  Variable c : cfg.
  Hypothesis Hok : cfg_ok c.
  Variable items : list pitem.

  Local Notation InvC := (InvC c).
  Local Notation InvD := (InvD items).

  Lemma run_inv sched : InvC (runs c sched (init c items)) /\ InvD (runs c sched (init c items)).
  Proof.
    destruct (run_reachable c items sched) as [tr E]. eapply Inv_execs; eauto.
  Qed.

  Lemma done_ph s : main_done s = true -> ph s = 0.
  Proof. unfold main_done, ph. destruct (mainpc s); [reflexivity|discriminate]. Qed.

  (** when the caller has returned, every goroutine has finished: all workers are done and
      the producer has closed its channel (nothing leaks, nothing is left blocked) *)
  Lemma done_all_finished s :
    InvC s -> main_done s = true ->
    closed s = true /\ pend s = [] /\ buf s = [] /\ wg s = 0 /\
    (forall k wk, nth_error (ws s) k = Some wk -> w_st wk = WDone).
  Proof.
    intros I Hd. apply done_ph in Hd.
    destruct (ic_drained c s I ltac:(lia)) as [Hc Hb].
    destruct (ic_prod c s I) as (Hp & _).
    assert (H0 : wg s = 0) by (apply (ic_wait c s I); lia).
    repeat split; auto. intros k wk Hk. eapply all_done_of_wg0; eauto.
  Qed.

  (** an error anywhere (a store write of some block fails, or a chunk read fails) is
      reported to the caller *)
  Lemma done_error_reported s :
    InvC s -> InvD s -> main_done s = true ->
    (exists b, In b (blocks_of items) /\ b_fail b <> FNone) \/ In PReadErr items ->
    result s = Some RErr.
  Proof.
    intros I D Hd Herr.
    destruct (done_all_finished s I Hd) as (Hc & Hp & Hb & H0 & Hall).
    apply done_ph in Hd.
    destruct (id_res items s D) as (R1 & R2 & R3 & R4).
    destruct (ebuf s) as [|e0 er] eqn:Ee; [|apply R1; [lia|congruence]].
    destruct (sbuf s) as [|s0 sr] eqn:Es; [|apply R2; [lia|congruence]].
    exfalso.
    assert (He : errored s = false).
    { unfold errored. rewrite Ee, Es. simpl. apply existsb_false_nth.
      intros j y Hj. unfold is_werr. now rewrite (Hall j y Hj). }
    destruct (id_data items s D He) as (D1 & D2 & D3 & D4).
    rewrite Hp, Hb in *. simpl in *.
    rewrite (flat_map_nil_all (fl FAb) (ws s)) in D1
      by (intros j y Hj; unfold fl; now rewrite (Hall j y Hj)).
    simpl in D1. rewrite app_nil_r in D1.
    destruct Herr as [(b & Hin & Hf)|Hin]; auto.
    apply Hf. apply (id_ab items s D). eapply Permutation_in; eauto.
  Qed.

  (* ---- no error without a failing input *)
  Hypothesis Hnofail : Forall (fun b => b_fail b = FNone) (blocks_of items).
  Hypothesis Hnoread : ~ In PReadErr items.

  Lemma fl_in_flat f k wk l b : nth_error l k = Some wk -> In b (fl f wk) -> In b (flat_map (fl f) l).
  Proof. intros Hk Hb. apply in_flat_map. exists wk. split; auto. eapply nth_error_In; eauto. Qed.

  Lemma noerr_step t s s' l :
    InvC s -> InvD s -> errored s = false -> step c t s = Some (s', l) -> errored s' = false.
  Proof.
    intros I D He H. unfold step in H. rewrite (ic_np c s I) in H.
    destruct (id_data items s D He) as (D1 & _).
    unfold errored in He. apply orb_false_iff in He as [He He3]. apply orb_false_iff in He as [He1 He2].
    destruct (ebuf s) as [|? ?] eqn:Ee; [|discriminate]. destruct (sbuf s) as [|? ?] eqn:Es; [|discriminate].
    destruct t as [|[|[|k]]].
    - (* main *)
      unfold step_main in H. destruct (mainpc s) as [|a pc] eqn:Em; [discriminate|].
      destruct a; simpl in H;
        try (destruct (wg s)); try (destruct (eclosed s)); try (destruct (sclosed s));
        try (destruct (buf s)); try (destruct (closed s)); try rewrite Ee in H; try rewrite Es in H;
        try discriminate; inversion H; subst; clear H; unfold errored; simpl; rewrite ?Ee, ?Es, ?He3; simpl; auto;
        (rewrite existsb_app, He3; simpl; apply existsb_false_nth; intros j y Hj;
         apply nth_error_repeat in Hj; now subst).
    - (* producer *)
      unfold step_prod in H. rewrite (ok_sel c Hok) in H. simpl in H.
      destruct (pend s) as [|[b|] p] eqn:Ep.
      + destruct (closed s); [discriminate|]. inversion H; subst; clear H.
        unfold errored; simpl. now rewrite Ee, Es, He3.
      + destruct (List.length (buf s) <? c_ccap c); [|discriminate]. inversion H; subst; clear H.
        unfold errored; simpl. now rewrite Ee, Es, He3.
      + exfalso. apply Hnoread. apply (id_pend items s D). rewrite Ep. now left.
    - unfold step_prod_cancel in H. destruct (pend s) as [|[b|] p]; try discriminate.
      destruct (c_select c && cancelled s); [|discriminate]. inversion H; subst; clear H.
      unfold errored; simpl. now rewrite Ee, Es, He3.
    - (* worker *)
      unfold step_worker in H.
      destruct (nth_error (ws s) k) as [wk|] eqn:Hk; [|discriminate].
      assert (Hwk : is_werr wk = false) by (eapply existsb_nth_false; eauto).
      assert (Hgen : forall s0 wk', ebuf s0 = ebuf s -> sbuf s0 = sbuf s -> ws s0 = ws s ->
                  is_werr wk' = false -> errored (set_worker s0 k wk') = false).
      { intros s0 wk' E1 E2 E3 E4. unfold errored; simpl. rewrite E1, E2, E3, Ee, Es. simpl.
        apply existsb_false_nth. intros j y Hj.
        destruct (Nat.eq_dec j k) as [->|Hne].
        - rewrite set_nth_same in Hj by (eapply nth_error_lt; eauto). now inversion Hj; subst.
        - rewrite set_nth_other in Hj by auto. eapply existsb_nth_false; eauto. }
      assert (Hcur : forall pc cur, w_st wk = WBody pc cur -> existsb (is_write FAb) pc = true ->
                  b_fail cur = FNone).
      { intros pc cur Est Hx. pose proof Hnofail as Hnf. rewrite Forall_forall in Hnf. apply Hnf.
        eapply Permutation_in; [apply Permutation_sym; exact D1|].
        apply in_or_app. right. apply in_or_app. left.
        eapply fl_in_flat; eauto. unfold fl. rewrite Est, Hx. now left. }
      pose proof (ic_wf c s I k wk Hk) as Hwf. unfold wf_w in Hwf.
      destruct wk as [stt trc tab]; simpl in *.
      destruct stt as [|pc cur|cur| |]; try discriminate.
      + destruct (buf s) as [|b r].
        * destruct (closed s); [|discriminate]. inversion H; subst; clear H. apply Hgen; auto.
        * inversion H; subst; clear H. apply Hgen; auto. unfold is_werr; simpl. destruct (c_body c); reflexivity.
      + destruct pc as [|a pc]; [discriminate|]. destruct Hwf as [Hsuf _].
        destruct (body_positions _ a pc (ok_body c Hok) Hsuf) as
          [(-> & f & g & Hfg & ->)|[(-> & f & g & Hfg & ->)|[(-> & f & g & Hfg & ->)|[(f & g & Hfg & -> & ->)|
           [(f & g & Hfg & -> & ->)|[(g & -> & ->)|[(g & -> & ->)|(-> & ->)]]]]]]]; unfold cs_acts in *.
        * rewrite (Hcur _ _ eq_refl) in H by (destruct f, g; try congruence; reflexivity).
          inversion H; subst; clear H. apply Hgen; auto.
        * rewrite (Hcur _ _ eq_refl) in H by (destruct f, g; try congruence; reflexivity).
          inversion H; subst; clear H. apply Hgen; auto.
        * destruct (mutex s); [discriminate|]. inversion H; subst; clear H. apply Hgen; auto.
        * destruct f; inversion H; subst; clear H; apply Hgen; auto.
        * destruct f; inversion H; subst; clear H; apply Hgen; auto.
        * destruct g; inversion H; subst; clear H; apply Hgen; auto.
        * destruct g; inversion H; subst; clear H; apply Hgen; auto.
        * destruct (mutex s); inversion H; subst; clear H; [apply Hgen; auto|].
          unfold errored; simpl. now rewrite Ee, Es, He3.
      + destruct (wg s); inversion H; subst; clear H.
        * unfold errored; simpl. now rewrite Ee, Es, He3.
        * apply Hgen; auto.
  Qed.

  Lemma noerr_execs tr s : execs c (init c items) tr s -> errored s = false.
  Proof.
    intros E.
    assert (P : (InvC s /\ InvD s) /\ errored s = false).
    { eapply (execs_inv c (fun s => (InvC s /\ InvD s) /\ errored s = false)); eauto.
      - intros t s1 s2 l [[I D] He] H. split; [split; [eapply InvC_step|eapply InvD_step]|eapply noerr_step]; eauto.
      - split; [split; [apply InvC_init; auto|apply InvD_init; auto]|reflexivity]. }
    apply P.
  Qed.

  (** no failing input: the caller gets the sequential result, whatever the schedule *)
  Lemma done_sequential sched :
    NoDup (map b_off (blocks_of items)) ->
    let s := runs c sched (init c items) in
    main_done s = true ->
    result s = Some (seq_result (blocks_of items)) /\
    Permutation (blocks_of items) (ab s) /\
    rc s = wrap32 (sum_rows (blocks_of items)) /\
    (forall b, In b (blocks_of items) -> In (OBlk (b_off b)) (store s) /\ In (OIdx (b_off b)) (store s)).
  Proof.
    intros Hnd s Hd.
    destruct (run_inv sched) as [I D]. fold s in I, D.
    assert (He : errored s = false).
    { destruct (run_reachable c items sched) as [tr E]. eapply noerr_execs; eauto. }
    destruct (done_all_finished s I Hd) as (Hc & Hp & Hb & H0 & Hall).
    apply done_ph in Hd.
    destruct (id_res items s D) as (R1 & R2 & R3 & R4).
    destruct (R3 ltac:(lia) He) as [Hr Hperm].
    destruct (id_data items s D He) as (D1 & D2 & _).
    split; [|split; [auto|split]].
    - rewrite Hr. unfold seq_result. f_equal. f_equal.
      symmetry. apply sort_blocks_unique; auto.
    - rewrite Hp, Hb in D2. simpl in D2.
      rewrite (flat_map_nil_all (fl FRc) (ws s)) in D2
        by (intros j y Hj; unfold fl; now rewrite (Hall j y Hj)).
      simpl in D2. rewrite !N.add_0_r in D2. rewrite (id_rc items s D). exact D2.
    - intros b Hin. apply (id_ab items s D). eapply Permutation_in; eauto.
  Qed.
End Thm.
