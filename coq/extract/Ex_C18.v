From Coq Require Import ExtrOcamlBasic.
From W.model Require Import DecRun.
Extraction Language OCaml.
Definition run := run_C18.
Extraction "ex_C18.ml" run.
