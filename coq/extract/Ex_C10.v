From Coq Require Import ExtrOcamlBasic.
From W.model Require Import RefUpdate.
Extraction Language OCaml.
Definition run := run_C10.
Extraction "ex_C10.ml" run.
