From Coq Require Import ExtrOcamlBasic.
From W.model Require Import DecRun.
Extraction Language OCaml.
Definition run := run_C17.
Extraction "ex_C17.ml" run.
