From Coq Require Import ExtrOcamlBasic.
From W.model Require Import Transfer.
Extraction Language OCaml.
Definition run := run_C07.
Extraction "ex_C07.ml" run.
