From Coq Require Import ExtrOcamlBasic.
From W.model Require Import HashSet.
Extraction Language OCaml.
Definition run := run_C20.
Extraction "ex_C20.ml" run.
