From Coq Require Import ExtrOcamlBasic.
From W.model Require Import Diff.
Extraction Language OCaml.
Definition run := run_C04.
Extraction "ex_C04.ml" run.
