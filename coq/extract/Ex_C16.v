From Coq Require Import ExtrOcamlBasic.
From W.model Require Import PoolRun.
Extraction Language OCaml.
Definition run := run_C16.
Extraction "ex_C16.ml" run.
