From Coq Require Import ExtrOcamlBasic.
From W.model Require Import RefSql.
From W.gen Require Extracted.
Extraction Language OCaml.
(* the model of the code as the translator currently reads it (LIKE / INSTR) *)
Definition current_kind : filter_kind := Eval vm_compute in filter_kind_of_string Extracted.filter_kind.
Definition run := run_C15_kind current_kind.
Extraction "ex_C15.ml" run.
