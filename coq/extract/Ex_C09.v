From Coq Require Import ExtrOcamlBasic.
From W.model Require Import Session.
Extraction Language OCaml.
Definition run := run_C09.
Extraction "ex_C09.ml" run.
