From Coq Require Import ExtrOcamlBasic.
From W.model Require Import Ingest.
Extraction Language OCaml.
Definition run := run_C03.
Extraction "ex_C03.ml" run.
