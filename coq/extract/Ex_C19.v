From Coq Require Import ExtrOcamlBasic.
From W.model Require Import Sorter.
Extraction Language OCaml.
Definition run := run_C19.
Extraction "ex_C19.ml" run.
