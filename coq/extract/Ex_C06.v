From Coq Require Import ExtrOcamlBasic.
From W.model Require Import CodecRun.
Extraction Language OCaml.
Definition run := run_C06.
Extraction "ex_C06.ml" run.
