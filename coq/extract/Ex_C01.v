From Coq Require Import ExtrOcamlBasic.
From W.model Require Import Ingest.
Extraction Language OCaml.
Definition run := run_C01.
Extraction "ex_C01.ml" run.
