From Coq Require Import ExtrOcamlBasic.
From W.model Require Import ClosedSets.
Extraction Language OCaml.
Definition run := run_C08.
Extraction "ex_C08.ml" run.
