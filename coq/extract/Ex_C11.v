From Coq Require Import ExtrOcamlBasic.
From W.model Require Import Ancestor.
Extraction Language OCaml.
Definition run := run_C11.
Extraction "ex_C11.ml" run.
