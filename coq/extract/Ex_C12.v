From Coq Require Import ExtrOcamlBasic.
From W.model Require Import Prune.
Extraction Language OCaml.
Definition run := run_C12.
Extraction "ex_C12.ml" run.
