From Coq Require Import ExtrOcamlBasic.
From W.model Require Import Merge.
Extraction Language OCaml.
Definition run := run_C05.
Extraction "ex_C05.ml" run.
