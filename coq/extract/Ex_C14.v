From Coq Require Import ExtrOcamlBasic.
From W.model Require Import Txn.
Extraction Language OCaml.
Definition run := run_C14.
Extraction "ex_C14.ml" run.
