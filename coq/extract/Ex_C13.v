From Coq Require Import ExtrOcamlBasic.
From W.model Require Import Crash.
From W.gen Require Import Extracted.
Extraction Language OCaml.
(* the write order of the model follows the skeletons regenerated from the Go source (all
   thirteen, incl. cmd/wrgl commit / commitWithTable / commitMergeResult / createMergeCommit);
   they are turned into number codes here, inside Coq, so that no Coq string reaches the OCaml
   code *)
Definition sk_ex : skels := Eval vm_compute in
  mk_skels skel_ingest skel_insert_block skel_recv_table skel_index_table skel_recv_commit
           skel_fetch skel_prune skel_prune_tables prune_commit_order
           skel_cmd_commit skel_cmd_commit_with_table skel_cmd_merge_result skel_cmd_create_merge.
Definition run := run_C13_sk sk_ex.
Extraction "ex_C13.ml" run.
