From Coq Require Import ExtrOcamlBasic.
From W.model Require Import Ingest.
Extraction Language OCaml.
Definition run := run_C02.
Extraction "ex_C02.ml" run.
