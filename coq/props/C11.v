(** C11 - ancestry queries and merge-base selection agree with the commit graph.
    Only statements, each closed by [exact] of a lemma from proofs/.

    Property clauses and what is established on the CURRENT code (model/Graph.v,
    Queue.v, Ancestor.v = pkg/ref/commits_queue.go, pkg/ref/utils.go):

    (a) "A is an ancestor of B" is answered true exactly when A is reachable from B
        (or A = B), whatever the timestamps say           PROVED  [C11_is_ancestor_correct]
    (b) a history walk visits every ancestor exactly once  PROVED  [C11_walk]
    (c) the merge base is an ancestor-or-self of every input
          2 inputs                                         PROVED  [C11_base2_common], [C11_base2_correct]
          3 and 4 inputs                                   FALSE   [C11_base3_common_refuted],
                                                                   [C11_base4_common_refuted],
                                                                   witnesses [C11_base3_unrelated_witness],
                                                                   [C11_base3_wrong_witness], [C11_base4_wrong_witness]
          any number: ancestor-or-self of at least one input  PROVED [C11_base_found]
    (d) it is one of the inputs whenever that input is an ancestor of all the others
          any number of inputs                             PROVED  [C11_base_is_input], [C11_base_input_unique]
    (e) it is found whenever a common ancestor exists and reported missing only when
        none does
          any number of inputs                             PROVED  [C11_base_found]
          (for >= 3 inputs the commit that is found need not be common: clause (c))

    Queue operations used by negotiation (C08 finder, C09 client session):
    (f) PopUntil b returns b exactly when b is reachable and not yet popped, having popped a
        prefix of the walk that ends at b; otherwise EOF with everything reachable popped
                                                           PROVED  [C11_pop_until], [C11_queue_inv_init]
    (g) RemoveAncestors(sums) leaves exactly the queue elements, in order, that are not
        ancestors-or-self of a commit in sums (the shared, progressively consumed q2 loses
        nothing: what it has popped stays in its seen set)
                                                           PROVED  [C11_remove_ancestors]
        (validated first on the Go code: all DAGs <= 5 x 4 regimes x all root subsets x
         0..3 pops x all sums subsets = 9.7M calls, no counterexample)

    The merge command (cmd/wrgl/merge_cmd.go runMerge) selects its base by ONE SeekCommonAncestor
    call over all heads ([merge_base]); (d) and (e) therefore hold for the command for any number
    of heads [C11_merge_base_found], [C11_merge_base_is_input].  Folding the two-input search over
    the heads instead is NOT equivalent for >= 3 heads [C11_fold_not_all_at_once_refuted],
    [C11_fold_witness]; for two heads it is [C11_fold2_same].

    "Whatever the commit timestamps say": the positive theorems quantify over EVERY
    placement function [ins] used by Insert and every initial ordering [srt] used by
    Reset that return permutations; [C11_go_placement] shows that the time-ordered
    placement of the Go code (literal sort.Search predicate) is one of them, for every
    assignment of commit times.  The refutations are about that Go instance ([t_seek]).
    No bound on the size of the graph; graphs need not be acyclic for (a), (b), (d), (e).
    Hypothesis [complete g roots]: every commit reachable from the roots is present in
    the store (a missing commit makes the Go code return the GetCommit error). *)
From W.lib Require Import Tree.
From W.model Require Import Graph Queue Ancestor.
From W.proofs Require Import Graph_proofs Queue_proofs Ancestor_proofs.
From Coq Require Import Permutation.
Local Open Scope N_scope.

(** (b) NewCommitsQueue(roots) followed by PopInsertParents until EOF never fails, and the
    popped commits are duplicate free and are exactly the commits reachable from the roots. *)
Theorem C11_walk : forall (g : graph) ins srt,
  (forall c q, Permutation (ins c q) (c :: q)) -> (forall l, Permutation (srt l) l) ->
  forall roots : list id, complete g roots ->
  exists l, walk g ins srt roots = (0%nat, l) /\ NoDup l /\ forall x, In x l <-> reach g roots x.
Proof. exact Queue_proofs.walk_spec. Qed.
Print Assumptions C11_walk.

(** (a) IsAncestorOf(a, b) returns no error and answers true exactly when a is reachable from b. *)
Theorem C11_is_ancestor_correct : forall (g : graph) ins srt,
  (forall c q, Permutation (ins c q) (c :: q)) -> (forall l, Permutation (srt l) l) ->
  forall a b, complete g [b] ->
  exists r, is_ancestor_of g ins srt a b = Ok r /\ (r = true <-> reach g [b] a).
Proof. exact Ancestor_proofs.is_ancestor_spec. Qed.
Print Assumptions C11_is_ancestor_correct.

(** (d) any number of inputs: if some input is an ancestor-or-self of all the others, such an
    input is what SeekCommonAncestor returns. *)
Theorem C11_base_is_input : forall (g : graph) ins srt,
  (forall c q, Permutation (ins c q) (c :: q)) -> (forall l, Permutation (srt l) l) ->
  forall cs i c, (1 < length cs)%nat -> (forall c, In c cs -> complete g [c]) ->
  base_input g cs i c ->
  exists i' c', seek_common_ancestor g ins srt cs = SFound c' /\ base_input g cs i' c'.
Proof. exact Ancestor_proofs.seek_is_input. Qed.
Print Assumptions C11_base_is_input.

(** (d) in an acyclic history that input is unique as a commit. *)
Theorem C11_base_input_unique : forall g cs i c i' c',
  acyclic g -> base_input g cs i c -> base_input g cs i' c' -> c = c'.
Proof. exact Ancestor_proofs.base_input_unique. Qed.
Print Assumptions C11_base_input_unique.

(** (c) two inputs: a returned base is an ancestor-or-self of both. *)
Theorem C11_base2_common : forall (g : graph) ins srt,
  (forall c q, Permutation (ins c q) (c :: q)) -> (forall l, Permutation (srt l) l) ->
  forall a b x, complete g [a] -> complete g [b] ->
  seek_common_ancestor g ins srt [a; b] = SFound x -> reach g [a] x /\ reach g [b] x.
Proof. exact Ancestor_proofs.seek2_common. Qed.
Print Assumptions C11_base2_common.

(** (e) + totality, any number >= 1 of inputs: the outcome is either a commit (never an
    error, never (nil, nil)) that is an ancestor-or-self of at least one input, or "not
    found", and "not found" only when the inputs have no common ancestor.  Hence a base is
    found whenever a common ancestor exists. *)
Theorem C11_base_found : forall (g : graph) ins srt,
  (forall c q, Permutation (ins c q) (c :: q)) -> (forall l, Permutation (srt l) l) ->
  forall cs, cs <> [] -> (forall c, In c cs -> complete g [c]) ->
  (exists x c, seek_common_ancestor g ins srt cs = SFound x /\ In c cs /\ reach g [c] x) \/
  (seek_common_ancestor g ins srt cs = SNotFound /\ forall z, ~ common_ancestor g cs z).
Proof. exact Ancestor_proofs.seek_total. Qed.
Print Assumptions C11_base_found.

(** (c)+(e) two inputs, complete statement: a common ancestor is returned when one exists,
    "not found" exactly when none does. *)
Theorem C11_base2_correct : forall (g : graph) ins srt,
  (forall c q, Permutation (ins c q) (c :: q)) -> (forall l, Permutation (srt l) l) ->
  forall a b, complete g [a] -> complete g [b] ->
  (exists x, seek_common_ancestor g ins srt [a; b] = SFound x /\ common_ancestor g [a; b] x) \/
  (seek_common_ancestor g ins srt [a; b] = SNotFound /\ forall z, ~ common_ancestor g [a; b] z).
Proof. exact Ancestor_proofs.seek2_correct. Qed.
Print Assumptions C11_base2_correct.

(** (f) queue states: [q_inv g roots q] (proofs/Queue_proofs.v) is the worklist invariant of a
    queue walking the history below [roots]: items and seen duplicate free, items included in
    seen, every seen commit present and reachable from the roots, the roots seen, and the
    parents of every popped commit (popped = seen and no longer queued, [popped_of]) seen.
    NewCommitsQueue establishes it with nothing popped; PopUntil (below) and
    PopInsertParents ([Queue_proofs.pop_step]) preserve it. *)
Theorem C11_queue_inv_init : forall (g : graph) srt,
  (forall l, Permutation (srt l) l) ->
  forall roots q, new_queue g srt roots = Ok q ->
  q_inv g roots q /\ q_meas g q = length g /\
  (forall x, In x (q_seen q) <-> In x roots) /\ (forall x, ~ popped_of q x).
Proof. exact Queue_proofs.new_queue_inv. Qed.
Print Assumptions C11_queue_inv_init.

(** (f) PopUntil b from any such queue state, for any placement.  Let l be the walk continued
    from that state (PopInsertParents until EOF): l is duplicate free and consists of the
    reachable commits not yet popped.  Then either b occurs in l = l1 ++ b :: l2 (i.e. b is
    reachable and not yet popped): PopUntil returns b, has popped exactly l1 ++ [b], and the
    walk continued afterwards is l2; or b does not occur: PopUntil returns EOF, has popped all
    of l and left the queue empty.  No error either way. *)
Theorem C11_pop_until : forall (g : graph) ins,
  (forall c q, Permutation (ins c q) (c :: q)) ->
  forall roots q b, q_inv g roots q -> complete g roots ->
  exists l, walk_loop g ins (walk_fuel g) q [] = (0%nat, l) /\ NoDup l /\
    (forall x, In x l <-> reach g roots x /\ ~ popped_of q x) /\
    ((exists l1 l2 q', l = l1 ++ b :: l2 /\ ~ In b l1 /\
        pop_until g ins (walk_fuel g) q b = Ok (Some b, q', l1 ++ [b]) /\ q_inv g roots q' /\
        (forall y, popped_of q' y <-> popped_of q y \/ In y (l1 ++ [b])) /\
        (forall fuel', (q_meas g q' < fuel')%nat -> walk_loop g ins fuel' q' [] = (0%nat, l2))) \/
     (~ In b l /\ exists q', pop_until g ins (walk_fuel g) q b = Ok (None, q', l) /\
        q_items q' = [] /\ q_inv g roots q' /\
        (forall y, popped_of q' y <-> popped_of q y \/ In y l))).
Proof. exact Queue_proofs.pop_until_spec. Qed.
Print Assumptions C11_pop_until.

(** (g) RemoveAncestors(sums) on ANY queue q (no invariant needed on q), for any placement and
    ordering used by the internal queue q2: no error when the history below sums is complete;
    the remaining items are the original items, order preserved, that are not ancestors-or-self
    of a commit in sums; the seen set of q is unchanged. *)
Theorem C11_remove_ancestors : forall (g : graph) ins srt,
  (forall c q, Permutation (ins c q) (c :: q)) -> (forall l, Permutation (srt l) l) ->
  forall sums q, complete g sums ->
  exists q', remove_ancestors g ins srt q sums = Ok q' /\
    q_items q' = filter (fun x => negb (reachb g sums x)) (q_items q) /\
    q_seen q' = q_seen q /\
    (forall x, In x (q_items q') <-> In x (q_items q) /\ ~ reach g sums x).
Proof. exact Queue_proofs.remove_ancestors_spec. Qed.
Print Assumptions C11_remove_ancestors.

(** non-vacuity for (f), (g) on P <- A <- M, B = merge(M, P) *)
Theorem C11_queue_nonvacuous :
  exists q, t_new_queue ex_ff [3] = Ok q /\
    t_pop_until ex_ff q 1 = Ok (Some 1, mk_cq [0] [1; 0; 2; 3], [3; 2; 1]) /\
    t_pop_until ex_ff q 7 = Ok (None, mk_cq [] [1; 0; 2; 3], [3; 2; 1; 0]) /\
    t_remove_ancestors ex_ff (mk_cq [3; 2; 1] [1; 2; 3]) [2] = Ok (mk_cq [3] [1; 2; 3]).
Proof. exact Ancestor_proofs.ex_queue_facts. Qed.
Print Assumptions C11_queue_nonvacuous.

(** the merge command: base = one search over all heads, so (e) and (d) hold for it with any
    number of heads (for >= 3 heads a found base need not be common: clause (c) above) *)
Theorem C11_merge_base_found : forall (g : graph) ins srt,
  (forall c q, Permutation (ins c q) (c :: q)) -> (forall l, Permutation (srt l) l) ->
  forall heads, heads <> [] -> (forall c, In c heads -> complete g [c]) ->
  (exists x c, merge_base g ins srt heads = SFound x /\ In c heads /\ reach g [c] x) \/
  (merge_base g ins srt heads = SNotFound /\ forall z, ~ common_ancestor g heads z).
Proof. exact Ancestor_proofs.seek_total. Qed.
Print Assumptions C11_merge_base_found.

Theorem C11_merge_base_is_input : forall (g : graph) ins srt,
  (forall c q, Permutation (ins c q) (c :: q)) -> (forall l, Permutation (srt l) l) ->
  forall heads i c, (1 < length heads)%nat -> (forall c, In c heads -> complete g [c]) ->
  base_input g heads i c ->
  exists i' c', merge_base g ins srt heads = SFound c' /\ base_input g heads i' c'.
Proof. exact Ancestor_proofs.seek_is_input. Qed.
Print Assumptions C11_merge_base_is_input.

(** a pairwise left fold of the two-input search is not the command's base selection: on the
    criss-cross history Y = 0, X = 1 (independent roots, X newer), C1 = 2 = merge(X, Y),
    C2 = 3 = merge(Y, X), C3 = 4 = child of Y, the fold settles on X for (C1, C2) and then
    finds nothing, while the all-at-once search returns the common ancestor Y - also when Y
    itself is the third head (an input that is an ancestor of all the others). *)
Theorem C11_fold_witness :
  closed wit_cc /\ acyclic wit_cc /\ complete wit_cc [2; 3; 4] /\
  common_ancestor wit_cc [2; 3; 4] 0 /\
  t_merge_base wit_cc [2; 3; 4] = SFound 0 /\ t_seek_fold wit_cc [2; 3; 4] = SNotFound /\
  base_input wit_cc [2; 3; 0] 2 0 /\
  t_merge_base wit_cc [2; 3; 0] = SFound 0 /\ t_seek_fold wit_cc [2; 3; 0] = SNotFound.
Proof. exact Ancestor_proofs.fold_witness. Qed.
Print Assumptions C11_fold_witness.

Theorem C11_fold_not_all_at_once_refuted :
  ~ (forall g cs, closed g -> acyclic g -> complete g cs -> t_seek_fold g cs = t_merge_base g cs).
Proof. exact Ancestor_proofs.fold_not_all_at_once_refuted. Qed.
Print Assumptions C11_fold_not_all_at_once_refuted.

Theorem C11_fold2_same : forall g ins srt a b,
  seek_fold g ins srt [a; b] = merge_base g ins srt [a; b].
Proof. exact Ancestor_proofs.fold2_same. Qed.
Print Assumptions C11_fold2_same.

(** the time-ordered placement (sort.Search on commit times) and newest-first ordering of
    the Go code are permutations for every assignment of times: the theorems above apply to
    [t_walk], [t_is_ancestor_of], [t_seek] *)
Theorem C11_go_placement : forall g : graph,
  (forall c q, Permutation (ins_time g c q) (c :: q)) /\ (forall l, Permutation (srt_time g l) l).
Proof. exact (fun g => conj (Queue_proofs.ins_time_perm g) (Queue_proofs.srt_time_perm g)). Qed.
Print Assumptions C11_go_placement.

(** (c) full strength for >= 3 inputs would read
      forall g a b c x, closed g -> acyclic g -> complete g [a; b; c] ->
        t_seek g [a; b; c] = SFound x -> common_ancestor g [a; b; c] x
    and is FALSE on the current code: *)
Theorem C11_base3_common_refuted :
  ~ (forall g a b c x, closed g -> acyclic g -> complete g [a; b; c] ->
       t_seek g [a; b; c] = SFound x -> common_ancestor g [a; b; c] x).
Proof. exact Ancestor_proofs.seek3_common_refuted. Qed.
Print Assumptions C11_base3_common_refuted.

Theorem C11_base4_common_refuted :
  ~ (forall g a b c d x, closed g -> acyclic g -> complete g [a; b; c; d] ->
       t_seek g [a; b; c; d] = SFound x -> common_ancestor g [a; b; c; d] x).
Proof. exact Ancestor_proofs.seek4_common_refuted. Qed.
Print Assumptions C11_base4_common_refuted.

(** witnesses (topological timestamps).  4 commits: unrelated roots 0 and 1, 2 = merge(1, 0),
    3 = child of 2: SeekCommonAncestor(0, 1, 3) = 0 although no common ancestor exists. *)
Theorem C11_base3_unrelated_witness :
  closed wit_g4 /\ acyclic wit_g4 /\ complete wit_g4 [0; 1; 3] /\
  (forall z, ~ common_ancestor wit_g4 [0; 1; 3] z) /\
  t_seek wit_g4 [0; 1; 3] = SFound 0.
Proof. exact Ancestor_proofs.seek3_unrelated_witness. Qed.
Print Assumptions C11_base3_unrelated_witness.

(** 5 commits, no merge commit: 0 <- 1 <- 3 <- 4, 0 <- 2: SeekCommonAncestor(2, 1, 4) = 1,
    which is not an ancestor of 2, although 0 is a common ancestor. *)
Theorem C11_base3_wrong_witness :
  closed wit_g5 /\ acyclic wit_g5 /\ complete wit_g5 [2; 1; 4] /\
  common_ancestor wit_g5 [2; 1; 4] 0 /\
  t_seek wit_g5 [2; 1; 4] = SFound 1 /\ ~ reach wit_g5 [2] 1.
Proof. exact Ancestor_proofs.seek3_wrong_witness. Qed.
Print Assumptions C11_base3_wrong_witness.

(** 6 commits, four distinct inputs: SeekCommonAncestor(5, 2, 1, 4) = 1 although only 0 is common. *)
Theorem C11_base4_wrong_witness :
  closed wit_g6 /\ acyclic wit_g6 /\ complete wit_g6 [5; 2; 1; 4] /\
  common_ancestor wit_g6 [5; 2; 1; 4] 0 /\
  t_seek wit_g6 [5; 2; 1; 4] = SFound 1 /\ ~ reach wit_g6 [5] 1.
Proof. exact Ancestor_proofs.seek4_wrong_witness. Qed.
Print Assumptions C11_base4_wrong_witness.

(** non-vacuity: P <- A <- M, B = merge(M, P) (the witness of the repaired defect) meets the
    hypotheses; A is returned for (A, B) and (B, A); ancestry answers and the walk are as expected. *)
Theorem C11_nonvacuous :
  closed ex_ff /\ complete ex_ff [1; 3] /\ base_input ex_ff [1; 3] 0 1 /\
  t_seek ex_ff [1; 3] = SFound 1 /\ t_seek ex_ff [3; 1] = SFound 1 /\
  t_is_ancestor_of ex_ff 1 3 = Ok true /\ t_is_ancestor_of ex_ff 3 1 = Ok false /\
  t_walk ex_ff [3] = (0%nat, [3; 2; 1; 0]).
Proof. exact Ancestor_proofs.ex_ff_facts. Qed.
Print Assumptions C11_nonvacuous.

(** executable reachability used in the statements above is exact (shared with C08/C12) *)
Theorem C11_reach_list_exact : forall g roots,
  NoDup (reach_list g roots) /\ forall x, In x (reach_list g roots) <-> reach g roots x.
Proof. exact Graph_proofs.reach_list_spec. Qed.
Print Assumptions C11_reach_list_exact.
