(** C10 - without force, a ref only ever moves forward along its own history.
    Only statements, each closed by [exact] of a lemma from proofs/RefUpdate_proofs.v.

    The ancestry test [ia] (ref.IsAncestorOf) and the merge base [sk] (ref.SeekCommonAncestor) are
    parameters; their soundness is a named premise:
      IsAncSound g ia   = C11_is_ancestor_correct (soundness half)
      SeekSound  g sk   = C11_base_common / C11_base_is_input, as far as runMerge uses the base
    and both are proved for the executable instances used by run_C10 (last section). *)
From Coq Require Import List NArith Bool.
From W.lib Require Import Tree Bytes.
From W.model Require Import RefUpdate.
From W.proofs Require Import RefUpdate_proofs.
Import ListNotations.
Local Open Scope N_scope.

(** In every history of fetch / push / merge / pull operations over any commit graph, every ref write
    old -> new satisfies: not forced => old is an ancestor-or-self of new; an existing tag gets a
    different value only with force.  (Creations and deletions are not moves.) *)
Theorem C10_forward_only : forall g ia sk,
  IsAncSound g ia -> SeekSound g sk ->
  forall st ops, Forall (trans_ok g) (snd (run_ops g ia sk st ops)).
Proof. exact forward_only_history. Qed.
Print Assumptions C10_forward_only.

(** the same for the executable model: no premise left *)
Theorem C10_forward_only_model : forall g st ops,
  Forall (trans_ok g) (snd (run_ops g (is_ancestor g) (seek_spec g) st ops)).
Proof. exact forward_only_instance. Qed.
Print Assumptions C10_forward_only_model.

(** BEFORE fix 43d74b6 (model variant [pull_step_prefix]) the statement was false:
    `wrgl pull b origin 'refs/heads/*:refs/heads/*' refs/heads/x:refs/remotes/origin/x` with no local
    branch b: the fetch half creates heads/b, then pull's branch creation overwrites it, unforced, with the
    unrelated heads/x (corpus/C10/pull-new-branch-glob.case is the regression case). *)
Theorem C10_forward_only_prefix_refuted :
  exists g st b specs gf mode m,
    ~ Forall (trans_ok g) (r_trace (pull_step_prefix g (is_ancestor g) (seek_spec g) st b specs gf mode m)).
Proof. exact pull_new_branch_refuted. Qed.
Print Assumptions C10_forward_only_prefix_refuted.

(** ... and held only under the guard "the fetch half does not create the pulled branch" *)
Theorem C10_forward_only_prefix_partial : forall g ia sk,
  IsAncSound g ia -> SeekSound g sk ->
  forall st branch specs gf mode m,
  pull_guard g ia st branch specs gf ->
  res_ok g st (pull_step_prefix g ia sk st branch specs gf mode m).
Proof. exact pull_prefix_guarded. Qed.
Print Assumptions C10_forward_only_prefix_partial.

(** each single operation only makes legal moves, logs them, and keeps both log stores faithful *)
Theorem C10_fetch_ok : forall g ia st specs gforce, IsAncSound g ia ->
  res_ok g st (fetch_step g ia st specs gforce).
Proof. intros g ia st specs gforce H. exact (fetch_step_ok g ia H st specs gforce). Qed.
Print Assumptions C10_fetch_ok.

Theorem C10_push_ok : forall g ia st items gf dn dd, IsAncSound g ia ->
  res_ok g st (push_step g ia st items gf dn dd).
Proof. intros g ia st items gf dn dd H. exact (push_step_ok g ia H st items gf dn dd). Qed.
Print Assumptions C10_push_ok.

Theorem C10_merge_ok : forall g sk st branch others mode m, SeekSound g sk ->
  res_ok g st (merge_step g sk st branch others mode m).
Proof. intros g sk st branch others mode m H. exact (merge_step_ok g sk H st branch others mode m). Qed.
Print Assumptions C10_merge_ok.

Theorem C10_pull_ok : forall g ia sk st branch specs gf mode m, IsAncSound g ia -> SeekSound g sk ->
  res_ok g st (pull_step g ia sk st branch specs gf mode m).
Proof. intros g ia sk st branch specs gf mode m H1 H2. exact (pull_step_ok g ia sk H1 H2 st branch specs gf mode m). Qed.
Print Assumptions C10_pull_ok.

(** a successful first pull of a branch creates it - also when the branch NAME resolves to something else that is
    already there (e.g. the remote-tracking ref left by an earlier fetch or by a pull interrupted before its last
    write): the branch is absent before and after the fetch half, exactly one refspec destination holds a commit;
    then heads/BRANCH holds that commit, logged as created by the pull *)
Theorem C10_pull_creates_branch : forall g ia sk st branch specs gf mode m hn hc c,
  let rf := fetch_step g ia st specs gf in
  r_outcome rf = 0 ->
  rget (lrefs st) (s_heads ++ branch) = None ->
  rget (lrefs (r_state rf)) (s_heads ++ branch) = None ->
  new_branch_heads (lrefs (r_state rf)) specs = [(hn, hc)] ->
  resolve_commitish (lrefs (r_state rf)) hn = Some c ->
  let r := pull_step g ia sk st branch specs gf mode m in
  r_outcome r = 0 /\
  rget (lrefs (r_state r)) (s_heads ++ branch) = Some c /\
  rlogs (lrefs (r_state r)) (s_heads ++ branch) = [mk_log None c ACT_PULL].
Proof. exact pull_creates_branch. Qed.
Print Assumptions C10_pull_creates_branch.

(** a rejected (or up-to-date) update leaves the whole ref store as it was *)
Theorem C10_rejected_unchanged : forall ia gforce s tr nrej it,
  updates (fetch_decision (kind_of (fi_dst it)) (is_some (rget s (fi_dst it)))
             (opt_ceqb (rget s (fi_dst it)) (fi_new it))
             (match rget s (fi_dst it) with Some o => ia o (fi_new it) | None => false end)
             (fi_force it) gforce) = false ->
  fst (fst (fetch_item ia gforce (s, tr, nrej) it)) = s.
Proof. exact fetch_item_reject. Qed.
Print Assumptions C10_rejected_unchanged.

(** frame lemma over the per-ref loop of saveFetchedRefs: the final value and log of a ref are a function of
    its own initial value/log and of the items addressed to it only - whatever is accepted or rejected for
    the other refs of the same operation *)
Theorem C10_frame : forall ia gforce items n acc,
  view (fst (fst (fold_left (fetch_item ia gforce) items acc))) n =
  fold_left (fun v it => item_view ia gforce it v)
            (filter (fun it => beqb (fi_dst it) n) items) (view (fst (fst acc)) n).
Proof. exact fetch_loop_frame. Qed.
Print Assumptions C10_frame.

Theorem C10_frame_untouched : forall ia gforce items n acc,
  (forall it, In it items -> fi_dst it <> n) ->
  view (fst (fst (fold_left (fetch_item ia gforce) items acc))) n = view (fst (fst acc)) n.
Proof. exact fetch_loop_untouched. Qed.
Print Assumptions C10_frame_untouched.

(** the decision tables, exhaustively over their finite domains (computed, then lifted with forallb_forall) *)
Theorem C10_fetch_table : forall k p s ia rf gf, fetch_line_ok k p s ia rf gf = true.
Proof. exact fetch_line. Qed.
Print Assumptions C10_fetch_table.

Theorem C10_push_table : forall k p s src ia rf gf, push_line_ok k p s src ia rf gf = true.
Proof. exact push_line. Qed.
Print Assumptions C10_push_table.

Theorem C10_merge_table : forall mode k, merge_line_ok mode k = true.
Proof. exact merge_line. Qed.
Print Assumptions C10_merge_table.

(** a fast-forward merge sets the branch exactly to the other commit and logs (old, new) *)
Theorem C10_ff_exact : forall g sk s branch b o mode m,
  rget s branch = Some b -> sk [b; o] = SInput b -> b <> o -> mode <> MNoFF ->
  let '(s', tr, out, _) := merge_core g sk s branch [b; o] mode m in
  rget s' branch = Some o /\ out = 0 /\
  rlogs s' branch = mk_log (Some b) o ACT_MERGE :: rlogs s branch /\
  tr = [mk_trans Local branch (Some b) (Some o) false].
Proof. exact ff_exact. Qed.
Print Assumptions C10_ff_exact.

(** SaveRef / SetWithLog: the update and its log entry (true old value, new value) are one write *)
Theorem C10_log_write : forall s n c act,
  rget (rset_log s n c act) n = Some c /\
  rlogs (rset_log s n c act) n = mk_log (rget s n) c act :: rlogs s n /\
  forall m, m <> n -> rget (rset_log s n c act) m = rget s m /\ rlogs (rset_log s n c act) m = rlogs s m.
Proof.
  intros s n c act. split; [exact (rset_log_get_same s n c act)|].
  split; [exact (rset_log_logs_same s n c act)|].
  intros m H. split; [exact (rset_log_get_other s n c act m H)|exact (rset_log_logs_other s n c act m H)].
Qed.
Print Assumptions C10_log_write.

(** LogFaithful over histories, and every local update of the history is found in its ref's log *)
Theorem C10_log_true : forall g ia sk,
  IsAncSound g ia -> SeekSound g sk -> forall st ops,
  (LogFaithful (lrefs st) -> LogFaithful (lrefs (fst (run_ops g ia sk st ops)))) /\
  (LogFaithful (rrefs st) -> LogFaithful (rrefs (fst (run_ops g ia sk st ops)))) /\
  Forall (logged (lrefs (fst (run_ops g ia sk st ops)))) (snd (run_ops g ia sk st ops)).
Proof. exact log_true_history. Qed.
Print Assumptions C10_log_true.

(** the premises hold for the executable oracles of run_C10 *)
Theorem C10_is_ancestor_sound : forall g, IsAncSound g (is_ancestor g).
Proof. exact is_ancestor_sound. Qed.
Print Assumptions C10_is_ancestor_sound.

Theorem C10_seek_spec_sound : forall g, SeekSound g (seek_spec g).
Proof. exact seek_spec_sound. Qed.
Print Assumptions C10_seek_spec_sound.

(** non-vacuity: a five-operation history (fetch, rejected push, merge creating a merge commit, pull, push)
    on a concrete graph performs three ref moves *)
Theorem C10_history_example :
  length (snd (run_ops ex_graph (is_ancestor ex_graph) (seek_spec ex_graph) ex_state ex_ops)) = 3%nat.
Proof. exact ex_trace_nonempty. Qed.
Print Assumptions C10_history_example.
