(** Compose2 - composition theorems between the property slices, part 2.
    Only statements, each closed by [exact] of a lemma from proofs/Bridge*_proofs.v.

    ---------------------------------------------------------------------------------------
    B6 (C06 <-> C17/C18).  model/BridgeCodecDec.v, proofs/BridgeCodecDec_proofs.v.

    C06 models every object format as a pure decoder over a complete byte string
    ([decode_X : bytes -> option (X * bytes)], [None] = any error) with round-trip theorems
    against the encoders.  C17/C18 model the same Go functions a second time, independently, as
    reader state machines ([prog], lib/Reader.v) run over any chunking of the stream, with an
    explicit outcome (value / error class / panic).  The theorems below connect the two:

    B6a AGREEMENT.  [codec_agrees conv D C]: for every all-Full read-kind table (what the tie
      of C18 checks against the source), EVERY byte string b - valid or not -, EVERY partition
      of b into reads (empty reads included) and either way of delivering EOF:
        C b = Some (v, t)  ->  D returns Ok (conv v) and leaves exactly t unread;
        C b = None         ->  D returns an error - never a panic, never the model's
                               out-of-fuel marker.
      [conv] is the identity except where the two families chose different Coq types for the
      same Go value: the commit time zone (minutes vs seconds, [conv_time]), table / block
      index / profile records, a profile column as a list of twelve field values vs a record
      ([conv_col], with inverse [list_of_col]).
      Proved for: StrList (both decoder modes), Block, UintList, FloatList, Commit, Table,
      BlockIndex, TableProfile, packfile object header, packfile object, pkt-line.
      No input was found on which the two families disagree.  In particular
        - the io.EOF tolerance of StrListDecoder.Read on the last cell is in both models
          ([Compose_codec_eof_tolerance_in_both]);
        - the codec models' [count_fits] guards and [length b] fuels never change a result
          (every element takes at least one byte): this is proved inside, not assumed;
        - strconv.ParseInt / time.Parse of model/DecRun.v ([go_parse_int], [go_parse_tz]) are
          the codec's [parse_int] / [parse_zone] ([Compose_codec_time_parsers]).
      The packfile STREAM is the one place where the observations have different shapes: the
      reader family's consumer returns (version, objects read so far, class of the error that
      ended the stream) and only fails when the 8-byte header is bad; the codec family
      returns [None] unless the stream ends cleanly.  [packfile_agrees] states the exact
      correspondence: [pack_view] (= "Ok (v, objs, io.EOF)") of the reader's outcome is the
      codec's result, on every input.
    B6b COMPOSITION ("C06 o C18").  For every object m that is well-formed in exactly the sense
      of the C06 round-trip theorem, [encode_X m = Some b] and the reader-level decoder returns
      m from EVERY chunking of b ([reads_back]).
    B6c Hence decoding what the encoder wrote never errors and never panics
      ([Compose_codec_written_never_fails]).

    Not bridged (no counterpart on the other side, or a deliberately different modelling):
      StrListDecoder.ReadBytes, ValidateStrListBytes / ValidateBlockBytes and the slice-based
      StrListDecoder.Decode (C17 only; C06's [decode_strlist_bytes] models Decode as [None]
      on malformed input where C17 models the panic / stale-buffer behaviour), the pkt-line
      SEQUENCE reader, ObjectReceiver.Receive, and the C06 store ([CodecStore]: key = hash);
      the persistence readers objects.Get* are covered as decoders on a complete slice
      ([codec_agrees_on_bytes]).
    Remaining hypotheses: none beyond those of C06 (well-formedness of the value) and C18
    (all read sites Full). *)
From Coq Require Import String.
From Coq Require Import List ZArith.
From W.lib Require Import Tree Bytes GoSlice Reader.
From W.model Require CodecBase CodecStrList CodecObjline CodecCommit CodecTable CodecProfile
     CodecPackfile.
From W.model Require Import DecPrim DecLists DecObjects DecPack DecReceive DecRun.
From W.model Require Import BridgeCodecDec.
From W.proofs Require BridgeCodecDec_proofs CodecC06_proofs.
Import ListNotations.
Local Open Scope N_scope.

(** * B6a: agreement on every byte string and every chunking *)

Theorem Compose_codec_strlist_agree : forall pc,
  codec_agrees (fun v : list bytes => v) (strlist_read1 pc) CodecStrList.decode_strlist.
Proof. exact BridgeCodecDec_proofs.agree_strlist. Qed.
Print Assumptions Compose_codec_strlist_agree.

(** NewStrListDecoder(true): the other allocation branch, the same decoded value *)
Theorem Compose_codec_strlist_reuse_agree : forall pc,
  codec_agrees (fun v : list bytes => v) (strlist_read1_reuse pc) CodecStrList.decode_strlist.
Proof. exact BridgeCodecDec_proofs.agree_strlist_reuse. Qed.
Print Assumptions Compose_codec_strlist_reuse_agree.

Theorem Compose_codec_block_agree : forall pc,
  codec_agrees (fun v : list (list bytes) => v) (block_read pc) CodecStrList.decode_block.
Proof. exact BridgeCodecDec_proofs.agree_block. Qed.
Print Assumptions Compose_codec_block_agree.

Theorem Compose_codec_uintlist_agree : forall ru pc,
  codec_agrees (fun v : list N => v) (uintlist_read_g ru pc) CodecStrList.decode_uintlist.
Proof. exact BridgeCodecDec_proofs.agree_uintlist. Qed.
Print Assumptions Compose_codec_uintlist_agree.

Theorem Compose_codec_floatlist_agree : forall ru pc,
  codec_agrees (fun v : list N => v) (floatlist_read_g ru pc) CodecStrList.decode_floatlist.
Proof. exact BridgeCodecDec_proofs.agree_floatlist. Qed.
Print Assumptions Compose_codec_floatlist_agree.

(** Commit.  The reader family takes strconv.ParseInt and time.Parse("-0700") as parameters;
    the statement holds for every pair of parsers that are the codec's ... *)
Theorem Compose_codec_commit_agree_gen : forall (pi ptz : bytes -> option Z),
  (forall s, pi s = CodecObjline.parse_int s) -> (forall s, ptz s = codec_parse_tz s) ->
  codec_agrees conv_commit (commit_read pi ptz) CodecCommit.decode_commit.
Proof. exact BridgeCodecDec_proofs.agree_commit_gen. Qed.
Print Assumptions Compose_codec_commit_agree_gen.

(** ... which the parsers the extracted C17/C18 models run with are *)
Theorem Compose_codec_time_parsers :
  (forall s, go_parse_int s = CodecObjline.parse_int s) /\
  (forall s, go_parse_tz s = codec_parse_tz s).
Proof. exact (conj BridgeCodecDec_proofs.go_parse_int_codec BridgeCodecDec_proofs.go_parse_tz_codec). Qed.
Print Assumptions Compose_codec_time_parsers.

Theorem Compose_codec_commit_agree :
  codec_agrees conv_commit (commit_read go_parse_int go_parse_tz) CodecCommit.decode_commit.
Proof. exact BridgeCodecDec_proofs.agree_commit. Qed.
Print Assumptions Compose_codec_commit_agree.

Theorem Compose_codec_table_agree : forall pc,
  codec_agrees conv_table (table_read pc) CodecTable.decode_table.
Proof. exact BridgeCodecDec_proofs.agree_table. Qed.
Print Assumptions Compose_codec_table_agree.

Theorem Compose_codec_blockindex_agree :
  codec_agrees conv_bidx blockindex_read CodecTable.decode_blockindex.
Proof. exact BridgeCodecDec_proofs.agree_blockindex. Qed.
Print Assumptions Compose_codec_blockindex_agree.

Theorem Compose_codec_profile_agree : forall pc,
  codec_agrees conv_profile (profile_read pc) CodecProfile.decode_profile.
Proof. exact BridgeCodecDec_proofs.agree_profile. Qed.
Print Assumptions Compose_codec_profile_agree.

(** the column conversion loses nothing on the columns a reader can produce *)
Theorem Compose_codec_profile_col_conv : forall c, conv_col (list_of_col c) = c.
Proof. exact BridgeCodecDec_proofs.conv_list_of_col. Qed.
Print Assumptions Compose_codec_profile_col_conv.

(** packfile: object header (decodeObjTypeAndLen), one object (ReadObject), pkt-line *)
Theorem Compose_codec_objhdr_agree :
  codec_agrees (fun v : N * N => v) objhdr_read CodecPackfile.decode_len.
Proof. exact BridgeCodecDec_proofs.agree_objhdr. Qed.
Print Assumptions Compose_codec_objhdr_agree.

Theorem Compose_codec_object_agree :
  codec_agrees (fun v : N * bytes => v) object_read CodecPackfile.decode_obj.
Proof. exact BridgeCodecDec_proofs.agree_object. Qed.
Print Assumptions Compose_codec_object_agree.

Theorem Compose_codec_pktline_agree :
  codec_agrees (fun v : bytes => v) (fun _ => pktline_read) CodecPackfile.decode_pktline.
Proof. exact BridgeCodecDec_proofs.agree_pktline. Qed.
Print Assumptions Compose_codec_pktline_agree.

(** the packfile stream: NewPackfileReader + ReadObject until it fails.  On EVERY input and
    chunking the reader family's outcome is "Ok (version, objects, io.EOF)" exactly when the
    codec family decodes the packfile, with the same version and objects; otherwise it is an
    error (bad header) or Ok with the objects read so far and the class (not io.EOF) of the
    error that stopped it - never a panic, never out of fuel. *)
Theorem Compose_codec_packfile_agree : packfile_agrees.
Proof. exact BridgeCodecDec_proofs.agree_packfile. Qed.
Print Assumptions Compose_codec_packfile_agree.

(** the persistence readers objects.GetCommit / GetTable / GetBlock (after s2.Decode) /
    GetBlockIndex / GetTableProfile: the same decoders on the complete stored value *)
Theorem Compose_codec_stored_agree : forall pc,
  codec_agrees_on_bytes conv_commit (commit_read go_parse_int go_parse_tz) CodecCommit.decode_commit /\
  codec_agrees_on_bytes conv_table (table_read pc) CodecTable.decode_table /\
  codec_agrees_on_bytes (fun v : list (list bytes) => v) (block_read pc) CodecStrList.decode_block /\
  codec_agrees_on_bytes conv_bidx blockindex_read CodecTable.decode_blockindex /\
  codec_agrees_on_bytes conv_profile (profile_read pc) CodecProfile.decode_profile.
Proof.
  exact (fun pc => conj BridgeCodecDec_proofs.agree_bytes_commit
                  (conj (BridgeCodecDec_proofs.agree_bytes_table pc)
                  (conj (BridgeCodecDec_proofs.agree_bytes_block pc)
                  (conj BridgeCodecDec_proofs.agree_bytes_blockindex
                        (BridgeCodecDec_proofs.agree_bytes_profile pc))))).
Qed.
Print Assumptions Compose_codec_stored_agree.

(** a malformed input both families accept: the last cell announces 5 bytes and the stream
    ends there (C06_block_reencode_real_refuted's witness) - one row holding one "" *)
Theorem Compose_codec_eof_tolerance_in_both :
  CodecStrList.decode_block [0;0;0;1; 0;0;0;1; 0;5] = Some ([[[]]], []) /\
  forall k, all_full k -> forall p e,
    outcome (run_on (kinds_of k) (block_read precap_of_code) (chunked p [0;0;0;1; 0;0;0;1; 0;5] e))
    = Ok [[[]]].
Proof. exact BridgeCodecDec_proofs.eof_tolerance_both. Qed.
Print Assumptions Compose_codec_eof_tolerance_in_both.

(** * B6b: what is written is read back through any transport chunking *)

Theorem Compose_codec_strlist_roundtrip : forall pc sl, CodecStrList.wf_strlist sl ->
  exists b, CodecStrList.encode_strlist sl = Some b /\
            reads_back (fun v : list bytes => v) (strlist_read1 pc) b sl.
Proof. exact BridgeCodecDec_proofs.compose_strlist. Qed.
Print Assumptions Compose_codec_strlist_roundtrip.

Theorem Compose_codec_block_roundtrip : forall pc rows, CodecStrList.wf_block rows ->
  exists b, CodecStrList.encode_block rows = Some b /\
            reads_back (fun v : list (list bytes) => v) (block_read pc) b rows.
Proof. exact BridgeCodecDec_proofs.compose_block. Qed.
Print Assumptions Compose_codec_block_roundtrip.

Theorem Compose_codec_uintlist_roundtrip : forall ru pc l, CodecStrList.wf_uintlist l ->
  exists b, CodecStrList.encode_uintlist l = Some b /\
            reads_back (fun v : list N => v) (uintlist_read_g ru pc) b l.
Proof. exact BridgeCodecDec_proofs.compose_uintlist. Qed.
Print Assumptions Compose_codec_uintlist_roundtrip.

Theorem Compose_codec_floatlist_roundtrip : forall ru pc l, CodecStrList.wf_floatlist l ->
  exists b, CodecStrList.encode_floatlist l = Some b /\
            reads_back (fun v : list N => v) (floatlist_read_g ru pc) b l.
Proof. exact BridgeCodecDec_proofs.compose_floatlist. Qed.
Print Assumptions Compose_codec_floatlist_roundtrip.

Theorem Compose_codec_commit_roundtrip : forall c, CodecCommit.wf_commit c ->
  exists b, CodecCommit.encode_commit c = Some b /\
            reads_back conv_commit (commit_read go_parse_int go_parse_tz) b c.
Proof. exact BridgeCodecDec_proofs.compose_commit. Qed.
Print Assumptions Compose_codec_commit_roundtrip.

Theorem Compose_codec_table_roundtrip : forall pc t, CodecTable.wf_table t ->
  exists b, CodecTable.encode_table t = Some b /\ reads_back conv_table (table_read pc) b t.
Proof. exact BridgeCodecDec_proofs.compose_table. Qed.
Print Assumptions Compose_codec_table_roundtrip.

(** Table.ReadFrom stops after the index sums: the same with anything behind the table,
    which is left unread *)
Theorem Compose_codec_table_roundtrip_prefix : forall pc t rest, CodecTable.wf_table t ->
  exists b, CodecTable.encode_table t = Some b /\
    forall k, all_full k -> forall p e,
      let x := run_on (kinds_of k) (table_read pc) (chunked p (b ++ rest) e) in
      outcome x = Ok (conv_table t) /\ Reader.rest (snd (fst x)) = rest.
Proof. exact BridgeCodecDec_proofs.compose_table_prefix. Qed.
Print Assumptions Compose_codec_table_roundtrip_prefix.

Theorem Compose_codec_blockindex_roundtrip : forall x, CodecTable.wf_blockindex x ->
  exists b, CodecTable.encode_blockindex x = Some b /\ reads_back conv_bidx blockindex_read b x.
Proof. exact BridgeCodecDec_proofs.compose_blockindex. Qed.
Print Assumptions Compose_codec_blockindex_roundtrip.

Theorem Compose_codec_profile_roundtrip : forall pc p, CodecProfile.wf_profile p ->
  exists b, CodecProfile.encode_profile p = Some b /\
            reads_back conv_profile (profile_read pc) b p.
Proof. exact BridgeCodecDec_proofs.compose_profile. Qed.
Print Assumptions Compose_codec_profile_roundtrip.

Theorem Compose_codec_pktline_roundtrip : forall s, CodecPackfile.wf_pktline s ->
  exists b, CodecPackfile.encode_pktline s = Some b /\
            reads_back (fun v : bytes => v) (fun _ => pktline_read) b s.
Proof. exact BridgeCodecDec_proofs.compose_pktline. Qed.
Print Assumptions Compose_codec_pktline_roundtrip.

(** packfile object header: every type 1..7, every length below 2^64, whatever follows *)
Theorem Compose_codec_header_roundtrip : forall ty u rest, 1 <= ty <= 7 -> u < 2 ^ 64 ->
  forall k, all_full k -> forall p e,
    let x := run_on (kinds_of k) objhdr_read (chunked p (CodecPackfile.encode_len ty u ++ rest) e) in
    outcome x = Ok (ty, u) /\ Reader.rest (snd (fst x)) = rest.
Proof. exact BridgeCodecDec_proofs.compose_header. Qed.
Print Assumptions Compose_codec_header_roundtrip.

Theorem Compose_codec_object_roundtrip : forall o rest, CodecPackfile.wf_obj o ->
  exists b, CodecPackfile.encode_obj o = Some b /\
    forall k, all_full k -> forall p e,
      let x := run_on (kinds_of k) object_read (chunked p (b ++ rest) e) in
      outcome x = Ok o /\ Reader.rest (snd (fst x)) = rest.
Proof. exact BridgeCodecDec_proofs.compose_object. Qed.
Print Assumptions Compose_codec_object_roundtrip.

(** a whole packfile: the consumer sees version 1, exactly the objects written, and a clean
    end of stream *)
Theorem Compose_codec_packfile_roundtrip : forall l, CodecPackfile.wf_packfile l ->
  exists b, CodecPackfile.encode_packfile l = Some b /\
    forall k, all_full k -> forall p e,
      outcome (run_on (kinds_of k) packfile_read (chunked p b e))
      = Ok (CodecPackfile.pack_version, l, CEof).
Proof. exact BridgeCodecDec_proofs.compose_packfile. Qed.
Print Assumptions Compose_codec_packfile_roundtrip.

(** * B6c: decoding what the encoder wrote never errors and never panics *)
Theorem Compose_codec_written_never_fails :
  forall (A B : Type) (conv : B -> A) (D : nat -> prog A) (bs : bytes) (v : B),
  reads_back conv D bs v ->
  forall k, all_full k -> forall p e,
    outcome (run_on (kinds_of k) D (chunked p bs e)) <> Panic /\
    forall c, outcome (run_on (kinds_of k) D (chunked p bs e)) <> Err c.
Proof. exact @BridgeCodecDec_proofs.reads_back_no_error. Qed.
Print Assumptions Compose_codec_written_never_fails.

(** * non-vacuity: C06's example commit (two parents, zone -09:30), table (300 rows, two
    blocks) and profile, encoded, cut into reads of odd sizes (an empty read included, EOF
    with or without data) and decoded by the reader-level decoders *)
Example Compose_codec_nonvacuous_commit :
  CodecCommit.wf_commit CodecC06_proofs.ex_commit /\
  match CodecCommit.encode_commit CodecC06_proofs.ex_commit with
  | Some b =>
      outcome (run_on read_kinds_of_code (commit_read go_parse_int go_parse_tz)
                 (chunked [3; 0; 1; 7; 2; 100]%nat b true))
      = Ok (conv_commit CodecC06_proofs.ex_commit)
      /\ c_parents (conv_commit CodecC06_proofs.ex_commit) = [CodecObjline.zeros16; CodecObjline.zeros16]
      /\ c_time (conv_commit CodecC06_proofs.ex_commit) = mk_time 1700000000 (-34200)
  | None => False
  end.
Proof. exact BridgeCodecDec_proofs.compose_example_commit. Qed.

Example Compose_codec_nonvacuous_table :
  CodecTable.wf_table CodecC06_proofs.ex_table /\
  match CodecTable.encode_table CodecC06_proofs.ex_table with
  | Some b =>
      outcome (run_on read_kinds_of_code (table_read precap_of_code)
                 (chunked [1; 1; 0; 50; 3]%nat b false))
      = Ok (conv_table CodecC06_proofs.ex_table)
      /\ length (tb_blocks (conv_table CodecC06_proofs.ex_table)) = 2%nat
  | None => False
  end.
Proof. exact BridgeCodecDec_proofs.compose_example_table. Qed.

Example Compose_codec_nonvacuous_profile :
  CodecProfile.wf_profile CodecC06_proofs.ex_profile /\
  match CodecProfile.encode_profile CodecC06_proofs.ex_profile with
  | Some b =>
      outcome (run_on read_kinds_of_code (profile_read precap_of_code)
                 (chunked [5; 5; 5; 5; 5; 5; 5; 5; 5; 5; 5; 5]%nat b true))
      = Ok (conv_profile CodecC06_proofs.ex_profile)
  | None => False
  end.
Proof. exact BridgeCodecDec_proofs.compose_example_profile. Qed.
