(** C20 - the on-disk hash set answers membership exactly like a set.
    Only statements, each closed by [exact] of a lemma from proofs/. *)
From W.lib Require Import Tree.
From W.model Require Import HashSet HashSetSpec.
From W.proofs Require Import HashSet_proofs.
From Coq Require Import Sorting.Sorted Sorting.Permutation.
Local Open Scope N_scope.

(** Every operation sequence (Add / Flush / Has / reopen / Len / raw dump of the
    file), with any batch sizes, gives on the transliterated implementation
    exactly the outputs of the abstract set: membership is exact, the stored
    entries are the sorted flushed hashes, the fan-out table counts them, and
    reopening changes no answer.  No step errs. *)
Theorem C20_refines : forall (b : nat) (ops : list op),
  Forall wf_op ops -> run_ops (hs_new b) ops = spec_run (spec_new b) ops.
Proof. exact HashSet_proofs.refines. Qed.
Print Assumptions C20_refines.

(** The flush kernel: shifting from the back and writing the sorted groups
    yields the sorted merge of the old table and the batch. *)
Theorem C20_flush_merge : forall s,
  HS_inv s -> exists s', flush s = Some s' /\ HS_inv s' /\
     Permutation (table s') (table s ++ batch s) /\ batch s' = [] /\
     size s' = (size s + length (batch s))%nat.
Proof. exact HashSet_proofs.flush_merge. Qed.
Print Assumptions C20_flush_merge.

(** Membership after a final flush = "was added" (corollary, in the words of the property). *)
Theorem C20_member : forall (b : nat) (adds : list hash) (h : hash),
  Forall wf_hash adds -> wf_hash h ->
  last (run_ops (hs_new b) (map OAdd adds ++ [OFlush; OHas h])) RErr
  = RBool (if in_dec N.eq_dec h adds then true else false).
Proof. exact HashSet_proofs.member_after_flush. Qed.
Print Assumptions C20_member.
