(** C14 - a transaction's commits land on all of its branches or on none.
    Only statements, each closed by [exact] of a lemma from proofs/Txn_proofs.v.

    Model (model/Txn.v): [tx_commit ord id s] / [tx_discard ord id s] are the ordered lists
    of ATOMIC store writes that transaction.Commit / Discard perform from state [s] (plus the
    result when nothing fails); [ord] is the enumeration order of the staged branches (Go map
    order): every theorem holds for EVERY order that is a permutation ([order_ok]), for every
    number of staged branches, new or existing, and for every cut point [n]:
    [run_upto n] = the first n writes happened, then a crash or an injected failure (a failing
    read between two writes leaves the same state, see [run_read_fault]).
    Scope: no other writer touches the repository between the interrupted Commit and its
    re-run (the theorems compare with the pre-transaction state [s0]); atomicity of one
    object-store Set and of one SQL transaction is the modelling assumption. *)
From Coq Require Import String.
From Coq Require Import List NArith Bool Arith Permutation.
From W.lib Require Import Tree.
From W.model Require Import Txn.
From W.proofs Require Import Txn_proofs.
Import ListNotations.
Local Open Scope N_scope.

(** After a Commit interrupted after its first n writes (crash, or write n failing): either no
    branch has moved (heads and reflogs as before), or re-running Commit to completion - with
    any enumeration order - ends in exactly the all-branches outcome [all_outcome] (the same
    heads, reflogs, staged refs, status and commit objects as an uninterrupted run), or the
    interrupted run had in fact performed every write and returned success. *)
Theorem C14_all_or_completable : forall id s0 (ord1 ord2 : order) n,
  pre id s0 -> order_ok ord1 (staged s0 id) -> order_ok ord2 (staged s0 id) ->
  let s1 := fst (run_upto n (tx_commit ord1 id s0) s0) in
  (forall b, unmoved s0 s1 b) \/
  (exists s2, run_full (tx_commit ord2 id s1) s1 = (s2, ROk) /\ st_eq s2 (all_outcome id s0)) \/
  (st_eq s1 (all_outcome id s0) /\ snd (run_upto n (tx_commit ord1 id s0) s0) = ROk).
Proof. exact Txn_proofs.all_or_completable. Qed.
Print Assumptions C14_all_or_completable.

(** Stronger: at every cut point the transaction is either still in progress and the re-run
    completes it to the all-branches outcome (also when no branch had moved yet), or it is
    marked committed and the state already is that outcome. *)
Theorem C14_rerun_completes : forall id s0 (ord1 ord2 : order) n,
  pre id s0 -> order_ok ord1 (staged s0 id) -> order_ok ord2 (staged s0 id) ->
  let s1 := fst (run_upto n (tx_commit ord1 id s0) s0) in
  (txs s1 id = Some InProgress /\
   exists s2, run_full (tx_commit ord2 id s1) s1 = (s2, ROk) /\ st_eq s2 (all_outcome id s0)) \/
  (txs s1 id = Some Committed /\ st_eq s1 (all_outcome id s0)).
Proof. exact Txn_proofs.rerun_completes. Qed.
Print Assumptions C14_rerun_completes.

(** The uninterrupted run succeeds and gives the all-branches outcome. *)
Theorem C14_uninterrupted : forall id s0 (ord : order),
  pre id s0 -> order_ok ord (staged s0 id) ->
  exists s', run_full (tx_commit ord id s0) s0 = (s', ROk) /\ st_eq s' (all_outcome id s0).
Proof. exact Txn_proofs.uninterrupted. Qed.
Print Assumptions C14_uninterrupted.

(** Histories: after ANY number of interrupted Commits (each with its own order and cut
    point, [interrupted]) one complete run reaches the all-branches outcome - no branch is
    ever advanced twice. *)
Theorem C14_any_crash_history : forall id s0 s (ord : order),
  pre id s0 -> interrupted id s0 s -> order_ok ord (staged s0 id) ->
  exists s', run_full (tx_commit ord id s) s = (s', ROk) /\ st_eq s' (all_outcome id s0).
Proof. exact Txn_proofs.any_crash_history. Qed.
Print Assumptions C14_any_crash_history.

(** What the all-branches outcome is, in the words of the property: every staged branch is
    advanced by exactly ONE new, stored commit carrying the staged table (and author/time/
    message, with one "commit [tx/id]" prefix) whose parent is the branch's pre-transaction
    head; the reflog gains exactly one entry (old head, new head, txid); the transaction is
    marked committed; branches not staged are untouched. *)
Theorem C14_outcome_shape : forall id s0 b sum,
  pre id s0 -> In (b, sum) (staged s0 id) ->
  exists c', heads (all_outcome id s0) b = Some c' /\
    c_table c' = c_table sum /\ c_parent c' = heads s0 b /\ c_pfx c' = id :: c_pfx sum /\
    c_meta c' = c_meta sum /\
    logs (all_outcome id s0) b = mk_log (heads s0 b) c' (Some id) :: logs s0 b /\
    stored (all_outcome id s0) c' = true /\
    txs (all_outcome id s0) id = Some Committed.
Proof. exact Txn_proofs.outcome_shape. Qed.
Print Assumptions C14_outcome_shape.

Theorem C14_outcome_frame : forall id s0 b,
  ~ In b (map fst (staged s0 id)) ->
  heads (all_outcome id s0) b = heads s0 b /\ logs (all_outcome id s0) b = logs s0 b.
Proof. exact Txn_proofs.outcome_frame. Qed.
Print Assumptions C14_outcome_frame.

(** In every state reachable by interrupted Commits and at every cut point of a further one,
    each branch is either exactly where it was (head and reflog) or has landed: advanced by
    the transaction's one commit (stored), with the log entry (true old head, new head, txid)
    on top of its old reflog. *)
Theorem C14_branch_consistent : forall id s0 s (ord : order) n b,
  pre id s0 -> interrupted id s0 s -> order_ok ord (staged s0 id) ->
  let s1 := fst (run_upto n (tx_commit ord id s) s) in
  unmoved s0 s1 b \/ landed id s0 s1 b.
Proof. exact Txn_proofs.branch_consistent. Qed.
Print Assumptions C14_branch_consistent.

Theorem C14_logged : forall id s0 s (ord : order) n b,
  pre id s0 -> interrupted id s0 s -> order_ok ord (staged s0 id) ->
  let s1 := fst (run_upto n (tx_commit ord id s) s) in
  heads s1 b <> heads s0 b -> landed id s0 s1 b.
Proof. exact Txn_proofs.logged. Qed.
Print Assumptions C14_logged.

(** A committed transaction can neither be committed again nor discarded: both return an
    error and perform no write at all (the state is literally unchanged: staged refs, heads,
    reflogs, objects). *)
Theorem C14_once : forall id s (ord : order) n, txs s id = Some Committed ->
  run_upto n (tx_commit ord id s) s = (s, RErr) /\ run_upto n (tx_discard ord id s) s = (s, RErr).
Proof. exact Txn_proofs.once. Qed.
Print Assumptions C14_once.

Theorem C14_missing_tx : forall id s (ord : order) n, txs s id = None ->
  run_upto n (tx_commit ord id s) s = (s, RErr) /\ run_upto n (tx_discard ord id s) s = (s, RErr).
Proof. exact Txn_proofs.missing_tx. Qed.
Print Assumptions C14_missing_tx.

(** Discard, from ANY state and cut at ANY point, never changes a head, a reflog or an object,
    nor the staged refs or status of any other transaction, and only ever removes staged
    refs of its own transaction. *)
Theorem C14_discard_frame : forall id s (ord : order) n,
  let s1 := fst (run_upto n (tx_discard ord id s) s) in
  (forall b, heads s1 b = heads s b) /\ (forall b, logs s1 b = logs s b) /\
  (forall c, stored s1 c = stored s c) /\
  (forall i, i <> id -> staged s1 i = staged s i /\ txs s1 i = txs s i) /\
  incl (staged s1 id) (staged s id).
Proof. exact Txn_proofs.discard_frame. Qed.
Print Assumptions C14_discard_frame.

(** A complete Discard of an in-progress transaction succeeds, removes all of its staged
    refs and the transaction itself. *)
Theorem C14_discard_complete : forall id s (ord : order),
  txs s id = Some InProgress -> order_ok ord (staged s id) ->
  exists s1, run_full (tx_discard ord id s) s = (s1, ROk) /\
    staged s1 id = [] /\ txs s1 id = None.
Proof. exact Txn_proofs.discard_complete. Qed.
Print Assumptions C14_discard_complete.

(** Discard is completable: after a Discard of an in-progress transaction cut at ANY point
    (crash or failing write n), either the transaction is still there and a healthy re-run of
    Discard (any order) succeeds and leaves no staged ref of it and no transaction row - so staged
    refs never outlive their transaction row -, or the cut run had performed everything and
    returned success.  (Relies on the transaction row being deleted LAST.) *)
Theorem C14_discard_rerun : forall id s (ord1 ord2 : order) n,
  txs s id = Some InProgress -> order_ok ord1 (staged s id) ->
  let s1 := fst (run_upto n (tx_discard ord1 id s) s) in
  order_ok ord2 (staged s1 id) ->
  (txs s1 id = Some InProgress /\
   exists s2, run_full (tx_discard ord2 id s1) s1 = (s2, ROk) /\ staged s2 id = [] /\ txs s2 id = None) \/
  (txs s1 id = None /\ staged s1 id = [] /\ snd (run_upto n (tx_discard ord1 id s) s) = ROk).
Proof. exact Txn_proofs.discard_rerun. Qed.
Print Assumptions C14_discard_rerun.

(** Failures BELOW the store method: one SQL statement inside an atomic write fails (the
    reflogs insert or the refs upsert of SetWithLog of some branch, the status UPDATE, the
    DELETE of a staged ref, DeleteTransaction).  Each such write is atomic, so the operation
    stops before the first write selected by [f] ([run_write_fault]); whatever [f] is, every
    branch is then unmoved or landed-and-logged and the re-run completes to the all-branches
    outcome / the discard completes.  (This is what the commands `wrgl transaction commit` /
    `discard` are held to on a real badger + sqlite repository; it requires every commit object
    to be durable before the ref that names it: [WPutCommit] precedes [WSetWithLog].) *)
Theorem C14_statement_fault : forall id s0 (ord1 ord2 : order) (f : write -> bool),
  pre id s0 -> order_ok ord1 (staged s0 id) -> order_ok ord2 (staged s0 id) ->
  let s1 := fst (run_write_fault f (tx_commit ord1 id s0) s0) in
  (forall b, unmoved s0 s1 b \/ landed id s0 s1 b) /\
  ((txs s1 id = Some InProgress /\
    exists s2, run_full (tx_commit ord2 id s1) s1 = (s2, ROk) /\ st_eq s2 (all_outcome id s0)) \/
   (txs s1 id = Some Committed /\ st_eq s1 (all_outcome id s0))).
Proof. exact Txn_proofs.statement_fault. Qed.
Print Assumptions C14_statement_fault.

Theorem C14_statement_fault_discard : forall id s (ord1 ord2 : order) (f : write -> bool),
  txs s id = Some InProgress -> order_ok ord1 (staged s id) ->
  let s1 := fst (run_write_fault f (tx_discard ord1 id s) s) in
  order_ok ord2 (staged s1 id) ->
  (txs s1 id = Some InProgress /\
   exists s2, run_full (tx_discard ord2 id s1) s1 = (s2, ROk) /\ staged s2 id = [] /\ txs s2 id = None) \/
  (txs s1 id = None /\ staged s1 id = []).
Proof. exact Txn_proofs.statement_fault_discard. Qed.
Print Assumptions C14_statement_fault_discard.

(** Another writer between an interrupted Commit and its re-run (outside the scope of the
    theorems above, which compare with the pre-transaction state): from ANY state, a branch whose
    reflog already carries the transaction id is never written by Commit again, at any cut point -
    whatever its head is now.  So an ordinary commit that landed on it meanwhile stays the head, no
    second copy of the transaction's commit is stacked and no second log entry is made. *)
Theorem C14_landed_branch_untouched : forall id s (ord : order) n b c,
  tx_log_new id (logs s b) = Some c ->
  let s1 := fst (run_upto n (tx_commit ord id s) s) in
  heads s1 b = heads s b /\ logs s1 b = logs s b.
Proof. exact Txn_proofs.landed_branch_untouched. Qed.
Print Assumptions C14_landed_branch_untouched.

(** The enumeration orders the executable model is run with are permutations. *)
Theorem C14_orders : forall perm l, NoDup perm -> order_ok (ord_by perm) l.
Proof. exact Txn_proofs.ord_by_ok. Qed.
Print Assumptions C14_orders.

(** ** The code before the repairs 94d35e0 / a45e6d7 (kept as [tx_commit_v0], [tx_discard_v0]):
    the same statements are refuted. *)
Theorem C14_once_v0_refuted : exists id s (ord : order),
  order_ok ord (staged s id) /\ txs s id = Some Committed /\
  snd (run_full (tx_commit_v0 ord id s) s) = ROk /\
  exists b c, heads s b = Some c /\
    heads (fst (run_full (tx_commit_v0 ord id s) s)) b
    = Some (Child (c_table c) (c_meta c) (c_pfx c) c).
Proof. exact Txn_proofs.once_v0_refuted. Qed.
Print Assumptions C14_once_v0_refuted.

Theorem C14_completable_v0_refuted : exists id s0 (ord1 ord2 : order) n,
  pre id s0 /\ order_ok ord1 (staged s0 id) /\ order_ok ord2 (staged s0 id) /\
  let s1 := fst (run_upto n (tx_commit_v0 ord1 id s0) s0) in
  ~ (forall b, unmoved s0 s1 b) /\ txs s1 id = Some InProgress /\
  forall s2 r, run_full (tx_commit_v0 ord2 id s1) s1 = (s2, r) -> ~ st_eq s2 (all_outcome id s0).
Proof. exact Txn_proofs.completable_v0_refuted. Qed.
Print Assumptions C14_completable_v0_refuted.

Theorem C14_discard_v0_refuted : exists id s (ord : order),
  order_ok ord (staged s id) /\ txs s id = Some Committed /\ staged s id <> [] /\
  snd (run_full (tx_discard_v0 ord id s) s) = RErr /\
  staged (fst (run_full (tx_discard_v0 ord id s) s)) id = [].
Proof. exact Txn_proofs.discard_v0_refuted. Qed.
Print Assumptions C14_discard_v0_refuted.

(** Non-vacuity: a concrete pre-state (one existing and one new branch staged), two different
    orders, a cut after the first branch; the reference write-order skeletons satisfy the
    skeleton checks, the pre-repair ones do not. *)
Theorem C14_nonvacuous :
  pre 1 s_w /\ length (staged s_w 1) = 2%nat /\
  order_ok (@rev _) (staged s_w 1) /\ order_ok (ord_by [1; 0]) (staged s_w 1) /\
  let s1 := fst (run_upto 2 (tx_commit (@rev _) 1 s_w) s_w) in
  heads s1 1 <> heads s_w 1 /\ heads s1 0 = heads s_w 0 /\ txs s1 1 = Some InProgress /\
  snd (run_full (tx_commit ord_id 1 s1) s1) = ROk /\
  txn_skel_ok_strict txn_commit_skel_ref = true /\ txn_discard_skel_ok_strict txn_discard_skel_ref = true /\
  txn_skel_ok txn_commit_skel_v0 = false /\ txn_discard_skel_ok txn_discard_skel_v0 = false.
Proof. exact Txn_proofs.nonvacuous. Qed.
Print Assumptions C14_nonvacuous.
