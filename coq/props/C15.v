(** C15 - the ref store behaves as a map from exact names to commits with faithful logs.
    Only statements, each closed by [exact] of a lemma from proofs/.

    Objects: [crun fk]/[cstep_op fk]/[creach fk] - the model of pkg/ref/sql (the SQL
    statements of every method, with PRIMARY KEY / NOT NULL failures and RunInTx
    rollback) and of the helpers of pkg/ref/refs.go run on it, parametric in the
    WHERE clause [fk] that filterQuery builds; [srun] - the specification: a
    plain map name -> value with per-name logs, literal [is_prefix] selection,
    declarative bulk operations (model/RefStore.v).  [cget]/[clog] are what
    Get / LogReader return in a state.  [filter_ok fk] holds exactly for the
    repaired clause [instr(name, ?) = 1] (gen/Tie_C15.v checks it for the kind
    the translator reads from the source).
    Non-vacuity examples: proofs/RefSql_proofs.v [nv_*]. *)
From W.lib Require Import Tree Bytes.
From W.model Require Import RefStore Like RefSql.
From W.proofs Require Import RefLike_proofs RefStore_proofs RefSql_proofs.
Local Open Scope N_scope.

(** Every sequence of client operations (Set, SetWithLog, Get, Delete, Filter,
    FilterKey, Rename, Copy, LogReader, DeleteAllRemoteRefs, RenameAllRemoteRefs,
    DeleteTransactionRefs, listRefs, RenameRef, CopyRef, SaveRef, ListLocalRefs),
    of any length, over any names and values, returns on the SQL model step by
    step exactly what the plain map returns - values, sorted listings, key
    lists, log entries newest first, and the error / no-error class of every
    call (no call panics).  RenameAllRemoteRefs in both stops at the first
    rename that fails (earlier renames stay done). *)
Theorem C15_refines : forall fk, filter_ok fk = true ->
  forall ops : list op, crun fk cinit ops = srun sinit ops.
Proof. exact RefSql_proofs.refines. Qed.
Print Assumptions C15_refines.

(** The repaired predicate is literal prefix matching, for all byte strings
    (including the empty prefix, '%', '_', upper/lower case, UTF-8 sequences). *)
Theorem C15_instr_is_prefix : forall p s, instr_prefix p s = is_prefix p s.
Proof. exact RefLike_proofs.instr_prefix_correct. Qed.
Print Assumptions C15_instr_is_prefix.

(** The pre-fix predicate [name LIKE p||'%'] is not (p = "a_", s = "ab"), although it
    never misses a literal match; and with it the refinement is false. *)
Theorem C15_like_refuted : exists p s, like_prefix p s <> is_prefix p s.
Proof. exact RefLike_proofs.like_prefix_refuted. Qed.
Print Assumptions C15_like_refuted.

Theorem C15_like_overapproximates : forall p s, is_prefix p s = true -> like_prefix p s = true.
Proof. exact RefLike_proofs.like_prefix_complete. Qed.
Print Assumptions C15_like_overapproximates.

Theorem C15_like_not_refines : exists ops, crun FLike cinit ops <> srun sinit ops.
Proof. exact RefSql_proofs.like_not_refines. Qed.
Print Assumptions C15_like_not_refines.

(** Frame: in every reachable state, an operation leaves the value and the log of
    every name it does not [touch] exactly as they were - an operation on one name
    touches that name (rename: both; copy: the destination), a bulk operation on
    remote r (transaction id) touches the names that literally start with
    "remotes/r/" ("txs/id/"), RenameAllRemoteRefs r r' those under either remote. *)
Theorem C15_frame : forall fk, filter_ok fk = true ->
  forall (ops : list op) (o : op) (k : name), touches o k = false ->
  let c := creach fk cinit ops in
  let c' := fst (cstep_op fk c o) in
  cget c' k = cget c k /\ clog c' k = clog c k.
Proof. exact RefSql_proofs.frame. Qed.
Print Assumptions C15_frame.

(** Bulk deletes remove exactly the names with the literal prefix, with their logs,
    and never fail. *)
Theorem C15_bulk_delete_exact : forall fk, filter_ok fk = true ->
  forall (ops : list op) (o : op) (p : bytes), bulk_delete_prefix o = Some p ->
  let c := creach fk cinit ops in
  let c' := fst (cstep_op fk c o) in
  snd (cstep_op fk c o) = ROk /\
  forall k, cget c' k = (if is_prefix p k then None else cget c k) /\
            clog c' k = (if is_prefix p k then ([], true) else clog c k).
Proof. exact RefSql_proofs.bulk_delete_exact. Qed.
Print Assumptions C15_bulk_delete_exact.

(** Listing by one prefix returns exactly the existing names with that literal prefix. *)
Theorem C15_list_exact : forall fk, filter_ok fk = true ->
  forall (ops : list op) (p : bytes),
  let c := creach fk cinit ops in
  exists l, snd (cstep_op fk c (OP (PFilterKey [p] []))) = RKeys l /\
    forall k, In k l <-> (cget c k <> None /\ is_prefix p k = true).
Proof. exact RefSql_proofs.list_exact. Qed.
Print Assumptions C15_list_exact.

(** Log faithfulness: in every reachable state a logged set (SetWithLog / SaveRef)
    of name k succeeds, and the log of k then reads: a new first entry whose old
    value is the value k held just before the call (none if k did not exist),
    followed by the log as it read before; every read is complete. *)
Theorem C15_log_faithful : forall fk, filter_ok fk = true ->
  forall (ops : list op) (o : op) (k : name) (v : value) (m : meta), is_logged_set o k v m ->
  let c := creach fk cinit ops in
  let c' := fst (cstep_op fk c o) in
  snd (cstep_op fk c o) = ROk /\
  cget c' k = Some v /\
  clog c' k = (mk_logent (cget c k) v m :: fst (clog c k), true) /\
  snd (clog c k) = true.
Proof. exact RefSql_proofs.log_faithful. Qed.
Print Assumptions C15_log_faithful.

(** ... and nothing else ever rewrites a log: after any operation the log of any
    name is either that faithful extension, or empty, or the whole log some name
    had before (unchanged, renamed or copied).  Entries are never edited,
    reordered or dropped individually. *)
Theorem C15_log_append_only : forall fk, filter_ok fk = true ->
  forall (ops : list op) (o : op) (k : name),
  let c := creach fk cinit ops in
  let c' := fst (cstep_op fk c o) in
  (exists v m, is_logged_set o k v m /\
     fst (clog c' k) = mk_logent (cget c k) v m :: fst (clog c k)) \/
  fst (clog c' k) = [] \/
  (exists k', fst (clog c' k) = fst (clog c k')).
Proof. exact RefSql_proofs.log_append_only. Qed.
Print Assumptions C15_log_append_only.

(** Rename / copy succeed exactly when the source exists and the destination does
    not; they carry value and log; a failed call changes nothing. *)
Theorem C15_carry_rename : forall fk, filter_ok fk = true ->
  forall (ops : list op) (x y : name),
  let c := creach fk cinit ops in
  let c' := fst (cstep_op fk c (OP (PRename x y))) in
  let r := snd (cstep_op fk c (OP (PRename x y))) in
  (r = ROk <-> (cget c x <> None /\ cget c y = None)) /\
  (r = ROk -> cget c' y = cget c x /\ cget c' x = None /\
              clog c' y = clog c x /\ clog c' x = ([], true)) /\
  (r <> ROk -> r = RErr /\ c' = c).
Proof. exact RefSql_proofs.rename_carry. Qed.
Print Assumptions C15_carry_rename.

Theorem C15_carry_copy : forall fk, filter_ok fk = true ->
  forall (ops : list op) (x y : name),
  let c := creach fk cinit ops in
  let c' := fst (cstep_op fk c (OP (PCopy x y))) in
  let r := snd (cstep_op fk c (OP (PCopy x y))) in
  (r = ROk <-> (cget c x <> None /\ cget c y = None)) /\
  (r = ROk -> cget c' y = cget c x /\ cget c' x = cget c x /\
              clog c' y = clog c x /\ clog c' x = clog c x) /\
  (r <> ROk -> r = RErr /\ c' = c).
Proof. exact RefSql_proofs.copy_carry. Qed.
Print Assumptions C15_carry_copy.

(** In the words of the property: rename/copy carry the log along. *)
Theorem C15_carry : forall fk, filter_ok fk = true ->
  forall (ops : list op) (x y : name),
  let c := creach fk cinit ops in
  (snd (cstep_op fk c (OP (PRename x y))) = ROk ->
     clog (fst (cstep_op fk c (OP (PRename x y)))) y = clog c x) /\
  (snd (cstep_op fk c (OP (PCopy x y))) = ROk ->
     clog (fst (cstep_op fk c (OP (PCopy x y)))) y = clog c x /\
     clog (fst (cstep_op fk c (OP (PCopy x y)))) x = clog c x).
Proof. exact RefSql_proofs.carry. Qed.
Print Assumptions C15_carry.

(** RenameAllRemoteRefs r r' (= `wrgl remote rename`), for remotes whose prefixes "remotes/r/" and
    "remotes/r'/" are not nested, is a map operation on exactly the names under the old remote: it
    succeeds whenever every destination is free, and when it succeeds every name remotes/r/<rest>
    is gone and remotes/r'/<rest> holds the value and the whole log that remotes/r/<rest> had (or
    is unchanged when there was no such ref) - whatever characters r and r' consist of, in
    particular when r occurs inside the literal "remotes/".  All other names: C15_frame. *)
Theorem C15_bulk_rename_exact : forall fk, filter_ok fk = true ->
  forall (ops : list op) (r r' : bytes),
  let op := remote_prefix r in
  let np := remote_prefix r' in
  is_prefix op np = false -> is_prefix np op = false ->
  let c := creach fk cinit ops in
  let c' := fst (cstep_op fk c (ORenRemote r r')) in
  snd (cstep_op fk c (ORenRemote r r')) = ROk ->
  forall rest,
    cget c' (op ++ rest) = None /\ clog c' (op ++ rest) = ([], true) /\
    cget c' (np ++ rest) =
      (match cget c (op ++ rest) with Some v => Some v | None => cget c (np ++ rest) end) /\
    clog c' (np ++ rest) =
      (match cget c (op ++ rest) with Some _ => clog c (op ++ rest) | None => clog c (np ++ rest) end).
Proof. exact RefSql_proofs.bulk_rename_exact. Qed.
Print Assumptions C15_bulk_rename_exact.

Theorem C15_bulk_rename_succeeds : forall fk, filter_ok fk = true ->
  forall (ops : list op) (r r' : bytes),
  let op := remote_prefix r in
  let np := remote_prefix r' in
  is_prefix op np = false -> is_prefix np op = false ->
  let c := creach fk cinit ops in
  (forall rest, cget c (op ++ rest) <> None -> cget c (np ++ rest) = None) ->
  snd (cstep_op fk c (ORenRemote r r')) = ROk.
Proof. exact RefSql_proofs.bulk_rename_succeeds. Qed.
Print Assumptions C15_bulk_rename_succeeds.
