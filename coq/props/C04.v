(** C04 - diff reports exactly the rows added, removed and modified between two tables.
    Only statements, each closed by [exact] of a lemma from proofs/.
    [bs] is the block size (objects.BlockSize = 255 in the code; the theorems hold for every
    block size, [0 < bs] is needed only where RowToBlockAndOffset divides by it). *)
From W.lib Require Import Tree Bytes.
From W.model Require Import Diff DiffSpec DiffHashed.
From W.proofs Require Import Diff_proofs DiffTable_proofs DiffMain_proofs DiffHashed_proofs.
From Coq Require Import ZArith Sorting.Permutation.

(** The window of candidate blocks is complete: whenever a key sits in block i of table 1 and
    in block j of table 2, block j lies inside the window [start_i, end_i) that iterateAndMatch
    computes for block i (with prevEnd threaded through the loop exactly as the code does). *)
Theorem C04_window_complete : forall bs bl1 bl2 i j k r1 r2,
  WF_blocks bs bl1 -> WF_blocks bs bl2 ->
  i < length bl1 -> j < length bl2 ->
  In (k, r1) (nth i bl1 []) -> In (k, r2) (nth j bl2 []) ->
  let w := nth i (windows (tindex bl1) (tindex bl2)) (0%Z, 0%Z) in
  (fst w <= Z.of_nat j < snd w)%Z.
Proof. exact DiffMain_proofs.window_complete. Qed.
Print Assumptions C04_window_complete.

(** The slice arithmetic of getBlockIndices (prevSl[start-prevStart:], make, index writes) and
    the nil-pointer dereference in the lookup loop never panic - including an empty table on
    either side. *)
Theorem C04_no_panic : forall bs emitUnchanged t1 t2,
  WF_table bs t1 -> WF_table bs t2 -> diff_tables bs emitUnchanged t1 t2 <> Panic.
Proof. exact DiffMain_proofs.no_panic. Qed.
Print Assumptions C04_no_panic.

(** The transliterated diffTables emits exactly the list defined by global key lookup:
    added/modified events in table-1 order, then removed events in table-2 order. *)
Theorem C04_diff_correct : forall bs emitUnchanged t1 t2,
  WF_table bs t1 -> WF_table bs t2 ->
  diff_tables bs emitUnchanged t1 t2 = Ok (spec_diff emitUnchanged t1 t2).
Proof. exact DiffMain_proofs.diff_correct. Qed.
Print Assumptions C04_diff_correct.

(** In the words of the property: for tables with the same primary key an event is emitted
    iff it is "added" for a row of table 1 whose key is absent from table 2, "removed" for a row
    of table 2 whose key is absent from table 1, or "modified" for a key present in both with
    different row content (or, if the columns differ / emitUnchanged is set, any common key);
    offsets are the positions of those rows. *)
Theorem C04_events_exact : forall bs emitUnchanged t1 t2,
  WF_table bs t1 -> WF_table bs t2 ->
  names_eqb (t_pk t1) (t_pk t2) = true ->
  (negb (length (t_pk t1) =? 0)%nat || names_eqb (t_cols t1) (t_cols t2)) = true ->
  exists evs, diff_tables bs emitUnchanged t1 t2 = Ok evs /\
    forall d, In d evs <->
      dev_exact emitUnchanged (names_eqb (t_cols t1) (t_cols t2))
                (concat (t_blocks t1)) (concat (t_blocks t2)) d.
Proof. exact DiffMain_proofs.diff_events_exact. Qed.
Print Assumptions C04_events_exact.

(** Diffing a table against itself yields nothing. *)
Theorem C04_self_empty : forall bs t, WF_table bs t -> diff_tables bs false t t = Ok [].
Proof. exact DiffMain_proofs.diff_self_empty. Qed.
Print Assumptions C04_self_empty.

(** Swapping the arguments swaps added and removed (and old/new of modified). *)
Theorem C04_swap : forall bs emitUnchanged t1 t2,
  WF_table bs t1 -> WF_table bs t2 ->
  exists e12 e21,
    diff_tables bs emitUnchanged t1 t2 = Ok e12 /\ diff_tables bs emitUnchanged t2 t1 = Ok e21 /\
    Permutation (map dev_swap e12) e21 /\
    (forall d, In d e21 <-> In (dev_swap d) e12).
Proof. exact DiffMain_proofs.diff_swap. Qed.
Print Assumptions C04_swap.

(** Each event's offsets address, through RowToBlockAndOffset, rows carrying the event's key
    and row sums. *)
Theorem C04_offsets : forall bs emitUnchanged t1 t2,
  0 < bs -> WF_table bs t1 -> WF_table bs t2 ->
  exists evs, diff_tables bs emitUnchanged t1 t2 = Ok evs /\
              Forall (dev_addr_ok bs (t_blocks t1) (t_blocks t2)) evs.
Proof. exact DiffMain_proofs.diff_offsets. Qed.
Print Assumptions C04_offsets.

(** No key is reported twice. *)
Theorem C04_no_dup : forall bs emitUnchanged t1 t2,
  WF_table bs t1 -> WF_table bs t2 ->
  exists evs, diff_tables bs emitUnchanged t1 t2 = Ok evs /\ NoDup (map dev_key evs).
Proof. exact DiffMain_proofs.diff_no_dup. Qed.
Print Assumptions C04_no_dup.

(** The code before commit 7a1623b (no n == 0 guard) does panic on well-formed input:
    C04_no_panic is refuted for it by a one-row table diffed against the empty table. *)
Theorem C04_empty_panics_refuted :
  exists t1 t2, WF_table 255 t1 /\ WF_table 255 t2 /\ diff_tables_prefix 255 false t1 t2 = Panic.
Proof. exact DiffMain_proofs.empty_panics_prefix. Qed.
Print Assumptions C04_empty_panics_refuted.

(** BlockIndex.Get (sort.Search over sortedOff by key hash + equality test) computes the
    model's lookup by key equality, for any collision-free hash. *)
Theorem C04_get_hashed : forall (h : key -> N),
  (forall a c, h a = h c -> a = c) ->
  forall (b : block) (so : list nat) (k : key),
  NoDup (map fst b) ->
  hsorted_perm h b so ->
  get_hashed h so b k = bget b k.
Proof. exact DiffHashed_proofs.get_hashed_ok. Qed.
Print Assumptions C04_get_hashed.

(** Non-vacuity: two 2-block tables (300 and 290 rows of block size 255, overlapping key
    ranges, some rows changed) are well-formed and their diff is the non-trivial event list
    computed by the specification. *)
Example C04_nonvacuous :
  WF_table 255 ex_a /\ WF_table 255 ex_b /\
  length (t_blocks ex_a) = 2 /\ length (t_blocks ex_b) = 2 /\
  diff_tables 255 false ex_a ex_b = Ok (spec_diff false ex_a ex_b) /\
  length (spec_diff false ex_a ex_b) = 406.
Proof. exact DiffMain_proofs.nonvacuous. Qed.
