(** C02 - a table's identity depends only on its logical content.
    Only statements, each closed by [exact] of a lemma from proofs/.

    The store is content addressed: block and block-index sums are hashes of their
    contents and the table id is the hash of (columns, pk, row count, block sums, index
    sums).  In the model an object stands for its sum and [table_id Hb Hi Ht T] is the
    abstract identifier, with the hash/encoding functions [Hb] (block), [Hi] (block
    index), [Ht] (table) as parameters; injectivity of Hb and Ht is an explicit premise
    where different content must give different ids.  The delimiter only affects CSV
    parsing, which happens before the model's input (the parsed rows).

    The cache of branch-file mode (ensureTempCommit: the <branch>-tmp commit is reused when
    its message is the file name, its key is the same and its time is not before the file's
    modification time) is modelled on its logic: [cache_fresh], [branch_commit_step],
    theorems C02_cache_fresh / C02_branch_commit_sound / C02_stale_only_if_old, and the
    harness drives it with explicit modification times.  Recorded observation, NOT a
    failure: a file whose content changed while its modification time is not after the
    cached commit's time (restored backup, cp -p) is reported unchanged - the code trusts
    the modification time there; the oracle judges only steps whose mtime is strictly after
    the cached commit's time, the model predicts both. *)
From W.lib Require Import Tree Bytes.
From W.model Require Import Sorter SorterSpec Ingest IngestSpec.
From W.proofs Require Import Sorter_proofs Ingest_proofs.
From Coq Require Import Sorting.Sorted Sorting.Permutation.
Local Open Scope N_scope.

(** Same header, same key, the same set of rows with unique keys in ANY two orders:
    under any two run sizes, in-memory sorts and block arrival orders the two ingests
    store the same table object and table index (hence the same identifier, and every
    block / index object is shared). *)
Theorem C02_canonical : forall H sort1 sort2 arrive1 arrive2 rs1 rs2 columns pknames rows1 rows2,
  sort_ok (length columns) sort1 -> sort_ok (length columns) sort2 ->
  any_arrival arrive1 -> any_arrival arrive2 ->
  incl pknames columns -> NoDup pknames -> wf_rows (length columns) rows1 -> cells_in_limit rows1 ->
  Permutation rows1 rows2 ->
  (forall pk, key_indices columns pknames = Some pk -> NoDup (map (dkey (length columns) pk) rows1)) ->
  exists T tidx w1 w2,
    ingest_table H sort1 arrive1 rs1 columns pknames rows1 = (IOk T tidx, w1) /\
    ingest_table H sort2 arrive2 rs2 columns pknames rows2 = (IOk T tidx, w2).
Proof. exact Ingest_proofs.ingest_canonical. Qed.
Print Assumptions C02_canonical.

(** With injective block and table hashes, equal identifiers mean equal columns (names
    and order), key, row count, blocks and rows. *)
Theorem C02_injective : forall Hb Hi Ht,
  (forall a b, Hb a = Hb b -> a = b) -> (forall a b, Ht a = Ht b -> a = b) ->
  forall T1 T2, table_id Hb Hi Ht T1 = table_id Hb Hi Ht T2 ->
    t_columns T1 = t_columns T2 /\ t_pk T1 = t_pk T2 /\ t_rowscount T1 = t_rowscount T2 /\
    t_blocks T1 = t_blocks T2 /\ rows_of T1 = rows_of T2.
Proof. exact Ingest_proofs.table_id_injective. Qed.
Print Assumptions C02_injective.

(** Hence two ingested tables with the same identifier come from inputs with the same
    header, the same key and the same set of rows: inputs that differ in a column name,
    the column order, the key or any cell get different identifiers. *)
Theorem C02_distinct : forall H Hb Hi Ht sort1 sort2 arrive1 arrive2 rs1 rs2
    cols1 pkn1 rows1 cols2 pkn2 rows2 T1 x1 w1 T2 x2 w2 pk1 pk2,
  (forall a b, Hb a = Hb b -> a = b) -> (forall a b, Ht a = Ht b -> a = b) ->
  sort_ok (length cols1) sort1 -> sort_ok (length cols2) sort2 -> any_arrival arrive1 -> any_arrival arrive2 ->
  names_nonempty cols1 -> names_nonempty cols2 ->
  incl pkn1 cols1 -> incl pkn2 cols2 -> NoDup pkn1 -> NoDup pkn2 ->
  wf_rows (length cols1) rows1 -> wf_rows (length cols2) rows2 -> cells_in_limit rows1 -> cells_in_limit rows2 ->
  key_indices cols1 pkn1 = Some pk1 -> key_indices cols2 pkn2 = Some pk2 ->
  NoDup (map (dkey (length cols1) pk1) rows1) -> NoDup (map (dkey (length cols2) pk2) rows2) ->
  ingest_table H sort1 arrive1 rs1 cols1 pkn1 rows1 = (IOk T1 x1, w1) ->
  ingest_table H sort2 arrive2 rs2 cols2 pkn2 rows2 = (IOk T2 x2, w2) ->
  table_id Hb Hi Ht T1 = table_id Hb Hi Ht T2 ->
  cols1 = cols2 /\ pk1 = pk2 /\ Permutation rows1 rows2.
Proof. exact Ingest_proofs.table_id_distinct. Qed.
Print Assumptions C02_distinct.

(** commitIfBranchFileHasChanged creates no commit exactly when the branch head's table
    identifier equals the identifier of the freshly ingested table. *)
Theorem C02_no_change : forall head tmp, commit_if_changed head tmp = false <-> head = Some tmp.
Proof. exact Ingest_proofs.commit_if_changed_spec. Qed.
Print Assumptions C02_no_change.

(** The cache in front of that decision (branch-file mode).  [cache_fresh t m] is
    ensureTempCommit's reuse test on the times (file name and key unchanged): the cached
    commit is reused iff the file's modification time is not after the cached commit's
    (second-precision) time. *)
Theorem C02_cache_fresh : forall t m, cache_fresh t m = true <-> m <= t.
Proof. exact Ingest_proofs.cache_fresh_spec. Qed.
Print Assumptions C02_cache_fresh.

(** If the file is newer than the cached commit (or nothing is cached), `wrgl commit BRANCH
    MSG` decides by the id of the table the file really holds: no commit iff unchanged
    (with C02_no_change), the cache then holds that table, the head moves to it. *)
Theorem C02_branch_commit_sound : forall st mtime now table,
  (forall t tb, cs_cache st = Some (t, tb) -> t < mtime) ->
  snd (branch_commit_step st mtime now table) = commit_if_changed (cs_head st) table /\
  cs_cache (fst (branch_commit_step st mtime now table)) = Some (now, table) /\
  cs_head (fst (branch_commit_step st mtime now table)) =
    (if commit_if_changed (cs_head st) table then Some table else cs_head st).
Proof. exact Ingest_proofs.branch_commit_step_sound. Qed.
Print Assumptions C02_branch_commit_sound.

(** Conversely a verdict that differs from the id comparison (changed data reported as "no
    change") needs a cached commit whose time is not before the file's modification time. *)
Theorem C02_stale_only_if_old : forall st mtime now table,
  snd (branch_commit_step st mtime now table) <> commit_if_changed (cs_head st) table ->
  exists t tb, cs_cache st = Some (t, tb) /\ mtime <= t.
Proof. exact Ingest_proofs.branch_commit_stale_only_if_old. Qed.
Print Assumptions C02_stale_only_if_old.

(** Non-vacuity: the same three rows in two orders, run sizes 1 and 4096, blocks arriving
    reversed or not: one table; changing one cell gives another table. *)
Example C02_example :
  let columns : list bytes := [[97]; [98]] in
  let r (a b : N) : row := [[a]; [b]] in
  let t1 := fst (ingest_table no_hash isort_rows (@rev asyncblock) 1 columns [[97]] [r 51 1; r 49 2; r 50 3]) in
  let t2 := fst (ingest_table no_hash isort_rows (fun l => l) 4096 columns [[97]] [r 49 2; r 50 3; r 51 1]) in
  let t3 := fst (ingest_table no_hash isort_rows (fun l => l) 4096 columns [[97]] [r 49 2; r 50 4; r 51 1]) in
  match t1, t2, t3 with
  | IOk T1 _, IOk T2 _, IOk T3 _ => (table_eqb T1 T2, table_eqb T1 T3)
  | _, _, _ => (false, true)
  end = (true, false).
Proof. vm_compute. reflexivity. Qed.
