(** C02 - a table's identity depends only on its logical content.
    Only statements, each closed by [exact] of a lemma from proofs/.

    The store is content addressed: block and block-index sums are hashes of their
    contents and the table id is the hash of (columns, pk, row count, block sums, index
    sums).  In the model an object stands for its sum and [table_id Hb Hi Ht T] is the
    abstract identifier, with the hash/encoding functions [Hb] (block), [Hi] (block
    index), [Ht] (table) as parameters; injectivity of Hb and Ht is an explicit premise
    where different content must give different ids.  The delimiter only affects CSV
    parsing, which happens before the model's input (the parsed rows).

    Assumption (out of scope, recorded): in branch-file mode `wrgl commit` first consults
    a cache (ensureTempCommit: the <branch>-tmp commit is reused when its message is the
    file name, its time is not before the file's modification time and the key is the
    same) and only then compares table ids.  C02_no_change models the comparison; the
    cache is not modelled and the harness passes --no-cache.  With the cache, unchanged
    data is still reported as "no change" (what the property promises), but a file whose
    content changed while its modification time did not advance is reported unchanged. *)
From W.lib Require Import Tree Bytes.
From W.model Require Import Sorter SorterSpec Ingest IngestSpec.
From W.proofs Require Import Sorter_proofs Ingest_proofs.
From Coq Require Import Sorting.Sorted Sorting.Permutation.
Local Open Scope N_scope.

(** Same header, same key, the same set of rows with unique keys in ANY two orders:
    under any two run sizes, in-memory sorts and block arrival orders the two ingests
    store the same table object and table index (hence the same identifier, and every
    block / index object is shared). *)
Theorem C02_canonical : forall H sort1 sort2 arrive1 arrive2 rs1 rs2 columns pknames rows1 rows2,
  sort_ok (length columns) sort1 -> sort_ok (length columns) sort2 ->
  any_arrival arrive1 -> any_arrival arrive2 ->
  incl pknames columns -> NoDup pknames -> wf_rows (length columns) rows1 -> cells_in_limit rows1 ->
  Permutation rows1 rows2 ->
  (forall pk, key_indices columns pknames = Some pk -> NoDup (map (dkey (length columns) pk) rows1)) ->
  exists T tidx w1 w2,
    ingest_table H sort1 arrive1 rs1 columns pknames rows1 = (IOk T tidx, w1) /\
    ingest_table H sort2 arrive2 rs2 columns pknames rows2 = (IOk T tidx, w2).
Proof. exact Ingest_proofs.ingest_canonical. Qed.
Print Assumptions C02_canonical.

(** With injective block and table hashes, equal identifiers mean equal columns (names
    and order), key, row count, blocks and rows. *)
Theorem C02_injective : forall Hb Hi Ht,
  (forall a b, Hb a = Hb b -> a = b) -> (forall a b, Ht a = Ht b -> a = b) ->
  forall T1 T2, table_id Hb Hi Ht T1 = table_id Hb Hi Ht T2 ->
    t_columns T1 = t_columns T2 /\ t_pk T1 = t_pk T2 /\ t_rowscount T1 = t_rowscount T2 /\
    t_blocks T1 = t_blocks T2 /\ rows_of T1 = rows_of T2.
Proof. exact Ingest_proofs.table_id_injective. Qed.
Print Assumptions C02_injective.

(** Hence two ingested tables with the same identifier come from inputs with the same
    header, the same key and the same set of rows: inputs that differ in a column name,
    the column order, the key or any cell get different identifiers. *)
Theorem C02_distinct : forall H Hb Hi Ht sort1 sort2 arrive1 arrive2 rs1 rs2
    cols1 pkn1 rows1 cols2 pkn2 rows2 T1 x1 w1 T2 x2 w2 pk1 pk2,
  (forall a b, Hb a = Hb b -> a = b) -> (forall a b, Ht a = Ht b -> a = b) ->
  sort_ok (length cols1) sort1 -> sort_ok (length cols2) sort2 -> any_arrival arrive1 -> any_arrival arrive2 ->
  names_nonempty cols1 -> names_nonempty cols2 ->
  incl pkn1 cols1 -> incl pkn2 cols2 -> NoDup pkn1 -> NoDup pkn2 ->
  wf_rows (length cols1) rows1 -> wf_rows (length cols2) rows2 -> cells_in_limit rows1 -> cells_in_limit rows2 ->
  key_indices cols1 pkn1 = Some pk1 -> key_indices cols2 pkn2 = Some pk2 ->
  NoDup (map (dkey (length cols1) pk1) rows1) -> NoDup (map (dkey (length cols2) pk2) rows2) ->
  ingest_table H sort1 arrive1 rs1 cols1 pkn1 rows1 = (IOk T1 x1, w1) ->
  ingest_table H sort2 arrive2 rs2 cols2 pkn2 rows2 = (IOk T2 x2, w2) ->
  table_id Hb Hi Ht T1 = table_id Hb Hi Ht T2 ->
  cols1 = cols2 /\ pk1 = pk2 /\ Permutation rows1 rows2.
Proof. exact Ingest_proofs.table_id_distinct. Qed.
Print Assumptions C02_distinct.

(** commitIfBranchFileHasChanged creates no commit exactly when the branch head's table
    identifier equals the identifier of the freshly ingested table. *)
Theorem C02_no_change : forall head tmp, commit_if_changed head tmp = false <-> head = Some tmp.
Proof. exact Ingest_proofs.commit_if_changed_spec. Qed.
Print Assumptions C02_no_change.

(** Non-vacuity: the same three rows in two orders, run sizes 1 and 4096, blocks arriving
    reversed or not: one table; changing one cell gives another table. *)
Example C02_example :
  let columns : list bytes := [[97]; [98]] in
  let r (a b : N) : row := [[a]; [b]] in
  let t1 := fst (ingest_table no_hash isort_rows (@rev asyncblock) 1 columns [[97]] [r 51 1; r 49 2; r 50 3]) in
  let t2 := fst (ingest_table no_hash isort_rows (fun l => l) 4096 columns [[97]] [r 49 2; r 50 3; r 51 1]) in
  let t3 := fst (ingest_table no_hash isort_rows (fun l => l) 4096 columns [[97]] [r 49 2; r 50 4; r 51 1]) in
  match t1, t2, t3 with
  | IOk T1 _, IOk T2 _, IOk T3 _ => (table_eqb T1 T2, table_eqb T1 T3)
  | _, _, _ => (false, true)
  end = (true, false).
Proof. vm_compute. reflexivity. Qed.
