(** Bridge B4 (C08 -> C09): the premise [SrvDepth] of C09's depth clause, and "the sender delivers the closed
    set", discharged from C08's theorems for a server that RUNS the ClosedSets model.
    Only statements, each closed by [exact] of a lemma from proofs/BridgeClosedSession_proofs.v.
    (Fragment to be merged into props/Compose.v: no Import of model modules, every name is qualified.)

    THE BRIDGE (model/BridgeClosedSession.v).  C09's sessions (model/Session.v) talk to a reference server
    ([Session.plan]); its depth clause is stated for ARBITRARY packfiles under the named premise
    [Session_proofs.SrvDepth] (C09_tables_partial).  Here the server is C08's transliterated ClosedSetsFinder
    followed by a transliteration of ObjectSender, as harness/c09_server.go assembles them:
      [store_of g o]       abstraction function Session repository -> ClosedSets.store (the commits stored in
                           [o] with the parents / time / table [g] gives them, the tables stored in [o]);
                           GAcyclic g -> ClosedSetsSpec.acyclic, Session's Closed -> ClosedSetsSpec.closed
      [cs_serve]           run_rounds (one Process per request; a refused request ends the session), then
                           CommitsToSend, TablesToSend minus the table ACKs, NewObjectSender(CommonCommmits)
      [send_objs]          ObjectSender: per commit, its table first if selected, not a common table, not yet
                           sent - and silently skipped if the sender does not store it - then the commit
      [cs_negotiate]       Session's client (popHaves batches of k, RemoveAncestors) against the finder
      [cs_fetch_objects], [cs_fetch]   Session.fetch_objects / Session.fetch with that server
    [Session.fetch_objects] itself hard-wires the reference [plan]; its stream is NOT the finder's (the finder
    also sends ancestors of commons reached along common-free paths), so the composition is stated for
    [cs_fetch_objects] and, below it, for C09_tables_partial over arbitrary cuts of [cs_serve]'s stream.

    WHAT IS PROVED
      depth clause, ONE want, any depth, any k / any negotiation (any number of requests, the want in the
        first), any packfile cut, table negotiation on or off: Compose_srv_depth_one_want (= SrvDepth),
        Compose_tables_depth_one_want (C09_tables_partial with SrvDepth discharged), Compose_fetch_depth_one_want
        (whole session, no server premise left), and the cut-independent stream form Compose_table_before_commit.
        Compose_srv_depth_one_round is the one-request case resting DIRECTLY on C08_depth_one_want + C08_sound +
        C08_depth_sound; for several requests C08_depth_one_want does not apply (it speaks of one Process
        call), and the same exactness is re-derived from C08's per-walk lemma (walk_want_facts): the want is
        walked exactly once, against commons that are among the final ones.
      depth clause, ANY number of wants, ANY processing order, depth = 0: Compose_srv_depth0_any_wants,
        Compose_fetch_depth0_any_wants (with depth = 0 a listed commit gets its table in the same step,
        whatever walk lists it).
      RESTRICTION (honest): for depth > 0 and two or more wants the clause is FALSE for this server too -
        Compose_depth_two_wants_refuted replays C08_depth_order_refuted / C09_depth_want_order_refuted through
        the whole composed session (walking want 2 first, want 1 ends without its table).
      order-independent half (C08_order, C08_cover, C08_sound, C08_refuse; any wants, any order, any
        negotiation): Compose_serve_delivers / Compose_fetch_delivers - the stream passes the receiver's gate
        and every want arrives, so once negotiation and NewObjectSender succeed the transfer cannot fail;
        Compose_fetch_objects_closed / Compose_fetch_closed - C09_fetch_objects_closed / C09_fetch_closed for
        the composed server (these need no server premise: the receiver's gate alone).

    HYPOTHESES THAT REMAIN (all about the two stores and the history, none about the server's output)
      sort_fun qsort, order_fun ord   C08's two parameters (sort.Sort returns a permutation; Go map order)
      GAcyclic g                      the history is acyclic (rank witness) - C08's [acyclic]
      Closed g (sender's commits)     the sender's store is complete (C08's [closed]; also: a path from a stored
                                      want stays inside the store)
      Closed g (client's commits), RefsStored   the client's store is Closed and its refs resolve (C09's own
                                      premise; the haves it offers are then stored commits with their tables -
                                      proved for popHaves, a hypothesis [HavesStored] for explicit request lists)
      acked tables are stored by the client (true of negotiateTables; explicit for request lists)
      SenderFull / "the sender is not shallow"   the sender stores the table of every commit of the region:
                                      enqueueTable silently skips a missing table (the reference [plan] has the
                                      same condition [cmem t (o_tables sender)])
      the session is single-want: filter (not stored) advertised = [w]  (depth > 0 only) *)
From Coq Require Import List NArith Bool.
From W.model Require RefUpdate Session ClosedSets ClosedSetsSpec BridgeClosedSession.
From W.proofs Require Session_proofs BridgeClosedSession_proofs.
Import ListNotations.

(** the abstraction function carries Session's hypotheses to the ones C08 needs *)
Theorem Compose_B4_store_acyclic : forall g o,
  BridgeClosedSession.GAcyclic g -> ClosedSetsSpec.acyclic (BridgeClosedSession.store_of g o).
Proof. exact BridgeClosedSession_proofs.store_acyclic. Qed.
Print Assumptions Compose_B4_store_acyclic.

Theorem Compose_B4_store_closed : forall g o,
  Session_proofs.Closed g (Session.o_commits o) -> ClosedSetsSpec.closed (BridgeClosedSession.store_of g o).
Proof. exact BridgeClosedSession_proofs.store_closed. Qed.
Print Assumptions Compose_B4_store_closed.

(** C08 + ObjectSender, cut-independent: when the commit object of a commit [c] of the want's region that the
    client lacks is written, the client already has c's table or the table object was written before it *)
Theorem Compose_table_before_commit : forall qsort ord g remote before depth w h d rest acked stream,
  ClosedSetsSpec.sort_fun qsort -> ClosedSetsSpec.order_fun ord -> BridgeClosedSession.GAcyclic g ->
  Session_proofs.Closed g (Session.o_commits (Session.r_objs remote)) ->
  Session_proofs.Closed g (Session.o_commits before) ->
  Forall (fun r => ClosedSets.r_wants r = []) rest ->
  BridgeClosedSession.HavesStored g before (ClosedSets.mkRound [w] h d :: rest) ->
  (forall t, In t acked -> In t (Session.o_tables before)) ->
  BridgeClosedSession.SenderFull g (Session.r_objs remote) depth [w] ->
  BridgeClosedSession.cs_serve qsort ord g remote depth (ClosedSets.mkRound [w] h d :: rest) acked = Some stream ->
  forall S1 c S2, stream = S1 ++ Session.OCommit c :: S2 ->
    In c (Session_proofs.region g depth w) -> ~ In c (Session.o_commits before) ->
    In (Session.ctbl g c) (Session.o_tables before) \/ In (Session.OTable (Session.ctbl g c)) S1.
Proof. exact BridgeClosedSession_proofs.table_before_commit_final. Qed.
Print Assumptions Compose_table_before_commit.

(** SrvDepth, DISCHARGED for one want: any depth, any list of requests (the want travels with the first), any
    cut of the stream into packfiles, any successful receive loop *)
Theorem Compose_srv_depth_one_want : forall qsort ord g remote before depth w h d rest acked stream packs o' n,
  ClosedSetsSpec.sort_fun qsort -> ClosedSetsSpec.order_fun ord -> BridgeClosedSession.GAcyclic g ->
  Session_proofs.Closed g (Session.o_commits (Session.r_objs remote)) ->
  Session_proofs.Closed g (Session.o_commits before) ->
  Forall (fun r => ClosedSets.r_wants r = []) rest ->
  BridgeClosedSession.HavesStored g before (ClosedSets.mkRound [w] h d :: rest) ->
  (forall t, In t acked -> In t (Session.o_tables before)) ->
  BridgeClosedSession.SenderFull g (Session.r_objs remote) depth [w] ->
  BridgeClosedSession.cs_serve qsort ord g remote depth (ClosedSets.mkRound [w] h d :: rest) acked = Some stream ->
  concat packs = stream ->
  Session.receive_packs g before [w] packs = Some (o', [], n) ->
  Session_proofs.SrvDepth g before [w] depth packs n.
Proof. exact BridgeClosedSession_proofs.srv_depth_one_want_final. Qed.
Print Assumptions Compose_srv_depth_one_want.

(** the one-request case, resting directly on C08_depth_one_want, C08_sound and C08_depth_sound *)
Theorem Compose_srv_depth_one_round : forall qsort ord g remote before depth w h d acked stream packs o' n,
  ClosedSetsSpec.sort_fun qsort -> ClosedSetsSpec.order_fun ord -> BridgeClosedSession.GAcyclic g ->
  Session_proofs.Closed g (Session.o_commits (Session.r_objs remote)) ->
  Session_proofs.Closed g (Session.o_commits before) ->
  BridgeClosedSession.HavesStored g before [ClosedSets.mkRound [w] h d] ->
  (forall t, In t acked -> In t (Session.o_tables before)) ->
  BridgeClosedSession.SenderFull g (Session.r_objs remote) depth [w] ->
  BridgeClosedSession.cs_serve qsort ord g remote depth [ClosedSets.mkRound [w] h d] acked = Some stream ->
  concat packs = stream ->
  Session.receive_packs g before [w] packs = Some (o', [], n) ->
  Session_proofs.SrvDepth g before [w] depth packs n.
Proof. exact BridgeClosedSession_proofs.srv_depth_one_round_final. Qed.
Print Assumptions Compose_srv_depth_one_round.

(** C09_tables_partial with its premise SrvDepth discharged *)
Theorem Compose_tables_depth_one_want : forall qsort ord g remote o depth w h d rest acked stream packs o' n,
  ClosedSetsSpec.sort_fun qsort -> ClosedSetsSpec.order_fun ord -> BridgeClosedSession.GAcyclic g ->
  Session_proofs.Closed g (Session.o_commits (Session.r_objs remote)) ->
  Session_proofs.Closed g (Session.o_commits o) ->
  Forall (fun r => ClosedSets.r_wants r = []) rest ->
  BridgeClosedSession.HavesStored g o (ClosedSets.mkRound [w] h d :: rest) ->
  (forall t, In t acked -> In t (Session.o_tables o)) ->
  BridgeClosedSession.SenderFull g (Session.r_objs remote) depth [w] ->
  BridgeClosedSession.cs_serve qsort ord g remote depth (ClosedSets.mkRound [w] h d :: rest) acked = Some stream ->
  concat packs = stream ->
  Session.receive_packs g o [w] packs = Some (o', [], n) ->
  forall c, In c (Session_proofs.region g depth w) -> ~ In c (Session.o_commits o) ->
            In (Session.ctbl g c) (Session.o_tables o').
Proof. exact BridgeClosedSession_proofs.tables_depth_one_want. Qed.
Print Assumptions Compose_tables_depth_one_want.

(** C09's depth clause for single-want fetch sessions against the finder + sender: NO server premise.
    For every k (haves per request), packfile size p, depth, table negotiation on or off. *)
Theorem Compose_fetch_depth_one_want : forall qsort ord g local remote adv depth k p tn w o' rounds n,
  ClosedSetsSpec.sort_fun qsort -> ClosedSetsSpec.order_fun ord -> BridgeClosedSession.GAcyclic g ->
  Session_proofs.Closed g (Session.o_commits (Session.r_objs remote)) ->
  Session_proofs.Closed g (Session.o_commits (Session.r_objs local)) ->
  BridgeClosedSession.RefsStored (Session.r_objs local) (Session.r_refs local) ->
  filter (fun c => negb (RefUpdate.cmem c (Session.o_commits (Session.r_objs local)))) adv = [w] ->
  BridgeClosedSession.SenderFull g (Session.r_objs remote) depth [w] ->
  BridgeClosedSession.cs_fetch_objects qsort ord g local remote adv depth k p tn = Session.FDone o' rounds n ->
  forall c, In c (Session_proofs.region g depth w) -> ~ In c (Session.o_commits (Session.r_objs local)) ->
            In (Session.ctbl g c) (Session.o_tables o').
Proof. exact BridgeClosedSession_proofs.fetch_depth_one_want. Qed.
Print Assumptions Compose_fetch_depth_one_want.

(** depth = 0: SrvDepth for ANY wants, ANY processing order, ANY list of requests *)
Theorem Compose_srv_depth0_any_wants : forall qsort ord g remote before rs acked stream wants packs o' n,
  ClosedSetsSpec.sort_fun qsort -> ClosedSetsSpec.order_fun ord -> BridgeClosedSession.GAcyclic g ->
  Session_proofs.Closed g (Session.o_commits (Session.r_objs remote)) ->
  Session_proofs.Closed g (Session.o_commits before) ->
  BridgeClosedSession.HavesStored g before rs ->
  (forall t, In t acked -> In t (Session.o_tables before)) ->
  BridgeClosedSession.SenderFullAnc g (Session.r_objs remote) rs ->
  BridgeClosedSession.cs_serve qsort ord g remote 0 rs acked = Some stream ->
  concat packs = stream ->
  Session.receive_packs g before wants packs = Some (o', [], n) ->
  Session_proofs.SrvDepth g before wants 0 packs n.
Proof. exact BridgeClosedSession_proofs.srv_depth0_any_wants. Qed.
Print Assumptions Compose_srv_depth0_any_wants.

Theorem Compose_fetch_depth0_any_wants : forall qsort ord g local remote adv k p tn o' rounds n,
  ClosedSetsSpec.sort_fun qsort -> ClosedSetsSpec.order_fun ord -> BridgeClosedSession.GAcyclic g ->
  Session_proofs.Closed g (Session.o_commits (Session.r_objs remote)) ->
  Session_proofs.Closed g (Session.o_commits (Session.r_objs local)) ->
  BridgeClosedSession.RefsStored (Session.r_objs local) (Session.r_refs local) ->
  (forall c, In c (Session.o_commits (Session.r_objs remote)) ->
             In (Session.ctbl g c) (Session.o_tables (Session.r_objs remote))) ->
  BridgeClosedSession.cs_fetch_objects qsort ord g local remote adv 0 k p tn = Session.FDone o' rounds n ->
  forall w, In w adv -> ~ In w (Session.o_commits (Session.r_objs local)) ->
  forall c, In c (Session_proofs.region g 0 w) -> ~ In c (Session.o_commits (Session.r_objs local)) ->
            In (Session.ctbl g c) (Session.o_tables o').
Proof. exact BridgeClosedSession_proofs.fetch_depth0_any_wants. Qed.
Print Assumptions Compose_fetch_depth0_any_wants.

(** REFUTED for depth > 0 with two wants (the known finding, through the whole composed session): history
    0 <- 1 <- 2, refs on 2 and 1, empty client, depth 1.  Walking want 2 first the session SUCCEEDS and want 1 -
    in its own region - has no table; walking want 1 first both tables arrive. *)
Theorem Compose_depth_two_wants_refuted :
  BridgeClosedSession.cs_fetch_objects ClosedSets.isort_time (ClosedSets.ord_of 0) Session_proofs.wo_g
      BridgeClosedSession_proofs.b4_wo_local BridgeClosedSession_proofs.b4_wo_remote [2%N; 1%N] 1 256 2000 false
    = Session.FDone (Session.mk_objs [0%N; 1%N; 2%N] [3%N]) 1 1 /\
  BridgeClosedSession.cs_fetch_objects ClosedSets.isort_time (ClosedSets.ord_of 1) Session_proofs.wo_g
      BridgeClosedSession_proofs.b4_wo_local BridgeClosedSession_proofs.b4_wo_remote [2%N; 1%N] 1 256 2000 false
    = Session.FDone (Session.mk_objs [0%N; 1%N; 2%N] [2%N; 3%N]) 1 1 /\
  In 1%N (Session_proofs.region Session_proofs.wo_g 1 1%N) /\
  ~ In 1%N (Session.o_commits (Session.r_objs BridgeClosedSession_proofs.b4_wo_local)) /\
  ~ In (Session.ctbl Session_proofs.wo_g 1%N) [3%N].
Proof. exact BridgeClosedSession_proofs.depth_two_wants_refuted. Qed.
Print Assumptions Compose_depth_two_wants_refuted.

(** "the sender delivers the closed set" (C08_order + C08_cover + C08_sound + C08_refuse -> C09's receiver):
    any wants, any processing order, any negotiation, any cut - the gate never refuses a packfile and the
    receive loop ends with nothing expected *)
Theorem Compose_serve_delivers : forall qsort ord g remote o depth rs acked stream wants packs,
  ClosedSetsSpec.sort_fun qsort -> ClosedSetsSpec.order_fun ord -> BridgeClosedSession.GAcyclic g ->
  Session_proofs.Closed g (Session.o_commits (Session.r_objs remote)) ->
  Session_proofs.Closed g (Session.o_commits o) ->
  BridgeClosedSession.HavesStored g o rs ->
  BridgeClosedSession.cs_serve qsort ord g remote depth rs acked = Some stream ->
  wants <> [] ->
  (forall w, In w wants -> ~ In w (Session.o_commits o) /\ exists r, In r rs /\ In w (ClosedSets.r_wants r)) ->
  concat packs = stream ->
  exists o' n, Session.receive_packs g o wants packs = Some (o', [], n).
Proof. exact BridgeClosedSession_proofs.serve_delivers. Qed.
Print Assumptions Compose_serve_delivers.

(** once negotiation and NewObjectSender succeed, fetchObjects cannot fail *)
Theorem Compose_fetch_delivers : forall qsort ord g local remote adv depth k p (tn : bool) f rs stream,
  ClosedSetsSpec.sort_fun qsort -> ClosedSetsSpec.order_fun ord -> BridgeClosedSession.GAcyclic g ->
  Session_proofs.Closed g (Session.o_commits (Session.r_objs remote)) ->
  Session_proofs.Closed g (Session.o_commits (Session.r_objs local)) ->
  BridgeClosedSession.RefsStored (Session.r_objs local) (Session.r_refs local) ->
  filter (fun c => negb (RefUpdate.cmem c (Session.o_commits (Session.r_objs local)))) adv <> [] ->
  BridgeClosedSession.cs_negotiate qsort ord g (Session.r_objs local)
      (BridgeClosedSession.store_of g (Session.r_objs remote)) (Session.ref_values (Session.r_refs remote))
      (filter (fun c => negb (RefUpdate.cmem c (Session.o_commits (Session.r_objs local)))) adv) k (S (length g))
      (Session.q_new g (Session.ref_values (Session.r_refs local))) (ClosedSets.new_finder depth) [] = Some (f, rs) ->
  BridgeClosedSession.cs_send ord (BridgeClosedSession.store_of g (Session.r_objs remote)) f
      (if tn then Session.o_tables (Session.r_objs local) else []) = Some stream ->
  exists o' n, BridgeClosedSession.cs_fetch_objects qsort ord g local remote adv depth k p tn
               = Session.FDone o' (length rs) n.
Proof. exact BridgeClosedSession_proofs.cs_fetch_objects_delivers. Qed.
Print Assumptions Compose_fetch_delivers.

(** C09_fetch_objects_closed / C09_fetch_closed for the composed server *)
Theorem Compose_fetch_objects_closed : forall qsort ord g local remote adv depth k p tn o' rounds n,
  Session_proofs.Closed g (Session.o_commits (Session.r_objs local)) ->
  BridgeClosedSession.cs_fetch_objects qsort ord g local remote adv depth k p tn = Session.FDone o' rounds n ->
  Session_proofs.Closed g (Session.o_commits o') /\
  incl (Session.o_commits (Session.r_objs local)) (Session.o_commits o') /\
  incl (Session.o_tables (Session.r_objs local)) (Session.o_tables o') /\
  forall w, In w adv -> In w (Session.o_commits o') /\
                        forall a, RefUpdate.anc (Session.to_graph g) a w -> In a (Session.o_commits o').
Proof. exact BridgeClosedSession_proofs.cs_fetch_objects_closed. Qed.
Print Assumptions Compose_fetch_objects_closed.

Theorem Compose_fetch_closed : forall qsort ord g local remote specs gforce depth k p tn,
  Session_proofs.Closed g (Session.o_commits (Session.r_objs local)) ->
  let '(out, l') := BridgeClosedSession.cs_fetch qsort ord g local remote specs gforce depth k p tn in
  Session_proofs.Closed g (Session.o_commits (Session.r_objs l')) /\
  incl (Session.o_commits (Session.r_objs local)) (Session.o_commits (Session.r_objs l')) /\
  incl (Session.o_tables (Session.r_objs local)) (Session.o_tables (Session.r_objs l')) /\
  forall n c, RefUpdate.rget (Session.r_refs l') n = Some c -> RefUpdate.rget (Session.r_refs local) n <> Some c ->
              In c (Session.o_commits (Session.r_objs l')) /\
              forall a, RefUpdate.anc (Session.to_graph g) a c -> In a (Session.o_commits (Session.r_objs l')).
Proof. exact BridgeClosedSession_proofs.cs_fetch_closed. Qed.
Print Assumptions Compose_fetch_closed.

(** non-vacuity.  History 0 <- 1 <- 2, 5 <- 6, 7 = merge(2, 6) (tables 1,2,3,6,7,8); the client has 0,1, the
    server everything; want 7, depth 2, k = 1, one object per packfile.  Every hypothesis of the one-want
    theorems holds; the session takes TWO negotiation rounds (the finder defers the walk in the first) and
    seven packfiles; the region {7, 2, 6} gets its tables 8, 3, 7 and the table 6 of commit 5 - beyond the
    depth - does not come: the conclusion is not trivially true.  (The reference-server session of C09 stores
    the same tables.) *)
Theorem Compose_B4_example_hyps :
  ClosedSetsSpec.sort_fun ClosedSets.isort_time /\ ClosedSetsSpec.order_fun (ClosedSets.ord_of 0) /\
  BridgeClosedSession.GAcyclic BridgeClosedSession_proofs.b4_g /\
  Session_proofs.Closed BridgeClosedSession_proofs.b4_g (Session.o_commits (Session.r_objs BridgeClosedSession_proofs.b4_remote)) /\
  Session_proofs.Closed BridgeClosedSession_proofs.b4_g (Session.o_commits (Session.r_objs BridgeClosedSession_proofs.b4_local)) /\
  BridgeClosedSession.RefsStored (Session.r_objs BridgeClosedSession_proofs.b4_local) (Session.r_refs BridgeClosedSession_proofs.b4_local) /\
  filter (fun c => negb (RefUpdate.cmem c (Session.o_commits (Session.r_objs BridgeClosedSession_proofs.b4_local)))) [7%N] = [7%N] /\
  BridgeClosedSession.SenderFull BridgeClosedSession_proofs.b4_g (Session.r_objs BridgeClosedSession_proofs.b4_remote) 2 [7%N] /\
  BridgeClosedSession.HavesStored BridgeClosedSession_proofs.b4_g (Session.r_objs BridgeClosedSession_proofs.b4_local)
    BridgeClosedSession_proofs.b4_rounds.
Proof. exact BridgeClosedSession_proofs.b4_hyps. Qed.
Print Assumptions Compose_B4_example_hyps.

Theorem Compose_B4_example_serve :
  BridgeClosedSession.cs_serve ClosedSets.isort_time (ClosedSets.ord_of 0) BridgeClosedSession_proofs.b4_g
    BridgeClosedSession_proofs.b4_remote 2 BridgeClosedSession_proofs.b4_rounds [] = Some BridgeClosedSession_proofs.b4_stream /\
  concat (Session.chunk 1 BridgeClosedSession_proofs.b4_stream) = BridgeClosedSession_proofs.b4_stream /\
  Session.receive_packs BridgeClosedSession_proofs.b4_g (Session.r_objs BridgeClosedSession_proofs.b4_local) [7%N]
    (Session.chunk 1 BridgeClosedSession_proofs.b4_stream)
    = Some (Session.mk_objs [0%N; 1%N; 5%N; 6%N; 2%N; 7%N] [1%N; 2%N; 7%N; 3%N; 8%N], [], 7%nat).
Proof. exact BridgeClosedSession_proofs.b4_serve. Qed.
Print Assumptions Compose_B4_example_serve.

Theorem Compose_B4_example_fetch :
  BridgeClosedSession.cs_fetch_objects ClosedSets.isort_time (ClosedSets.ord_of 0) BridgeClosedSession_proofs.b4_g
    BridgeClosedSession_proofs.b4_local BridgeClosedSession_proofs.b4_remote [7%N] 2 1 1 false
    = Session.FDone (Session.mk_objs [0%N; 1%N; 5%N; 6%N; 2%N; 7%N] [1%N; 2%N; 7%N; 3%N; 8%N]) 2 7 /\
  Session_proofs.region BridgeClosedSession_proofs.b4_g 2 7%N = [7%N; 2%N; 6%N] /\
  map (Session.ctbl BridgeClosedSession_proofs.b4_g) (Session_proofs.region BridgeClosedSession_proofs.b4_g 2 7%N)
    = [8%N; 3%N; 7%N] /\
  Session.ctbl BridgeClosedSession_proofs.b4_g 5%N = 6%N /\
  Session.fetch_objects BridgeClosedSession_proofs.b4_g BridgeClosedSession_proofs.b4_local
    BridgeClosedSession_proofs.b4_remote [7%N] 2 1 1 false
    = Session.FDone (Session.mk_objs [0%N; 1%N; 2%N; 5%N; 6%N; 7%N] [1%N; 2%N; 3%N; 7%N; 8%N]) 2 7.
Proof. exact BridgeClosedSession_proofs.b4_fetch. Qed.
Print Assumptions Compose_B4_example_fetch.

(** the premises of Compose_fetch_delivers on the same instance *)
Theorem Compose_B4_example_negotiated :
  exists f,
    BridgeClosedSession.cs_negotiate ClosedSets.isort_time (ClosedSets.ord_of 0) BridgeClosedSession_proofs.b4_g
      (Session.r_objs BridgeClosedSession_proofs.b4_local)
      (BridgeClosedSession.store_of BridgeClosedSession_proofs.b4_g (Session.r_objs BridgeClosedSession_proofs.b4_remote))
      (Session.ref_values (Session.r_refs BridgeClosedSession_proofs.b4_remote)) [7%N] 1
      (S (length BridgeClosedSession_proofs.b4_g))
      (Session.q_new BridgeClosedSession_proofs.b4_g (Session.ref_values (Session.r_refs BridgeClosedSession_proofs.b4_local)))
      (ClosedSets.new_finder 2) []
      = Some (f, BridgeClosedSession_proofs.b4_rounds) /\
    BridgeClosedSession.cs_send (ClosedSets.ord_of 0)
      (BridgeClosedSession.store_of BridgeClosedSession_proofs.b4_g (Session.r_objs BridgeClosedSession_proofs.b4_remote))
      f [] = Some BridgeClosedSession_proofs.b4_stream.
Proof. exact BridgeClosedSession_proofs.b4_negotiated. Qed.
Print Assumptions Compose_B4_example_negotiated.

(** two wants (history 0 <- 1 <- 2, refs on 2 and 1, empty client): the hypotheses of the depth-0 theorem hold
    and both processing orders deliver every table *)
Theorem Compose_B4_example_two_wants_hyps :
  BridgeClosedSession.GAcyclic Session_proofs.wo_g /\
  Session_proofs.Closed Session_proofs.wo_g (Session.o_commits (Session.r_objs BridgeClosedSession_proofs.b4_wo_remote)) /\
  Session_proofs.Closed Session_proofs.wo_g (Session.o_commits (Session.r_objs BridgeClosedSession_proofs.b4_wo_local)) /\
  BridgeClosedSession.RefsStored (Session.r_objs BridgeClosedSession_proofs.b4_wo_local)
    (Session.r_refs BridgeClosedSession_proofs.b4_wo_local) /\
  (forall c, In c (Session.o_commits (Session.r_objs BridgeClosedSession_proofs.b4_wo_remote)) ->
             In (Session.ctbl Session_proofs.wo_g c) (Session.o_tables (Session.r_objs BridgeClosedSession_proofs.b4_wo_remote))).
Proof. exact BridgeClosedSession_proofs.b4_wo_hyps. Qed.
Print Assumptions Compose_B4_example_two_wants_hyps.

Theorem Compose_B4_example_two_wants_depth0 :
  BridgeClosedSession.cs_fetch_objects ClosedSets.isort_time (ClosedSets.ord_of 0) Session_proofs.wo_g
      BridgeClosedSession_proofs.b4_wo_local BridgeClosedSession_proofs.b4_wo_remote [2%N; 1%N] 0 256 2000 false
    = Session.FDone (Session.mk_objs [0%N; 1%N; 2%N] [1%N; 2%N; 3%N]) 1 1 /\
  BridgeClosedSession.cs_fetch_objects ClosedSets.isort_time (ClosedSets.ord_of 1) Session_proofs.wo_g
      BridgeClosedSession_proofs.b4_wo_local BridgeClosedSession_proofs.b4_wo_remote [2%N; 1%N] 0 256 2000 false
    = Session.FDone (Session.mk_objs [0%N; 1%N; 2%N] [1%N; 2%N; 3%N]) 1 1.
Proof. exact BridgeClosedSession_proofs.b4_wo_depth0. Qed.
Print Assumptions Compose_B4_example_two_wants_depth0.
