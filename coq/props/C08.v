(** C08 - negotiation picks a closed, parent-first commit set covering every want.
    Only statements, each closed by [exact] of a lemma from proofs/ClosedSets*_proofs.v.

    The object of every theorem is the transliteration coq/model/ClosedSets.v of
    pkg/api/utils/closed_sets_finder.go + pkg/ref/commits_queue.go.  Everywhere:
      - [qsort] is ANY function returning a permutation (sort.Sort in CommitsQueue.Reset is not
        stable and is fed in Go map order; equal commit times, reversed times: nothing is assumed),
      - [ord] is ANY family of permutations (the Go map iteration order of f.Wants, independently
        for every call of enqueueWants),
      - the history is ANY store whose parent relation is acyclic (witnessed by a rank), with any
        merges / several roots / shared tables / commit times unrelated to topology,
      - a session is ANY list of Process(wants, haves, done) rounds (unknown hashes allowed in
        wants and haves, wants deferred by `done = false` rounds included) followed by
        CommitsToSend.

    What FAILS on the current code and is therefore stated as a refutation, not a theorem:
      - "computation terminates in time polynomial in the history size":  C08_poly_refuted;
      - "tables are selected for exactly the commits within the requested depth" when two wants
        are processed in one call: C08_depth_order_refuted (it holds for one want: C08_depth_one_want,
        and the inclusion "selected => within depth of a want" holds always: C08_depth_sound). *)
From Coq Require Import List NArith Bool Arith Permutation.
From W.lib Require Import Tree.
From W.model Require Import ClosedSets ClosedSetsSpec.
From W.proofs Require Import ClosedSets_proofs ClosedSetsTerm_proofs ClosedSetsQueue_proofs
     ClosedSetsSession_proofs ClosedSetsSingle_proofs ClosedSetsMain_proofs.
Import ListNotations.

(** Cover: every ancestor-or-self of every accepted want is in CommitsToSend or is an
    ancestor-or-self of an acknowledged common commit.  Multi-round, every order. *)
Theorem C08_cover : forall qsort ord g refs depth rs os f L,
  sort_fun qsort -> order_fun ord -> acyclic g ->
  session qsort ord g refs depth rs = (os, Some (Ok (f, L))) ->
  forall w a, In w (accepted_wants rs os) -> anc g w a ->
              In a L \/ exists k, In k (all_acks os) /\ anc g k a.
Proof. exact ClosedSetsMain_proofs.cover_final. Qed.
Print Assumptions C08_cover.

(** Parent-first: at every position of the concatenated send list (duplicates allowed) each
    parent of that commit is itself an acknowledged common or occurs EARLIER in the list. *)
Theorem C08_order : forall qsort ord g refs depth rs os f L,
  sort_fun qsort -> order_fun ord -> acyclic g ->
  session qsort ord g refs depth rs = (os, Some (Ok (f, L))) ->
  forall l1 c l2, L = l1 ++ c :: l2 ->
  forall p, parent_of g c p -> In p (all_acks os) \/ In p l1.
Proof. exact ClosedSetsMain_proofs.order_final. Qed.
Print Assumptions C08_order.

(** Sound: every listed commit is an ancestor-or-self of an accepted want; every ack is one
    of that round's haves, is stored, and is reachable from a ref. *)
Theorem C08_sound : forall qsort ord g refs depth rs os f L,
  sort_fun qsort -> order_fun ord -> acyclic g ->
  session qsort ord g refs depth rs = (os, Some (Ok (f, L))) ->
  (forall x, In x L -> exists w, In w (accepted_wants rs os) /\ anc g w x) /\
  (forall r acks, In (r, ROk acks) (combine rs os) ->
     forall a, In a acks -> In a (r_haves r) /\ get_commit g a <> None /\ reach g refs a).
Proof. exact ClosedSetsMain_proofs.sound_final. Qed.
Print Assumptions C08_sound.

(** Refusal, per round of any session: a round is accepted only if every want is reachable
    from a ref and has its table; it is refused (UnrecognizedWants, state unchanged) only if
    some want is not; store errors need a store that is not closed; fuel never runs out. *)
Theorem C08_refuse : forall qsort ord g refs depth rs os f L,
  sort_fun qsort -> order_fun ord -> acyclic g ->
  session qsort ord g refs depth rs = (os, Some (Ok (f, L))) ->
  forall r o, In (r, o) (combine rs os) ->
    match o with
    | ROk _ => forall w, In w (r_wants r) -> reach g refs w /\ full g w
    | RUnrec sums => sums <> [] /\ exists w, In w (r_wants r) /\ ~ (reach g refs w /\ full g w)
    | RErr => ~ (closed g /\ refs_ok g refs)
    | RFuel => False
    end.
Proof. exact ClosedSetsMain_proofs.rounds_final. Qed.
Print Assumptions C08_refuse.

(** ... and as an equivalence for one Process call in any reachable finder state
    ([finv] is the invariant established by [new_finder] and kept by every call). *)
Theorem C08_refuse_iff : forall qsort ord g refs A f wants haves done,
  sort_fun qsort -> order_fun ord -> acyclic g -> closed g -> refs_ok g refs ->
  finv g A f -> (forall w, In w A -> good_want g refs w) ->
  ((exists sums, process qsort ord g refs f wants haves done = PUnrecognized sums) <->
   exists w, In w wants /\ ~ good_want g refs w).
Proof. exact ClosedSetsSingle_proofs.process_refuses_iff. Qed.
Print Assumptions C08_refuse_iff.

(** Depth, the half that always holds: a selected table belongs to a stored commit at
    parent-path distance < depth from an accepted want (any distance when depth = 0);
    TablesToSend after CommitsToSend is exactly the concatenation of the table lists. *)
Theorem C08_depth_sound : forall qsort ord g refs depth rs os f L,
  sort_fun qsort -> order_fun ord -> acyclic g ->
  session qsort ord g refs depth rs = (os, Some (Ok (f, L))) ->
  tables_to_send ord g f = Ok (f, concat (f_tlists f)) /\
  forall t, In t (concat (f_tlists f)) ->
    exists w k x cm, In w (accepted_wants rs os) /\ path g w k x /\ get_commit g x = Some cm /\
                     c_table cm = t /\ depth_ok depth k = true.
Proof. exact ClosedSetsMain_proofs.tables_final. Qed.
Print Assumptions C08_depth_sound.

(** Depth and list, exactly, for ONE want (one round, any haves, done or not): the commits
    sent are exactly those reached from the want along parent paths that avoid the acknowledged
    commons, the tables selected are exactly those of such commits reached at depth < depth
    (all when depth = 0), and the list is parent-first. *)
(** NOTE: [t] ranges over TABLE sums ([c_table cm]), not over commits: TablesToSend is a set of
    table sums, and a table is selected iff SOME visited commit within depth carries it - also when
    another commit carrying the same table (a revert, identical data on two branches, the same
    commit reached again by a longer path) lies beyond the depth.  See [C08_revert_tables]. *)
Theorem C08_depth_one_want : forall qsort ord g refs depth w haves done acks f L,
  sort_fun qsort -> order_fun ord -> acyclic g ->
  session qsort ord g refs depth [mkRound [w] haves done] = ([ROk acks], Some (Ok (f, L))) ->
  (forall x, In x L <-> exists k, vis g (stopb [] acks) w k x) /\
  (forall t, In t (concat (f_tlists f)) <->
             exists k x cm, vis g (stopb [] acks) w k x /\ get_commit g x = Some cm /\
                            c_table cm = t /\ depth_ok depth k = true) /\
  (forall l1 c l2, L = l1 ++ c :: l2 -> forall p, parent_of g c p -> In p acks \/ In p l1).
Proof. exact ClosedSetsMain_proofs.one_want_final. Qed.
Print Assumptions C08_depth_one_want.

(** REFUTED clause (tables with two wants).  History B <- A, both tables stored, ref on A,
    wants {A, B}, depth 1, no haves.  Both processing orders are permutations; walking A first
    marks B as seen, so B - a want, at distance 0 - gets NO table (table 10); walking B first
    selects both. *)
Theorem C08_depth_order_refuted :
  order_fun (ord_of 0) /\ order_fun (ord_of 1) /\ sort_fun isort_time /\ acyclic wit_store /\
  wit_tables 0 = Some [11%N] /\ wit_tables 1 = Some [10%N; 11%N].
Proof. exact ClosedSetsMain_proofs.witness_final. Qed.
Print Assumptions C08_depth_order_refuted.

(** The commit SET of a single-round session with any number of wants is exactly the set of
    commits reached from some want along common-free parent paths - for every processing order;
    hence it is order-independent (C08_set_order_independent).  Parent-first order, cover and
    soundness are order-independent by C08_order / C08_cover / C08_sound. *)
Theorem C08_set_exact : forall qsort ord g refs depth r acks f L,
  sort_fun qsort -> order_fun ord -> acyclic g ->
  session qsort ord g refs depth [r] = ([ROk acks], Some (Ok (f, L))) ->
  forall x, In x L <-> exists w, In w (r_wants r) /\ exists k, vis g (stopb [] acks) w k x.
Proof. exact ClosedSetsMain_proofs.set_final. Qed.
Print Assumptions C08_set_exact.

Theorem C08_set_order_independent : forall qsort ord1 ord2 g refs depth r acks f1 L1 f2 L2,
  sort_fun qsort -> order_fun ord1 -> order_fun ord2 -> acyclic g ->
  session qsort ord1 g refs depth [r] = ([ROk acks], Some (Ok (f1, L1))) ->
  session qsort ord2 g refs depth [r] = ([ROk acks], Some (Ok (f2, L2))) ->
  forall x, In x L1 <-> In x L2.
Proof. exact ClosedSetsSingle_proofs.single_round_set_indep. Qed.
Print Assumptions C08_set_order_independent.

(** acks do not depend on the processing order (so the hypothesis "same acks" above is free) *)
Theorem C08_acks_order_independent :
  forall qsort ord1 ord2 g refs f wants haves done f1 acks1 f2 acks2,
  process qsort ord1 g refs f wants haves done = POk f1 acks1 ->
  process qsort ord2 g refs f wants haves done = POk f2 acks2 -> acks1 = acks2.
Proof. exact ClosedSetsSingle_proofs.process_acks_indep. Qed.
Print Assumptions C08_acks_order_independent.

(** Termination on every acyclic history, every session: no call ever runs out of the fuel
    (queue pops: |commits|+1; ancestors walk: |commits|*(maxdeg+2)+2; walk of a want: its
    number of parent paths), and on a closed store with valid refs the session completes. *)
Theorem C08_terminates : forall qsort ord g refs depth rs os fin,
  sort_fun qsort -> order_fun ord -> acyclic g ->
  session qsort ord g refs depth rs = (os, fin) ->
  fin <> Some Fuel /\ (forall r, ~ In (r, RFuel) (combine rs os)) /\
  (closed g -> refs_ok g refs ->
   (forall r, ~ In (r, RErr) (combine rs os)) /\ exists f L, fin = Some (Ok (f, L))).
Proof. exact ClosedSetsMain_proofs.main_terminates. Qed.
Print Assumptions C08_terminates.

(** Exact step count: a completed walk of one want pops exactly [npaths_sat] queue entries,
    and [npaths_sat] is the number of parent paths (cut at stopped commits): it satisfies the
    path-count recurrence.  There is no visited set, so this is not bounded by |commits|. *)
Theorem C08_steps : forall g depth seen commons defer w sums cl tl, acyclic g ->
  walk_want g depth seen commons defer w = WDone sums cl tl ->
  length sums = npaths_sat g (stopb seen commons) w.
Proof. exact ClosedSetsMain_proofs.main_steps. Qed.
Print Assumptions C08_steps.

Theorem C08_steps_recurrence : forall g stop, acyclic g -> forall c,
  npaths_sat g stop c =
  if stop c then 1 else S (list_sum (map (npaths_sat g stop) (parents_of g c))).
Proof. exact ClosedSetsTerm_proofs.npaths_rec. Qed.
Print Assumptions C08_steps_recurrence.

(** REFUTED clause (polynomial time).  For the chain of n stacked diamonds (3n+1 commits, one
    ref = one want = the top, no haves) CommitsToSend has exactly 2^(n+2) - 3 entries, for
    every n. *)
Theorem C08_poly_refuted : forall n,
  exists l, diamond_send n = Some l /\ length l + 3 = 2 ^ (n + 2).
Proof. exact ClosedSetsTerm_proofs.diamond_send_len. Qed.
Print Assumptions C08_poly_refuted.

(** non-vacuity: a concrete two-commit, two-want session meets every hypothesis above and
    produces a non-empty list; a concrete diamond count *)
Example C08_nonvacuous :
  session isort_time (ord_of 0) wit_store [1%N] 1 [wit_round]
  = ([ROk []], Some (Ok (mkF [] [] [[0%N; 1%N]; []] [[11%N]; []] 1 1 true [1%N; 0%N], [0%N; 1%N]))).
Proof. vm_compute. reflexivity. Qed.

Example C08_diamond_4 : option_map (@length _) (diamond_send 4) = Some 61.
Proof. vm_compute. reflexivity. Qed.

(** non-vacuity for shared table sums: the revert history c1(T1) <- c2(T2) <- c3(T3) <- c4(T1),
    want c4, depth 2.  T1 is selected (c4 carries it at depth 0) although c1, at depth 3, carries it
    too and is beyond the depth; T3 is selected (depth 1); T2 (depth 2) is not. *)
Definition rev_store : store :=
  mkStore [(4%N, mkCommit [3%N] 14 1); (3%N, mkCommit [2%N] 13 3);
           (2%N, mkCommit [1%N] 12 2); (1%N, mkCommit [] 11 1)] [1%N; 2%N; 3%N].

Example C08_revert_tables :
  match session isort_time (ord_of 0) rev_store [4%N] 2 [mkRound [4%N] [] true] with
  | (os, Some (Ok (f, L))) =>
      os = [ROk []] /\ L = [1%N; 2%N; 3%N; 4%N] /\ concat (f_tlists f) = [3%N; 1%N]
  | _ => False
  end.
Proof. vm_compute. repeat split; reflexivity. Qed.

Example C08_revert_beyond_depth :
  vis rev_store (stopb [] []) 4%N 3 1%N /\ depth_ok 2 3 = false /\
  vis rev_store (stopb [] []) 4%N 0 4%N /\ depth_ok 2 0 = true /\
  get_commit rev_store 1%N = Some (mkCommit [] 11 1) /\
  get_commit rev_store 4%N = Some (mkCommit [3%N] 14 1).
Proof.
  assert (V0 : vis rev_store (stopb [] []) 4%N 0 4%N) by (apply visf_0; [reflexivity|discriminate]).
  assert (V1 : vis rev_store (stopb [] []) 4%N 1 3%N).
  { eapply visf_S; [exact V0|vm_compute; auto|reflexivity|discriminate]. }
  assert (V2 : vis rev_store (stopb [] []) 4%N 2 2%N).
  { eapply visf_S; [exact V1|vm_compute; auto|reflexivity|discriminate]. }
  assert (V3 : vis rev_store (stopb [] []) 4%N 3 1%N).
  { eapply visf_S; [exact V2|vm_compute; auto|reflexivity|discriminate]. }
  repeat split; auto.
Qed.
